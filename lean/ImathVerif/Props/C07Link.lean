import ImathVerif.Lemmas.C07LinkInst
/-!
# C07 ∘ C06 — `Matrix44::inverse (true)` throws ⇔ `inverse ()` reports failure, at FULL strength

`Props/C07.lean` treats the 4×4 Gauss-Jordan members as PARAMETER functions of the extracted definitions
(`gj44` = `gjInverse ()`, `gj44F` = `gjInverse (false)`, `gj44Tstatus`/`gj44Tvalue` = `gjInverse (true)`), with two
hypotheses (`hok : gjTs a = 0 → gjTv a = gj a`, `herr : gjTs a ≠ 0 → gj a = 1`), and could therefore prove only one
direction of the failure equivalence (`M44_inverse_failure_partial`).

`Props/C06.lean` proves the Gauss-Jordan model (`Model/GaussJordan.lean`, `M44.gjInverse` / `M44.gjInverseExc`,
tied to the real members bit for bit by the C06 correspondence harness) correct: the singular exit is taken iff
`det M = 0`, otherwise the result is a two-sided inverse.

Here the parameters are INSTANTIATED with that model (`gj`, `gjF`, `gjTs`, `gjTv` in `Lemmas/C07LinkInst.lean`; all four are
read off the two model functions `M44.gjInverse`, `M44.gjInverseExc`, i.e. `gjCore` at `n = 4`); the two hypotheses become
lemmas there (`gj_hok`, `gj_herr`, and `gjF_eq` for the `(false)` copy) — TRUE BY CONSTRUCTION, helper lemmas, not obligations
of the property — and the equivalence is proved in both directions (`M44_inverse_failure`).  The converse uses C06's determinant characterisation: on the Gauss-Jordan arm the
unchecked form returns the identity only when `det M = 0` (then the checked form throws) or when `M` is the
identity (`gj_eq_one_imp`); on the affine arm the cofactor formula gives the identity only for the identity
(`M44_affineInverse_one`).  Nothing is left `_partial`.

`==` of the model is any lawful `BEq` (`[BEq α] [LawfulBEq α]`, as in C06); every ordered field has one.
-/
set_option linter.unusedSectionVars false
set_option linter.unusedVariables false
set_option linter.unusedSimpArgs false
namespace ImathVerif.C07Link
open ImathVerif ImathVerif.C07 Matrix

variable {α : Type} [Field α] [LinearOrder α] [IsStrictOrderedRing α] [BEq α] [LawfulBEq α]

/-- the status of `gjInverse (true)` is "returned" exactly for a non-singular matrix -/
theorem gjTs_eq_zero_iff (a : M44 α) : gjTs a = 0 ↔ a.toMat.det ≠ 0 := by
  unfold gjTs
  rcases gjExc_cases a with ⟨hd, he, _⟩ | ⟨hd, he⟩
  · rw [he]; simp [hd]
  · rw [he]; simp [hd]

/-- non-vacuity: both outcomes of the instantiated pair occur (the model evaluated on concrete rational matrices) -/
example : gjTs (⟨0, 1, 0, 0, 2, 0, 0, 0, 0, 0, 4, 0, 0, 0, 0, 1⟩ : M44 ℚ) = 0 ∧
    gjTv (⟨0, 1, 0, 0, 2, 0, 0, 0, 0, 0, 4, 0, 0, 0, 0, 1⟩ : M44 ℚ) = ⟨0, 1 / 2, 0, 0, 1, 0, 0, 0, 0, 0, 1 / 4, 0, 0, 0, 0, 1⟩ ∧
    gj (⟨0, 1, 0, 0, 2, 0, 0, 0, 0, 0, 4, 0, 0, 0, 0, 1⟩ : M44 ℚ) = ⟨0, 1 / 2, 0, 0, 1, 0, 0, 0, 0, 0, 1 / 4, 0, 0, 0, 0, 1⟩ := by
  decide +kernel
example : gjTs (⟨1, 2, 3, 4, 2, 4, 6, 8, 0, 1, 1, 5, 0, 0, 1, 7⟩ : M44 ℚ) ≠ 0 ∧
    gj (⟨1, 2, 3, 4, 2, 4, 6, 8, 0, 1, 1, 5, 0, 0, 1, 7⟩ : M44 ℚ) = M44.one ℚ := by
  decide +kernel

/-! ## The identity is returned only for a singular matrix or for the identity itself -/

theorem M44_eq_one_of_toMat (a : M44 α) (h : a.toMat = 1) : a = M44.one α := by
  have e := fun i j => congrFun (congrFun h i) j
  have e00 := e 0 0; have e01 := e 0 1; have e02 := e 0 2; have e03 := e 0 3
  have e10 := e 1 0; have e11 := e 1 1; have e12 := e 1 2; have e13 := e 1 3
  have e20 := e 2 0; have e21 := e 2 1; have e22 := e 2 2; have e23 := e 2 3
  have e30 := e 3 0; have e31 := e 3 1; have e32 := e 3 2; have e33 := e 3 3
  simp [M44.toMat] at e00 e01 e02 e03 e10 e11 e12 e13 e20 e21 e22 e23 e30 e31 e32 e33
  rw [← M44_eta a]
  simp only [M44.one, M44.mk.injEq]
  exact ⟨e00, e01, e02, e03, e10, e11, e12, e13, e20, e21, e22, e23, e30, e31, e32, e33⟩

/-- Gauss-Jordan arm: a NON-singular matrix whose `gjInverse ()` is the identity is the identity (C06: `s * M = 1`) -/
theorem gj_eq_one_imp (a : M44 α) (hd : a.toMat.det ≠ 0) (h : gj a = M44.one α) : a = M44.one α := by
  have hs := (C06.M44_gjInverse_spec a hd).1
  unfold gj at h
  rw [h, M44_one_eq_identity, C06.M44_identity_toMat, one_mul] at hs
  exact M44_eq_one_of_toMat a hs

/-- `gjInverse ()` returns the identity only for a singular matrix or for the identity itself -/
theorem gj_eq_one_iff (a : M44 α) : gj a = M44.one α ↔ (a.toMat.det = 0 ∨ a = M44.one α) := by
  constructor
  · intro h
    by_cases hd : a.toMat.det = 0
    · exact Or.inl hd
    · exact Or.inr (gj_eq_one_imp a hd h)
  · rintro (hd | rfl)
    · unfold gj; rw [C06.M44_gjInverse_singular a hd]; rfl
    · have hd : (M44.one α).toMat.det ≠ 0 := by
        rw [M44_one_eq_identity, C06.M44_identity_toMat, det_one]; exact one_ne_zero
      have hs := (C06.M44_gjInverse_spec (M44.one α) hd).1
      rw [M44_one_eq_identity, C06.M44_identity_toMat, mul_one] at hs
      exact M44_eq_one_of_toMat _ hs

/-- cofactor formula, 3×3: `adj u / det u = 1` with `det u ≠ 0` only for `u = 1` (`u · adj u = det u · 1`) -/
theorem M33_adjOverDet_one (u : M33 α) (hd : M33.det u ≠ 0) (hv : M33.adjOverDet u = M33.one α) : u = M33.one α := by
  simp only [M33.adjOverDet, M33.one, M33.mk.injEq] at hv
  obtain ⟨e00, e01, e02, e10, e11, e12, e20, e21, e22⟩ := hv
  rw [div_eq_iff hd] at e00 e01 e02 e10 e11 e12 e20 e21 e22
  simp only [one_mul, zero_mul] at e00 e01 e02 e10 e11 e12 e20 e21 e22
  have g00 : M33.det u * u.x00 = M33.det u := by
    have : u.x00 * (M33.adj u).x00 + u.x01 * (M33.adj u).x10 + u.x02 * (M33.adj u).x20 = M33.det u := rfl
    rw [e00, e10, e20] at this; linear_combination this
  have g01 : M33.det u * u.x01 = 0 := by
    have : u.x00 * (M33.adj u).x01 + u.x01 * (M33.adj u).x11 + u.x02 * (M33.adj u).x21 = 0 := by simp only [M33.adj]; ring
    rw [e01, e11, e21] at this; linear_combination this
  have g02 : M33.det u * u.x02 = 0 := by
    have : u.x00 * (M33.adj u).x02 + u.x01 * (M33.adj u).x12 + u.x02 * (M33.adj u).x22 = 0 := by simp only [M33.adj]; ring
    rw [e02, e12, e22] at this; linear_combination this
  have g10 : M33.det u * u.x10 = 0 := by
    have : u.x10 * (M33.adj u).x00 + u.x11 * (M33.adj u).x10 + u.x12 * (M33.adj u).x20 = 0 := by simp only [M33.adj]; ring
    rw [e00, e10, e20] at this; linear_combination this
  have g11 : M33.det u * u.x11 = M33.det u := by
    have : u.x10 * (M33.adj u).x01 + u.x11 * (M33.adj u).x11 + u.x12 * (M33.adj u).x21 = M33.det u := by
      simp only [M33.det, M33.adj]; ring
    rw [e01, e11, e21] at this; linear_combination this
  have g12 : M33.det u * u.x12 = 0 := by
    have : u.x10 * (M33.adj u).x02 + u.x11 * (M33.adj u).x12 + u.x12 * (M33.adj u).x22 = 0 := by simp only [M33.adj]; ring
    rw [e02, e12, e22] at this; linear_combination this
  have g20 : M33.det u * u.x20 = 0 := by
    have : u.x20 * (M33.adj u).x00 + u.x21 * (M33.adj u).x10 + u.x22 * (M33.adj u).x20 = 0 := by simp only [M33.adj]; ring
    rw [e00, e10, e20] at this; linear_combination this
  have g21 : M33.det u * u.x21 = 0 := by
    have : u.x20 * (M33.adj u).x01 + u.x21 * (M33.adj u).x11 + u.x22 * (M33.adj u).x21 = 0 := by simp only [M33.adj]; ring
    rw [e01, e11, e21] at this; linear_combination this
  have g22 : M33.det u * u.x22 = M33.det u := by
    have : u.x20 * (M33.adj u).x02 + u.x21 * (M33.adj u).x12 + u.x22 * (M33.adj u).x22 = M33.det u := by
      simp only [M33.det, M33.adj]; ring
    rw [e02, e12, e22] at this; linear_combination this
  have z : ∀ x : α, M33.det u * x = 0 → x = 0 := fun x hx => (mul_eq_zero.mp hx).resolve_left hd
  have o : ∀ x : α, M33.det u * x = M33.det u → x = 1 := fun x hx => by
    have : M33.det u * (x - 1) = 0 := by linear_combination hx
    have := z _ this; linarith
  have e : u = ⟨u.x00, u.x01, u.x02, u.x10, u.x11, u.x12, u.x20, u.x21, u.x22⟩ := rfl
  rw [e]
  simp only [M33.one, M33.mk.injEq]
  exact ⟨o _ g00, z _ g01, z _ g02, z _ g10, o _ g11, z _ g12, z _ g20, z _ g21, o _ g22⟩

/-- affine arm: the fast path returns the identity (with a non-zero block determinant) only for the identity -/
theorem M44_affineInverse_one (a : M44 α) (ha : M44.affine a) (hd : M33.det (M44.upper a) ≠ 0)
    (hv : M44.affineInverse a = M44.one α) : a = M44.one α := by
  obtain ⟨h03, h13, h23, h33⟩ := ha
  simp only [M44.affineInverse, M44.one, M44.mk.injEq] at hv
  obtain ⟨e00, e01, e02, _, e10, e11, e12, _, e20, e21, e22, _, e30, e31, e32, _⟩ := hv
  have hu : M44.upper a = M33.one α := by
    apply M33_adjOverDet_one _ hd
    have e : M33.adjOverDet (M44.upper a) =
        ⟨(M33.adjOverDet (M44.upper a)).x00, (M33.adjOverDet (M44.upper a)).x01, (M33.adjOverDet (M44.upper a)).x02,
         (M33.adjOverDet (M44.upper a)).x10, (M33.adjOverDet (M44.upper a)).x11, (M33.adjOverDet (M44.upper a)).x12,
         (M33.adjOverDet (M44.upper a)).x20, (M33.adjOverDet (M44.upper a)).x21, (M33.adjOverDet (M44.upper a)).x22⟩ := rfl
    rw [e, e00, e01, e02, e10, e11, e12, e20, e21, e22]; rfl
  rw [e00, e10, e20] at e30
  rw [e01, e11, e21] at e31
  rw [e02, e12, e22] at e32
  simp only [M44.upper, M33.one, M33.mk.injEq] at hu
  obtain ⟨u00, u01, u02, u10, u11, u12, u20, u21, u22⟩ := hu
  rw [← M44_eta a]
  simp only [M44.one, M44.mk.injEq]
  refine ⟨u00, u01, u02, h03, u10, u11, u12, h13, u20, u21, u22, h23, ?_, ?_, ?_, h33⟩
  · linear_combination -e30
  · linear_combination -e31
  · linear_combination -e32

/-! ## `Matrix44::inverse (true)` against `inverse ()` for the instantiated Gauss-Jordan pair -/

/-- the pair theorems of C07 with their hypotheses discharged: returns ⇒ same value; throws ⇒ `std::invalid_argument`
and the unchecked form returns the identity -/
theorem M44_inverseT_ok (tmin : α) (a y : M44 α) (h : Gen.C07.M44.inverseT tmin gjTs gjTv a = .ok y) :
    Gen.C07.M44.inverse0 tmin gj a = y :=
  C07.M44_inverseT_ok tmin gj gjTv gjTs a y (gj_hok a) (gj_herr a) h

theorem M44_inverseT_error (tmin : α) (a : M44 α) (k : Exc) (h : Gen.C07.M44.inverseT tmin gjTs gjTv a = .error k) :
    k = Exc.invalidArgument ∧ Gen.C07.M44.inverse0 tmin gj a = M44.one α :=
  C07.M44_inverseT_error tmin gj gjTv gjTs a k (gj_hok a) (gj_herr a) h

/-- all duplicated bodies (`inverse (false)`, `invert ()`, `invert (false)`, `invert (true)`), no hypothesis left -/
theorem M44_inverse_copies (tmin : α) (a : M44 α) :
    Gen.C07.M44.inverseF tmin gjF a = Gen.C07.M44.inverse0 tmin gj a ∧
    Gen.C07.M44.invert0 tmin gj a = Gen.C07.M44.inverse0 tmin gj a ∧
    Gen.C07.M44.invertF tmin gjF a = Gen.C07.M44.inverse0 tmin gj a ∧
    Gen.C07.M44.invertT tmin gjTs gjTv a = Gen.C07.M44.inverseT tmin gjTs gjTv a := by
  obtain ⟨h1, h2, h3, h4⟩ := C07.M44_inverse_copies tmin gj gjF gjTv gjTs a (gjF_eq a)
  exact ⟨h1, h2, h3.trans h1, h4⟩

/-- `inverse (true)` returns `y`: the complete description (normal form of C07 + the status lemma) -/
theorem M44_inverseT_ok_iff (tmin : α) (a y : M44 α) :
    Gen.C07.M44.inverseT tmin gjTs gjTv a = .ok y ↔
      ((M44.affine a ∧ (1 ≤ |M33.det (M44.upper a)| ∨ M33.guardsPass tmin (M44.upper a)) ∧ M44.affineInverse a = y) ∨
       (¬ M44.affine a ∧ a.toMat.det ≠ 0 ∧ gj a = y)) := by
  rw [M44_inverseT_normal_form]
  by_cases ha : M44.affine a
  · simp only [ha, if_true, ite_ok_err_ok_iff]; tauto
  · simp only [ha, if_false, ite_ok_err_ok_iff, gjTs_eq_zero_iff]
    constructor
    · rintro ⟨hd, hy⟩
      exact Or.inr ⟨not_false, hd, by rw [← gj_hok a ((gjTs_eq_zero_iff a).mpr hd)]; exact hy⟩
    · rintro (⟨hf, _⟩ | ⟨_, hd, hy⟩)
      · exact absurd hf not_false
      · exact ⟨hd, by rw [gj_hok a ((gjTs_eq_zero_iff a).mpr hd)]; exact hy⟩

/-- `inverse (true)` throws `std::invalid_argument`, exactly when: on the affine arm `|det| < 1` and some cofactor fails
the guard; on the Gauss-Jordan arm `det M = 0` (Mathlib's determinant of the 4×4 matrix) -/
theorem M44_inverseT_error_iff (tmin : α) (a : M44 α) (k : Exc) :
    Gen.C07.M44.inverseT tmin gjTs gjTv a = .error k ↔
      (k = Exc.invalidArgument ∧
        ((M44.affine a ∧ |M33.det (M44.upper a)| < 1 ∧ ¬ M33.guardsPass tmin (M44.upper a)) ∨
         (¬ M44.affine a ∧ a.toMat.det = 0))) := by
  rw [C07.M44_inverseT_error_iff, ne_eq, gjTs_eq_zero_iff, not_not]

/-- the only matrix whose computed inverse is the identity is the identity -/
theorem M44_inverseT_ok_one (tmin : α) (a : M44 α) (h : Gen.C07.M44.inverseT tmin gjTs gjTv a = .ok (M44.one α)) :
    a = M44.one α := by
  rcases (M44_inverseT_ok_iff tmin a _).mp h with ⟨ha, hg, hv⟩ | ⟨_, hd, hv⟩
  · exact M44_affineInverse_one a ha (M33.det_ne_zero_of_guards tmin _ hg) hv
  · exact gj_eq_one_imp a hd hv

/-- FULL STRENGTH (both directions; closes `C07.M44_inverse_failure_partial`): `Matrix44::inverse (true)` throws exactly
when `Matrix44::inverse ()` reports failure, i.e. returns the identity for a matrix that is not the identity -/
theorem M44_inverse_failure (tmin : α) (a : M44 α) :
    Gen.C07.M44.inverseT tmin gjTs gjTv a = .error Exc.invalidArgument ↔
      (Gen.C07.M44.inverse0 tmin gj a = M44.one α ∧ a ≠ M44.one α) := by
  constructor
  · exact C07.M44_inverse_failure_partial tmin gj gjTv gjTs a (gj_hok a) (gj_herr a)
  · rintro ⟨h1, hne⟩
    rcases except_cases (Gen.C07.M44.inverseT tmin gjTs gjTv a) with ⟨y, hy⟩ | ⟨k, hk⟩
    · exfalso
      have hy1 : y = M44.one α := by rw [← h1]; exact (M44_inverseT_ok tmin a y hy).symm
      exact hne (M44_inverseT_ok_one tmin a (hy1 ▸ hy))
    · rw [hk, (M44_inverseT_error tmin a k hk).1]

/-- the same equivalence for every other copy: `inverse (false)`, and the in-place `invert (true)` against `invert ()` /
`invert (false)` -/
theorem M44_inverse_failure_copies (tmin : α) (a : M44 α) :
    (Gen.C07.M44.inverseT tmin gjTs gjTv a = .error Exc.invalidArgument ↔
      (Gen.C07.M44.inverseF tmin gjF a = M44.one α ∧ a ≠ M44.one α)) ∧
    (Gen.C07.M44.invertT tmin gjTs gjTv a = .error Exc.invalidArgument ↔
      (Gen.C07.M44.invert0 tmin gj a = M44.one α ∧ a ≠ M44.one α)) ∧
    (Gen.C07.M44.invertT tmin gjTs gjTv a = .error Exc.invalidArgument ↔
      (Gen.C07.M44.invertF tmin gjF a = M44.one α ∧ a ≠ M44.one α)) := by
  obtain ⟨h1, h2, h3, h4⟩ := M44_inverse_copies tmin a
  rw [h1, h2, h3, h4]
  exact ⟨M44_inverse_failure tmin a, M44_inverse_failure tmin a, M44_inverse_failure tmin a⟩

/-- well-conditioned input never throws, hypotheses on the MATRIX only (no status function left): an affine matrix
with `|det| ≥ 1`, or a non-affine matrix with `det ≠ 0`; on the Gauss-Jordan arm the value is then a two-sided inverse -/
theorem M44_inverseT_never (tmin : α) (a : M44 α)
    (h : (M44.affine a ∧ 1 ≤ |M33.det (M44.upper a)|) ∨ (¬ M44.affine a ∧ a.toMat.det ≠ 0)) :
    Gen.C07.M44.inverseT tmin gjTs gjTv a = .ok (Gen.C07.M44.inverse0 tmin gj a) :=
  C07.M44_inverseT_never tmin gj gjTv gjTs a (gj_hok a) (gj_herr a)
    (h.imp id fun ⟨hna, hd⟩ => ⟨hna, (gjTs_eq_zero_iff a).mpr hd⟩)

theorem M44_inverse0_nonaffine_mul (tmin : α) (a : M44 α) (hna : ¬ M44.affine a) (hd : a.toMat.det ≠ 0) :
    (Gen.C07.M44.inverse0 tmin gj a).toMat * a.toMat = 1 ∧ a.toMat * (Gen.C07.M44.inverse0 tmin gj a).toMat = 1 := by
  have hok := M44_inverseT_never tmin a (Or.inr ⟨hna, hd⟩)
  rcases (M44_inverseT_ok_iff tmin a _).mp hok with ⟨ha, _⟩ | ⟨_, _, hv⟩
  · exact absurd ha hna
  · rw [← hv]; exact C06.M44_gjInverse_spec a hd

/-- non-vacuity of the hypotheses above and of both sides of `M44_inverse_failure`:
a non-affine singular matrix (Gauss-Jordan arm throws, unchecked form gives the identity, input is not the identity);
a non-affine non-singular one (no throw) -/
example : ¬ M44.affine (⟨1, 2, 3, 4, 2, 4, 6, 8, 0, 1, 1, 5, 0, 0, 1, 7⟩ : M44 ℚ) ∧
    (⟨1, 2, 3, 4, 2, 4, 6, 8, 0, 1, 1, 5, 0, 0, 1, 7⟩ : M44 ℚ).toMat.det = 0 ∧
    (⟨1, 2, 3, 4, 2, 4, 6, 8, 0, 1, 1, 5, 0, 0, 1, 7⟩ : M44 ℚ) ≠ M44.one ℚ := by
  refine ⟨by simp [M44.affine], ?_, by simp [M44.one]⟩
  rw [det_fin_four]; simp [M44.toMat]; norm_num
example : Gen.C07.M44.inverseT (1 / 1024 : ℚ) gjTs gjTv ⟨1, 2, 3, 4, 2, 4, 6, 8, 0, 1, 1, 5, 0, 0, 1, 7⟩ = .error Exc.invalidArgument := by
  rw [M44_inverseT_error_iff]
  refine ⟨rfl, Or.inr ⟨by simp [M44.affine], ?_⟩⟩
  rw [det_fin_four]; simp [M44.toMat]; norm_num
example : ¬ M44.affine (⟨0, 1, 0, 1, 2, 0, 0, 0, 0, 0, 4, 0, 0, 0, 0, 1⟩ : M44 ℚ) ∧
    (⟨0, 1, 0, 1, 2, 0, 0, 0, 0, 0, 4, 0, 0, 0, 0, 1⟩ : M44 ℚ).toMat.det ≠ 0 := by
  refine ⟨by simp [M44.affine], ?_⟩
  rw [det_fin_four]; simp [M44.toMat]

end ImathVerif.C07Link
