import ImathVerif.Spec.MatSpec
import ImathVerif.Spec.TransformSpec
import ImathVerif.Gen.C09Quat
import ImathVerif.Gen.C09Rot
import ImathVerif.Lemmas.C09Lemmas
import ImathVerif.Lemmas.C09FrameLemmas
import ImathVerif.Lemmas.C09NextFrame
import ImathVerif.Lemmas.C09Quat
import ImathVerif.Lemmas.C09QuatSplit
import Mathlib.Tactic.Ring
import Mathlib.Tactic.FinCases
import Mathlib.Analysis.SpecialFunctions.Trigonometric.Basic
/-!
# C09 (part 4) — rotationMatrix (from, to) = Quat::setRotation (from, to).toMatrix44 ()

See `Props/C09.lean` for the conventions.  `Gen.Frame.quatSetRotation` and `Gen.Frame.quatToMatrix44` are regenerated from ImathQuat.h
(`Gen/C09Quat.lean`); `Gen.Frame.rotationMatrix` (`Gen/C09Rot.lean`, from ImathMatrixAlgo.h) is extracted with `Quat::setRotation` as an
opaque call of the former.  `teps` is `numeric_limits<T>::epsilon()`, a parameter without any assumption.
-/
set_option linter.unreachableTactic false
set_option linter.unusedTactic false
set_option linter.unusedSectionVars false
set_option linter.unusedSimpArgs false
set_option linter.unusedVariables false
namespace ImathVerif.C09
open ImathVerif Matrix

section Frames
variable {α : Type} [Field α] [LinearOrder α] [IsStrictOrderedRing α]

set_option maxHeartbeats 8000000 in
/-- for non-zero `from`, `to` (the only inputs the property speaks about) the extracted decision tree of `Quat::setRotation (from, to)`
IS the documented case analysis `quatSetRotationSpec`: angle ≤ π/2 — one half-way quaternion; larger — product of two;
`|from^ + to^|² ≤ (8ε)²`, i.e. opposite to within rounding — half-turn about an axis ⟂ `from` -/
theorem quatSetRotation_spec (tmin tmax teps : α) (sqrt : α → α) (q : Quat α) (fromDir toDir : V3 α)
    (h1 : Gen.V3.length tmin tmax sqrt fromDir ≠ 0) (h2 : Gen.V3.length tmin tmax sqrt toDir ≠ 0) :
    Gen.Frame.quatSetRotation tmin tmax teps sqrt q fromDir toDir = quatSetRotationSpec (Gen.V3.length tmin tmax sqrt) teps fromDir toDir := by
  obtain ⟨fx, fy, fz⟩ := fromDir
  obtain ⟨tx, ty, tz⟩ := toDir
  simp only [Gen.Frame.quatSetRotation, quatSetRotationSpec, qInternal, qOppositeAxis, qmul, nrm, cross, dot, vadd]
  generalize Gen.V3.length tmin tmax sqrt = len at h1 h2 ⊢
  simp only [h1, h2, if_true, if_false]
  generalize fx / len ⟨fx, fy, fz⟩ = a1
  generalize fy / len ⟨fx, fy, fz⟩ = a2
  generalize fz / len ⟨fx, fy, fz⟩ = a3
  generalize tx / len ⟨tx, ty, tz⟩ = b1
  generalize ty / len ⟨tx, ty, tz⟩ = b2
  generalize tz / len ⟨tx, ty, tz⟩ = b3
  by_cases hd : 0 ≤ a1 * b1 + a2 * b2 + a3 * b3
  · simp only [hd, if_true]
    split_ifs <;> simp_all
  · simp only [hd, if_false]
    by_cases hc : 8 * teps * (8 * teps) < (a1 + b1) * (a1 + b1) + (a2 + b2) * (a2 + b2) + (a3 + b3) * (a3 + b3)
    · simp only [hc, if_true]
      by_cases hs : len ⟨a1 + b1, a2 + b2, a3 + b3⟩ = 0
      · simp only [hs, if_true]
        split_ifs <;> simp_all
      · simp only [hs, if_false]
        split_ifs <;> first | rfl | (simp_all; done)
    · simp only [hc, if_false]
      split_ifs <;> simp_all

/-- `Quat::toMatrix44 ()` -/
theorem quatToMatrix44_spec (q : Quat α) : Gen.Frame.quatToMatrix44 q = quatM44 q := by
  unfold Gen.Frame.quatToMatrix44 quatM44 frameM44 qRow0 qRow1 qRow2
  congr 1 <;> ring1

/-- `rotationMatrix (from, to)` for non-zero `from`, `to`: the documented case analysis, as a matrix -/
theorem rotationMatrix_spec (tmin tmax teps : α) (sqrt : α → α) (hlen : LenSpec (Gen.V3.length tmin tmax sqrt)) (fromDir toDir : V3 α)
    (hf : fromDir ≠ ⟨0, 0, 0⟩) (ht : toDir ≠ ⟨0, 0, 0⟩) :
    Gen.Frame.rotationMatrix tmin tmax teps sqrt fromDir toDir = rotationMatrixSpec (Gen.V3.length tmin tmax sqrt) teps fromDir toDir := by
  unfold rotationMatrixSpec
  rw [← quatSetRotation_spec tmin tmax teps sqrt ⟨1, ⟨0, 0, 0⟩⟩ fromDir toDir (len_ne_zero hlen hf) (len_ne_zero hlen ht),
    ← quatToMatrix44_spec]
  obtain ⟨fx, fy, fz⟩ := fromDir
  obtain ⟨tx, ty, tz⟩ := toDir
  simp only [Gen.Frame.rotationMatrix, Gen.Frame.quatToMatrix44]

/-- non-zero directions at an angle ≤ π/2: orthonormal, right-handed, no translation, takes `from^` to `to^` -/
theorem rotationMatrix_acute (tmin tmax teps : α) (sqrt : α → α) (hlen : LenSpec (Gen.V3.length tmin tmax sqrt)) (fromDir toDir : V3 α)
    (hf : fromDir ≠ ⟨0, 0, 0⟩) (ht : toDir ≠ ⟨0, 0, 0⟩)
    (hd : 0 ≤ dot (nrm (Gen.V3.length tmin tmax sqrt) fromDir) (nrm (Gen.V3.length tmin tmax sqrt) toDir)) :
    IsFrame (Gen.Frame.rotationMatrix tmin tmax teps sqrt fromDir toDir) ∧ row3 (Gen.Frame.rotationMatrix tmin tmax teps sqrt fromDir toDir) = ⟨0, 0, 0⟩ ∧
      (nrm (Gen.V3.length tmin tmax sqrt) fromDir).toVec ᵥ* rot3 (Gen.Frame.rotationMatrix tmin tmax teps sqrt fromDir toDir)
        = (nrm (Gen.V3.length tmin tmax sqrt) toDir).toVec := by
  rw [rotationMatrix_spec tmin tmax teps sqrt hlen fromDir toDir hf ht]; exact rotationMatrixSpec_acute hlen teps hf ht hd
/-- exactly opposite directions: a half-turn about an axis perpendicular to `from`; takes `from^` to `to^ = −from^` -/
theorem rotationMatrix_opposite (tmin tmax teps : α) (sqrt : α → α) (hlen : LenSpec (Gen.V3.length tmin tmax sqrt)) (fromDir toDir : V3 α)
    (hf : fromDir ≠ ⟨0, 0, 0⟩) (ht : toDir ≠ ⟨0, 0, 0⟩)
    (hopp : vadd (nrm (Gen.V3.length tmin tmax sqrt) fromDir) (nrm (Gen.V3.length tmin tmax sqrt) toDir) = ⟨0, 0, 0⟩) :
    IsFrame (Gen.Frame.rotationMatrix tmin tmax teps sqrt fromDir toDir) ∧ row3 (Gen.Frame.rotationMatrix tmin tmax teps sqrt fromDir toDir) = ⟨0, 0, 0⟩ ∧
      (nrm (Gen.V3.length tmin tmax sqrt) fromDir).toVec ᵥ* rot3 (Gen.Frame.rotationMatrix tmin tmax teps sqrt fromDir toDir)
        = (nrm (Gen.V3.length tmin tmax sqrt) toDir).toVec := by
  rw [rotationMatrix_spec tmin tmax teps sqrt hlen fromDir toDir hf ht]; exact rotationMatrixSpec_opposite hlen teps hf ht hopp
/-- opposite to within `|from^ + to^|² ≤ (8ε)²`: still an exact half-turn (orthonormal, right-handed); it takes `from^` to `−from^`,
which differs from `to^` by at most `8ε` in norm -/
theorem rotationMatrix_nearOpposite (tmin tmax teps : α) (sqrt : α → α) (hlen : LenSpec (Gen.V3.length tmin tmax sqrt)) (fromDir toDir : V3 α)
    (hf : fromDir ≠ ⟨0, 0, 0⟩) (ht : toDir ≠ ⟨0, 0, 0⟩)
    (hd : dot (nrm (Gen.V3.length tmin tmax sqrt) fromDir) (nrm (Gen.V3.length tmin tmax sqrt) toDir) < 0)
    (hopp : dot (vadd (nrm (Gen.V3.length tmin tmax sqrt) fromDir) (nrm (Gen.V3.length tmin tmax sqrt) toDir))
                (vadd (nrm (Gen.V3.length tmin tmax sqrt) fromDir) (nrm (Gen.V3.length tmin tmax sqrt) toDir)) ≤ (8 * teps) * (8 * teps)) :
    IsFrame (Gen.Frame.rotationMatrix tmin tmax teps sqrt fromDir toDir) ∧ row3 (Gen.Frame.rotationMatrix tmin tmax teps sqrt fromDir toDir) = ⟨0, 0, 0⟩ ∧
      (nrm (Gen.V3.length tmin tmax sqrt) fromDir).toVec ᵥ* rot3 (Gen.Frame.rotationMatrix tmin tmax teps sqrt fromDir toDir)
        = (vneg (nrm (Gen.V3.length tmin tmax sqrt) fromDir)).toVec := by
  rw [rotationMatrix_spec tmin tmax teps sqrt hlen fromDir toDir hf ht]; exact rotationMatrixSpec_nearOpposite hlen teps hf ht hd hopp
/-- the remaining case — angle > π/2 and `|from^ + to^|² > (8ε)²`: `Quat::setRotation` splits the rotation at the half-way vector
`h0 = (from^ + to^)^` and multiplies the two half rotations.  FULL statement, as `rotationMatrix_acute`: orthonormal right-handed, no
translation, AND `from^ ᵥ* R = to^` (the two factors share the axis `from × to`, hence commute: `Lemmas/C09QuatSplit.lean`) -/
theorem rotationMatrix_obtuse (tmin tmax teps : α) (sqrt : α → α) (hlen : LenSpec (Gen.V3.length tmin tmax sqrt)) (fromDir toDir : V3 α)
    (hf : fromDir ≠ ⟨0, 0, 0⟩) (ht : toDir ≠ ⟨0, 0, 0⟩)
    (hd : dot (nrm (Gen.V3.length tmin tmax sqrt) fromDir) (nrm (Gen.V3.length tmin tmax sqrt) toDir) < 0)
    (hbig : (8 * teps) * (8 * teps) < dot (vadd (nrm (Gen.V3.length tmin tmax sqrt) fromDir) (nrm (Gen.V3.length tmin tmax sqrt) toDir))
                (vadd (nrm (Gen.V3.length tmin tmax sqrt) fromDir) (nrm (Gen.V3.length tmin tmax sqrt) toDir))) :
    IsFrame (Gen.Frame.rotationMatrix tmin tmax teps sqrt fromDir toDir) ∧ row3 (Gen.Frame.rotationMatrix tmin tmax teps sqrt fromDir toDir) = ⟨0, 0, 0⟩ ∧
      (nrm (Gen.V3.length tmin tmax sqrt) fromDir).toVec ᵥ* rot3 (Gen.Frame.rotationMatrix tmin tmax teps sqrt fromDir toDir)
        = (nrm (Gen.V3.length tmin tmax sqrt) toDir).toVec := by
  rw [rotationMatrix_spec tmin tmax teps sqrt hlen fromDir toDir hf ht]; exact rotationMatrixSpec_obtuse_carries hlen teps hf ht hd hbig

/-! non-vacuity of the case hypotheses (for EVERY `len` with `LenSpec`, in particular the extracted `length()` over ℝ with `Real.sqrt`,
`lenSpec_of_sqrt` in Props/C09.lean): `from = (1,0,0)` and
* `to = (1,1,0)` is the acute case;
* `to = (−1,1,0)`, `teps = 0` the obtuse (split) case;
* `to = (−1,1/100,0)`, `teps = 1` the nearly-opposite fallback (the threshold `8ε` is then 8, far above `|from^ + to^| < √2`). -/
example (len : V3 α → α) (hlen : LenSpec len) : 0 ≤ dot (nrm len ⟨1, 0, 0⟩) (nrm len ⟨1, 1, 0⟩) :=
  dot_nrm_nrm_nonneg hlen (by simp) (by simp) (by simp [dot])
example (len : V3 α → α) (hlen : LenSpec len) :
    dot (nrm len ⟨1, 0, 0⟩) (nrm len ⟨-1, 1, 0⟩) < 0 ∧
      (8 * (0 : α)) * (8 * 0) < dot (vadd (nrm len ⟨1, 0, 0⟩) (nrm len ⟨-1, 1, 0⟩)) (vadd (nrm len ⟨1, 0, 0⟩) (nrm len ⟨-1, 1, 0⟩)) := by
  refine ⟨dot_nrm_nrm_neg hlen (by simp) (by simp) (by simp [dot]), ?_⟩
  have := vadd_nrm_pos_of_cross hlen (f := ⟨1, 0, 0⟩) (t := ⟨-1, 1, 0⟩) (by simp) (by simp) (by simp [cross])
  simpa using this
example (len : V3 α → α) (hlen : LenSpec len) :
    dot (nrm len ⟨1, 0, 0⟩) (nrm len ⟨-1, 1 / 100, 0⟩) < 0 ∧
      dot (vadd (nrm len ⟨1, 0, 0⟩) (nrm len ⟨-1, 1 / 100, 0⟩)) (vadd (nrm len ⟨1, 0, 0⟩) (nrm len ⟨-1, 1 / 100, 0⟩)) ≤ (8 * (1 : α)) * (8 * 1) := by
  have hd := dot_nrm_nrm_neg hlen (f := ⟨1, 0, 0⟩) (t := ⟨-1, 1 / 100, 0⟩) (by simp) (by simp) (by simp [dot])
  refine ⟨hd, ?_⟩
  rw [dot_vadd_unit (nrm_unit' hlen (by simp)) (nrm_unit' hlen (by simp))]
  linarith

/-- hence for ALL non-zero `from`, `to` (parallel, opposite and nearly opposite included) and every `teps`: an orthonormal right-handed
frame without translation -/
theorem rotationMatrix_frame (tmin tmax teps : α) (sqrt : α → α) (hlen : LenSpec (Gen.V3.length tmin tmax sqrt)) (fromDir toDir : V3 α)
    (hf : fromDir ≠ ⟨0, 0, 0⟩) (ht : toDir ≠ ⟨0, 0, 0⟩) :
    IsFrame (Gen.Frame.rotationMatrix tmin tmax teps sqrt fromDir toDir) ∧ row3 (Gen.Frame.rotationMatrix tmin tmax teps sqrt fromDir toDir) = ⟨0, 0, 0⟩ := by
  by_cases hd : 0 ≤ dot (nrm (Gen.V3.length tmin tmax sqrt) fromDir) (nrm (Gen.V3.length tmin tmax sqrt) toDir)
  · exact ⟨(rotationMatrix_acute tmin tmax teps sqrt hlen fromDir toDir hf ht hd).1, (rotationMatrix_acute tmin tmax teps sqrt hlen fromDir toDir hf ht hd).2.1⟩
  · by_cases hbig : (8 * teps) * (8 * teps) < dot (vadd (nrm (Gen.V3.length tmin tmax sqrt) fromDir) (nrm (Gen.V3.length tmin tmax sqrt) toDir))
        (vadd (nrm (Gen.V3.length tmin tmax sqrt) fromDir) (nrm (Gen.V3.length tmin tmax sqrt) toDir))
    · have h := rotationMatrix_obtuse tmin tmax teps sqrt hlen fromDir toDir hf ht (not_le.mp hd) hbig
      exact ⟨h.1, h.2.1⟩
    · have h := rotationMatrix_nearOpposite tmin tmax teps sqrt hlen fromDir toDir hf ht (not_le.mp hd) (not_lt.mp hbig)
      exact ⟨h.1, h.2.1⟩
/-- "carries `from^` to `to^`" for ALL non-zero pairs and every `teps`: EXACTLY, unless the directions are opposite to within the code's
threshold (`from^·to^ < 0` and `|from^ + to^|² ≤ (8ε)²`); there the result is the exact half-turn `from^ ↦ −from^`, whose distance from
`to^` is `|from^ + to^| ≤ 8ε` -/
theorem rotationMatrix_carries (tmin tmax teps : α) (sqrt : α → α) (hlen : LenSpec (Gen.V3.length tmin tmax sqrt)) (fromDir toDir : V3 α)
    (hf : fromDir ≠ ⟨0, 0, 0⟩) (ht : toDir ≠ ⟨0, 0, 0⟩) :
    (¬ (dot (nrm (Gen.V3.length tmin tmax sqrt) fromDir) (nrm (Gen.V3.length tmin tmax sqrt) toDir) < 0 ∧
        dot (vadd (nrm (Gen.V3.length tmin tmax sqrt) fromDir) (nrm (Gen.V3.length tmin tmax sqrt) toDir))
            (vadd (nrm (Gen.V3.length tmin tmax sqrt) fromDir) (nrm (Gen.V3.length tmin tmax sqrt) toDir)) ≤ (8 * teps) * (8 * teps)) →
      (nrm (Gen.V3.length tmin tmax sqrt) fromDir).toVec ᵥ* rot3 (Gen.Frame.rotationMatrix tmin tmax teps sqrt fromDir toDir)
        = (nrm (Gen.V3.length tmin tmax sqrt) toDir).toVec) ∧
    ((dot (nrm (Gen.V3.length tmin tmax sqrt) fromDir) (nrm (Gen.V3.length tmin tmax sqrt) toDir) < 0 ∧
        dot (vadd (nrm (Gen.V3.length tmin tmax sqrt) fromDir) (nrm (Gen.V3.length tmin tmax sqrt) toDir))
            (vadd (nrm (Gen.V3.length tmin tmax sqrt) fromDir) (nrm (Gen.V3.length tmin tmax sqrt) toDir)) ≤ (8 * teps) * (8 * teps)) →
      (nrm (Gen.V3.length tmin tmax sqrt) fromDir).toVec ᵥ* rot3 (Gen.Frame.rotationMatrix tmin tmax teps sqrt fromDir toDir)
        = (vneg (nrm (Gen.V3.length tmin tmax sqrt) fromDir)).toVec ∧
      dot (vsub (vneg (nrm (Gen.V3.length tmin tmax sqrt) fromDir)) (nrm (Gen.V3.length tmin tmax sqrt) toDir))
          (vsub (vneg (nrm (Gen.V3.length tmin tmax sqrt) fromDir)) (nrm (Gen.V3.length tmin tmax sqrt) toDir)) ≤ (8 * teps) * (8 * teps)) := by
  constructor
  · intro hn
    by_cases hd : 0 ≤ dot (nrm (Gen.V3.length tmin tmax sqrt) fromDir) (nrm (Gen.V3.length tmin tmax sqrt) toDir)
    · exact (rotationMatrix_acute tmin tmax teps sqrt hlen fromDir toDir hf ht hd).2.2
    · have hbig := not_le.mp (fun h => hn ⟨not_le.mp hd, h⟩)
      exact (rotationMatrix_obtuse tmin tmax teps sqrt hlen fromDir toDir hf ht (not_le.mp hd) hbig).2.2
  · rintro ⟨hd, hopp⟩
    refine ⟨(rotationMatrix_nearOpposite tmin tmax teps sqrt hlen fromDir toDir hf ht hd hopp).2.2, ?_⟩
    rw [dot_vsub_vneg]; exact hopp
example : (⟨1, 0, 0⟩ : V3 ℝ) ≠ ⟨0, 0, 0⟩ ∧ (⟨-3, 1, 0⟩ : V3 ℝ) ≠ ⟨0, 0, 0⟩ := by constructor <;> simp

end Frames

end ImathVerif.C09
