import ImathVerif.Gen.C13Box
import ImathVerif.Gen.C13Interval
import ImathVerif.Gen.C13Algo
import ImathVerif.Lemmas.C13Algo
import ImathVerif.Lemmas.BoxTransformLemmas
import Mathlib.Tactic.NormNum
import Mathlib.Data.Rat.Defs
/-!
# C13 — Box / Interval are closed axis-aligned point sets; box transforms are tight

`Gen.Interval.*`, `Gen.Box2.*`, `Gen.Box3.*` (the hand-unrolled `Box<Vec2<T>>`, `Box<Vec3<T>>`
specialisations), `Gen.Box4.*` (the GENERIC `Box<V>` template instantiated at `Vec4`, whose loops over
dimensions are unrolled by the extractor: 256 paths for `extendBy`) and the `clip` /
`closestPointInBox` / `closestPointOnBox` functions of ImathBoxAlgo.h are REGENERATED from the C++
headers on every run (T = Sym path extraction, `harness/sym/ops_c13.h`).  They only use `<`, `≤`, `=`
and the type bounds `tmax = numeric_limits<T>::max()`, `tlowest = numeric_limits<T>::lowest()`
(parameters), so every order-theoretic statement below holds over ANY linear order — this covers the
integer element types (short, int, int64) by theorem, not only float/double.

A box denotes the point set `Mem p b := ∀ axis, b.min ≤ p ≤ b.max` (Spec/BoxSpec.lean).

`transform` / `affineTransform` (four overloads) are modelled by hand in `Model/BoxTransform.lean`; the theorems about
them are below.  That model is PROVED EQUAL to the four overloads as regenerated from the header in
`Props/C13Transform.lean` (every box, every matrix), and additionally tied to the real code by
`harness/corr/c13_corr.cpp` vs `Driver/BoxTransform.lean`.

Hypotheses on the type bounds: the member theorems use `∀ x, tlowest ≤ x ∧ x ≤ tmax` (a bounded linear order: the
finite values of an element type; instance `Fin 4` below).  Over an ordered FIELD that hypothesis is unsatisfiable, so
the transform theorems use the range-relative `V3.InRange` on the eight corner images instead (instances over ℚ at the
end of the file).

## Defects found by this property and repaired in /repo (commits 955f533, 6dca912)
* `intersects(box)` answered `true` for an EMPTY box against any box covering its corners (e.g. `makeEmpty()` vs
  `makeInfinite()`); now `*_intersectsBox_iff` holds at full strength for all boxes.
* the out-parameter overload `transform(box, m, result)` left `result` untouched for empty / infinite input and its
  projective path extended the caller's old `result`; now `transformOut_eq` holds for every input.
* (strengthening round, /repo f7a3ec4) the GENERIC `Box<V>::intersects(point)` reported a point with a NaN coordinate inside the box
  while the Vec2 / Vec3 specialisations and `Interval` reported it outside; NaN is not an element of a linear order, so this is
  decided by the harness law `box-intersects-point:nan-coordinate` only (the regenerated `Gen.Box4.intersectsPoint` changed shape
  and `Box4.intersectsPoint_iff` re-elaborated unchanged).
The harness laws `box-intersects:empty-vs-containing`, `interval-intersects:empty-vs-containing`,
`transform-outparam:{empty-input-leaves-result,infinite-input-leaves-result,projective-extends-old-result}` stay in the
check at full strength and fire again if a defect returns.
-/
set_option linter.unusedVariables false
set_option linter.unusedSimpArgs false
set_option linter.unusedTactic false
set_option linter.unreachableTactic false
set_option linter.unnecessarySeqFocus false
set_option linter.flexible false
set_option linter.unusedSectionVars false
namespace ImathVerif.C13
open ImathVerif
variable {α : Type}

/-- the hypotheses on the type bounds used below are satisfiable (a bounded linear order) -/
example : ((0 : Fin 4) < 3) ∧ ∀ x : Fin 4, (0 : Fin 4) ≤ x ∧ x ≤ 3 := by decide

/-! ## Interval — `Interval<T>` -/

section Interval
variable [LinearOrder α]

/-! ### what the regenerated definitions compute (normal forms) -/

theorem Interval.extendByPoint_eq (b : Interval α) (p : α) : Gen.Interval.extendByPoint b p = Interval.ext b p p := by
  rw [Interval.ext_s]; unfold Gen.Interval.extendByPoint smin smax
  casesplit h0a : p < b.min <;>
  casesplit h0b : b.max < p

theorem Interval.extendByBox_eq (b : Interval α) (o : Interval α) : Gen.Interval.extendByBox b o = Interval.ext b o.min o.max := by
  rw [Interval.ext_s]; unfold Gen.Interval.extendByBox smin smax
  casesplit h0a : o.min < b.min <;>
  casesplit h0b : b.max < o.max

/-- one `extendBy` call -/
def Interval.step (b : Interval α) : Interval.Arg α → Interval α
  | .pt p => Gen.Interval.extendByPoint b p
  | .bx o => Gen.Interval.extendByBox b o

/-- a sequence of `extendBy` calls, in order -/
def Interval.extendAll (b : Interval α) (args : List (Interval.Arg α)) : Interval α := args.foldl Interval.step b

theorem Interval.step_eq (b : Interval α) (a : Interval.Arg α) : Interval.step b a = Interval.stepN b a := by
  cases a <;> simp only [Interval.step, Interval.stepN, Interval.extendByPoint_eq, Interval.extendByBox_eq]

theorem Interval.extendAll_eq (args : List (Interval.Arg α)) : ∀ b : Interval α, Interval.extendAll b args = Interval.extendAllN b args := by
  induction args with
  | nil => intro b; rfl
  | cons a rest ih => intro b; simp only [Interval.extendAll, Interval.extendAllN, List.foldl_cons, Interval.step_eq] at ih ⊢; exact ih _

theorem Interval.intersectsPoint_iff (b : Interval α) (p : α) : Gen.Interval.intersectsPoint b p = true ↔ Interval.Mem p b := by
  simp only [Gen.Interval.intersectsPoint, ite_false_iff, ite_false'_iff, not_lt, not_le, Interval.Mem, and_assoc, and_true] <;> tauto

/-- for NON-EMPTY boxes `intersects(box)` is per-axis overlap of the min/max pairs (written so that it also holds if the
code tests emptiness first) -/
theorem Interval.intersectsBox_iff_axes_of_nonempty (a b : Interval α) (ha : ¬ Interval.Inverted a) (hb : ¬ Interval.Inverted b) :
    Gen.Interval.intersectsBox a b = true ↔ (b.min ≤ a.max ∧ a.min ≤ b.max) := by
  simp only [Interval.Inverted, not_or, not_lt] at ha hb
  simp only [Gen.Interval.intersectsBox, ite_false_iff, ite_false'_iff, ite_true_iff, not_lt, not_le, and_assoc, and_true] <;> tauto

theorem Interval.intersectsBox_of_common (a b : Interval α) (h : ∃ p, Interval.Mem p a ∧ Interval.Mem p b) :
    Gen.Interval.intersectsBox a b = true := by
  obtain ⟨p, hpa, hpb⟩ := h
  rw [Interval.intersectsBox_iff_axes_of_nonempty a b (Interval.not_inverted_of_mem p a hpa) (Interval.not_inverted_of_mem p b hpb)]
  obtain ⟨q0a, q0b⟩ := hpa
  obtain ⟨r0a, r0b⟩ := hpb
  bord

/-- what `intersects(box)` computes, for ALL boxes: both boxes non-empty and per-axis overlap of the min/max pairs -/
theorem Interval.intersectsBox_iff_full (a b : Interval α) :
    Gen.Interval.intersectsBox a b = true ↔ ¬ Interval.Inverted a ∧ ¬ Interval.Inverted b ∧ ((b.min ≤ a.max ∧ a.min ≤ b.max)) := by
  simp only [Gen.Interval.intersectsBox, Interval.Inverted, ite_false_iff, ite_false'_iff, ite_true_iff, ite_true'_iff, not_or, not_lt, not_le, and_assoc,
    and_true, Bool.false_eq_true, or_false, false_and, and_false, imp_false] <;> tauto

theorem Interval.intersectsBox_symm (a b : Interval α) : Gen.Interval.intersectsBox a b = Gen.Interval.intersectsBox b a := by
  rw [Bool.eq_iff_iff]
  simp only [Gen.Interval.intersectsBox, ite_false_iff, ite_false'_iff, ite_true_iff, ite_true'_iff, not_lt, not_le, and_assoc, and_true,
    Bool.false_eq_true, or_false, false_and, and_false, imp_false] <;> tauto

theorem Interval.isEmpty_iff (b : Interval α) : Gen.Interval.isEmpty b = true ↔ Interval.Inverted b := by
  simp only [Gen.Interval.isEmpty, ite_true_iff, ite_false_iff, ite_false'_iff, Interval.Inverted, Bool.false_eq_true, or_false, and_true, not_lt, not_le] <;> tauto

theorem Interval.hasVolume_iff (b : Interval α) : Gen.Interval.hasVolume b = true ↔ b.min < b.max := by
  simp only [Gen.Interval.hasVolume, ite_true_iff, ite_false_iff, ite_false'_iff, Bool.false_eq_true, or_false, and_true, not_lt, not_le] <;> tauto

theorem Interval.isInfinite_iff (tmax tlowest : α) (b : Interval α) :
    Gen.Interval.isInfinite tmax tlowest b = true ↔ b = Interval.canonInfinite tmax tlowest := by
  obtain ⟨l0, u0⟩ := b
  simp only [Gen.Interval.isInfinite, ite_false_iff, ite_false'_iff, not_not, Interval.canonInfinite, Interval.mk.injEq, and_true] <;> tauto

theorem Interval.eq_iff (a b : Interval α) : Gen.Interval.eq a b = true ↔ a = b := by
  obtain ⟨m0, v0⟩ := a
  obtain ⟨l0, u0⟩ := b
  simp only [Gen.Interval.eq, ite_false_iff, ite_false'_iff, not_not, Interval.mk.injEq, and_true] <;> tauto

theorem Interval.ne_eq_not_eq (a b : Interval α) : Gen.Interval.ne a b = !Gen.Interval.eq a b := by
  unfold Gen.Interval.ne Gen.Interval.eq; split_ifs <;> rfl


/-! ### the property -/

/-- default construction is the canonical empty box `min = max(), max = lowest()` -/
theorem Interval_default (tmax tlowest : α) : Gen.Interval.default tmax tlowest = Interval.canonEmpty tmax tlowest := rfl

theorem Interval_makeEmpty (tmax tlowest : α) (b : Interval α) : Gen.Interval.makeEmpty tmax tlowest b = Interval.canonEmpty tmax tlowest := rfl

theorem Interval_makeInfinite (tmax tlowest : α) (b : Interval α) : Gen.Interval.makeInfinite tmax tlowest b = Interval.canonInfinite tmax tlowest := rfl

/-- the default / `makeEmpty` box contains nothing -/
theorem Interval_default_contains_nothing (tmax tlowest : α) (h : tlowest < tmax) (p : α) :
    ¬ Interval.Mem p (Gen.Interval.default tmax tlowest) :=
  Interval.canonEmpty_isEmptySet tmax tlowest h p

theorem Interval_makeEmpty_contains_nothing (tmax tlowest : α) (h : tlowest < tmax) (b : Interval α) (p : α) :
    ¬ Interval.Mem p (Gen.Interval.makeEmpty tmax tlowest b) :=
  Interval.canonEmpty_isEmptySet tmax tlowest h p

/-- `makeInfinite` contains every point of the element type -/
theorem Interval_makeInfinite_contains_all (tmax tlowest : α) (hr : ∀ x : α, tlowest ≤ x ∧ x ≤ tmax) (b : Interval α) (p : α) :
    Interval.Mem p (Gen.Interval.makeInfinite tmax tlowest b) :=
  Interval.canonInfinite_mem tmax tlowest hr p

theorem Interval_ofPoint (p : α) : Gen.Interval.ofPoint p = ⟨p, p⟩ := rfl

theorem Interval_ofPoint_mem (p q : α) : Interval.Mem q (Gen.Interval.ofPoint p) ↔ q = p := Interval.mem_point_iff p q

theorem Interval_ofMinMax (lo hi : α) : Gen.Interval.ofMinMax lo hi = ⟨lo, hi⟩ := rfl

/-- `intersects(point)` is membership -/
theorem Interval_intersectsPoint_iff (b : Interval α) (p : α) : Gen.Interval.intersectsPoint b p = true ↔ Interval.Mem p b :=
  Interval.intersectsPoint_iff b p

/-- `intersects(box)` is symmetric -/
theorem Interval_intersectsBox_symm (a b : Interval α) : Gen.Interval.intersectsBox a b = Gen.Interval.intersectsBox b a :=
  Interval.intersectsBox_symm a b

/-- boxes sharing a point intersect (any boxes) -/
theorem Interval_intersectsBox_of_common_point (a b : Interval α) (h : ∃ p, Interval.Mem p a ∧ Interval.Mem p b) :
    Gen.Interval.intersectsBox a b = true := Interval.intersectsBox_of_common a b h

/-- what `intersects(box)` computes for ALL boxes: both non-empty and per-axis overlap of the min/max pairs -/
theorem Interval_intersectsBox_iff_axes (a b : Interval α) :
    Gen.Interval.intersectsBox a b = true ↔ ¬ Interval.Inverted a ∧ ¬ Interval.Inverted b ∧ ((b.min ≤ a.max ∧ a.min ≤ b.max)) :=
  Interval.intersectsBox_iff_full a b

/-- FULL STRENGTH, all boxes incl. empty / inverted ones: `intersects(box)` is true exactly when the two sets share a point.
(False before the repair 955f533 of /repo, when an empty box intersected every box covering its corners.) -/
theorem Interval_intersectsBox_iff (a b : Interval α) :
    Gen.Interval.intersectsBox a b = true ↔ ∃ p, Interval.Mem p a ∧ Interval.Mem p b := by
  constructor
  · intro h
    obtain ⟨ha, hb, hx⟩ := (Interval.intersectsBox_iff_full a b).1 h
    exact Interval.common_of_axes a b ha hb hx
  · exact Interval.intersectsBox_of_common a b

/-- an empty box intersects nothing -/
theorem Interval_intersectsBox_empty (a b : Interval α) (h : Interval.Inverted a ∨ Interval.Inverted b) : Gen.Interval.intersectsBox a b = false := by
  rw [← Bool.not_eq_true, Interval.intersectsBox_iff_full]; tauto

/-- `extendBy(point)`: per axis `min := min(min, p)`, `max := max(max, p)` (Mathlib `min`/`max`) -/
theorem Interval_extendByPoint (b : Interval α) (p : α) :
    Gen.Interval.extendByPoint b p = ⟨min b.min p, max b.max p⟩ :=
  Interval.extendByPoint_eq b p

theorem Interval_extendByBox (b o : Interval α) :
    Gen.Interval.extendByBox b o = ⟨min b.min o.min, max b.max o.max⟩ :=
  Interval.extendByBox_eq b o

/-- the extended box contains the old box and the point — for every `b` -/
theorem Interval_extendByPoint_contains (b : Interval α) (p : α) :
    Interval.Subset b (Gen.Interval.extendByPoint b p) ∧ Interval.Mem p (Gen.Interval.extendByPoint b p) := by
  rw [Interval.extendByPoint_eq]
  exact ⟨(Interval.subset_ext b p p).1, (Interval.point_subset_iff p _).1 (Interval.subset_ext b p p).2⟩

theorem Interval_extendByBox_contains (b o : Interval α) :
    Interval.Subset b (Gen.Interval.extendByBox b o) ∧ Interval.Subset o (Gen.Interval.extendByBox b o) := by
  rw [Interval.extendByBox_eq]; exact Interval.subset_ext b o.min o.max

/-- LEAST: for an API-reachable box `b` (non-inverted, or the canonical empty box) the result is included in `c`
exactly when `b` and the point are — i.e. it is the smallest box containing both -/
theorem Interval_extendByPoint_least (tmax tlowest : α) (hlt : tlowest < tmax) (hr : ∀ x : α, tlowest ≤ x ∧ x ≤ tmax)
    (b : Interval α) (hb : Interval.Canon tmax tlowest b) (p : α) (c : Interval α) :
    Interval.Subset (Gen.Interval.extendByPoint b p) c ↔ Interval.Subset b c ∧ Interval.Mem p c :=
  by rw [Interval.extendByPoint_eq]; exact (Interval.stepN_spec tmax tlowest hlt hr b hb (.pt p) trivial).2 c

theorem Interval_extendByBox_least (tmax tlowest : α) (hlt : tlowest < tmax) (hr : ∀ x : α, tlowest ≤ x ∧ x ≤ tmax)
    (b o : Interval α) (hb : Interval.Canon tmax tlowest b) (ho : Interval.Canon tmax tlowest o) (c : Interval α) :
    Interval.Subset (Gen.Interval.extendByBox b o) c ↔ Interval.Subset b c ∧ Interval.Subset o c :=
  by rw [Interval.extendByBox_eq]; exact (Interval.stepN_spec tmax tlowest hlt hr b hb (.bx o) ho).2 c

/-- ANY sequence of `extendBy` calls (points and API-reachable boxes, any length) starting from the default-constructed
box yields the smallest box containing everything added; the result is again API-reachable (so it may itself be used
as an argument).  Proof by induction over the list. -/
theorem Interval_extend_sequence_least (tmax tlowest : α) (hlt : tlowest < tmax) (hr : ∀ x : α, tlowest ≤ x ∧ x ≤ tmax)
    (args : List (Interval.Arg α)) (hargs : ∀ a ∈ args, a.Ok tmax tlowest) :
    let r := Interval.extendAll (Gen.Interval.default tmax tlowest) args
    Interval.Canon tmax tlowest r ∧ ∀ c, Interval.Subset r c ↔ ∀ a ∈ args, a.Within c := by
  have h := Interval.extendAllN_spec tmax tlowest hlt hr args (Interval.canonEmpty tmax tlowest) (Or.inr rfl) hargs
  rw [← Interval.extendAll_eq args _] at h
  refine ⟨h.1, fun c => ?_⟩
  rw [show Gen.Interval.default tmax tlowest = Interval.canonEmpty tmax tlowest from Interval_default tmax tlowest, h.2 c]
  exact ⟨fun h => h.2, fun h => ⟨Interval.subset_of_inverted _ c (Interval.canonEmpty_inverted tmax tlowest hlt), h⟩⟩

/-- the same from any API-reachable start box -/
theorem Interval_extend_sequence_from (tmax tlowest : α) (hlt : tlowest < tmax) (hr : ∀ x : α, tlowest ≤ x ∧ x ≤ tmax)
    (b : Interval α) (hb : Interval.Canon tmax tlowest b) (args : List (Interval.Arg α)) (hargs : ∀ a ∈ args, a.Ok tmax tlowest) :
    Interval.Canon tmax tlowest (Interval.extendAll b args) ∧
      ∀ c, Interval.Subset (Interval.extendAll b args) c ↔ Interval.Subset b c ∧ ∀ a ∈ args, a.Within c :=
  by rw [Interval.extendAll_eq]; exact Interval.extendAllN_spec tmax tlowest hlt hr args b hb hargs

/-- `isEmpty()` ⇔ the denoted set is empty ⇔ some axis is inverted -/
theorem Interval_isEmpty_iff (b : Interval α) : Gen.Interval.isEmpty b = true ↔ Interval.IsEmptySet b := by
  rw [Interval.isEmpty_iff, Interval.isEmptySet_iff]

theorem Interval_isEmpty_iff_inverted (b : Interval α) : Gen.Interval.isEmpty b = true ↔ Interval.Inverted b := Interval.isEmpty_iff b

/-- `hasVolume()` ⇔ `min < max` on every axis -/
theorem Interval_hasVolume_iff (b : Interval α) : Gen.Interval.hasVolume b = true ↔ b.min < b.max := Interval.hasVolume_iff b

/-- `isInfinite()` ⇔ the box is exactly the `makeInfinite()` box -/
theorem Interval_isInfinite_iff (tmax tlowest : α) (b : Interval α) :
    Gen.Interval.isInfinite tmax tlowest b = true ↔ b = Gen.Interval.makeInfinite tmax tlowest b := Interval.isInfinite_iff tmax tlowest b

theorem Interval_eq_iff (a b : Interval α) : Gen.Interval.eq a b = true ↔ a = b := Interval.eq_iff a b

theorem Interval_ne_iff (a b : Interval α) : Gen.Interval.ne a b = true ↔ a ≠ b := by
  rw [Interval.ne_eq_not_eq, Bool.not_eq_true', ← Bool.not_eq_true, Interval.eq_iff]

/-- `size()` is `max - min`, and `0` for an empty box -/
theorem Interval_size [Sub α] [Zero α] (b : Interval α) :
    (Interval.Inverted b → Gen.Interval.size b = 0) ∧ (¬ Interval.Inverted b → Gen.Interval.size b = b.max - b.min) := by
  simp only [Gen.Interval.size, Interval.Inverted]
  split_ifs <;> constructor <;> intro h <;> first | rfl | (exfalso; tauto)

end Interval

section Interval_field
variable [Field α] [LinearOrder α] [IsStrictOrderedRing α]

/-- `center()` is the midpoint `(min + max) / 2` -/
theorem Interval_center (b : Interval α) :
    let c := Gen.Interval.center b
    c + c = b.min + b.max := by
  simp only [Gen.Interval.center]
  ring

theorem Interval_center_mem (b : Interval α) (hb : ¬ Interval.Inverted b) : Interval.Mem (Gen.Interval.center b) b := by
  simp only [Interval.Inverted, not_or, not_lt] at hb
  simp only [Gen.Interval.center, Interval.Mem]
  refine ⟨?_, ?_⟩ <;>
    first | (rw [le_div_iff₀ (by norm_num)]; linarith) | (rw [div_le_iff₀ (by norm_num)]; linarith)

end Interval_field

/-! ## Box2 — `Box<Vec2<T>> (unrolled specialisation)` -/

section Box2
variable [LinearOrder α]

/-! ### what the regenerated definitions compute (normal forms) -/

theorem Box2.extendByPoint_eq (b : Box2 α) (p : V2 α) : Gen.Box2.extendByPoint b p = Box2.ext b p p := by
  rw [Box2.ext_s]; unfold Gen.Box2.extendByPoint smin smax
  casesplit h0a : p.x < b.min.x <;>
  casesplit h0b : b.max.x < p.x <;>
  casesplit h1a : p.y < b.min.y <;>
  casesplit h1b : b.max.y < p.y

theorem Box2.extendByBox_eq (b : Box2 α) (o : Box2 α) : Gen.Box2.extendByBox b o = Box2.ext b o.min o.max := by
  rw [Box2.ext_s]; unfold Gen.Box2.extendByBox smin smax
  casesplit h0a : o.min.x < b.min.x <;>
  casesplit h0b : b.max.x < o.max.x <;>
  casesplit h1a : o.min.y < b.min.y <;>
  casesplit h1b : b.max.y < o.max.y

/-- one `extendBy` call -/
def Box2.step (b : Box2 α) : Box2.Arg α → Box2 α
  | .pt p => Gen.Box2.extendByPoint b p
  | .bx o => Gen.Box2.extendByBox b o

/-- a sequence of `extendBy` calls, in order -/
def Box2.extendAll (b : Box2 α) (args : List (Box2.Arg α)) : Box2 α := args.foldl Box2.step b

theorem Box2.step_eq (b : Box2 α) (a : Box2.Arg α) : Box2.step b a = Box2.stepN b a := by
  cases a <;> simp only [Box2.step, Box2.stepN, Box2.extendByPoint_eq, Box2.extendByBox_eq]

theorem Box2.extendAll_eq (args : List (Box2.Arg α)) : ∀ b : Box2 α, Box2.extendAll b args = Box2.extendAllN b args := by
  induction args with
  | nil => intro b; rfl
  | cons a rest ih => intro b; simp only [Box2.extendAll, Box2.extendAllN, List.foldl_cons, Box2.step_eq] at ih ⊢; exact ih _

theorem Box2.intersectsPoint_iff (b : Box2 α) (p : V2 α) : Gen.Box2.intersectsPoint b p = true ↔ Box2.Mem p b := by
  simp only [Gen.Box2.intersectsPoint, ite_false_iff, ite_false'_iff, not_lt, not_le, Box2.Mem, and_assoc, and_true] <;> tauto

/-- for NON-EMPTY boxes `intersects(box)` is per-axis overlap of the min/max pairs (written so that it also holds if the
code tests emptiness first) -/
theorem Box2.intersectsBox_iff_axes_of_nonempty (a b : Box2 α) (ha : ¬ Box2.Inverted a) (hb : ¬ Box2.Inverted b) :
    Gen.Box2.intersectsBox a b = true ↔ (b.min.x ≤ a.max.x ∧ a.min.x ≤ b.max.x) ∧ (b.min.y ≤ a.max.y ∧ a.min.y ≤ b.max.y) := by
  simp only [Box2.Inverted, not_or, not_lt] at ha hb
  simp only [Gen.Box2.intersectsBox, ite_false_iff, ite_false'_iff, ite_true_iff, not_lt, not_le, and_assoc, and_true] <;> tauto

theorem Box2.intersectsBox_of_common (a b : Box2 α) (h : ∃ p, Box2.Mem p a ∧ Box2.Mem p b) :
    Gen.Box2.intersectsBox a b = true := by
  obtain ⟨p, hpa, hpb⟩ := h
  rw [Box2.intersectsBox_iff_axes_of_nonempty a b (Box2.not_inverted_of_mem p a hpa) (Box2.not_inverted_of_mem p b hpb)]
  obtain ⟨⟨q0a, q0b⟩, ⟨q1a, q1b⟩⟩ := hpa
  obtain ⟨⟨r0a, r0b⟩, ⟨r1a, r1b⟩⟩ := hpb
  bord

/-- what `intersects(box)` computes, for ALL boxes: both boxes non-empty and per-axis overlap of the min/max pairs -/
theorem Box2.intersectsBox_iff_full (a b : Box2 α) :
    Gen.Box2.intersectsBox a b = true ↔ ¬ Box2.Inverted a ∧ ¬ Box2.Inverted b ∧ ((b.min.x ≤ a.max.x ∧ a.min.x ≤ b.max.x) ∧ (b.min.y ≤ a.max.y ∧ a.min.y ≤ b.max.y)) := by
  simp only [Gen.Box2.intersectsBox, Box2.Inverted, ite_false_iff, ite_false'_iff, ite_true_iff, ite_true'_iff, not_or, not_lt, not_le, and_assoc,
    and_true, Bool.false_eq_true, or_false, false_and, and_false, imp_false] <;> tauto

theorem Box2.intersectsBox_symm (a b : Box2 α) : Gen.Box2.intersectsBox a b = Gen.Box2.intersectsBox b a := by
  rw [Bool.eq_iff_iff]
  simp only [Gen.Box2.intersectsBox, ite_false_iff, ite_false'_iff, ite_true_iff, ite_true'_iff, not_lt, not_le, and_assoc, and_true,
    Bool.false_eq_true, or_false, false_and, and_false, imp_false] <;> tauto

theorem Box2.isEmpty_iff (b : Box2 α) : Gen.Box2.isEmpty b = true ↔ Box2.Inverted b := by
  simp only [Gen.Box2.isEmpty, ite_true_iff, ite_false_iff, ite_false'_iff, Box2.Inverted, Bool.false_eq_true, or_false, and_true, not_lt, not_le] <;> tauto

theorem Box2.hasVolume_iff (b : Box2 α) : Gen.Box2.hasVolume b = true ↔ b.min.x < b.max.x ∧ b.min.y < b.max.y := by
  simp only [Gen.Box2.hasVolume, ite_true_iff, ite_false_iff, ite_false'_iff, Bool.false_eq_true, or_false, and_true, not_lt, not_le] <;> tauto

theorem Box2.isInfinite_iff (tmax tlowest : α) (b : Box2 α) :
    Gen.Box2.isInfinite tmax tlowest b = true ↔ b = Box2.canonInfinite tmax tlowest := by
  obtain ⟨⟨l0, l1⟩, ⟨u0, u1⟩⟩ := b
  simp only [Gen.Box2.isInfinite, ite_false_iff, ite_false'_iff, not_not, Box2.canonInfinite, Box2.mk.injEq, V2.mk.injEq, and_true] <;> tauto

theorem Box2.eq_iff (a b : Box2 α) : Gen.Box2.eq a b = true ↔ a = b := by
  obtain ⟨⟨m0, m1⟩, ⟨v0, v1⟩⟩ := a
  obtain ⟨⟨l0, l1⟩, ⟨u0, u1⟩⟩ := b
  simp only [Gen.Box2.eq, ite_false_iff, ite_false'_iff, not_not, Box2.mk.injEq, V2.mk.injEq, and_true] <;> tauto

theorem Box2.ne_eq_not_eq (a b : Box2 α) : Gen.Box2.ne a b = !Gen.Box2.eq a b := by
  unfold Gen.Box2.ne Gen.Box2.eq; split_ifs <;> rfl

theorem Box2.clip_eq (p : V2 α) (b : Box2 α) : Gen.Box2.clip p b = Box2.clipN p b := by
  unfold Gen.Box2.clip Box2.clipN sclamp
  casesplit h0a : p.x < b.min.x <;>
  casesplit h0b : b.max.x < p.x <;>
  casesplit h1a : p.y < b.min.y <;>
  casesplit h1b : b.max.y < p.y

theorem Box2.closestPointInBox_eq (p : V2 α) (b : Box2 α) : Gen.Box2.closestPointInBox p b = Box2.clipN p b := by
  unfold Gen.Box2.closestPointInBox Box2.clipN sclamp
  casesplit h0a : p.x < b.min.x <;>
  casesplit h0b : b.max.x < p.x <;>
  casesplit h1a : p.y < b.min.y <;>
  casesplit h1b : b.max.y < p.y


/-! ### the property -/

/-- default construction is the canonical empty box `min = max(), max = lowest()` -/
theorem Box2_default (tmax tlowest : α) : Gen.Box2.default tmax tlowest = Box2.canonEmpty tmax tlowest := rfl

theorem Box2_makeEmpty (tmax tlowest : α) (b : Box2 α) : Gen.Box2.makeEmpty tmax tlowest b = Box2.canonEmpty tmax tlowest := rfl

theorem Box2_makeInfinite (tmax tlowest : α) (b : Box2 α) : Gen.Box2.makeInfinite tmax tlowest b = Box2.canonInfinite tmax tlowest := rfl

/-- the default / `makeEmpty` box contains nothing -/
theorem Box2_default_contains_nothing (tmax tlowest : α) (h : tlowest < tmax) (p : V2 α) :
    ¬ Box2.Mem p (Gen.Box2.default tmax tlowest) :=
  Box2.canonEmpty_isEmptySet tmax tlowest h p

theorem Box2_makeEmpty_contains_nothing (tmax tlowest : α) (h : tlowest < tmax) (b : Box2 α) (p : V2 α) :
    ¬ Box2.Mem p (Gen.Box2.makeEmpty tmax tlowest b) :=
  Box2.canonEmpty_isEmptySet tmax tlowest h p

/-- `makeInfinite` contains every point of the element type -/
theorem Box2_makeInfinite_contains_all (tmax tlowest : α) (hr : ∀ x : α, tlowest ≤ x ∧ x ≤ tmax) (b : Box2 α) (p : V2 α) :
    Box2.Mem p (Gen.Box2.makeInfinite tmax tlowest b) :=
  Box2.canonInfinite_mem tmax tlowest hr p

theorem Box2_ofPoint (p : V2 α) : Gen.Box2.ofPoint p = ⟨p, p⟩ := rfl

theorem Box2_ofPoint_mem (p q : V2 α) : Box2.Mem q (Gen.Box2.ofPoint p) ↔ q = p := Box2.mem_point_iff p q

theorem Box2_ofMinMax (lo hi : V2 α) : Gen.Box2.ofMinMax lo hi = ⟨lo, hi⟩ := rfl

/-- `intersects(point)` is membership -/
theorem Box2_intersectsPoint_iff (b : Box2 α) (p : V2 α) : Gen.Box2.intersectsPoint b p = true ↔ Box2.Mem p b :=
  Box2.intersectsPoint_iff b p

/-- `intersects(box)` is symmetric -/
theorem Box2_intersectsBox_symm (a b : Box2 α) : Gen.Box2.intersectsBox a b = Gen.Box2.intersectsBox b a :=
  Box2.intersectsBox_symm a b

/-- boxes sharing a point intersect (any boxes) -/
theorem Box2_intersectsBox_of_common_point (a b : Box2 α) (h : ∃ p, Box2.Mem p a ∧ Box2.Mem p b) :
    Gen.Box2.intersectsBox a b = true := Box2.intersectsBox_of_common a b h

/-- what `intersects(box)` computes for ALL boxes: both non-empty and per-axis overlap of the min/max pairs -/
theorem Box2_intersectsBox_iff_axes (a b : Box2 α) :
    Gen.Box2.intersectsBox a b = true ↔ ¬ Box2.Inverted a ∧ ¬ Box2.Inverted b ∧ ((b.min.x ≤ a.max.x ∧ a.min.x ≤ b.max.x) ∧ (b.min.y ≤ a.max.y ∧ a.min.y ≤ b.max.y)) :=
  Box2.intersectsBox_iff_full a b

/-- FULL STRENGTH, all boxes incl. empty / inverted ones: `intersects(box)` is true exactly when the two sets share a point.
(False before the repair 955f533 of /repo, when an empty box intersected every box covering its corners.) -/
theorem Box2_intersectsBox_iff (a b : Box2 α) :
    Gen.Box2.intersectsBox a b = true ↔ ∃ p, Box2.Mem p a ∧ Box2.Mem p b := by
  constructor
  · intro h
    obtain ⟨ha, hb, hx⟩ := (Box2.intersectsBox_iff_full a b).1 h
    exact Box2.common_of_axes a b ha hb hx
  · exact Box2.intersectsBox_of_common a b

/-- an empty box intersects nothing -/
theorem Box2_intersectsBox_empty (a b : Box2 α) (h : Box2.Inverted a ∨ Box2.Inverted b) : Gen.Box2.intersectsBox a b = false := by
  rw [← Bool.not_eq_true, Box2.intersectsBox_iff_full]; tauto

/-- `extendBy(point)`: per axis `min := min(min, p)`, `max := max(max, p)` (Mathlib `min`/`max`) -/
theorem Box2_extendByPoint (b : Box2 α) (p : V2 α) :
    Gen.Box2.extendByPoint b p = ⟨⟨min b.min.x p.x, min b.min.y p.y⟩, ⟨max b.max.x p.x, max b.max.y p.y⟩⟩ :=
  Box2.extendByPoint_eq b p

theorem Box2_extendByBox (b o : Box2 α) :
    Gen.Box2.extendByBox b o = ⟨⟨min b.min.x o.min.x, min b.min.y o.min.y⟩, ⟨max b.max.x o.max.x, max b.max.y o.max.y⟩⟩ :=
  Box2.extendByBox_eq b o

/-- the extended box contains the old box and the point — for every `b` -/
theorem Box2_extendByPoint_contains (b : Box2 α) (p : V2 α) :
    Box2.Subset b (Gen.Box2.extendByPoint b p) ∧ Box2.Mem p (Gen.Box2.extendByPoint b p) := by
  rw [Box2.extendByPoint_eq]
  exact ⟨(Box2.subset_ext b p p).1, (Box2.point_subset_iff p _).1 (Box2.subset_ext b p p).2⟩

theorem Box2_extendByBox_contains (b o : Box2 α) :
    Box2.Subset b (Gen.Box2.extendByBox b o) ∧ Box2.Subset o (Gen.Box2.extendByBox b o) := by
  rw [Box2.extendByBox_eq]; exact Box2.subset_ext b o.min o.max

/-- LEAST: for an API-reachable box `b` (non-inverted, or the canonical empty box) the result is included in `c`
exactly when `b` and the point are — i.e. it is the smallest box containing both -/
theorem Box2_extendByPoint_least (tmax tlowest : α) (hlt : tlowest < tmax) (hr : ∀ x : α, tlowest ≤ x ∧ x ≤ tmax)
    (b : Box2 α) (hb : Box2.Canon tmax tlowest b) (p : V2 α) (c : Box2 α) :
    Box2.Subset (Gen.Box2.extendByPoint b p) c ↔ Box2.Subset b c ∧ Box2.Mem p c :=
  by rw [Box2.extendByPoint_eq]; exact (Box2.stepN_spec tmax tlowest hlt hr b hb (.pt p) trivial).2 c

theorem Box2_extendByBox_least (tmax tlowest : α) (hlt : tlowest < tmax) (hr : ∀ x : α, tlowest ≤ x ∧ x ≤ tmax)
    (b o : Box2 α) (hb : Box2.Canon tmax tlowest b) (ho : Box2.Canon tmax tlowest o) (c : Box2 α) :
    Box2.Subset (Gen.Box2.extendByBox b o) c ↔ Box2.Subset b c ∧ Box2.Subset o c :=
  by rw [Box2.extendByBox_eq]; exact (Box2.stepN_spec tmax tlowest hlt hr b hb (.bx o) ho).2 c

/-- ANY sequence of `extendBy` calls (points and API-reachable boxes, any length) starting from the default-constructed
box yields the smallest box containing everything added; the result is again API-reachable (so it may itself be used
as an argument).  Proof by induction over the list. -/
theorem Box2_extend_sequence_least (tmax tlowest : α) (hlt : tlowest < tmax) (hr : ∀ x : α, tlowest ≤ x ∧ x ≤ tmax)
    (args : List (Box2.Arg α)) (hargs : ∀ a ∈ args, a.Ok tmax tlowest) :
    let r := Box2.extendAll (Gen.Box2.default tmax tlowest) args
    Box2.Canon tmax tlowest r ∧ ∀ c, Box2.Subset r c ↔ ∀ a ∈ args, a.Within c := by
  have h := Box2.extendAllN_spec tmax tlowest hlt hr args (Box2.canonEmpty tmax tlowest) (Or.inr rfl) hargs
  rw [← Box2.extendAll_eq args _] at h
  refine ⟨h.1, fun c => ?_⟩
  rw [show Gen.Box2.default tmax tlowest = Box2.canonEmpty tmax tlowest from Box2_default tmax tlowest, h.2 c]
  exact ⟨fun h => h.2, fun h => ⟨Box2.subset_of_inverted _ c (Box2.canonEmpty_inverted tmax tlowest hlt), h⟩⟩

/-- the same from any API-reachable start box -/
theorem Box2_extend_sequence_from (tmax tlowest : α) (hlt : tlowest < tmax) (hr : ∀ x : α, tlowest ≤ x ∧ x ≤ tmax)
    (b : Box2 α) (hb : Box2.Canon tmax tlowest b) (args : List (Box2.Arg α)) (hargs : ∀ a ∈ args, a.Ok tmax tlowest) :
    Box2.Canon tmax tlowest (Box2.extendAll b args) ∧
      ∀ c, Box2.Subset (Box2.extendAll b args) c ↔ Box2.Subset b c ∧ ∀ a ∈ args, a.Within c :=
  by rw [Box2.extendAll_eq]; exact Box2.extendAllN_spec tmax tlowest hlt hr args b hb hargs

/-- `isEmpty()` ⇔ the denoted set is empty ⇔ some axis is inverted -/
theorem Box2_isEmpty_iff (b : Box2 α) : Gen.Box2.isEmpty b = true ↔ Box2.IsEmptySet b := by
  rw [Box2.isEmpty_iff, Box2.isEmptySet_iff]

theorem Box2_isEmpty_iff_inverted (b : Box2 α) : Gen.Box2.isEmpty b = true ↔ Box2.Inverted b := Box2.isEmpty_iff b

/-- `hasVolume()` ⇔ `min < max` on every axis -/
theorem Box2_hasVolume_iff (b : Box2 α) : Gen.Box2.hasVolume b = true ↔ b.min.x < b.max.x ∧ b.min.y < b.max.y := Box2.hasVolume_iff b

/-- `isInfinite()` ⇔ the box is exactly the `makeInfinite()` box -/
theorem Box2_isInfinite_iff (tmax tlowest : α) (b : Box2 α) :
    Gen.Box2.isInfinite tmax tlowest b = true ↔ b = Gen.Box2.makeInfinite tmax tlowest b := Box2.isInfinite_iff tmax tlowest b

theorem Box2_eq_iff (a b : Box2 α) : Gen.Box2.eq a b = true ↔ a = b := Box2.eq_iff a b

theorem Box2_ne_iff (a b : Box2 α) : Gen.Box2.ne a b = true ↔ a ≠ b := by
  rw [Box2.ne_eq_not_eq, Bool.not_eq_true', ← Bool.not_eq_true, Box2.eq_iff]

/-- `size()` is `max - min`, and `0` for an empty box -/
theorem Box2_size [Sub α] [Zero α] (b : Box2 α) :
    (Box2.Inverted b → Gen.Box2.size b = ⟨0, 0⟩) ∧ (¬ Box2.Inverted b → Gen.Box2.size b = ⟨b.max.x - b.min.x, b.max.y - b.min.y⟩) := by
  simp only [Gen.Box2.size, Box2.Inverted]
  split_ifs <;> constructor <;> intro h <;> first | rfl | (exfalso; tauto)

/-- `majorAxis()` is the FIRST axis on which `size()` is largest -/
theorem Box2_majorAxis [Sub α] [Zero α] (b : Box2 α) :
    let s := Gen.Box2.size b
    let r := Gen.Box2.majorAxis b
    (r = 0 ∧ s.y ≤ s.x) ∨ (r = 1 ∧ s.x < s.y) := by
  simp only [Gen.Box2.majorAxis, Gen.Box2.size]
  split_ifs <;> simp <;> bord

end Box2

section Box2_field
variable [Field α] [LinearOrder α] [IsStrictOrderedRing α]

/-- `center()` is the midpoint `(min + max) / 2` -/
theorem Box2_center (b : Box2 α) :
    let c := Gen.Box2.center b
    c.x + c.x = b.min.x + b.max.x ∧ c.y + c.y = b.min.y + b.max.y := by
  simp only [Gen.Box2.center]
  refine ⟨?_, ?_⟩ <;> ring

theorem Box2_center_mem (b : Box2 α) (hb : ¬ Box2.Inverted b) : Box2.Mem (Gen.Box2.center b) b := by
  simp only [Box2.Inverted, not_or, not_lt] at hb
  simp only [Gen.Box2.center, Box2.Mem]
  refine ⟨⟨?_, ?_⟩, ⟨?_, ?_⟩⟩ <;>
    first | (rw [le_div_iff₀ (by norm_num)]; linarith) | (rw [div_le_iff₀ (by norm_num)]; linarith)

end Box2_field

/-! ## Box3 — `Box<Vec3<T>> (unrolled specialisation)` -/

section Box3
variable [LinearOrder α]

/-! ### what the regenerated definitions compute (normal forms) -/

theorem Box3.extendByPoint_eq (b : Box3 α) (p : V3 α) : Gen.Box3.extendByPoint b p = Box3.ext b p p := by
  rw [Box3.ext_s]; unfold Gen.Box3.extendByPoint smin smax
  casesplit h0a : p.x < b.min.x <;>
  casesplit h0b : b.max.x < p.x <;>
  casesplit h1a : p.y < b.min.y <;>
  casesplit h1b : b.max.y < p.y <;>
  casesplit h2a : p.z < b.min.z <;>
  casesplit h2b : b.max.z < p.z

theorem Box3.extendByBox_eq (b : Box3 α) (o : Box3 α) : Gen.Box3.extendByBox b o = Box3.ext b o.min o.max := by
  rw [Box3.ext_s]; unfold Gen.Box3.extendByBox smin smax
  casesplit h0a : o.min.x < b.min.x <;>
  casesplit h0b : b.max.x < o.max.x <;>
  casesplit h1a : o.min.y < b.min.y <;>
  casesplit h1b : b.max.y < o.max.y <;>
  casesplit h2a : o.min.z < b.min.z <;>
  casesplit h2b : b.max.z < o.max.z

/-- one `extendBy` call -/
def Box3.step (b : Box3 α) : Box3.Arg α → Box3 α
  | .pt p => Gen.Box3.extendByPoint b p
  | .bx o => Gen.Box3.extendByBox b o

/-- a sequence of `extendBy` calls, in order -/
def Box3.extendAll (b : Box3 α) (args : List (Box3.Arg α)) : Box3 α := args.foldl Box3.step b

theorem Box3.step_eq (b : Box3 α) (a : Box3.Arg α) : Box3.step b a = Box3.stepN b a := by
  cases a <;> simp only [Box3.step, Box3.stepN, Box3.extendByPoint_eq, Box3.extendByBox_eq]

theorem Box3.extendAll_eq (args : List (Box3.Arg α)) : ∀ b : Box3 α, Box3.extendAll b args = Box3.extendAllN b args := by
  induction args with
  | nil => intro b; rfl
  | cons a rest ih => intro b; simp only [Box3.extendAll, Box3.extendAllN, List.foldl_cons, Box3.step_eq] at ih ⊢; exact ih _

theorem Box3.intersectsPoint_iff (b : Box3 α) (p : V3 α) : Gen.Box3.intersectsPoint b p = true ↔ Box3.Mem p b := by
  simp only [Gen.Box3.intersectsPoint, ite_false_iff, ite_false'_iff, not_lt, not_le, Box3.Mem, and_assoc, and_true] <;> tauto

/-- for NON-EMPTY boxes `intersects(box)` is per-axis overlap of the min/max pairs (written so that it also holds if the
code tests emptiness first) -/
theorem Box3.intersectsBox_iff_axes_of_nonempty (a b : Box3 α) (ha : ¬ Box3.Inverted a) (hb : ¬ Box3.Inverted b) :
    Gen.Box3.intersectsBox a b = true ↔ (b.min.x ≤ a.max.x ∧ a.min.x ≤ b.max.x) ∧ (b.min.y ≤ a.max.y ∧ a.min.y ≤ b.max.y) ∧ (b.min.z ≤ a.max.z ∧ a.min.z ≤ b.max.z) := by
  simp only [Box3.Inverted, not_or, not_lt] at ha hb
  simp only [Gen.Box3.intersectsBox, ite_false_iff, ite_false'_iff, ite_true_iff, not_lt, not_le, and_assoc, and_true] <;> tauto

theorem Box3.intersectsBox_of_common (a b : Box3 α) (h : ∃ p, Box3.Mem p a ∧ Box3.Mem p b) :
    Gen.Box3.intersectsBox a b = true := by
  obtain ⟨p, hpa, hpb⟩ := h
  rw [Box3.intersectsBox_iff_axes_of_nonempty a b (Box3.not_inverted_of_mem p a hpa) (Box3.not_inverted_of_mem p b hpb)]
  obtain ⟨⟨q0a, q0b⟩, ⟨q1a, q1b⟩, ⟨q2a, q2b⟩⟩ := hpa
  obtain ⟨⟨r0a, r0b⟩, ⟨r1a, r1b⟩, ⟨r2a, r2b⟩⟩ := hpb
  bord

/-- what `intersects(box)` computes, for ALL boxes: both boxes non-empty and per-axis overlap of the min/max pairs -/
theorem Box3.intersectsBox_iff_full (a b : Box3 α) :
    Gen.Box3.intersectsBox a b = true ↔ ¬ Box3.Inverted a ∧ ¬ Box3.Inverted b ∧ ((b.min.x ≤ a.max.x ∧ a.min.x ≤ b.max.x) ∧ (b.min.y ≤ a.max.y ∧ a.min.y ≤ b.max.y) ∧ (b.min.z ≤ a.max.z ∧ a.min.z ≤ b.max.z)) := by
  simp only [Gen.Box3.intersectsBox, Box3.Inverted, ite_false_iff, ite_false'_iff, ite_true_iff, ite_true'_iff, not_or, not_lt, not_le, and_assoc,
    and_true, Bool.false_eq_true, or_false, false_and, and_false, imp_false] <;> tauto

theorem Box3.intersectsBox_symm (a b : Box3 α) : Gen.Box3.intersectsBox a b = Gen.Box3.intersectsBox b a := by
  rw [Bool.eq_iff_iff]
  simp only [Gen.Box3.intersectsBox, ite_false_iff, ite_false'_iff, ite_true_iff, ite_true'_iff, not_lt, not_le, and_assoc, and_true,
    Bool.false_eq_true, or_false, false_and, and_false, imp_false] <;> tauto

theorem Box3.isEmpty_iff (b : Box3 α) : Gen.Box3.isEmpty b = true ↔ Box3.Inverted b := by
  simp only [Gen.Box3.isEmpty, ite_true_iff, ite_false_iff, ite_false'_iff, Box3.Inverted, Bool.false_eq_true, or_false, and_true, not_lt, not_le] <;> tauto

theorem Box3.hasVolume_iff (b : Box3 α) : Gen.Box3.hasVolume b = true ↔ b.min.x < b.max.x ∧ b.min.y < b.max.y ∧ b.min.z < b.max.z := by
  simp only [Gen.Box3.hasVolume, ite_true_iff, ite_false_iff, ite_false'_iff, Bool.false_eq_true, or_false, and_true, not_lt, not_le] <;> tauto

theorem Box3.isInfinite_iff (tmax tlowest : α) (b : Box3 α) :
    Gen.Box3.isInfinite tmax tlowest b = true ↔ b = Box3.canonInfinite tmax tlowest := by
  obtain ⟨⟨l0, l1, l2⟩, ⟨u0, u1, u2⟩⟩ := b
  simp only [Gen.Box3.isInfinite, ite_false_iff, ite_false'_iff, not_not, Box3.canonInfinite, Box3.mk.injEq, V3.mk.injEq, and_true] <;> tauto

theorem Box3.eq_iff (a b : Box3 α) : Gen.Box3.eq a b = true ↔ a = b := by
  obtain ⟨⟨m0, m1, m2⟩, ⟨v0, v1, v2⟩⟩ := a
  obtain ⟨⟨l0, l1, l2⟩, ⟨u0, u1, u2⟩⟩ := b
  simp only [Gen.Box3.eq, ite_false_iff, ite_false'_iff, not_not, Box3.mk.injEq, V3.mk.injEq, and_true] <;> tauto

theorem Box3.ne_eq_not_eq (a b : Box3 α) : Gen.Box3.ne a b = !Gen.Box3.eq a b := by
  unfold Gen.Box3.ne Gen.Box3.eq; split_ifs <;> rfl

theorem Box3.clip_eq (p : V3 α) (b : Box3 α) : Gen.Box3.clip p b = Box3.clipN p b := by
  unfold Gen.Box3.clip Box3.clipN sclamp
  casesplit h0a : p.x < b.min.x <;>
  casesplit h0b : b.max.x < p.x <;>
  casesplit h1a : p.y < b.min.y <;>
  casesplit h1b : b.max.y < p.y <;>
  casesplit h2a : p.z < b.min.z <;>
  casesplit h2b : b.max.z < p.z

theorem Box3.closestPointInBox_eq (p : V3 α) (b : Box3 α) : Gen.Box3.closestPointInBox p b = Box3.clipN p b := by
  unfold Gen.Box3.closestPointInBox Box3.clipN sclamp
  casesplit h0a : p.x < b.min.x <;>
  casesplit h0b : b.max.x < p.x <;>
  casesplit h1a : p.y < b.min.y <;>
  casesplit h1b : b.max.y < p.y <;>
  casesplit h2a : p.z < b.min.z <;>
  casesplit h2b : b.max.z < p.z


/-! ### the property -/

/-- default construction is the canonical empty box `min = max(), max = lowest()` -/
theorem Box3_default (tmax tlowest : α) : Gen.Box3.default tmax tlowest = Box3.canonEmpty tmax tlowest := rfl

theorem Box3_makeEmpty (tmax tlowest : α) (b : Box3 α) : Gen.Box3.makeEmpty tmax tlowest b = Box3.canonEmpty tmax tlowest := rfl

theorem Box3_makeInfinite (tmax tlowest : α) (b : Box3 α) : Gen.Box3.makeInfinite tmax tlowest b = Box3.canonInfinite tmax tlowest := rfl

/-- the default / `makeEmpty` box contains nothing -/
theorem Box3_default_contains_nothing (tmax tlowest : α) (h : tlowest < tmax) (p : V3 α) :
    ¬ Box3.Mem p (Gen.Box3.default tmax tlowest) :=
  Box3.canonEmpty_isEmptySet tmax tlowest h p

theorem Box3_makeEmpty_contains_nothing (tmax tlowest : α) (h : tlowest < tmax) (b : Box3 α) (p : V3 α) :
    ¬ Box3.Mem p (Gen.Box3.makeEmpty tmax tlowest b) :=
  Box3.canonEmpty_isEmptySet tmax tlowest h p

/-- `makeInfinite` contains every point of the element type -/
theorem Box3_makeInfinite_contains_all (tmax tlowest : α) (hr : ∀ x : α, tlowest ≤ x ∧ x ≤ tmax) (b : Box3 α) (p : V3 α) :
    Box3.Mem p (Gen.Box3.makeInfinite tmax tlowest b) :=
  Box3.canonInfinite_mem tmax tlowest hr p

theorem Box3_ofPoint (p : V3 α) : Gen.Box3.ofPoint p = ⟨p, p⟩ := rfl

theorem Box3_ofPoint_mem (p q : V3 α) : Box3.Mem q (Gen.Box3.ofPoint p) ↔ q = p := Box3.mem_point_iff p q

theorem Box3_ofMinMax (lo hi : V3 α) : Gen.Box3.ofMinMax lo hi = ⟨lo, hi⟩ := rfl

/-- `intersects(point)` is membership -/
theorem Box3_intersectsPoint_iff (b : Box3 α) (p : V3 α) : Gen.Box3.intersectsPoint b p = true ↔ Box3.Mem p b :=
  Box3.intersectsPoint_iff b p

/-- `intersects(box)` is symmetric -/
theorem Box3_intersectsBox_symm (a b : Box3 α) : Gen.Box3.intersectsBox a b = Gen.Box3.intersectsBox b a :=
  Box3.intersectsBox_symm a b

/-- boxes sharing a point intersect (any boxes) -/
theorem Box3_intersectsBox_of_common_point (a b : Box3 α) (h : ∃ p, Box3.Mem p a ∧ Box3.Mem p b) :
    Gen.Box3.intersectsBox a b = true := Box3.intersectsBox_of_common a b h

/-- what `intersects(box)` computes for ALL boxes: both non-empty and per-axis overlap of the min/max pairs -/
theorem Box3_intersectsBox_iff_axes (a b : Box3 α) :
    Gen.Box3.intersectsBox a b = true ↔ ¬ Box3.Inverted a ∧ ¬ Box3.Inverted b ∧ ((b.min.x ≤ a.max.x ∧ a.min.x ≤ b.max.x) ∧ (b.min.y ≤ a.max.y ∧ a.min.y ≤ b.max.y) ∧ (b.min.z ≤ a.max.z ∧ a.min.z ≤ b.max.z)) :=
  Box3.intersectsBox_iff_full a b

/-- FULL STRENGTH, all boxes incl. empty / inverted ones: `intersects(box)` is true exactly when the two sets share a point.
(False before the repair 955f533 of /repo, when an empty box intersected every box covering its corners.) -/
theorem Box3_intersectsBox_iff (a b : Box3 α) :
    Gen.Box3.intersectsBox a b = true ↔ ∃ p, Box3.Mem p a ∧ Box3.Mem p b := by
  constructor
  · intro h
    obtain ⟨ha, hb, hx⟩ := (Box3.intersectsBox_iff_full a b).1 h
    exact Box3.common_of_axes a b ha hb hx
  · exact Box3.intersectsBox_of_common a b

/-- an empty box intersects nothing -/
theorem Box3_intersectsBox_empty (a b : Box3 α) (h : Box3.Inverted a ∨ Box3.Inverted b) : Gen.Box3.intersectsBox a b = false := by
  rw [← Bool.not_eq_true, Box3.intersectsBox_iff_full]; tauto

/-- `extendBy(point)`: per axis `min := min(min, p)`, `max := max(max, p)` (Mathlib `min`/`max`) -/
theorem Box3_extendByPoint (b : Box3 α) (p : V3 α) :
    Gen.Box3.extendByPoint b p = ⟨⟨min b.min.x p.x, min b.min.y p.y, min b.min.z p.z⟩, ⟨max b.max.x p.x, max b.max.y p.y, max b.max.z p.z⟩⟩ :=
  Box3.extendByPoint_eq b p

theorem Box3_extendByBox (b o : Box3 α) :
    Gen.Box3.extendByBox b o = ⟨⟨min b.min.x o.min.x, min b.min.y o.min.y, min b.min.z o.min.z⟩, ⟨max b.max.x o.max.x, max b.max.y o.max.y, max b.max.z o.max.z⟩⟩ :=
  Box3.extendByBox_eq b o

/-- the extended box contains the old box and the point — for every `b` -/
theorem Box3_extendByPoint_contains (b : Box3 α) (p : V3 α) :
    Box3.Subset b (Gen.Box3.extendByPoint b p) ∧ Box3.Mem p (Gen.Box3.extendByPoint b p) := by
  rw [Box3.extendByPoint_eq]
  exact ⟨(Box3.subset_ext b p p).1, (Box3.point_subset_iff p _).1 (Box3.subset_ext b p p).2⟩

theorem Box3_extendByBox_contains (b o : Box3 α) :
    Box3.Subset b (Gen.Box3.extendByBox b o) ∧ Box3.Subset o (Gen.Box3.extendByBox b o) := by
  rw [Box3.extendByBox_eq]; exact Box3.subset_ext b o.min o.max

/-- LEAST: for an API-reachable box `b` (non-inverted, or the canonical empty box) the result is included in `c`
exactly when `b` and the point are — i.e. it is the smallest box containing both -/
theorem Box3_extendByPoint_least (tmax tlowest : α) (hlt : tlowest < tmax) (hr : ∀ x : α, tlowest ≤ x ∧ x ≤ tmax)
    (b : Box3 α) (hb : Box3.Canon tmax tlowest b) (p : V3 α) (c : Box3 α) :
    Box3.Subset (Gen.Box3.extendByPoint b p) c ↔ Box3.Subset b c ∧ Box3.Mem p c :=
  by rw [Box3.extendByPoint_eq]; exact (Box3.stepN_spec tmax tlowest hlt hr b hb (.pt p) trivial).2 c

theorem Box3_extendByBox_least (tmax tlowest : α) (hlt : tlowest < tmax) (hr : ∀ x : α, tlowest ≤ x ∧ x ≤ tmax)
    (b o : Box3 α) (hb : Box3.Canon tmax tlowest b) (ho : Box3.Canon tmax tlowest o) (c : Box3 α) :
    Box3.Subset (Gen.Box3.extendByBox b o) c ↔ Box3.Subset b c ∧ Box3.Subset o c :=
  by rw [Box3.extendByBox_eq]; exact (Box3.stepN_spec tmax tlowest hlt hr b hb (.bx o) ho).2 c

/-- ANY sequence of `extendBy` calls (points and API-reachable boxes, any length) starting from the default-constructed
box yields the smallest box containing everything added; the result is again API-reachable (so it may itself be used
as an argument).  Proof by induction over the list. -/
theorem Box3_extend_sequence_least (tmax tlowest : α) (hlt : tlowest < tmax) (hr : ∀ x : α, tlowest ≤ x ∧ x ≤ tmax)
    (args : List (Box3.Arg α)) (hargs : ∀ a ∈ args, a.Ok tmax tlowest) :
    let r := Box3.extendAll (Gen.Box3.default tmax tlowest) args
    Box3.Canon tmax tlowest r ∧ ∀ c, Box3.Subset r c ↔ ∀ a ∈ args, a.Within c := by
  have h := Box3.extendAllN_spec tmax tlowest hlt hr args (Box3.canonEmpty tmax tlowest) (Or.inr rfl) hargs
  rw [← Box3.extendAll_eq args _] at h
  refine ⟨h.1, fun c => ?_⟩
  rw [show Gen.Box3.default tmax tlowest = Box3.canonEmpty tmax tlowest from Box3_default tmax tlowest, h.2 c]
  exact ⟨fun h => h.2, fun h => ⟨Box3.subset_of_inverted _ c (Box3.canonEmpty_inverted tmax tlowest hlt), h⟩⟩

/-- the same from any API-reachable start box -/
theorem Box3_extend_sequence_from (tmax tlowest : α) (hlt : tlowest < tmax) (hr : ∀ x : α, tlowest ≤ x ∧ x ≤ tmax)
    (b : Box3 α) (hb : Box3.Canon tmax tlowest b) (args : List (Box3.Arg α)) (hargs : ∀ a ∈ args, a.Ok tmax tlowest) :
    Box3.Canon tmax tlowest (Box3.extendAll b args) ∧
      ∀ c, Box3.Subset (Box3.extendAll b args) c ↔ Box3.Subset b c ∧ ∀ a ∈ args, a.Within c :=
  by rw [Box3.extendAll_eq]; exact Box3.extendAllN_spec tmax tlowest hlt hr args b hb hargs

/-- `isEmpty()` ⇔ the denoted set is empty ⇔ some axis is inverted -/
theorem Box3_isEmpty_iff (b : Box3 α) : Gen.Box3.isEmpty b = true ↔ Box3.IsEmptySet b := by
  rw [Box3.isEmpty_iff, Box3.isEmptySet_iff]

theorem Box3_isEmpty_iff_inverted (b : Box3 α) : Gen.Box3.isEmpty b = true ↔ Box3.Inverted b := Box3.isEmpty_iff b

/-- `hasVolume()` ⇔ `min < max` on every axis -/
theorem Box3_hasVolume_iff (b : Box3 α) : Gen.Box3.hasVolume b = true ↔ b.min.x < b.max.x ∧ b.min.y < b.max.y ∧ b.min.z < b.max.z := Box3.hasVolume_iff b

/-- `isInfinite()` ⇔ the box is exactly the `makeInfinite()` box -/
theorem Box3_isInfinite_iff (tmax tlowest : α) (b : Box3 α) :
    Gen.Box3.isInfinite tmax tlowest b = true ↔ b = Gen.Box3.makeInfinite tmax tlowest b := Box3.isInfinite_iff tmax tlowest b

theorem Box3_eq_iff (a b : Box3 α) : Gen.Box3.eq a b = true ↔ a = b := Box3.eq_iff a b

theorem Box3_ne_iff (a b : Box3 α) : Gen.Box3.ne a b = true ↔ a ≠ b := by
  rw [Box3.ne_eq_not_eq, Bool.not_eq_true', ← Bool.not_eq_true, Box3.eq_iff]

/-- `size()` is `max - min`, and `0` for an empty box -/
theorem Box3_size [Sub α] [Zero α] (b : Box3 α) :
    (Box3.Inverted b → Gen.Box3.size b = ⟨0, 0, 0⟩) ∧ (¬ Box3.Inverted b → Gen.Box3.size b = ⟨b.max.x - b.min.x, b.max.y - b.min.y, b.max.z - b.min.z⟩) := by
  simp only [Gen.Box3.size, Box3.Inverted]
  split_ifs <;> constructor <;> intro h <;> first | rfl | (exfalso; tauto)

/-- `majorAxis()` is the FIRST axis on which `size()` is largest -/
theorem Box3_majorAxis [Sub α] [Zero α] (b : Box3 α) :
    let s := Gen.Box3.size b
    let r := Gen.Box3.majorAxis b
    (r = 0 ∧ s.y ≤ s.x ∧ s.z ≤ s.x) ∨ (r = 1 ∧ s.x < s.y ∧ s.z ≤ s.y) ∨ (r = 2 ∧ s.x < s.z ∧ s.y < s.z) := by
  simp only [Gen.Box3.majorAxis, Gen.Box3.size]
  split_ifs <;> simp <;> bord

end Box3

section Box3_field
variable [Field α] [LinearOrder α] [IsStrictOrderedRing α]

/-- `center()` is the midpoint `(min + max) / 2` -/
theorem Box3_center (b : Box3 α) :
    let c := Gen.Box3.center b
    c.x + c.x = b.min.x + b.max.x ∧ c.y + c.y = b.min.y + b.max.y ∧ c.z + c.z = b.min.z + b.max.z := by
  simp only [Gen.Box3.center]
  refine ⟨?_, ?_, ?_⟩ <;> ring

theorem Box3_center_mem (b : Box3 α) (hb : ¬ Box3.Inverted b) : Box3.Mem (Gen.Box3.center b) b := by
  simp only [Box3.Inverted, not_or, not_lt] at hb
  simp only [Gen.Box3.center, Box3.Mem]
  refine ⟨⟨?_, ?_⟩, ⟨?_, ?_⟩, ⟨?_, ?_⟩⟩ <;>
    first | (rw [le_div_iff₀ (by norm_num)]; linarith) | (rw [div_le_iff₀ (by norm_num)]; linarith)

end Box3_field

/-! ## Box4 — `Box<Vec4<T>> (the GENERIC template, loops over dimensions)` -/

section Box4
variable [LinearOrder α]

/-! ### what the regenerated definitions compute (normal forms) -/

theorem Box4.extendByPoint_eq (b : Box4 α) (p : V4 α) : Gen.Box4.extendByPoint b p = Box4.ext b p p := by
  rw [Box4.ext_s]; unfold Gen.Box4.extendByPoint smin smax
  casesplit h0a : p.x < b.min.x <;>
  casesplit h0b : b.max.x < p.x <;>
  casesplit h1a : p.y < b.min.y <;>
  casesplit h1b : b.max.y < p.y <;>
  casesplit h2a : p.z < b.min.z <;>
  casesplit h2b : b.max.z < p.z <;>
  casesplit h3a : p.w < b.min.w <;>
  casesplit h3b : b.max.w < p.w

theorem Box4.extendByBox_eq (b : Box4 α) (o : Box4 α) : Gen.Box4.extendByBox b o = Box4.ext b o.min o.max := by
  rw [Box4.ext_s]; unfold Gen.Box4.extendByBox smin smax
  casesplit h0a : o.min.x < b.min.x <;>
  casesplit h0b : b.max.x < o.max.x <;>
  casesplit h1a : o.min.y < b.min.y <;>
  casesplit h1b : b.max.y < o.max.y <;>
  casesplit h2a : o.min.z < b.min.z <;>
  casesplit h2b : b.max.z < o.max.z <;>
  casesplit h3a : o.min.w < b.min.w <;>
  casesplit h3b : b.max.w < o.max.w

/-- one `extendBy` call -/
def Box4.step (b : Box4 α) : Box4.Arg α → Box4 α
  | .pt p => Gen.Box4.extendByPoint b p
  | .bx o => Gen.Box4.extendByBox b o

/-- a sequence of `extendBy` calls, in order -/
def Box4.extendAll (b : Box4 α) (args : List (Box4.Arg α)) : Box4 α := args.foldl Box4.step b

theorem Box4.step_eq (b : Box4 α) (a : Box4.Arg α) : Box4.step b a = Box4.stepN b a := by
  cases a <;> simp only [Box4.step, Box4.stepN, Box4.extendByPoint_eq, Box4.extendByBox_eq]

theorem Box4.extendAll_eq (args : List (Box4.Arg α)) : ∀ b : Box4 α, Box4.extendAll b args = Box4.extendAllN b args := by
  induction args with
  | nil => intro b; rfl
  | cons a rest ih => intro b; simp only [Box4.extendAll, Box4.extendAllN, List.foldl_cons, Box4.step_eq] at ih ⊢; exact ih _

theorem Box4.intersectsPoint_iff (b : Box4 α) (p : V4 α) : Gen.Box4.intersectsPoint b p = true ↔ Box4.Mem p b := by
  simp only [Gen.Box4.intersectsPoint, ite_false_iff, ite_false'_iff, not_lt, not_le, Box4.Mem, and_assoc, and_true] <;> tauto

/-- for NON-EMPTY boxes `intersects(box)` is per-axis overlap of the min/max pairs (written so that it also holds if the
code tests emptiness first) -/
theorem Box4.intersectsBox_iff_axes_of_nonempty (a b : Box4 α) (ha : ¬ Box4.Inverted a) (hb : ¬ Box4.Inverted b) :
    Gen.Box4.intersectsBox a b = true ↔ (b.min.x ≤ a.max.x ∧ a.min.x ≤ b.max.x) ∧ (b.min.y ≤ a.max.y ∧ a.min.y ≤ b.max.y) ∧ (b.min.z ≤ a.max.z ∧ a.min.z ≤ b.max.z) ∧ (b.min.w ≤ a.max.w ∧ a.min.w ≤ b.max.w) := by
  simp only [Box4.Inverted, not_or, not_lt] at ha hb
  simp only [Gen.Box4.intersectsBox, ite_false_iff, ite_false'_iff, ite_true_iff, not_lt, not_le, and_assoc, and_true] <;> tauto

theorem Box4.intersectsBox_of_common (a b : Box4 α) (h : ∃ p, Box4.Mem p a ∧ Box4.Mem p b) :
    Gen.Box4.intersectsBox a b = true := by
  obtain ⟨p, hpa, hpb⟩ := h
  rw [Box4.intersectsBox_iff_axes_of_nonempty a b (Box4.not_inverted_of_mem p a hpa) (Box4.not_inverted_of_mem p b hpb)]
  obtain ⟨⟨q0a, q0b⟩, ⟨q1a, q1b⟩, ⟨q2a, q2b⟩, ⟨q3a, q3b⟩⟩ := hpa
  obtain ⟨⟨r0a, r0b⟩, ⟨r1a, r1b⟩, ⟨r2a, r2b⟩, ⟨r3a, r3b⟩⟩ := hpb
  bord

/-- what `intersects(box)` computes, for ALL boxes: both boxes non-empty and per-axis overlap of the min/max pairs -/
theorem Box4.intersectsBox_iff_full (a b : Box4 α) :
    Gen.Box4.intersectsBox a b = true ↔ ¬ Box4.Inverted a ∧ ¬ Box4.Inverted b ∧ ((b.min.x ≤ a.max.x ∧ a.min.x ≤ b.max.x) ∧ (b.min.y ≤ a.max.y ∧ a.min.y ≤ b.max.y) ∧ (b.min.z ≤ a.max.z ∧ a.min.z ≤ b.max.z) ∧ (b.min.w ≤ a.max.w ∧ a.min.w ≤ b.max.w)) := by
  simp only [Gen.Box4.intersectsBox, Box4.Inverted, ite_false_iff, ite_false'_iff, ite_true_iff, ite_true'_iff, not_or, not_lt, not_le, and_assoc,
    and_true, Bool.false_eq_true, or_false, false_and, and_false, imp_false] <;> tauto

theorem Box4.intersectsBox_symm (a b : Box4 α) : Gen.Box4.intersectsBox a b = Gen.Box4.intersectsBox b a := by
  rw [Bool.eq_iff_iff]
  simp only [Gen.Box4.intersectsBox, ite_false_iff, ite_false'_iff, ite_true_iff, ite_true'_iff, not_lt, not_le, and_assoc, and_true,
    Bool.false_eq_true, or_false, false_and, and_false, imp_false] <;> tauto

theorem Box4.isEmpty_iff (b : Box4 α) : Gen.Box4.isEmpty b = true ↔ Box4.Inverted b := by
  simp only [Gen.Box4.isEmpty, ite_true_iff, ite_false_iff, ite_false'_iff, Box4.Inverted, Bool.false_eq_true, or_false, and_true, not_lt, not_le] <;> tauto

theorem Box4.hasVolume_iff (b : Box4 α) : Gen.Box4.hasVolume b = true ↔ b.min.x < b.max.x ∧ b.min.y < b.max.y ∧ b.min.z < b.max.z ∧ b.min.w < b.max.w := by
  simp only [Gen.Box4.hasVolume, ite_true_iff, ite_false_iff, ite_false'_iff, Bool.false_eq_true, or_false, and_true, not_lt, not_le] <;> tauto

theorem Box4.isInfinite_iff (tmax tlowest : α) (b : Box4 α) :
    Gen.Box4.isInfinite tmax tlowest b = true ↔ b = Box4.canonInfinite tmax tlowest := by
  obtain ⟨⟨l0, l1, l2, l3⟩, ⟨u0, u1, u2, u3⟩⟩ := b
  simp only [Gen.Box4.isInfinite, ite_false_iff, ite_false'_iff, not_not, Box4.canonInfinite, Box4.mk.injEq, V4.mk.injEq, and_true] <;> tauto

theorem Box4.eq_iff (a b : Box4 α) : Gen.Box4.eq a b = true ↔ a = b := by
  obtain ⟨⟨m0, m1, m2, m3⟩, ⟨v0, v1, v2, v3⟩⟩ := a
  obtain ⟨⟨l0, l1, l2, l3⟩, ⟨u0, u1, u2, u3⟩⟩ := b
  simp only [Gen.Box4.eq, ite_false_iff, ite_false'_iff, not_not, Box4.mk.injEq, V4.mk.injEq, and_true] <;> tauto

theorem Box4.ne_eq_not_eq (a b : Box4 α) : Gen.Box4.ne a b = !Gen.Box4.eq a b := by
  unfold Gen.Box4.ne Gen.Box4.eq; split_ifs <;> rfl

theorem Box4.clip_eq (p : V4 α) (b : Box4 α) : Gen.Box4.clip p b = Box4.clipN p b := by
  unfold Gen.Box4.clip Box4.clipN sclamp
  casesplit h0a : p.x < b.min.x <;>
  casesplit h0b : b.max.x < p.x <;>
  casesplit h1a : p.y < b.min.y <;>
  casesplit h1b : b.max.y < p.y <;>
  casesplit h2a : p.z < b.min.z <;>
  casesplit h2b : b.max.z < p.z <;>
  casesplit h3a : p.w < b.min.w <;>
  casesplit h3b : b.max.w < p.w

theorem Box4.closestPointInBox_eq (p : V4 α) (b : Box4 α) : Gen.Box4.closestPointInBox p b = Box4.clipN p b := by
  unfold Gen.Box4.closestPointInBox Box4.clipN sclamp
  casesplit h0a : p.x < b.min.x <;>
  casesplit h0b : b.max.x < p.x <;>
  casesplit h1a : p.y < b.min.y <;>
  casesplit h1b : b.max.y < p.y <;>
  casesplit h2a : p.z < b.min.z <;>
  casesplit h2b : b.max.z < p.z <;>
  casesplit h3a : p.w < b.min.w <;>
  casesplit h3b : b.max.w < p.w


/-! ### the property -/

/-- default construction is the canonical empty box `min = max(), max = lowest()` -/
theorem Box4_default (tmax tlowest : α) : Gen.Box4.default tmax tlowest = Box4.canonEmpty tmax tlowest := rfl

theorem Box4_makeEmpty (tmax tlowest : α) (b : Box4 α) : Gen.Box4.makeEmpty tmax tlowest b = Box4.canonEmpty tmax tlowest := rfl

theorem Box4_makeInfinite (tmax tlowest : α) (b : Box4 α) : Gen.Box4.makeInfinite tmax tlowest b = Box4.canonInfinite tmax tlowest := rfl

/-- the default / `makeEmpty` box contains nothing -/
theorem Box4_default_contains_nothing (tmax tlowest : α) (h : tlowest < tmax) (p : V4 α) :
    ¬ Box4.Mem p (Gen.Box4.default tmax tlowest) :=
  Box4.canonEmpty_isEmptySet tmax tlowest h p

theorem Box4_makeEmpty_contains_nothing (tmax tlowest : α) (h : tlowest < tmax) (b : Box4 α) (p : V4 α) :
    ¬ Box4.Mem p (Gen.Box4.makeEmpty tmax tlowest b) :=
  Box4.canonEmpty_isEmptySet tmax tlowest h p

/-- `makeInfinite` contains every point of the element type -/
theorem Box4_makeInfinite_contains_all (tmax tlowest : α) (hr : ∀ x : α, tlowest ≤ x ∧ x ≤ tmax) (b : Box4 α) (p : V4 α) :
    Box4.Mem p (Gen.Box4.makeInfinite tmax tlowest b) :=
  Box4.canonInfinite_mem tmax tlowest hr p

theorem Box4_ofPoint (p : V4 α) : Gen.Box4.ofPoint p = ⟨p, p⟩ := rfl

theorem Box4_ofPoint_mem (p q : V4 α) : Box4.Mem q (Gen.Box4.ofPoint p) ↔ q = p := Box4.mem_point_iff p q

theorem Box4_ofMinMax (lo hi : V4 α) : Gen.Box4.ofMinMax lo hi = ⟨lo, hi⟩ := rfl

/-- `intersects(point)` is membership -/
theorem Box4_intersectsPoint_iff (b : Box4 α) (p : V4 α) : Gen.Box4.intersectsPoint b p = true ↔ Box4.Mem p b :=
  Box4.intersectsPoint_iff b p

/-- `intersects(box)` is symmetric -/
theorem Box4_intersectsBox_symm (a b : Box4 α) : Gen.Box4.intersectsBox a b = Gen.Box4.intersectsBox b a :=
  Box4.intersectsBox_symm a b

/-- boxes sharing a point intersect (any boxes) -/
theorem Box4_intersectsBox_of_common_point (a b : Box4 α) (h : ∃ p, Box4.Mem p a ∧ Box4.Mem p b) :
    Gen.Box4.intersectsBox a b = true := Box4.intersectsBox_of_common a b h

/-- what `intersects(box)` computes for ALL boxes: both non-empty and per-axis overlap of the min/max pairs -/
theorem Box4_intersectsBox_iff_axes (a b : Box4 α) :
    Gen.Box4.intersectsBox a b = true ↔ ¬ Box4.Inverted a ∧ ¬ Box4.Inverted b ∧ ((b.min.x ≤ a.max.x ∧ a.min.x ≤ b.max.x) ∧ (b.min.y ≤ a.max.y ∧ a.min.y ≤ b.max.y) ∧ (b.min.z ≤ a.max.z ∧ a.min.z ≤ b.max.z) ∧ (b.min.w ≤ a.max.w ∧ a.min.w ≤ b.max.w)) :=
  Box4.intersectsBox_iff_full a b

/-- FULL STRENGTH, all boxes incl. empty / inverted ones: `intersects(box)` is true exactly when the two sets share a point.
(False before the repair 955f533 of /repo, when an empty box intersected every box covering its corners.) -/
theorem Box4_intersectsBox_iff (a b : Box4 α) :
    Gen.Box4.intersectsBox a b = true ↔ ∃ p, Box4.Mem p a ∧ Box4.Mem p b := by
  constructor
  · intro h
    obtain ⟨ha, hb, hx⟩ := (Box4.intersectsBox_iff_full a b).1 h
    exact Box4.common_of_axes a b ha hb hx
  · exact Box4.intersectsBox_of_common a b

/-- an empty box intersects nothing -/
theorem Box4_intersectsBox_empty (a b : Box4 α) (h : Box4.Inverted a ∨ Box4.Inverted b) : Gen.Box4.intersectsBox a b = false := by
  rw [← Bool.not_eq_true, Box4.intersectsBox_iff_full]; tauto

/-- `extendBy(point)`: per axis `min := min(min, p)`, `max := max(max, p)` (Mathlib `min`/`max`) -/
theorem Box4_extendByPoint (b : Box4 α) (p : V4 α) :
    Gen.Box4.extendByPoint b p = ⟨⟨min b.min.x p.x, min b.min.y p.y, min b.min.z p.z, min b.min.w p.w⟩, ⟨max b.max.x p.x, max b.max.y p.y, max b.max.z p.z, max b.max.w p.w⟩⟩ :=
  Box4.extendByPoint_eq b p

theorem Box4_extendByBox (b o : Box4 α) :
    Gen.Box4.extendByBox b o = ⟨⟨min b.min.x o.min.x, min b.min.y o.min.y, min b.min.z o.min.z, min b.min.w o.min.w⟩, ⟨max b.max.x o.max.x, max b.max.y o.max.y, max b.max.z o.max.z, max b.max.w o.max.w⟩⟩ :=
  Box4.extendByBox_eq b o

/-- the extended box contains the old box and the point — for every `b` -/
theorem Box4_extendByPoint_contains (b : Box4 α) (p : V4 α) :
    Box4.Subset b (Gen.Box4.extendByPoint b p) ∧ Box4.Mem p (Gen.Box4.extendByPoint b p) := by
  rw [Box4.extendByPoint_eq]
  exact ⟨(Box4.subset_ext b p p).1, (Box4.point_subset_iff p _).1 (Box4.subset_ext b p p).2⟩

theorem Box4_extendByBox_contains (b o : Box4 α) :
    Box4.Subset b (Gen.Box4.extendByBox b o) ∧ Box4.Subset o (Gen.Box4.extendByBox b o) := by
  rw [Box4.extendByBox_eq]; exact Box4.subset_ext b o.min o.max

/-- LEAST: for an API-reachable box `b` (non-inverted, or the canonical empty box) the result is included in `c`
exactly when `b` and the point are — i.e. it is the smallest box containing both -/
theorem Box4_extendByPoint_least (tmax tlowest : α) (hlt : tlowest < tmax) (hr : ∀ x : α, tlowest ≤ x ∧ x ≤ tmax)
    (b : Box4 α) (hb : Box4.Canon tmax tlowest b) (p : V4 α) (c : Box4 α) :
    Box4.Subset (Gen.Box4.extendByPoint b p) c ↔ Box4.Subset b c ∧ Box4.Mem p c :=
  by rw [Box4.extendByPoint_eq]; exact (Box4.stepN_spec tmax tlowest hlt hr b hb (.pt p) trivial).2 c

theorem Box4_extendByBox_least (tmax tlowest : α) (hlt : tlowest < tmax) (hr : ∀ x : α, tlowest ≤ x ∧ x ≤ tmax)
    (b o : Box4 α) (hb : Box4.Canon tmax tlowest b) (ho : Box4.Canon tmax tlowest o) (c : Box4 α) :
    Box4.Subset (Gen.Box4.extendByBox b o) c ↔ Box4.Subset b c ∧ Box4.Subset o c :=
  by rw [Box4.extendByBox_eq]; exact (Box4.stepN_spec tmax tlowest hlt hr b hb (.bx o) ho).2 c

/-- ANY sequence of `extendBy` calls (points and API-reachable boxes, any length) starting from the default-constructed
box yields the smallest box containing everything added; the result is again API-reachable (so it may itself be used
as an argument).  Proof by induction over the list. -/
theorem Box4_extend_sequence_least (tmax tlowest : α) (hlt : tlowest < tmax) (hr : ∀ x : α, tlowest ≤ x ∧ x ≤ tmax)
    (args : List (Box4.Arg α)) (hargs : ∀ a ∈ args, a.Ok tmax tlowest) :
    let r := Box4.extendAll (Gen.Box4.default tmax tlowest) args
    Box4.Canon tmax tlowest r ∧ ∀ c, Box4.Subset r c ↔ ∀ a ∈ args, a.Within c := by
  have h := Box4.extendAllN_spec tmax tlowest hlt hr args (Box4.canonEmpty tmax tlowest) (Or.inr rfl) hargs
  rw [← Box4.extendAll_eq args _] at h
  refine ⟨h.1, fun c => ?_⟩
  rw [show Gen.Box4.default tmax tlowest = Box4.canonEmpty tmax tlowest from Box4_default tmax tlowest, h.2 c]
  exact ⟨fun h => h.2, fun h => ⟨Box4.subset_of_inverted _ c (Box4.canonEmpty_inverted tmax tlowest hlt), h⟩⟩

/-- the same from any API-reachable start box -/
theorem Box4_extend_sequence_from (tmax tlowest : α) (hlt : tlowest < tmax) (hr : ∀ x : α, tlowest ≤ x ∧ x ≤ tmax)
    (b : Box4 α) (hb : Box4.Canon tmax tlowest b) (args : List (Box4.Arg α)) (hargs : ∀ a ∈ args, a.Ok tmax tlowest) :
    Box4.Canon tmax tlowest (Box4.extendAll b args) ∧
      ∀ c, Box4.Subset (Box4.extendAll b args) c ↔ Box4.Subset b c ∧ ∀ a ∈ args, a.Within c :=
  by rw [Box4.extendAll_eq]; exact Box4.extendAllN_spec tmax tlowest hlt hr args b hb hargs

/-- `isEmpty()` ⇔ the denoted set is empty ⇔ some axis is inverted -/
theorem Box4_isEmpty_iff (b : Box4 α) : Gen.Box4.isEmpty b = true ↔ Box4.IsEmptySet b := by
  rw [Box4.isEmpty_iff, Box4.isEmptySet_iff]

theorem Box4_isEmpty_iff_inverted (b : Box4 α) : Gen.Box4.isEmpty b = true ↔ Box4.Inverted b := Box4.isEmpty_iff b

/-- `hasVolume()` ⇔ `min < max` on every axis -/
theorem Box4_hasVolume_iff (b : Box4 α) : Gen.Box4.hasVolume b = true ↔ b.min.x < b.max.x ∧ b.min.y < b.max.y ∧ b.min.z < b.max.z ∧ b.min.w < b.max.w := Box4.hasVolume_iff b

/-- `isInfinite()` ⇔ the box is exactly the `makeInfinite()` box -/
theorem Box4_isInfinite_iff (tmax tlowest : α) (b : Box4 α) :
    Gen.Box4.isInfinite tmax tlowest b = true ↔ b = Gen.Box4.makeInfinite tmax tlowest b := Box4.isInfinite_iff tmax tlowest b

theorem Box4_eq_iff (a b : Box4 α) : Gen.Box4.eq a b = true ↔ a = b := Box4.eq_iff a b

theorem Box4_ne_iff (a b : Box4 α) : Gen.Box4.ne a b = true ↔ a ≠ b := by
  rw [Box4.ne_eq_not_eq, Bool.not_eq_true', ← Bool.not_eq_true, Box4.eq_iff]

/-- `size()` is `max - min`, and `0` for an empty box -/
theorem Box4_size [Sub α] [Zero α] (b : Box4 α) :
    (Box4.Inverted b → Gen.Box4.size b = ⟨0, 0, 0, 0⟩) ∧ (¬ Box4.Inverted b → Gen.Box4.size b = ⟨b.max.x - b.min.x, b.max.y - b.min.y, b.max.z - b.min.z, b.max.w - b.min.w⟩) := by
  simp only [Gen.Box4.size, Box4.Inverted]
  split_ifs <;> constructor <;> intro h <;> first | rfl | (exfalso; tauto)

/-- `majorAxis()` is the FIRST axis on which `size()` is largest -/
theorem Box4_majorAxis [Sub α] [Zero α] (b : Box4 α) :
    let s := Gen.Box4.size b
    let r := Gen.Box4.majorAxis b
    (r = 0 ∧ s.y ≤ s.x ∧ s.z ≤ s.x ∧ s.w ≤ s.x) ∨ (r = 1 ∧ s.x < s.y ∧ s.z ≤ s.y ∧ s.w ≤ s.y) ∨ (r = 2 ∧ s.x < s.z ∧ s.y < s.z ∧ s.w ≤ s.z) ∨ (r = 3 ∧ s.x < s.w ∧ s.y < s.w ∧ s.z < s.w) := by
  simp only [Gen.Box4.majorAxis, Gen.Box4.size]
  split_ifs <;> simp <;> bord

end Box4

section Box4_field
variable [Field α] [LinearOrder α] [IsStrictOrderedRing α]

/-- `center()` is the midpoint `(min + max) / 2` -/
theorem Box4_center (b : Box4 α) :
    let c := Gen.Box4.center b
    c.x + c.x = b.min.x + b.max.x ∧ c.y + c.y = b.min.y + b.max.y ∧ c.z + c.z = b.min.z + b.max.z ∧ c.w + c.w = b.min.w + b.max.w := by
  simp only [Gen.Box4.center]
  refine ⟨?_, ?_, ?_, ?_⟩ <;> ring

theorem Box4_center_mem (b : Box4 α) (hb : ¬ Box4.Inverted b) : Box4.Mem (Gen.Box4.center b) b := by
  simp only [Box4.Inverted, not_or, not_lt] at hb
  simp only [Gen.Box4.center, Box4.Mem]
  refine ⟨⟨?_, ?_⟩, ⟨?_, ?_⟩, ⟨?_, ?_⟩, ⟨?_, ?_⟩⟩ <;>
    first | (rw [le_div_iff₀ (by norm_num)]; linarith) | (rw [div_le_iff₀ (by norm_num)]; linarith)

end Box4_field


/-! ## Remarks on inverted boxes stored by the user

`min`/`max` are public members, so a caller can store an inverted pair that is not the canonical empty
box.  Such a box denotes the empty set, but `extendBy` treats its `min`/`max` as data: the result is
then NOT the least box (documented behaviour, not counted as a defect; witness over `Int`). -/

theorem Interval_extendByPoint_inverted_not_least :
    ¬ ∀ (b : Interval Int) (p : Int) (c : Interval Int),
        Interval.Subset (Gen.Interval.extendByPoint b p) c ↔ Interval.Subset b c ∧ Interval.Mem p c := by
  intro h
  -- b = [3,1] (empty), p = 5: result [3,5]; the least box containing ∅ ∪ {5} is [5,5]
  have h1 := (h ⟨3, 1⟩ 5 ⟨5, 5⟩).2
    ⟨fun q hq => absurd hq (by simp only [Interval.Mem]; omega), ⟨le_refl _, le_refl _⟩⟩
  have h2 : Interval.Mem 3 (⟨5, 5⟩ : Interval Int) :=
    h1 3 (by rw [Interval_extendByPoint]; simp only [Interval.Mem]; decide)
  simp only [Interval.Mem] at h2; omega


/-- non-vacuity of the sequence theorem over a bounded order (`Fin 4`, bounds 0 and 3): a list mixing points, a non-inverted
box and the canonical empty box satisfies the hypotheses -/
example : ∀ a ∈ ([.pt ⟨1, 2, 0⟩, .bx ⟨⟨0, 1, 1⟩, ⟨2, 1, 3⟩⟩, .bx (Box3.canonEmpty 3 0), .pt ⟨3, 0, 0⟩] : List (Box3.Arg (Fin 4))),
    a.Ok 3 0 := by
  intro a ha
  simp only [List.mem_cons, List.not_mem_nil, or_false] at ha
  rcases ha with rfl | rfl | rfl | rfl
  · trivial
  · exact Or.inl (by simp only [Box3.Inverted]; decide)
  · exact Or.inr rfl
  · trivial

/-! ## The Vec2 / Vec3 specialisations behave like the generic template

`Box<Vec4>` runs the generic loops.  Embedding a 2-D / 3-D box into 4-D with degenerate extra axes
`[w,w]` and running the GENERIC code gives exactly the embedded result of the unrolled specialisation.
(The per-shape theorems above also have literally the same per-axis form for Box2, Box3 and Box4.) -/

def V3.lift4 (p : V3 α) (w : α) : V4 α := ⟨p.x, p.y, p.z, w⟩
def Box3.lift4 (b : Box3 α) (w : α) : Box4 α := ⟨V3.lift4 b.min w, V3.lift4 b.max w⟩
def V2.lift4 (p : V2 α) (z w : α) : V4 α := ⟨p.x, p.y, z, w⟩
def Box2.lift4 (b : Box2 α) (z w : α) : Box4 α := ⟨V2.lift4 b.min z w, V2.lift4 b.max z w⟩

section lifts
variable [LinearOrder α]

theorem Box3_generic_extendByPoint (b : Box3 α) (p : V3 α) (w : α) :
    Gen.Box4.extendByPoint (Box3.lift4 b w) (V3.lift4 p w) = Box3.lift4 (Gen.Box3.extendByPoint b p) w := by
  rw [Box4.extendByPoint_eq, Box3.extendByPoint_eq]
  simp only [Box4.ext, Box3.ext, Box3.lift4, V3.lift4, min_self, max_self]

theorem Box3_generic_extendByBox (b o : Box3 α) (w : α) :
    Gen.Box4.extendByBox (Box3.lift4 b w) (Box3.lift4 o w) = Box3.lift4 (Gen.Box3.extendByBox b o) w := by
  rw [Box4.extendByBox_eq, Box3.extendByBox_eq]
  simp only [Box4.ext, Box3.ext, Box3.lift4, V3.lift4, min_self, max_self]

theorem Box3_generic_intersectsPoint (b : Box3 α) (p : V3 α) (w : α) :
    Gen.Box4.intersectsPoint (Box3.lift4 b w) (V3.lift4 p w) = Gen.Box3.intersectsPoint b p := by
  rw [Bool.eq_iff_iff, Box4.intersectsPoint_iff, Box3.intersectsPoint_iff]
  simp only [Box4.Mem, Box3.Mem, Box3.lift4, V3.lift4, le_refl, and_self, and_true]

theorem Box3_generic_intersectsBox (a b : Box3 α) (w : α) :
    Gen.Box4.intersectsBox (Box3.lift4 a w) (Box3.lift4 b w) = Gen.Box3.intersectsBox a b := by
  rw [Bool.eq_iff_iff, Box4_intersectsBox_iff_axes, Box3_intersectsBox_iff_axes]
  simp only [Box4.Inverted, Box3.Inverted, Box3.lift4, V3.lift4, le_refl, and_self, and_true, lt_self_iff_false, or_false]

theorem Box3_generic_isEmpty (b : Box3 α) (w : α) :
    Gen.Box4.isEmpty (Box3.lift4 b w) = Gen.Box3.isEmpty b := by
  rw [Bool.eq_iff_iff, Box4.isEmpty_iff, Box3.isEmpty_iff]
  simp only [Box4.Inverted, Box3.Inverted, Box3.lift4, V3.lift4, lt_self_iff_false, or_false]

theorem Box3_generic_clip (p : V3 α) (b : Box3 α) (w : α) :
    Gen.Box4.clip (V3.lift4 p w) (Box3.lift4 b w) = V3.lift4 (Gen.Box3.clip p b) w := by
  rw [Box4.clip_eq, Box3.clip_eq]
  simp only [Box4.clipN, Box3.clipN, Box3.lift4, V3.lift4, sclamp_fixed w w w (le_refl _) (le_refl _)]

theorem Box2_generic_extendByPoint (b : Box2 α) (p : V2 α) (z w : α) :
    Gen.Box4.extendByPoint (Box2.lift4 b z w) (V2.lift4 p z w) = Box2.lift4 (Gen.Box2.extendByPoint b p) z w := by
  rw [Box4.extendByPoint_eq, Box2.extendByPoint_eq]
  simp only [Box4.ext, Box2.ext, Box2.lift4, V2.lift4, min_self, max_self]

theorem Box2_generic_extendByBox (b o : Box2 α) (z w : α) :
    Gen.Box4.extendByBox (Box2.lift4 b z w) (Box2.lift4 o z w) = Box2.lift4 (Gen.Box2.extendByBox b o) z w := by
  rw [Box4.extendByBox_eq, Box2.extendByBox_eq]
  simp only [Box4.ext, Box2.ext, Box2.lift4, V2.lift4, min_self, max_self]

theorem Box2_generic_intersectsPoint (b : Box2 α) (p : V2 α) (z w : α) :
    Gen.Box4.intersectsPoint (Box2.lift4 b z w) (V2.lift4 p z w) = Gen.Box2.intersectsPoint b p := by
  rw [Bool.eq_iff_iff, Box4.intersectsPoint_iff, Box2.intersectsPoint_iff]
  simp only [Box4.Mem, Box2.Mem, Box2.lift4, V2.lift4, le_refl, and_self, and_true]

theorem Box2_generic_intersectsBox (a b : Box2 α) (z w : α) :
    Gen.Box4.intersectsBox (Box2.lift4 a z w) (Box2.lift4 b z w) = Gen.Box2.intersectsBox a b := by
  rw [Bool.eq_iff_iff, Box4_intersectsBox_iff_axes, Box2_intersectsBox_iff_axes]
  simp only [Box4.Inverted, Box2.Inverted, Box2.lift4, V2.lift4, le_refl, and_self, and_true, lt_self_iff_false, or_false]

theorem Box2_generic_isEmpty (b : Box2 α) (z w : α) :
    Gen.Box4.isEmpty (Box2.lift4 b z w) = Gen.Box2.isEmpty b := by
  rw [Bool.eq_iff_iff, Box4.isEmpty_iff, Box2.isEmpty_iff]
  simp only [Box4.Inverted, Box2.Inverted, Box2.lift4, V2.lift4, lt_self_iff_false, or_false]

theorem Box2_generic_clip (p : V2 α) (b : Box2 α) (z w : α) :
    Gen.Box4.clip (V2.lift4 p z w) (Box2.lift4 b z w) = V2.lift4 (Gen.Box2.clip p b) z w := by
  rw [Box4.clip_eq, Box2.clip_eq]
  simp only [Box4.clipN, Box2.clipN, Box2.lift4, V2.lift4, sclamp_fixed w w w (le_refl _) (le_refl _),
    sclamp_fixed z z z (le_refl _) (le_refl _)]

end lifts

section lifts_group
variable [AddCommGroup α] [LinearOrder α] [IsOrderedAddMonoid α]

theorem Box3_generic_size (b : Box3 α) (w : α) :
    Gen.Box4.size (Box3.lift4 b w) = V3.lift4 (Gen.Box3.size b) 0 := by
  simp only [Gen.Box4.size, Gen.Box3.size, Box3.lift4, V3.lift4, lt_self_iff_false, sub_self, if_false]
  split_ifs <;> rfl

theorem Box3_generic_majorAxis (b : Box3 α) (w : α) :
    Gen.Box4.majorAxis (Box3.lift4 b w) = Gen.Box3.majorAxis b := by
  simp only [Gen.Box4.majorAxis, Gen.Box3.majorAxis, Box3.lift4, V3.lift4, lt_self_iff_false, sub_self, if_false,
    sub_neg]
  split_ifs <;> first | rfl | (exfalso; bord)

end lifts_group

/-! ### the remaining queries: the generic template on extra axes = the specialisation (audit W8) -/

/-- embedding with a possibly NON-degenerate extra axis `[w, w']` -/
def Box3.lift4' (b : Box3 α) (w w' : α) : Box4 α := ⟨V3.lift4 b.min w, V3.lift4 b.max w'⟩
def Box2.lift4' (b : Box2 α) (z z' w w' : α) : Box4 α := ⟨V2.lift4 b.min z w, V2.lift4 b.max z' w'⟩

section lifts_order
variable [LinearOrder α]

theorem Box3_generic_hasVolume (b : Box3 α) (w w' : α) (h : w < w') :
    Gen.Box4.hasVolume (Box3.lift4' b w w') = Gen.Box3.hasVolume b := by
  rw [Bool.eq_iff_iff, Box4_hasVolume_iff, Box3_hasVolume_iff]
  simp only [Box3.lift4', V3.lift4, h, and_true]

/-- ... and a degenerate extra axis never has volume (so the single-`w` embedding cannot be used for `hasVolume`) -/
theorem Box3_generic_hasVolume_degenerate (b : Box3 α) (w : α) : Gen.Box4.hasVolume (Box3.lift4 b w) = false := by
  rw [← Bool.not_eq_true, Box4_hasVolume_iff]
  simp only [Box3.lift4, V3.lift4, lt_self_iff_false, and_false, not_false_eq_true]

theorem Box2_generic_hasVolume (b : Box2 α) (z z' w w' : α) (hz : z < z') (hw : w < w') :
    Gen.Box4.hasVolume (Box2.lift4' b z z' w w') = Gen.Box2.hasVolume b := by
  rw [Bool.eq_iff_iff, Box4_hasVolume_iff, Box2_hasVolume_iff]
  simp only [Box2.lift4', V2.lift4, hz, hw, and_true]

theorem Box3_generic_isInfinite (tmax tlowest : α) (b : Box3 α) :
    Gen.Box4.isInfinite tmax tlowest (Box3.lift4' b tlowest tmax) = Gen.Box3.isInfinite tmax tlowest b := by
  rw [Bool.eq_iff_iff, Box4_isInfinite_iff, Box3_isInfinite_iff]
  obtain ⟨⟨a1, a2, a3⟩, ⟨a4, a5, a6⟩⟩ := b
  simp only [Box3.lift4', V3.lift4, Gen.Box4.makeInfinite, Gen.Box3.makeInfinite, Box4.mk.injEq, V4.mk.injEq, Box3.mk.injEq,
    V3.mk.injEq, and_true]

theorem Box2_generic_isInfinite (tmax tlowest : α) (b : Box2 α) :
    Gen.Box4.isInfinite tmax tlowest (Box2.lift4' b tlowest tmax tlowest tmax) = Gen.Box2.isInfinite tmax tlowest b := by
  rw [Bool.eq_iff_iff, Box4_isInfinite_iff, Box2_isInfinite_iff]
  obtain ⟨⟨a1, a2⟩, ⟨a4, a5⟩⟩ := b
  simp only [Box2.lift4', V2.lift4, Gen.Box4.makeInfinite, Gen.Box2.makeInfinite, Box4.mk.injEq, V4.mk.injEq, Box2.mk.injEq,
    V2.mk.injEq, and_true]

theorem Box3_generic_eq (a b : Box3 α) (w w' : α) :
    Gen.Box4.eq (Box3.lift4' a w w') (Box3.lift4' b w w') = Gen.Box3.eq a b := by
  rw [Bool.eq_iff_iff, Box4_eq_iff, Box3_eq_iff]
  obtain ⟨⟨a1, a2, a3⟩, ⟨a4, a5, a6⟩⟩ := a
  obtain ⟨⟨b1, b2, b3⟩, ⟨b4, b5, b6⟩⟩ := b
  simp only [Box3.lift4', V3.lift4, Box4.mk.injEq, V4.mk.injEq, Box3.mk.injEq, V3.mk.injEq, and_true]

theorem Box3_generic_ne (a b : Box3 α) (w w' : α) :
    Gen.Box4.ne (Box3.lift4' a w w') (Box3.lift4' b w w') = Gen.Box3.ne a b := by
  rw [Bool.eq_iff_iff, Box4_ne_iff, Box3_ne_iff, not_iff_not, ← Box4_eq_iff, ← Box3_eq_iff, Box3_generic_eq]

theorem Box2_generic_eq (a b : Box2 α) (z z' w w' : α) :
    Gen.Box4.eq (Box2.lift4' a z z' w w') (Box2.lift4' b z z' w w') = Gen.Box2.eq a b := by
  rw [Bool.eq_iff_iff, Box4_eq_iff, Box2_eq_iff]
  obtain ⟨⟨a1, a2⟩, ⟨a4, a5⟩⟩ := a
  obtain ⟨⟨b1, b2⟩, ⟨b4, b5⟩⟩ := b
  simp only [Box2.lift4', V2.lift4, Box4.mk.injEq, V4.mk.injEq, Box2.mk.injEq, V2.mk.injEq, and_true]

theorem Box2_generic_ne (a b : Box2 α) (z z' w w' : α) :
    Gen.Box4.ne (Box2.lift4' a z z' w w') (Box2.lift4' b z z' w w') = Gen.Box2.ne a b := by
  rw [Bool.eq_iff_iff, Box4_ne_iff, Box2_ne_iff, not_iff_not, ← Box4_eq_iff, ← Box2_eq_iff, Box2_generic_eq]

/-- constructors: the generic template writes the same bounds on every axis -/
theorem Box3_generic_makeEmpty (tmax tlowest : α) (b : Box3 α) (w w' : α) :
    Gen.Box4.makeEmpty tmax tlowest (Box3.lift4' b w w') = Box3.lift4' (Gen.Box3.makeEmpty tmax tlowest b) tmax tlowest := rfl
theorem Box3_generic_makeInfinite (tmax tlowest : α) (b : Box3 α) (w w' : α) :
    Gen.Box4.makeInfinite tmax tlowest (Box3.lift4' b w w') = Box3.lift4' (Gen.Box3.makeInfinite tmax tlowest b) tlowest tmax := rfl
theorem Box3_generic_default (tmax tlowest : α) :
    Gen.Box4.default tmax tlowest = Box3.lift4' (Gen.Box3.default tmax tlowest) tmax tlowest := rfl
theorem Box2_generic_makeEmpty (tmax tlowest : α) (b : Box2 α) (z z' w w' : α) :
    Gen.Box4.makeEmpty tmax tlowest (Box2.lift4' b z z' w w') = Box2.lift4' (Gen.Box2.makeEmpty tmax tlowest b) tmax tlowest tmax tlowest := rfl
theorem Box2_generic_makeInfinite (tmax tlowest : α) (b : Box2 α) (z z' w w' : α) :
    Gen.Box4.makeInfinite tmax tlowest (Box2.lift4' b z z' w w') = Box2.lift4' (Gen.Box2.makeInfinite tmax tlowest b) tlowest tmax tlowest tmax := rfl
theorem Box2_generic_default (tmax tlowest : α) :
    Gen.Box4.default tmax tlowest = Box2.lift4' (Gen.Box2.default tmax tlowest) tmax tlowest tmax tlowest := rfl

end lifts_order

section lifts_center
variable [Add α] [Div α] [OfNat α 2]
/-- `center()`: the same expression `(max + min) / 2` on every axis (any scalar type, no algebra used) -/
theorem Box3_generic_center (b : Box3 α) (w w' : α) :
    Gen.Box4.center (Box3.lift4' b w w') = V3.lift4 (Gen.Box3.center b) ((w' + w) / 2) := rfl
theorem Box2_generic_center (b : Box2 α) (z z' w w' : α) :
    Gen.Box4.center (Box2.lift4' b z z' w w') = V2.lift4 (Gen.Box2.center b) ((z' + z) / 2) ((w' + w) / 2) := rfl
end lifts_center

section lifts_group2
variable [AddCommGroup α] [LinearOrder α] [IsOrderedAddMonoid α]

theorem Box2_generic_size (b : Box2 α) (z w : α) :
    Gen.Box4.size (Box2.lift4 b z w) = V2.lift4 (Gen.Box2.size b) 0 0 := by
  simp only [Gen.Box4.size, Gen.Box2.size, Box2.lift4, V2.lift4, lt_self_iff_false, sub_self, if_false]
  split_ifs <;> rfl

theorem Box2_generic_majorAxis (b : Box2 α) (z w : α) :
    Gen.Box4.majorAxis (Box2.lift4 b z w) = Gen.Box2.majorAxis b := by
  simp only [Gen.Box4.majorAxis, Gen.Box2.majorAxis, Box2.lift4, V2.lift4, lt_self_iff_false, sub_self, if_false,
    sub_neg]
  split_ifs <;> first | rfl | (exfalso; bord)

end lifts_group2


/-! ## clip / closestPointInBox / closestPointOnBox -/

set_option maxHeartbeats 1600000 in
/-- induction principle over the 69 extracted paths of `closestPointOnBox`: every path is the empty-box early
return, the clip of an outside point, or an inside point moved to the face with the smallest of the six face
distances.  The theorems below are derived from it, so the extracted tree is walked once. -/
theorem Box3.closestPointOnBox_cases [LinearOrder α] [Sub α] (p : V3 α) (b : Box3 α) (P : V3 α → Prop)
    (hE : Box3.Inverted b → P p)
    (hO : ¬ Box3.Inverted b → ¬ Box3.Mem p b → P (Box3.clipN p b))
    (hI : ¬ Box3.Inverted b → Box3.Mem p b → ∀ q, Box3.InsideChoice p b q → P q) :
    P (Gen.Box3.closestPointOnBox p b) := by
  unfold Gen.Box3.closestPointOnBox
  extract_lets t1 t2 t3 t4 t5 t6
  repeat' (apply ite_ind P <;> intro _)
  -- the three early returns of an inverted box
  all_goals first
    | exact hE (Or.inl (by assumption))
    | exact hE (Or.inr (Or.inl (by assumption)))
    | exact hE (Or.inr (Or.inr (by assumption)))
    | skip
  all_goals
    have hni : ¬ Box3.Inverted b := by
      simp only [Box3.Inverted, not_or]; refine ⟨?_, ?_, ?_⟩ <;> assumption
  all_goals first
    | -- p inside: one coordinate moved to the nearest face
      (have hm : Box3.Mem p b := by
         refine ⟨⟨?_, ?_⟩, ⟨?_, ?_⟩, ⟨?_, ?_⟩⟩ <;> exact not_lt.mp (by assumption)
       simp only [t1, t2, t3, t4, t5, t6] at *
       apply hI hni hm
       unfold Box3.InsideChoice
       first
        | (left; refine ⟨rfl, ?_⟩; simp only [← le_min_iff]; order)
        | (right; left; refine ⟨rfl, ?_⟩; simp only [← le_min_iff]; order)
        | (right; right; left; refine ⟨rfl, ?_⟩; simp only [← le_min_iff]; order)
        | (right; right; right; left; refine ⟨rfl, ?_⟩; simp only [← le_min_iff]; order)
        | (right; right; right; right; left; refine ⟨rfl, ?_⟩; simp only [← le_min_iff]; order)
        | (right; right; right; right; right; refine ⟨rfl, ?_⟩; simp only [← le_min_iff]; order))
    | -- p outside: the result is the clip
      (have e := hO hni (by rintro ⟨⟨m1, m2⟩, ⟨m3, m4⟩, ⟨m5, m6⟩⟩; order)
       simp only [Box3.clipN, sclamp, *, if_true, if_false] at e
       exact e)



section clip_order
variable [LinearOrder α]

/-- `clip` per axis: `(p < min) ? min : (p > max) ? max : p`; `closestPointInBox` is the same function -/
theorem Box2_clip (p : V2 α) (b : Box2 α) : Gen.Box2.clip p b = Box2.clipN p b := Box2.clip_eq p b
theorem Box3_clip (p : V3 α) (b : Box3 α) : Gen.Box3.clip p b = Box3.clipN p b := Box3.clip_eq p b
theorem Box4_clip (p : V4 α) (b : Box4 α) : Gen.Box4.clip p b = Box4.clipN p b := Box4.clip_eq p b
theorem Box2_closestPointInBox (p : V2 α) (b : Box2 α) : Gen.Box2.closestPointInBox p b = Gen.Box2.clip p b := by
  rw [Box2.closestPointInBox_eq, Box2.clip_eq]
theorem Box3_closestPointInBox (p : V3 α) (b : Box3 α) : Gen.Box3.closestPointInBox p b = Gen.Box3.clip p b := by
  rw [Box3.closestPointInBox_eq, Box3.clip_eq]
theorem Box4_closestPointInBox (p : V4 α) (b : Box4 α) : Gen.Box4.closestPointInBox p b = Gen.Box4.clip p b := by
  rw [Box4.closestPointInBox_eq, Box4.clip_eq]

/-- the clipped point is in the (non-empty) box -/
theorem Box2_clip_mem (p : V2 α) (b : Box2 α) (hb : ¬ Box2.Inverted b) : Box2.Mem (Gen.Box2.clip p b) b := by
  rw [Box2.clip_eq]; exact Box2.clipN_mem p b hb
theorem Box3_clip_mem (p : V3 α) (b : Box3 α) (hb : ¬ Box3.Inverted b) : Box3.Mem (Gen.Box3.clip p b) b := by
  rw [Box3.clip_eq]; exact Box3.clipN_mem p b hb
theorem Box4_clip_mem (p : V4 α) (b : Box4 α) (hb : ¬ Box4.Inverted b) : Box4.Mem (Gen.Box4.clip p b) b := by
  rw [Box4.clip_eq]; exact Box4.clipN_mem p b hb

/-- a point of the box is its own clip -/
theorem Box2_clip_fixed (p : V2 α) (b : Box2 α) (hp : Box2.Mem p b) : Gen.Box2.clip p b = p := by
  rw [Box2.clip_eq]; exact Box2.clipN_fixed p b hp
theorem Box3_clip_fixed (p : V3 α) (b : Box3 α) (hp : Box3.Mem p b) : Gen.Box3.clip p b = p := by
  rw [Box3.clip_eq]; exact Box3.clipN_fixed p b hp
theorem Box4_clip_fixed (p : V4 α) (b : Box4 α) (hp : Box4.Mem p b) : Gen.Box4.clip p b = p := by
  rw [Box4.clip_eq]; exact Box4.clipN_fixed p b hp

/-- `closestPointOnBox` returns the point itself for an empty box -/
theorem Box3_closestPointOnBox_empty [Sub α] (p : V3 α) (b : Box3 α) (hb : Box3.Inverted b) :
    Gen.Box3.closestPointOnBox p b = p :=
  Box3.closestPointOnBox_cases p b (fun q => q = p) (fun _ => rfl) (fun h => absurd hb h) (fun h => absurd hb h)

/-- ... and a point of the SURFACE of a non-empty box (a box point on one of the six face planes) -/
theorem Box3_closestPointOnBox_onSurface [Sub α] (p : V3 α) (b : Box3 α) (hb : ¬ Box3.Inverted b) :
    Box3.OnSurface (Gen.Box3.closestPointOnBox p b) b :=
  Box3.closestPointOnBox_cases p b (fun q => Box3.OnSurface q b) (fun h => absurd h hb)
    (fun h hp => Box3.clipN_onSurface p b h hp) (fun _ hp q hq => Box3.insideChoice_onSurface p q b hp hq)

/-- for a point outside the box it is the clip -/
theorem Box3_closestPointOnBox_outside [Sub α] (p : V3 α) (b : Box3 α) (hb : ¬ Box3.Inverted b) (hp : ¬ Box3.Mem p b) :
    Gen.Box3.closestPointOnBox p b = Gen.Box3.clip p b := by
  rw [Box3.clip_eq]
  exact Box3.closestPointOnBox_cases p b (fun q => q = Box3.clipN p b) (fun h => absurd h hb) (fun _ _ => rfl)
    (fun _ h => absurd h hp)

end clip_order

section clip_group
variable [AddCommGroup α] [LinearOrder α] [IsOrderedAddMonoid α]

/-- NEAREST, per axis: no point of the box is closer to `p` on any axis than the clip -/
theorem Box2_clip_nearest (p q : V2 α) (b : Box2 α) (hq : Box2.Mem q b) :
    |(Gen.Box2.clip p b).x - p.x| ≤ |q.x - p.x| ∧ |(Gen.Box2.clip p b).y - p.y| ≤ |q.y - p.y| := by
  rw [Box2.clip_eq]; obtain ⟨⟨q1, q2⟩, ⟨q3, q4⟩⟩ := hq
  exact ⟨sclamp_nearest _ _ _ _ q1 q2, sclamp_nearest _ _ _ _ q3 q4⟩

theorem Box3_clip_nearest (p q : V3 α) (b : Box3 α) (hq : Box3.Mem q b) :
    |(Gen.Box3.clip p b).x - p.x| ≤ |q.x - p.x| ∧ |(Gen.Box3.clip p b).y - p.y| ≤ |q.y - p.y| ∧
      |(Gen.Box3.clip p b).z - p.z| ≤ |q.z - p.z| := by
  rw [Box3.clip_eq]; obtain ⟨⟨q1, q2⟩, ⟨q3, q4⟩, ⟨q5, q6⟩⟩ := hq
  exact ⟨sclamp_nearest _ _ _ _ q1 q2, sclamp_nearest _ _ _ _ q3 q4, sclamp_nearest _ _ _ _ q5 q6⟩

theorem Box4_clip_nearest (p q : V4 α) (b : Box4 α) (hq : Box4.Mem q b) :
    |(Gen.Box4.clip p b).x - p.x| ≤ |q.x - p.x| ∧ |(Gen.Box4.clip p b).y - p.y| ≤ |q.y - p.y| ∧
      |(Gen.Box4.clip p b).z - p.z| ≤ |q.z - p.z| ∧ |(Gen.Box4.clip p b).w - p.w| ≤ |q.w - p.w| := by
  rw [Box4.clip_eq]; obtain ⟨⟨q1, q2⟩, ⟨q3, q4⟩, ⟨q5, q6⟩, ⟨q7, q8⟩⟩ := hq
  exact ⟨sclamp_nearest _ _ _ _ q1 q2, sclamp_nearest _ _ _ _ q3 q4, sclamp_nearest _ _ _ _ q5 q6,
    sclamp_nearest _ _ _ _ q7 q8⟩

end clip_group

section clip_ring
variable [CommRing α] [LinearOrder α] [IsStrictOrderedRing α]

/-- NEAREST, Euclidean: `clip p b` minimises the squared distance to `p` over the box -/
theorem Box3_clip_nearest_euclid (p q : V3 α) (b : Box3 α) (hq : Box3.Mem q b) :
    V3.dist2 (Gen.Box3.clip p b) p ≤ V3.dist2 q p := by
  rw [Box3.clip_eq]; exact Box3.clipN_dist2_le p q b hq

/-- NEAREST ON THE SURFACE: `closestPointOnBox p b` minimises the squared distance to `p` over the surface
of a non-empty box -/
theorem Box3_closestPointOnBox_nearest (p : V3 α) (b : Box3 α) (hb : ¬ Box3.Inverted b) (s : V3 α)
    (hs : Box3.OnSurface s b) :
    V3.dist2 (Gen.Box3.closestPointOnBox p b) p ≤ V3.dist2 s p :=
  Box3.closestPointOnBox_cases p b (fun q => V3.dist2 q p ≤ V3.dist2 s p) (fun h => absurd h hb)
    (fun _ _ => Box3.clipN_dist2_le p s b hs.1) (fun _ hp q hq => Box3.insideChoice_nearest p q s b hp hq hs.2)

end clip_ring

/-- non-vacuity: a non-inverted box, a surface point, an outside point (Int) -/
example : ¬ Box3.Inverted (⟨⟨0, 0, 0⟩, ⟨2, 2, 2⟩⟩ : Box3 Int) ∧ Box3.OnSurface (⟨0, 1, 1⟩ : V3 Int) ⟨⟨0, 0, 0⟩, ⟨2, 2, 2⟩⟩ ∧
    ¬ Box3.Mem (⟨3, 1, 1⟩ : V3 Int) ⟨⟨0, 0, 0⟩, ⟨2, 2, 2⟩⟩ := by
  simp only [Box3.Inverted, Box3.OnSurface, Box3.Mem]; decide


/-! ### `center()` at the INTEGER element types (audit W6): truncating division, no overflow (unbounded `Int`) -/

/-- C++ `/` on signed integers truncates toward zero: `Int.tdiv` -/
@[reducible] def cxxIntDiv : Div Int := ⟨Int.tdiv⟩

theorem tdiv_two_between (lo hi : Int) (h : lo ≤ hi) : lo ≤ (hi + lo).tdiv 2 ∧ (hi + lo).tdiv 2 ≤ hi := by
  rcases le_total 0 (hi + lo) with hs | hs
  · rw [Int.tdiv_eq_ediv_of_nonneg hs]; omega
  · have e : (hi + lo).tdiv 2 = -((-(hi + lo)).tdiv 2) := by rw [Int.neg_tdiv, neg_neg]
    rw [e, Int.tdiv_eq_ediv_of_nonneg (by omega)]; omega

/-- `Interval<int>::center()` = `(max + min) / 2` with truncation lies in a non-empty interval (mathematical integers:
the machine types additionally overflow when `|max + min|` exceeds the type, see chk.assumptions) -/
theorem Interval_center_int_mem (b : Interval Int) (hb : ¬ Interval.Inverted b) :
    Interval.Mem (@Gen.Interval.center Int _ cxxIntDiv _ b) b := by
  simp only [Interval.Inverted, not_lt] at hb
  exact tdiv_two_between b.min b.max hb

theorem Box2_center_int_mem (b : Box2 Int) (hb : ¬ Box2.Inverted b) :
    Box2.Mem (@Gen.Box2.center Int _ cxxIntDiv _ b) b := by
  simp only [Box2.Inverted, not_or, not_lt] at hb
  exact ⟨tdiv_two_between _ _ hb.1, tdiv_two_between _ _ hb.2⟩

theorem Box3_center_int_mem (b : Box3 Int) (hb : ¬ Box3.Inverted b) :
    Box3.Mem (@Gen.Box3.center Int _ cxxIntDiv _ b) b := by
  simp only [Box3.Inverted, not_or, not_lt] at hb
  exact ⟨tdiv_two_between _ _ hb.1, tdiv_two_between _ _ hb.2.1, tdiv_two_between _ _ hb.2.2⟩

theorem Box4_center_int_mem (b : Box4 Int) (hb : ¬ Box4.Inverted b) :
    Box4.Mem (@Gen.Box4.center Int _ cxxIntDiv _ b) b := by
  simp only [Box4.Inverted, not_or, not_lt] at hb
  exact ⟨tdiv_two_between _ _ hb.1, tdiv_two_between _ _ hb.2.1, tdiv_two_between _ _ hb.2.2.1, tdiv_two_between _ _ hb.2.2.2⟩

/-- truncation toward zero, not toward `-∞`: the centre of `[-3, 0]` is `-1` (C++), where Euclidean division would give `-2` -/
example : @Gen.Interval.center Int _ cxxIntDiv _ ⟨-3, 0⟩ = -1 ∧ @Gen.Interval.center Int _ _ _ ⟨-3, 0⟩ = -2 := by decide
/-- with 16-bit wrap-around (what `Box<V2s>::center()` does through `Vec2<short>::operator+`) the "centre" can leave the box:
`[30000, 32000]`: `30000 + 32000` wraps to `-3536`, halved `-1768` -/
example : (((30000 + 32000 + 32768) % 65536 - 32768 : Int)).tdiv 2 = -1768 := by decide


/-! ### machine-width `center()` (audit r2, W6 remainder): 16-bit wrap-around of the sum -/

/-- conversion of an `int` to `short` (two's-complement wrap), what `Vec<short>::operator+` does to each component sum -/
def w16 (x : Int) : Int := (x + 32768) % 65536 - 32768

/-- `Box<Vec<short>>::center()` per axis: the sum is truncated to 16 bits, then halved with C++ truncating division -/
def center16 (lo hi : Int) : Int := (w16 (hi + lo)).tdiv 2

/-- as long as `max + min` itself fits in 16 bits the machine-width centre is the exact one, hence inside the box -/
theorem center16_mem (lo hi : Int) (h : lo ≤ hi) (hs : -32768 ≤ hi + lo ∧ hi + lo ≤ 32767) :
    center16 lo hi = (hi + lo).tdiv 2 ∧ lo ≤ center16 lo hi ∧ center16 lo hi ≤ hi := by
  have e : w16 (hi + lo) = hi + lo := by unfold w16; omega
  unfold center16; rw [e]
  exact ⟨rfl, tdiv_two_between lo hi h⟩

/-- ... and the bound is sharp: for every non-empty short interval whose sum overflows upwards the wrapped centre is NEGATIVE,
hence below `min > 0` — outside the box (the harness WITNESS `[30000,32000]` is the instance `-1768`) -/
theorem center16_outside (lo hi : Int) (h : lo ≤ hi) (hhi : hi ≤ 32767) (hs : 32767 < hi + lo) : center16 lo hi < lo := by
  have e : w16 (hi + lo) = hi + lo - 65536 := by unfold w16; omega
  unfold center16; rw [e]
  have hneg : hi + lo - 65536 < 0 := by omega
  have e2 : (hi + lo - 65536).tdiv 2 = -((-(hi + lo - 65536)).tdiv 2) := by rw [Int.neg_tdiv, neg_neg]
  rw [e2, Int.tdiv_eq_ediv_of_nonneg (by omega)]; omega

example : center16 30000 32000 = -1768 := by decide


/-! ## transform / affineTransform (model `Model/BoxTransform.lean`, all four overloads; model = extracted code: `Props/C13Transform.lean`)

`affImg m p` is the affine image `p·M` (row vector times the upper 4×3 block plus the translation row);
`Gen.BoxAlgo.vecTimesM44 c m` is the real `Vec3 * Matrix44` (with homogeneous divide) applied to a corner. -/

section transform_gen
open BoxTransform
variable [Field α] [LinearOrder α] [IsStrictOrderedRing α]

/-- for an affine matrix `points[i] * m` (with its homogeneous divide by `w = 1`) is the affine image -/
theorem vecTimesM44_affine (m : M44 α) (h : isAffine m = true) (c : V3 α) :
    Gen.BoxAlgo.vecTimesM44 c m = affImg m c := by
  simp only [isAffine, Bool.and_eq_true, decide_eq_true_eq] at h
  obtain ⟨⟨⟨h0, h1⟩, h2⟩, h3⟩ := h
  simp only [Gen.BoxAlgo.vecTimesM44, affImg, affCoord, h0, h1, h2, h3, mul_zero, add_zero, zero_add, div_one]

/-- the eight-corner loop as a sequence of `extendBy(point)` calls -/
theorem projective_eq_extendAll (start b : Box3 α) (m : M44 α) :
    projective start b m = Box3.extendAll start ((corners b).map (fun c => Box3.Arg.pt (Gen.BoxAlgo.vecTimesM44 c m))) := by
  simp only [projective, Box3.extendAll, List.foldl_map, Box3.step]

/-- the eight-corner loop from an API-reachable start box: least box containing `start` and the eight images.
RANGE-RELATIVE (audit W1): the only requirement on the type bounds is that the eight corner images (and the start box)
lie within them — `∀ x, tlowest ≤ x ∧ x ≤ tmax`, assumed by an earlier version, is unsatisfiable over an ordered field.
This is a statement about the VALUES `Gen.BoxAlgo.vecTimesM44 c m` (total division); that they are the images of the corners
needs `w ≠ 0`, which the theorems using this lemma (`transform_tight` …) carry as `hw0`. -/
theorem projective_spec (tmax tlowest : α) (hlt : tlowest < tmax)
    (start b : Box3 α) (m : M44 α) (hs : Box3.CanonR tmax tlowest start)
    (hrange : ∀ c ∈ corners b, V3.InRange tmax tlowest (Gen.BoxAlgo.vecTimesM44 c m)) :
    Box3.CanonR tmax tlowest (projective start b m) ∧
    ∀ c', Box3.Subset (projective start b m) c' ↔
      Box3.Subset start c' ∧ ∀ c ∈ corners b, Box3.Mem (Gen.BoxAlgo.vecTimesM44 c m) c' := by
  rw [projective_eq_extendAll, Box3.extendAll_eq]
  have h := Box3.extendAllN_specR tmax tlowest hlt
    ((corners b).map (fun c => Box3.Arg.pt (Gen.BoxAlgo.vecTimesM44 c m))) start hs
    (by intro a ha; simp only [List.mem_map] at ha; obtain ⟨c, hc, rfl⟩ := ha; exact hrange c hc)
  refine ⟨h.1, fun c' => ?_⟩
  rw [h.2 c']
  simp only [List.mem_map, forall_exists_index, and_imp, forall_apply_eq_imp_iff₂, Box3.Arg.Within]

/-- the homogeneous coordinate `w` of `p * m` (denominator of `Vec3 * Matrix44`) -/
def wOf (m : M44 α) (p : V3 α) : α := affCoord m.x33 m.x03 m.x13 m.x23 p

/-- `Vec3 * Matrix44` is the three affine numerators divided by `w` -/
theorem vecTimesM44_eq (m : M44 α) (p : V3 α) :
    Gen.BoxAlgo.vecTimesM44 p m = ⟨affCoord m.x30 m.x00 m.x10 m.x20 p / wOf m p, affCoord m.x31 m.x01 m.x11 m.x21 p / wOf m p,
      affCoord m.x32 m.x02 m.x12 m.x22 p / wOf m p⟩ := by
  first
  | rfl
  | (simp only [Gen.BoxAlgo.vecTimesM44, affCoord, wOf, V3.mk.injEq]; refine ⟨?_, ?_, ?_⟩ <;> ring)

/-- one output axis of the projective map on a box on which `w > 0` at the eight corners: bounds valid at the corners
are valid at every point of the box (`num(p) - lo·w(p)` is affine in `p`, hence minimal at a corner) -/
theorem proj_axis_bounds (m3 m0 m1 m2 w3 w0 w1 w2 : α) (b : Box3 α) (lo hi : α)
    (hw : ∀ c ∈ corners b, 0 < affCoord w3 w0 w1 w2 c)
    (h : ∀ c ∈ corners b, lo ≤ affCoord m3 m0 m1 m2 c / affCoord w3 w0 w1 w2 c ∧
      affCoord m3 m0 m1 m2 c / affCoord w3 w0 w1 w2 c ≤ hi)
    (p : V3 α) (hp : Box3.Mem p b) :
    lo ≤ affCoord m3 m0 m1 m2 p / affCoord w3 w0 w1 w2 p ∧ affCoord m3 m0 m1 m2 p / affCoord w3 w0 w1 w2 p ≤ hi := by
  have hwp := affCoord_pos_of_corners w3 w0 w1 w2 b hw p hp
  have e1 : ∀ q : V3 α, affCoord (m3 - lo * w3) (m0 - lo * w0) (m1 - lo * w1) (m2 - lo * w2) q =
      affCoord m3 m0 m1 m2 q - lo * affCoord w3 w0 w1 w2 q := by intro q; unfold affCoord; ring
  have e2 : ∀ q : V3 α, affCoord (hi * w3 - m3) (hi * w0 - m0) (hi * w1 - m1) (hi * w2 - m2) q =
      hi * affCoord w3 w0 w1 w2 q - affCoord m3 m0 m1 m2 q := by intro q; unfold affCoord; ring
  have g1 := affCoord_nonneg_of_corners (m3 - lo * w3) (m0 - lo * w0) (m1 - lo * w1) (m2 - lo * w2) b
    (fun c hc => by rw [e1]; have := (le_div_iff₀ (hw c hc)).1 (h c hc).1; linarith) p hp
  have g2 := affCoord_nonneg_of_corners (hi * w3 - m3) (hi * w0 - m0) (hi * w1 - m1) (hi * w2 - m2) b
    (fun c hc => by rw [e2]; have := (div_le_iff₀ (hw c hc)).1 (h c hc).2; linarith) p hp
  rw [e1] at g1; rw [e2] at g2
  exact ⟨(le_div_iff₀ hwp).2 (by linarith), (div_le_iff₀ hwp).2 (by linarith)⟩

theorem affCoord_neg (m3 m0 m1 m2 : α) (q : V3 α) : affCoord (-m3) (-m0) (-m1) (-m2) q = -affCoord m3 m0 m1 m2 q := by
  unfold affCoord; ring

/-- the same with `w < 0` at the eight corners (`num / w = (-num) / (-w)`) -/
theorem proj_axis_bounds_neg (m3 m0 m1 m2 w3 w0 w1 w2 : α) (b : Box3 α) (lo hi : α)
    (hw : ∀ c ∈ corners b, affCoord w3 w0 w1 w2 c < 0)
    (h : ∀ c ∈ corners b, lo ≤ affCoord m3 m0 m1 m2 c / affCoord w3 w0 w1 w2 c ∧
      affCoord m3 m0 m1 m2 c / affCoord w3 w0 w1 w2 c ≤ hi)
    (p : V3 α) (hp : Box3.Mem p b) :
    lo ≤ affCoord m3 m0 m1 m2 p / affCoord w3 w0 w1 w2 p ∧ affCoord m3 m0 m1 m2 p / affCoord w3 w0 w1 w2 p ≤ hi := by
  have := proj_axis_bounds (-m3) (-m0) (-m1) (-m2) (-w3) (-w0) (-w1) (-w2) b lo hi
    (fun c hc => by rw [affCoord_neg]; exact neg_pos.2 (hw c hc))
    (fun c hc => by rw [affCoord_neg, affCoord_neg, neg_div_neg_eq]; exact h c hc) p hp
  rwa [affCoord_neg, affCoord_neg, neg_div_neg_eq] at this

end transform_gen

section transform
open BoxTransform
variable [Field α] [LinearOrder α] [IsStrictOrderedRing α]

theorem emptyOrInfinite_eq_false (tmax tlowest : α) (b : Box3 α) :
    emptyOrInfinite tmax tlowest b = false ↔ ¬ Box3.Inverted b ∧ b ≠ Box3.canonInfinite tmax tlowest := by
  rw [emptyOrInfinite, Bool.or_eq_false_iff, ← Bool.not_eq_true, ← Bool.not_eq_true, Box3.isEmpty_iff,
    Box3.isInfinite_iff]

theorem emptyOrInfinite_of_inverted (tmax tlowest : α) (b : Box3 α) (hb : Box3.Inverted b) :
    emptyOrInfinite tmax tlowest b = true := by
  rw [emptyOrInfinite, Bool.or_eq_true]; exact Or.inl ((Box3.isEmpty_iff b).2 hb)

theorem emptyOrInfinite_canonInfinite (tmax tlowest : α) :
    emptyOrInfinite tmax tlowest (Box3.canonInfinite tmax tlowest) = true := by
  rw [emptyOrInfinite, Bool.or_eq_true]; exact Or.inr ((Box3.isInfinite_iff tmax tlowest _).2 rfl)

/-- AFFINE PATH, containment: the result contains the image of EVERY point of the box -/
theorem affineTransform_contains (tmax tlowest : α) (b : Box3 α) (m : M44 α) (hb : ¬ Box3.Inverted b)
    (hi : b ≠ Box3.canonInfinite tmax tlowest) (p : V3 α) (hp : Box3.Mem p b) :
    Box3.Mem (affImg m p) (affineTransform tmax tlowest b m) := by
  rw [affineTransform, (emptyOrInfinite_eq_false tmax tlowest b).2 ⟨hb, hi⟩]
  exact arvo_contains b m p hp

/-- AFFINE PATH, tightness: the result is the least box containing the images of the eight corners
(= componentwise min / max over the eight corner images) -/
theorem affineTransform_tight (tmax tlowest : α) (b : Box3 α) (m : M44 α) (hb : ¬ Box3.Inverted b)
    (hi : b ≠ Box3.canonInfinite tmax tlowest) (c' : Box3 α) :
    Box3.Subset (affineTransform tmax tlowest b m) c' ↔ ∀ c ∈ corners b, Box3.Mem (affImg m c) c' := by
  rw [affineTransform, (emptyOrInfinite_eq_false tmax tlowest b).2 ⟨hb, hi⟩]
  exact arvo_tight b m hb c'

/-- Arvo's fast path equals the naive eight-corner loop for every affine matrix whose eight corner images lie within the
type bounds (without that the loop's starting box `[max, lowest]` is not neutral: an image `> max` would be lost by
`extendBy`) -/
theorem arvo_eq_eight_corner_loop (tmax tlowest : α) (hlt : tlowest < tmax)
    (b : Box3 α) (m : M44 α) (hb : ¬ Box3.Inverted b) (ha : isAffine m = true)
    (hrange : ∀ c ∈ corners b, V3.InRange tmax tlowest (affImg m c)) :
    arvo b m = projective (Gen.Box3.default tmax tlowest) b m := by
  have hp := projective_spec tmax tlowest hlt (Gen.Box3.default tmax tlowest) b m (Or.inr rfl)
    (fun c hc => by rw [vecTimesM44_affine m ha c]; exact hrange c hc)
  have hce : ∀ c, Box3.Subset (Gen.Box3.default tmax tlowest) c :=
    fun c => Box3.subset_of_inverted _ c (Box3.canonEmpty_inverted tmax tlowest hlt)
  have hpn : ¬ Box3.Inverted (projective (Gen.Box3.default tmax tlowest) b m) := by
    rcases hp.1 with h | h
    · exact h.1
    · -- it contains the image of a corner, so it is not the empty box
      exfalso
      have hin := (hp.2 _).1 (fun p hp => hp) |>.2 ⟨b.min.x, b.min.y, b.min.z⟩ (by simp [corners])
      rw [h] at hin
      exact Box3.canonEmpty_isEmptySet tmax tlowest hlt _ hin
  apply Box3.eq_of_subset_subset _ _ (arvo_not_inverted b m hb) hpn
  · rw [arvo_tight b m hb]; intro c hc
    rw [← vecTimesM44_affine m ha c]
    exact ((hp.2 _).1 (fun p hp => hp)).2 c hc
  · rw [hp.2]; refine ⟨hce _, fun c hc => ?_⟩
    rw [vecTimesM44_affine m ha c]
    exact arvo_contains b m c (corners_mem_box b hb c hc)

/-- `transform` on an affine matrix is `affineTransform` (every box) -/
theorem transform_affine_eq_affineTransform (tmax tlowest : α) (b : Box3 α) (m : M44 α) (ha : isAffine m = true) :
    transform tmax tlowest b m = affineTransform tmax tlowest b m := by
  simp only [transform, affineTransform, ha, if_true]

/-- ALL MATRICES: for a non-empty, non-infinite box `transform` returns the tight axis-aligned bound of the
images `points[i] * m` of the eight corners (affine and projective path alike), provided those eight images EXIST
(`hw0`: no corner on the plane `w = 0`) and lie within the type bounds (`hrange`, used on the projective path only).

`hw0` is not used by the proof: over a Lean field `x / 0 = 0`, so without it the statement would also "hold" for a corner
with `w = 0`, its "image" being the origin — true for the wrong reason (audit r2 N1).  The real code divides by zero
there (`±inf` enters the bound, `0/0 = NaN` is ignored by `extendBy`; WITNESS line of the harness); such boxes are outside
the claim, and the hypothesis says so.  For an affine matrix `w = 1` at every point, so `hw0` costs nothing there. -/
theorem transform_tight (tmax tlowest : α) (hlt : tlowest < tmax)
    (b : Box3 α) (m : M44 α) (hb : ¬ Box3.Inverted b) (hi : b ≠ Box3.canonInfinite tmax tlowest)
    (hw0 : ∀ c ∈ corners b, wOf m c ≠ 0)
    (hrange : ∀ c ∈ corners b, V3.InRange tmax tlowest (Gen.BoxAlgo.vecTimesM44 c m)) (c' : Box3 α) :
    Box3.Subset (transform tmax tlowest b m) c' ↔ ∀ c ∈ corners b, Box3.Mem (Gen.BoxAlgo.vecTimesM44 c m) c' := by
  rw [transform, (emptyOrInfinite_eq_false tmax tlowest b).2 ⟨hb, hi⟩]
  simp only [Bool.false_eq_true, if_false]
  by_cases ha : isAffine m = true
  · rw [if_pos ha, arvo_tight b m hb]
    constructor <;> intro h c hc
    · rw [vecTimesM44_affine m ha c]; exact h c hc
    · rw [← vecTimesM44_affine m ha c]; exact h c hc
  · rw [if_neg ha, (projective_spec tmax tlowest hlt (Gen.Box3.default tmax tlowest) b m (Or.inr rfl) hrange).2 c']
    exact ⟨fun h => h.2, fun h => ⟨Box3.subset_of_inverted _ c' (Box3.canonEmpty_inverted tmax tlowest hlt), h⟩⟩

/-- the result of `transform` on a non-empty, non-infinite box is a non-empty box (same range proviso) -/
theorem transform_not_inverted (tmax tlowest : α) (hlt : tlowest < tmax)
    (b : Box3 α) (m : M44 α) (hb : ¬ Box3.Inverted b) (hi : b ≠ Box3.canonInfinite tmax tlowest)
    (hw0 : ∀ c ∈ corners b, wOf m c ≠ 0)
    (hrange : ∀ c ∈ corners b, V3.InRange tmax tlowest (Gen.BoxAlgo.vecTimesM44 c m)) :
    ¬ Box3.Inverted (transform tmax tlowest b m) := by
  have h := (transform_tight tmax tlowest hlt b m hb hi hw0 hrange _).1 (fun p hp => hp) ⟨b.min.x, b.min.y, b.min.z⟩
    (by simp [corners])
  exact Box3.not_inverted_of_mem _ _ h

/-- PROJECTIVE PATH INCLUDED: if the homogeneous coordinate `w` is positive at the eight corners (then it is positive on
the whole box), `transform` contains the image of EVERY point of the box — for every matrix.  The hypothesis on `w` is
necessary: see `transform_misses_point_when_w_changes_sign` below. -/
theorem transform_contains_of_pos_w (tmax tlowest : α) (hlt : tlowest < tmax)
    (b : Box3 α) (m : M44 α) (hb : ¬ Box3.Inverted b) (hi : b ≠ Box3.canonInfinite tmax tlowest)
    (hrange : ∀ c ∈ corners b, V3.InRange tmax tlowest (Gen.BoxAlgo.vecTimesM44 c m))
    (hw : ∀ c ∈ corners b, 0 < wOf m c) (p : V3 α) (hp : Box3.Mem p b) :
    Box3.Mem (Gen.BoxAlgo.vecTimesM44 p m) (transform tmax tlowest b m) := by
  have hc := (transform_tight tmax tlowest hlt b m hb hi (fun c h => ne_of_gt (hw c h)) hrange
    (transform tmax tlowest b m)).1 (fun p hp => hp)
  generalize transform tmax tlowest b m = R at hc ⊢
  simp only [vecTimesM44_eq, Box3.Mem] at hc ⊢
  exact ⟨proj_axis_bounds _ _ _ _ _ _ _ _ b _ _ hw (fun c h => (hc c h).1) p hp,
    proj_axis_bounds _ _ _ _ _ _ _ _ b _ _ hw (fun c h => (hc c h).2.1) p hp,
    proj_axis_bounds _ _ _ _ _ _ _ _ b _ _ hw (fun c h => (hc c h).2.2) p hp⟩

/-- ... and equally when `w` is NEGATIVE at the eight corners (a camera looking down `-z` with `w = -z`): what matters is
that `w` does not change sign on the box (audit r2 N7) -/
theorem transform_contains_of_neg_w (tmax tlowest : α) (hlt : tlowest < tmax)
    (b : Box3 α) (m : M44 α) (hb : ¬ Box3.Inverted b) (hi : b ≠ Box3.canonInfinite tmax tlowest)
    (hrange : ∀ c ∈ corners b, V3.InRange tmax tlowest (Gen.BoxAlgo.vecTimesM44 c m))
    (hw : ∀ c ∈ corners b, wOf m c < 0) (p : V3 α) (hp : Box3.Mem p b) :
    Box3.Mem (Gen.BoxAlgo.vecTimesM44 p m) (transform tmax tlowest b m) := by
  have hc := (transform_tight tmax tlowest hlt b m hb hi (fun c h => ne_of_lt (hw c h)) hrange
    (transform tmax tlowest b m)).1 (fun p hp => hp)
  generalize transform tmax tlowest b m = R at hc ⊢
  simp only [vecTimesM44_eq, Box3.Mem] at hc ⊢
  exact ⟨proj_axis_bounds_neg _ _ _ _ _ _ _ _ b _ _ hw (fun c h => (hc c h).1) p hp,
    proj_axis_bounds_neg _ _ _ _ _ _ _ _ b _ _ hw (fun c h => (hc c h).2.1) p hp,
    proj_axis_bounds_neg _ _ _ _ _ _ _ _ b _ _ hw (fun c h => (hc c h).2.2) p hp⟩

/-- `w > 0` on the whole box as soon as it is at the eight corners (so no point of the box is mapped to infinity) -/
theorem wOf_pos_of_corners (b : Box3 α) (m : M44 α) (hw : ∀ c ∈ corners b, 0 < wOf m c) (p : V3 α) (hp : Box3.Mem p b) :
    0 < wOf m p := affCoord_pos_of_corners _ _ _ _ b hw p hp

/-- hence, on the affine path, `transform` contains the image of every point of the box -/
theorem transform_contains (tmax tlowest : α) (b : Box3 α) (m : M44 α) (hb : ¬ Box3.Inverted b)
    (hi : b ≠ Box3.canonInfinite tmax tlowest) (ha : isAffine m = true) (p : V3 α) (hp : Box3.Mem p b) :
    Box3.Mem (Gen.BoxAlgo.vecTimesM44 p m) (transform tmax tlowest b m) := by
  rw [transform_affine_eq_affineTransform tmax tlowest b m ha, vecTimesM44_affine m ha p]
  exact affineTransform_contains tmax tlowest b m hb hi p hp

/-! ### the four overloads agree -/

/-- out-parameter `affineTransform`: equal to the value form on non-empty, non-infinite input, whatever `result` held -/
theorem affineTransformOut_eq (tmax tlowest : α) (b : Box3 α) (m : M44 α) (r : Box3 α) (hb : ¬ Box3.Inverted b)
    (hi : b ≠ Box3.canonInfinite tmax tlowest) :
    affineTransformOut tmax tlowest b m r = affineTransform tmax tlowest b m := by
  have h := (emptyOrInfinite_eq_false tmax tlowest b).2 ⟨hb, hi⟩
  have h' := h
  rw [emptyOrInfinite, Bool.or_eq_false_iff] at h'
  simp only [affineTransformOut, affineTransform, h, h'.1, h'.2, Bool.false_eq_true, if_false]

/-- ... and the same point set on EVERY input (an empty input gives the canonical empty box instead of a copy) -/
theorem affineTransformOut_same_set (tmax tlowest : α) (hlt : tlowest < tmax) (b : Box3 α) (m : M44 α) (r : Box3 α)
    (p : V3 α) : Box3.Mem p (affineTransformOut tmax tlowest b m r) ↔ Box3.Mem p (affineTransform tmax tlowest b m) := by
  by_cases hb : Box3.Inverted b
  · have e1 : affineTransformOut tmax tlowest b m r = Box3.canonEmpty tmax tlowest := by
      simp only [affineTransformOut, (Box3.isEmpty_iff b).2 hb, if_true]; rfl
    have e2 : affineTransform tmax tlowest b m = b := by
      simp only [affineTransform, emptyOrInfinite_of_inverted tmax tlowest b hb, if_true]
    rw [e1, e2]
    exact ⟨fun h => absurd h (Box3.canonEmpty_isEmptySet tmax tlowest hlt p),
      fun h => absurd h ((Box3.isEmptySet_iff b).2 hb p)⟩
  · by_cases hi : b = Box3.canonInfinite tmax tlowest
    · subst hi
      have hne : Gen.Box3.isEmpty (Box3.canonInfinite tmax tlowest) = false := by
        rw [← Bool.not_eq_true, Box3.isEmpty_iff]; exact hb
      have e1 : affineTransformOut tmax tlowest (Box3.canonInfinite tmax tlowest) m r = Box3.canonInfinite tmax tlowest := by
        simp only [affineTransformOut, hne, Bool.false_eq_true, if_false,
          (Box3.isInfinite_iff tmax tlowest _).2 rfl, if_true]; rfl
      have e2 : affineTransform tmax tlowest (Box3.canonInfinite tmax tlowest) m = Box3.canonInfinite tmax tlowest := by
        simp only [affineTransform, emptyOrInfinite_canonInfinite, if_true]
      rw [e1, e2]
    · rw [affineTransformOut_eq tmax tlowest b m r hb hi]

/-- FULL STRENGTH: the out-parameter `transform (box, m, result)` returns exactly what the value form returns, for EVERY box
(empty, infinite, inverted), EVERY matrix (affine or projective) and WHATEVER `result` held before.
(False before the repair 6dca912 of /repo: `result` was left untouched for empty / infinite input and the projective
path extended the caller's old `result`.) -/
theorem transformOut_eq (tmax tlowest : α) (b : Box3 α) (m : M44 α) (r : Box3 α) :
    transformOut tmax tlowest b m r = transform tmax tlowest b m := by
  simp only [transformOut, transform]
  split_ifs <;> rfl

/-- the four overloads denote the same point set on every input with an affine matrix (the documented domain of
`affineTransform`); on non-empty, non-infinite boxes they are equal as min/max pairs -/
theorem four_overloads_agree (tmax tlowest : α) (hlt : tlowest < tmax) (b : Box3 α) (m : M44 α) (r r' : Box3 α)
    (ha : isAffine m = true) (p : V3 α) :
    (Box3.Mem p (transformOut tmax tlowest b m r) ↔ Box3.Mem p (transform tmax tlowest b m)) ∧
    (Box3.Mem p (affineTransform tmax tlowest b m) ↔ Box3.Mem p (transform tmax tlowest b m)) ∧
    (Box3.Mem p (affineTransformOut tmax tlowest b m r') ↔ Box3.Mem p (transform tmax tlowest b m)) := by
  rw [transformOut_eq, transform_affine_eq_affineTransform tmax tlowest b m ha]
  exact ⟨Iff.rfl, Iff.rfl, affineTransformOut_same_set tmax tlowest hlt b m r' p⟩

theorem four_overloads_equal (tmax tlowest : α) (b : Box3 α) (m : M44 α) (r r' : Box3 α) (hb : ¬ Box3.Inverted b)
    (hi : b ≠ Box3.canonInfinite tmax tlowest) (ha : isAffine m = true) :
    transformOut tmax tlowest b m r = transform tmax tlowest b m ∧
    affineTransform tmax tlowest b m = transform tmax tlowest b m ∧
    affineTransformOut tmax tlowest b m r' = transform tmax tlowest b m := by
  rw [transformOut_eq, transform_affine_eq_affineTransform tmax tlowest b m ha, affineTransformOut_eq tmax tlowest b m r' hb hi]
  exact ⟨rfl, rfl, rfl⟩

/-- hence the out-parameter form is also the tight bound of the eight corner images, for all matrices -/
theorem transformOut_tight (tmax tlowest : α) (hlt : tlowest < tmax)
    (b : Box3 α) (m : M44 α) (r : Box3 α) (hb : ¬ Box3.Inverted b) (hi : b ≠ Box3.canonInfinite tmax tlowest)
    (hw0 : ∀ c ∈ corners b, wOf m c ≠ 0)
    (hrange : ∀ c ∈ corners b, V3.InRange tmax tlowest (Gen.BoxAlgo.vecTimesM44 c m)) (c' : Box3 α) :
    Box3.Subset (transformOut tmax tlowest b m r) c' ↔ ∀ c ∈ corners b, Box3.Mem (Gen.BoxAlgo.vecTimesM44 c m) c' := by
  rw [transformOut_eq]; exact transform_tight tmax tlowest hlt b m hb hi hw0 hrange c'

/-- ... and contains the image of every point of the box when `w > 0` at the corners -/
theorem transformOut_contains_of_pos_w (tmax tlowest : α) (hlt : tlowest < tmax)
    (b : Box3 α) (m : M44 α) (r : Box3 α) (hb : ¬ Box3.Inverted b) (hi : b ≠ Box3.canonInfinite tmax tlowest)
    (hrange : ∀ c ∈ corners b, V3.InRange tmax tlowest (Gen.BoxAlgo.vecTimesM44 c m))
    (hw : ∀ c ∈ corners b, 0 < wOf m c) (p : V3 α) (hp : Box3.Mem p b) :
    Box3.Mem (Gen.BoxAlgo.vecTimesM44 p m) (transformOut tmax tlowest b m r) := by
  rw [transformOut_eq]; exact transform_contains_of_pos_w tmax tlowest hlt b m hb hi hrange hw p hp

theorem transformOut_contains_of_neg_w (tmax tlowest : α) (hlt : tlowest < tmax)
    (b : Box3 α) (m : M44 α) (r : Box3 α) (hb : ¬ Box3.Inverted b) (hi : b ≠ Box3.canonInfinite tmax tlowest)
    (hrange : ∀ c ∈ corners b, V3.InRange tmax tlowest (Gen.BoxAlgo.vecTimesM44 c m))
    (hw : ∀ c ∈ corners b, wOf m c < 0) (p : V3 α) (hp : Box3.Mem p b) :
    Box3.Mem (Gen.BoxAlgo.vecTimesM44 p m) (transformOut tmax tlowest b m r) := by
  rw [transformOut_eq]; exact transform_contains_of_neg_w tmax tlowest hlt b m hb hi hrange hw p hp

/-! ### empty ↦ empty, infinite ↦ infinite -/

theorem transform_empty (tmax tlowest : α) (b : Box3 α) (m : M44 α) (hb : Box3.Inverted b) :
    Box3.IsEmptySet (transform tmax tlowest b m) := by
  simp only [transform, emptyOrInfinite_of_inverted tmax tlowest b hb, if_true]
  exact (Box3.isEmptySet_iff b).2 hb

theorem transformOut_empty (tmax tlowest : α) (b : Box3 α) (m : M44 α) (r : Box3 α) (hb : Box3.Inverted b) :
    Box3.IsEmptySet (transformOut tmax tlowest b m r) := by
  rw [transformOut_eq]; exact transform_empty tmax tlowest b m hb

theorem affineTransform_empty (tmax tlowest : α) (b : Box3 α) (m : M44 α) (hb : Box3.Inverted b) :
    Box3.IsEmptySet (affineTransform tmax tlowest b m) := by
  simp only [affineTransform, emptyOrInfinite_of_inverted tmax tlowest b hb, if_true]
  exact (Box3.isEmptySet_iff b).2 hb

theorem affineTransformOut_empty (tmax tlowest : α) (hlt : tlowest < tmax) (b : Box3 α) (m : M44 α) (r : Box3 α)
    (hb : Box3.Inverted b) : Box3.IsEmptySet (affineTransformOut tmax tlowest b m r) := by
  simp only [affineTransformOut, (Box3.isEmpty_iff b).2 hb, if_true]
  exact Box3.canonEmpty_isEmptySet tmax tlowest hlt

theorem transform_infinite (tmax tlowest : α) (m : M44 α) :
    transform tmax tlowest (Box3.canonInfinite tmax tlowest) m = Box3.canonInfinite tmax tlowest := by
  simp only [transform, emptyOrInfinite_canonInfinite, if_true]

theorem transformOut_infinite (tmax tlowest : α) (m : M44 α) (r : Box3 α) :
    transformOut tmax tlowest (Box3.canonInfinite tmax tlowest) m r = Box3.canonInfinite tmax tlowest := by
  rw [transformOut_eq]; exact transform_infinite tmax tlowest m

theorem affineTransform_infinite (tmax tlowest : α) (m : M44 α) :
    affineTransform tmax tlowest (Box3.canonInfinite tmax tlowest) m = Box3.canonInfinite tmax tlowest := by
  simp only [affineTransform, emptyOrInfinite_canonInfinite, if_true]

theorem affineTransformOut_infinite (tmax tlowest : α) (hlt : tlowest < tmax) (m : M44 α) (r : Box3 α) :
    affineTransformOut tmax tlowest (Box3.canonInfinite tmax tlowest) m r = Box3.canonInfinite tmax tlowest := by
  have hne : Gen.Box3.isEmpty (Box3.canonInfinite tmax tlowest) = false := by
    rw [← Bool.not_eq_true, Box3.isEmpty_iff]
    simp only [Box3.Inverted, Box3.canonInfinite, not_or, not_lt]; exact ⟨le_of_lt hlt, le_of_lt hlt, le_of_lt hlt⟩
  simp only [affineTransformOut, hne, Bool.false_eq_true, if_false, (Box3.isInfinite_iff tmax tlowest _).2 rfl, if_true]
  rfl

end transform

/-! ### the former counterexamples (ℚ, type bounds ±10), now instances of `transformOut_eq` -/

section former_witnesses
open BoxTransform

def wId : M44 ℚ := ⟨1, 0, 0, 0, 0, 1, 0, 0, 0, 0, 1, 0, 0, 0, 0, 1⟩
/-- a projective matrix: identity with `m[3][3] = 2` (every image is the corner divided by 2) -/
def wProj : M44 ℚ := ⟨1, 0, 0, 0, 0, 1, 0, 0, 0, 0, 1, 0, 0, 0, 0, 2⟩
def wUnit : Box3 ℚ := ⟨⟨0, 0, 0⟩, ⟨1, 1, 1⟩⟩

/-- empty input with `result` holding the unit cube: the result is empty (it used to stay the unit cube) -/
example : Box3.IsEmptySet (transformOut 10 (-10) (Box3.canonEmpty 10 (-10)) wId wUnit) :=
  transformOut_empty 10 (-10) _ wId wUnit (Box3.canonEmpty_inverted 10 (-10) (by norm_num))

/-- infinite input with `result` holding the unit cube: the result is infinite -/
example : transformOut 10 (-10) (Box3.canonInfinite 10 (-10)) wId wUnit = Box3.canonInfinite 10 (-10) :=
  transformOut_infinite 10 (-10) wId wUnit

/-- projective matrix with `result` holding [5,6]³: the result no longer covers the old `result` -/
example : transformOut 10 (-10) wUnit wProj ⟨⟨5, 5, 5⟩, ⟨6, 6, 6⟩⟩ = transform 10 (-10) wUnit wProj :=
  transformOut_eq 10 (-10) wUnit wProj _

/-! ### non-vacuity of the transform theorems over ℚ (type bounds ±10), audit W1 / W3 -/

theorem wUnit_ok : ¬ Box3.Inverted wUnit ∧ wUnit ≠ Box3.canonInfinite 10 (-10) := by
  simp only [Box3.Inverted, wUnit, Box3.canonInfinite]; decide

/-- the eight corner images of the unit cube under `wProj` lie within the type bounds -/
theorem wProj_range : ∀ c ∈ corners wUnit, V3.InRange 10 (-10) (Gen.BoxAlgo.vecTimesM44 c wProj) := by
  simp only [corners, wUnit, wProj, Gen.BoxAlgo.vecTimesM44, V3.InRange, List.mem_cons, List.not_mem_nil, or_false,
    forall_eq_or_imp, forall_eq]
  norm_num

/-- `w = 2 ≠ 0` at the eight corners of the unit cube under `wProj` -/
theorem wProj_w : ∀ c ∈ corners wUnit, wOf wProj c ≠ 0 := by
  simp only [corners, wUnit, wProj, wOf, affCoord, List.mem_cons, List.not_mem_nil, or_false, forall_eq_or_imp, forall_eq]
  norm_num

/-- PROJECTIVE path, concrete: the unit cube under `wProj` (not affine) becomes `[0, 1/2]³` -/
example : isAffine wProj = false ∧ transform 10 (-10) wUnit wProj = ⟨⟨0, 0, 0⟩, ⟨1/2, 1/2, 1/2⟩⟩ := by decide +kernel

/-- `transform_tight` / `transformOut_tight` have instances on the projective path -/
example (c' : Box3 ℚ) : Box3.Subset (transform 10 (-10) wUnit wProj) c' ↔
    ∀ c ∈ corners wUnit, Box3.Mem (Gen.BoxAlgo.vecTimesM44 c wProj) c' :=
  transform_tight 10 (-10) (by norm_num) wUnit wProj wUnit_ok.1 wUnit_ok.2 wProj_w wProj_range c'
example (r c' : Box3 ℚ) : Box3.Subset (transformOut 10 (-10) wUnit wProj r) c' ↔
    ∀ c ∈ corners wUnit, Box3.Mem (Gen.BoxAlgo.vecTimesM44 c wProj) c' :=
  transformOut_tight 10 (-10) (by norm_num) wUnit wProj r wUnit_ok.1 wUnit_ok.2 wProj_w wProj_range c'

/-- a perspective matrix with NON-constant `w = 1 + x` (positive on the unit cube) -/
def wPersp : M44 ℚ := ⟨1, 0, 0, 1, 0, 1, 0, 0, 0, 0, 1, 0, 0, 0, 0, 1⟩

theorem wPersp_range : ∀ c ∈ corners wUnit, V3.InRange 10 (-10) (Gen.BoxAlgo.vecTimesM44 c wPersp) := by
  simp only [corners, wUnit, wPersp, Gen.BoxAlgo.vecTimesM44, V3.InRange, List.mem_cons, List.not_mem_nil, or_false,
    forall_eq_or_imp, forall_eq]
  norm_num
theorem wPersp_pos : ∀ c ∈ corners wUnit, 0 < wOf wPersp c := by
  simp only [corners, wUnit, wPersp, wOf, affCoord, List.mem_cons, List.not_mem_nil, or_false, forall_eq_or_imp, forall_eq]
  norm_num

/-- `transform_contains_of_pos_w` has an instance with a genuinely projective matrix: the image of the centre of the
unit cube, `(1/3, 1/3, 1/3)`, lies in the transformed box `[0, 1/2] × [0, 1]²` -/
example : Box3.Mem (Gen.BoxAlgo.vecTimesM44 ⟨1/2, 1/2, 1/2⟩ wPersp) (transform 10 (-10) wUnit wPersp) :=
  transform_contains_of_pos_w 10 (-10) (by norm_num) wUnit wPersp wUnit_ok.1 wUnit_ok.2 wPersp_range wPersp_pos _
    (by simp only [Box3.Mem, wUnit]; norm_num)
example : transform 10 (-10) wUnit wPersp = ⟨⟨0, 0, 0⟩, ⟨1/2, 1, 1⟩⟩ ∧
    Gen.BoxAlgo.vecTimesM44 ⟨1/2, 1/2, 1/2⟩ wPersp = (⟨1/3, 1/3, 1/3⟩ : V3 ℚ) := by decide +kernel

/-- the same perspective map written with every entry negated: `w = -(1 + x) < 0` on the unit cube -/
def wPerspNeg : M44 ℚ := ⟨-1, 0, 0, -1, 0, -1, 0, 0, 0, 0, -1, 0, 0, 0, 0, -1⟩
theorem wPerspNeg_range : ∀ c ∈ corners wUnit, V3.InRange 10 (-10) (Gen.BoxAlgo.vecTimesM44 c wPerspNeg) := by
  simp only [corners, wUnit, wPerspNeg, Gen.BoxAlgo.vecTimesM44, V3.InRange, List.mem_cons, List.not_mem_nil, or_false,
    forall_eq_or_imp, forall_eq]
  norm_num
theorem wPerspNeg_neg : ∀ c ∈ corners wUnit, wOf wPerspNeg c < 0 := by
  simp only [corners, wUnit, wPerspNeg, wOf, affCoord, List.mem_cons, List.not_mem_nil, or_false, forall_eq_or_imp, forall_eq]
  norm_num
/-- `transform_contains_of_neg_w` has an instance -/
example : Box3.Mem (Gen.BoxAlgo.vecTimesM44 ⟨1/2, 1/2, 1/2⟩ wPerspNeg) (transform 10 (-10) wUnit wPerspNeg) :=
  transform_contains_of_neg_w 10 (-10) (by norm_num) wUnit wPerspNeg wUnit_ok.1 wUnit_ok.2 wPerspNeg_range wPerspNeg_neg _
    (by simp only [Box3.Mem, wUnit]; norm_num)
example : transform 10 (-10) wUnit wPerspNeg = ⟨⟨0, 0, 0⟩, ⟨1/2, 1, 1⟩⟩ := by decide +kernel

/-- N1, what the hypothesis `hw0` excludes: with `w = x` the corner `(0,0,0)` of the unit cube has `w = 0`; in a Lean field its
"image" is `(0/0, 0/0, 0/0) = (0,0,0)` and the model returns a finite box, while the real code divides by zero there -/
example : wOf (⟨1, 0, 0, 1, 0, 1, 0, 0, 0, 0, 1, 0, 0, 0, 0, 0⟩ : M44 ℚ) ⟨0, 0, 0⟩ = 0 ∧
    Gen.BoxAlgo.vecTimesM44 (⟨0, 0, 0⟩ : V3 ℚ) ⟨1, 0, 0, 1, 0, 1, 0, 0, 0, 0, 1, 0, 0, 0, 0, 0⟩ = ⟨0, 0, 0⟩ := by decide +kernel

/-- an affine matrix (shear + translation) on which `arvo_eq_eight_corner_loop` has an instance -/
def wShear : M44 ℚ := ⟨1, 2, 0, 0, -1, 1, 0, 0, 0, 3, 1, 0, 1, -2, 0, 1⟩
example : arvo wUnit wShear = projective (Gen.Box3.default 10 (-10)) wUnit wShear :=
  arvo_eq_eight_corner_loop 10 (-10) (by norm_num) wUnit wShear wUnit_ok.1 (by decide) (by
    simp only [corners, wUnit, wShear, affImg, affCoord, V3.InRange, List.mem_cons, List.not_mem_nil, or_false,
      forall_eq_or_imp, forall_eq]
    norm_num)
example : arvo wUnit wShear = ⟨⟨0, -2, 0⟩, ⟨2, 4, 1⟩⟩ := by decide +kernel

/-- the range proviso is NECESSARY for "Arvo = eight-corner loop": with type bounds ±1 the translated cube `[3,4]³` has
all its corner images above `max`; the loop's `extendBy` then keeps `min = max() = 1` and produces an inverted box. -/
example : arvo wUnit (⟨1, 0, 0, 0, 0, 1, 0, 0, 0, 0, 1, 0, 3, 3, 3, 1⟩ : M44 ℚ) ≠
    projective (Gen.Box3.default 1 (-1)) wUnit ⟨1, 0, 0, 0, 0, 1, 0, 0, 0, 0, 1, 0, 3, 3, 3, 1⟩ := by decide +kernel

/-- W3, NECESSITY of `w > 0`: `w = x` changes sign on the box `[-1, 2] × {0} × {0}`; the corner images are `x' = -1` and
`x' = 1/2`, so the result is `[-1, 1/2] × {0}²`, but the box point `(1/4, 0, 0)` is mapped to `x' = 4`, outside.
"Contains the image of every point of the box" is FALSE for projective matrices whose `w` changes sign on the box. -/
def wFlip : M44 ℚ := ⟨0, 0, 0, 1, 0, 1, 0, 0, 0, 0, 1, 0, 1, 0, 0, 0⟩
def wSeg : Box3 ℚ := ⟨⟨-1, 0, 0⟩, ⟨2, 0, 0⟩⟩
theorem transform_misses_point_when_w_changes_sign :
    Box3.Mem (⟨1/4, 0, 0⟩ : V3 ℚ) wSeg ∧ transform 10 (-10) wSeg wFlip = ⟨⟨-1, 0, 0⟩, ⟨1/2, 0, 0⟩⟩ ∧
    Gen.BoxAlgo.vecTimesM44 ⟨1/4, 0, 0⟩ wFlip = (⟨4, 0, 0⟩ : V3 ℚ) ∧
    ¬ Box3.Mem (Gen.BoxAlgo.vecTimesM44 ⟨1/4, 0, 0⟩ wFlip) (transform 10 (-10) wSeg wFlip) := by
  simp only [Box3.Mem]; decide +kernel

end former_witnesses

end ImathVerif.C13
