import ImathVerif.Props.C03Preds
import ImathVerif.Enum.C03.All
import ImathVerif.Gen.HalfLimits
import ImathVerif.Model.HalfFunction
import ImathVerif.Lemmas.HalfNumLemmas
/-!
# C03 — half is a coherent numeric type

Property theorems only (bit-level claims).  Models: `Model/Half.lean`
(classification, unary minus, `roundN`), `Model/HalfFunction.lean`
(`halfFunction<T>`), `Gen/HalfLimits.lean` (regenerated from the CURRENT half.h
on every run: `std::numeric_limits<half>` and the `HALF_*` macros).  Values are
scaled naturals: `hval m` = value of magnitude bits `m` times 2^24, `sval h` the
signed value (Spec/HalfSpec.lean, Spec/HalfNum.lean).

The per-pattern statements are checked on ALL 2^16 patterns by kernel
enumeration (`ImathVerif/Enum/C03`).  Compound arithmetic (`a op= b`) and text
I/O involve the hardware float operation and libstdc++; nothing about them is
provable here — they are decided by exhaustive correspondence in
tools/props/c03.py (arithmetic additionally by a model-free, bit-exact
self-check of `x op= y` against `half (float (x) op float (y))` inside the
harness), as is the tie of these models to the real code.
-/
namespace ImathVerif.Half.C03
open ImathVerif ImathVerif.Half ImathVerif.Gen ImathVerif.Enum.C03 ImathVerif.HalfFunction

/-! ## unary minus -/

/-- `-h` flips only the sign bit: the magnitude bits are unchanged, the sign
bit is inverted, and negation is an involution -/
theorem neg_bits : ∀ h, h < 65536 →
    neg h = h ^^^ 0x8000 ∧ neg h < 65536 ∧ mag (neg h) = mag h ∧
    neg h / 32768 + h / 32768 = 1 ∧ neg (neg h) = h := by
  intro h hh
  exact ⟨rfl, of_decide_eq_true (p_neg_all h hh)⟩

/-- the value is negated (`-0 ↦ 0`; on NaN patterns this is the statement about
the sign-magnitude reading of the bits) -/
theorem neg_value : ∀ h, h < 65536 → sval (neg h) = - sval h := by
  intro h hh
  obtain ⟨_, _, hm, hs, _⟩ := neg_bits h hh
  unfold sval
  rw [hm]
  have h1 : h / 32768 = 0 ∨ h / 32768 = 1 := by omega
  rcases h1 with h1 | h1
  · have h2 : neg h / 32768 = 1 := by omega
    simp [h1, h2]
  · have h2 : neg h / 32768 = 0 := by omega
    simp [h1, h2]

/-! ## classification -/

/-- exactly one of zero / normalized / denormalized / infinity / NaN holds for
every pattern; `isFinite`, `isNegative` and each class are characterised by the
value: normalized ⇔ 2^-14 ≤ |x| ≤ 65504, denormalized ⇔ 0 < |x| < 2^-14. -/
theorem class_partition : ∀ h, h < 65536 →
    b2n (isZero h) + b2n (isNormalized h) + b2n (isDenormalized h) + b2n (isInfinity h) + b2n (isNan h) = 1 ∧
    (isFinite h = true ↔ (isZero h = true ∨ isNormalized h = true ∨ isDenormalized h = true)) ∧
    (isNegative h = true ↔ h / 32768 = 1) ∧
    (isZero h = true ↔ hval (mag h) = 0) ∧
    (isNormalized h = true ↔ (1024 ≤ hval (mag h) ∧ hval (mag h) ≤ 65504 * 2 ^ 24)) ∧
    (isDenormalized h = true ↔ (0 < hval (mag h) ∧ hval (mag h) < 1024)) ∧
    (isInfinity h = true ↔ hval (mag h) = 65536 * 2 ^ 24) ∧
    (isNan h = true ↔ 65536 * 2 ^ 24 < hval (mag h)) := by
  intro h hh
  exact of_decide_eq_true (p_class_all h hh)

/-- agreement with the binary32 class of `float (h)`: zero ↔ zero, normalized
or denormalized ↔ normal float (a half never converts to a subnormal float),
infinity ↔ infinity, NaN ↔ NaN, and the sign bits agree -/
theorem class_float_agree : ∀ h, h < 65536 →
    (isZero h = true ↔ (f32exp (h2f h) = 0 ∧ f32man (h2f h) = 0)) ∧
    ¬ (f32exp (h2f h) = 0 ∧ f32man (h2f h) ≠ 0) ∧
    ((isNormalized h = true ∨ isDenormalized h = true) ↔ (1 ≤ f32exp (h2f h) ∧ f32exp (h2f h) ≤ 254)) ∧
    (isInfinity h = true ↔ (f32exp (h2f h) = 255 ∧ f32man (h2f h) = 0)) ∧
    (isNan h = true ↔ (f32exp (h2f h) = 255 ∧ f32man (h2f h) ≠ 0)) ∧
    (isNegative h = true ↔ h2f h / 2147483648 = 1) := by
  intro h hh
  exact of_decide_eq_true (p_class32_all h hh)

/-- the same agreement in the vocabulary of `std::fpclassify (float (h))` /
`std::signbit (float (h))`: `fpClass32` is the classifier's reading of a binary32
pattern (0 zero, 1 normal, 2 subnormal, 3 infinite, 4 nan).  The check compares
`fpClass32 (h2f h)` with the platform's `std::fpclassify` of the real
`float (h)` for all 2^16 patterns (`classf_all`), so the clause "agrees with the
float classification of its value" is decided against libm's classifier, not
against our own decoding only. -/
theorem fpclassify_agree : ∀ h, h < 65536 →
    h2f h < 4294967296 ∧
    (fpClass32 (h2f h) = 0 ↔ isZero h = true) ∧
    (fpClass32 (h2f h) = 1 ↔ (isNormalized h = true ∨ isDenormalized h = true)) ∧
    fpClass32 (h2f h) ≠ 2 ∧
    (fpClass32 (h2f h) = 3 ↔ isInfinity h = true) ∧
    (fpClass32 (h2f h) = 4 ↔ isNan h = true) ∧
    (h2f h / 2147483648 % 2 = 1 ↔ isNegative h = true) := by
  intro h hh
  obtain ⟨z, ns, nd, i, n, sg⟩ := class_float_agree h hh
  obtain ⟨e1, l1⟩ := h2f_split h hh
  have hs : h / 32768 ≤ 1 := by omega
  have hb : h2f h < 4294967296 := by omega
  have hsg : h2f h / 2147483648 % 2 = 1 ↔ isNegative h = true := by rw [sg]; omega
  clear e1 l1 sg
  have hE256 : h2f h / 8388608 % 256 < 256 := Nat.mod_lt _ (by decide)
  simp only [f32exp, f32man] at z ns nd i n
  unfold fpClass32
  generalize h2f h / 8388608 % 256 = E at *
  generalize h2f h % 8388608 = M at *
  refine ⟨hb, ?_, ?_, ?_, ?_, ?_, hsg⟩
  · rw [z]; by_cases hE0 : E = 0 <;> by_cases hE : E = 255 <;> by_cases hM : M = 0 <;> simp [hE0, hE, hM] <;> omega
  · rw [nd]; by_cases hE0 : E = 0 <;> by_cases hE : E = 255 <;> by_cases hM : M = 0 <;> simp [hE0, hE, hM] <;> omega
  · by_cases hE0 : E = 0 <;> by_cases hE : E = 255 <;> by_cases hM : M = 0 <;> simp [hE0, hE, hM] <;> omega
  · rw [i]; by_cases hE0 : E = 0 <;> by_cases hE : E = 255 <;> by_cases hM : M = 0 <;> simp [hE0, hE, hM] <;> omega
  · rw [n]; by_cases hE0 : E = 0 <;> by_cases hE : E = 255 <;> by_cases hM : M = 0 <;> simp [hE0, hE, hM] <;> omega

/-! ## numeric_limits<half> and the HALF_* macros are the true extremes

`Gen.limits_*` / `Gen.macro_*` are regenerated from the current half.h. -/

/-- `max()` is finite, positive, equals 65504, and no finite pattern is larger -/
theorem max_is_largest_finite :
    isFinite limits_max = true ∧ isNegative limits_max = false ∧ hval limits_max = 65504 * 2 ^ 24 ∧
    ∀ h, h < 65536 → isFinite h = true → hval (mag h) ≤ hval limits_max := by
  have e : limits_max = 0x7bff := by decide
  rw [e]
  refine ⟨by decide, by decide, by decide, ?_⟩
  intro h hh hf
  exact (of_decide_eq_true (p_order_all h hh) : OrderSpec h).1 hf

/-- `min()` is normalized, equals 2^-14, and no normalized pattern is smaller -/
theorem min_is_smallest_normal :
    isNormalized limits_min = true ∧ isNegative limits_min = false ∧ hval limits_min = 1024 ∧
    ∀ h, h < 65536 → isNormalized h = true → hval limits_min ≤ hval (mag h) := by
  have e : limits_min = 0x0400 := by decide
  rw [e]
  refine ⟨by decide, by decide, by decide, ?_⟩
  intro h hh hf
  exact (of_decide_eq_true (p_order_all h hh) : OrderSpec h).2.1 hf

/-- `denorm_min()` is 2^-24, a denormalized number, and no non-zero pattern has a smaller magnitude -/
theorem denorm_min_is_smallest_positive :
    isDenormalized limits_denorm_min = true ∧ isNegative limits_denorm_min = false ∧ hval limits_denorm_min = 1 ∧
    ∀ h, h < 65536 → isZero h = false → hval limits_denorm_min ≤ hval (mag h) := by
  have e : limits_denorm_min = 0x0001 := by decide
  rw [e]
  refine ⟨by decide, by decide, by decide, ?_⟩
  intro h hh hf
  exact (of_decide_eq_true (p_order_all h hh) : OrderSpec h).2.2.1 hf

/-- `epsilon()` is the gap between 1.0 (0x3c00) and the next larger half: no
pattern lies strictly between 1 and 1 + epsilon -/
theorem epsilon_is_gap_above_one :
    hval 0x3c00 = 2 ^ 24 ∧ hval 0x3c01 - hval 0x3c00 = hval limits_epsilon ∧ hval limits_epsilon = 2 ^ 14 ∧
    ∀ h, h < 65536 → hval 0x3c00 < hval (mag h) → hval 0x3c00 + hval limits_epsilon ≤ hval (mag h) := by
  have e : limits_epsilon = 0x1400 := by decide
  rw [e]
  refine ⟨by decide, by decide, by decide, ?_⟩
  intro h hh hf
  have := (of_decide_eq_true (p_order_all h hh) : OrderSpec h).2.2.2.1 hf
  have e1 : hval 0x3c01 = hval 0x3c00 + hval 0x1400 := by decide
  omega

/-- `lowest()` is `-max()`, and every finite value lies in `[lowest, max]` -/
theorem lowest_is_neg_max :
    limits_lowest = neg limits_max ∧ sval limits_lowest = - sval limits_max ∧
    ∀ h, h < 65536 → isFinite h = true → (sval limits_lowest ≤ sval h ∧ sval h ≤ sval limits_max) := by
  have e : limits_max = 0x7bff := by decide
  have e' : limits_lowest = 0xfbff := by decide
  rw [e, e']
  refine ⟨by decide, by decide, ?_⟩
  intro h hh hf
  exact (of_decide_eq_true (p_order_all h hh) : OrderSpec h).2.2.2.2.2 hf

/-- `round_error()` is exactly 1/2 -/
theorem round_error_is_half : 2 * hval limits_round_error = 2 ^ 24 ∧ isNegative limits_round_error = false := by
  decide

/-- witness pattern for the integer `n` (`1 ≤ n ≤ 2048`): exponent `log2 n`, significand `n` left-aligned -/
def intBits (n : Nat) : Nat :=
  if n = 0 then 0 else (Nat.log2 n + 15) * 1024 + ((n <<< 10) >>> Nat.log2 n) - 1024

def p_int (n : Nat) : Bool := decide (n ≤ 2048 → (intBits n ≤ 0x7bff ∧ hval (intBits n) = n * 2 ^ 24))

/-- `digits = 11`: every integer of magnitude up to 2^digits is exactly a finite
half (of either sign), and 2^digits + 1 is not a half at all -/
theorem digits_exact :
    limits_digits = 11 ∧ limits_radix = 2 ∧
    (∀ n : Nat, n ≤ 2 ^ limits_digits.toNat →
        ∃ m, m ≤ 0x7bff ∧ hval m = n * 2 ^ 24 ∧
             sval m = (n : Int) * 2 ^ 24 ∧ sval (neg m) = - ((n : Int) * 2 ^ 24) ∧ isFinite (neg m) = true) ∧
    (∀ h, h < 65536 → hval (mag h) ≠ (2 ^ limits_digits.toNat + 1) * 2 ^ 24) := by
  refine ⟨by decide, by decide, ?_, ?_⟩
  · intro n hn
    have hn' : n ≤ 2048 := by simpa [limits_digits] using hn
    have hall : allBits 12 0 p_int = true := by decide +kernel
    have hp := forall_lt_of_allBits 12 p_int hall n (by simp; omega)
    have hq : n ≤ 2048 → (intBits n ≤ 0x7bff ∧ hval (intBits n) = n * 2 ^ 24) := of_decide_eq_true hp
    obtain ⟨h1, h2⟩ := hq hn'
    have hlt : intBits n < 65536 := by omega
    have hmag : mag (intBits n) = intBits n := by unfold mag; omega
    have hsv : sval (intBits n) = (n : Int) * 2 ^ 24 := by
      unfold sval
      have : intBits n / 32768 = 0 := by omega
      rw [this, hmag, h2]
      simp
    have hfin : isFinite (neg (intBits n)) = true := by
      have hc := (class_partition (neg (intBits n)) (neg_bits _ hlt).2.1)
      have hm : mag (neg (intBits n)) = intBits n := by rw [(neg_bits _ hlt).2.2.1, hmag]
      have ho := of_decide_eq_true (p_order_all (intBits n) hlt)
      -- finite: its magnitude is below the infinity pattern
      have hnn : isNan (neg (intBits n)) = false := by
        cases hnan : isNan (neg (intBits n))
        · rfl
        · have := hc.2.2.2.2.2.2.2.1 hnan
          rw [hm, h2] at this
          have : n * 2 ^ 24 ≤ 2048 * 2 ^ 24 := Nat.mul_le_mul_right _ hn'
          omega
      have hni : isInfinity (neg (intBits n)) = false := by
        cases hinf : isInfinity (neg (intBits n))
        · rfl
        · have := hc.2.2.2.2.2.2.1.1 hinf
          rw [hm, h2] at this
          have : n * 2 ^ 24 ≤ 2048 * 2 ^ 24 := Nat.mul_le_mul_right _ hn'
          omega
      exact finite_of_not_inf_nan _ hni hnn
    exact ⟨intBits n, h1, h2, hsv, by rw [neg_value _ hlt, hsv], hfin⟩
  · intro h hh
    have := (of_decide_eq_true (p_order_all h hh) : OrderSpec h).2.2.2.2.1
    simpa [limits_digits] using this

/-- `digits10 = 3` and `max_digits10 = 5` satisfy their defining inequalities:
`digits10 = ⌊(digits-1)·log10 2⌋` ⇔ 10^digits10 ≤ 2^(digits-1) < 10^(digits10+1);
`max_digits10 = ⌈digits·log10 2 + 1⌉` ⇔ 10^(max_digits10-2) < 2^digits ≤ 10^(max_digits10-1) -/
theorem digits10_defining :
    10 ^ limits_digits10.toNat ≤ 2 ^ (limits_digits.toNat - 1) ∧
    2 ^ (limits_digits.toNat - 1) < 10 ^ (limits_digits10.toNat + 1) ∧
    10 ^ (limits_max_digits10.toNat - 2) < 2 ^ limits_digits.toNat ∧
    2 ^ limits_digits.toNat ≤ 10 ^ (limits_max_digits10.toNat - 1) ∧
    0 < limits_digits10 ∧ 2 ≤ limits_max_digits10 ∧ 1 ≤ limits_digits := by
  decide

/-- `min_exponent`, `max_exponent`, `min_exponent10`, `max_exponent10`:
radix^(min_exponent-1) is the smallest normalized value; radix^(max_exponent-1)
is finite and radix^max_exponent is not; 10^min_exponent10 is normalized and
10^(min_exponent10-1) is not; 10^max_exponent10 is finite and 10^(max_exponent10+1) is not -/
theorem exponent_limits :
    limits_radix = 2 ∧
    hval limits_min = 2 ^ (limits_min_exponent - 1 + 24).toNat ∧ 0 ≤ limits_min_exponent - 1 + 24 ∧
    2 ^ (limits_max_exponent - 1 + 24).toNat ≤ hval limits_max ∧ hval limits_max < 2 ^ (limits_max_exponent + 24).toNat ∧
    0 ≤ limits_max_exponent - 1 ∧
    -- 10^min_exponent10 ≥ min  and  10^(min_exponent10 - 1) < min   (scaled by 2^24 and cleared of denominators)
    limits_min_exponent10 ≤ 0 ∧
    hval limits_min * 10 ^ (- limits_min_exponent10).toNat ≤ 2 ^ 24 ∧
    2 ^ 24 < hval limits_min * 10 ^ ((- limits_min_exponent10).toNat + 1) ∧
    -- 10^max_exponent10 ≤ max < 10^(max_exponent10 + 1)
    0 ≤ limits_max_exponent10 ∧
    10 ^ limits_max_exponent10.toNat * 2 ^ 24 ≤ hval limits_max ∧
    hval limits_max < 10 ^ (limits_max_exponent10.toNat + 1) * 2 ^ 24 := by
  decide

/-- the special values: `infinity()` is +∞ = `half::posInf()`, `negInf()` its
negation; `quiet_NaN()`/`signaling_NaN()` are NaNs with the quiet bit (bit 9)
set / clear, equal to `half::qNan()` / `half::sNan()`; the boolean members -/
theorem special_values :
    isInfinity limits_infinity = true ∧ isNegative limits_infinity = false ∧ limits_infinity = half_posInf ∧
    half_negInf = neg half_posInf ∧
    isNan limits_quiet_NaN = true ∧ limits_quiet_NaN / 512 % 2 = 1 ∧ limits_quiet_NaN = half_qNan ∧
    isNan limits_signaling_NaN = true ∧ limits_signaling_NaN / 512 % 2 = 0 ∧ limits_signaling_NaN = half_sNan ∧
    limits_is_signed = 1 ∧ limits_has_infinity = 1 ∧ limits_has_quiet_NaN = 1 ∧ limits_has_signaling_NaN = 1 ∧
    limits_has_denorm = 1 ∧ limits_round_to_nearest = 1 := by
  decide

/-- interplay of the limits with the conversion: converting each `HALF_*`
macro (as a float) gives the corresponding `numeric_limits` pattern, and — for
all but `HALF_EPSILON`, which is a truncated decimal slightly below 2^-10 —
converting the limit back gives exactly the macro's float.  The integer macros
are the integer members. -/
theorem macros_agree :
    f2h macro_HALF_MAX_f32 = limits_max ∧ h2f limits_max = macro_HALF_MAX_f32 ∧
    f2h macro_HALF_MIN_f32 = limits_min ∧ h2f limits_min = macro_HALF_MIN_f32 ∧
    f2h macro_HALF_NRM_MIN_f32 = limits_min ∧ h2f limits_min = macro_HALF_NRM_MIN_f32 ∧
    f2h macro_HALF_DENORM_MIN_f32 = limits_denorm_min ∧ h2f limits_denorm_min = macro_HALF_DENORM_MIN_f32 ∧
    f2h macro_HALF_EPSILON_f32 = limits_epsilon ∧
    macro_HALF_EPSILON_f32 ≤ h2f limits_epsilon ∧ h2f limits_epsilon - macro_HALF_EPSILON_f32 < 64 ∧
    limits_digits = macro_HALF_MANT_DIG ∧ limits_digits10 = macro_HALF_DIG ∧
    limits_max_digits10 = macro_HALF_DECIMAL_DIG ∧ limits_radix = macro_HALF_RADIX ∧
    limits_min_exponent = macro_HALF_DENORM_MIN_EXP ∧ limits_max_exponent = macro_HALF_MAX_EXP ∧
    limits_min_exponent10 = macro_HALF_DENORM_MIN_10_EXP ∧ limits_max_exponent10 = macro_HALF_MAX_10_EXP := by
  decide +kernel

/-- the largest float that still converts to `max()` and the overflow threshold:
`half (65519.996…)` is `max()`, `half (65520)` is infinity (limits ↔ conversion) -/
theorem max_conversion_boundary :
    f2h 0x477fefff = limits_max ∧ f2h 0x477ff000 = limits_infinity ∧
    f2h 0x33000000 = 0 ∧ f2h 0x33000001 = limits_denorm_min := by
  decide +kernel

/-! ## half::round(n) -/

/-- `round(n)` for `n ≥ 10` is the identity -/
theorem round_identity : ∀ n h, 10 ≤ n → roundN n h = h := by
  intro n h hn
  simp [roundN, hn]

/-- `round(n)`, `n ≤ 9`, every pattern.  With `runit n = 2^(10-n)` (the n-th
significand bit, in magnitude-bit units), `rcand` the round-half-up multiple
of `runit n` and `rtrunc` the truncated one:
sign kept; the low `10-n` significand bits are zero; the result is `rcand`
unless that reaches 0x7c00, in which case it is `rtrunc`; for non-NaN inputs
finite stays finite and ±∞ stays ±∞, the result is within half a unit of the
n-th significand bit (`2^(10-n-1)` ulps) when rounding and less than one unit
below the input when truncating, and truncation happens exactly when rounding
*up* would reach 0x7c00.  NaN inputs have their payload truncated — with no
surviving payload bit the result is an infinity (this is what the code does;
the property makes no claim about NaN). -/
theorem round_spec : ∀ n, n ≤ 9 → ∀ h, h < 65536 →
    roundN n h < 65536 ∧
    roundN n h / 32768 = h / 32768 ∧
    mag (roundN n h) % runit n = 0 ∧
    mag (roundN n h) = (if rcand n (mag h) ≥ 0x7c00 then rtrunc n (mag h) else rcand n (mag h)) ∧
    (isNan h = false →
      (isFinite h = true → isFinite (roundN n h) = true) ∧
      (isInfinity h = true → roundN n h = h) ∧
      (if rcand n (mag h) ≥ 0x7c00 then
          mag (roundN n h) ≤ mag h ∧ hval (mag h) - hval (mag (roundN n h)) < runit n * ulp (mag h)
        else
          2 * dist (hval (mag (roundN n h))) (hval (mag h)) ≤ runit n * ulp (mag h)) ∧
      (isFinite h = true → (rcand n (mag h) ≥ 0x7c00 ↔
          (2 * (mag h % runit n) ≥ runit n ∧ rtrunc n (mag h) + runit n ≥ 0x7c00)))) ∧
    (isNan h = true → roundN n h = h - h % runit n) := by
  intro n hn h hh
  have hcases : n = 0 ∨ n = 1 ∨ n = 2 ∨ n = 3 ∨ n = 4 ∨ n = 5 ∨ n = 6 ∨ n = 7 ∨ n = 8 ∨ n = 9 := by omega
  rcases hcases with e | e | e | e | e | e | e | e | e | e <;> subst e
  · exact (of_decide_eq_true (p_round0_all h hh) : RoundSpec 0 h)
  · exact (of_decide_eq_true (p_round1_all h hh) : RoundSpec 1 h)
  · exact (of_decide_eq_true (p_round2_all h hh) : RoundSpec 2 h)
  · exact (of_decide_eq_true (p_round3_all h hh) : RoundSpec 3 h)
  · exact (of_decide_eq_true (p_round4_all h hh) : RoundSpec 4 h)
  · exact (of_decide_eq_true (p_round5_all h hh) : RoundSpec 5 h)
  · exact (of_decide_eq_true (p_round6_all h hh) : RoundSpec 6 h)
  · exact (of_decide_eq_true (p_round7_all h hh) : RoundSpec 7 h)
  · exact (of_decide_eq_true (p_round8_all h hh) : RoundSpec 8 h)
  · exact (of_decide_eq_true (p_round9_all h hh) : RoundSpec 9 h)

/-- the property's clauses for every `n` (0..9 and beyond) and every finite or
infinite input: sign and finiteness class kept, low `10-n` significand bits
clear, and — unless rounding up would reach infinity — within half a unit of
n-bit precision -/
theorem round_coherent : ∀ n h, h < 65536 → isNan h = false →
    roundN n h / 32768 = h / 32768 ∧
    (isFinite h = true → isFinite (roundN n h) = true) ∧
    (isInfinity h = true → isInfinity (roundN n h) = true) ∧
    mag (roundN n h) % 2 ^ (10 - n) = 0 ∧
    (rcand n (mag h) < 0x7c00 →
        2 * dist (hval (mag (roundN n h))) (hval (mag h)) ≤ 2 ^ (10 - n) * ulp (mag h)) := by
  intro n h hh hnan
  by_cases hn : n ≤ 9
  · obtain ⟨_, h2, h3, _, h5, _⟩ := round_spec n hn h hh
    obtain ⟨h6, h7, h8, _⟩ := h5 hnan
    refine ⟨h2, h6, ?_, h3, ?_⟩
    · intro hi; rw [h7 hi]; exact hi
    · intro hc
      have hc' : ¬ rcand n (mag h) ≥ 0x7c00 := by omega
      rw [if_neg hc'] at h8
      exact h8
  · have hid := round_identity n h (by omega)
    have e : 10 - n = 0 := by omega
    rw [hid, e]
    refine ⟨rfl, id, id, by simp; omega, ?_⟩
    intro _
    simp [dist]

/-! ## halfFunction -/

/-- the constructor fills all 65,536 entries -/
theorem lut_size {T : Type} (p : Params T) : (lutFill p).size = 65536 := HalfFunction.lut_size p

/-- entry `h` of the table after the constructor has run: NaN ↦ `nanValue`,
±∞ ↦ `posInfValue`/`negInfValue`, a finite `x` outside the domain
(`float(x) < float(domainMin)` or `float(x) > float(domainMax)`) ↦
`defaultValue`, otherwise `f x`; `operator()` is the table read. -/
theorem lut_spec {T : Type} [Inhabited T] (p : Params T) : ∀ h, h < 65536 →
    apply p h = (lutFill p)[h]! ∧
    (isNan h = true → apply p h = p.nanValue) ∧
    (isInfinity h = true → isNegative h = false → apply p h = p.posInfValue) ∧
    (isInfinity h = true → isNegative h = true → apply p h = p.negInfValue) ∧
    (isFinite h = true → (halfLt h p.domainMin = true ∨ halfLt p.domainMax h = true) → apply p h = p.defaultValue) ∧
    (isFinite h = true → halfLt h p.domainMin = false → halfLt p.domainMax h = false → apply p h = p.f h) := by
  intro h hh
  have hc := class_partition h hh
  have e := HalfFunction.apply_eq p h hh
  refine ⟨rfl, ?_, ?_, ?_, ?_, ?_⟩
  · intro hn; rw [e]; simp [entry, hn]
  · intro hi hneg
    have hn : isNan h = false := not_nan_of_inf h hi
    rw [e]; simp [entry, hn, hi, hneg]
  · intro hi hneg
    have hn : isNan h = false := not_nan_of_inf h hi
    rw [e]; simp [entry, hn, hi, hneg]
  · intro hf hd
    obtain ⟨hn, hi⟩ := not_inf_nan_of_finite h hf
    rw [e]
    rcases hd with hd | hd <;> simp [entry, hn, hi, hd]
  · intro hf h1 h2
    obtain ⟨hn, hi⟩ := not_inf_nan_of_finite h hf
    rw [e]; simp [entry, hn, hi, h1, h2]

/-- the domain test compares *values*: for non-NaN patterns `float(a) < float(b)`
(the C++ comparison, through `operator float()`) is `sval a < sval b`; a NaN on
either side makes it false (so a NaN `domainMin`/`domainMax` excludes nothing) -/
theorem halfLt_iff_value : ∀ a b, a < 65536 → b < 65536 →
    (isNan a = false → isNan b = false → (halfLt a b = true ↔ sval a < sval b)) ∧
    (isNan a = true ∨ isNan b = true → halfLt a b = false) :=
  HalfFunction.halfLt_iff_value'

/-- the constructor's DEFAULT domain arguments `domainMin = -HALF_MAX`,
`domainMax = HALF_MAX` (halfFunction.h 73-80; a double macro, negated, converted
through `half (float)`) are exactly `[lowest(), max()]`: no finite half is
outside, so a one-argument `halfFunction<T> hf (f)` tabulates `f` on every finite
half (limits ↔ conversion ↔ halfFunction).  The check runs the real one- and
two-argument constructors against this model domain for all 2^16 patterns. -/
theorem halfFunction_default_domain :
    macro_HALF_MAX_f32 < 2147483648 ∧
    f2h (macro_HALF_MAX_f32 + 2147483648) = limits_lowest ∧ f2h macro_HALF_MAX_f32 = limits_max ∧
    (∀ h, h < 65536 → isFinite h = true → halfLt h limits_lowest = false ∧ halfLt limits_max h = false) ∧
    (∀ {T : Type} [Inhabited T] (p : Params T),
        p.domainMin = f2h (macro_HALF_MAX_f32 + 2147483648) → p.domainMax = f2h macro_HALF_MAX_f32 →
        ∀ h, h < 65536 → isFinite h = true → apply p h = p.f h) := by
  have e1 : f2h (macro_HALF_MAX_f32 + 2147483648) = limits_lowest := by decide +kernel
  have e2 : f2h macro_HALF_MAX_f32 = limits_max := by decide +kernel
  have hin : ∀ h, h < 65536 → isFinite h = true → halfLt h limits_lowest = false ∧ halfLt limits_max h = false := by
    intro h hh hf
    obtain ⟨hn, _⟩ := not_inf_nan_of_finite h hf
    obtain ⟨hlo, hhi⟩ := lowest_is_neg_max.2.2 h hh hf
    have nlo : isNan limits_lowest = false := by decide
    have nhi : isNan limits_max = false := by decide
    have i1 := (halfLt_iff_value h limits_lowest hh (by decide)).1 hn nlo
    have i2 := (halfLt_iff_value limits_max h (by decide) hh).1 nhi hn
    constructor
    · cases hc : halfLt h limits_lowest
      · rfl
      · have := i1.1 hc; omega
    · cases hc : halfLt limits_max h
      · rfl
      · have := i2.1 hc; omega
  refine ⟨by decide, e1, e2, hin, ?_⟩
  intro T _ p h1 h2 h hh hf
  obtain ⟨a, b⟩ := hin h hh hf
  exact (lut_spec p h hh).2.2.2.2.2 hf (by rw [h1, e1]; exact a) (by rw [h2, e2]; exact b)

/-! ## behaviour outside the property's claim, stated so that it is on record

`round(n)` is claimed only for finite or infinite inputs.  What the code does
with a NaN: the payload is truncated like a significand, the result is never
finite, and it is an INFINITY exactly when the truncated-away low `10-n` bits
were the whole payload (`0x7c01.round(0) = +inf`, and every NaN whose payload
is below `2^(10-n)`); for `n ≥ 10` (`round_identity`) every NaN is kept. -/
theorem round_nan : ∀ n, n ≤ 9 → ∀ h, h < 65536 → isNan h = true →
    roundN n h = h - h % runit n ∧
    roundN n h / 32768 = h / 32768 ∧ isFinite (roundN n h) = false ∧
    (isInfinity (roundN n h) = true ↔ h % 1024 < runit n) ∧
    (isNan (roundN n h) = true ↔ runit n ≤ h % 1024) := by
  intro n hn h hh hnan
  have hr := (round_spec n hn h hh).2.2.2.2.2 hnan
  have hs := (round_spec n hn h hh).2.1
  rw [hr] at hs ⊢
  have hx : h / 1024 % 32 = 31 ∧ h % 1024 ≠ 0 := by
    unfold isNan at hnan
    rw [exponent_eq, mantissa_eq] at hnan
    simpa using hnan
  unfold isFinite isInfinity isNan
  simp only [exponent_eq, mantissa_eq]
  have hru : runit n = 1024 ∨ runit n = 512 ∨ runit n = 256 ∨ runit n = 128 ∨ runit n = 64 ∨ runit n = 32 ∨
      runit n = 16 ∨ runit n = 8 ∨ runit n = 4 ∨ runit n = 2 := by
    have hcases : n = 0 ∨ n = 1 ∨ n = 2 ∨ n = 3 ∨ n = 4 ∨ n = 5 ∨ n = 6 ∨ n = 7 ∨ n = 8 ∨ n = 9 := by omega
    rcases hcases with e | e | e | e | e | e | e | e | e | e <;> subst e <;> decide
  generalize runit n = r at *
  rcases hru with e | e | e | e | e | e | e | e | e | e <;> subst e <;> simp <;> omega

/-- `numeric_limits<half>` members that are not "extremes" but are objectively
determined: a specialised, non-integer, inexact, non-modulo type.
(`is_iec559 = false`, `traps = true`, `tinyness_before = false`,
`has_denorm_loss = false` are dumped into Gen/HalfLimits.lean but nothing is
claimed about them; `is_bounded`: next theorem.) -/
theorem other_members :
    limits_is_specialized = 1 ∧ limits_is_integer = 0 ∧ limits_is_exact = 0 ∧ limits_is_modulo = 0 := by
  decide

/-! OBSERVATION, outside the property (its list of extremes does not include the
classification traits), deliberately NOT a counted theorem: the type IS bounded —
every finite half lies in `[lowest(), max()]` (`lowest_is_neg_max`), 2^16
patterns in all — whatever `is_bounded` says.  The header currently says
`is_bounded = false`; the check reports the regenerated value in
`extra.observed_outside_property`.  The `example` holds for either value. -/
example :
    (∀ h, h < 65536 → isFinite h = true → (sval limits_lowest ≤ sval h ∧ sval h ≤ sval limits_max)) ∧
    (limits_is_bounded = 0 ∨ limits_is_bounded = 1) :=
  ⟨lowest_is_neg_max.2.2, by decide⟩

-- non-vacuity of the hypotheses used above
example : (0x3c00 : Nat) < 65536 ∧ isNan 0x3c00 = false ∧ isFinite 0x3c00 = true := by decide
example : isNan 0x7e00 = true ∧ isInfinity 0xfc00 = true ∧ isNegative 0xfc00 = true := by decide
example : rcand 0 (mag 0x7bff) ≥ 0x7c00 ∧ rcand 3 (mag 0x3c40) < 0x7c00 := by decide
example : roundN 0 0x7bff = 0x7800 ∧ roundN 0 0x7c01 = 0x7c00 ∧ roundN 3 0x3c40 = 0x3c80 := by decide
-- round_nan: both outcomes occur (payload 0x001 is lost at n = 9, payload 0x200 survives n = 1)
example : isNan 0xfc01 = true ∧ roundN 9 0xfc01 = 0xfc00 ∧ isInfinity (roundN 9 0xfc01) = true ∧
    isNan 0x7e00 = true ∧ isNan (roundN 1 0x7e00) = true := by decide
-- fpclassify_agree: every class occurs (zero, denormal -> normal float, normal, inf, nan)
example : fpClass32 (h2f 0x8000) = 0 ∧ fpClass32 (h2f 0x0001) = 1 ∧ fpClass32 (h2f 0x3c00) = 1 ∧
    fpClass32 (h2f 0xfc00) = 3 ∧ fpClass32 (h2f 0x7e00) = 4 := by decide
-- halfFunction_default_domain: the hypotheses are satisfiable (the default parameters themselves)
example : ∃ p : Params Nat, p.domainMin = f2h (macro_HALF_MAX_f32 + 2147483648) ∧ p.domainMax = f2h macro_HALF_MAX_f32 :=
  ⟨⟨id, f2h (macro_HALF_MAX_f32 + 2147483648), f2h macro_HALF_MAX_f32, 0, 0, 0, 0⟩, rfl, rfl⟩

end ImathVerif.Half.C03
