import ImathVerif.Lemmas.Rand48
import ImathVerif.Lemmas.Rand48Indep
import ImathVerif.Spec.Rand48Field
import Mathlib.Tactic.Linarith
import Mathlib.Tactic.Ring
import Mathlib.Tactic.FieldSimp
import Mathlib.Tactic.NormNum
import Mathlib.Analysis.SpecialFunctions.Log.Basic
import Mathlib.Analysis.SpecialFunctions.Sqrt
import Mathlib.Analysis.Complex.ExponentialBounds
/-!
# C18 — random generators are deterministic, range-correct and rand48-compatible

Property theorems only.  The model (`Model/Rand48.lean`, core Lean) mirrors
src/Imath/ImathRandom.cpp and the inline members in ImathRandom.h statement by
statement; it is tied to /repo on every run by correspondence
(harness/corr/rand48_corr.cpp vs lean/Driver/Rand48.lean) on boundary states,
10^6-10^7 sampled states and mixed call sequences, and the real code is also
compared with glibc's rand48 family (the POSIX reference) on the same inputs.

All theorems quantify over ALL states (limbs `< 2^16`) / all seeds / all call
sequences; nothing is enumerated.

Not proved here (measured by tools/props/c18.py, reported as residue):
* the floating-point rounding of `rangeMin * (1 - f) + rangeMax * f` (only the
  exact ordered-field statement `nextf_range_convex` is a theorem);
* finiteness / rounding of the sphere and gauss samplers in float/double (only
  the loop-exit postconditions over an ordered field / over ℝ are theorems).
-/
namespace ImathVerif.Rand48.C18
open ImathVerif.Rand48 ImathVerif.Rand48.Spec ImathVerif.Rand48.Field
set_option exponentiation.threshold 2000
set_option linter.unusedSectionVars false

/-! ## the 48-bit generator -/

/-- rand48Next is the POSIX LCG step `X' = (0x5DEECE66D * X + 0xB) mod 2^48` on
`X = pack state`, for every limb triple, and leaves every limb `< 2^16`. -/
theorem next_is_lcg (s : St) (h : s.wf) :
    pack (rand48Next s) = (0x5DEECE66D * pack s + 0xB) % 2 ^ 48 ∧ (rand48Next s).wf :=
  next_pack s h

example : ({ s0 := 0xffff, s1 := 0x8000, s2 := 0x1234 } : St).wf := by decide

/-- nrand48 returns the high-order 31 bits of the NEW value (`X' >>> 17`), which
is `< 2^31`, and leaves the state one LCG step further. -/
theorem nrand48_spec (s : St) (h : s.wf) :
    (nrand48 s).1 = lcg (pack s) >>> 17 ∧ (nrand48 s).1 < 2 ^ 31 ∧
    pack (nrand48 s).2 = lcg (pack s) ∧ (nrand48 s).2.wf := by
  obtain ⟨a, b, c⟩ := nrand48_eq s h
  refine ⟨a, ?_, b, c⟩
  rw [a]; have := lcg_lt (pack s)
  simp only [nrandOut, Nat.shiftRight_eq_div_pow]; omega

/-- the `u.d - 1` in erand48 is exact: for every 64-bit pattern `p` of a double in
[1,2) (sign 0, biased exponent 0x3ff), the model's result `dblMinusOne p` is a
finite double `< 1` whose value is EXACTLY `value(p) - value(1.0)`.  Hence the
exact real difference is representable and an IEEE-754 subtraction returns it in
every rounding mode.  (`dblVal1074` = value * 2^1074.) -/
theorem sub_one_exact_dbl (p : Nat) (h1 : 0x3ff0000000000000 ≤ p) (h2 : p < 0x4000000000000000) :
    dblVal1074 (dblMinusOne p) + dblVal1074 0x3ff0000000000000 = dblVal1074 p ∧
    dblMinusOne p < 0x3ff0000000000000 := by
  have hm : p % 4503599627370496 < 4503599627370496 := Nat.mod_lt _ (by decide)
  obtain ⟨v, f⟩ := dblOfFrac52_val _ hm
  have hp : p = 0x3ff * 4503599627370496 + p % 4503599627370496 := by omega
  have one : dblVal1074 0x3ff0000000000000 = 4503599627370496 * 2 ^ 1022 := dblVal_one_plus 0 (by decide)
  unfold dblMinusOne
  generalize p % 4503599627370496 = r at *
  subst hp
  refine ⟨?_, f⟩
  rw [v, one, dblVal_one_plus r hm, Nat.add_mul, Nat.add_comm]

example : (0x3ff0000000000000 : Nat) ≤ 0x3ff8000000000001 ∧ (0x3ff8000000000001 : Nat) < 0x4000000000000000 := by decide

/-- erand48: the returned double is the finite pattern `dblOfFrac52 m` with
`m = 16 * X' + X' >>> 44` (the 48 bits of the new value followed by a copy of its
top 4 bits), whose value is exactly `m / 2^52` (stated as `value * 2^1074 = m * 2^1022`);
`m < 2^52` so the value lies in [0,1); `16 X' ≤ m < 16 X' + 16`, i.e.
`0 ≤ m/2^52 - X'/2^48 < 2^-48` (distance to the POSIX value `X'/2^48`); the
intermediate pattern `u.i` has exponent 0x3ff and fraction `m`, so the `- 1` is
exact by `sub_one_exact_dbl`; the state advances by one LCG step. -/
theorem erand48_spec (s : St) (h : s.wf) :
    let X' := lcg (pack s)
    let m := 16 * X' + X' >>> 44
    (erand48 s).1 = dblOfFrac52 m ∧
    dblVal1074 (erand48 s).1 = m * 2 ^ 1022 ∧ (erand48 s).1 < 0x3ff0000000000000 ∧
    m < 2 ^ 52 ∧ 16 * X' ≤ m ∧ m < 16 * X' + 16 ∧
    erand48Packed (rand48Next s) = 0x3ff0000000000000 + m ∧
    dblVal1074 (erand48 s).1 + dblVal1074 0x3ff0000000000000 = dblVal1074 (erand48Packed (rand48Next s)) ∧
    pack (erand48 s).2 = X' ∧ (erand48 s).2.wf := by
  intro X' m
  obtain ⟨a, b, c⟩ := erand48_eq s h
  obtain ⟨b1, b2, b3⟩ := erandNum_bounds X' (lcg_lt (pack s))
  obtain ⟨hp, hw⟩ := next_pack s h
  have hm : m = erandNum X' := rfl
  obtain ⟨v, f⟩ := dblOfFrac52_val m (by rw [hm]; exact b1)
  have pk : erand48Packed (rand48Next s) = 0x3ff0000000000000 + m := by
    rw [erand_packed _ hw, hp]; rfl
  have ex := sub_one_exact_dbl (erand48Packed (rand48Next s)) (by rw [pk]; omega) (by rw [pk, hm]; omega)
  refine ⟨a, by rw [a]; exact v, by rw [a]; exact f, by rw [hm]; exact b1, by rw [hm]; exact b2,
    by rw [hm]; exact b3, pk, ex.1, b, c⟩

/-- srand48 seeds the static state with limbs `(state[2], state[1], state[0]) =
(bits 16..31 of seed, bits 0..15 of seed, 0x330e)`: the high-order 32 bits of X are
the low-order 32 bits of the seed and the low-order 16 bits are 0x330E (POSIX). -/
theorem srand48_spec (seed : Nat) :
    (srand48 seed).s2 = (seed >>> 16) % 65536 ∧ (srand48 seed).s1 = seed % 65536 ∧
    (srand48 seed).s0 = 0x330e ∧
    pack (srand48 seed) = (seed % 2 ^ 32) * 2 ^ 16 + 0x330E ∧ (srand48 seed).wf := by
  obtain ⟨a, b⟩ := srand_pack seed
  exact ⟨rfl, rfl, rfl, a, b⟩

/-- lrand48 / drand48 are nrand48 / erand48 applied to the file-static state
(which starts as `{0,0,0}`), and srand48 replaces it. -/
theorem static_forms (w : World) (seed : Nat) :
    step w .lrand48 = (.int (nrand48 w.stat).1, { w with stat := (nrand48 w.stat).2 }) ∧
    step w .drand48 = (.dbl (erand48 w.stat).1, { w with stat := (erand48 w.stat).2 }) ∧
    step w (.srand48 seed) = (.none, { w with stat := srand48 seed }) ∧
    pack staticInit = 0 :=
  ⟨rfl, rfl, rfl, rfl⟩

/-- Refinement, for call sequences of EVERY length and every interleaving of
nrand48 / erand48 / lrand48 / drand48 / srand48 / Rand48::{init,nextb,nexti,nextf}:
the values returned by the model are exactly those of the one-line-per-call
specification `sstep` (one LCG step on the state the call works on, output a
function of the new value), the final states correspond under `pack`, and all
limbs stay `< 2^16`. -/
theorem run_refines (ops : List Op) (w : World) (hu : w.user.wf) (hs : w.stat.wf) :
    absW (run ops w).1 = (srun ops (absW w)).1 ∧ (run ops w).2 = (srun ops (absW w)).2 ∧
    (run ops w).1.user.wf ∧ (run ops w).1.stat.wf :=
  foldl_refines ops w [] hu hs

/-- every call advances its state by exactly one LCG step: after a sequence with no
seeding call, the caller's state is `lcg^[k]` of its initial value, `k` the number of
calls on the caller's state, and the static state likewise — independent of the interleaving. -/
theorem run_counts (ops : List Op) (hns : ∀ op ∈ ops, Op.seeds op = false)
    (w : World) (hu : w.user.wf) (hs : w.stat.wf) :
    pack (run ops w).1.user = lcgIter (ops.countP Op.onUser) (pack w.user) ∧
    pack (run ops w).1.stat = lcgIter (ops.countP Op.onStat) (pack w.stat) := by
  obtain ⟨a, _, _, _⟩ := run_refines ops w hu hs
  obtain ⟨c1, c2⟩ := sfoldl_counts ops hns (absW w) []
  have a1 : pack (run ops w).1.user = (srun ops (absW w)).1.user := congrArg SWorld.user a
  have a2 : pack (run ops w).1.stat = (srun ops (absW w)).1.stat := congrArg SWorld.stat a
  exact ⟨a1.trans c1, a2.trans c2⟩

example : (∀ op ∈ [Op.nrand48, .drand48, .erand48, .lrand48, .r48nextb], Op.seeds op = false) ∧
    ({ s0 := 1, s1 := 2, s2 := 3 } : St).wf ∧ staticInit.wf := by decide

/-- concrete instance of the refinement: mixed sequence from state (1,2,3) -/
example : pack (run [.nrand48, .drand48, .erand48, .lrand48, .r48nextb]
    ⟨{ s0 := 1, s1 := 2, s2 := 3 }, staticInit⟩).1.user = lcg (lcg (lcg (pack { s0 := 1, s1 := 2, s2 := 3 }))) := by
  decide +kernel

/-! ## class Rand48 -/

/-- Rand48::init scrambles the seed and stores limbs (t & 0xffff, (t >> 16) & 0xffff, t & 0xffff);
nexti = nrand48 (31 bits), nextb = its least significant bit = bit 17 of X', nextf = erand48. -/
theorem rand48_class (seed : Nat) (s : St) (h : s.wf) :
    pack (r48Init seed) = r48InitX seed ∧ (r48Init seed).wf ∧
    r48Nexti s = nrand48 s ∧ (r48Nexti s).1 < 2 ^ 31 ∧
    (r48Nextb s).1 = decide ((lcg (pack s) >>> 17) % 2 = 1) ∧ (r48Nextb s).2 = (nrand48 s).2 ∧
    r48Nextf s = erand48 s := by
  obtain ⟨i1, i2⟩ := r48Init_pack seed
  obtain ⟨b1, b2⟩ := r48Nextb_eq s h
  exact ⟨i1, i2, rfl, (nrand48_spec s h).2.1, b1, b2, rfl⟩

/-! ## class Rand32 -/

/-- Rand32::next: the 64-bit `unsigned long` state stays `< 2^64` and its low 32
bits evolve as the 32-bit LCG `x' = (1664525 x + 1013904223) mod 2^32`. -/
theorem rand32_next (st : Nat) :
    r32Next st < 2 ^ 64 ∧ r32Next st % 2 ^ 32 = lcg32 (st % 2 ^ 32) :=
  ⟨r32Next_lt st, r32Next_low st⟩

/-- nexti is the low 32 bits of the new state, `< 2^32` -/
theorem rand32_nexti (st : Nat) :
    (r32Nexti st).1 = r32Next st % 2 ^ 32 ∧ (r32Nexti st).1 < 2 ^ 32 ∧ (r32Nexti st).2 = r32Next st := by
  have e : (r32Nexti st).1 = r32Next st % 4294967296 := and_ffffffff _
  exact ⟨e, by rw [e]; exact Nat.mod_lt _ (by decide), rfl⟩

/-- nextb is bit 31 of the new state -/
theorem rand32_nextb (st : Nat) :
    (r32Nextb st).1 = decide (r32Next st / 2 ^ 31 % 2 = 1) ∧ (r32Nextb st).2 = r32Next st := by
  exact ⟨and_bit31 _, rfl⟩

/-- the `u.f - 1` in Rand32::nextf is exact (same statement as `sub_one_exact_dbl` for binary32) -/
theorem sub_one_exact_flt (p : Nat) (h1 : 0x3f800000 ≤ p) (h2 : p < 0x40000000) :
    fltVal149 (fltMinusOne p) + fltVal149 0x3f800000 = fltVal149 p ∧ fltMinusOne p < 0x3f800000 := by
  have hm : p % 8388608 < 8388608 := Nat.mod_lt _ (by decide)
  obtain ⟨v, f⟩ := fltOfFrac23_val _ hm
  have hp : p = 0x7f * 8388608 + p % 8388608 := by omega
  have one : fltVal149 0x3f800000 = 8388608 * 2 ^ 126 := fltVal_one_plus 0 (by decide)
  unfold fltMinusOne
  generalize p % 8388608 = r at *
  subst hp
  refine ⟨?_, f⟩
  rw [v, one, fltVal_one_plus r hm, Nat.add_mul, Nat.add_comm]

example : (0x3f800000 : Nat) ≤ 0x3fc00001 ∧ (0x3fc00001 : Nat) < 0x40000000 := by decide

/-- Rand32::nextf(): the returned float is the finite pattern `fltOfFrac23 m` with
`m` = the low 23 bits of the new state, its value is exactly `m / 2^23` (stated as
`value * 2^149 = m * 2^126`), `m < 2^23` so it lies in [0,1); the intermediate
pattern is `0x3f800000 + m` and the `- 1` is exact. -/
theorem rand32_nextf (st : Nat) :
    let m := r32Next st % 2 ^ 23
    (r32Nextf st).1 = fltOfFrac23 m ∧ fltVal149 (r32Nextf st).1 = m * 2 ^ 126 ∧
    (r32Nextf st).1 < 0x3f800000 ∧ m < 2 ^ 23 ∧
    r32NextfPacked (r32Next st) = 0x3f800000 + m ∧
    fltVal149 (r32Nextf st).1 + fltVal149 0x3f800000 = fltVal149 (r32NextfPacked (r32Next st)) ∧
    (r32Nextf st).2 = r32Next st := by
  intro m
  have hmd : m = r32Next st % 8388608 := rfl
  have hm : m < 8388608 := Nat.mod_lt _ (by decide)
  have pk : r32NextfPacked (r32Next st) = 0x3f800000 + m := by rw [r32NextfPacked_eq]; rfl
  have hu : (r32Nextf st).1 = fltMinusOne (r32NextfPacked (r32Next st)) := rfl
  clear_value m
  have e : (r32Nextf st).1 = fltOfFrac23 m := by
    rw [hu, pk]; unfold fltMinusOne
    congr 1; omega
  obtain ⟨v, f⟩ := fltOfFrac23_val m hm
  have ex := sub_one_exact_flt (r32NextfPacked (r32Next st)) (by rw [pk]; omega) (by rw [pk]; omega)
  refine ⟨e, by rw [e]; exact v, by rw [e]; exact f, hm, pk, ?_, rfl⟩
  rw [hu]; exact ex.1

/-- every Rand32 output depends only on the low 32 bits of the state (so the
generator behaves as a 32-bit generator although `_state` is 64 bits wide), and
congruent states stay congruent. -/
theorem rand32_low32_only (a b : Nat) (h : a % 2 ^ 32 = b % 2 ^ 32) (op : Op32) :
    (step32 a op).1 = (step32 b op).1 ∧ (step32 a op).2 % 2 ^ 32 = (step32 b op).2 % 2 ^ 32 := by
  have h' : a % 4294967296 = b % 4294967296 := h
  have hn : r32Next a % 4294967296 = r32Next b % 4294967296 := by rw [r32Next_low, r32Next_low, h']
  have h31 : r32Next a / 2147483648 % 2 = r32Next b / 2147483648 % 2 := by omega
  have h23 : r32Next a % 8388608 = r32Next b % 8388608 := by omega
  show (step32 a op).1 = (step32 b op).1 ∧ (step32 a op).2 % 4294967296 = (step32 b op).2 % 4294967296
  cases op with
  | init seed => exact ⟨rfl, rfl⟩
  | nextb => simp only [step32, r32Nextb, and_bit31]; exact ⟨by rw [h31], hn⟩
  | nexti => simp only [step32, r32Nexti, and_ffffffff]; exact ⟨by rw [hn], hn⟩
  | nextf =>
    simp only [step32, r32Nextf, fltMinusOne, r32NextfPacked_eq]
    refine ⟨?_, hn⟩
    have : (0x7f * 8388608 + r32Next a % 8388608) % 8388608 = (0x7f * 8388608 + r32Next b % 8388608) % 8388608 := by
      omega
    rw [this]

example : (5 : Nat) % 2 ^ 32 = (2 ^ 32 + 5) % 2 ^ 32 := by decide

/-- sequence version of `rand32_low32_only`: for EVERY list of member calls, two objects whose states agree
in the low 32 bits return the same values and stay congruent — so the whole output sequence is that of a
32-bit generator whatever the width of `unsigned long` (LP64 / LLP64 / ILP32). -/
theorem run32_low32_only (ops : List Op32) (a b : Nat) (h : a % 2 ^ 32 = b % 2 ^ 32) :
    (run32 ops a).2 = (run32 ops b).2 ∧ (run32 ops a).1 % 2 ^ 32 = (run32 ops b).1 % 2 ^ 32 := by
  induction ops generalizing a b with
  | nil => exact ⟨rfl, h⟩
  | cons op ops ih =>
    obtain ⟨h1, h2⟩ := rand32_low32_only a b h op
    obtain ⟨i1, i2⟩ := ih (step32 a op).2 (step32 b op).2 h2
    rw [run32_cons, run32_cons]
    exact ⟨by rw [h1, i1], i2⟩

example : (run32 [.nexti, .nextb, .nextf] 5).2 = (run32 [.nexti, .nextb, .nextf] (2 ^ 32 + 5)).2 :=
  (run32_low32_only _ 5 (2 ^ 32 + 5) (by decide)).1

/-! ## determinism = absence of hidden / shared state

"The sequence is a pure function of the seed" is true of ANY function of the model, so it is not stated as
`seed1 = seed2 → …`.  What the model can say, and the correspondence transfers to the C++ objects, is which
state each call reads and writes:
* after `init (seed)` the sequence does not depend on what the object's storage held before (nor, for
  `Rand48`, on the file-static state or on any interleaved `lrand48/drand48/srand48` call);
* the caller's array / `Rand48` object and the static state are independent streams in EVERY interleaving. -/

/-- Rand32: the values returned after `init (seed)` — and the final state — are the same whatever the
object held before (`st`, `st'` arbitrary, e.g. uninitialised storage or a used generator). -/
theorem rand32_seq_function_of_seed (seed : Nat) (ops : List Op32) (st st' : Nat) :
    run32 (.init seed :: ops) st = run32 (.init seed :: ops) st' := by
  rw [run32_cons, run32_cons]; rfl

example : run32 [.init 7, .nexti, .nextb, .nextf] 0 = run32 [.init 7, .nexti, .nextb, .nextf] 0xdeadbeefdeadbeef :=
  rand32_seq_function_of_seed 7 _ _ _

/-- one call: a call that is not lrand48/drand48/srand48 leaves the static state unchanged and its result
and the caller's new state depend on the caller's state only; a call that is leaves the caller's state
unchanged and depends on the static state only. -/
theorem step_streams_independent (w w' : World) (op : Op) :
    (Op.touchesStat op = false → w.user = w'.user →
      (step w op).2.stat = w.stat ∧ (step w op).1 = (step w' op).1 ∧ (step w op).2.user = (step w' op).2.user) ∧
    (Op.touchesStat op = true → w.stat = w'.stat →
      (step w op).2.user = w.user ∧ (step w op).1 = (step w' op).1 ∧ (step w op).2.stat = (step w' op).2.stat) :=
  ⟨step_nonstatic w w' op, step_static w w' op⟩

/-- in EVERY interleaving of all entry points, the values returned by the calls on the caller's array /
`Rand48` object (nrand48, erand48, Rand48::{init,nextb,nexti,nextf}) and its final contents do not depend on
the static state — nor, therefore, on the lrand48/drand48/srand48 calls interleaved with them. -/
theorem user_stream_independent_of_static (ops : List Op) (w w' : World) (hu : w.user = w'.user) :
    outsOf (fun op => !Op.touchesStat op) ops w = outsOf (fun op => !Op.touchesStat op) ops w' ∧
    (run ops w).1.user = (run ops w').1.user := by
  induction ops generalizing w w' with
  | nil => exact ⟨rfl, hu⟩
  | cons op ops ih =>
    unfold outsOf at ih ⊢
    rw [run_cons, run_cons]
    cases h : Op.touchesStat op with
    | false =>
      obtain ⟨_, o, u⟩ := step_nonstatic w w' op h hu
      obtain ⟨i1, i2⟩ := ih _ _ u
      simp only [List.zip_cons_cons, List.filter_cons, h, Bool.not_false, if_true, List.map_cons]
      exact ⟨by rw [o, i1], i2⟩
    | true =>
      have u1 := (step_static w w op h rfl).1
      have u2 := (step_static w' w' op h rfl).1
      obtain ⟨i1, i2⟩ := ih (step w op).2 (step w' op).2 (by rw [u1, u2, hu])
      simp only [List.zip_cons_cons, List.filter_cons, h, Bool.not_true]
      exact ⟨i1, i2⟩

/-- symmetric statement: the values returned by lrand48/drand48 (and the final static state) do not depend
on the caller's arrays / `Rand48` objects or on the calls made on them. -/
theorem static_stream_independent_of_user (ops : List Op) (w w' : World) (hs : w.stat = w'.stat) :
    outsOf Op.touchesStat ops w = outsOf Op.touchesStat ops w' ∧ (run ops w).1.stat = (run ops w').1.stat := by
  induction ops generalizing w w' with
  | nil => exact ⟨rfl, hs⟩
  | cons op ops ih =>
    unfold outsOf at ih ⊢
    rw [run_cons, run_cons]
    cases h : Op.touchesStat op with
    | true =>
      obtain ⟨_, o, u⟩ := step_static w w' op h hs
      obtain ⟨i1, i2⟩ := ih _ _ u
      simp only [List.zip_cons_cons, List.filter_cons, h, if_true, List.map_cons]
      exact ⟨by rw [o, i1], i2⟩
    | false =>
      have u1 := (step_nonstatic w w op h rfl).1
      have u2 := (step_nonstatic w' w' op h rfl).1
      obtain ⟨i1, i2⟩ := ih (step w op).2 (step w' op).2 (by rw [u1, u2, hs])
      simp only [List.zip_cons_cons, List.filter_cons, h]
      exact ⟨i1, i2⟩

/-- Rand48: after `init (seed)`, the values returned by the object's member calls — in any interleaving with
calls on the static state — and the object's final state are the same for EVERY prior content of the
object's storage and EVERY static state (`w`, `w'` arbitrary): the sequence is a function of the seed and
of the member calls alone. -/
theorem rand48_seq_function_of_seed (seed : Nat) (ops : List Op) (w w' : World) :
    outsOf (fun op => !Op.touchesStat op) (.r48init seed :: ops) w =
      outsOf (fun op => !Op.touchesStat op) (.r48init seed :: ops) w' ∧
    (run (.r48init seed :: ops) w).1.user = (run (.r48init seed :: ops) w').1.user := by
  have hu : (step w (.r48init seed)).2.user = (step w' (.r48init seed)).2.user := by
    obtain ⟨u, st⟩ := w; obtain ⟨u', st'⟩ := w'; simp only [step]
  obtain ⟨i1, i2⟩ := user_stream_independent_of_static ops _ _ hu
  unfold outsOf at i1 ⊢
  rw [run_cons, run_cons]
  have ho : (step w (.r48init seed)).1 = (step w' (.r48init seed)).1 := by
    obtain ⟨u, st⟩ := w; obtain ⟨u', st'⟩ := w'; simp only [step]
  have ht : Op.touchesStat (.r48init seed) = false := rfl
  simp only [List.zip_cons_cons, List.filter_cons, ht, Bool.not_false, if_true, List.map_cons]
  exact ⟨by rw [ho]; exact congrArg (_ :: ·) i1, i2⟩

/-- TWO live objects: in every interleaving of calls on object `a`, on object `b` and on the static state, the values
returned by the calls on `a` and `a`'s final state do not depend on what `b` and the static state hold — the model has no
state shared between objects (no function-local `static`, no common buffer).  True by construction of `step2`; the tie is
the harness mode `twoObjects` (two live `Rand48` and two live `Rand32` objects, random interleavings, each stream against the
same calls on a lone object and against glibc on a private array). -/
theorem object_stream_independent_of_other_object (cs : List (Bool × Op)) (w w' : World2) (ha : w.a = w'.a) :
    outsOfA cs w = outsOfA cs w' ∧ (run2 cs w).1.a = (run2 cs w').1.a := by
  induction cs generalizing w w' with
  | nil => exact ⟨rfl, ha⟩
  | cons c cs ih =>
    obtain ⟨tag, op⟩ := c
    unfold outsOfA at ih ⊢
    simp only [run2, List.zip_cons_cons, List.filter_cons]
    cases h : Op.touchesStat op with
    | true =>
      have u1 : (step2 w (tag, op)).2.a = w.a := by
        cases tag
        · exact (step_static ⟨w.a, w.stat⟩ ⟨w.a, w.stat⟩ op h rfl).1
        · rfl
      have u2 : (step2 w' (tag, op)).2.a = w'.a := by
        cases tag
        · exact (step_static ⟨w'.a, w'.stat⟩ ⟨w'.a, w'.stat⟩ op h rfl).1
        · rfl
      obtain ⟨i1, i2⟩ := ih (step2 w (tag, op)).2 (step2 w' (tag, op)).2 (by rw [u1, u2, ha])
      simp only [Bool.not_true, Bool.and_false]
      exact ⟨i1, i2⟩
    | false =>
      cases tag with
      | true =>
        obtain ⟨i1, i2⟩ := ih (step2 w (true, op)).2 (step2 w' (true, op)).2 (by simpa [step2] using ha)
        simp only [Bool.not_true, Bool.false_and]
        exact ⟨i1, i2⟩
      | false =>
        obtain ⟨_, o, u⟩ := step_nonstatic ⟨w.a, w.stat⟩ ⟨w'.a, w'.stat⟩ op h ha
        have o' : (step2 w (false, op)).1 = (step2 w' (false, op)).1 := o
        have u' : (step2 w (false, op)).2.a = (step2 w' (false, op)).2.a := u
        obtain ⟨i1, i2⟩ := ih _ _ u'
        simp only [Bool.not_false, Bool.and_true, if_true, List.map_cons]
        exact ⟨by rw [o', i1], i2⟩

example : outsOfA [(false, .r48nexti), (true, .r48nextf), (false, .drand48), (false, .r48nextb)]
      ⟨{ s0 := 1, s1 := 2, s2 := 3 }, { s0 := 4, s1 := 5, s2 := 6 }, staticInit⟩ =
    outsOfA [(false, .r48nexti), (true, .r48nextf), (false, .drand48), (false, .r48nextb)]
      ⟨{ s0 := 1, s1 := 2, s2 := 3 }, { s0 := 0xffff, s1 := 0, s2 := 7 }, { s0 := 9, s1 := 9, s2 := 9 }⟩ :=
  (object_stream_independent_of_other_object _ _ _ rfl).1

/-- non-vacuity / concrete instance: member calls interleaved with static-state calls, started from two
different prior object contents and two different static states -/
example : outsOf (fun op => !Op.touchesStat op) [.r48init 7, .r48nexti, .lrand48, .r48nextf, .srand48 3, .r48nextb]
      ⟨{ s0 := 1, s1 := 2, s2 := 3 }, staticInit⟩ =
    outsOf (fun op => !Op.touchesStat op) [.r48init 7, .r48nexti, .lrand48, .r48nextf, .srand48 3, .r48nextb]
      ⟨{ s0 := 0xffff, s1 := 0xffff, s2 := 0xffff }, { s0 := 9, s1 := 9, s2 := 9 }⟩ :=
  (rand48_seq_function_of_seed 7 _ _ _).1

/-- what `Rand48::init` really stores (ImathRandom.h: `_state[2] = (unsigned short int) (seed & 0xFFFF)`, the same
expression as `_state[0]`): the most significant limb is a COPY of the least significant one, and the state is a
function of the low 32 bits `t` of the scrambled seed only — at most 2^32 of the 2^48 states are reachable by
seeding, all with `state[2] = state[0]`.  (Not excluded by C18's wording — the sequence IS a pure function of the
seed — but almost certainly not what was meant: `(seed >> 32) & 0xFFFF` would use the available 48 bits.) -/
theorem r48Init_limb_duplicated (seed : Nat) :
    let t := (u64 (seed * 0xa5a573a5) ^^^ 0x5a5a5a5a) % 2 ^ 32
    (r48Init seed).s2 = (r48Init seed).s0 ∧
    r48Init seed = { s0 := t % 65536, s1 := t / 65536 % 65536, s2 := t % 65536 } := by
  intro t
  have hm : ∀ x : Nat, x % 65536 % 65536 = x % 65536 := fun x => Nat.mod_mod x 65536
  refine ⟨rfl, ?_⟩
  simp only [r48Init, and_ffff, u16, Nat.shiftRight_eq_div_pow, hm, t]
  congr 1 <;> omega

/-! ## nextf (rangeMin, rangeMax): exact arithmetic only -/

section field
variable {K : Type*} [Field K] [LinearOrder K] [IsStrictOrderedRing K] {σ : Type*} {n : Nat}

/-- over an ordered field, `a * (1 - t) + b * t` with `t ∈ [0,1)` lies in the closed
interval between `a` and `b`, and stays strictly away from `b` when `a ≠ b`.
(The floating-point evaluation adds up to three roundings; that is measured, not proved.) -/
theorem nextf_range_convex (a b t : K) (h0 : 0 ≤ t) (h1 : t < 1) :
    min a b ≤ nextfRange a b t ∧ nextfRange a b t ≤ max a b ∧
    (a < b → nextfRange a b t < b) ∧ (b < a → b < nextfRange a b t) := by
  unfold nextfRange
  have h1' : 0 < 1 - t := by linarith
  refine ⟨?_, ?_, ?_, ?_⟩
  · rcases le_total a b with h | h
    · rw [min_eq_left h]; nlinarith
    · rw [min_eq_right h]; nlinarith
  · rcases le_total a b with h | h
    · rw [max_eq_right h]; nlinarith
    · rw [max_eq_left h]; nlinarith
  · intro h; nlinarith
  · intro h; nlinarith

example : (0 : ℚ) ≤ 1 / 2 ∧ (1 / 2 : ℚ) < 1 ∧ nextfRange (-1 : ℚ) 1 (1 / 2) = 0 := by
  unfold nextfRange; norm_num

/-! ## sphere / gauss samplers: loop-exit postconditions (exact arithmetic, fuel model) -/

theorem length2_nonneg (v : Fin n → K) : 0 ≤ length2 v :=
  Finset.sum_nonneg (fun i _ => mul_self_nonneg (v i))

/-- solidSphereRand: if the loop exits, the returned point is one of the drawn
candidates and satisfies `length2 ≤ 1` (inside the closed unit ball). -/
theorem solidSphereRand_exit (draw : σ → (Fin n → K) × σ) (fuel : Nat) (s : σ) (r : (Fin n → K) × σ)
    (h : solidSphereRand draw fuel s = some r) : length2 r.1 ≤ 1 ∧ ∃ s0, draw s0 = r := by
  induction fuel generalizing s with
  | zero => simp [solidSphereRand] at h
  | succ fuel ih =>
    simp only [solidSphereRand] at h
    split at h
    · exact ih _ h
    · rename_i hc
      cases h
      exact ⟨not_lt.mp hc, s, rfl⟩

/-- hollowSphereRand: if the loop exits, the result is `v / length` for a drawn
candidate `v` with `0 < length ≤ 1` (no division by zero), and when `length` is
the Euclidean length (`length * length = length2 v`) the result has `length2 = 1`. -/
theorem hollowSphereRand_exit (len : (Fin n → K) → K) (hlen : ∀ v, 0 ≤ len v)
    (draw : σ → (Fin n → K) × σ) (fuel : Nat) (s : σ) (r : (Fin n → K) × σ)
    (h : hollowSphereRand len draw fuel s = some r) :
    ∃ s0, 0 < len (draw s0).1 ∧ len (draw s0).1 ≤ 1 ∧
      r = (fun i => (draw s0).1 i / len (draw s0).1, (draw s0).2) ∧
      (len (draw s0).1 * len (draw s0).1 = length2 (draw s0).1 → length2 r.1 = 1) := by
  induction fuel generalizing s with
  | zero => simp [hollowSphereRand] at h
  | succ fuel ih =>
    simp only [hollowSphereRand] at h
    split at h
    · exact ih _ h
    · rename_i hc
      rw [not_or] at hc
      cases h
      have hpos : 0 < len (draw s).1 := lt_of_le_of_ne (hlen _) (Ne.symm hc.2)
      refine ⟨s, hpos, not_lt.mp hc.1, rfl, ?_⟩
      intro hl
      have h0 : len (draw s).1 ≠ 0 := ne_of_gt hpos
      unfold length2 at *
      have : ∀ i, (draw s).1 i / len (draw s).1 * ((draw s).1 i / len (draw s).1) =
          ((draw s).1 i * (draw s).1 i) / (len (draw s).1 * len (draw s).1) := by
        intro i; field_simp
      simp only [this, ← Finset.sum_div, ← hl]
      field_simp

/-- gaussRand's loop: if it exits, `0 < x² + y² < 1` for the accepted pair, so
`log (length2)` is taken of a positive number and the division is by a non-zero number. -/
theorem gaussRandLoop_exit (draw : σ → (K × K) × σ) (fuel : Nat) (s : σ) (r : (K × K) × σ)
    (h : gaussRandLoop draw fuel s = some r) :
    0 < r.1.1 * r.1.1 + r.1.2 * r.1.2 ∧ r.1.1 * r.1.1 + r.1.2 * r.1.2 < 1 ∧ ∃ s0, draw s0 = r := by
  induction fuel generalizing s with
  | zero => simp [gaussRandLoop] at h
  | succ fuel ih =>
    simp only [gaussRandLoop] at h
    split at h
    · exact ih _ h
    · rename_i hc
      rw [not_or] at hc
      cases h
      have hnn : 0 ≤ (draw s).1.1 * (draw s).1.1 + (draw s).1.2 * (draw s).1.2 :=
        add_nonneg (mul_self_nonneg _) (mul_self_nonneg _)
      exact ⟨lt_of_le_of_ne hnn (Ne.symm hc.2), not_le.mp hc.1, s, rfl⟩

/-- gaussSphereRand = hollowSphereRand * gaussRand: a unit vector scaled by `g` has `length2 = g²` -/
theorem gaussSphereRand_length2 (u : Fin n → K) (g : K) (hu : length2 u = 1) :
    length2 (fun i => u i * g) = g * g := by
  have : length2 (fun i => u i * g) = g * g * length2 u := by
    unfold length2; rw [Finset.mul_sum]; congr 1; funext i; ring
  rw [this, hu, mul_one]

end field

/-- over ℝ the expression under gaussRand's `sqrt` is positive, and
`(x * sqrt (-2 log l / l))² ≤ -2 log l` since `x² ≤ l` — the deviate is a
well-defined real number bounded in terms of `l` alone. -/
theorem gaussRand_real (x y : ℝ) (h0 : 0 < x * x + y * y) (h1 : x * x + y * y < 1) :
    0 < -2 * Real.log (x * x + y * y) / (x * x + y * y) ∧
    (x * Real.sqrt (-2 * Real.log (x * x + y * y) / (x * x + y * y))) ^ 2 ≤ -2 * Real.log (x * x + y * y) := by
  have hl := Real.log_neg h0 h1
  have hpos : 0 < -2 * Real.log (x * x + y * y) / (x * x + y * y) := div_pos (by linarith) h0
  refine ⟨hpos, ?_⟩
  rw [mul_pow, Real.sq_sqrt hpos.le]
  have hx : x ^ 2 ≤ x * x + y * y := by nlinarith [mul_self_nonneg y]
  have : x ^ 2 * (-2 * Real.log (x * x + y * y) / (x * x + y * y)) ≤
      (x * x + y * y) * (-2 * Real.log (x * x + y * y) / (x * x + y * y)) :=
    mul_le_mul_of_nonneg_right hx hpos.le
  calc x ^ 2 * (-2 * Real.log (x * x + y * y) / (x * x + y * y))
      ≤ (x * x + y * y) * (-2 * Real.log (x * x + y * y) / (x * x + y * y)) := this
    _ = -2 * Real.log (x * x + y * y) := by
        rw [← mul_div_assoc, mul_div_cancel_left₀ _ (ne_of_gt h0)]

example : (0 : ℝ) < (1 / 2) * (1 / 2) + (1 / 2) * (1 / 2) ∧ ((1 / 2 : ℝ)) * (1 / 2) + (1 / 2) * (1 / 2) < 1 := by
  norm_num

/-- EXACT arithmetic only: if the exact real sum `x² + y²` is at least `2^-149`, then `|x · sqrt (-2 log l / l)| ≤
sqrt (298 log 2) < 15`.  This is NOT a bound on what the C++ computes for an arbitrary generator: there `length2` is the
float-ROUNDED sum, and in the subnormal range a product can round down (`x = 1.67·2^-75`, `y = 0`: `x²` rounds to
`L = 2^-149 < x²`, deviate ≈ 16.9) — see the example after `gaussRand_bound_rand48`.  The statement about the rounded
`length2` is `gaussRand_bound_of_float` below; the residue uses its two instances. -/
theorem gaussRand_real_bound (x y : ℝ) (h0 : (2 : ℝ) ^ (-149 : ℤ) ≤ x * x + y * y) (h1 : x * x + y * y < 1) :
    |x * Real.sqrt (-2 * Real.log (x * x + y * y) / (x * x + y * y))| ≤ 15 := by
  have hp : (0 : ℝ) < (2 : ℝ) ^ (-149 : ℤ) := by positivity
  have hl : 0 < x * x + y * y := lt_of_lt_of_le hp h0
  obtain ⟨_, hsq⟩ := gaussRand_real x y hl h1
  have hlog : Real.log ((2 : ℝ) ^ (-149 : ℤ)) ≤ Real.log (x * x + y * y) := Real.log_le_log hp h0
  rw [Real.log_zpow] at hlog
  have h2 := Real.log_two_lt_d9
  push_cast at hlog
  set a := x * Real.sqrt (-2 * Real.log (x * x + y * y) / (x * x + y * y)) with ha
  have hb : a ^ 2 ≤ 225 := by nlinarith
  exact abs_le.mpr ⟨by nlinarith [sq_nonneg (a - 15), sq_nonneg (a + 15)], by nlinarith [sq_nonneg (a - 15), sq_nonneg (a + 15)]⟩

example : (2 : ℝ) ^ (-149 : ℤ) ≤ (1 / 2) * (1 / 2) + (1 / 2) * (1 / 2) := by
  have : (2 : ℝ) ^ (-149 : ℤ) ≤ 1 := zpow_le_one_of_nonpos₀ (by norm_num) (by norm_num)
  linarith

/-- the bound with the float-rounded `length2` as a SEPARATE variable `L`: if `2^-n ≤ L < 1` and the candidate's
exact square is at most `(1+δ)·L` (δ = the relative rounding of `L = fl (fl (x²) + fl (y²))` in the normal range), then the
argument of the `sqrt` is positive and `(x · sqrt (-2 log L / L))² ≤ (1+δ) · 2n log 2`. -/
theorem gaussRand_bound_of_float (n : ℕ) (x L δ : ℝ) (hδ : 0 ≤ δ) (hL : (2 : ℝ) ^ (-(n : ℤ)) ≤ L) (hL1 : L < 1)
    (hx : x * x ≤ (1 + δ) * L) :
    0 < -2 * Real.log L / L ∧
    (x * Real.sqrt (-2 * Real.log L / L)) ^ 2 ≤ (1 + δ) * (2 * n * Real.log 2) := by
  have hp : (0 : ℝ) < (2 : ℝ) ^ (-(n : ℤ)) := by positivity
  have hl : 0 < L := lt_of_lt_of_le hp hL
  have hneg := Real.log_neg hl hL1
  have hpos : 0 < -2 * Real.log L / L := div_pos (by linarith) hl
  refine ⟨hpos, ?_⟩
  have hlog : Real.log ((2 : ℝ) ^ (-(n : ℤ))) ≤ Real.log L := Real.log_le_log hp hL
  rw [Real.log_zpow] at hlog
  push_cast at hlog
  rw [mul_pow, Real.sq_sqrt hpos.le]
  have h1 : x ^ 2 * (-2 * Real.log L / L) ≤ (1 + δ) * L * (-2 * Real.log L / L) :=
    mul_le_mul_of_nonneg_right (by rw [pow_two]; exact hx) hpos.le
  have h2 : (1 + δ) * L * (-2 * Real.log L / L) = (1 + δ) * (-2 * Real.log L) := by
    field_simp
  have h3 : (1 + δ) * (-2 * Real.log L) ≤ (1 + δ) * (2 * n * Real.log 2) :=
    mul_le_mul_of_nonneg_left (by linarith) (by linarith)
  linarith

/-- what `Rand32` can reach: `nextf (-1, 1) = 2f − 1` exactly, a multiple of `2^-22` (`f = m/2^23`), so an accepted
candidate has `|x| ≥ 2^-22` or `x = 0`, all products are normal floats with relative error ≤ 2^-24, hence
`L ≥ 2^-44 ≥ 2^-46` and `x² ≤ L / (1 − 2^-24)² ≤ (1 + 2^-22) L`: the deviate is at most 8 in absolute value.  (Both
hypotheses are re-measured on every run on the real generator — harness mode `residue`, field `gauss_hyp_bad` — and the
measured maximum of `|gaussRand|` is compared with 8.) -/
theorem gaussRand_bound_rand32 (x L : ℝ) (hL : (2 : ℝ) ^ (-(46 : ℤ)) ≤ L) (hL1 : L < 1)
    (hx : x * x ≤ (1 + 2 ^ (-(22 : ℤ))) * L) : |x * Real.sqrt (-2 * Real.log L / L)| ≤ 8 := by
  have hd : (0 : ℝ) ≤ 2 ^ (-(22 : ℤ)) := by positivity
  obtain ⟨_, h⟩ := gaussRand_bound_of_float 46 x L _ hd (by exact_mod_cast hL) hL1 hx
  have h2 := Real.log_two_lt_d9
  have h0 := Real.log_two_gt_d9
  have hs : (2 : ℝ) ^ (-(22 : ℤ)) ≤ 1 / 4000000 := by norm_num [zpow_neg]
  have hdl : (2 : ℝ) ^ (-(22 : ℤ)) * Real.log 2 ≤ 1 / 4000000 := by
    have := mul_le_mul hs (show Real.log 2 ≤ 1 by linarith) (by linarith) (by norm_num : (0 : ℝ) ≤ 1 / 4000000)
    linarith
  set a := x * Real.sqrt (-2 * Real.log L / L)
  have hb : a ^ 2 ≤ 64 := by
    push_cast at h
    have e : (1 + (2 : ℝ) ^ (-(22 : ℤ))) * (2 * 46 * Real.log 2) = 92 * Real.log 2 + 92 * ((2 : ℝ) ^ (-(22 : ℤ)) * Real.log 2) := by ring
    rw [e] at h
    generalize (2 : ℝ) ^ (-(22 : ℤ)) * Real.log 2 = q at h hdl
    generalize Real.log 2 = t at h h2
    norm_num at h2
    linarith
  exact abs_le.mpr ⟨by nlinarith [sq_nonneg (a - 8), sq_nonneg (a + 8)], by nlinarith [sq_nonneg (a - 8), sq_nonneg (a + 8)]⟩

/-- what `Rand48` can reach: `nextf (-1, 1) = 2f − 1` exactly, a multiple of `2^-51`, converted to `float` (normal range):
`|x| ≥ 2^-51` or `x = 0`, `L ≥ 2^-102`, same relative error: the deviate is at most 12 in absolute value. -/
theorem gaussRand_bound_rand48 (x L : ℝ) (hL : (2 : ℝ) ^ (-(102 : ℤ)) ≤ L) (hL1 : L < 1)
    (hx : x * x ≤ (1 + 2 ^ (-(22 : ℤ))) * L) : |x * Real.sqrt (-2 * Real.log L / L)| ≤ 12 := by
  have hd : (0 : ℝ) ≤ 2 ^ (-(22 : ℤ)) := by positivity
  obtain ⟨_, h⟩ := gaussRand_bound_of_float 102 x L _ hd (by exact_mod_cast hL) hL1 hx
  have h2 := Real.log_two_lt_d9
  have h0 := Real.log_two_gt_d9
  have hs : (2 : ℝ) ^ (-(22 : ℤ)) ≤ 1 / 4000000 := by norm_num [zpow_neg]
  have hdl : (2 : ℝ) ^ (-(22 : ℤ)) * Real.log 2 ≤ 1 / 4000000 := by
    have := mul_le_mul hs (show Real.log 2 ≤ 1 by linarith) (by linarith) (by norm_num : (0 : ℝ) ≤ 1 / 4000000)
    linarith
  set a := x * Real.sqrt (-2 * Real.log L / L)
  have hb : a ^ 2 ≤ 144 := by
    push_cast at h
    have e : (1 + (2 : ℝ) ^ (-(22 : ℤ))) * (2 * 102 * Real.log 2) = 204 * Real.log 2 + 204 * ((2 : ℝ) ^ (-(22 : ℤ)) * Real.log 2) := by ring
    rw [e] at h
    generalize (2 : ℝ) ^ (-(22 : ℤ)) * Real.log 2 = q at h hdl
    generalize Real.log 2 = t at h h2
    norm_num at h2
    linarith
  exact abs_le.mpr ⟨by nlinarith [sq_nonneg (a - 12), sq_nonneg (a + 12)], by nlinarith [sq_nonneg (a - 12), sq_nonneg (a + 12)]⟩

/-- why `gaussRand_real_bound` must not be read with the rounded `length2`: in the subnormal range `L < x²` is possible
(`L = 2^-149`, `x² = 1.25 L`), and then `x² ≤ (1+δ) L` needs `δ` up to 1/2 -/
example : ∃ x L : ℝ, (2 : ℝ) ^ (-(149 : ℤ)) ≤ L ∧ L < 1 ∧ x * x ≤ (3 / 2) * L ∧ L < x * x := by
  refine ⟨Real.sqrt ((5 / 4) * (2 : ℝ) ^ (-(149 : ℤ))), (2 : ℝ) ^ (-(149 : ℤ)), le_refl _, ?_, ?_, ?_⟩
  · exact zpow_lt_one_of_neg₀ (by norm_num) (by norm_num)
  · have hp : (0 : ℝ) < (2 : ℝ) ^ (-(149 : ℤ)) := by positivity
    rw [Real.mul_self_sqrt (by positivity)]; linarith
  · have hp : (0 : ℝ) < (2 : ℝ) ^ (-(149 : ℤ)) := by positivity
    rw [Real.mul_self_sqrt (by positivity)]; linarith
/-- non-vacuity of the hypotheses (Rand32 instance): `x = 1/2`, `L = 1/4` -/
example : (2 : ℝ) ^ (-(46 : ℤ)) ≤ 1 / 4 ∧ (1 / 4 : ℝ) < 1 ∧ (1 / 2 : ℝ) * (1 / 2) ≤ (1 + 2 ^ (-(22 : ℤ))) * (1 / 4) := by
  have hp : (0 : ℝ) ≤ (2 : ℝ) ^ (-(22 : ℤ)) := by positivity
  have h1 : (2 : ℝ) ^ (-(46 : ℤ)) ≤ 1 / 4 := by norm_num [zpow_neg]
  exact ⟨h1, by norm_num, by nlinarith⟩

/-! ### non-vacuity of the loop theorems: concrete exiting runs over ℚ / ℝ -/

/-- a generator whose first candidate (1,1) is rejected and whose second (1/2,1/2) is accepted -/
def demoDraw : Nat → (Fin 2 → ℚ) × Nat := fun s => (if s = 0 then ![1, 1] else ![1 / 2, 1 / 2], s + 1)

example : solidSphereRand demoDraw 5 0 = some (![1 / 2, 1 / 2], 2) := by
  simp [solidSphereRand, demoDraw, length2, Fin.sum_univ_two]; norm_num

/-- (0,0) is rejected (length 0), then (3/5,4/5) has length exactly 1 and is accepted -/
noncomputable def demoDrawR : Nat → (Fin 2 → ℝ) × Nat := fun s => (if s = 0 then ![0, 0] else ![3 / 5, 4 / 5], s + 1)

noncomputable def demoLen (v : Fin 2 → ℝ) : ℝ := Real.sqrt (length2 v)

example : (∀ v, 0 ≤ demoLen v) ∧ (∀ v, demoLen v * demoLen v = length2 v) ∧
    (hollowSphereRand demoLen demoDrawR 5 0).isSome = true := by
  refine ⟨fun v => Real.sqrt_nonneg _, fun v => Real.mul_self_sqrt (length2_nonneg v), ?_⟩
  have l0 : demoLen ![0, 0] = 0 := by simp [demoLen, length2, Fin.sum_univ_two]
  have l1 : demoLen ![3 / 5, 4 / 5] = 1 := by
    have : length2 (![3 / 5, 4 / 5] : Fin 2 → ℝ) = 1 := by simp [length2, Fin.sum_univ_two]; norm_num
    simp [demoLen, this]
  simp [hollowSphereRand, demoDrawR, l0, l1]

def demoDrawG : Nat → (ℚ × ℚ) × Nat := fun s => (if s = 0 then (1, 1) else (1 / 2, 1 / 2), s + 1)

example : gaussRandLoop demoDrawG 5 0 = some ((1 / 2, 1 / 2), 2) := by
  simp [gaussRandLoop, demoDrawG]; norm_num

example : length2 (![3 / 5, 4 / 5] : Fin 2 → ℚ) = 1 := by simp [length2, Fin.sum_univ_two]; norm_num

end ImathVerif.Rand48.C18
