import ImathVerif.Spec.GeoSpec
import ImathVerif.Lemmas.C15Lemmas
import ImathVerif.Gen.C15Line
import ImathVerif.Gen.C15Plane
import ImathVerif.Gen.C15Sphere
import ImathVerif.Gen.C15Algo
/-!
# C15 — line, plane, sphere and triangle primitives satisfy their geometric definitions

`Gen.*` is regenerated from `ImathLine.h`, `ImathLineAlgo.h`, `ImathPlane.h`, `ImathSphere.h`, `ImathVecAlgo.h`
on every run (T = Sym path extraction; `Vec::length()` is the opaque call `Gen.V?.length tmin sqrt`, whose body is
extracted separately).  All statements are over an arbitrary ordered field `α`; the Euclidean length enters
through the hypothesis `LenSpec (Gen.V3.length tmin sqrt)` (`len v ^ 2 = v·v ∧ 0 ≤ len v`), the square root of
`Sphere3::intersectT` through `SqrtSpec sqrt`, and `sin/cos` of `rotatePoint` are arbitrary functions (the
Pythagorean identity is a hypothesis where it is used).  `tmax` is `numeric_limits<T>::max()`: the overflow guards
are part of the model and the theorems say exactly when they fire.  The vocabulary (`dot`, `cross`, `lineAt`,
`OnLine`, `signedDist`, `OnPlane`, `OnSphere`, `InBall`, `InBox`, `InTriangle`, `baryPoint`, `dist2`) is in
`Spec/GeoSpec.lean`.  Rounding is not covered by these theorems (DESIGN.md §3); it is measured by the check.
-/
set_option linter.unusedSectionVars false
set_option linter.unusedSimpArgs false
set_option linter.unusedVariables false
set_option linter.unusedTactic false
set_option linter.unreachableTactic false

namespace ImathVerif.C15
open ImathVerif ImathVerif.Geo

variable {α : Type} [Field α] [LinearOrder α] [IsStrictOrderedRing α]

/-! ## Line3 -/

/-- `Line3::set(p0,p1)` for distinct points: `pos = p0`, `dir` is a unit vector and `p1 − p0 = k·dir` with `k > 0`
(so `p1` is on the line at the positive parameter `k = |p1 − p0|`) -/
theorem Line3_set (tmin : α) (sqrt : α → α) (hlen : LenSpec (Gen.V3.length tmin sqrt)) (p0 p1 : V3 α) (hne : p0 ≠ p1) :
    (Gen.Line3.set tmin sqrt p0 p1).pos = p0 ∧
    dot (Gen.Line3.set tmin sqrt p0 p1).dir (Gen.Line3.set tmin sqrt p0 p1).dir = 1 ∧
    ∃ k, 0 < k ∧ k ^ 2 = dist2 p1 p0 ∧ sub p1 p0 = smul k (Gen.Line3.set tmin sqrt p0 p1).dir := by
  simp only [Gen.Line3.set]
  len_intro hlen L hsq hnn
  have hL : L ≠ 0 := len_ne_zero hsq (sub_ne_zero_of_ne hne)
  have hpos : 0 < L := lt_of_le_of_ne hnn (Ne.symm hL)
  rw [if_neg hL]
  refine ⟨rfl, ?_, L, hpos, ?_, ?_⟩
  · simp only [dot] at hsq ⊢
    field_simp
    linarith
  · simp only [dist2, sub]; exact hsq
  · simp only [sub, smul, V3.mk.injEq]
    refine ⟨?_, ?_, ?_⟩ <;> field_simp

/-- degenerate `set(p,p)`: the direction stays the zero vector (nothing is divided by zero) -/
theorem Line3_set_degenerate (tmin : α) (sqrt : α → α) (hlen : LenSpec (Gen.V3.length tmin sqrt)) (p : V3 α) :
    Gen.Line3.set tmin sqrt p p = ⟨p, zero⟩ := by
  simp only [Gen.Line3.set]
  len_intro hlen L hsq hnn
  have hL : L = 0 := by
    simp only [dot, sub_self, mul_zero, add_zero] at hsq
    exact pow_eq_zero_iff (two_ne_zero) |>.mp hsq
  rw [if_pos hL]
  simp only [zero, sub_self]

theorem Line3_ctor (tmin : α) (sqrt : α → α) (p0 p1 : V3 α) :
    Gen.Line3.ctor tmin sqrt p0 p1 = Gen.Line3.set tmin sqrt p0 p1 := rfl

/-- `operator()(t) = pos + t·dir` -/
theorem Line3_eval (l : Line3 α) (t : α) : Gen.Line3.eval l t = lineAt l t := by
  first
    | rfl
    | (simp only [Gen.Line3.eval, lineAt, V3.mk.injEq]; refine ⟨?_, ?_, ?_⟩ <;> ring)

/-- what `closestPointTo(point)` computes for ANY direction: the point at parameter `(p − pos)·dir` -/
theorem Line3_closestPointToPoint_def (l : Line3 α) (p : V3 α) :
    Gen.Line3.closestPointToPoint l p = lineAt l (dot (sub p l.pos) l.dir) := by
  simp only [Gen.Line3.closestPointToPoint, lineAt, dot, sub, V3.mk.injEq]
  refine ⟨?_, ?_, ?_⟩ <;> ring

/-- for a unit direction it is the foot of the perpendicular: on the line, the connecting segment is perpendicular
to the direction, and no point of the line is nearer -/
theorem Line3_closestPointToPoint (l : Line3 α) (p : V3 α) (hu : dot l.dir l.dir = 1) :
    OnLine l (Gen.Line3.closestPointToPoint l p) ∧
    dot (sub p (Gen.Line3.closestPointToPoint l p)) l.dir = 0 ∧
    ∀ t, dist2 p (Gen.Line3.closestPointToPoint l p) ≤ dist2 p (lineAt l t) := by
  have hperp : dot (sub p (lineAt l (dot (sub p l.pos) l.dir))) l.dir = 0 := by
    simp only [dot, sub, lineAt] at hu ⊢
    linear_combination (-((p.x - l.pos.x) * l.dir.x + (p.y - l.pos.y) * l.dir.y + (p.z - l.pos.z) * l.dir.z)) * hu
  rw [Line3_closestPointToPoint_def]
  exact ⟨⟨_, rfl⟩, hperp, dist2_min_of_perp_point l p _ hperp⟩

/-- `distanceTo(point)` is the length of that segment, hence (unit direction) the minimum distance to the line -/
theorem Line3_distanceToPoint (tmin : α) (sqrt : α → α) (hlen : LenSpec (Gen.V3.length tmin sqrt)) (l : Line3 α) (p : V3 α) :
    0 ≤ Gen.Line3.distanceToPoint tmin sqrt l p ∧
    Gen.Line3.distanceToPoint tmin sqrt l p ^ 2 = dist2 (Gen.Line3.closestPointToPoint l p) p ∧
    (dot l.dir l.dir = 1 → ∀ t, Gen.Line3.distanceToPoint tmin sqrt l p ^ 2 ≤ dist2 p (lineAt l t)) := by
  have h2 : Gen.Line3.distanceToPoint tmin sqrt l p ^ 2 = dist2 (Gen.Line3.closestPointToPoint l p) p := by
    simp only [Gen.Line3.distanceToPoint, Gen.Line3.closestPointToPoint]
    len_intro hlen L hsq hnn
    rw [hsq]; simp only [dist2, sub]
  refine ⟨?_, h2, ?_⟩
  · simp only [Gen.Line3.distanceToPoint]
    len_intro hlen L hsq hnn
    exact hnn
  · intro hu t
    rw [h2]
    have := (Line3_closestPointToPoint l p hu).2.2 t
    have hsym : dist2 (Gen.Line3.closestPointToPoint l p) p = dist2 p (Gen.Line3.closestPointToPoint l p) := by
      simp only [dist2, dot, sub]; ring
    rw [hsym]; exact this

/-- `closestPointTo(line)` (unit directions, as the code assumes).  The result is always a point of `l1`.
Parallel lines are handled: the result is `l1.pos` (every point is a nearest one; nothing is divided by zero in the
C++: the guard `|num| ≥ |denom|·max` fires with `0 ≥ 0`).  Otherwise, with `s = cplParam l1 l2` the parameter of the
foot of the common perpendicular (the segment from `l1(s)` to its nearest point on `l2` is perpendicular to BOTH
directions), the result is `l1(s)` whenever `|s| < tmax`, and is `l1(s)` or — only if `|s| ≥ tmax`, the overflow
guard — `l1.pos`. -/
theorem Line3_closestPointToLine (tmax : α) (l1 l2 : Line3 α) (hu1 : dot l1.dir l1.dir = 1) (hu2 : dot l2.dir l2.dir = 1) :
    OnLine l1 (Gen.Line3.closestPointToLine tmax l1 l2) ∧
    (dot l2.dir l1.dir ^ 2 = 1 → Gen.Line3.closestPointToLine tmax l1 l2 = l1.pos) ∧
    (dot l2.dir l1.dir ^ 2 ≠ 1 →
      (Gen.Line3.closestPointToLine tmax l1 l2 = lineAt l1 (cplParam l1 l2) ∨
        (tmax ≤ |cplParam l1 l2| ∧ Gen.Line3.closestPointToLine tmax l1 l2 = l1.pos)) ∧
      (|cplParam l1 l2| < tmax → Gen.Line3.closestPointToLine tmax l1 l2 = lineAt l1 (cplParam l1 l2)) ∧
      dot (sub (lineAt l1 (cplParam l1 l2)) (Gen.Line3.closestPointToPoint l2 (lineAt l1 (cplParam l1 l2)))) l1.dir = 0 ∧
      dot (sub (lineAt l1 (cplParam l1 l2)) (Gen.Line3.closestPointToPoint l2 (lineAt l1 (cplParam l1 l2)))) l2.dir = 0) := by
  have hle := unit_dot_sq_le l2.dir l1.dir hu2 hu1
  have hpos0 : l1.pos = lineAt l1 0 := by
    cases l1; simp only [lineAt, mul_zero, add_zero]
  -- the two possible results
  have hres : (Gen.Line3.closestPointToLine tmax l1 l2 = lineAt l1 (cplParam l1 l2) ∧
        (|dot l1.dir (sub l1.pos l2.pos) - dot l2.dir l1.dir * dot l2.dir (sub l1.pos l2.pos)| < |dot l2.dir l1.dir * dot l2.dir l1.dir - 1| * tmax
          ∨ 1 ≤ |dot l2.dir l1.dir * dot l2.dir l1.dir - 1|)) ∨
      (Gen.Line3.closestPointToLine tmax l1 l2 = l1.pos ∧
        |dot l2.dir l1.dir * dot l2.dir l1.dir - 1| * tmax ≤ |dot l1.dir (sub l1.pos l2.pos) - dot l2.dir l1.dir * dot l2.dir (sub l1.pos l2.pos)|) := by
    simp only [Gen.Line3.closestPointToLine, cplParam, dot, sub, lineAt]
    split_ifs with h1 h2 h3 h4 h5 h6 h7 h8 h9
    all_goals first
      | (left; refine ⟨rfl, ?_⟩
         first
          | (right; rw [abs_of_nonneg (by linarith)]; linarith)
          | (right; rw [abs_of_neg (by linarith)]; linarith)
          | (left; rw [abs_of_nonneg (by linarith), abs_of_nonneg (by linarith)]; linarith)
          | (left; rw [abs_of_nonneg (by linarith), abs_of_neg (by linarith)]; linarith)
          | (left; rw [abs_of_neg (by linarith), abs_of_nonneg (by linarith)]; linarith)
          | (left; rw [abs_of_neg (by linarith), abs_of_neg (by linarith)]; linarith))
      | (right; refine ⟨by cases l1; rfl, ?_⟩
         first
          | (rw [abs_of_nonneg (by linarith), abs_of_nonneg (by linarith)]; linarith)
          | (rw [abs_of_nonneg (by linarith), abs_of_neg (by linarith)]; linarith)
          | (rw [abs_of_neg (by linarith), abs_of_nonneg (by linarith)]; linarith)
          | (rw [abs_of_neg (by linarith), abs_of_neg (by linarith)]; linarith))
  have habs : dot l2.dir l1.dir ^ 2 ≠ 1 → |cplParam l1 l2| * |dot l2.dir l1.dir * dot l2.dir l1.dir - 1|
      = |dot l1.dir (sub l1.pos l2.pos) - dot l2.dir l1.dir * dot l2.dir (sub l1.pos l2.pos)| ∧ 0 < |dot l2.dir l1.dir * dot l2.dir l1.dir - 1| := by
    intro hnp
    have hden : dot l2.dir l1.dir * dot l2.dir l1.dir - 1 ≠ 0 := fun h => hnp (by linear_combination h)
    refine ⟨?_, abs_pos.mpr hden⟩
    rw [← abs_mul]; congr 1; unfold cplParam; field_simp
  refine ⟨?_, ?_, ?_⟩
  · rcases hres with ⟨h, _⟩ | ⟨h, _⟩
    · exact ⟨_, h⟩
    · exact ⟨0, by rw [h]; exact hpos0⟩
  · intro hpar
    have hD : dot l2.dir l1.dir * dot l2.dir l1.dir - 1 = 0 := by linear_combination hpar
    rcases hres with ⟨h, _⟩ | ⟨h, _⟩
    · rw [h, cplParam, hD, div_zero]; exact hpos0.symm
    · exact h
  · intro hnp
    obtain ⟨hs, hDpos⟩ := habs hnp
    constructor
    · rcases hres with ⟨h, _⟩ | ⟨h, hg⟩
      · exact Or.inl h
      · refine Or.inr ⟨?_, h⟩
        rw [← hs] at hg
        by_contra hlt
        have hlt := not_le.mp hlt
        nlinarith
    refine ⟨?_, by rw [Line3_closestPointToPoint_def]; exact cplParam_perp l1 l2 hu1 hu2 hnp⟩
    · intro hlt
      rcases hres with ⟨h, _⟩ | ⟨h, hg⟩
      · exact h
      · exfalso
        rw [← hs] at hg
        nlinarith

/-! ## closestPoints (ImathLineAlgo.h) -/

/-- the value computed by `closestPoints`, by cases on its guard -/
theorem closestPoints_cases (tmax : α) (l1 l2 : Line3 α) :
    (Gen.LineAlgo.closestPoints tmax l1 l2 = (true, lineAt l1 (cpNum1 l1 l2 / cpDen l1 l2), lineAt l2 (cpNum2 l1 l2 / cpDen l1 l2)) ∧
      (1 < |cpDen l1 l2| ∨ (|cpNum1 l1 l2| < tmax * |cpDen l1 l2| ∧ |cpNum2 l1 l2| < tmax * |cpDen l1 l2|))) ∨
    (Gen.LineAlgo.closestPoints tmax l1 l2 = (false, zero, zero) ∧ |cpDen l1 l2| ≤ 1 ∧
      (tmax * |cpDen l1 l2| ≤ |cpNum1 l1 l2| ∨ tmax * |cpDen l1 l2| ≤ |cpNum2 l1 l2|)) := by
  simp only [Gen.LineAlgo.closestPoints, sabs_eq_abs, cpDen, cpNum1, cpNum2, dot, sub, lineAt, zero]
  split_ifs with h1 h2 h3
  · exact Or.inl ⟨rfl, Or.inl h1⟩
  · exact Or.inl ⟨rfl, Or.inr ⟨h2, h3⟩⟩
  · exact Or.inr ⟨rfl, not_lt.mp h1, Or.inr (not_lt.mp h3)⟩
  · exact Or.inr ⟨rfl, not_lt.mp h1, Or.inl (not_lt.mp h2)⟩


/-- `closestPoints` (unit directions).  `true`: the returned points lie on their lines, the connecting segment is
perpendicular to BOTH directions and is the shortest segment between the lines.  Parallel lines are reported
`false` (nothing is divided by zero: `true` implies `1 − (d1·d2)² ≠ 0` for ANY directions).  `false` happens only for
parallel lines or when a foot parameter reaches `tmax` in absolute value (the overflow guard). -/
theorem LineAlgo_closestPoints (tmax : α) (l1 l2 : Line3 α) (hu1 : dot l1.dir l1.dir = 1) (hu2 : dot l2.dir l2.dir = 1) :
    ((Gen.LineAlgo.closestPoints tmax l1 l2).1 = true →
      OnLine l1 (Gen.LineAlgo.closestPoints tmax l1 l2).2.1 ∧ OnLine l2 (Gen.LineAlgo.closestPoints tmax l1 l2).2.2 ∧
      dot (sub (Gen.LineAlgo.closestPoints tmax l1 l2).2.1 (Gen.LineAlgo.closestPoints tmax l1 l2).2.2) l1.dir = 0 ∧
      dot (sub (Gen.LineAlgo.closestPoints tmax l1 l2).2.1 (Gen.LineAlgo.closestPoints tmax l1 l2).2.2) l2.dir = 0 ∧
      ∀ s t, dist2 (Gen.LineAlgo.closestPoints tmax l1 l2).2.1 (Gen.LineAlgo.closestPoints tmax l1 l2).2.2
              ≤ dist2 (lineAt l1 s) (lineAt l2 t)) ∧
    (dot l1.dir l2.dir ^ 2 = 1 → (Gen.LineAlgo.closestPoints tmax l1 l2).1 = false) ∧
    ((Gen.LineAlgo.closestPoints tmax l1 l2).1 = false →
      dot l1.dir l2.dir ^ 2 = 1 ∨
      ∃ s t, dot (sub (lineAt l1 s) (lineAt l2 t)) l1.dir = 0 ∧ dot (sub (lineAt l1 s) (lineAt l2 t)) l2.dir = 0 ∧
        (tmax ≤ |s| ∨ tmax ≤ |t|)) := by
  rcases closestPoints_cases tmax l1 l2 with ⟨h, hg⟩ | ⟨h, hle, hg⟩
  · have hd : cpDen l1 l2 ≠ 0 := by
      intro h0
      rw [h0, abs_zero, mul_zero] at hg
      rcases hg with hg | ⟨hg, _⟩
      · linarith
      · exact absurd hg (not_lt.mpr (abs_nonneg _))
    obtain ⟨hp1, hp2⟩ := cp_perp l1 l2 hu1 hu2 hd
    rw [h]
    refine ⟨fun _ => ⟨⟨_, rfl⟩, ⟨_, rfl⟩, hp1, hp2, dist2_min_of_perp l1 l2 _ _ hp1 hp2⟩, ?_, fun hf => (by cases hf)⟩
    intro hpar
    exact absurd (show cpDen l1 l2 = 0 by unfold cpDen; linear_combination -hpar) hd
  · rw [h]
    refine ⟨fun hf => (by cases hf), fun _ => rfl, fun _ => ?_⟩
    by_cases hd : cpDen l1 l2 = 0
    · left; unfold cpDen at hd; linear_combination -hd
    · right
      obtain ⟨hp1, hp2⟩ := cp_perp l1 l2 hu1 hu2 hd
      refine ⟨_, _, hp1, hp2, ?_⟩
      have hpos : 0 < |cpDen l1 l2| := abs_pos.mpr hd
      rcases hg with hg | hg
      · left; rw [abs_div, le_div_iff₀ hpos]; exact hg
      · right; rw [abs_div, le_div_iff₀ hpos]; exact hg

/-- never divides by zero, for arbitrary (not necessarily unit) directions -/
theorem LineAlgo_closestPoints_no_div_by_zero (tmax : α) (l1 l2 : Line3 α) :
    (Gen.LineAlgo.closestPoints tmax l1 l2).1 = true → 1 - dot l1.dir l2.dir * dot l1.dir l2.dir ≠ 0 := by
  rcases closestPoints_cases tmax l1 l2 with ⟨h, hg⟩ | ⟨h, hle, hg⟩
  · intro _ h0
    change cpDen l1 l2 = 0 at h0
    rw [h0, abs_zero, mul_zero] at hg
    rcases hg with hg | ⟨hg, _⟩
    · linarith
    · exact absurd hg (not_lt.mpr (abs_nonneg _))
  · rw [h]; intro hf; cases hf

/-! ## Line3::distanceTo(Line3) -/

def Line3_distanceToLine_impl (tmin : α) (sqrt : α → α) (l1 l2 : Line3 α) : α := by
  first
    | exact Gen.Line3.distanceToLine tmin sqrt l1 l2
    | exact Gen.Line3.distanceToLine sqrt l1 l2
    | exact Gen.Line3.distanceToLine l1 l2

theorem Line3_distanceToLine_partial (tmin : α) (sqrt : α → α) (hlen : LenSpec (Gen.V3.length tmin sqrt)) (l1 l2 : Line3 α)
    (hu1 : dot l1.dir l1.dir = 1) (hu2 : dot l2.dir l2.dir = 1) (hperp : dot l1.dir l2.dir = 0) :
    0 ≤ Line3_distanceToLine_impl tmin sqrt l1 l2 ∧
    (∀ s t, Line3_distanceToLine_impl tmin sqrt l1 l2 ^ 2 ≤ dist2 (lineAt l1 s) (lineAt l2 t)) ∧
    (∃ s t, Line3_distanceToLine_impl tmin sqrt l1 l2 ^ 2 = dist2 (lineAt l1 s) (lineAt l2 t)) := by
  have hden : cpDen l1 l2 ≠ 0 := by unfold cpDen; rw [hperp]; norm_num
  obtain ⟨hp1, hp2⟩ := cp_perp l1 l2 hu1 hu2 hden
  have hV := perp_both_sq _ l1.dir l2.dir hp1 hp2
  have hn : dot (cross l1.dir l2.dir) (cross l1.dir l2.dir) = 1 := by rw [lagrange, hu1, hu2, hperp]; ring
  have hDsq : ∀ x : α, (if 0 ≤ x then x else -x) ^ 2 = x ^ 2 := by
    intro x; split_ifs <;> ring
  have hVn : dot (sub (lineAt l1 (cpNum1 l1 l2 / cpDen l1 l2)) (lineAt l2 (cpNum2 l1 l2 / cpDen l1 l2))) (cross l1.dir l2.dir)
      = -((l1.dir.y * l2.dir.z - l1.dir.z * l2.dir.y) * (l2.pos.x - l1.pos.x) + (l1.dir.z * l2.dir.x - l1.dir.x * l2.dir.z) * (l2.pos.y - l1.pos.y)
          + (l1.dir.x * l2.dir.y - l1.dir.y * l2.dir.x) * (l2.pos.z - l1.pos.z)) := by
    simp only [dot, sub, lineAt, cross]; ring
  rw [hn, hVn, mul_one] at hV
  have hD : Line3_distanceToLine_impl tmin sqrt l1 l2 ^ 2
      = dist2 (lineAt l1 (cpNum1 l1 l2 / cpDen l1 l2)) (lineAt l2 (cpNum2 l1 l2 / cpDen l1 l2)) := by
    unfold Line3_distanceToLine_impl dist2
    simp only [Gen.Line3.distanceToLine]
    rw [hDsq, hV]; ring
  refine ⟨?_, fun s t => by rw [hD]; exact dist2_min_of_perp l1 l2 _ _ hp1 hp2 s t, ⟨_, _, hD⟩⟩
  unfold Line3_distanceToLine_impl
  simp only [Gen.Line3.distanceToLine]
  split_ifs with h
  · exact h
  · linarith

end ImathVerif.C15
