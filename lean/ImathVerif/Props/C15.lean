import ImathVerif.Spec.GeoSpec
import ImathVerif.Lemmas.C15Lemmas
import ImathVerif.Lemmas.C15LengthSpec
import ImathVerif.Gen.C15Line
import ImathVerif.Gen.C15Plane
import ImathVerif.Gen.C15PlaneMul
import ImathVerif.Gen.C15Sphere
import ImathVerif.Gen.C15Algo
import Mathlib.Tactic.Tauto
/-!
# C15 — line, plane, sphere and triangle primitives satisfy their geometric definitions

`Gen.*` is regenerated from `ImathLine.h`, `ImathLineAlgo.h`, `ImathPlane.h`, `ImathSphere.h`, `ImathVecAlgo.h`
on every run (T = Sym path extraction; `Vec::length()` is the opaque call `Gen.V?.length tmin tmax sqrt`, whose body is
extracted separately).  All statements are over an arbitrary ordered field `α`; the Euclidean length enters
through the hypothesis `LenSpec (Gen.V3.length tmin tmax sqrt)` (`len v ^ 2 = v·v ∧ 0 ≤ len v`), the square root of
`Sphere3::intersectT` through `SqrtSpec sqrt`, and `sin/cos` of `rotatePoint` are arbitrary functions (the
Pythagorean identity is a hypothesis where it is used).  `tmax` is `numeric_limits<T>::max()`: the overflow guards
are part of the model and the theorems say exactly when they fire.  The vocabulary (`dot`, `cross`, `lineAt`,
`OnLine`, `signedDist`, `OnPlane`, `OnSphere`, `InBall`, `InBox`, `InTriangle`, `baryPoint`, `dist2`) is in
`Spec/GeoSpec.lean`.  Rounding is not covered by these theorems (DESIGN.md §3); it is measured by the check.

Structure: the branching functions get a *cases* theorem first (`closestPoints_cases`, `Plane3_mulM44_cases`, `tri_spec`: what the
extracted tree computes, by named quantities and guards), the geometric statements are then proved from those by
vector algebra (`Lemmas/C15Lemmas.lean`).  Bridging steps use `ring` / `ring_nf` / `linear_combination` (robust against
reordered sums and products, hoisted temporaries, `a/b` spellings); only `tri_spec` matches the guard expressions of the
50-path triangle tree syntactically.  `Line3_distanceToLine` is the full-strength statement of the function that /repo commit 0d82c71 repaired.
-/
set_option linter.unusedSectionVars false
set_option linter.unusedSimpArgs false
set_option linter.unusedVariables false
set_option linter.unusedTactic false
set_option linter.unreachableTactic false

namespace ImathVerif.C15
open ImathVerif ImathVerif.Geo

variable {α : Type} [Field α] [LinearOrder α] [IsStrictOrderedRing α]

/-! ## Line3 -/

/-- `Line3::set(p0,p1)` for distinct points: `pos = p0`, `dir` is a unit vector and `p1 − p0 = k·dir` with `k > 0`
(so `p1` is on the line at the positive parameter `k = |p1 − p0|`) -/
theorem Line3_set (tmin tmax : α) (sqrt : α → α) (hlen : LenSpec (Gen.V3.length tmin tmax sqrt)) (p0 p1 : V3 α) (hne : p0 ≠ p1) :
    (Gen.Line3.set tmin tmax sqrt p0 p1).pos = p0 ∧
    dot (Gen.Line3.set tmin tmax sqrt p0 p1).dir (Gen.Line3.set tmin tmax sqrt p0 p1).dir = 1 ∧
    ∃ k, 0 < k ∧ k ^ 2 = dist2 p1 p0 ∧ sub p1 p0 = smul k (Gen.Line3.set tmin tmax sqrt p0 p1).dir := by
  simp only [Gen.Line3.set]
  len_intro hlen L hsq hnn
  have hL : L ≠ 0 := len_ne_zero hsq (sub_ne_zero_of_ne hne)
  have hpos : 0 < L := lt_of_le_of_ne hnn (Ne.symm hL)
  rw [if_neg hL]
  refine ⟨rfl, ?_, L, hpos, ?_, ?_⟩
  · simp only [dot] at hsq ⊢
    field_simp
    linarith
  · simp only [dist2, sub]; exact hsq
  · simp only [sub, smul, V3.mk.injEq]
    refine ⟨?_, ?_, ?_⟩ <;> field_simp

/-- degenerate `set(p,p)`: the direction stays the zero vector (nothing is divided by zero) -/
theorem Line3_set_degenerate (tmin tmax : α) (sqrt : α → α) (hlen : LenSpec (Gen.V3.length tmin tmax sqrt)) (p : V3 α) :
    Gen.Line3.set tmin tmax sqrt p p = ⟨p, zero⟩ := by
  simp only [Gen.Line3.set]
  len_intro hlen L hsq hnn
  have hL : L = 0 := by
    simp only [dot, sub_self, mul_zero, add_zero] at hsq
    exact pow_eq_zero_iff (two_ne_zero) |>.mp hsq
  rw [if_pos hL]
  simp only [zero, sub_self]

theorem Line3_ctor (tmin tmax : α) (sqrt : α → α) (p0 p1 : V3 α) :
    Gen.Line3.ctor tmin tmax sqrt p0 p1 = Gen.Line3.set tmin tmax sqrt p0 p1 := rfl

/-- `operator()(t) = pos + t·dir` -/
theorem Line3_eval (l : Line3 α) (t : α) : Gen.Line3.eval l t = lineAt l t := by
  first
    | rfl
    | (simp only [Gen.Line3.eval, lineAt, V3.mk.injEq]; refine ⟨?_, ?_, ?_⟩ <;> ring)

/-- `operator* (Line3, Matrix44)` (ImathLine.h): the line through the images of `pos` and `pos + dir`, for EVERY matrix -/
theorem Line3_mulM44_def (tmin tmax : α) (sqrt : α → α) (l : Line3 α) (m : M44 α) :
    Gen.Line3.mulM44 tmin tmax sqrt l m = Gen.Line3.set tmin tmax sqrt (mulM44 l.pos m) (mulM44 (add l.pos l.dir) m) := by
  first
    | rfl
    | (simp only [Gen.Line3.mulM44, Gen.Line3.set, mulM44, add]
       first | rfl | (split_ifs <;> (simp only [Line3.mk.injEq, V3.mk.injEq]; refine ⟨⟨?_, ?_, ?_⟩, ?_, ?_, ?_⟩ <;> ring_nf)))

/-- for an affine matrix that does not collapse the direction: `pos` is mapped to the image of `pos`, the direction is a unit
vector, and the image of EVERY point of the line lies on `line * M` (at the parameter `t·k`, `k > 0` the stretch of the direction) -/
theorem Line3_mulM44 (tmin tmax : α) (sqrt : α → α) (hlen : LenSpec (Gen.V3.length tmin tmax sqrt)) (l : Line3 α) (m : M44 α)
    (haff : Affine m) (hne : mulM44 l.pos m ≠ mulM44 (add l.pos l.dir) m) :
    (Gen.Line3.mulM44 tmin tmax sqrt l m).pos = mulM44 l.pos m ∧
    dot (Gen.Line3.mulM44 tmin tmax sqrt l m).dir (Gen.Line3.mulM44 tmin tmax sqrt l m).dir = 1 ∧
    ∃ k, 0 < k ∧ ∀ t, mulM44 (lineAt l t) m = lineAt (Gen.Line3.mulM44 tmin tmax sqrt l m) (t * k) := by
  rw [Line3_mulM44_def]
  obtain ⟨hpos, hunit, k, hk, _, hdir⟩ := Line3_set tmin tmax sqrt hlen _ _ hne
  refine ⟨hpos, hunit, k, hk, fun t => ?_⟩
  obtain ⟨h03, h13, h23, h33⟩ := haff
  generalize Gen.Line3.set tmin tmax sqrt (mulM44 l.pos m) (mulM44 (add l.pos l.dir) m) = r at *
  cases r with | mk rp rd =>
  simp only at hpos
  subst hpos
  simp only [sub, smul, mulM44, add, V3.mk.injEq, h03, h13, h23, h33, mul_zero, add_zero, zero_add, div_one] at hdir
  obtain ⟨h1, h2, h3⟩ := hdir
  simp only [lineAt, mulM44, h03, h13, h23, h33, mul_zero, add_zero, zero_add, div_one, V3.mk.injEq]
  refine ⟨?_, ?_, ?_⟩
  · linear_combination t * h1
  · linear_combination t * h2
  · linear_combination t * h3

/-- what `closestPointTo(point)` computes for ANY direction: the point at parameter `(p − pos)·dir` -/
theorem Line3_closestPointToPoint_def (l : Line3 α) (p : V3 α) :
    Gen.Line3.closestPointToPoint l p = lineAt l (dot (sub p l.pos) l.dir) := by
  simp only [Gen.Line3.closestPointToPoint, lineAt, dot, sub, V3.mk.injEq]
  refine ⟨?_, ?_, ?_⟩ <;> ring

/-- for a unit direction it is the foot of the perpendicular: on the line, the connecting segment is perpendicular
to the direction, and no point of the line is nearer -/
theorem Line3_closestPointToPoint (l : Line3 α) (p : V3 α) (hu : dot l.dir l.dir = 1) :
    OnLine l (Gen.Line3.closestPointToPoint l p) ∧
    dot (sub p (Gen.Line3.closestPointToPoint l p)) l.dir = 0 ∧
    ∀ t, dist2 p (Gen.Line3.closestPointToPoint l p) ≤ dist2 p (lineAt l t) := by
  have hperp : dot (sub p (lineAt l (dot (sub p l.pos) l.dir))) l.dir = 0 := by
    simp only [dot, sub, lineAt] at hu ⊢
    linear_combination (-((p.x - l.pos.x) * l.dir.x + (p.y - l.pos.y) * l.dir.y + (p.z - l.pos.z) * l.dir.z)) * hu
  rw [Line3_closestPointToPoint_def]
  exact ⟨⟨_, rfl⟩, hperp, dist2_min_of_perp_point l p _ hperp⟩

/-- `distanceTo(point)` is the length of that segment, hence (unit direction) the minimum distance to the line -/
theorem Line3_distanceToPoint (tmin tmax : α) (sqrt : α → α) (hlen : LenSpec (Gen.V3.length tmin tmax sqrt)) (l : Line3 α) (p : V3 α) :
    0 ≤ Gen.Line3.distanceToPoint tmin tmax sqrt l p ∧
    Gen.Line3.distanceToPoint tmin tmax sqrt l p ^ 2 = dist2 (Gen.Line3.closestPointToPoint l p) p ∧
    (dot l.dir l.dir = 1 → ∀ t, Gen.Line3.distanceToPoint tmin tmax sqrt l p ^ 2 ≤ dist2 p (lineAt l t)) := by
  have h2 : Gen.Line3.distanceToPoint tmin tmax sqrt l p ^ 2 = dist2 (Gen.Line3.closestPointToPoint l p) p := by
    simp only [Gen.Line3.distanceToPoint, Gen.Line3.closestPointToPoint]
    len_intro hlen L hsq hnn
    rw [hsq]; simp only [dist2, sub]
  refine ⟨?_, h2, ?_⟩
  · simp only [Gen.Line3.distanceToPoint]
    len_intro hlen L hsq hnn
    exact hnn
  · intro hu t
    rw [h2]
    have := (Line3_closestPointToPoint l p hu).2.2 t
    have hsym : dist2 (Gen.Line3.closestPointToPoint l p) p = dist2 p (Gen.Line3.closestPointToPoint l p) := by
      simp only [dist2, dot, sub]; ring
    rw [hsym]; exact this

/-- `closestPointTo(line)` by cases on its guard, for ARBITRARY directions -/
theorem closestPointToLine_cases (tmax : α) (l1 l2 : Line3 α) :
    (Gen.Line3.closestPointToLine tmax l1 l2 = lineAt l1 (cplNum l1 l2 / cplDen l1 l2) ∧
      (|cplNum l1 l2| < |cplDen l1 l2| * tmax ∨ 1 ≤ |cplDen l1 l2|)) ∨
    (Gen.Line3.closestPointToLine tmax l1 l2 = l1.pos ∧ |cplDen l1 l2| < 1 ∧ |cplDen l1 l2| * tmax ≤ |cplNum l1 l2|) := by
  simp only [Gen.Line3.closestPointToLine, cplNum, cplDen, dot, sub, lineAt]
  split_ifs with h1 h2 h3 h4 h5 h6 h7 h8 h9
  all_goals first
    | (left; refine ⟨by ac_rfl_nf, ?_⟩
       first
        | (right; rw [abs_of_nonneg (by linarith)]; linarith)
        | (right; rw [abs_of_neg (by linarith)]; linarith)
        | (left; rw [abs_of_nonneg (by linarith), abs_of_nonneg (by linarith)]; linarith)
        | (left; rw [abs_of_nonneg (by linarith), abs_of_neg (by linarith)]; linarith)
        | (left; rw [abs_of_neg (by linarith), abs_of_nonneg (by linarith)]; linarith)
        | (left; rw [abs_of_neg (by linarith), abs_of_neg (by linarith)]; linarith))
    | (right; refine ⟨by cases l1; rfl, ?_, ?_⟩
       · first
          | (rw [abs_of_nonneg (by linarith)]; linarith)
          | (rw [abs_of_neg (by linarith)]; linarith)
       · first
          | (rw [abs_of_nonneg (by linarith), abs_of_nonneg (by linarith)]; linarith)
          | (rw [abs_of_nonneg (by linarith), abs_of_neg (by linarith)]; linarith)
          | (rw [abs_of_neg (by linarith), abs_of_nonneg (by linarith)]; linarith)
          | (rw [abs_of_neg (by linarith), abs_of_neg (by linarith)]; linarith))

/-- the guard under which the quotient is formed implies a non-zero denominator -/
theorem cpl_guard_den_ne_zero (tmax : α) (l1 l2 : Line3 α)
    (hg : |cplNum l1 l2| < |cplDen l1 l2| * tmax ∨ 1 ≤ |cplDen l1 l2|) : cplDen l1 l2 ≠ 0 := by
  intro h0
  rw [h0, abs_zero, zero_mul] at hg
  rcases hg with hg | hg
  · exact absurd hg (not_lt.mpr (abs_nonneg _))
  · linarith

/-- `closestPointTo(line)` (unit directions, as the code assumes).  The result is always a point of `l1`.
Parallel lines are handled: the result is `l1.pos` (every point is a nearest one; nothing is divided by zero in the
C++: the guard `|num| ≥ |denom|·max` fires with `0 ≥ 0` — proved from the guard, not from Lean's `x/0 = 0`: see
`closestPointToLine_cases` and `Line3_closestPointToLine_no_div_by_zero`).  Otherwise, with `s = cplParam l1 l2` the parameter of the
foot of the common perpendicular (the segment from `l1(s)` to its nearest point on `l2` is perpendicular to BOTH
directions), the result is `l1(s)` whenever `|s| < tmax`, and is `l1(s)` or — only if `|s| ≥ tmax`, the overflow
guard — `l1.pos`. -/
theorem Line3_closestPointToLine (tmax : α) (l1 l2 : Line3 α) (hu1 : dot l1.dir l1.dir = 1) (hu2 : dot l2.dir l2.dir = 1) :
    OnLine l1 (Gen.Line3.closestPointToLine tmax l1 l2) ∧
    (dot l2.dir l1.dir ^ 2 = 1 → Gen.Line3.closestPointToLine tmax l1 l2 = l1.pos) ∧
    (dot l2.dir l1.dir ^ 2 ≠ 1 →
      (Gen.Line3.closestPointToLine tmax l1 l2 = lineAt l1 (cplParam l1 l2) ∨
        (tmax ≤ |cplParam l1 l2| ∧ Gen.Line3.closestPointToLine tmax l1 l2 = l1.pos)) ∧
      (|cplParam l1 l2| < tmax → Gen.Line3.closestPointToLine tmax l1 l2 = lineAt l1 (cplParam l1 l2)) ∧
      dot (sub (lineAt l1 (cplParam l1 l2)) (Gen.Line3.closestPointToPoint l2 (lineAt l1 (cplParam l1 l2)))) l1.dir = 0 ∧
      dot (sub (lineAt l1 (cplParam l1 l2)) (Gen.Line3.closestPointToPoint l2 (lineAt l1 (cplParam l1 l2)))) l2.dir = 0) := by
  have hle := unit_dot_sq_le l2.dir l1.dir hu2 hu1
  have hpos0 : l1.pos = lineAt l1 0 := by
    cases l1; simp only [lineAt, mul_zero, add_zero]
  -- the two possible results (`closestPointToLine_cases`, which needs no unit directions)
  have hres := closestPointToLine_cases tmax l1 l2
  have habs : dot l2.dir l1.dir ^ 2 ≠ 1 → |cplParam l1 l2| * |cplDen l1 l2| = |cplNum l1 l2| ∧ 0 < |cplDen l1 l2| := by
    intro hnp
    have hden : cplDen l1 l2 ≠ 0 := fun h => hnp (by unfold cplDen at h; linear_combination h)
    refine ⟨?_, abs_pos.mpr hden⟩
    rw [← abs_mul, cplParam_eq]; congr 1; field_simp
  refine ⟨?_, ?_, ?_⟩
  · rcases hres with ⟨h, _⟩ | ⟨h, _, _⟩
    · exact ⟨_, h⟩
    · exact ⟨0, by rw [h]; exact hpos0⟩
  · intro hpar
    have hD : cplDen l1 l2 = 0 := by unfold cplDen; linear_combination hpar
    rcases hres with ⟨h, hg⟩ | ⟨h, _, _⟩
    · exact absurd hD (cpl_guard_den_ne_zero tmax l1 l2 hg)
    · exact h
  · intro hnp
    obtain ⟨hs, hDpos⟩ := habs hnp
    constructor
    · rcases hres with ⟨h, _⟩ | ⟨h, _, hg⟩
      · exact Or.inl h
      · refine Or.inr ⟨?_, h⟩
        rw [← hs] at hg
        by_contra hlt
        have hlt := not_le.mp hlt
        nlinarith
    refine ⟨?_, by rw [Line3_closestPointToPoint_def]; exact cplParam_perp l1 l2 hu1 hu2 hnp⟩
    · intro hlt
      rcases hres with ⟨h, _⟩ | ⟨h, _, hg⟩
      · exact h
      · exfalso
        rw [← hs] at hg
        nlinarith

/-- no division by zero in `closestPointTo(line)`, for arbitrary directions: a zero denominator (parallel unit lines) takes the
guard branch (`0·max ≤ |num|`) and returns `pos`; a result different from `pos` was computed as a quotient under the guard, whose
denominator is not zero -/
theorem Line3_closestPointToLine_no_div_by_zero (tmax : α) (l1 l2 : Line3 α) :
    (cplDen l1 l2 = 0 → Gen.Line3.closestPointToLine tmax l1 l2 = l1.pos ∧ |cplDen l1 l2| * tmax ≤ |cplNum l1 l2|) ∧
    (Gen.Line3.closestPointToLine tmax l1 l2 ≠ l1.pos →
      cplDen l1 l2 ≠ 0 ∧ (|cplNum l1 l2| < |cplDen l1 l2| * tmax ∨ 1 ≤ |cplDen l1 l2|) ∧
      Gen.Line3.closestPointToLine tmax l1 l2 = lineAt l1 (cplNum l1 l2 / cplDen l1 l2)) := by
  rcases closestPointToLine_cases tmax l1 l2 with ⟨h, hg⟩ | ⟨h, _, hg⟩
  · refine ⟨fun h0 => absurd h0 (cpl_guard_den_ne_zero tmax l1 l2 hg), fun _ => ⟨cpl_guard_den_ne_zero tmax l1 l2 hg, hg, h⟩⟩
  · exact ⟨fun _ => ⟨h, hg⟩, fun hne => absurd h hne⟩

/-! ## closestPoints (ImathLineAlgo.h) -/

/-- the value computed by `closestPoints`, by cases on its guard -/
theorem closestPoints_cases (tmax : α) (l1 l2 : Line3 α) :
    (Gen.LineAlgo.closestPoints tmax l1 l2 = (true, lineAt l1 (cpNum1 l1 l2 / cpDen l1 l2), lineAt l2 (cpNum2 l1 l2 / cpDen l1 l2)) ∧
      (1 < |cpDen l1 l2| ∨ (|cpNum1 l1 l2| < tmax * |cpDen l1 l2| ∧ |cpNum2 l1 l2| < tmax * |cpDen l1 l2|))) ∨
    (Gen.LineAlgo.closestPoints tmax l1 l2 = (false, zero, zero) ∧ |cpDen l1 l2| ≤ 1 ∧
      (tmax * |cpDen l1 l2| ≤ |cpNum1 l1 l2| ∨ tmax * |cpDen l1 l2| ≤ |cpNum2 l1 l2|)) := by
  simp only [Gen.LineAlgo.closestPoints, sabs_eq_abs, cpDen, cpNum1, cpNum2, dot, sub, lineAt, zero]
  split_ifs with h1 h2 h3
  · exact Or.inl ⟨by ac_rfl_nf, Or.inl (by ac_exact h1)⟩
  · exact Or.inl ⟨by ac_rfl_nf, Or.inr ⟨by ac_exact h2, by ac_exact h3⟩⟩
  · have h1' := not_lt.mp h1
    have h3' := not_lt.mp h3
    exact Or.inr ⟨rfl, by ac_exact h1', Or.inr (by ac_exact h3')⟩
  · have h1' := not_lt.mp h1
    have h2' := not_lt.mp h2
    exact Or.inr ⟨rfl, by ac_exact h1', Or.inl (by ac_exact h2')⟩


/-- `closestPoints` (unit directions).  `true`: the returned points lie on their lines, the connecting segment is
perpendicular to BOTH directions and is the shortest segment between the lines.  Parallel lines are reported
`false` (nothing is divided by zero: `true` implies `1 − (d1·d2)² ≠ 0` for ANY directions).  `false` happens only for
parallel lines or when a foot parameter reaches `tmax` in absolute value (the overflow guard). -/
theorem LineAlgo_closestPoints (tmax : α) (l1 l2 : Line3 α) (hu1 : dot l1.dir l1.dir = 1) (hu2 : dot l2.dir l2.dir = 1) :
    ((Gen.LineAlgo.closestPoints tmax l1 l2).1 = true →
      OnLine l1 (Gen.LineAlgo.closestPoints tmax l1 l2).2.1 ∧ OnLine l2 (Gen.LineAlgo.closestPoints tmax l1 l2).2.2 ∧
      dot (sub (Gen.LineAlgo.closestPoints tmax l1 l2).2.1 (Gen.LineAlgo.closestPoints tmax l1 l2).2.2) l1.dir = 0 ∧
      dot (sub (Gen.LineAlgo.closestPoints tmax l1 l2).2.1 (Gen.LineAlgo.closestPoints tmax l1 l2).2.2) l2.dir = 0 ∧
      ∀ s t, dist2 (Gen.LineAlgo.closestPoints tmax l1 l2).2.1 (Gen.LineAlgo.closestPoints tmax l1 l2).2.2
              ≤ dist2 (lineAt l1 s) (lineAt l2 t)) ∧
    (dot l1.dir l2.dir ^ 2 = 1 → (Gen.LineAlgo.closestPoints tmax l1 l2).1 = false) ∧
    ((Gen.LineAlgo.closestPoints tmax l1 l2).1 = false →
      dot l1.dir l2.dir ^ 2 = 1 ∨
      ∃ s t, dot (sub (lineAt l1 s) (lineAt l2 t)) l1.dir = 0 ∧ dot (sub (lineAt l1 s) (lineAt l2 t)) l2.dir = 0 ∧
        (tmax ≤ |s| ∨ tmax ≤ |t|)) := by
  rcases closestPoints_cases tmax l1 l2 with ⟨h, hg⟩ | ⟨h, hle, hg⟩
  · have hd : cpDen l1 l2 ≠ 0 := by
      intro h0
      rw [h0, abs_zero, mul_zero] at hg
      rcases hg with hg | ⟨hg, _⟩
      · linarith
      · exact absurd hg (not_lt.mpr (abs_nonneg _))
    obtain ⟨hp1, hp2⟩ := cp_perp l1 l2 hu1 hu2 hd
    rw [h]
    refine ⟨fun _ => ⟨⟨_, rfl⟩, ⟨_, rfl⟩, hp1, hp2, dist2_min_of_perp l1 l2 _ _ hp1 hp2⟩, ?_, fun hf => (by cases hf)⟩
    intro hpar
    exact absurd (show cpDen l1 l2 = 0 by unfold cpDen; linear_combination -hpar) hd
  · rw [h]
    refine ⟨fun hf => (by cases hf), fun _ => rfl, fun _ => ?_⟩
    by_cases hd : cpDen l1 l2 = 0
    · left; unfold cpDen at hd; linear_combination -hd
    · right
      obtain ⟨hp1, hp2⟩ := cp_perp l1 l2 hu1 hu2 hd
      refine ⟨_, _, hp1, hp2, ?_⟩
      have hpos : 0 < |cpDen l1 l2| := abs_pos.mpr hd
      rcases hg with hg | hg
      · left; rw [abs_div, le_div_iff₀ hpos]; exact hg
      · right; rw [abs_div, le_div_iff₀ hpos]; exact hg

/-- never divides by zero, for arbitrary (not necessarily unit) directions -/
theorem LineAlgo_closestPoints_no_div_by_zero (tmax : α) (l1 l2 : Line3 α) :
    (Gen.LineAlgo.closestPoints tmax l1 l2).1 = true → 1 - dot l1.dir l2.dir * dot l1.dir l2.dir ≠ 0 := by
  rcases closestPoints_cases tmax l1 l2 with ⟨h, hg⟩ | ⟨h, hle, hg⟩
  · intro _ h0
    change cpDen l1 l2 = 0 at h0
    rw [h0, abs_zero, mul_zero] at hg
    rcases hg with hg | ⟨hg, _⟩
    · linarith
    · exact absurd hg (not_lt.mpr (abs_nonneg _))
  · rw [h]; intro hf; cases hf

/-- why the overflow guard of `closestPoints` cannot recognise parallel STORED directions (finding
`closestPoints:exactly-parallel-reported-true`): for `dir2 = ±dir1` with `|dir·dir − 1| ≤ δ` (a normalised float vector has `δ` of a
few ulps) the denominator `1 − (d1·d2)²` is bounded by `2δ + δ²` but is ZERO only when `dir·dir = 1` exactly; otherwise the
quotient `n/d` is formed (no guard fires unless `|n| ≥ max·|d|`) -/
theorem cpDen_stored_parallel (l1 l2 : Line3 α) (δ : α) (hd : l2.dir = l1.dir ∨ l2.dir = neg l1.dir)
    (h : |dot l1.dir l1.dir - 1| ≤ δ) :
    |cpDen l1 l2| ≤ 2 * δ + δ ^ 2 ∧ (cpDen l1 l2 = 0 ↔ dot l1.dir l1.dir = 1) := by
  have hq0 := dot_self_nonneg l1.dir
  have hden : cpDen l1 l2 = (1 - dot l1.dir l1.dir) * (1 + dot l1.dir l1.dir) := by
    rcases hd with h2 | h2 <;> (unfold cpDen; rw [h2]; simp only [dot, neg]; ring)
  generalize dot l1.dir l1.dir = q at *
  have hδ : 0 ≤ δ := le_trans (abs_nonneg _) h
  obtain ⟨h1, h2⟩ := abs_le.mp h
  constructor
  · rw [hden, abs_mul]
    have ha : |1 - q| ≤ δ := by rw [abs_sub_comm]; exact h
    have hb : |1 + q| ≤ 2 + δ := by rw [abs_of_nonneg (by linarith)]; linarith
    calc |1 - q| * |1 + q| ≤ δ * (2 + δ) := mul_le_mul ha hb (abs_nonneg _) hδ
      _ = 2 * δ + δ ^ 2 := by ring
  · rw [hden]
    constructor
    · intro h0
      rcases mul_eq_zero.mp h0 with h3 | h3
      · linarith
      · linarith
    · intro h1'; rw [h1']; ring

/-! ## Line3::distanceTo(Line3) -/

/-- `Line3::distanceTo(Line3)` (unit directions): the result is the distance between the lines, i.e. it is non-negative,
no pair of points of the two lines is closer, and some pair realises it (the feet of the common perpendicular; for
parallel lines the distance of `l2.pos` to `l1`); for non-parallel lines it equals `|(p2 − p1)·(d1×d2)| / |d1×d2|`.
(Until /repo commit 0d82c71 the code omitted the division by `|d1×d2|` and returned 0 for parallel lines; this theorem
was the check's reported violation `theorem:Line3_distanceToLine`.) -/
theorem Line3_distanceToLine (tmin tmax : α) (sqrt : α → α) (hlen : LenSpec (Gen.V3.length tmin tmax sqrt)) (l1 l2 : Line3 α)
    (hu1 : dot l1.dir l1.dir = 1) (hu2 : dot l2.dir l2.dir = 1) :
    0 ≤ Gen.Line3.distanceToLine tmin tmax sqrt l1 l2 ∧
    (∀ s t, Gen.Line3.distanceToLine tmin tmax sqrt l1 l2 ^ 2 ≤ dist2 (lineAt l1 s) (lineAt l2 t)) ∧
    (∃ s t, Gen.Line3.distanceToLine tmin tmax sqrt l1 l2 ^ 2 = dist2 (lineAt l1 s) (lineAt l2 t)) ∧
    (cross l1.dir l2.dir ≠ zero → ∀ Lc, 0 ≤ Lc → Lc ^ 2 = dot (cross l1.dir l2.dir) (cross l1.dir l2.dir) →
      Gen.Line3.distanceToLine tmin tmax sqrt l1 l2 * Lc = |dot (sub l2.pos l1.pos) (cross l1.dir l2.dir)|) := by
  -- it is enough to exhibit feet of a common perpendicular whose squared distance is D²
  suffices h : 0 ≤ Gen.Line3.distanceToLine tmin tmax sqrt l1 l2 ∧
      (∃ s t, dot (sub (lineAt l1 s) (lineAt l2 t)) l1.dir = 0 ∧ dot (sub (lineAt l1 s) (lineAt l2 t)) l2.dir = 0 ∧
        Gen.Line3.distanceToLine tmin tmax sqrt l1 l2 ^ 2 = dist2 (lineAt l1 s) (lineAt l2 t)) by
    obtain ⟨h0, s, t, hp1, hp2, hD⟩ := h
    refine ⟨h0, fun s' t' => by rw [hD]; exact dist2_min_of_perp l1 l2 s t hp1 hp2 s' t', ⟨s, t, hD⟩, ?_⟩
    intro hnp Lc hLc0 hLc
    have hV := perp_both_sq (sub (lineAt l1 s) (lineAt l2 t)) l1.dir l2.dir hp1 hp2
    have hVn : dot (sub (lineAt l1 s) (lineAt l2 t)) (cross l1.dir l2.dir) = - dot (sub l2.pos l1.pos) (cross l1.dir l2.dir) := by
      simp only [dot, sub, lineAt, cross]; ring
    have hsq : (Gen.Line3.distanceToLine tmin tmax sqrt l1 l2 * Lc) ^ 2 = |dot (sub l2.pos l1.pos) (cross l1.dir l2.dir)| ^ 2 := by
      rw [mul_pow, hD, hLc, sq_abs]
      have : dist2 (lineAt l1 s) (lineAt l2 t) = dot (sub (lineAt l1 s) (lineAt l2 t)) (sub (lineAt l1 s) (lineAt l2 t)) := rfl
      rw [this, hV, hVn]; ring
    exact (pow_left_inj₀ (mul_nonneg h0 hLc0) (abs_nonneg _) two_ne_zero).mp hsq
  simp only [Gen.Line3.distanceToLine]
  len_intro hlen L hsq hnn
  have hcross : dot (cross l1.dir l2.dir) (cross l1.dir l2.dir) = L ^ 2 := by rw [hsq]; simp only [dot, cross]
  by_cases hL : L = 0
  · -- parallel lines: distance of `l2.pos` to `l1`
    rw [if_pos hL]
    len_intro hlen L' hsq' hnn'
    have hpar : dot l1.dir l2.dir ^ 2 = 1 := by
      have := lagrange l1.dir l2.dir
      rw [hcross, hL, hu1, hu2] at this; linear_combination this
    have hd2 := unit_parallel_eq l1.dir l2.dir hu1 hu2 hpar
    have hp1 : dot (sub (lineAt l1 (dot (sub l2.pos l1.pos) l1.dir)) (lineAt l2 0)) l1.dir = 0 := by
      simp only [dot, sub, lineAt] at hu1 ⊢
      linear_combination ((l2.pos.x - l1.pos.x) * l1.dir.x + (l2.pos.y - l1.pos.y) * l1.dir.y + (l2.pos.z - l1.pos.z) * l1.dir.z) * hu1
    have hp2 : dot (sub (lineAt l1 (dot (sub l2.pos l1.pos) l1.dir)) (lineAt l2 0)) l2.dir = 0 := by
      rw [hd2]
      have : ∀ v : V3 α, dot v (smul (dot l1.dir l2.dir) l1.dir) = dot l1.dir l2.dir * dot v l1.dir := by
        intro v; simp only [dot, smul]; ring
      rw [this, hp1, mul_zero]
    refine ⟨hnn', _, 0, hp1, hp2, ?_⟩
    rw [hsq']; simp only [dist2, dot, sub, lineAt]; ring
  · -- skew or intersecting lines: |w·(d1×d2)| / |d1×d2|
    rw [if_neg hL]
    have hLpos : 0 < L := lt_of_le_of_ne hnn (Ne.symm hL)
    have hden : cpDen l1 l2 ≠ 0 := by
      rw [cpDen_eq l1 l2 hu1 hu2, hcross]; exact pow_ne_zero 2 hL
    obtain ⟨hp1, hp2⟩ := cp_perp l1 l2 hu1 hu2 hden
    have hV := perp_both_sq _ l1.dir l2.dir hp1 hp2
    constructor
    · split_ifs with h
      · exact h
      · linarith
    · refine ⟨_, _, hp1, hp2, ?_⟩
      have hDsq : ∀ x : α, (if 0 ≤ x then x else -x) ^ 2 = x ^ 2 := by
        intro x; split_ifs <;> ring
      rw [hDsq]
      have hVn : dot (sub (lineAt l1 (cpNum1 l1 l2 / cpDen l1 l2)) (lineAt l2 (cpNum2 l1 l2 / cpDen l1 l2))) (cross l1.dir l2.dir)
          = -((l1.dir.y * l2.dir.z - l1.dir.z * l2.dir.y) * (l2.pos.x - l1.pos.x) + (l1.dir.z * l2.dir.x - l1.dir.x * l2.dir.z) * (l2.pos.y - l1.pos.y)
              + (l1.dir.x * l2.dir.y - l1.dir.y * l2.dir.x) * (l2.pos.z - l1.pos.z)) := by
        simp only [dot, sub, lineAt, cross]; ring
      rw [hcross, hVn] at hV
      rw [div_pow, div_eq_iff (pow_ne_zero 2 hL)]
      unfold dist2
      rw [hV]; ring

/-- special case: perpendicular unit directions -/
theorem Line3_distanceToLine_perpendicular (tmin tmax : α) (sqrt : α → α) (hlen : LenSpec (Gen.V3.length tmin tmax sqrt)) (l1 l2 : Line3 α)
    (hu1 : dot l1.dir l1.dir = 1) (hu2 : dot l2.dir l2.dir = 1) (hperp : dot l1.dir l2.dir = 0) :
    Gen.Line3.distanceToLine tmin tmax sqrt l1 l2 = |dot (sub l2.pos l1.pos) (cross l1.dir l2.dir)| := by
  obtain ⟨_, _, _, hf⟩ := Line3_distanceToLine tmin tmax sqrt hlen l1 l2 hu1 hu2
  have hn : dot (cross l1.dir l2.dir) (cross l1.dir l2.dir) = 1 := by rw [lagrange, hu1, hu2, hperp]; ring
  have hnz : cross l1.dir l2.dir ≠ zero := by
    intro h0; rw [h0] at hn; simp only [dot, zero, mul_zero, add_zero] at hn; exact zero_ne_one hn
  have := hf hnz 1 zero_le_one (by rw [hn]; ring)
  rwa [mul_one] at this

/-- the two inputs on which the old code was wrong (it returned 4/5 and 0): the lines `(0,0,0)+s(1,0,0)`,
`(0,0,1)+t(3/5,4/5,0)` are at distance 1 and the parallel lines `(0,0,0)+s(1,0,0)`, `(0,2,0)+t(1,0,0)` at distance 2 -/
theorem Line3_distanceToLine_witness_skew (tmin tmax : α) (sqrt : α → α) (hlen : LenSpec (Gen.V3.length tmin tmax sqrt)) :
    Gen.Line3.distanceToLine tmin tmax sqrt ⟨⟨0, 0, 0⟩, ⟨1, 0, 0⟩⟩ ⟨⟨0, 0, 1⟩, ⟨3 / 5, 4 / 5, 0⟩⟩ = 1 := by
  obtain ⟨_, _, _, hf⟩ := Line3_distanceToLine tmin tmax sqrt hlen ⟨⟨0, 0, 0⟩, ⟨1, 0, 0⟩⟩ ⟨⟨0, 0, 1⟩, ⟨3 / 5, 4 / 5, 0⟩⟩
    (by simp only [dot]; norm_num) (by simp only [dot]; norm_num)
  have hnz : cross (⟨1, 0, 0⟩ : V3 α) ⟨3 / 5, 4 / 5, 0⟩ ≠ zero := by
    simp only [cross, zero, V3.mk.injEq]; norm_num
  have h := hf hnz (4 / 5) (by norm_num) (by simp only [dot, cross]; norm_num)
  simp only [dot, sub, cross] at h
  norm_num at h
  linarith

theorem Line3_distanceToLine_witness_parallel (tmin tmax : α) (sqrt : α → α) (hlen : LenSpec (Gen.V3.length tmin tmax sqrt)) :
    Gen.Line3.distanceToLine tmin tmax sqrt ⟨⟨0, 0, 0⟩, ⟨1, 0, 0⟩⟩ ⟨⟨0, 2, 0⟩, ⟨1, 0, 0⟩⟩ = 2 := by
  obtain ⟨h0, hmin, ⟨s, t, hex⟩, _⟩ := Line3_distanceToLine tmin tmax sqrt hlen ⟨⟨0, 0, 0⟩, ⟨1, 0, 0⟩⟩ ⟨⟨0, 2, 0⟩, ⟨1, 0, 0⟩⟩
    (by simp only [dot]; norm_num) (by simp only [dot]; norm_num)
  have h1 := hmin 0 0
  simp only [dist2, dot, sub, lineAt] at h1 hex
  have h4 : Gen.Line3.distanceToLine tmin tmax sqrt ⟨⟨0, 0, 0⟩, ⟨1, 0, 0⟩⟩ ⟨⟨0, 2, 0⟩, ⟨1, 0, 0⟩⟩ ^ 2 = 4 := by
    apply le_antisymm
    · nlinarith
    · rw [hex]; nlinarith [sq_nonneg (s - t)]
  nlinarith [sq_nonneg (Gen.Line3.distanceToLine tmin tmax sqrt (⟨⟨0, 0, 0⟩, ⟨1, 0, 0⟩⟩ : Line3 α) ⟨⟨0, 2, 0⟩, ⟨1, 0, 0⟩⟩ - 2)]

/-! ## Plane3 -/

/-- plane through three non-collinear points: unit normal, positively parallel to `(p2−p1)×(p3−p1)`, and all three
defining points have signed distance zero -/
theorem Plane3_setPoints (tmin tmax : α) (sqrt : α → α) (hlen : LenSpec (Gen.V3.length tmin tmax sqrt)) (p1 p2 p3 : V3 α)
    (hnc : cross (sub p2 p1) (sub p3 p1) ≠ zero) :
    dot (Gen.Plane3.setPoints tmin tmax sqrt p1 p2 p3).normal (Gen.Plane3.setPoints tmin tmax sqrt p1 p2 p3).normal = 1 ∧
    OnPlane (Gen.Plane3.setPoints tmin tmax sqrt p1 p2 p3) p1 ∧ OnPlane (Gen.Plane3.setPoints tmin tmax sqrt p1 p2 p3) p2 ∧
    OnPlane (Gen.Plane3.setPoints tmin tmax sqrt p1 p2 p3) p3 ∧
    ∃ k, 0 < k ∧ cross (sub p2 p1) (sub p3 p1) = smul k (Gen.Plane3.setPoints tmin tmax sqrt p1 p2 p3).normal := by
  simp only [Gen.Plane3.setPoints]
  len_intro hlen L hsq hnn
  have hL : L ≠ 0 := len_ne_zero hsq (by simpa only [cross, sub] using hnc)
  have hpos : 0 < L := lt_of_le_of_ne hnn (Ne.symm hL)
  rw [if_neg hL]
  simp only [dot] at hsq
  refine ⟨?_, ?_, ?_, ?_, L, hpos, ?_⟩
  · simp only [dot]; field_simp; linarith
  · simp only [OnPlane, signedDist, dot]; ring
  · simp only [OnPlane, signedDist, dot]; field_simp; ring
  · simp only [OnPlane, signedDist, dot]; field_simp; ring
  · simp only [cross, sub, smul, V3.mk.injEq]
    refine ⟨?_, ?_, ?_⟩ <;> field_simp

/-- collinear points: the normal stays the zero vector (nothing is divided by zero) -/
theorem Plane3_setPoints_degenerate (tmin tmax : α) (sqrt : α → α) (hlen : LenSpec (Gen.V3.length tmin tmax sqrt)) (p1 p2 p3 : V3 α)
    (hc : cross (sub p2 p1) (sub p3 p1) = zero) :
    Gen.Plane3.setPoints tmin tmax sqrt p1 p2 p3 = ⟨zero, 0⟩ := by
  simp only [Gen.Plane3.setPoints]
  len_intro hlen L hsq hnn
  simp only [cross, sub, zero, V3.mk.injEq] at hc
  obtain ⟨h1, h2, h3⟩ := hc
  have hL : L = 0 := by
    simp only [dot, h1, h2, h3, mul_zero, add_zero] at hsq
    exact pow_eq_zero_iff (two_ne_zero) |>.mp hsq
  rw [if_pos hL]
  simp only [zero, h1, h2, h3, zero_mul, add_zero]

theorem Plane3_ctorPoints (tmin tmax : α) (sqrt : α → α) (p1 p2 p3 : V3 α) :
    Gen.Plane3.ctorPoints tmin tmax sqrt p1 p2 p3 = Gen.Plane3.setPoints tmin tmax sqrt p1 p2 p3 := rfl

/-- point + (non-zero) normal: unit normal positively parallel to `n`, the defining point has signed distance zero -/
theorem Plane3_setPointNormal (tmin tmax : α) (sqrt : α → α) (hlen : LenSpec (Gen.V3.length tmin tmax sqrt)) (point n : V3 α) (hn : n ≠ zero) :
    dot (Gen.Plane3.setPointNormal tmin tmax sqrt point n).normal (Gen.Plane3.setPointNormal tmin tmax sqrt point n).normal = 1 ∧
    OnPlane (Gen.Plane3.setPointNormal tmin tmax sqrt point n) point ∧
    ∃ k, 0 < k ∧ n = smul k (Gen.Plane3.setPointNormal tmin tmax sqrt point n).normal := by
  simp only [Gen.Plane3.setPointNormal]
  len_intro hlen L hsq hnn
  have hL : L ≠ 0 := len_ne_zero hsq (by cases n; simpa only [zero] using hn)
  have hpos : 0 < L := lt_of_le_of_ne hnn (Ne.symm hL)
  rw [if_neg hL]
  simp only [dot] at hsq
  refine ⟨?_, ?_, L, hpos, ?_⟩
  · simp only [dot]; field_simp; linarith
  · simp only [OnPlane, signedDist, dot]; ring
  · cases n; simp only [smul, V3.mk.injEq]
    refine ⟨?_, ?_, ?_⟩ <;> field_simp

theorem Plane3_ctorPointNormal (tmin tmax : α) (sqrt : α → α) (point n : V3 α) :
    Gen.Plane3.ctorPointNormal tmin tmax sqrt point n = Gen.Plane3.setPointNormal tmin tmax sqrt point n := rfl

/-- (non-zero) normal + distance: unit normal positively parallel to `n`, `distance = d`, and the point `d·normal`
is on the plane -/
theorem Plane3_setNormalDistance (tmin tmax : α) (sqrt : α → α) (hlen : LenSpec (Gen.V3.length tmin tmax sqrt)) (n : V3 α) (d : α) (hn : n ≠ zero) :
    dot (Gen.Plane3.setNormalDistance tmin tmax sqrt n d).normal (Gen.Plane3.setNormalDistance tmin tmax sqrt n d).normal = 1 ∧
    (Gen.Plane3.setNormalDistance tmin tmax sqrt n d).distance = d ∧
    OnPlane (Gen.Plane3.setNormalDistance tmin tmax sqrt n d) (smul d (Gen.Plane3.setNormalDistance tmin tmax sqrt n d).normal) ∧
    ∃ k, 0 < k ∧ n = smul k (Gen.Plane3.setNormalDistance tmin tmax sqrt n d).normal := by
  simp only [Gen.Plane3.setNormalDistance]
  len_intro hlen L hsq hnn
  have hL : L ≠ 0 := len_ne_zero hsq (by cases n; simpa only [zero] using hn)
  have hpos : 0 < L := lt_of_le_of_ne hnn (Ne.symm hL)
  rw [if_neg hL]
  simp only [dot] at hsq
  refine ⟨?_, rfl, ?_, L, hpos, ?_⟩
  · simp only [dot]; field_simp; linarith
  · simp only [OnPlane, signedDist, dot, smul]; field_simp; linear_combination d * hsq.symm
  · cases n; simp only [smul, V3.mk.injEq]
    refine ⟨?_, ?_, ?_⟩ <;> field_simp

theorem Plane3_ctorNormalDistance (tmin tmax : α) (sqrt : α → α) (n : V3 α) (d : α) :
    Gen.Plane3.ctorNormalDistance tmin tmax sqrt n d = Gen.Plane3.setNormalDistance tmin tmax sqrt n d := rfl

/-- `distanceTo` is the signed distance `normal·p − distance` -/
theorem Plane3_distanceTo (pl : Plane3 α) (p : V3 α) : Gen.Plane3.distanceTo pl p = signedDist pl p := by
  simp only [Gen.Plane3.distanceTo, signedDist, dot]; ring

/-- `reflectPoint p = p − 2·dist(p)·normal`; for a unit normal it is an involution that negates the signed distance
(so the midpoint of `p` and its image lies on the plane and the connecting segment is parallel to the normal) -/
theorem Plane3_reflectPoint (pl : Plane3 α) (p : V3 α) :
    Gen.Plane3.reflectPoint pl p = sub p (smul (2 * signedDist pl p) pl.normal) ∧
    (dot pl.normal pl.normal = 1 →
      signedDist pl (Gen.Plane3.reflectPoint pl p) = - signedDist pl p ∧
      Gen.Plane3.reflectPoint pl (Gen.Plane3.reflectPoint pl p) = p) := by
  refine ⟨?_, fun hu => ⟨?_, ?_⟩⟩
  · simp only [Gen.Plane3.reflectPoint, signedDist, dot, sub, smul, V3.mk.injEq]
    refine ⟨?_, ?_, ?_⟩ <;> ring
  · simp only [Gen.Plane3.reflectPoint, signedDist, dot] at hu ⊢
    linear_combination (-2 * (p.x * pl.normal.x + p.y * pl.normal.y + p.z * pl.normal.z - pl.distance)) * hu
  · cases p with | mk px py pz =>
    simp only [Gen.Plane3.reflectPoint, dot, V3.mk.injEq] at hu ⊢
    refine ⟨?_, ?_, ?_⟩
    · linear_combination (4 * pl.normal.x * (px * pl.normal.x + py * pl.normal.y + pz * pl.normal.z - pl.distance)) * hu
    · linear_combination (4 * pl.normal.y * (px * pl.normal.x + py * pl.normal.y + pz * pl.normal.z - pl.distance)) * hu
    · linear_combination (4 * pl.normal.z * (px * pl.normal.x + py * pl.normal.y + pz * pl.normal.z - pl.distance)) * hu

/-- `reflectVector v = 2(n·v)n − v`: what the CODE does (the normal component is kept, the tangential component is negated — the
negative of the mirror image); for a unit normal it is an involution and preserves length.  The property text's "negates signed
distance" does NOT hold for it: `Plane3_reflectVector_keeps_normal_component_witness`, finding
`reflectVector:normal-component-kept-not-negated`. -/
theorem Plane3_reflectVector (pl : Plane3 α) (v : V3 α) :
    Gen.Plane3.reflectVector pl v = sub (smul (2 * dot pl.normal v) pl.normal) v ∧
    (dot pl.normal pl.normal = 1 →
      dot pl.normal (Gen.Plane3.reflectVector pl v) = dot pl.normal v ∧
      dot (Gen.Plane3.reflectVector pl v) (Gen.Plane3.reflectVector pl v) = dot v v ∧
      Gen.Plane3.reflectVector pl (Gen.Plane3.reflectVector pl v) = v) := by
  refine ⟨?_, fun hu => ⟨?_, ?_, ?_⟩⟩
  · simp only [Gen.Plane3.reflectVector, dot, sub, smul, V3.mk.injEq]
    refine ⟨?_, ?_, ?_⟩ <;> ring
  · simp only [Gen.Plane3.reflectVector, dot] at hu ⊢
    linear_combination (2 * (pl.normal.x * v.x + pl.normal.y * v.y + pl.normal.z * v.z)) * hu
  · simp only [Gen.Plane3.reflectVector, dot] at hu ⊢
    linear_combination (4 * (pl.normal.x * v.x + pl.normal.y * v.y + pl.normal.z * v.z) ^ 2) * hu
  · cases v with | mk vx vy vz =>
    simp only [Gen.Plane3.reflectVector, dot, V3.mk.injEq] at hu ⊢
    refine ⟨?_, ?_, ?_⟩
    · linear_combination (4 * pl.normal.x * (pl.normal.x * vx + pl.normal.y * vy + pl.normal.z * vz)) * hu
    · linear_combination (4 * pl.normal.y * (pl.normal.x * vx + pl.normal.y * vy + pl.normal.z * vz)) * hu
    · linear_combination (4 * pl.normal.z * (pl.normal.x * vx + pl.normal.y * vy + pl.normal.z * vz)) * hu

/-- line–plane `intersectT`: for a line not parallel to the plane the result is `true` with THE parameter whose point
lies on the plane; a parallel line (`normal·dir = 0`) is reported `false` (nothing is divided by zero) -/
theorem Plane3_intersectT (pl : Plane3 α) (l : Line3 α) :
    (dot pl.normal l.dir ≠ 0 →
      (Gen.Plane3.intersectT pl l).1 = true ∧ OnPlane pl (lineAt l (Gen.Plane3.intersectT pl l).2) ∧
      ∀ t, OnPlane pl (lineAt l t) → t = (Gen.Plane3.intersectT pl l).2) ∧
    (dot pl.normal l.dir = 0 → (Gen.Plane3.intersectT pl l).1 = false) := by
  simp only [Gen.Plane3.intersectT, dot, OnPlane, signedDist, lineAt]
  constructor
  · intro hd
    rw [if_neg hd]
    refine ⟨rfl, ?_, ?_⟩
    · simp only []; field_simp; ring
    · intro t ht
      simp only []
      field_simp
      linear_combination ht
  · intro hd
    rw [if_pos hd]

/-- `intersect` returns the same verdict and the point at the parameter of `intersectT`, which lies on the line and
on the plane -/
theorem Plane3_intersect (pl : Plane3 α) (l : Line3 α) :
    (Gen.Plane3.intersect pl l).1 = (Gen.Plane3.intersectT pl l).1 ∧
    ((Gen.Plane3.intersect pl l).1 = true →
      (Gen.Plane3.intersect pl l).2 = lineAt l (Gen.Plane3.intersectT pl l).2 ∧
      OnLine l (Gen.Plane3.intersect pl l).2 ∧ OnPlane pl (Gen.Plane3.intersect pl l).2) := by
  by_cases hd : dot pl.normal l.dir = 0
  · have hd' := hd
    simp only [dot] at hd'
    constructor
    · simp only [Gen.Plane3.intersect, Gen.Plane3.intersectT, if_pos hd']
    · intro h
      simp only [Gen.Plane3.intersect, if_pos hd'] at h
      cases h
  · have hT := (Plane3_intersectT pl l).1 hd
    have hd' := hd
    simp only [dot] at hd'
    have hpt : (Gen.Plane3.intersect pl l).2 = lineAt l (Gen.Plane3.intersectT pl l).2 := by
      simp only [Gen.Plane3.intersect, Gen.Plane3.intersectT, if_neg hd', lineAt]
    refine ⟨?_, fun _ => ⟨hpt, ⟨_, hpt⟩, ?_⟩⟩
    · simp only [Gen.Plane3.intersect, Gen.Plane3.intersectT, if_neg hd']
    · rw [hpt]; exact hT.2.1

/-- unary minus of a plane with unit normal: the same point set with the opposite orientation -/
theorem Plane3_neg (tmin tmax : α) (sqrt : α → α) (hlen : LenSpec (Gen.V3.length tmin tmax sqrt)) (pl : Plane3 α)
    (hu : dot pl.normal pl.normal = 1) :
    Gen.Plane3.neg tmin tmax sqrt pl = ⟨neg pl.normal, -pl.distance⟩ ∧
    ∀ p, signedDist (Gen.Plane3.neg tmin tmax sqrt pl) p = - signedDist pl p := by
  have h1 : Gen.Plane3.neg tmin tmax sqrt pl = ⟨neg pl.normal, -pl.distance⟩ := by
    simp only [Gen.Plane3.neg]
    len_intro hlen L hsq hnn
    have hL : L = 1 := by
      apply len_unit _ hnn
      rw [hsq]; simp only [dot] at hu ⊢; linear_combination hu
    subst hL
    simp only [one_ne_zero, if_false, div_one, neg]
  refine ⟨h1, fun p => ?_⟩
  rw [h1]; simp only [signedDist, dot, neg]; ring


/-! ## operator* (Plane3, Matrix44) -/

/-- the plane through the images of `point = d·n`, `point + D×n`, `point + D` -/
def planeVia (tmin tmax : α) (sqrt : α → α) (pl : Plane3 α) (m : M44 α) (D : V3 α) : Plane3 α :=
  Gen.Plane3.setPoints tmin tmax sqrt (mulM44 (smul pl.distance pl.normal) m)
    (mulM44 (add (smul pl.distance pl.normal) (cross D pl.normal)) m) (mulM44 (add (smul pl.distance pl.normal) D) m)

theorem Plane3_mulM44_cases (tmin tmax : α) (sqrt : α → α) (pl : Plane3 α) (m : M44 α) :
    ∃ D, (D = cross ⟨1, 0, 0⟩ pl.normal ∨ D = cross ⟨0, 1, 0⟩ pl.normal ∨ D = cross ⟨0, 0, 1⟩ pl.normal) ∧
      dot (cross ⟨1, 0, 0⟩ pl.normal) (cross ⟨1, 0, 0⟩ pl.normal) ≤ dot D D ∧
      dot (cross ⟨0, 1, 0⟩ pl.normal) (cross ⟨0, 1, 0⟩ pl.normal) ≤ dot D D ∧
      dot (cross ⟨0, 0, 1⟩ pl.normal) (cross ⟨0, 0, 1⟩ pl.normal) ≤ dot D D ∧
      Gen.Plane3.mulM44 tmin tmax sqrt pl m = planeVia tmin tmax sqrt pl m D := by
  by_cases c1 : dot (cross ⟨1, 0, 0⟩ pl.normal) (cross ⟨1, 0, 0⟩ pl.normal) < dot (cross ⟨0, 1, 0⟩ pl.normal) (cross ⟨0, 1, 0⟩ pl.normal)
  · by_cases c2 : dot (cross ⟨0, 1, 0⟩ pl.normal) (cross ⟨0, 1, 0⟩ pl.normal) < dot (cross ⟨0, 0, 1⟩ pl.normal) (cross ⟨0, 0, 1⟩ pl.normal)
    · refine ⟨cross ⟨0, 0, 1⟩ pl.normal, Or.inr (Or.inr rfl), by linarith, by linarith, le_refl _, ?_⟩
      simp only [dot, cross] at c1 c2
      (simp only [Gen.Plane3.mulM44, planeVia, dot, cross, mulM44, add, sub, smul, if_pos c1, if_pos c2]) <;> ring_nf
    · refine ⟨cross ⟨0, 1, 0⟩ pl.normal, Or.inr (Or.inl rfl), by linarith, le_refl _, by linarith, ?_⟩
      simp only [dot, cross] at c1 c2
      (simp only [Gen.Plane3.mulM44, planeVia, dot, cross, mulM44, add, sub, smul, if_pos c1, if_neg c2]) <;> ring_nf
  · by_cases c3 : dot (cross ⟨1, 0, 0⟩ pl.normal) (cross ⟨1, 0, 0⟩ pl.normal) < dot (cross ⟨0, 0, 1⟩ pl.normal) (cross ⟨0, 0, 1⟩ pl.normal)
    · refine ⟨cross ⟨0, 0, 1⟩ pl.normal, Or.inr (Or.inr rfl), by linarith, by linarith, le_refl _, ?_⟩
      simp only [dot, cross] at c1 c3
      (simp only [Gen.Plane3.mulM44, planeVia, dot, cross, mulM44, add, sub, smul, if_neg c1, if_pos c3]) <;> ring_nf
    · refine ⟨cross ⟨1, 0, 0⟩ pl.normal, Or.inl rfl, le_refl _, by linarith, by linarith, ?_⟩
      simp only [dot, cross] at c1 c3
      (simp only [Gen.Plane3.mulM44, planeVia, dot, cross, mulM44, add, sub, smul, if_neg c1, if_neg c3]) <;> ring_nf

/-- `plane * M` for a plane with unit normal and a non-singular AFFINE `M` (last column `(0,0,0,1)ᵀ`): the result has a
unit normal and the signed distance of every transformed point is a POSITIVE multiple `κ` of `det(M₃ₓ₃)` times the
original signed distance.  Hence `p` on the plane ⇒ `p*M` on `plane*M` (it contains the transformed points of the
plane), and for `det > 0` every point stays on the same side (for `det < 0` the sides are swapped). -/
theorem Plane3_mulM44 (tmin tmax : α) (sqrt : α → α) (hlen : LenSpec (Gen.V3.length tmin tmax sqrt)) (pl : Plane3 α) (m : M44 α)
    (hu : dot pl.normal pl.normal = 1) (haff : Affine m) (hdet : det3 m ≠ 0) :
    dot (Gen.Plane3.mulM44 tmin tmax sqrt pl m).normal (Gen.Plane3.mulM44 tmin tmax sqrt pl m).normal = 1 ∧
    ∃ κ, 0 < κ ∧ ∀ p, signedDist (Gen.Plane3.mulM44 tmin tmax sqrt pl m) (mulM44 p m) = κ * det3 m * signedDist pl p := by
  obtain ⟨D, hD, h1, h2, h3, heq⟩ := Plane3_mulM44_cases tmin tmax sqrt pl m
  have hDn : dot D pl.normal = 0 := by
    rcases hD with h | h | h <;> (rw [h]; simp only [dot, cross]; ring)
  have hDpos : 0 < dot D D := by
    have hsum : dot (cross ⟨1, 0, 0⟩ pl.normal) (cross ⟨1, 0, 0⟩ pl.normal) + dot (cross ⟨0, 1, 0⟩ pl.normal) (cross ⟨0, 1, 0⟩ pl.normal)
        + dot (cross ⟨0, 0, 1⟩ pl.normal) (cross ⟨0, 0, 1⟩ pl.normal) = 2 * dot pl.normal pl.normal := by
      simp only [dot, cross]; ring
    rw [hu] at hsum
    linarith
  have hnc := xformNormal_ne_zero pl.normal pl.distance m D haff hdet hu hDn hDpos
  obtain ⟨hunit, hP0, _, _, k, hk, hkN⟩ := Plane3_setPoints tmin tmax sqrt hlen _ _ _ hnc
  rw [heq]
  refine ⟨hunit, dot D D / k, div_pos hDpos hk, fun p => ?_⟩
  have hcore := plane_xform_core pl.normal pl.distance m D p haff
  have e1 : dot pl.normal (sub p (smul pl.distance pl.normal)) = signedDist pl p := by
    simp only [dot, sub, smul, signedDist] at hu ⊢; linear_combination (-pl.distance) * hu
  rw [hDn, e1, zero_mul, sub_zero] at hcore
  have e2 : ∀ v, dot (xformNormal pl.normal pl.distance m D) v = k * dot (planeVia tmin tmax sqrt pl m D).normal v := by
    intro v
    unfold xformNormal planeVia
    rw [hkN]; simp only [dot, smul]; ring
  have e3 : signedDist (planeVia tmin tmax sqrt pl m D) (mulM44 p m)
      = dot (planeVia tmin tmax sqrt pl m D).normal (sub (mulM44 p m) (mulM44 (smul pl.distance pl.normal) m)) := by
    have h0 : signedDist (planeVia tmin tmax sqrt pl m D) (mulM44 (smul pl.distance pl.normal) m) = 0 := hP0
    simp only [signedDist, dot, sub] at h0 ⊢
    linear_combination h0
  rw [e3]
  rw [e2] at hcore
  field_simp
  linear_combination hcore

/-- corollary: `plane * M` contains the image of every point of the plane, and only those -/
theorem Plane3_mulM44_contains (tmin tmax : α) (sqrt : α → α) (hlen : LenSpec (Gen.V3.length tmin tmax sqrt)) (pl : Plane3 α) (m : M44 α)
    (hu : dot pl.normal pl.normal = 1) (haff : Affine m) (hdet : det3 m ≠ 0) (p : V3 α) :
    OnPlane (Gen.Plane3.mulM44 tmin tmax sqrt pl m) (mulM44 p m) ↔ OnPlane pl p := by
  obtain ⟨_, κ, hκ, h⟩ := Plane3_mulM44 tmin tmax sqrt hlen pl m hu haff hdet
  unfold OnPlane
  rw [h p]
  constructor
  · intro h0
    rcases mul_eq_zero.mp h0 with h1 | h1
    · rcases mul_eq_zero.mp h1 with h2 | h2
      · exact absurd h2 (ne_of_gt hκ)
      · exact absurd h2 hdet
    · exact h1
  · intro h0; rw [h0, mul_zero]

/-- corollary: an orientation-preserving `M` keeps every point on the same side of the plane -/
theorem Plane3_mulM44_sides (tmin tmax : α) (sqrt : α → α) (hlen : LenSpec (Gen.V3.length tmin tmax sqrt)) (pl : Plane3 α) (m : M44 α)
    (hu : dot pl.normal pl.normal = 1) (haff : Affine m) (hdet : 0 < det3 m) (p : V3 α) :
    (0 < signedDist (Gen.Plane3.mulM44 tmin tmax sqrt pl m) (mulM44 p m) ↔ 0 < signedDist pl p) ∧
    (signedDist (Gen.Plane3.mulM44 tmin tmax sqrt pl m) (mulM44 p m) < 0 ↔ signedDist pl p < 0) := by
  obtain ⟨_, κ, hκ, h⟩ := Plane3_mulM44 tmin tmax sqrt hlen pl m hu haff (ne_of_gt hdet)
  rw [h p]
  have hpos : 0 < κ * det3 m := mul_pos hκ hdet
  constructor
  · constructor
    · intro h0
      by_contra hc
      have := mul_nonpos_of_nonneg_of_nonpos (le_of_lt hpos) (not_lt.mp hc)
      linarith
    · intro h0; exact mul_pos hpos h0
  · constructor
    · intro h0
      by_contra hc
      have := mul_nonneg (le_of_lt hpos) (not_lt.mp hc)
      linarith
    · intro h0; exact mul_neg_of_pos_of_neg hpos h0

/-! `Plane3_mulM44` covers non-singular AFFINE matrices with `m[3][3] = 1`.  Projective and singular matrices: the theorems
below (`Plane3_mulM44_projective` and its corollaries) hold for EVERY 4×4 matrix under the single hypothesis that the homogeneous
`w` of the three points the code rebuilds the plane from does not vanish (`MulM44Defined`; for an affine matrix it is `1`).
Not covered: a construction point with `w = 0` (the C++ divides by zero there), and a statement about "sides" for projective
maps (the sign relation is in `Plane3_mulM44_projective`; which side a point ends up on depends on the signs of the `w`s). -/

/-- `plane * M` for EVERY 4×4 matrix `M` (projective, singular, anything), for a plane with unit normal, as long as the
homogeneous `w` of the three points the code rebuilds the plane from does not vanish (`MulM44Defined`).  The result is the zero
plane `⟨0, 0⟩` (collinear images; nothing is divided by zero) or has a unit normal, and there are `κ ≥ 0` and `W ≠ 0` (the product
of the three construction `w`s) with
`signedDist (plane*M) (p*M) · (w(p)·W) = κ · det M · signedDist plane p` for every point `p` with `w(p) ≠ 0`;
`κ > 0` and the normal is a unit vector when `det M ≠ 0`.  For an affine `M` all `w`s are 1 and `det M = det3 M`: this is
`Plane3_mulM44`. -/
theorem Plane3_mulM44_projective (tmin tmax : α) (sqrt : α → α) (hlen : LenSpec (Gen.V3.length tmin tmax sqrt)) (pl : Plane3 α) (m : M44 α)
    (hu : dot pl.normal pl.normal = 1) (hw : MulM44Defined pl m) :
    (Gen.Plane3.mulM44 tmin tmax sqrt pl m = ⟨zero, 0⟩ ∨
      dot (Gen.Plane3.mulM44 tmin tmax sqrt pl m).normal (Gen.Plane3.mulM44 tmin tmax sqrt pl m).normal = 1) ∧
    ∃ κ W, 0 ≤ κ ∧ W ≠ 0 ∧
      (det4 m ≠ 0 → 0 < κ ∧ dot (Gen.Plane3.mulM44 tmin tmax sqrt pl m).normal (Gen.Plane3.mulM44 tmin tmax sqrt pl m).normal = 1) ∧
      ∀ p, wOf p m ≠ 0 →
        signedDist (Gen.Plane3.mulM44 tmin tmax sqrt pl m) (mulM44 p m) * (wOf p m * W) = κ * det4 m * signedDist pl p := by
  obtain ⟨D, hD, h1, h2, h3, heq⟩ := Plane3_mulM44_cases tmin tmax sqrt pl m
  have hDn : dot D pl.normal = 0 := by
    rcases hD with h | h | h <;> (rw [h]; simp only [dot, cross]; ring)
  have hDpos : 0 < dot D D := by
    have hsum : dot (cross ⟨1, 0, 0⟩ pl.normal) (cross ⟨1, 0, 0⟩ pl.normal) + dot (cross ⟨0, 1, 0⟩ pl.normal) (cross ⟨0, 1, 0⟩ pl.normal)
        + dot (cross ⟨0, 0, 1⟩ pl.normal) (cross ⟨0, 0, 1⟩ pl.normal) = 2 * dot pl.normal pl.normal := by
      simp only [dot, cross]; ring
    rw [hu] at hsum
    linarith
  obtain ⟨hw0, hwD⟩ := hw
  obtain ⟨hw1, hw2⟩ := hwD D hD ⟨h1, h2, h3⟩
  have e1 : ∀ p, dot pl.normal (sub p (smul pl.distance pl.normal)) = signedDist pl p := by
    intro p; simp only [dot, sub, smul, signedDist] at hu ⊢; linear_combination (-pl.distance) * hu
  -- the projective core identity, with `D ⟂ n` and the unit normal
  have hcore : ∀ p, wOf p m ≠ 0 →
      dot (xformNormal pl.normal pl.distance m D) (sub (mulM44 p m) (mulM44 (smul pl.distance pl.normal) m))
        * (wOf p m * (wOf (smul pl.distance pl.normal) m * wOf (add (smul pl.distance pl.normal) (cross D pl.normal)) m
            * wOf (add (smul pl.distance pl.normal) D) m))
        = det4 m * dot D D * signedDist pl p := by
    intro p hp
    have := plane_xform_core_proj pl.normal pl.distance m D p hw0 hw1 hw2 hp
    rw [hDn, e1, zero_mul, sub_zero] at this
    linear_combination this
  have hW : wOf (smul pl.distance pl.normal) m * wOf (add (smul pl.distance pl.normal) (cross D pl.normal)) m
      * wOf (add (smul pl.distance pl.normal) D) m ≠ 0 := mul_ne_zero (mul_ne_zero hw0 hw1) hw2
  rw [heq]
  by_cases hN : xformNormal pl.normal pl.distance m D = zero
  · -- collinear images: the zero plane; then `det M = 0`
    have hz : planeVia tmin tmax sqrt pl m D = ⟨zero, 0⟩ := Plane3_setPoints_degenerate tmin tmax sqrt hlen _ _ _ hN
    have hdet0 : det4 m = 0 := by
      -- a point off the plane whose `w` does not vanish: `point + n` or `point + 2n`
      have hk : ∀ c : α, wOf (add (smul pl.distance pl.normal) (smul c pl.normal)) m
          = wOf (smul pl.distance pl.normal) m + c * (pl.normal.x * m.x03 + pl.normal.y * m.x13 + pl.normal.z * m.x23) := by
        intro c; simp only [wOf, add, smul]; ring
      have hsd : ∀ c : α, signedDist pl (add (smul pl.distance pl.normal) (smul c pl.normal)) = c := by
        intro c; simp only [signedDist, dot, add, smul] at hu ⊢; linear_combination (pl.distance + c) * hu
      have key : ∀ c : α, c ≠ 0 → wOf (add (smul pl.distance pl.normal) (smul c pl.normal)) m ≠ 0 → det4 m = 0 := by
        intro c hc hwc
        have := hcore _ hwc
        rw [hN, hsd] at this
        have hz0 : dot (zero : V3 α) (sub (mulM44 (add (smul pl.distance pl.normal) (smul c pl.normal)) m) (mulM44 (smul pl.distance pl.normal) m)) = 0 := by
          simp only [dot, zero]; ring
        rw [hz0, zero_mul] at this
        rcases mul_eq_zero.mp this.symm with h | h
        · rcases mul_eq_zero.mp h with h | h
          · exact h
          · exact absurd h (ne_of_gt hDpos)
        · exact absurd h hc
      by_cases hw1n : wOf (add (smul pl.distance pl.normal) (smul 1 pl.normal)) m = 0
      · apply key 2 two_ne_zero
        rw [hk] at hw1n ⊢
        intro h2
        apply hw0
        linear_combination 2 * hw1n - h2
      · exact key 1 one_ne_zero hw1n
    rw [hz]
    refine ⟨Or.inl rfl, 0, _, le_refl _, hW, fun hne => absurd hdet0 hne, fun p _ => ?_⟩
    simp only [signedDist, dot, zero]; ring
  · obtain ⟨hunit, hP0, _, _, k, hk, hkN⟩ := Plane3_setPoints tmin tmax sqrt hlen _ _ _ hN
    refine ⟨Or.inr hunit, dot D D / k, _, le_of_lt (div_pos hDpos hk), hW, fun _ => ⟨div_pos hDpos hk, hunit⟩, fun p hp => ?_⟩
    have hc := hcore p hp
    have e2 : ∀ v, dot (xformNormal pl.normal pl.distance m D) v = k * dot (planeVia tmin tmax sqrt pl m D).normal v := by
      intro v
      unfold xformNormal planeVia
      rw [hkN]; simp only [dot, smul]; ring
    have e3 : signedDist (planeVia tmin tmax sqrt pl m D) (mulM44 p m)
        = dot (planeVia tmin tmax sqrt pl m D).normal (sub (mulM44 p m) (mulM44 (smul pl.distance pl.normal) m)) := by
      have h0 : signedDist (planeVia tmin tmax sqrt pl m D) (mulM44 (smul pl.distance pl.normal) m) = 0 := hP0
      simp only [signedDist, dot, sub] at h0 ⊢
      linear_combination h0
    rw [e3]
    rw [e2] at hc
    field_simp
    linear_combination hc

/-- corollary (ALL matrices, singular ones included): `plane * M` contains the image of every point of the plane -/
theorem Plane3_mulM44_projective_contains (tmin tmax : α) (sqrt : α → α) (hlen : LenSpec (Gen.V3.length tmin tmax sqrt)) (pl : Plane3 α) (m : M44 α)
    (hu : dot pl.normal pl.normal = 1) (hw : MulM44Defined pl m) (p : V3 α) (hp : wOf p m ≠ 0) (hon : OnPlane pl p) :
    OnPlane (Gen.Plane3.mulM44 tmin tmax sqrt pl m) (mulM44 p m) := by
  obtain ⟨_, κ, W, _, hW, _, h⟩ := Plane3_mulM44_projective tmin tmax sqrt hlen pl m hu hw
  have := h p hp
  unfold OnPlane at hon ⊢
  rw [hon, mul_zero] at this
  rcases mul_eq_zero.mp this with h | h
  · exact h
  · exact absurd h (mul_ne_zero hp hW)

/-- corollary (non-singular `M`, projective or not): unit normal, and `p*M` is on `plane*M` ONLY for points `p` of the plane -/
theorem Plane3_mulM44_projective_iff (tmin tmax : α) (sqrt : α → α) (hlen : LenSpec (Gen.V3.length tmin tmax sqrt)) (pl : Plane3 α) (m : M44 α)
    (hu : dot pl.normal pl.normal = 1) (hw : MulM44Defined pl m) (hdet : det4 m ≠ 0) :
    dot (Gen.Plane3.mulM44 tmin tmax sqrt pl m).normal (Gen.Plane3.mulM44 tmin tmax sqrt pl m).normal = 1 ∧
    ∀ p, wOf p m ≠ 0 → (OnPlane (Gen.Plane3.mulM44 tmin tmax sqrt pl m) (mulM44 p m) ↔ OnPlane pl p) := by
  obtain ⟨_, κ, W, _, hW, hk, h⟩ := Plane3_mulM44_projective tmin tmax sqrt hlen pl m hu hw
  obtain ⟨hκ, hunit⟩ := hk hdet
  refine ⟨hunit, fun p hp => ⟨fun hon => ?_, Plane3_mulM44_projective_contains tmin tmax sqrt hlen pl m hu hw p hp⟩⟩
  have := h p hp
  unfold OnPlane at hon ⊢
  rw [hon, zero_mul] at this
  rcases mul_eq_zero.mp this.symm with h | h
  · rcases mul_eq_zero.mp h with h | h
    · exact absurd h (ne_of_gt hκ)
    · exact absurd h hdet
  · exact h

/-- corollary (SINGULAR `M`): the result plane contains the image of EVERY point, on or off the original plane (the whole image
of `M` is flat), or it is the zero plane -/
theorem Plane3_mulM44_singular (tmin tmax : α) (sqrt : α → α) (hlen : LenSpec (Gen.V3.length tmin tmax sqrt)) (pl : Plane3 α) (m : M44 α)
    (hu : dot pl.normal pl.normal = 1) (hw : MulM44Defined pl m) (hdet : det4 m = 0) (p : V3 α) (hp : wOf p m ≠ 0) :
    OnPlane (Gen.Plane3.mulM44 tmin tmax sqrt pl m) (mulM44 p m) := by
  obtain ⟨_, κ, W, _, hW, _, h⟩ := Plane3_mulM44_projective tmin tmax sqrt hlen pl m hu hw
  have := h p hp
  unfold OnPlane
  rw [hdet, mul_zero, zero_mul] at this
  rcases mul_eq_zero.mp this with h | h
  · exact h
  · exact absurd h (mul_ne_zero hp hW)

/-- the zero plane really occurs: a matrix whose linear part is zero (everything is mapped to the translation vector) -/
theorem Plane3_mulM44_collapse (tmin tmax : α) (sqrt : α → α) (hlen : LenSpec (Gen.V3.length tmin tmax sqrt)) (pl : Plane3 α) (t : V3 α) :
    Gen.Plane3.mulM44 tmin tmax sqrt pl ⟨0, 0, 0, 0, 0, 0, 0, 0, 0, 0, 0, 0, t.x, t.y, t.z, 1⟩ = ⟨zero, 0⟩ := by
  obtain ⟨D, _, _, _, _, heq⟩ := Plane3_mulM44_cases tmin tmax sqrt pl ⟨0, 0, 0, 0, 0, 0, 0, 0, 0, 0, 0, 0, t.x, t.y, t.z, 1⟩
  rw [heq]
  apply Plane3_setPoints_degenerate tmin tmax sqrt hlen
  simp only [mulM44, cross, sub, zero, mul_zero, add_zero, zero_add, div_one, sub_self, V3.mk.injEq, and_self]

/-- the affine theorem is the special case `w ≡ 1`, `det M = det3 M` -/
theorem affine_MulM44Defined (pl : Plane3 α) (m : M44 α) (haff : Affine m) : MulM44Defined pl m ∧ det4 m = det3 m ∧ ∀ p, wOf p m = 1 := by
  obtain ⟨h03, h13, h23, h33⟩ := haff
  have hw : ∀ p, wOf p m = 1 := by intro p; simp only [wOf, h03, h13, h23, h33, mul_zero, add_zero, zero_add]
  refine ⟨⟨by rw [hw]; exact one_ne_zero, fun D _ _ => ⟨by rw [hw]; exact one_ne_zero, by rw [hw]; exact one_ne_zero⟩⟩, ?_, hw⟩
  simp only [det4, det3, h03, h13, h23, h33]; ring

/-! ## Sphere3 -/

/-- the quadratic `|pos + t·dir − c|² − r²` for a unit direction is `t² + B t + C` -/
theorem sphere_quadratic (s : Sphere3 α) (l : Line3 α) (hu : dot l.dir l.dir = 1) (t : α) :
    dist2 (lineAt l t) s.center - s.radius * s.radius
      = t ^ 2 + (2 * dot l.dir (sub l.pos s.center)) * t + (dot (sub l.pos s.center) (sub l.pos s.center) - s.radius * s.radius) := by
  simp only [dist2, dot, sub, lineAt] at hu ⊢
  linear_combination (t ^ 2) * hu

/-- `Sphere3::intersectT` (unit direction): `true` with the SMALLEST non-negative parameter whose point is on the
sphere; `false` exactly when no non-negative parameter gives a point of the sphere -/
theorem Sphere3_intersectT (sqrt : α → α) (hsqrt : SqrtSpec sqrt) (s : Sphere3 α) (l : Line3 α) (hu : dot l.dir l.dir = 1) :
    ((Gen.Sphere3.intersectT sqrt s l).1 = true →
      0 ≤ (Gen.Sphere3.intersectT sqrt s l).2 ∧ OnSphere s (lineAt l (Gen.Sphere3.intersectT sqrt s l).2) ∧
      ∀ t, 0 ≤ t → OnSphere s (lineAt l t) → (Gen.Sphere3.intersectT sqrt s l).2 ≤ t) ∧
    ((Gen.Sphere3.intersectT sqrt s l).1 = false → ∀ t, 0 ≤ t → ¬ OnSphere s (lineAt l t)) := by
  -- on-sphere ⇔ root of the quadratic t² + B t + C
  have hq : ∀ t, OnSphere s (lineAt l t) ↔
      t ^ 2 + (2 * dot l.dir (sub l.pos s.center)) * t + (dot (sub l.pos s.center) (sub l.pos s.center) - s.radius * s.radius) = 0 := by
    intro t; unfold OnSphere; rw [← sphere_quadratic s l hu t]; constructor <;> intro h <;> linarith
  simp only [hq]
  obtain ⟨res, hres⟩ : ∃ res, res = Gen.Sphere3.intersectT sqrt s l := ⟨_, rfl⟩
  rw [← hres]
  simp only [Gen.Sphere3.intersectT] at hres
  -- name the discriminant (whatever its spelling) and relate it to B, C by `ring`
  fun_arg_intro sqrt D hD
  have hDs : D = (2 * dot l.dir (sub l.pos s.center)) * (2 * dot l.dir (sub l.pos s.center))
      - 4 * (dot (sub l.pos s.center) (sub l.pos s.center) - s.radius * s.radius) := by
    rw [← hD]; (simp only [dot, sub]) <;> ring
  by_cases hd : D < 0
  · rw [if_pos hd] at hres
    subst hres
    refine ⟨fun h => (by cases h), fun _ t _ ht => ?_⟩
    nlinarith [sq_nonneg (2 * t + 2 * dot l.dir (sub l.pos s.center))]
  · rw [if_neg hd] at hres
    obtain ⟨hr, hr0⟩ := hsqrt D (not_lt.mp hd)
    generalize sqrt D = r at *
    have hfac : ∀ t, t ^ 2 + (2 * dot l.dir (sub l.pos s.center)) * t + (dot (sub l.pos s.center) (sub l.pos s.center) - s.radius * s.radius)
        = (t - (-(2 * dot l.dir (sub l.pos s.center)) - r) * (1 / 2)) * (t - (-(2 * dot l.dir (sub l.pos s.center)) + r) * (1 / 2)) := by
      intro t; rw [hDs] at hr; linear_combination ((1 : α) / 4) * hr
    simp only [dot, sub] at hfac hres ⊢
    split_ifs at hres with h0 h1 <;> subst hres <;> simp only []
    · -- both roots negative
      refine ⟨fun h => (by cases h), fun _ t ht hroot => ?_⟩
      rw [hfac] at hroot
      rcases mul_eq_zero.mp hroot with h | h <;> linarith
    · -- smaller root negative, larger one non-negative
      refine ⟨fun _ => ⟨by linarith, ?_, fun t ht hroot => ?_⟩, fun h => (by cases h)⟩
      · rw [hfac]; ring
      · rw [hfac] at hroot
        rcases mul_eq_zero.mp hroot with h | h <;> linarith
    · refine ⟨fun _ => ⟨by linarith, ?_, fun t ht hroot => ?_⟩, fun h => (by cases h)⟩
      · rw [hfac]; ring
      · rw [hfac] at hroot
        rcases mul_eq_zero.mp hroot with h | h <;> linarith

/-- `Sphere3::intersect`: same verdict as `intersectT`, and the point at that parameter -/
theorem Sphere3_intersect (sqrt : α → α) (s : Sphere3 α) (l : Line3 α) :
    (Gen.Sphere3.intersect sqrt s l).1 = (Gen.Sphere3.intersectT sqrt s l).1 ∧
    ((Gen.Sphere3.intersect sqrt s l).1 = true →
      (Gen.Sphere3.intersect sqrt s l).2 = lineAt l (Gen.Sphere3.intersectT sqrt s l).2) := by
  simp only [Gen.Sphere3.intersect, Gen.Sphere3.intersectT, lineAt]
  split_ifs <;> exact ⟨rfl, fun h => by first | rfl | cases h⟩

/-- `Sphere3::intersect` against the independent vocabulary (unit direction): `true` gives THE first point of the ray on the
sphere; `false` means the ray misses it -/
theorem Sphere3_intersect_geo (sqrt : α → α) (hsqrt : SqrtSpec sqrt) (s : Sphere3 α) (l : Line3 α) (hu : dot l.dir l.dir = 1) :
    ((Gen.Sphere3.intersect sqrt s l).1 = true →
      OnSphere s (Gen.Sphere3.intersect sqrt s l).2 ∧
      ∃ t, 0 ≤ t ∧ (Gen.Sphere3.intersect sqrt s l).2 = lineAt l t ∧ ∀ t', 0 ≤ t' → OnSphere s (lineAt l t') → t ≤ t') ∧
    ((Gen.Sphere3.intersect sqrt s l).1 = false → ∀ t, 0 ≤ t → ¬ OnSphere s (lineAt l t)) := by
  obtain ⟨hv, hp⟩ := Sphere3_intersect sqrt s l
  obtain ⟨ht, hf⟩ := Sphere3_intersectT sqrt hsqrt s l hu
  constructor
  · intro h
    obtain ⟨h0, hon, hmin⟩ := ht (hv ▸ h)
    rw [hp h]
    exact ⟨hon, _, h0, rfl, hmin⟩
  · intro h
    exact hf (hv ▸ h)

/-- what `Sphere3::intersectT` computes for ANY line (no unit-direction hypothesis, no hypothesis on `sqrt`): the roots of
`t² + B t + C` (leading coefficient hard-wired to 1), the smaller one first -/
theorem Sphere3_intersectT_cases (sqrt : α → α) (s : Sphere3 α) (l : Line3 α) :
    (sphD s l < 0 ∧ Gen.Sphere3.intersectT sqrt s l = (false, 0)) ∨
    (0 ≤ sphD s l ∧ 0 ≤ (-sphB s l - sqrt (sphD s l)) * (1 / 2) ∧
      Gen.Sphere3.intersectT sqrt s l = (true, (-sphB s l - sqrt (sphD s l)) * (1 / 2))) ∨
    (0 ≤ sphD s l ∧ (-sphB s l - sqrt (sphD s l)) * (1 / 2) < 0 ∧ 0 ≤ (-sphB s l + sqrt (sphD s l)) * (1 / 2) ∧
      Gen.Sphere3.intersectT sqrt s l = (true, (-sphB s l + sqrt (sphD s l)) * (1 / 2))) ∨
    (0 ≤ sphD s l ∧ (-sphB s l - sqrt (sphD s l)) * (1 / 2) < 0 ∧ (-sphB s l + sqrt (sphD s l)) * (1 / 2) < 0 ∧
      (Gen.Sphere3.intersectT sqrt s l).1 = false) := by
  obtain ⟨res, hres⟩ : ∃ res, res = Gen.Sphere3.intersectT sqrt s l := ⟨_, rfl⟩
  rw [← hres]
  simp only [Gen.Sphere3.intersectT] at hres
  fun_arg_intro_at sqrt D hD hres
  have hDs : D = sphD s l := by
    rw [← hD]; (simp only [sphD, sphB, sphC, dot, sub]) <;> ring
  generalize hr : sqrt (sphD s l) = r
  have hB : 2 * (l.dir.x * (l.pos.x - s.center.x) + l.dir.y * (l.pos.y - s.center.y) + l.dir.z * (l.pos.z - s.center.z)) = sphB s l := by
    simp only [sphB, dot, sub]
  rw [hDs] at hres
  rw [hr] at hres
  simp only [hB] at hres
  by_cases hd : sphD s l < 0
  · rw [if_pos hd] at hres
    exact Or.inl ⟨hd, hres⟩
  · rw [if_neg hd] at hres
    have hd' := not_lt.mp hd
    split_ifs at hres with h0 h1
    · exact Or.inr (Or.inr (Or.inr ⟨hd', h0, h1, by rw [hres]⟩))
    · exact Or.inr (Or.inr (Or.inl ⟨hd', h0, not_lt.mp h1, hres⟩))
    · exact Or.inr (Or.inl ⟨hd', not_lt.mp h0, hres⟩)

/-- OUT OF DOMAIN (documents the precondition; `Line3(p,p)` has the zero direction, `Line3_set_degenerate`): for the zero
direction the answer is `true` exactly when `pos` is in the closed ball, although for `pos` strictly inside no point of the
(degenerate) line is on the sphere -/
theorem Sphere3_intersectT_zero_dir (sqrt : α → α) (hsqrt : SqrtSpec sqrt) (s : Sphere3 α) (l : Line3 α) (h0 : l.dir = zero) :
    ((Gen.Sphere3.intersectT sqrt s l).1 = true ↔ InBall s l.pos) ∧
    (dist2 l.pos s.center < s.radius * s.radius → ∀ t, ¬ OnSphere s (lineAt l t)) := by
  have hB : sphB s l = 0 := by simp only [sphB, h0, dot, zero]; ring
  have hD : sphD s l = 4 * (s.radius * s.radius - dist2 l.pos s.center) := by
    simp only [sphD, hB, sphC, dist2]; ring
  constructor
  · rcases Sphere3_intersectT_cases sqrt s l with ⟨hd, h⟩ | ⟨hd, _, h⟩ | ⟨hd, _, _, h⟩ | ⟨hd, h1, h2, h⟩
    · rw [h]; simp only [InBall]; constructor
      · intro hh; cases hh
      · intro hh; rw [hD] at hd; linarith
    · rw [h]; simp only [InBall]; exact ⟨fun _ => by rw [hD] at hd; linarith, fun _ => trivial⟩
    · rw [h]; simp only [InBall]; exact ⟨fun _ => by rw [hD] at hd; linarith, fun _ => trivial⟩
    · exfalso
      obtain ⟨_, hr0⟩ := hsqrt _ hd
      rw [hB] at h2; linarith
  · intro hlt t hon
    have : lineAt l t = l.pos := by
      cases l with | mk pos dir =>
      simp only at h0; subst h0
      simp only [lineAt, zero, zero_mul, add_zero]
    rw [this] at hon
    unfold OnSphere at hon
    linarith

/-- OUT OF DOMAIN witness: a direction of length 2.  Sphere of radius 1 about the origin, line from `(−4,0,0)` with direction
`(2,0,0)`: the code answers `t = 1`, the point `(−2,0,0)`, which is not on the sphere (the true parameter is `3/2`) -/
theorem Sphere3_intersectT_nonunit_witness (sqrt : α → α) (hsqrt : SqrtSpec sqrt) :
    Gen.Sphere3.intersectT sqrt ⟨⟨0, 0, 0⟩, 1⟩ ⟨⟨-4, 0, 0⟩, ⟨2, 0, 0⟩⟩ = (true, 1) ∧
    ¬ OnSphere (⟨⟨0, 0, 0⟩, 1⟩ : Sphere3 α) (lineAt ⟨⟨-4, 0, 0⟩, ⟨2, 0, 0⟩⟩ 1) ∧
    OnSphere (⟨⟨0, 0, 0⟩, 1⟩ : Sphere3 α) (lineAt ⟨⟨-4, 0, 0⟩, ⟨2, 0, 0⟩⟩ (3 / 2)) := by
  have hB : sphB (⟨⟨0, 0, 0⟩, 1⟩ : Sphere3 α) ⟨⟨-4, 0, 0⟩, ⟨2, 0, 0⟩⟩ = -16 := by simp only [sphB, dot, sub]; norm_num
  have hD : sphD (⟨⟨0, 0, 0⟩, 1⟩ : Sphere3 α) ⟨⟨-4, 0, 0⟩, ⟨2, 0, 0⟩⟩ = 196 := by simp only [sphD, hB, sphC, dot, sub]; norm_num
  obtain ⟨hr, hr0⟩ := hsqrt (196 : α) (by norm_num)
  have h14 : sqrt (196 : α) = 14 := by
    have : (sqrt 196 - 14) * (sqrt 196 + 14) = 0 := by ring_nf; linarith
    rcases mul_eq_zero.mp this with h | h <;> linarith
  refine ⟨?_, ?_, ?_⟩
  · rcases Sphere3_intersectT_cases sqrt (⟨⟨0, 0, 0⟩, 1⟩ : Sphere3 α) ⟨⟨-4, 0, 0⟩, ⟨2, 0, 0⟩⟩ with ⟨hd, _⟩ | ⟨_, _, h⟩ | ⟨_, h1, _⟩ | ⟨_, h1, _⟩
    · rw [hD] at hd; norm_num at hd
    · rw [h, hB, hD, h14]; norm_num
    · rw [hB, hD, h14] at h1; norm_num at h1
    · rw [hB, hD, h14] at h1; norm_num at h1
  · simp only [OnSphere, dist2, dot, sub, lineAt]; norm_num
  · simp only [OnSphere, dist2, dot, sub, lineAt]; norm_num

/-- `circumscribe(box)`: the centre is the midpoint, the radius the half diagonal; every point of the box (in
particular every corner) is inside the closed ball, and the corners `min`, `max` are ON the sphere (tight) -/
theorem Sphere3_circumscribe (tmin tmax : α) (sqrt : α → α) (hlen : LenSpec (Gen.V3.length tmin tmax sqrt)) (b : Box3 α) :
    (∀ p, InBox b p → InBall (Gen.Sphere3.circumscribe tmin tmax sqrt b) p) ∧
    OnSphere (Gen.Sphere3.circumscribe tmin tmax sqrt b) b.max ∧ OnSphere (Gen.Sphere3.circumscribe tmin tmax sqrt b) b.min ∧
    0 ≤ (Gen.Sphere3.circumscribe tmin tmax sqrt b).radius := by
  simp only [Gen.Sphere3.circumscribe]
  len_intro hlen R hsq hnn
  have hR : R * R = R ^ 2 := by ring
  simp only [InBall, OnSphere, InBox, dist2, dot, sub, hR, hsq]
  refine ⟨fun p ⟨h1, h2, h3, h4, h5, h6⟩ => ?_, by first | trivial | ring, by first | trivial | ring, hnn⟩
  have e : ∀ x lo hi : α, lo ≤ x → x ≤ hi → (x - 1 / 2 * (lo + hi)) * (x - 1 / 2 * (lo + hi)) ≤ (hi - 1 / 2 * (lo + hi)) * (hi - 1 / 2 * (lo + hi)) := by
    intro x lo hi hl hh
    nlinarith [mul_nonneg (sub_nonneg.mpr hl) (sub_nonneg.mpr hh)]
  have := e p.x _ _ h1 h2
  have := e p.y _ _ h3 h4
  have := e p.z _ _ h5 h6
  linarith

/-! ## ImathVecAlgo.h: project / orthogonal / reflect / closestVertex -/

/-- `project(s,t)` is the orthogonal projection of `t` onto the direction of `s`: `((s·t)/(s·s))·s`; `0` for `s = 0` -/
theorem VecAlgo3_project (tmin tmax : α) (sqrt : α → α) (hlen : LenSpec (Gen.V3.length tmin tmax sqrt)) (s t : V3 α) :
    Gen.VecAlgo3.project tmin tmax sqrt s t = smul (dot s t / dot s s) s := by
  simp only [Gen.VecAlgo3.project]
  len_intro hlen L hsq hnn
  split_ifs with h0
  · have hs := len_zero hsq h0
    cases s; simp only [zero, V3.mk.injEq] at hs
    obtain ⟨h1, h2, h3⟩ := hs
    simp only [smul, dot, h1, h2, h3, V3.mk.injEq]; refine ⟨?_, ?_, ?_⟩ <;> ring
  · rw [← hsq]; simp only [smul, dot, V3.mk.injEq]; refine ⟨?_, ?_, ?_⟩ <;> ring

/-- `orthogonal(s,t) = t − project(s,t)`: it is perpendicular to `s`, and `project + orthogonal = t` -/
theorem VecAlgo3_orthogonal (tmin tmax : α) (sqrt : α → α) (hlen : LenSpec (Gen.V3.length tmin tmax sqrt)) (s t : V3 α) :
    Gen.VecAlgo3.orthogonal tmin tmax sqrt s t = sub t (Gen.VecAlgo3.project tmin tmax sqrt s t) ∧
    dot (Gen.VecAlgo3.orthogonal tmin tmax sqrt s t) s = 0 ∧
    add (Gen.VecAlgo3.project tmin tmax sqrt s t) (Gen.VecAlgo3.orthogonal tmin tmax sqrt s t) = t := by
  have h1 : Gen.VecAlgo3.orthogonal tmin tmax sqrt s t = sub t (Gen.VecAlgo3.project tmin tmax sqrt s t) := by
    simp only [Gen.VecAlgo3.orthogonal, Gen.VecAlgo3.project]
    split_ifs <;> rfl
  refine ⟨h1, ?_, ?_⟩
  · rw [h1, VecAlgo3_project tmin tmax sqrt hlen]
    have key : ∀ k, dot (sub t (smul k s)) s = dot s t - k * dot s s := by
      intro k; simp only [dot, sub, smul]; ring
    rw [key]
    by_cases hs : dot s s = 0
    · rw [hs]; simp only [div_zero, zero_mul, sub_zero]
      have := dot_self_eq_zero hs
      rw [this]; simp only [dot, zero]; ring
    · field_simp; ring
  · rw [h1]; cases t; simp only [add, sub, V3.mk.injEq]; refine ⟨?_, ?_, ?_⟩ <;> ring

/-- `reflect(s,t) = 2·project(t,s) − s` (mirror image of `s` in the line along `t`; the component of `s` along `t` is
kept, the perpendicular one negated).  It preserves length and is an involution -/
theorem VecAlgo3_reflect (tmin tmax : α) (sqrt : α → α) (hlen : LenSpec (Gen.V3.length tmin tmax sqrt)) (s t : V3 α) :
    Gen.VecAlgo3.reflect tmin tmax sqrt s t = sub (smul 2 (Gen.VecAlgo3.project tmin tmax sqrt t s)) s ∧
    dot (Gen.VecAlgo3.reflect tmin tmax sqrt s t) (Gen.VecAlgo3.reflect tmin tmax sqrt s t) = dot s s ∧
    Gen.VecAlgo3.reflect tmin tmax sqrt (Gen.VecAlgo3.reflect tmin tmax sqrt s t) t = s := by
  have h1 : ∀ s, Gen.VecAlgo3.reflect tmin tmax sqrt s t = sub (smul 2 (Gen.VecAlgo3.project tmin tmax sqrt t s)) s := by
    intro s
    simp only [Gen.VecAlgo3.reflect, Gen.VecAlgo3.project]
    split_ifs <;> (simp only [sub, smul, V3.mk.injEq]; refine ⟨?_, ?_, ?_⟩ <;> ring)
  refine ⟨h1 s, ?_, ?_⟩
  · rw [h1, VecAlgo3_project tmin tmax sqrt hlen]
    have key : ∀ k, dot (sub (smul 2 (smul k t)) s) (sub (smul 2 (smul k t)) s) = dot s s + 4 * k * (k * dot t t - dot t s) := by
      intro k; simp only [dot, sub, smul]; ring
    rw [key]
    by_cases ht : dot t t = 0
    · rw [ht]; simp only [div_zero, zero_mul, mul_zero, sub_zero, add_zero]
    · field_simp; ring
  · rw [h1, h1, VecAlgo3_project tmin tmax sqrt hlen, VecAlgo3_project tmin tmax sqrt hlen]
    have key : ∀ k v, dot t (sub (smul 2 (smul k t)) v) = 2 * k * dot t t - dot t v := by
      intro k v; simp only [dot, sub, smul]; ring
    rw [key]
    have key2 : ∀ k k', sub (smul 2 (smul k' t)) (sub (smul 2 (smul k t)) s) = add s (smul (2 * (k' - k)) t) := by
      intro k k'; simp only [add, sub, smul, V3.mk.injEq]; refine ⟨?_, ?_, ?_⟩ <;> ring
    rw [key2]
    have hk : (2 * (dot t s / dot t t) * dot t t - dot t s) / dot t t - dot t s / dot t t = 0 := by
      by_cases ht : dot t t = 0
      · rw [ht]; simp only [div_zero, sub_self]
      · field_simp; ring
    rw [hk]; cases s; simp only [add, smul, mul_zero, zero_mul, add_zero]

/-- `closestVertex(v0,v1,v2,p)`: one of the three vertices, and none of them is nearer to `p` -/
theorem VecAlgo3_closestVertex (v0 v1 v2 p : V3 α) :
    (Gen.VecAlgo3.closestVertex v0 v1 v2 p = v0 ∨ Gen.VecAlgo3.closestVertex v0 v1 v2 p = v1 ∨ Gen.VecAlgo3.closestVertex v0 v1 v2 p = v2) ∧
    dist2 (Gen.VecAlgo3.closestVertex v0 v1 v2 p) p ≤ dist2 v0 p ∧ dist2 (Gen.VecAlgo3.closestVertex v0 v1 v2 p) p ≤ dist2 v1 p ∧
    dist2 (Gen.VecAlgo3.closestVertex v0 v1 v2 p) p ≤ dist2 v2 p := by
  simp only [Gen.VecAlgo3.closestVertex, dist2, dot, sub]
  split_ifs with h1 h2 h3
  · exact ⟨Or.inr (Or.inr rfl), by linarith, by linarith, le_refl _⟩
  · exact ⟨Or.inr (Or.inl rfl), by linarith, le_refl _, by linarith⟩
  · exact ⟨Or.inr (Or.inr rfl), by linarith, by linarith, le_refl _⟩
  · exact ⟨Or.inl rfl, le_refl _, by linarith, by linarith⟩


/-! the same for `Vec2` and `Vec4` (the templates are generic in the vector type) -/

theorem VecAlgo2_project (tmin tmax : α) (sqrt : α → α) (hlen : LenSpec2 (Gen.V2.length tmin tmax sqrt)) (s t : V2 α) :
    Gen.VecAlgo2.project tmin tmax sqrt s t = smul2 (dot2 s t / dot2 s s) s := by
  simp only [Gen.VecAlgo2.project]
  len_intro hlen L hsq hnn
  split_ifs with h0
  · have hs := len_zero2 hsq h0
    cases s; simp only [zero2, V2.mk.injEq] at hs
    obtain ⟨h1, h2⟩ := hs
    simp only [smul2, dot2, h1, h2, V2.mk.injEq]; refine ⟨?_, ?_⟩ <;> ring
  · rw [← hsq]; simp only [smul2, dot2, V2.mk.injEq]; refine ⟨?_, ?_⟩ <;> ring

theorem VecAlgo2_orthogonal (tmin tmax : α) (sqrt : α → α) (hlen : LenSpec2 (Gen.V2.length tmin tmax sqrt)) (s t : V2 α) :
    Gen.VecAlgo2.orthogonal tmin tmax sqrt s t = sub2 t (Gen.VecAlgo2.project tmin tmax sqrt s t) ∧
    dot2 (Gen.VecAlgo2.orthogonal tmin tmax sqrt s t) s = 0 ∧
    add2 (Gen.VecAlgo2.project tmin tmax sqrt s t) (Gen.VecAlgo2.orthogonal tmin tmax sqrt s t) = t := by
  have h1 : Gen.VecAlgo2.orthogonal tmin tmax sqrt s t = sub2 t (Gen.VecAlgo2.project tmin tmax sqrt s t) := by
    simp only [Gen.VecAlgo2.orthogonal, Gen.VecAlgo2.project]
    split_ifs <;> rfl
  refine ⟨h1, ?_, ?_⟩
  · rw [h1, VecAlgo2_project tmin tmax sqrt hlen]
    have key : ∀ k, dot2 (sub2 t (smul2 k s)) s = dot2 s t - k * dot2 s s := by
      intro k; simp only [dot2, sub2, smul2]; ring
    rw [key]
    by_cases hs : dot2 s s = 0
    · rw [hs]; simp only [div_zero, zero_mul, sub_zero]
      have := dot2_self_eq_zero hs
      rw [this]; simp only [dot2, zero2]; ring
    · field_simp; ring
  · rw [h1]; cases t; simp only [add2, sub2, V2.mk.injEq]; refine ⟨?_, ?_⟩ <;> ring

theorem VecAlgo2_reflect (tmin tmax : α) (sqrt : α → α) (hlen : LenSpec2 (Gen.V2.length tmin tmax sqrt)) (s t : V2 α) :
    Gen.VecAlgo2.reflect tmin tmax sqrt s t = sub2 (smul2 2 (Gen.VecAlgo2.project tmin tmax sqrt t s)) s ∧
    dot2 (Gen.VecAlgo2.reflect tmin tmax sqrt s t) (Gen.VecAlgo2.reflect tmin tmax sqrt s t) = dot2 s s ∧
    Gen.VecAlgo2.reflect tmin tmax sqrt (Gen.VecAlgo2.reflect tmin tmax sqrt s t) t = s := by
  have h1 : ∀ s, Gen.VecAlgo2.reflect tmin tmax sqrt s t = sub2 (smul2 2 (Gen.VecAlgo2.project tmin tmax sqrt t s)) s := by
    intro s
    simp only [Gen.VecAlgo2.reflect, Gen.VecAlgo2.project]
    split_ifs <;> (simp only [sub2, smul2, V2.mk.injEq]; refine ⟨?_, ?_⟩ <;> ring)
  refine ⟨h1 s, ?_, ?_⟩
  · rw [h1, VecAlgo2_project tmin tmax sqrt hlen]
    have key : ∀ k, dot2 (sub2 (smul2 2 (smul2 k t)) s) (sub2 (smul2 2 (smul2 k t)) s) = dot2 s s + 4 * k * (k * dot2 t t - dot2 t s) := by
      intro k; simp only [dot2, sub2, smul2]; ring
    rw [key]
    by_cases ht : dot2 t t = 0
    · rw [ht]; simp only [div_zero, zero_mul, mul_zero, sub_zero, add_zero]
    · field_simp; ring
  · rw [h1, h1, VecAlgo2_project tmin tmax sqrt hlen, VecAlgo2_project tmin tmax sqrt hlen]
    have key : ∀ k v, dot2 t (sub2 (smul2 2 (smul2 k t)) v) = 2 * k * dot2 t t - dot2 t v := by
      intro k v; simp only [dot2, sub2, smul2]; ring
    rw [key]
    have key2 : ∀ k k', sub2 (smul2 2 (smul2 k' t)) (sub2 (smul2 2 (smul2 k t)) s) = add2 s (smul2 (2 * (k' - k)) t) := by
      intro k k'; simp only [add2, sub2, smul2, V2.mk.injEq]; refine ⟨?_, ?_⟩ <;> ring
    rw [key2]
    have hk : (2 * (dot2 t s / dot2 t t) * dot2 t t - dot2 t s) / dot2 t t - dot2 t s / dot2 t t = 0 := by
      by_cases ht : dot2 t t = 0
      · rw [ht]; simp only [div_zero, sub_self]
      · field_simp; ring
    rw [hk]; cases s; simp only [add2, smul2, mul_zero, zero_mul, add_zero]

theorem VecAlgo2_closestVertex (v0 v1 v2 p : V2 α) :
    (Gen.VecAlgo2.closestVertex v0 v1 v2 p = v0 ∨ Gen.VecAlgo2.closestVertex v0 v1 v2 p = v1 ∨ Gen.VecAlgo2.closestVertex v0 v1 v2 p = v2) ∧
    dist2v2 (Gen.VecAlgo2.closestVertex v0 v1 v2 p) p ≤ dist2v2 v0 p ∧ dist2v2 (Gen.VecAlgo2.closestVertex v0 v1 v2 p) p ≤ dist2v2 v1 p ∧
    dist2v2 (Gen.VecAlgo2.closestVertex v0 v1 v2 p) p ≤ dist2v2 v2 p := by
  simp only [Gen.VecAlgo2.closestVertex, dist2v2, dot2, sub2]
  split_ifs with h1 h2 h3
  · exact ⟨Or.inr (Or.inr rfl), by linarith, by linarith, le_refl _⟩
  · exact ⟨Or.inr (Or.inl rfl), by linarith, le_refl _, by linarith⟩
  · exact ⟨Or.inr (Or.inr rfl), by linarith, by linarith, le_refl _⟩
  · exact ⟨Or.inl rfl, le_refl _, by linarith, by linarith⟩


theorem VecAlgo4_project (tmin tmax : α) (sqrt : α → α) (hlen : LenSpec4 (Gen.V4.length tmin tmax sqrt)) (s t : V4 α) :
    Gen.VecAlgo4.project tmin tmax sqrt s t = smul4 (dot4 s t / dot4 s s) s := by
  simp only [Gen.VecAlgo4.project]
  len_intro hlen L hsq hnn
  split_ifs with h0
  · have hs := len_zero4 hsq h0
    cases s; simp only [zero4, V4.mk.injEq] at hs
    obtain ⟨h1, h2, h3, h4⟩ := hs
    simp only [smul4, dot4, h1, h2, h3, h4, V4.mk.injEq]; refine ⟨?_, ?_, ?_, ?_⟩ <;> ring
  · rw [← hsq]; simp only [smul4, dot4, V4.mk.injEq]; refine ⟨?_, ?_, ?_, ?_⟩ <;> ring

theorem VecAlgo4_orthogonal (tmin tmax : α) (sqrt : α → α) (hlen : LenSpec4 (Gen.V4.length tmin tmax sqrt)) (s t : V4 α) :
    Gen.VecAlgo4.orthogonal tmin tmax sqrt s t = sub4 t (Gen.VecAlgo4.project tmin tmax sqrt s t) ∧
    dot4 (Gen.VecAlgo4.orthogonal tmin tmax sqrt s t) s = 0 ∧
    add4 (Gen.VecAlgo4.project tmin tmax sqrt s t) (Gen.VecAlgo4.orthogonal tmin tmax sqrt s t) = t := by
  have h1 : Gen.VecAlgo4.orthogonal tmin tmax sqrt s t = sub4 t (Gen.VecAlgo4.project tmin tmax sqrt s t) := by
    simp only [Gen.VecAlgo4.orthogonal, Gen.VecAlgo4.project]
    split_ifs <;> rfl
  refine ⟨h1, ?_, ?_⟩
  · rw [h1, VecAlgo4_project tmin tmax sqrt hlen]
    have key : ∀ k, dot4 (sub4 t (smul4 k s)) s = dot4 s t - k * dot4 s s := by
      intro k; simp only [dot4, sub4, smul4]; ring
    rw [key]
    by_cases hs : dot4 s s = 0
    · rw [hs]; simp only [div_zero, zero_mul, sub_zero]
      have := dot4_self_eq_zero hs
      rw [this]; simp only [dot4, zero4]; ring
    · field_simp; ring
  · rw [h1]; cases t; simp only [add4, sub4, V4.mk.injEq]; refine ⟨?_, ?_, ?_, ?_⟩ <;> ring

theorem VecAlgo4_reflect (tmin tmax : α) (sqrt : α → α) (hlen : LenSpec4 (Gen.V4.length tmin tmax sqrt)) (s t : V4 α) :
    Gen.VecAlgo4.reflect tmin tmax sqrt s t = sub4 (smul4 2 (Gen.VecAlgo4.project tmin tmax sqrt t s)) s ∧
    dot4 (Gen.VecAlgo4.reflect tmin tmax sqrt s t) (Gen.VecAlgo4.reflect tmin tmax sqrt s t) = dot4 s s ∧
    Gen.VecAlgo4.reflect tmin tmax sqrt (Gen.VecAlgo4.reflect tmin tmax sqrt s t) t = s := by
  have h1 : ∀ s, Gen.VecAlgo4.reflect tmin tmax sqrt s t = sub4 (smul4 2 (Gen.VecAlgo4.project tmin tmax sqrt t s)) s := by
    intro s
    simp only [Gen.VecAlgo4.reflect, Gen.VecAlgo4.project]
    split_ifs <;> (simp only [sub4, smul4, V4.mk.injEq]; refine ⟨?_, ?_, ?_, ?_⟩ <;> ring)
  refine ⟨h1 s, ?_, ?_⟩
  · rw [h1, VecAlgo4_project tmin tmax sqrt hlen]
    have key : ∀ k, dot4 (sub4 (smul4 2 (smul4 k t)) s) (sub4 (smul4 2 (smul4 k t)) s) = dot4 s s + 4 * k * (k * dot4 t t - dot4 t s) := by
      intro k; simp only [dot4, sub4, smul4]; ring
    rw [key]
    by_cases ht : dot4 t t = 0
    · rw [ht]; simp only [div_zero, zero_mul, mul_zero, sub_zero, add_zero]
    · field_simp; ring
  · rw [h1, h1, VecAlgo4_project tmin tmax sqrt hlen, VecAlgo4_project tmin tmax sqrt hlen]
    have key : ∀ k v, dot4 t (sub4 (smul4 2 (smul4 k t)) v) = 2 * k * dot4 t t - dot4 t v := by
      intro k v; simp only [dot4, sub4, smul4]; ring
    rw [key]
    have key2 : ∀ k k', sub4 (smul4 2 (smul4 k' t)) (sub4 (smul4 2 (smul4 k t)) s) = add4 s (smul4 (2 * (k' - k)) t) := by
      intro k k'; simp only [add4, sub4, smul4, V4.mk.injEq]; refine ⟨?_, ?_, ?_, ?_⟩ <;> ring
    rw [key2]
    have hk : (2 * (dot4 t s / dot4 t t) * dot4 t t - dot4 t s) / dot4 t t - dot4 t s / dot4 t t = 0 := by
      by_cases ht : dot4 t t = 0
      · rw [ht]; simp only [div_zero, sub_self]
      · field_simp; ring
    rw [hk]; cases s; simp only [add4, smul4, mul_zero, zero_mul, add_zero]

theorem VecAlgo4_closestVertex (v0 v1 v2 p : V4 α) :
    (Gen.VecAlgo4.closestVertex v0 v1 v2 p = v0 ∨ Gen.VecAlgo4.closestVertex v0 v1 v2 p = v1 ∨ Gen.VecAlgo4.closestVertex v0 v1 v2 p = v2) ∧
    dist2v4 (Gen.VecAlgo4.closestVertex v0 v1 v2 p) p ≤ dist2v4 v0 p ∧ dist2v4 (Gen.VecAlgo4.closestVertex v0 v1 v2 p) p ≤ dist2v4 v1 p ∧
    dist2v4 (Gen.VecAlgo4.closestVertex v0 v1 v2 p) p ≤ dist2v4 v2 p := by
  simp only [Gen.VecAlgo4.closestVertex, dist2v4, dot4, sub4]
  split_ifs with h1 h2 h3
  · exact ⟨Or.inr (Or.inr rfl), by linarith, by linarith, le_refl _⟩
  · exact ⟨Or.inr (Or.inl rfl), by linarith, le_refl _, by linarith⟩
  · exact ⟨Or.inr (Or.inr rfl), by linarith, by linarith, le_refl _⟩
  · exact ⟨Or.inl rfl, le_refl _, by linarith, by linarith⟩



theorem Line3_closestPointToPoint_perp (l : Line3 α) (p : V3 α) (hu : dot l.dir l.dir = 1) :
    dot (sub p (Gen.Line3.closestPointToPoint l p)) l.dir = 0 := by
  simp only [dot, sub, Gen.Line3.closestPointToPoint] at hu ⊢
  linear_combination (-((p.x - l.pos.x) * l.dir.x + (p.y - l.pos.y) * l.dir.y + (p.z - l.pos.z) * l.dir.z)) * hu

/-! ## closestVertex, rotatePoint (ImathLineAlgo.h) -/

/-- `closestVertex(v0,v1,v2,line)`: one of the three vertices, and none of them is nearer to the line (distance measured
to `closestPointTo(vertex)`, the foot of the perpendicular for a unit direction) -/
theorem LineAlgo_closestVertex (v0 v1 v2 : V3 α) (l : Line3 α) :
    (Gen.LineAlgo.closestVertex v0 v1 v2 l = v0 ∨ Gen.LineAlgo.closestVertex v0 v1 v2 l = v1 ∨ Gen.LineAlgo.closestVertex v0 v1 v2 l = v2) ∧
    ∀ v, v = v0 ∨ v = v1 ∨ v = v2 →
      dist2 (Gen.LineAlgo.closestVertex v0 v1 v2 l) (Gen.Line3.closestPointToPoint l (Gen.LineAlgo.closestVertex v0 v1 v2 l))
        ≤ dist2 v (Gen.Line3.closestPointToPoint l v) := by
  simp only [Gen.LineAlgo.closestVertex]
  split_ifs with h1 h2 h3
  all_goals
    refine ⟨by first | exact Or.inl rfl | exact Or.inr (Or.inl rfl) | exact Or.inr (Or.inr rfl), fun v hv => ?_⟩
    simp only [dist2, dot, sub, Gen.Line3.closestPointToPoint]
    rcases hv with h | h | h <;> (subst h; linarith)

/-- `closestVertex(v0,v1,v2,line)` against the independent vocabulary (unit direction): the returned vertex is at least as near to
the LINE as any of the three vertices — for every vertex `v` and every point `l(t)` of the line there is a point `l(s)` with
`|cv − l(s)|² ≤ |v − l(t)|²` -/
theorem LineAlgo_closestVertex_geo (v0 v1 v2 : V3 α) (l : Line3 α) (hu : dot l.dir l.dir = 1) :
    (Gen.LineAlgo.closestVertex v0 v1 v2 l = v0 ∨ Gen.LineAlgo.closestVertex v0 v1 v2 l = v1 ∨ Gen.LineAlgo.closestVertex v0 v1 v2 l = v2) ∧
    ∀ v, v = v0 ∨ v = v1 ∨ v = v2 → ∀ t, ∃ s, dist2 (Gen.LineAlgo.closestVertex v0 v1 v2 l) (lineAt l s) ≤ dist2 v (lineAt l t) := by
  obtain ⟨h1, h2⟩ := LineAlgo_closestVertex v0 v1 v2 l
  refine ⟨h1, fun v hv t => ?_⟩
  obtain ⟨⟨s, hs⟩, _, _⟩ := Line3_closestPointToPoint l (Gen.LineAlgo.closestVertex v0 v1 v2 l) hu
  refine ⟨s, ?_⟩
  rw [← hs]
  exact le_trans (h2 v hv) ((Line3_closestPointToPoint l v hu).2.2 t)

/-- `rotatePoint(p, l, angle)` for a unit direction: with `q` the foot of the perpendicular from `p` and `x = p − q`,
the result is `q + cos(angle)·x + sin(angle)·(x × dir)` (Rodrigues' formula for the rotation about the line; `x × dir`
is `x` turned by a quarter turn in the plane perpendicular to the line).  A point on the line is fixed. -/
theorem LineAlgo_rotatePoint (tmin tmax : α) (sqrt sin cos : α → α) (hlen : LenSpec (Gen.V3.length tmin tmax sqrt))
    (p : V3 α) (l : Line3 α) (angle : α) (hu : dot l.dir l.dir = 1) :
    Gen.LineAlgo.rotatePoint tmin tmax sqrt sin cos p l angle =
      add (add (Gen.Line3.closestPointToPoint l p) (smul (cos angle) (sub p (Gen.Line3.closestPointToPoint l p))))
        (smul (sin angle) (cross (sub p (Gen.Line3.closestPointToPoint l p)) l.dir)) := by
  simp only [Gen.LineAlgo.rotatePoint, Gen.Line3.closestPointToPoint]
  len_intro hlen R hR hRnn
  by_cases hR0 : R = 0
  · -- p is on the line: x = 0
    rw [if_pos hR0]
    have hx := len_zero hR hR0
    simp only [zero, V3.mk.injEq] at hx
    obtain ⟨hx1, hx2, hx3⟩ := hx
    len_intro hlen L hL hLnn
    simp only [hx1, hx2, hx3, hR0, add, sub, smul, cross, mul_zero, zero_mul, sub_self, add_zero, V3.mk.injEq]
    split_ifs <;> simp only [mul_zero, zero_mul, zero_div, add_zero, and_self]
  · rw [if_neg hR0]
    len_intro hlen L hL hLnn
    -- x/R is a unit vector perpendicular to dir, so |x/R × dir| = 1
    have hperp : dot (sub p (Gen.Line3.closestPointToPoint l p)) l.dir = 0 := (Line3_closestPointToPoint_perp l p hu)
    have hL1 : L = 1 := by
      apply len_unit _ hLnn
      rw [hL]
      have e : ∀ x d : V3 α, dot (⟨x.y / R * d.z - x.z / R * d.y, x.z / R * d.x - x.x / R * d.z, x.x / R * d.y - x.y / R * d.x⟩ : V3 α)
          ⟨x.y / R * d.z - x.z / R * d.y, x.z / R * d.x - x.x / R * d.z, x.x / R * d.y - x.y / R * d.x⟩
          = (dot x x * dot d d - dot x d ^ 2) / R ^ 2 := by
        intro x d; simp only [dot]; field_simp; ring
      have hR' : dot (sub p (Gen.Line3.closestPointToPoint l p)) (sub p (Gen.Line3.closestPointToPoint l p)) = R ^ 2 := by
        rw [hR]; simp only [dot, sub, Gen.Line3.closestPointToPoint]
      have := e (sub p (Gen.Line3.closestPointToPoint l p)) l.dir
      rw [hR', hu, hperp] at this
      simp only [dot, sub, Gen.Line3.closestPointToPoint] at this ⊢
      rw [this]; field_simp; ring
    subst hL1
    simp only [one_ne_zero, if_false, div_one, add, sub, smul, cross, V3.mk.injEq]
    refine ⟨?_, ?_, ?_⟩ <;> field_simp <;> ring

/-- `rotatePoint` against the independent vocabulary: the foot of the perpendicular written with `lineAt` -/
theorem LineAlgo_rotatePoint_geo (tmin tmax : α) (sqrt sin cos : α → α) (hlen : LenSpec (Gen.V3.length tmin tmax sqrt))
    (p : V3 α) (l : Line3 α) (angle : α) (hu : dot l.dir l.dir = 1) :
    Gen.LineAlgo.rotatePoint tmin tmax sqrt sin cos p l angle =
      add (add (lineAt l (dot (sub p l.pos) l.dir)) (smul (cos angle) (sub p (lineAt l (dot (sub p l.pos) l.dir)))))
        (smul (sin angle) (cross (sub p (lineAt l (dot (sub p l.pos) l.dir))) l.dir)) := by
  rw [LineAlgo_rotatePoint tmin tmax sqrt sin cos hlen p l angle hu, Line3_closestPointToPoint_def]

/-- consequently (with `sin² + cos² = 1`) the image stays on the circle through `p` around the line: same distance
from the foot `q`, still in the plane through `q` perpendicular to the line, at angle `angle` from `p − q` -/
theorem LineAlgo_rotatePoint_circle (tmin tmax : α) (sqrt sin cos : α → α) (hlen : LenSpec (Gen.V3.length tmin tmax sqrt))
    (p : V3 α) (l : Line3 α) (angle : α) (hu : dot l.dir l.dir = 1) (hsc : sin angle ^ 2 + cos angle ^ 2 = 1) :
    dist2 (Gen.LineAlgo.rotatePoint tmin tmax sqrt sin cos p l angle) (Gen.Line3.closestPointToPoint l p)
      = dist2 p (Gen.Line3.closestPointToPoint l p) ∧
    dot (sub (Gen.LineAlgo.rotatePoint tmin tmax sqrt sin cos p l angle) (Gen.Line3.closestPointToPoint l p)) l.dir = 0 ∧
    dot (sub (Gen.LineAlgo.rotatePoint tmin tmax sqrt sin cos p l angle) (Gen.Line3.closestPointToPoint l p))
        (sub p (Gen.Line3.closestPointToPoint l p)) = cos angle * dist2 p (Gen.Line3.closestPointToPoint l p) := by
  rw [LineAlgo_rotatePoint tmin tmax sqrt sin cos hlen p l angle hu]
  have hperp := Line3_closestPointToPoint_perp l p hu
  generalize Gen.Line3.closestPointToPoint l p = q at *
  generalize sin angle = s at *
  generalize cos angle = c at *
  simp only [dist2, dot, sub, add, smul, cross] at *
  refine ⟨?_, ?_, ?_⟩
  · linear_combination (s ^ 2 * ((p.x - q.x) * (p.x - q.x) + (p.y - q.y) * (p.y - q.y) + (p.z - q.z) * (p.z - q.z))) * hu
      - (s ^ 2 * ((p.x - q.x) * l.dir.x + (p.y - q.y) * l.dir.y + (p.z - q.z) * l.dir.z)) * hperp
      + ((p.x - q.x) * (p.x - q.x) + (p.y - q.y) * (p.y - q.y) + (p.z - q.z) * (p.z - q.z)) * hsc
  · linear_combination c * hperp
  · ring

/-! ## triangle `intersect` (ImathLineAlgo.h) -/

/-- decide the next range test `c` (stated with the named quantities): in the failing branch the tree evaluates to a
`false` leaf, which contradicts the conjunction; in the passing branch the tree is pruned and the proof continues -/
macro "tri_req " h:ident " : " c:term : tactic => `(tactic| (
  by_cases $h : $c
  on_goal 2 =>
    have h' := $h
    simp only [triBy, triBx, triBz, triE, triF, triPt, triD, triNd, triNh, triN, divS, perpTo, dot, cross, sub, lineAt] at h'
    first | simp only [if_neg h'] | simp only [if_pos h']
    exact ⟨⟨fun hh => (by cases hh), fun hc => by tauto⟩, fun hh => (by cases hh)⟩
  on_goal 1 =>
    have h' := $h
    simp only [triBy, triBx, triBz, triE, triF, triPt, triD, triNd, triNh, triN, divS, perpTo, dot, cross, sub, lineAt] at h'
    first | simp only [if_pos h'] | simp only [if_neg h']
    clear h'))

/-- the same for a condition that must FAIL (`barycentric.y < 0`) -/
macro "tri_forbid " h:ident " : " c:term : tactic => `(tactic| (
  by_cases $h : $c
  on_goal 1 =>
    have h' := $h
    simp only [triBy, triBx, triBz, triE, triF, triPt, triD, triNd, triNh, triN, divS, perpTo, dot, cross, sub, lineAt] at h'
    simp only [if_pos h']
    exact ⟨⟨fun hh => (by cases hh), fun hc => by tauto⟩, fun hh => (by cases hh)⟩
  on_goal 1 =>
    have h' := $h
    simp only [triBy, triBx, triBz, triE, triF, triPt, triD, triNd, triNh, triN, divS, perpTo, dot, cross, sub, lineAt] at h'
    simp only [if_neg h']
    clear h'))

set_option maxHeartbeats 4000000 in
theorem tri_spec (tmin tmax : α) (sqrt : α → α) (hlen : LenSpec (Gen.V3.length tmin tmax sqrt)) (l : Line3 α) (v0 v1 v2 : V3 α) :
    ((Gen.LineAlgo.intersect tmin tmax sqrt l v0 v1 v2).1 = true ↔
      Gen.V3.length tmin tmax sqrt (triN v0 v1 v2) ≠ 0 ∧
      (1 < sabs (triNd (Gen.V3.length tmin tmax sqrt) l v0 v1 v2) ∨
        sabs (triD (Gen.V3.length tmin tmax sqrt) l v0 v1 v2) < tmax * sabs (triNd (Gen.V3.length tmin tmax sqrt) l v0 v1 v2)) ∧
      0 ≤ triE (Gen.V3.length tmin tmax sqrt) (triPt (Gen.V3.length tmin tmax sqrt) l v0 v1 v2) v0 v1 v2 ∧
      triE (Gen.V3.length tmin tmax sqrt) (triPt (Gen.V3.length tmin tmax sqrt) l v0 v1 v2) v0 v1 v2 ≤ triF (Gen.V3.length tmin tmax sqrt) v0 v1 v2 ∧
      0 ≤ triE (Gen.V3.length tmin tmax sqrt) (triPt (Gen.V3.length tmin tmax sqrt) l v0 v1 v2) v1 v2 v0 ∧
      triE (Gen.V3.length tmin tmax sqrt) (triPt (Gen.V3.length tmin tmax sqrt) l v0 v1 v2) v1 v2 v0 ≤ triF (Gen.V3.length tmin tmax sqrt) v1 v2 v0 ∧
      ¬ triBy (Gen.V3.length tmin tmax sqrt) l v0 v1 v2 < 0) ∧
    ((Gen.LineAlgo.intersect tmin tmax sqrt l v0 v1 v2).1 = true →
      (Gen.LineAlgo.intersect tmin tmax sqrt l v0 v1 v2).2.1 = triPt (Gen.V3.length tmin tmax sqrt) l v0 v1 v2 ∧
      (Gen.LineAlgo.intersect tmin tmax sqrt l v0 v1 v2).2.2.1 =
        ⟨triBx (Gen.V3.length tmin tmax sqrt) l v0 v1 v2, triBy (Gen.V3.length tmin tmax sqrt) l v0 v1 v2, triBz (Gen.V3.length tmin tmax sqrt) l v0 v1 v2⟩ ∧
      ((Gen.LineAlgo.intersect tmin tmax sqrt l v0 v1 v2).2.2.2 = true ↔ dot l.dir (triNh (Gen.V3.length tmin tmax sqrt) v0 v1 v2) < 0)) := by
  by_cases hL0 : Gen.V3.length tmin tmax sqrt (triN v0 v1 v2) = 0
  · have h : (Gen.LineAlgo.intersect tmin tmax sqrt l v0 v1 v2).1 = false := by
      have hL0' := hL0
      simp only [triN, cross, sub] at hL0'
      simp only [Gen.LineAlgo.intersect, if_pos hL0']
    rw [h]
    exact ⟨⟨fun h => (by cases h), fun h => absurd hL0 h.1⟩, fun h => (by cases h)⟩
  · -- non-degenerate triangle: both edges have non-zero length
    have hN : triN v0 v1 v2 ≠ zero := fun h0 => hL0 (by
      have := (hlen (triN v0 v1 v2)).1
      rw [h0] at this ⊢
      simp only [dot, zero, mul_zero, add_zero] at this
      exact pow_eq_zero_iff (two_ne_zero) |>.mp this)
    have hL1 : Gen.V3.length tmin tmax sqrt (sub v1 v0) ≠ 0 := by
      intro h0
      have hz := len_zero (hlen (sub v1 v0)).1 h0
      apply hN
      simp only [sub, zero, V3.mk.injEq] at hz
      obtain ⟨h1, h2, h3⟩ := hz
      simp only [triN, cross, sub, zero, V3.mk.injEq, h1, h2, h3, mul_zero, sub_self, and_self]
    have hL2 : Gen.V3.length tmin tmax sqrt (sub v2 v1) ≠ 0 := by
      intro h0
      have hz := len_zero (hlen (sub v2 v1)).1 h0
      apply hN
      simp only [sub, zero, V3.mk.injEq] at hz
      obtain ⟨h1, h2, h3⟩ := hz
      simp only [triN, cross, sub, zero, V3.mk.injEq, h1, h2, h3, zero_mul, sub_self, and_self]
    have hL0' := hL0
    have hL1' := hL1
    have hL2' := hL2
    simp only [triN, cross, sub] at hL0' hL1' hL2'
    simp only [Gen.LineAlgo.intersect, if_neg hL0', if_neg hL1', if_neg hL2']
    -- the guard: two spellings of "not nearly parallel"
    by_cases g1 : 1 < sabs (triNd (Gen.V3.length tmin tmax sqrt) l v0 v1 v2)
    on_goal 2 => by_cases g2 : sabs (triD (Gen.V3.length tmin tmax sqrt) l v0 v1 v2) < tmax * sabs (triNd (Gen.V3.length tmin tmax sqrt) l v0 v1 v2)
    on_goal 3 =>
      have g1' := g1
      have g2' := g2
      simp only [triD, triNd, triNh, triN, divS, dot, cross, sub] at g1' g2'
      simp only [if_neg g1', if_neg g2']
      exact ⟨⟨fun h => (by cases h), fun hc => by tauto⟩, fun h => (by cases h)⟩
    on_goal 1 =>
      have g1' := g1
      simp only [triD, triNd, triNh, triN, divS, dot, cross, sub] at g1'
      simp only [if_pos g1']
      clear g1'
    on_goal 2 =>
      have g1' := g1
      have g2' := g2
      simp only [triD, triNd, triNh, triN, divS, dot, cross, sub] at g1' g2'
      simp only [if_neg g1', if_pos g2']
      clear g1' g2'
    all_goals
      tri_req e0a : 0 ≤ triE (Gen.V3.length tmin tmax sqrt) (triPt (Gen.V3.length tmin tmax sqrt) l v0 v1 v2) v0 v1 v2
      tri_req e0b : triE (Gen.V3.length tmin tmax sqrt) (triPt (Gen.V3.length tmin tmax sqrt) l v0 v1 v2) v0 v1 v2 ≤ triF (Gen.V3.length tmin tmax sqrt) v0 v1 v2
      tri_req e1a : 0 ≤ triE (Gen.V3.length tmin tmax sqrt) (triPt (Gen.V3.length tmin tmax sqrt) l v0 v1 v2) v1 v2 v0
      tri_req e1b : triE (Gen.V3.length tmin tmax sqrt) (triPt (Gen.V3.length tmin tmax sqrt) l v0 v1 v2) v1 v2 v0 ≤ triF (Gen.V3.length tmin tmax sqrt) v1 v2 v0
      tri_forbid eby : triBy (Gen.V3.length tmin tmax sqrt) l v0 v1 v2 < 0
      by_cases hf : dot l.dir (triNh (Gen.V3.length tmin tmax sqrt) v0 v1 v2) < 0
      all_goals
        have hf' := hf
        simp only [triNh, triN, divS, dot, cross, sub] at hf'
        first | rw [if_pos hf'] | rw [if_neg hf']
        refine ⟨⟨fun _ => ⟨hL0, by tauto, e0a, e0b, e1a, e1b, eby⟩, fun _ => rfl⟩, fun _ => ⟨rfl, rfl, ?_⟩⟩
        first | exact ⟨fun _ => hf, fun _ => rfl⟩ | exact ⟨fun hh => (by cases hh), fun hh => absurd hh hf⟩

/-- facts shared by soundness and completeness: for a non-degenerate triangle and a line not parallel to its plane
the computed point lies in the plane, and the two computed barycentrics are the Gram-determinant quotients -/
theorem tri_facts (tmin tmax : α) (sqrt : α → α) (hlen : LenSpec (Gen.V3.length tmin tmax sqrt)) (l : Line3 α) (v0 v1 v2 : V3 α)
    (hL0 : Gen.V3.length tmin tmax sqrt (triN v0 v1 v2) ≠ 0) (hnd : triNd (Gen.V3.length tmin tmax sqrt) l v0 v1 v2 ≠ 0) :
    0 < dot (triN v0 v1 v2) (triN v0 v1 v2) ∧
    dot (triN v0 v1 v2) (sub (triPt (Gen.V3.length tmin tmax sqrt) l v0 v1 v2) v0) = 0 ∧
    (∀ p, triE (Gen.V3.length tmin tmax sqrt) p v0 v1 v2 = numA p v0 v1 v2 / dot (sub v1 v0) (sub v1 v0)) ∧
    (∀ p, triE (Gen.V3.length tmin tmax sqrt) p v1 v2 v0 = numA p v1 v2 v0 / dot (sub v2 v1) (sub v2 v1)) ∧
    triF (Gen.V3.length tmin tmax sqrt) v0 v1 v2 = dot (triN v0 v1 v2) (triN v0 v1 v2) / dot (sub v1 v0) (sub v1 v0) ∧
    triF (Gen.V3.length tmin tmax sqrt) v1 v2 v0 = dot (triN v0 v1 v2) (triN v0 v1 v2) / dot (sub v2 v1) (sub v2 v1) ∧
    0 < dot (sub v1 v0) (sub v1 v0) ∧ 0 < dot (sub v2 v1) (sub v2 v1) := by
  obtain ⟨hsq0, hnn0⟩ := hlen (triN v0 v1 v2)
  have hN : triN v0 v1 v2 ≠ zero := fun h0 => hL0 (by
    rw [h0] at hsq0 ⊢
    simp only [dot, zero, mul_zero, add_zero] at hsq0
    exact pow_eq_zero_iff (two_ne_zero) |>.mp hsq0)
  have hNpos := dot_self_pos hN
  have hE0 : sub v1 v0 ≠ zero := by
    intro hz; apply hN
    simp only [sub, zero, V3.mk.injEq] at hz
    obtain ⟨h1, h2, h3⟩ := hz
    simp only [triN, cross, sub, zero, V3.mk.injEq, h1, h2, h3, mul_zero, sub_self, and_self]
  have hE1 : sub v2 v1 ≠ zero := by
    intro hz; apply hN
    simp only [sub, zero, V3.mk.injEq] at hz
    obtain ⟨h1, h2, h3⟩ := hz
    simp only [triN, cross, sub, zero, V3.mk.injEq, h1, h2, h3, zero_mul, sub_self, and_self]
  obtain ⟨hsq1, _⟩ := hlen (sub v1 v0)
  obtain ⟨hsq2, _⟩ := hlen (sub v2 v1)
  have hL1 := len_ne_zero hsq1 hE0
  have hL2 := len_ne_zero hsq2 hE1
  obtain ⟨hd0, hd1⟩ := denA_eq v0 v1 v2
  refine ⟨hNpos, ?_, fun p => ?_, fun p => ?_, ?_, ?_, dot_self_pos hE0, dot_self_pos hE1⟩
  · -- the hit point is in the triangle's plane
    have hnd' := hnd
    simp only [triPt, triD, triNd, triNh, divS, lineAt] at hnd' ⊢
    generalize Gen.V3.length tmin tmax sqrt (triN v0 v1 v2) = L0 at *
    generalize triN v0 v1 v2 = N at *
    simp only [dot, sub] at hnd' ⊢
    have hnd'' : N.x * l.dir.x + N.y * l.dir.y + N.z * l.dir.z ≠ 0 := by
      intro h0; apply hnd'
      have : N.x / L0 * l.dir.x + N.y / L0 * l.dir.y + N.z / L0 * l.dir.z = (N.x * l.dir.x + N.y * l.dir.y + N.z * l.dir.z) / L0 := by ring
      rw [this, h0, zero_div]
    field_simp
    ring
  · unfold triE numA; exact perp_e_eq _ _ _ _ hL1 hsq1
  · unfold triE numA; exact perp_e_eq _ _ _ _ hL2 hsq2
  · unfold triF; rw [perp_e_eq _ _ _ _ hL1 hsq1, ← hd0]; unfold denA; ring
  · unfold triF; rw [perp_e_eq _ _ _ _ hL2 hsq2, ← hd1]; unfold denA; ring

/-- SOUNDNESS of triangle `intersect`: when it returns `true`, the returned point lies on the line and in the closed
triangle — the returned barycentric coordinates are non-negative, sum to one and reproduce the point
(`pt = b.x·v0 + b.y·v1 + b.z·v2`, as documented) — and `front` is `true` exactly when the line's direction has a negative
dot product with the normal `(v2−v1)×(v1−v0)` (as documented). -/
theorem LineAlgo_intersect_sound (tmin tmax : α) (sqrt : α → α) (hlen : LenSpec (Gen.V3.length tmin tmax sqrt))
    (l : Line3 α) (v0 v1 v2 : V3 α) (ht : (Gen.LineAlgo.intersect tmin tmax sqrt l v0 v1 v2).1 = true) :
    OnLine l (Gen.LineAlgo.intersect tmin tmax sqrt l v0 v1 v2).2.1 ∧
    0 ≤ (Gen.LineAlgo.intersect tmin tmax sqrt l v0 v1 v2).2.2.1.x ∧ 0 ≤ (Gen.LineAlgo.intersect tmin tmax sqrt l v0 v1 v2).2.2.1.y ∧
    0 ≤ (Gen.LineAlgo.intersect tmin tmax sqrt l v0 v1 v2).2.2.1.z ∧
    (Gen.LineAlgo.intersect tmin tmax sqrt l v0 v1 v2).2.2.1.x + (Gen.LineAlgo.intersect tmin tmax sqrt l v0 v1 v2).2.2.1.y
      + (Gen.LineAlgo.intersect tmin tmax sqrt l v0 v1 v2).2.2.1.z = 1 ∧
    (Gen.LineAlgo.intersect tmin tmax sqrt l v0 v1 v2).2.1
      = baryPoint (Gen.LineAlgo.intersect tmin tmax sqrt l v0 v1 v2).2.2.1 v0 v1 v2 ∧
    InTriangle v0 v1 v2 (Gen.LineAlgo.intersect tmin tmax sqrt l v0 v1 v2).2.1 ∧
    ((Gen.LineAlgo.intersect tmin tmax sqrt l v0 v1 v2).2.2.2 = true ↔ dot l.dir (triN v0 v1 v2) < 0) := by
  obtain ⟨hiff, hout⟩ := tri_spec tmin tmax sqrt hlen l v0 v1 v2
  obtain ⟨hL0, hg, e0a, e0b, e1a, e1b, hby⟩ := hiff.mp ht
  obtain ⟨hpt, hb, hfront⟩ := hout ht
  have hnd : triNd (Gen.V3.length tmin tmax sqrt) l v0 v1 v2 ≠ 0 := by
    intro h0
    rw [h0] at hg
    simp only [sabs_eq_abs, abs_zero, mul_zero] at hg
    rcases hg with hg | hg
    · linarith
    · exact absurd hg (not_lt.mpr (abs_nonneg _))
  obtain ⟨hNpos, hplane, hE0, hE1, hF0, hF1, hQ0, hQ1⟩ := tri_facts tmin tmax sqrt hlen l v0 v1 v2 hL0 hnd
  rw [hE0] at e0a
  rw [hE1] at e1a
  -- the two computed coordinates as Gram quotients over |N|²
  have hbz : triBz (Gen.V3.length tmin tmax sqrt) l v0 v1 v2
      = numA (triPt (Gen.V3.length tmin tmax sqrt) l v0 v1 v2) v0 v1 v2 / dot (triN v0 v1 v2) (triN v0 v1 v2) := by
    unfold triBz; rw [hE0, hF0]; field_simp
  have hbx : triBx (Gen.V3.length tmin tmax sqrt) l v0 v1 v2
      = numA (triPt (Gen.V3.length tmin tmax sqrt) l v0 v1 v2) v1 v2 v0 / dot (triN v0 v1 v2) (triN v0 v1 v2) := by
    unfold triBx; rw [hE1, hF1]; field_simp
  have hbz0 : 0 ≤ triBz (Gen.V3.length tmin tmax sqrt) l v0 v1 v2 := by
    rw [hbz]; apply div_nonneg _ (le_of_lt hNpos)
    have := (div_nonneg_iff.mp e0a); rcases this with ⟨h, _⟩ | ⟨_, h⟩
    · exact h
    · linarith
  have hbx0 : 0 ≤ triBx (Gen.V3.length tmin tmax sqrt) l v0 v1 v2 := by
    rw [hbx]; apply div_nonneg _ (le_of_lt hNpos)
    have := (div_nonneg_iff.mp e1a); rcases this with ⟨h, _⟩ | ⟨_, h⟩
    · exact h
    · linarith
  have hbary : triPt (Gen.V3.length tmin tmax sqrt) l v0 v1 v2
      = baryPoint ⟨triBx (Gen.V3.length tmin tmax sqrt) l v0 v1 v2, triBy (Gen.V3.length tmin tmax sqrt) l v0 v1 v2,
          triBz (Gen.V3.length tmin tmax sqrt) l v0 v1 v2⟩ v0 v1 v2 := by
    have hid := bary_identity (triPt (Gen.V3.length tmin tmax sqrt) l v0 v1 v2) v0 v1 v2
    rw [hplane] at hid
    unfold triBy
    rw [hbx, hbz]
    generalize triPt (Gen.V3.length tmin tmax sqrt) l v0 v1 v2 = p at *
    generalize numA p v1 v2 v0 = A' at *
    generalize numA p v0 v1 v2 = A at *
    generalize dot (triN v0 v1 v2) (triN v0 v1 v2) = Q at *
    have hQ : Q ≠ 0 := ne_of_gt hNpos
    cases p with | mk px py pz =>
    simp only [sub, add, smul, baryPoint, V3.mk.injEq, neg_zero, zero_mul] at hid ⊢
    obtain ⟨h1, h2, h3⟩ := hid
    refine ⟨?_, ?_, ?_⟩ <;> field_simp <;> linarith
  rw [hpt, hb]
  refine ⟨⟨_, rfl⟩, hbx0, not_lt.mp hby, hbz0, by unfold triBy; ring, hbary, ?_, ?_⟩
  · exact ⟨_, hbx0, not_lt.mp hby, hbz0, by unfold triBy; ring, hbary⟩
  · rw [hfront]
    obtain ⟨hsq0, hnn0⟩ := hlen (triN v0 v1 v2)
    have hLpos : 0 < Gen.V3.length tmin tmax sqrt (triN v0 v1 v2) := lt_of_le_of_ne hnn0 (Ne.symm hL0)
    have : dot l.dir (triNh (Gen.V3.length tmin tmax sqrt) v0 v1 v2) = dot l.dir (triN v0 v1 v2) / Gen.V3.length tmin tmax sqrt (triN v0 v1 v2) := by
      simp only [triNh, divS, dot]; ring
    rw [this, div_neg_iff]
    constructor
    · rintro (⟨_, h⟩ | ⟨h, _⟩)
      · linarith
      · exact h
    · intro h; exact Or.inr ⟨h, hLpos⟩

/-- Gram numerators of a point given by barycentric coordinates -/
theorem numA_of_bary (b v0 v1 v2 : V3 α) (hs : b.x + b.y + b.z = 1) :
    numA (baryPoint b v0 v1 v2) v0 v1 v2 = b.z * dot (triN v0 v1 v2) (triN v0 v1 v2) ∧
    numA (baryPoint b v0 v1 v2) v1 v2 v0 = b.x * dot (triN v0 v1 v2) (triN v0 v1 v2) := by
  have hy : b.y = 1 - b.x - b.z := by linarith
  constructor <;> (simp only [numA, baryPoint, triN, dot, cross, sub, add, smul, hy]; ring)

/-- COMPLETENESS of triangle `intersect`: for a non-degenerate triangle and a line that is not parallel to its plane,
if the line meets the closed triangle at a parameter `t` with `|t| < tmax` (the documented "nearly parallel" overflow
guard does not fire), the result is `true`.  Together with soundness: `true` ↔ the line meets the plane inside the triangle. -/
theorem LineAlgo_intersect_complete (tmin tmax : α) (sqrt : α → α) (hlen : LenSpec (Gen.V3.length tmin tmax sqrt))
    (l : Line3 α) (v0 v1 v2 : V3 α) (t : α) (hN : triN v0 v1 v2 ≠ zero) (hnp : dot l.dir (triN v0 v1 v2) ≠ 0)
    (hin : InTriangle v0 v1 v2 (lineAt l t)) (ht : |t| < tmax) :
    (Gen.LineAlgo.intersect tmin tmax sqrt l v0 v1 v2).1 = true := by
  obtain ⟨hiff, _⟩ := tri_spec tmin tmax sqrt hlen l v0 v1 v2
  obtain ⟨b, hb0, hb1, hb2, hbs, hpb⟩ := hin
  obtain ⟨hsq0, hnn0⟩ := hlen (triN v0 v1 v2)
  have hL0 : Gen.V3.length tmin tmax sqrt (triN v0 v1 v2) ≠ 0 := len_ne_zero hsq0 hN
  have hLpos : 0 < Gen.V3.length tmin tmax sqrt (triN v0 v1 v2) := lt_of_le_of_ne hnn0 (Ne.symm hL0)
  have hndv : triNd (Gen.V3.length tmin tmax sqrt) l v0 v1 v2 = dot l.dir (triN v0 v1 v2) / Gen.V3.length tmin tmax sqrt (triN v0 v1 v2) := by
    simp only [triNd, triNh, divS, dot]; ring
  have hnd : triNd (Gen.V3.length tmin tmax sqrt) l v0 v1 v2 ≠ 0 := by
    rw [hndv]; exact div_ne_zero hnp hL0
  -- the given point is in the plane, hence its parameter is the computed one
  have hplane : dot (triN v0 v1 v2) (sub (lineAt l t) v0) = 0 := by
    rw [hpb]
    have hy : b.y = 1 - b.x - b.z := by linarith
    simp only [baryPoint, triN, dot, cross, sub, add, smul, hy]; ring
  have htd : triD (Gen.V3.length tmin tmax sqrt) l v0 v1 v2 = t * triNd (Gen.V3.length tmin tmax sqrt) l v0 v1 v2 := by
    rw [hndv]
    have : triD (Gen.V3.length tmin tmax sqrt) l v0 v1 v2 = dot (triN v0 v1 v2) (sub v0 l.pos) / Gen.V3.length tmin tmax sqrt (triN v0 v1 v2) := by
      simp only [triD, triNh, divS, dot]; ring
    rw [this]
    field_simp
    simp only [dot, sub, lineAt] at hplane ⊢
    linear_combination -hplane
  have htq : triD (Gen.V3.length tmin tmax sqrt) l v0 v1 v2 / triNd (Gen.V3.length tmin tmax sqrt) l v0 v1 v2 = t := by
    rw [htd]; field_simp
  have hpt : triPt (Gen.V3.length tmin tmax sqrt) l v0 v1 v2 = baryPoint b v0 v1 v2 := by
    unfold triPt; rw [htq, hpb]
  obtain ⟨hNpos, _, hE0, hE1, hF0, hF1, hQ0, hQ1⟩ := tri_facts tmin tmax sqrt hlen l v0 v1 v2 hL0 hnd
  obtain ⟨hA, hA'⟩ := numA_of_bary b v0 v1 v2 hbs
  have hbz : triBz (Gen.V3.length tmin tmax sqrt) l v0 v1 v2 = b.z := by
    unfold triBz; rw [hE0, hF0, hpt, hA]; field_simp
  have hbx : triBx (Gen.V3.length tmin tmax sqrt) l v0 v1 v2 = b.x := by
    unfold triBx; rw [hE1, hF1, hpt, hA']; field_simp
  apply hiff.mpr
  refine ⟨hL0, Or.inr ?_, ?_, ?_, ?_, ?_, ?_⟩
  · rw [sabs_eq_abs, sabs_eq_abs, htd, abs_mul]
    exact mul_lt_mul_of_pos_right ht (abs_pos.mpr hnd)
  · rw [hE0, hpt, hA]; exact div_nonneg (mul_nonneg hb2 (le_of_lt hNpos)) (le_of_lt hQ0)
  · rw [hE0, hF0, hpt, hA]
    apply div_le_div_of_nonneg_right _ (le_of_lt hQ0)
    nlinarith
  · rw [hE1, hpt, hA']; exact div_nonneg (mul_nonneg hb0 (le_of_lt hNpos)) (le_of_lt hQ1)
  · rw [hE1, hF1, hpt, hA']
    apply div_le_div_of_nonneg_right _ (le_of_lt hQ1)
    nlinarith
  · unfold triBy; rw [hbx, hbz]; linarith


/-- a zero-area triangle, or a line parallel to the triangle's plane, is reported `false` (nothing is divided by zero) -/
theorem LineAlgo_intersect_degenerate (tmin tmax : α) (sqrt : α → α) (hlen : LenSpec (Gen.V3.length tmin tmax sqrt))
    (l : Line3 α) (v0 v1 v2 : V3 α) (h : triN v0 v1 v2 = zero ∨ dot l.dir (triN v0 v1 v2) = 0) :
    (Gen.LineAlgo.intersect tmin tmax sqrt l v0 v1 v2).1 = false := by
  obtain ⟨hiff, _⟩ := tri_spec tmin tmax sqrt hlen l v0 v1 v2
  by_contra hne
  have ht : (Gen.LineAlgo.intersect tmin tmax sqrt l v0 v1 v2).1 = true := by
    cases hb : (Gen.LineAlgo.intersect tmin tmax sqrt l v0 v1 v2).1 with
    | true => rfl
    | false => exact absurd hb hne
  obtain ⟨hL0, hg, _⟩ := hiff.mp ht
  have hnd0 : triNd (Gen.V3.length tmin tmax sqrt) l v0 v1 v2 = 0 := by
    have hndv : triNd (Gen.V3.length tmin tmax sqrt) l v0 v1 v2 = dot l.dir (triN v0 v1 v2) / Gen.V3.length tmin tmax sqrt (triN v0 v1 v2) := by
      simp only [triNd, triNh, divS, dot]; ring
    rcases h with h | h
    · rw [hndv, h]; simp only [dot, zero, mul_zero, add_zero, zero_div]
    · rw [hndv, h, zero_div]
  rw [hnd0] at hg
  simp only [sabs_eq_abs, abs_zero, mul_zero] at hg
  rcases hg with hg | hg
  · linarith
  · exact absurd hg (not_lt.mpr (abs_nonneg _))

/-! ## the length hypothesis is satisfiable: it FOLLOWS from `SqrtSpec sqrt` for the real `Vec::length()` bodies -/

/-- `Vec3::length()` (all 129 paths incl. `lengthTiny` and the `tmax` overflow arm) satisfies `LenSpec` for every `tmin`, `tmax` once `sqrt` is a square root -/
theorem V3_length_LenSpec (tmin tmax : α) (sqrt : α → α) (hs : SqrtSpec sqrt) : LenSpec (Gen.V3.length tmin tmax sqrt) :=
  V3_length_spec tmin tmax sqrt hs
theorem V2_length_LenSpec (tmin tmax : α) (sqrt : α → α) (hs : SqrtSpec sqrt) : LenSpec2 (Gen.V2.length tmin tmax sqrt) :=
  V2_length_spec tmin tmax sqrt hs
theorem V4_length_LenSpec (tmin tmax : α) (sqrt : α → α) (hs : SqrtSpec sqrt) : LenSpec4 (Gen.V4.length tmin tmax sqrt) :=
  V4_length_spec tmin tmax sqrt hs

/-! ## non-vacuity: concrete inputs satisfying the hypotheses of the theorems above -/
section NonVacuity
/-- `LenSpec` / `SqrtSpec`: the real square root, any `tmin` (used by every theorem with `hlen` / `hsqrt`) -/
example (tmin tmax : ℝ) : LenSpec (Gen.V3.length tmin tmax Real.sqrt) := realLenSpec tmin tmax
example (tmin tmax : ℝ) : LenSpec2 (Gen.V2.length tmin tmax Real.sqrt) := realLenSpec2 tmin tmax
example (tmin tmax : ℝ) : LenSpec4 (Gen.V4.length tmin tmax Real.sqrt) := realLenSpec4 tmin tmax
example : SqrtSpec Real.sqrt := realSqrtSpec
/-- `Line3_set`: two distinct points -/
example : (⟨0, 0, 0⟩ : V3 ℝ) ≠ ⟨1, 2, 2⟩ := by intro h; simp only [V3.mk.injEq] at h; norm_num at h
/-- unit directions (`hu`, `hu1`, `hu2`), not parallel (`Line3_closestPointToLine`, `LineAlgo_closestPoints`), and a
perpendicular pair (`Line3_distanceToLine_perpendicular`) -/
example : dot (⟨3 / 5, 4 / 5, 0⟩ : V3 ℚ) ⟨3 / 5, 4 / 5, 0⟩ = 1 ∧ dot (⟨1, 0, 0⟩ : V3 ℚ) ⟨1, 0, 0⟩ = 1 ∧
    dot (⟨1, 0, 0⟩ : V3 ℚ) ⟨3 / 5, 4 / 5, 0⟩ ^ 2 ≠ 1 ∧ dot (⟨1, 0, 0⟩ : V3 ℚ) ⟨0, 0, 1⟩ = 0 := by
  simp only [dot]; norm_num
/-- `|cplParam| < tmax`: the lines `(0,0,0)+s(1,0,0)` and `(0,0,1)+t(3/5,4/5,0)`, `tmax = 2` -/
example : |cplParam (⟨⟨0, 0, 0⟩, ⟨1, 0, 0⟩⟩ : Line3 ℚ) ⟨⟨0, 0, 1⟩, ⟨3 / 5, 4 / 5, 0⟩⟩| < 2 := by
  simp only [cplParam, dot, sub]; norm_num
/-- `Plane3_setPoints`: three non-collinear points; `Plane3_setPointNormal/NormalDistance`: a non-zero normal -/
example : cross (sub (⟨1, 0, 0⟩ : V3 ℚ) ⟨0, 0, 0⟩) (sub ⟨0, 1, 0⟩ ⟨0, 0, 0⟩) ≠ zero := by
  simp only [cross, sub, zero, V3.mk.injEq]; norm_num
example : (⟨0, 3, 4⟩ : V3 ℚ) ≠ zero := by simp only [zero, V3.mk.injEq]; norm_num
/-- `Plane3_mulM44`: a plane with unit normal and a non-singular affine matrix (scale 2 in x, translation (5,6,7));
orientation preserving (`Plane3_mulM44_sides`) -/
example : dot (⟨0, 3 / 5, 4 / 5⟩ : V3 ℚ) ⟨0, 3 / 5, 4 / 5⟩ = 1 ∧
    Affine (⟨2, 0, 0, 0, 0, 1, 0, 0, 0, 0, 1, 0, 5, 6, 7, 1⟩ : M44 ℚ) ∧
    0 < det3 (⟨2, 0, 0, 0, 0, 1, 0, 0, 0, 0, 1, 0, 5, 6, 7, 1⟩ : M44 ℚ) := by
  simp only [dot, Affine, det3]; norm_num
/-- `Plane3_intersectT`: a line not parallel to the plane -/
example : dot (⟨0, 0, 1⟩ : V3 ℚ) ⟨0, 3 / 5, 4 / 5⟩ ≠ 0 := by simp only [dot]; norm_num
/-- `LineAlgo_intersect_complete`: the triangle (0,0,0),(1,0,0),(0,1,0) and the line from (1/4,1/4,1) straight down
meet at `t = 1` in the point with barycentrics (1/2,1/4,1/4); `tmax = 2` -/
example : triN (⟨0, 0, 0⟩ : V3 ℚ) ⟨1, 0, 0⟩ ⟨0, 1, 0⟩ ≠ zero ∧
    dot (⟨0, 0, -1⟩ : V3 ℚ) (triN ⟨0, 0, 0⟩ ⟨1, 0, 0⟩ ⟨0, 1, 0⟩) ≠ 0 ∧
    InTriangle (⟨0, 0, 0⟩ : V3 ℚ) ⟨1, 0, 0⟩ ⟨0, 1, 0⟩ (lineAt ⟨⟨1 / 4, 1 / 4, 1⟩, ⟨0, 0, -1⟩⟩ 1) ∧ |(1 : ℚ)| < 2 := by
  refine ⟨?_, ?_, ⟨⟨1 / 2, 1 / 4, 1 / 4⟩, ?_⟩, ?_⟩
  · simp only [triN, cross, sub, zero, V3.mk.injEq]; norm_num
  · simp only [triN, cross, sub, dot]; norm_num
  · simp only [baryPoint, add, smul, lineAt, V3.mk.injEq]; norm_num
  · norm_num
/-- `LineAlgo_rotatePoint_circle`: `sin² + cos² = 1` -/
example : ((fun _ : ℚ => (3 : ℚ) / 5) 0) ^ 2 + ((fun _ : ℚ => (4 : ℚ) / 5) 0) ^ 2 = 1 := by norm_num
/-- `Sphere3_circumscribe`: a point of a box -/
example : InBox (⟨⟨0, 0, 0⟩, ⟨1, 2, 3⟩⟩ : Box3 ℚ) ⟨1 / 2, 1, 3⟩ := by simp only [InBox]; norm_num
end NonVacuity

/-! ## the property text's reading of `reflectVector` / `reflect` is FALSE for the code (recorded deviations)

The property says "reflectPoint/reflectVector are involutions that negate signed distance", and `ImathVecAlgo.h` documents
`reflect(s,t)` as "the direction of a ray `s` after reflection off a plane with normal `t`" (that is `s − 2·proj_t(s)`).  The code
returns the NEGATIVE of the mirror image in both places (`Plane3_reflectVector`, `VecAlgo3_reflect` state what it does).  The
negation witnesses below are standing findings (`reflectVector:normal-component-kept-not-negated`,
`VecAlgo.reflect:returns-negative-of-documented-reflection`); the check replays the same inputs on the real code. -/

/-- plane `z = 0` (normal `(0,0,1)`), `v = (1,2,3)`: the code gives `(−1,−2,3)` — the normal component `n·v = 3` is KEPT, not negated;
the mirror image of `v` in the plane is `(1,2,−3)` -/
theorem Plane3_reflectVector_keeps_normal_component_witness :
    Gen.Plane3.reflectVector (⟨⟨0, 0, 1⟩, 0⟩ : Plane3 α) ⟨1, 2, 3⟩ = ⟨-1, -2, 3⟩ ∧
    dot (⟨0, 0, 1⟩ : V3 α) (Gen.Plane3.reflectVector (⟨⟨0, 0, 1⟩, 0⟩ : Plane3 α) ⟨1, 2, 3⟩) ≠ - dot (⟨0, 0, 1⟩ : V3 α) ⟨1, 2, 3⟩ ∧
    Gen.Plane3.reflectVector (⟨⟨0, 0, 1⟩, 0⟩ : Plane3 α) ⟨1, 2, 3⟩ ≠ sub ⟨1, 2, 3⟩ (smul (2 * dot (⟨0, 0, 1⟩ : V3 α) ⟨1, 2, 3⟩) ⟨0, 0, 1⟩) := by
  have h : Gen.Plane3.reflectVector (⟨⟨0, 0, 1⟩, 0⟩ : Plane3 α) ⟨1, 2, 3⟩ = ⟨-1, -2, 3⟩ := by
    simp only [Gen.Plane3.reflectVector, V3.mk.injEq]; refine ⟨?_, ?_, ?_⟩ <;> norm_num
  refine ⟨h, ?_, ?_⟩
  · rw [h]; simp only [dot]; norm_num
  · rw [h]; simp only [sub, smul, dot, V3.mk.injEq]; norm_num

/-- in general (unit normal): the normal component is negated ONLY for vectors in the plane (`n·v = 0`) -/
theorem Plane3_reflectVector_negates_normal_component_iff (pl : Plane3 α) (v : V3 α) (hu : dot pl.normal pl.normal = 1) :
    dot pl.normal (Gen.Plane3.reflectVector pl v) = - dot pl.normal v ↔ dot pl.normal v = 0 := by
  rw [((Plane3_reflectVector pl v).2 hu).1]
  constructor
  · intro h; linarith
  · intro h; rw [h]; ring

/-- `reflect(s,t)` with `s = (1,2,3)`, `t = (0,0,1)`: the code gives `(−1,−2,3)`; the ray `s` after reflection off the plane with
normal `t`, as the header comment defines the function, is `s − 2·proj_t(s) = (1,2,−3)` -/
theorem VecAlgo3_reflect_negative_of_documented_witness (tmin tmax : α) (sqrt : α → α) (hlen : LenSpec (Gen.V3.length tmin tmax sqrt)) :
    Gen.VecAlgo3.reflect tmin tmax sqrt ⟨1, 2, 3⟩ ⟨0, 0, 1⟩ = ⟨-1, -2, 3⟩ ∧
    sub (⟨1, 2, 3⟩ : V3 α) (smul 2 (Gen.VecAlgo3.project tmin tmax sqrt ⟨0, 0, 1⟩ ⟨1, 2, 3⟩)) = ⟨1, 2, -3⟩ ∧
    Gen.VecAlgo3.reflect tmin tmax sqrt ⟨1, 2, 3⟩ ⟨0, 0, 1⟩ ≠ sub (⟨1, 2, 3⟩ : V3 α) (smul 2 (Gen.VecAlgo3.project tmin tmax sqrt ⟨0, 0, 1⟩ ⟨1, 2, 3⟩)) := by
  have hp : Gen.VecAlgo3.project tmin tmax sqrt ⟨0, 0, 1⟩ ⟨1, 2, 3⟩ = (⟨0, 0, 3⟩ : V3 α) := by
    rw [VecAlgo3_project tmin tmax sqrt hlen]; simp only [smul, dot, V3.mk.injEq]; norm_num
  have hr : Gen.VecAlgo3.reflect tmin tmax sqrt ⟨1, 2, 3⟩ ⟨0, 0, 1⟩ = (⟨-1, -2, 3⟩ : V3 α) := by
    rw [(VecAlgo3_reflect tmin tmax sqrt hlen ⟨1, 2, 3⟩ ⟨0, 0, 1⟩).1, hp]; simp only [sub, smul, V3.mk.injEq]; norm_num
  refine ⟨hr, ?_, ?_⟩
  · rw [hp]; simp only [sub, smul, V3.mk.injEq]; norm_num
  · rw [hr, hp]; simp only [sub, smul, V3.mk.injEq]; norm_num

/-! ## pinned statements

Each headline theorem is USED here at its full statement (written out a second time, the function value abbreviated as `r`).
A theorem whose statement is weakened during a proof repair (a conjunct dropped, a hypothesis added) no longer proves its
pinned copy, and the check reports `theorem:<name>_pinned`; a removed theorem is reported through the `required` list of
`tools/props/c15.py`. -/

theorem Line3_set_pinned (tmin tmax : α) (sqrt : α → α) (hlen : LenSpec (Gen.V3.length tmin tmax sqrt)) (p0 p1 : V3 α) (hne : p0 ≠ p1) :
    ∀ r, r = Gen.Line3.set tmin tmax sqrt p0 p1 →
      r.pos = p0 ∧ dot r.dir r.dir = 1 ∧ ∃ k, 0 < k ∧ k ^ 2 = dist2 p1 p0 ∧ sub p1 p0 = smul k r.dir := by
  intro r hr; subst hr; exact Line3_set tmin tmax sqrt hlen p0 p1 hne

theorem Line3_closestPointToPoint_pinned (l : Line3 α) (p : V3 α) (hu : dot l.dir l.dir = 1) :
    ∀ r, r = Gen.Line3.closestPointToPoint l p →
      OnLine l r ∧ dot (sub p r) l.dir = 0 ∧ ∀ t, dist2 p r ≤ dist2 p (lineAt l t) := by
  intro r hr; subst hr; exact Line3_closestPointToPoint l p hu

theorem Line3_distanceToPoint_pinned (tmin tmax : α) (sqrt : α → α) (hlen : LenSpec (Gen.V3.length tmin tmax sqrt)) (l : Line3 α) (p : V3 α) :
    ∀ r, r = Gen.Line3.distanceToPoint tmin tmax sqrt l p →
      0 ≤ r ∧ r ^ 2 = dist2 (Gen.Line3.closestPointToPoint l p) p ∧ (dot l.dir l.dir = 1 → ∀ t, r ^ 2 ≤ dist2 p (lineAt l t)) := by
  intro r hr; subst hr; exact Line3_distanceToPoint tmin tmax sqrt hlen l p

theorem Line3_closestPointToLine_pinned (tmax : α) (l1 l2 : Line3 α) (hu1 : dot l1.dir l1.dir = 1) (hu2 : dot l2.dir l2.dir = 1) :
    ∀ r, r = Gen.Line3.closestPointToLine tmax l1 l2 →
      OnLine l1 r ∧ (dot l2.dir l1.dir ^ 2 = 1 → r = l1.pos) ∧
      (dot l2.dir l1.dir ^ 2 ≠ 1 →
        (r = lineAt l1 (cplParam l1 l2) ∨ (tmax ≤ |cplParam l1 l2| ∧ r = l1.pos)) ∧
        (|cplParam l1 l2| < tmax → r = lineAt l1 (cplParam l1 l2)) ∧
        dot (sub (lineAt l1 (cplParam l1 l2)) (Gen.Line3.closestPointToPoint l2 (lineAt l1 (cplParam l1 l2)))) l1.dir = 0 ∧
        dot (sub (lineAt l1 (cplParam l1 l2)) (Gen.Line3.closestPointToPoint l2 (lineAt l1 (cplParam l1 l2)))) l2.dir = 0) := by
  intro r hr; subst hr; exact Line3_closestPointToLine tmax l1 l2 hu1 hu2

theorem LineAlgo_closestPoints_pinned (tmax : α) (l1 l2 : Line3 α) (hu1 : dot l1.dir l1.dir = 1) (hu2 : dot l2.dir l2.dir = 1) :
    ∀ r, r = Gen.LineAlgo.closestPoints tmax l1 l2 →
      (r.1 = true → OnLine l1 r.2.1 ∧ OnLine l2 r.2.2 ∧ dot (sub r.2.1 r.2.2) l1.dir = 0 ∧ dot (sub r.2.1 r.2.2) l2.dir = 0 ∧
        ∀ s t, dist2 r.2.1 r.2.2 ≤ dist2 (lineAt l1 s) (lineAt l2 t)) ∧
      (dot l1.dir l2.dir ^ 2 = 1 → r.1 = false) ∧
      (r.1 = false → dot l1.dir l2.dir ^ 2 = 1 ∨
        ∃ s t, dot (sub (lineAt l1 s) (lineAt l2 t)) l1.dir = 0 ∧ dot (sub (lineAt l1 s) (lineAt l2 t)) l2.dir = 0 ∧ (tmax ≤ |s| ∨ tmax ≤ |t|)) := by
  intro r hr; subst hr; exact LineAlgo_closestPoints tmax l1 l2 hu1 hu2

theorem Line3_distanceToLine_pinned (tmin tmax : α) (sqrt : α → α) (hlen : LenSpec (Gen.V3.length tmin tmax sqrt)) (l1 l2 : Line3 α)
    (hu1 : dot l1.dir l1.dir = 1) (hu2 : dot l2.dir l2.dir = 1) :
    ∀ r, r = Gen.Line3.distanceToLine tmin tmax sqrt l1 l2 →
      0 ≤ r ∧ (∀ s t, r ^ 2 ≤ dist2 (lineAt l1 s) (lineAt l2 t)) ∧ (∃ s t, r ^ 2 = dist2 (lineAt l1 s) (lineAt l2 t)) ∧
      (cross l1.dir l2.dir ≠ zero → ∀ Lc, 0 ≤ Lc → Lc ^ 2 = dot (cross l1.dir l2.dir) (cross l1.dir l2.dir) →
        r * Lc = |dot (sub l2.pos l1.pos) (cross l1.dir l2.dir)|) := by
  intro r hr; subst hr; exact Line3_distanceToLine tmin tmax sqrt hlen l1 l2 hu1 hu2

theorem Plane3_setPoints_pinned (tmin tmax : α) (sqrt : α → α) (hlen : LenSpec (Gen.V3.length tmin tmax sqrt)) (p1 p2 p3 : V3 α)
    (hnc : cross (sub p2 p1) (sub p3 p1) ≠ zero) :
    ∀ r, r = Gen.Plane3.setPoints tmin tmax sqrt p1 p2 p3 →
      dot r.normal r.normal = 1 ∧ OnPlane r p1 ∧ OnPlane r p2 ∧ OnPlane r p3 ∧
      ∃ k, 0 < k ∧ cross (sub p2 p1) (sub p3 p1) = smul k r.normal := by
  intro r hr; subst hr; exact Plane3_setPoints tmin tmax sqrt hlen p1 p2 p3 hnc

theorem Plane3_setPointNormal_pinned (tmin tmax : α) (sqrt : α → α) (hlen : LenSpec (Gen.V3.length tmin tmax sqrt)) (point n : V3 α) (hn : n ≠ zero) :
    ∀ r, r = Gen.Plane3.setPointNormal tmin tmax sqrt point n →
      dot r.normal r.normal = 1 ∧ OnPlane r point ∧ ∃ k, 0 < k ∧ n = smul k r.normal := by
  intro r hr; subst hr; exact Plane3_setPointNormal tmin tmax sqrt hlen point n hn

theorem Plane3_setNormalDistance_pinned (tmin tmax : α) (sqrt : α → α) (hlen : LenSpec (Gen.V3.length tmin tmax sqrt)) (n : V3 α) (d : α) (hn : n ≠ zero) :
    ∀ r, r = Gen.Plane3.setNormalDistance tmin tmax sqrt n d →
      dot r.normal r.normal = 1 ∧ r.distance = d ∧ OnPlane r (smul d r.normal) ∧ ∃ k, 0 < k ∧ n = smul k r.normal := by
  intro r hr; subst hr; exact Plane3_setNormalDistance tmin tmax sqrt hlen n d hn

theorem Plane3_reflectPoint_pinned (pl : Plane3 α) (p : V3 α) :
    ∀ r, r = Gen.Plane3.reflectPoint pl p →
      r = sub p (smul (2 * signedDist pl p) pl.normal) ∧
      (dot pl.normal pl.normal = 1 → signedDist pl r = - signedDist pl p ∧ Gen.Plane3.reflectPoint pl r = p) := by
  intro r hr; subst hr; exact Plane3_reflectPoint pl p

theorem Plane3_reflectVector_pinned (pl : Plane3 α) (v : V3 α) :
    ∀ r, r = Gen.Plane3.reflectVector pl v →
      r = sub (smul (2 * dot pl.normal v) pl.normal) v ∧
      (dot pl.normal pl.normal = 1 → dot pl.normal r = dot pl.normal v ∧ dot r r = dot v v ∧ Gen.Plane3.reflectVector pl r = v) := by
  intro r hr; subst hr; exact Plane3_reflectVector pl v

theorem Plane3_intersectT_pinned (pl : Plane3 α) (l : Line3 α) :
    ∀ r, r = Gen.Plane3.intersectT pl l →
      (dot pl.normal l.dir ≠ 0 → r.1 = true ∧ OnPlane pl (lineAt l r.2) ∧ ∀ t, OnPlane pl (lineAt l t) → t = r.2) ∧
      (dot pl.normal l.dir = 0 → r.1 = false) := by
  intro r hr; subst hr; exact Plane3_intersectT pl l

theorem Plane3_mulM44_pinned (tmin tmax : α) (sqrt : α → α) (hlen : LenSpec (Gen.V3.length tmin tmax sqrt)) (pl : Plane3 α) (m : M44 α)
    (hu : dot pl.normal pl.normal = 1) (haff : Affine m) (hdet : det3 m ≠ 0) :
    ∀ r, r = Gen.Plane3.mulM44 tmin tmax sqrt pl m →
      dot r.normal r.normal = 1 ∧ ∃ κ, 0 < κ ∧ ∀ p, signedDist r (mulM44 p m) = κ * det3 m * signedDist pl p := by
  intro r hr; subst hr; exact Plane3_mulM44 tmin tmax sqrt hlen pl m hu haff hdet

theorem Plane3_mulM44_projective_pinned (tmin tmax : α) (sqrt : α → α) (hlen : LenSpec (Gen.V3.length tmin tmax sqrt)) (pl : Plane3 α) (m : M44 α)
    (hu : dot pl.normal pl.normal = 1) (hw : MulM44Defined pl m) :
    ∀ r, r = Gen.Plane3.mulM44 tmin tmax sqrt pl m →
      (r = ⟨zero, 0⟩ ∨ dot r.normal r.normal = 1) ∧
      (∃ κ W, 0 ≤ κ ∧ W ≠ 0 ∧ (det4 m ≠ 0 → 0 < κ ∧ dot r.normal r.normal = 1) ∧
        ∀ p, wOf p m ≠ 0 → signedDist r (mulM44 p m) * (wOf p m * W) = κ * det4 m * signedDist pl p) ∧
      (∀ p, wOf p m ≠ 0 → OnPlane pl p → OnPlane r (mulM44 p m)) := by
  intro r hr; subst hr
  obtain ⟨h1, h2⟩ := Plane3_mulM44_projective tmin tmax sqrt hlen pl m hu hw
  exact ⟨h1, h2, fun p hp hon => Plane3_mulM44_projective_contains tmin tmax sqrt hlen pl m hu hw p hp hon⟩

theorem Sphere3_intersectT_pinned (sqrt : α → α) (hsqrt : SqrtSpec sqrt) (s : Sphere3 α) (l : Line3 α) (hu : dot l.dir l.dir = 1) :
    ∀ r, r = Gen.Sphere3.intersectT sqrt s l →
      (r.1 = true → 0 ≤ r.2 ∧ OnSphere s (lineAt l r.2) ∧ ∀ t, 0 ≤ t → OnSphere s (lineAt l t) → r.2 ≤ t) ∧
      (r.1 = false → ∀ t, 0 ≤ t → ¬ OnSphere s (lineAt l t)) := by
  intro r hr; subst hr; exact Sphere3_intersectT sqrt hsqrt s l hu

theorem Sphere3_circumscribe_pinned (tmin tmax : α) (sqrt : α → α) (hlen : LenSpec (Gen.V3.length tmin tmax sqrt)) (b : Box3 α) :
    ∀ r, r = Gen.Sphere3.circumscribe tmin tmax sqrt b →
      (∀ p, InBox b p → InBall r p) ∧ OnSphere r b.max ∧ OnSphere r b.min ∧ 0 ≤ r.radius := by
  intro r hr; subst hr; exact Sphere3_circumscribe tmin tmax sqrt hlen b

theorem LineAlgo_intersect_sound_pinned (tmin tmax : α) (sqrt : α → α) (hlen : LenSpec (Gen.V3.length tmin tmax sqrt))
    (l : Line3 α) (v0 v1 v2 : V3 α) :
    ∀ r, r = Gen.LineAlgo.intersect tmin tmax sqrt l v0 v1 v2 → r.1 = true →
      OnLine l r.2.1 ∧ 0 ≤ r.2.2.1.x ∧ 0 ≤ r.2.2.1.y ∧ 0 ≤ r.2.2.1.z ∧ r.2.2.1.x + r.2.2.1.y + r.2.2.1.z = 1 ∧
      r.2.1 = baryPoint r.2.2.1 v0 v1 v2 ∧ InTriangle v0 v1 v2 r.2.1 ∧ (r.2.2.2 = true ↔ dot l.dir (triN v0 v1 v2) < 0) := by
  intro r hr ht; subst hr; exact LineAlgo_intersect_sound tmin tmax sqrt hlen l v0 v1 v2 ht

theorem LineAlgo_intersect_complete_pinned (tmin tmax : α) (sqrt : α → α) (hlen : LenSpec (Gen.V3.length tmin tmax sqrt))
    (l : Line3 α) (v0 v1 v2 : V3 α) (t : α) (hN : triN v0 v1 v2 ≠ zero) (hnp : dot l.dir (triN v0 v1 v2) ≠ 0)
    (hin : InTriangle v0 v1 v2 (lineAt l t)) (ht : |t| < tmax) :
    (Gen.LineAlgo.intersect tmin tmax sqrt l v0 v1 v2).1 = true ∧
    ((triN v0 v1 v2 = zero ∨ dot l.dir (triN v0 v1 v2) = 0) → (Gen.LineAlgo.intersect tmin tmax sqrt l v0 v1 v2).1 = false) :=
  ⟨LineAlgo_intersect_complete tmin tmax sqrt hlen l v0 v1 v2 t hN hnp hin ht, LineAlgo_intersect_degenerate tmin tmax sqrt hlen l v0 v1 v2⟩

/-! ## joint non-vacuity: headline theorems instantiated over `ℝ` with `Real.sqrt` on concrete inputs, all hypotheses discharged
together, and a concrete value derived -/
section RealInstances

/-- `Sphere3_intersectT`: sphere of radius 5 about the origin, ray from `(−5,0,0)` along `+x` (origin ON the sphere): `true`, `t = 0` -/
theorem Sphere3_intersectT_real_instance :
    Gen.Sphere3.intersectT Real.sqrt (⟨⟨0, 0, 0⟩, 5⟩ : Sphere3 ℝ) ⟨⟨-5, 0, 0⟩, ⟨1, 0, 0⟩⟩ = (true, 0) := by
  obtain ⟨ht, hf⟩ := Sphere3_intersectT Real.sqrt realSqrtSpec (⟨⟨0, 0, 0⟩, 5⟩ : Sphere3 ℝ) ⟨⟨-5, 0, 0⟩, ⟨1, 0, 0⟩⟩ (by simp only [dot]; norm_num)
  have hon : OnSphere (⟨⟨0, 0, 0⟩, 5⟩ : Sphere3 ℝ) (lineAt ⟨⟨-5, 0, 0⟩, ⟨1, 0, 0⟩⟩ 0) := by
    simp only [OnSphere, dist2, dot, sub, lineAt]; norm_num
  cases hb : (Gen.Sphere3.intersectT Real.sqrt (⟨⟨0, 0, 0⟩, 5⟩ : Sphere3 ℝ) ⟨⟨-5, 0, 0⟩, ⟨1, 0, 0⟩⟩).1 with
  | false => exact absurd hon (hf hb 0 (le_refl _))
  | true =>
    obtain ⟨h0, _, hmin⟩ := ht hb
    have := hmin 0 (le_refl _) hon
    exact Prod.ext hb (le_antisymm this h0)

/-- `LineAlgo_intersect_complete` + `_sound`: the triangle (0,0,0),(1,0,0),(0,1,0), the line from (1/4,1/4,1) straight down, `tmax = 2`:
`true`, and the hit point is `(1/4,1/4,0)` -/
theorem LineAlgo_intersect_real_instance :
    (Gen.LineAlgo.intersect 0 2 Real.sqrt (⟨⟨1 / 4, 1 / 4, 1⟩, ⟨0, 0, -1⟩⟩ : Line3 ℝ) ⟨0, 0, 0⟩ ⟨1, 0, 0⟩ ⟨0, 1, 0⟩).1 = true ∧
    InTriangle (⟨0, 0, 0⟩ : V3 ℝ) ⟨1, 0, 0⟩ ⟨0, 1, 0⟩
      (Gen.LineAlgo.intersect 0 2 Real.sqrt (⟨⟨1 / 4, 1 / 4, 1⟩, ⟨0, 0, -1⟩⟩ : Line3 ℝ) ⟨0, 0, 0⟩ ⟨1, 0, 0⟩ ⟨0, 1, 0⟩).2.1 := by
  have h := LineAlgo_intersect_complete 0 2 Real.sqrt (realLenSpec 0 2) (⟨⟨1 / 4, 1 / 4, 1⟩, ⟨0, 0, -1⟩⟩ : Line3 ℝ) ⟨0, 0, 0⟩ ⟨1, 0, 0⟩ ⟨0, 1, 0⟩ 1
    (by simp only [triN, cross, sub, zero, V3.mk.injEq]; norm_num) (by simp only [triN, cross, sub, dot]; norm_num)
    ⟨⟨1 / 2, 1 / 4, 1 / 4⟩, by norm_num, by norm_num, by norm_num, by norm_num, by simp only [baryPoint, add, smul, lineAt, V3.mk.injEq]; norm_num⟩
    (by norm_num)
  exact ⟨h, (LineAlgo_intersect_sound 0 2 Real.sqrt (realLenSpec 0 2) _ _ _ _ h).2.2.2.2.2.2.1⟩

/-- `Plane3_mulM44` / `_contains` / `_sides`: the plane `(0,3/5,4/5)·x = 2`, `M` = scale 2 in x then translate by (5,6,7): the image of
the plane point `(1,2,1)` is on `plane*M`, and the image of `(0,0,5)` (signed distance 2) stays on the positive side -/
theorem Plane3_mulM44_real_instance (tmin tmax : ℝ) :
    OnPlane (Gen.Plane3.mulM44 tmin tmax Real.sqrt (⟨⟨0, 3 / 5, 4 / 5⟩, 2⟩ : Plane3 ℝ) ⟨2, 0, 0, 0, 0, 1, 0, 0, 0, 0, 1, 0, 5, 6, 7, 1⟩)
      (mulM44 ⟨1, 2, 1⟩ ⟨2, 0, 0, 0, 0, 1, 0, 0, 0, 0, 1, 0, 5, 6, 7, 1⟩) ∧
    0 < signedDist (Gen.Plane3.mulM44 tmin tmax Real.sqrt (⟨⟨0, 3 / 5, 4 / 5⟩, 2⟩ : Plane3 ℝ) ⟨2, 0, 0, 0, 0, 1, 0, 0, 0, 0, 1, 0, 5, 6, 7, 1⟩)
      (mulM44 ⟨0, 0, 5⟩ ⟨2, 0, 0, 0, 0, 1, 0, 0, 0, 0, 1, 0, 5, 6, 7, 1⟩) := by
  have hu : dot (⟨0, 3 / 5, 4 / 5⟩ : V3 ℝ) ⟨0, 3 / 5, 4 / 5⟩ = 1 := by simp only [dot]; norm_num
  have haff : Affine (⟨2, 0, 0, 0, 0, 1, 0, 0, 0, 0, 1, 0, 5, 6, 7, 1⟩ : M44 ℝ) := by simp only [Affine]; norm_num
  have hdet : 0 < det3 (⟨2, 0, 0, 0, 0, 1, 0, 0, 0, 0, 1, 0, 5, 6, 7, 1⟩ : M44 ℝ) := by simp only [det3]; norm_num
  constructor
  · exact (Plane3_mulM44_contains tmin tmax Real.sqrt (realLenSpec tmin tmax) _ _ hu haff (ne_of_gt hdet) ⟨1, 2, 1⟩).mpr
      (by simp only [OnPlane, signedDist, dot]; norm_num)
  · exact (Plane3_mulM44_sides tmin tmax Real.sqrt (realLenSpec tmin tmax) _ _ hu haff hdet ⟨0, 0, 5⟩).1.mpr
      (by simp only [signedDist, dot]; norm_num)

/-- `Plane3_mulM44_projective`: a genuinely projective, non-singular matrix (`w = 1 + z/4`) and the plane `z = 1`: the construction
`w`s are all `5/4`, `det M = 1`, and the image of the plane point `(3,−2,1)` is on `plane*M` -/
theorem Plane3_mulM44_projective_real_instance (tmin tmax : ℝ) :
    ¬ Affine (⟨1, 0, 0, 0, 0, 1, 0, 0, 0, 0, 1, 1 / 4, 0, 0, 0, 1⟩ : M44 ℝ) ∧
    dot (Gen.Plane3.mulM44 tmin tmax Real.sqrt (⟨⟨0, 0, 1⟩, 1⟩ : Plane3 ℝ) ⟨1, 0, 0, 0, 0, 1, 0, 0, 0, 0, 1, 1 / 4, 0, 0, 0, 1⟩).normal
        (Gen.Plane3.mulM44 tmin tmax Real.sqrt (⟨⟨0, 0, 1⟩, 1⟩ : Plane3 ℝ) ⟨1, 0, 0, 0, 0, 1, 0, 0, 0, 0, 1, 1 / 4, 0, 0, 0, 1⟩).normal = 1 ∧
    OnPlane (Gen.Plane3.mulM44 tmin tmax Real.sqrt (⟨⟨0, 0, 1⟩, 1⟩ : Plane3 ℝ) ⟨1, 0, 0, 0, 0, 1, 0, 0, 0, 0, 1, 1 / 4, 0, 0, 0, 1⟩)
      (mulM44 ⟨3, -2, 1⟩ ⟨1, 0, 0, 0, 0, 1, 0, 0, 0, 0, 1, 1 / 4, 0, 0, 0, 1⟩) := by
  have hu : dot (⟨0, 0, 1⟩ : V3 ℝ) ⟨0, 0, 1⟩ = 1 := by simp only [dot]; norm_num
  have hw : MulM44Defined (⟨⟨0, 0, 1⟩, 1⟩ : Plane3 ℝ) ⟨1, 0, 0, 0, 0, 1, 0, 0, 0, 0, 1, 1 / 4, 0, 0, 0, 1⟩ := by
    refine ⟨by simp only [wOf, smul]; norm_num, fun D hD _ => ?_⟩
    rcases hD with h | h | h <;> (subst h; simp only [wOf, add, smul, cross]; norm_num)
  have hdet : det4 (⟨1, 0, 0, 0, 0, 1, 0, 0, 0, 0, 1, 1 / 4, 0, 0, 0, 1⟩ : M44 ℝ) ≠ 0 := by simp only [det4]; norm_num
  obtain ⟨hunit, hiff⟩ := Plane3_mulM44_projective_iff tmin tmax Real.sqrt (realLenSpec tmin tmax) _ _ hu hw hdet
  refine ⟨by simp only [Affine]; norm_num, hunit, (hiff ⟨3, -2, 1⟩ (by simp only [wOf]; norm_num)).mpr (by simp only [OnPlane, signedDist, dot]; norm_num)⟩

/-- the remaining headline theorems applied to concrete real data with ALL their hypotheses discharged together -/
example (tmin tmax : ℝ) := Line3_set tmin tmax Real.sqrt (realLenSpec tmin tmax) ⟨0, 0, 0⟩ ⟨1, 2, 2⟩ (by intro h; simp only [V3.mk.injEq] at h; norm_num at h)
example := Line3_closestPointToLine (2 : ℝ) ⟨⟨0, 0, 0⟩, ⟨1, 0, 0⟩⟩ ⟨⟨0, 0, 1⟩, ⟨3 / 5, 4 / 5, 0⟩⟩ (by simp only [dot]; norm_num) (by simp only [dot]; norm_num)
example := LineAlgo_closestPoints (2 : ℝ) ⟨⟨0, 0, 0⟩, ⟨1, 0, 0⟩⟩ ⟨⟨0, 0, 1⟩, ⟨3 / 5, 4 / 5, 0⟩⟩ (by simp only [dot]; norm_num) (by simp only [dot]; norm_num)
example (tmin tmax : ℝ) := Line3_distanceToLine tmin tmax Real.sqrt (realLenSpec tmin tmax) ⟨⟨0, 0, 0⟩, ⟨1, 0, 0⟩⟩ ⟨⟨0, 0, 1⟩, ⟨3 / 5, 4 / 5, 0⟩⟩
  (by simp only [dot]; norm_num) (by simp only [dot]; norm_num)
example (tmin tmax : ℝ) := Plane3_setPoints tmin tmax Real.sqrt (realLenSpec tmin tmax) ⟨0, 0, 0⟩ ⟨1, 0, 0⟩ ⟨0, 1, 0⟩
  (by simp only [cross, sub, zero, V3.mk.injEq]; norm_num)
example (tmin tmax : ℝ) := Plane3_neg tmin tmax Real.sqrt (realLenSpec tmin tmax) ⟨⟨0, 3 / 5, 4 / 5⟩, 2⟩ (by simp only [dot]; norm_num)
example (tmin tmax : ℝ) := LineAlgo_closestVertex_geo (⟨0, 0, 0⟩ : V3 ℝ) ⟨1, 0, 0⟩ ⟨0, 1, 0⟩ ⟨⟨0, 0, 1⟩, ⟨3 / 5, 4 / 5, 0⟩⟩ (by simp only [dot]; norm_num)
example (tmin tmax : ℝ) := LineAlgo_rotatePoint_circle tmin tmax Real.sqrt (fun _ => 3 / 5) (fun _ => 4 / 5) (realLenSpec tmin tmax) ⟨1, 2, 3⟩ ⟨⟨0, 0, 1⟩, ⟨3 / 5, 4 / 5, 0⟩⟩ 1
  (by simp only [dot]; norm_num) (by norm_num)
end RealInstances

/-! non-vacuity of the hypotheses of the new theorems -/
/-- `cpDen_stored_parallel`: the same (slightly non-unit) direction twice, `δ = 1/1000` -/
example : |dot (⟨1001 / 1000, 0, 0⟩ : V3 ℚ) ⟨1001 / 1000, 0, 0⟩ - 1| ≤ 21 / 10000 := by simp only [dot]; norm_num [abs_le]
/-- `Line3_mulM44`: an affine matrix (scale 2 in x, translation (5,6,7)) that does not collapse the direction (1,0,0) -/
example : Affine (⟨2, 0, 0, 0, 0, 1, 0, 0, 0, 0, 1, 0, 5, 6, 7, 1⟩ : M44 ℚ) ∧
    mulM44 (⟨0, 0, 0⟩ : V3 ℚ) ⟨2, 0, 0, 0, 0, 1, 0, 0, 0, 0, 1, 0, 5, 6, 7, 1⟩ ≠ mulM44 (add ⟨0, 0, 0⟩ ⟨1, 0, 0⟩) ⟨2, 0, 0, 0, 0, 1, 0, 0, 0, 0, 1, 0, 5, 6, 7, 1⟩ := by
  refine ⟨by simp only [Affine]; norm_num, ?_⟩
  simp only [mulM44, add, ne_eq, V3.mk.injEq]; norm_num
/-- `Line3_closestPointToLine_no_div_by_zero`: a result different from `pos` (skew unit lines, foot at parameter 0 ≠ … ) — the
guard predicate of the quotient branch holds with a non-zero denominator -/
example : cplDen (⟨⟨0, 0, 0⟩, ⟨1, 0, 0⟩⟩ : Line3 ℚ) ⟨⟨1, 0, 1⟩, ⟨3 / 5, 4 / 5, 0⟩⟩ ≠ 0 ∧
    |cplNum (⟨⟨0, 0, 0⟩, ⟨1, 0, 0⟩⟩ : Line3 ℚ) ⟨⟨1, 0, 1⟩, ⟨3 / 5, 4 / 5, 0⟩⟩| < |cplDen (⟨⟨0, 0, 0⟩, ⟨1, 0, 0⟩⟩ : Line3 ℚ) ⟨⟨1, 0, 1⟩, ⟨3 / 5, 4 / 5, 0⟩⟩| * 2 := by
  simp only [cplDen, cplNum, dot, sub]; norm_num
/-- and a parallel pair: zero denominator -/
example : cplDen (⟨⟨0, 0, 0⟩, ⟨1, 0, 0⟩⟩ : Line3 ℚ) ⟨⟨0, 2, 0⟩, ⟨-1, 0, 0⟩⟩ = 0 := by simp only [cplDen, dot]; norm_num
/-- `Sphere3_intersectT_zero_dir`: a zero direction, origin strictly inside -/
example : (⟨⟨1, 0, 0⟩, zero⟩ : Line3 ℚ).dir = zero ∧ dist2 (⟨1, 0, 0⟩ : V3 ℚ) ⟨0, 0, 0⟩ < 2 * 2 := by
  refine ⟨rfl, ?_⟩; simp only [dist2, dot, sub]; norm_num

end ImathVerif.C15
