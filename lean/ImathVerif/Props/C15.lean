import ImathVerif.Spec.GeoSpec
import ImathVerif.Lemmas.C15Lemmas
import ImathVerif.Gen.C15Line
import ImathVerif.Gen.C15Plane
import ImathVerif.Gen.C15PlaneMul
import ImathVerif.Gen.C15Sphere
import ImathVerif.Gen.C15Algo
/-!
# C15 — line, plane, sphere and triangle primitives satisfy their geometric definitions

`Gen.*` is regenerated from `ImathLine.h`, `ImathLineAlgo.h`, `ImathPlane.h`, `ImathSphere.h`, `ImathVecAlgo.h`
on every run (T = Sym path extraction; `Vec::length()` is the opaque call `Gen.V?.length tmin sqrt`, whose body is
extracted separately).  All statements are over an arbitrary ordered field `α`; the Euclidean length enters
through the hypothesis `LenSpec (Gen.V3.length tmin sqrt)` (`len v ^ 2 = v·v ∧ 0 ≤ len v`), the square root of
`Sphere3::intersectT` through `SqrtSpec sqrt`, and `sin/cos` of `rotatePoint` are arbitrary functions (the
Pythagorean identity is a hypothesis where it is used).  `tmax` is `numeric_limits<T>::max()`: the overflow guards
are part of the model and the theorems say exactly when they fire.  The vocabulary (`dot`, `cross`, `lineAt`,
`OnLine`, `signedDist`, `OnPlane`, `OnSphere`, `InBall`, `InBox`, `InTriangle`, `baryPoint`, `dist2`) is in
`Spec/GeoSpec.lean`.  Rounding is not covered by these theorems (DESIGN.md §3); it is measured by the check.
-/
set_option linter.unusedSectionVars false
set_option linter.unusedSimpArgs false
set_option linter.unusedVariables false
set_option linter.unusedTactic false
set_option linter.unreachableTactic false

namespace ImathVerif.C15
open ImathVerif ImathVerif.Geo

variable {α : Type} [Field α] [LinearOrder α] [IsStrictOrderedRing α]

/-! ## Line3 -/

/-- `Line3::set(p0,p1)` for distinct points: `pos = p0`, `dir` is a unit vector and `p1 − p0 = k·dir` with `k > 0`
(so `p1` is on the line at the positive parameter `k = |p1 − p0|`) -/
theorem Line3_set (tmin : α) (sqrt : α → α) (hlen : LenSpec (Gen.V3.length tmin sqrt)) (p0 p1 : V3 α) (hne : p0 ≠ p1) :
    (Gen.Line3.set tmin sqrt p0 p1).pos = p0 ∧
    dot (Gen.Line3.set tmin sqrt p0 p1).dir (Gen.Line3.set tmin sqrt p0 p1).dir = 1 ∧
    ∃ k, 0 < k ∧ k ^ 2 = dist2 p1 p0 ∧ sub p1 p0 = smul k (Gen.Line3.set tmin sqrt p0 p1).dir := by
  simp only [Gen.Line3.set]
  len_intro hlen L hsq hnn
  have hL : L ≠ 0 := len_ne_zero hsq (sub_ne_zero_of_ne hne)
  have hpos : 0 < L := lt_of_le_of_ne hnn (Ne.symm hL)
  rw [if_neg hL]
  refine ⟨rfl, ?_, L, hpos, ?_, ?_⟩
  · simp only [dot] at hsq ⊢
    field_simp
    linarith
  · simp only [dist2, sub]; exact hsq
  · simp only [sub, smul, V3.mk.injEq]
    refine ⟨?_, ?_, ?_⟩ <;> field_simp

/-- degenerate `set(p,p)`: the direction stays the zero vector (nothing is divided by zero) -/
theorem Line3_set_degenerate (tmin : α) (sqrt : α → α) (hlen : LenSpec (Gen.V3.length tmin sqrt)) (p : V3 α) :
    Gen.Line3.set tmin sqrt p p = ⟨p, zero⟩ := by
  simp only [Gen.Line3.set]
  len_intro hlen L hsq hnn
  have hL : L = 0 := by
    simp only [dot, sub_self, mul_zero, add_zero] at hsq
    exact pow_eq_zero_iff (two_ne_zero) |>.mp hsq
  rw [if_pos hL]
  simp only [zero, sub_self]

theorem Line3_ctor (tmin : α) (sqrt : α → α) (p0 p1 : V3 α) :
    Gen.Line3.ctor tmin sqrt p0 p1 = Gen.Line3.set tmin sqrt p0 p1 := rfl

/-- `operator()(t) = pos + t·dir` -/
theorem Line3_eval (l : Line3 α) (t : α) : Gen.Line3.eval l t = lineAt l t := by
  first
    | rfl
    | (simp only [Gen.Line3.eval, lineAt, V3.mk.injEq]; refine ⟨?_, ?_, ?_⟩ <;> ring)

/-- what `closestPointTo(point)` computes for ANY direction: the point at parameter `(p − pos)·dir` -/
theorem Line3_closestPointToPoint_def (l : Line3 α) (p : V3 α) :
    Gen.Line3.closestPointToPoint l p = lineAt l (dot (sub p l.pos) l.dir) := by
  simp only [Gen.Line3.closestPointToPoint, lineAt, dot, sub, V3.mk.injEq]
  refine ⟨?_, ?_, ?_⟩ <;> ring

/-- for a unit direction it is the foot of the perpendicular: on the line, the connecting segment is perpendicular
to the direction, and no point of the line is nearer -/
theorem Line3_closestPointToPoint (l : Line3 α) (p : V3 α) (hu : dot l.dir l.dir = 1) :
    OnLine l (Gen.Line3.closestPointToPoint l p) ∧
    dot (sub p (Gen.Line3.closestPointToPoint l p)) l.dir = 0 ∧
    ∀ t, dist2 p (Gen.Line3.closestPointToPoint l p) ≤ dist2 p (lineAt l t) := by
  have hperp : dot (sub p (lineAt l (dot (sub p l.pos) l.dir))) l.dir = 0 := by
    simp only [dot, sub, lineAt] at hu ⊢
    linear_combination (-((p.x - l.pos.x) * l.dir.x + (p.y - l.pos.y) * l.dir.y + (p.z - l.pos.z) * l.dir.z)) * hu
  rw [Line3_closestPointToPoint_def]
  exact ⟨⟨_, rfl⟩, hperp, dist2_min_of_perp_point l p _ hperp⟩

/-- `distanceTo(point)` is the length of that segment, hence (unit direction) the minimum distance to the line -/
theorem Line3_distanceToPoint (tmin : α) (sqrt : α → α) (hlen : LenSpec (Gen.V3.length tmin sqrt)) (l : Line3 α) (p : V3 α) :
    0 ≤ Gen.Line3.distanceToPoint tmin sqrt l p ∧
    Gen.Line3.distanceToPoint tmin sqrt l p ^ 2 = dist2 (Gen.Line3.closestPointToPoint l p) p ∧
    (dot l.dir l.dir = 1 → ∀ t, Gen.Line3.distanceToPoint tmin sqrt l p ^ 2 ≤ dist2 p (lineAt l t)) := by
  have h2 : Gen.Line3.distanceToPoint tmin sqrt l p ^ 2 = dist2 (Gen.Line3.closestPointToPoint l p) p := by
    simp only [Gen.Line3.distanceToPoint, Gen.Line3.closestPointToPoint]
    len_intro hlen L hsq hnn
    rw [hsq]; simp only [dist2, sub]
  refine ⟨?_, h2, ?_⟩
  · simp only [Gen.Line3.distanceToPoint]
    len_intro hlen L hsq hnn
    exact hnn
  · intro hu t
    rw [h2]
    have := (Line3_closestPointToPoint l p hu).2.2 t
    have hsym : dist2 (Gen.Line3.closestPointToPoint l p) p = dist2 p (Gen.Line3.closestPointToPoint l p) := by
      simp only [dist2, dot, sub]; ring
    rw [hsym]; exact this

/-- `closestPointTo(line)` (unit directions, as the code assumes).  The result is always a point of `l1`.
Parallel lines are handled: the result is `l1.pos` (every point is a nearest one; nothing is divided by zero in the
C++: the guard `|num| ≥ |denom|·max` fires with `0 ≥ 0`).  Otherwise, with `s = cplParam l1 l2` the parameter of the
foot of the common perpendicular (the segment from `l1(s)` to its nearest point on `l2` is perpendicular to BOTH
directions), the result is `l1(s)` whenever `|s| < tmax`, and is `l1(s)` or — only if `|s| ≥ tmax`, the overflow
guard — `l1.pos`. -/
theorem Line3_closestPointToLine (tmax : α) (l1 l2 : Line3 α) (hu1 : dot l1.dir l1.dir = 1) (hu2 : dot l2.dir l2.dir = 1) :
    OnLine l1 (Gen.Line3.closestPointToLine tmax l1 l2) ∧
    (dot l2.dir l1.dir ^ 2 = 1 → Gen.Line3.closestPointToLine tmax l1 l2 = l1.pos) ∧
    (dot l2.dir l1.dir ^ 2 ≠ 1 →
      (Gen.Line3.closestPointToLine tmax l1 l2 = lineAt l1 (cplParam l1 l2) ∨
        (tmax ≤ |cplParam l1 l2| ∧ Gen.Line3.closestPointToLine tmax l1 l2 = l1.pos)) ∧
      (|cplParam l1 l2| < tmax → Gen.Line3.closestPointToLine tmax l1 l2 = lineAt l1 (cplParam l1 l2)) ∧
      dot (sub (lineAt l1 (cplParam l1 l2)) (Gen.Line3.closestPointToPoint l2 (lineAt l1 (cplParam l1 l2)))) l1.dir = 0 ∧
      dot (sub (lineAt l1 (cplParam l1 l2)) (Gen.Line3.closestPointToPoint l2 (lineAt l1 (cplParam l1 l2)))) l2.dir = 0) := by
  have hle := unit_dot_sq_le l2.dir l1.dir hu2 hu1
  have hpos0 : l1.pos = lineAt l1 0 := by
    cases l1; simp only [lineAt, mul_zero, add_zero]
  -- the two possible results
  have hres : (Gen.Line3.closestPointToLine tmax l1 l2 = lineAt l1 (cplParam l1 l2) ∧
        (|dot l1.dir (sub l1.pos l2.pos) - dot l2.dir l1.dir * dot l2.dir (sub l1.pos l2.pos)| < |dot l2.dir l1.dir * dot l2.dir l1.dir - 1| * tmax
          ∨ 1 ≤ |dot l2.dir l1.dir * dot l2.dir l1.dir - 1|)) ∨
      (Gen.Line3.closestPointToLine tmax l1 l2 = l1.pos ∧
        |dot l2.dir l1.dir * dot l2.dir l1.dir - 1| * tmax ≤ |dot l1.dir (sub l1.pos l2.pos) - dot l2.dir l1.dir * dot l2.dir (sub l1.pos l2.pos)|) := by
    simp only [Gen.Line3.closestPointToLine, cplParam, dot, sub, lineAt]
    split_ifs with h1 h2 h3 h4 h5 h6 h7 h8 h9
    all_goals first
      | (left; refine ⟨rfl, ?_⟩
         first
          | (right; rw [abs_of_nonneg (by linarith)]; linarith)
          | (right; rw [abs_of_neg (by linarith)]; linarith)
          | (left; rw [abs_of_nonneg (by linarith), abs_of_nonneg (by linarith)]; linarith)
          | (left; rw [abs_of_nonneg (by linarith), abs_of_neg (by linarith)]; linarith)
          | (left; rw [abs_of_neg (by linarith), abs_of_nonneg (by linarith)]; linarith)
          | (left; rw [abs_of_neg (by linarith), abs_of_neg (by linarith)]; linarith))
      | (right; refine ⟨by cases l1; rfl, ?_⟩
         first
          | (rw [abs_of_nonneg (by linarith), abs_of_nonneg (by linarith)]; linarith)
          | (rw [abs_of_nonneg (by linarith), abs_of_neg (by linarith)]; linarith)
          | (rw [abs_of_neg (by linarith), abs_of_nonneg (by linarith)]; linarith)
          | (rw [abs_of_neg (by linarith), abs_of_neg (by linarith)]; linarith))
  have habs : dot l2.dir l1.dir ^ 2 ≠ 1 → |cplParam l1 l2| * |dot l2.dir l1.dir * dot l2.dir l1.dir - 1|
      = |dot l1.dir (sub l1.pos l2.pos) - dot l2.dir l1.dir * dot l2.dir (sub l1.pos l2.pos)| ∧ 0 < |dot l2.dir l1.dir * dot l2.dir l1.dir - 1| := by
    intro hnp
    have hden : dot l2.dir l1.dir * dot l2.dir l1.dir - 1 ≠ 0 := fun h => hnp (by linear_combination h)
    refine ⟨?_, abs_pos.mpr hden⟩
    rw [← abs_mul]; congr 1; unfold cplParam; field_simp
  refine ⟨?_, ?_, ?_⟩
  · rcases hres with ⟨h, _⟩ | ⟨h, _⟩
    · exact ⟨_, h⟩
    · exact ⟨0, by rw [h]; exact hpos0⟩
  · intro hpar
    have hD : dot l2.dir l1.dir * dot l2.dir l1.dir - 1 = 0 := by linear_combination hpar
    rcases hres with ⟨h, _⟩ | ⟨h, _⟩
    · rw [h, cplParam, hD, div_zero]; exact hpos0.symm
    · exact h
  · intro hnp
    obtain ⟨hs, hDpos⟩ := habs hnp
    constructor
    · rcases hres with ⟨h, _⟩ | ⟨h, hg⟩
      · exact Or.inl h
      · refine Or.inr ⟨?_, h⟩
        rw [← hs] at hg
        by_contra hlt
        have hlt := not_le.mp hlt
        nlinarith
    refine ⟨?_, by rw [Line3_closestPointToPoint_def]; exact cplParam_perp l1 l2 hu1 hu2 hnp⟩
    · intro hlt
      rcases hres with ⟨h, _⟩ | ⟨h, hg⟩
      · exact h
      · exfalso
        rw [← hs] at hg
        nlinarith

/-! ## closestPoints (ImathLineAlgo.h) -/

/-- the value computed by `closestPoints`, by cases on its guard -/
theorem closestPoints_cases (tmax : α) (l1 l2 : Line3 α) :
    (Gen.LineAlgo.closestPoints tmax l1 l2 = (true, lineAt l1 (cpNum1 l1 l2 / cpDen l1 l2), lineAt l2 (cpNum2 l1 l2 / cpDen l1 l2)) ∧
      (1 < |cpDen l1 l2| ∨ (|cpNum1 l1 l2| < tmax * |cpDen l1 l2| ∧ |cpNum2 l1 l2| < tmax * |cpDen l1 l2|))) ∨
    (Gen.LineAlgo.closestPoints tmax l1 l2 = (false, zero, zero) ∧ |cpDen l1 l2| ≤ 1 ∧
      (tmax * |cpDen l1 l2| ≤ |cpNum1 l1 l2| ∨ tmax * |cpDen l1 l2| ≤ |cpNum2 l1 l2|)) := by
  simp only [Gen.LineAlgo.closestPoints, sabs_eq_abs, cpDen, cpNum1, cpNum2, dot, sub, lineAt, zero]
  split_ifs with h1 h2 h3
  · exact Or.inl ⟨rfl, Or.inl h1⟩
  · exact Or.inl ⟨rfl, Or.inr ⟨h2, h3⟩⟩
  · exact Or.inr ⟨rfl, not_lt.mp h1, Or.inr (not_lt.mp h3)⟩
  · exact Or.inr ⟨rfl, not_lt.mp h1, Or.inl (not_lt.mp h2)⟩


/-- `closestPoints` (unit directions).  `true`: the returned points lie on their lines, the connecting segment is
perpendicular to BOTH directions and is the shortest segment between the lines.  Parallel lines are reported
`false` (nothing is divided by zero: `true` implies `1 − (d1·d2)² ≠ 0` for ANY directions).  `false` happens only for
parallel lines or when a foot parameter reaches `tmax` in absolute value (the overflow guard). -/
theorem LineAlgo_closestPoints (tmax : α) (l1 l2 : Line3 α) (hu1 : dot l1.dir l1.dir = 1) (hu2 : dot l2.dir l2.dir = 1) :
    ((Gen.LineAlgo.closestPoints tmax l1 l2).1 = true →
      OnLine l1 (Gen.LineAlgo.closestPoints tmax l1 l2).2.1 ∧ OnLine l2 (Gen.LineAlgo.closestPoints tmax l1 l2).2.2 ∧
      dot (sub (Gen.LineAlgo.closestPoints tmax l1 l2).2.1 (Gen.LineAlgo.closestPoints tmax l1 l2).2.2) l1.dir = 0 ∧
      dot (sub (Gen.LineAlgo.closestPoints tmax l1 l2).2.1 (Gen.LineAlgo.closestPoints tmax l1 l2).2.2) l2.dir = 0 ∧
      ∀ s t, dist2 (Gen.LineAlgo.closestPoints tmax l1 l2).2.1 (Gen.LineAlgo.closestPoints tmax l1 l2).2.2
              ≤ dist2 (lineAt l1 s) (lineAt l2 t)) ∧
    (dot l1.dir l2.dir ^ 2 = 1 → (Gen.LineAlgo.closestPoints tmax l1 l2).1 = false) ∧
    ((Gen.LineAlgo.closestPoints tmax l1 l2).1 = false →
      dot l1.dir l2.dir ^ 2 = 1 ∨
      ∃ s t, dot (sub (lineAt l1 s) (lineAt l2 t)) l1.dir = 0 ∧ dot (sub (lineAt l1 s) (lineAt l2 t)) l2.dir = 0 ∧
        (tmax ≤ |s| ∨ tmax ≤ |t|)) := by
  rcases closestPoints_cases tmax l1 l2 with ⟨h, hg⟩ | ⟨h, hle, hg⟩
  · have hd : cpDen l1 l2 ≠ 0 := by
      intro h0
      rw [h0, abs_zero, mul_zero] at hg
      rcases hg with hg | ⟨hg, _⟩
      · linarith
      · exact absurd hg (not_lt.mpr (abs_nonneg _))
    obtain ⟨hp1, hp2⟩ := cp_perp l1 l2 hu1 hu2 hd
    rw [h]
    refine ⟨fun _ => ⟨⟨_, rfl⟩, ⟨_, rfl⟩, hp1, hp2, dist2_min_of_perp l1 l2 _ _ hp1 hp2⟩, ?_, fun hf => (by cases hf)⟩
    intro hpar
    exact absurd (show cpDen l1 l2 = 0 by unfold cpDen; linear_combination -hpar) hd
  · rw [h]
    refine ⟨fun hf => (by cases hf), fun _ => rfl, fun _ => ?_⟩
    by_cases hd : cpDen l1 l2 = 0
    · left; unfold cpDen at hd; linear_combination -hd
    · right
      obtain ⟨hp1, hp2⟩ := cp_perp l1 l2 hu1 hu2 hd
      refine ⟨_, _, hp1, hp2, ?_⟩
      have hpos : 0 < |cpDen l1 l2| := abs_pos.mpr hd
      rcases hg with hg | hg
      · left; rw [abs_div, le_div_iff₀ hpos]; exact hg
      · right; rw [abs_div, le_div_iff₀ hpos]; exact hg

/-- never divides by zero, for arbitrary (not necessarily unit) directions -/
theorem LineAlgo_closestPoints_no_div_by_zero (tmax : α) (l1 l2 : Line3 α) :
    (Gen.LineAlgo.closestPoints tmax l1 l2).1 = true → 1 - dot l1.dir l2.dir * dot l1.dir l2.dir ≠ 0 := by
  rcases closestPoints_cases tmax l1 l2 with ⟨h, hg⟩ | ⟨h, hle, hg⟩
  · intro _ h0
    change cpDen l1 l2 = 0 at h0
    rw [h0, abs_zero, mul_zero] at hg
    rcases hg with hg | ⟨hg, _⟩
    · linarith
    · exact absurd hg (not_lt.mpr (abs_nonneg _))
  · rw [h]; intro hf; cases hf

/-! ## Line3::distanceTo(Line3) -/

def Line3_distanceToLine_impl (tmin : α) (sqrt : α → α) (l1 l2 : Line3 α) : α := by
  first
    | exact Gen.Line3.distanceToLine tmin sqrt l1 l2
    | exact Gen.Line3.distanceToLine sqrt l1 l2
    | exact Gen.Line3.distanceToLine l1 l2

theorem Line3_distanceToLine_partial (tmin : α) (sqrt : α → α) (hlen : LenSpec (Gen.V3.length tmin sqrt)) (l1 l2 : Line3 α)
    (hu1 : dot l1.dir l1.dir = 1) (hu2 : dot l2.dir l2.dir = 1) (hperp : dot l1.dir l2.dir = 0) :
    0 ≤ Line3_distanceToLine_impl tmin sqrt l1 l2 ∧
    (∀ s t, Line3_distanceToLine_impl tmin sqrt l1 l2 ^ 2 ≤ dist2 (lineAt l1 s) (lineAt l2 t)) ∧
    (∃ s t, Line3_distanceToLine_impl tmin sqrt l1 l2 ^ 2 = dist2 (lineAt l1 s) (lineAt l2 t)) := by
  have hden : cpDen l1 l2 ≠ 0 := by unfold cpDen; rw [hperp]; norm_num
  obtain ⟨hp1, hp2⟩ := cp_perp l1 l2 hu1 hu2 hden
  have hV := perp_both_sq _ l1.dir l2.dir hp1 hp2
  have hn : dot (cross l1.dir l2.dir) (cross l1.dir l2.dir) = 1 := by rw [lagrange, hu1, hu2, hperp]; ring
  have hDsq : ∀ x : α, (if 0 ≤ x then x else -x) ^ 2 = x ^ 2 := by
    intro x; split_ifs <;> ring
  have hVn : dot (sub (lineAt l1 (cpNum1 l1 l2 / cpDen l1 l2)) (lineAt l2 (cpNum2 l1 l2 / cpDen l1 l2))) (cross l1.dir l2.dir)
      = -((l1.dir.y * l2.dir.z - l1.dir.z * l2.dir.y) * (l2.pos.x - l1.pos.x) + (l1.dir.z * l2.dir.x - l1.dir.x * l2.dir.z) * (l2.pos.y - l1.pos.y)
          + (l1.dir.x * l2.dir.y - l1.dir.y * l2.dir.x) * (l2.pos.z - l1.pos.z)) := by
    simp only [dot, sub, lineAt, cross]; ring
  rw [hn, hVn, mul_one] at hV
  have hD : Line3_distanceToLine_impl tmin sqrt l1 l2 ^ 2
      = dist2 (lineAt l1 (cpNum1 l1 l2 / cpDen l1 l2)) (lineAt l2 (cpNum2 l1 l2 / cpDen l1 l2)) := by
    unfold Line3_distanceToLine_impl dist2
    simp only [Gen.Line3.distanceToLine]
    rw [hDsq, hV]; ring
  refine ⟨?_, fun s t => by rw [hD]; exact dist2_min_of_perp l1 l2 _ _ hp1 hp2 s t, ⟨_, _, hD⟩⟩
  unfold Line3_distanceToLine_impl
  simp only [Gen.Line3.distanceToLine]
  split_ifs with h
  · exact h
  · linarith

/-! ## Plane3 -/

/-- plane through three non-collinear points: unit normal, positively parallel to `(p2−p1)×(p3−p1)`, and all three
defining points have signed distance zero -/
theorem Plane3_setPoints (tmin : α) (sqrt : α → α) (hlen : LenSpec (Gen.V3.length tmin sqrt)) (p1 p2 p3 : V3 α)
    (hnc : cross (sub p2 p1) (sub p3 p1) ≠ zero) :
    dot (Gen.Plane3.setPoints tmin sqrt p1 p2 p3).normal (Gen.Plane3.setPoints tmin sqrt p1 p2 p3).normal = 1 ∧
    OnPlane (Gen.Plane3.setPoints tmin sqrt p1 p2 p3) p1 ∧ OnPlane (Gen.Plane3.setPoints tmin sqrt p1 p2 p3) p2 ∧
    OnPlane (Gen.Plane3.setPoints tmin sqrt p1 p2 p3) p3 ∧
    ∃ k, 0 < k ∧ cross (sub p2 p1) (sub p3 p1) = smul k (Gen.Plane3.setPoints tmin sqrt p1 p2 p3).normal := by
  simp only [Gen.Plane3.setPoints]
  len_intro hlen L hsq hnn
  have hL : L ≠ 0 := len_ne_zero hsq (by simpa only [cross, sub] using hnc)
  have hpos : 0 < L := lt_of_le_of_ne hnn (Ne.symm hL)
  rw [if_neg hL]
  simp only [dot] at hsq
  refine ⟨?_, ?_, ?_, ?_, L, hpos, ?_⟩
  · simp only [dot]; field_simp; linarith
  · simp only [OnPlane, signedDist, dot]; ring
  · simp only [OnPlane, signedDist, dot]; field_simp; ring
  · simp only [OnPlane, signedDist, dot]; field_simp; ring
  · simp only [cross, sub, smul, V3.mk.injEq]
    refine ⟨?_, ?_, ?_⟩ <;> field_simp

/-- collinear points: the normal stays the zero vector (nothing is divided by zero) -/
theorem Plane3_setPoints_degenerate (tmin : α) (sqrt : α → α) (hlen : LenSpec (Gen.V3.length tmin sqrt)) (p1 p2 p3 : V3 α)
    (hc : cross (sub p2 p1) (sub p3 p1) = zero) :
    Gen.Plane3.setPoints tmin sqrt p1 p2 p3 = ⟨zero, 0⟩ := by
  simp only [Gen.Plane3.setPoints]
  len_intro hlen L hsq hnn
  simp only [cross, sub, zero, V3.mk.injEq] at hc
  obtain ⟨h1, h2, h3⟩ := hc
  have hL : L = 0 := by
    simp only [dot, h1, h2, h3, mul_zero, add_zero] at hsq
    exact pow_eq_zero_iff (two_ne_zero) |>.mp hsq
  rw [if_pos hL]
  simp only [zero, h1, h2, h3, zero_mul, add_zero]

theorem Plane3_ctorPoints (tmin : α) (sqrt : α → α) (p1 p2 p3 : V3 α) :
    Gen.Plane3.ctorPoints tmin sqrt p1 p2 p3 = Gen.Plane3.setPoints tmin sqrt p1 p2 p3 := rfl

/-- point + (non-zero) normal: unit normal positively parallel to `n`, the defining point has signed distance zero -/
theorem Plane3_setPointNormal (tmin : α) (sqrt : α → α) (hlen : LenSpec (Gen.V3.length tmin sqrt)) (point n : V3 α) (hn : n ≠ zero) :
    dot (Gen.Plane3.setPointNormal tmin sqrt point n).normal (Gen.Plane3.setPointNormal tmin sqrt point n).normal = 1 ∧
    OnPlane (Gen.Plane3.setPointNormal tmin sqrt point n) point ∧
    ∃ k, 0 < k ∧ n = smul k (Gen.Plane3.setPointNormal tmin sqrt point n).normal := by
  simp only [Gen.Plane3.setPointNormal]
  len_intro hlen L hsq hnn
  have hL : L ≠ 0 := len_ne_zero hsq (by cases n; simpa only [zero] using hn)
  have hpos : 0 < L := lt_of_le_of_ne hnn (Ne.symm hL)
  rw [if_neg hL]
  simp only [dot] at hsq
  refine ⟨?_, ?_, L, hpos, ?_⟩
  · simp only [dot]; field_simp; linarith
  · simp only [OnPlane, signedDist, dot]; ring
  · cases n; simp only [smul, V3.mk.injEq]
    refine ⟨?_, ?_, ?_⟩ <;> field_simp

theorem Plane3_ctorPointNormal (tmin : α) (sqrt : α → α) (point n : V3 α) :
    Gen.Plane3.ctorPointNormal tmin sqrt point n = Gen.Plane3.setPointNormal tmin sqrt point n := rfl

/-- (non-zero) normal + distance: unit normal positively parallel to `n`, `distance = d`, and the point `d·normal`
is on the plane -/
theorem Plane3_setNormalDistance (tmin : α) (sqrt : α → α) (hlen : LenSpec (Gen.V3.length tmin sqrt)) (n : V3 α) (d : α) (hn : n ≠ zero) :
    dot (Gen.Plane3.setNormalDistance tmin sqrt n d).normal (Gen.Plane3.setNormalDistance tmin sqrt n d).normal = 1 ∧
    (Gen.Plane3.setNormalDistance tmin sqrt n d).distance = d ∧
    OnPlane (Gen.Plane3.setNormalDistance tmin sqrt n d) (smul d (Gen.Plane3.setNormalDistance tmin sqrt n d).normal) ∧
    ∃ k, 0 < k ∧ n = smul k (Gen.Plane3.setNormalDistance tmin sqrt n d).normal := by
  simp only [Gen.Plane3.setNormalDistance]
  len_intro hlen L hsq hnn
  have hL : L ≠ 0 := len_ne_zero hsq (by cases n; simpa only [zero] using hn)
  have hpos : 0 < L := lt_of_le_of_ne hnn (Ne.symm hL)
  rw [if_neg hL]
  simp only [dot] at hsq
  refine ⟨?_, rfl, ?_, L, hpos, ?_⟩
  · simp only [dot]; field_simp; linarith
  · simp only [OnPlane, signedDist, dot, smul]; field_simp; linear_combination d * hsq.symm
  · cases n; simp only [smul, V3.mk.injEq]
    refine ⟨?_, ?_, ?_⟩ <;> field_simp

theorem Plane3_ctorNormalDistance (tmin : α) (sqrt : α → α) (n : V3 α) (d : α) :
    Gen.Plane3.ctorNormalDistance tmin sqrt n d = Gen.Plane3.setNormalDistance tmin sqrt n d := rfl

/-- `distanceTo` is the signed distance `normal·p − distance` -/
theorem Plane3_distanceTo (pl : Plane3 α) (p : V3 α) : Gen.Plane3.distanceTo pl p = signedDist pl p := by
  simp only [Gen.Plane3.distanceTo, signedDist, dot]; ring

/-- `reflectPoint p = p − 2·dist(p)·normal`; for a unit normal it is an involution that negates the signed distance
(so the midpoint of `p` and its image lies on the plane and the connecting segment is parallel to the normal) -/
theorem Plane3_reflectPoint (pl : Plane3 α) (p : V3 α) :
    Gen.Plane3.reflectPoint pl p = sub p (smul (2 * signedDist pl p) pl.normal) ∧
    (dot pl.normal pl.normal = 1 →
      signedDist pl (Gen.Plane3.reflectPoint pl p) = - signedDist pl p ∧
      Gen.Plane3.reflectPoint pl (Gen.Plane3.reflectPoint pl p) = p) := by
  refine ⟨?_, fun hu => ⟨?_, ?_⟩⟩
  · simp only [Gen.Plane3.reflectPoint, signedDist, dot, sub, smul, V3.mk.injEq]
    refine ⟨?_, ?_, ?_⟩ <;> ring
  · simp only [Gen.Plane3.reflectPoint, signedDist, dot] at hu ⊢
    linear_combination (-2 * (p.x * pl.normal.x + p.y * pl.normal.y + p.z * pl.normal.z - pl.distance)) * hu
  · cases p with | mk px py pz =>
    simp only [Gen.Plane3.reflectPoint, dot, V3.mk.injEq] at hu ⊢
    refine ⟨?_, ?_, ?_⟩
    · linear_combination (4 * pl.normal.x * (px * pl.normal.x + py * pl.normal.y + pz * pl.normal.z - pl.distance)) * hu
    · linear_combination (4 * pl.normal.y * (px * pl.normal.x + py * pl.normal.y + pz * pl.normal.z - pl.distance)) * hu
    · linear_combination (4 * pl.normal.z * (px * pl.normal.x + py * pl.normal.y + pz * pl.normal.z - pl.distance)) * hu

/-- `reflectVector v = 2(n·v)n − v` (the mirror-direction convention: the normal component is kept, the tangential
component is negated); for a unit normal it is an involution and preserves length -/
theorem Plane3_reflectVector (pl : Plane3 α) (v : V3 α) :
    Gen.Plane3.reflectVector pl v = sub (smul (2 * dot pl.normal v) pl.normal) v ∧
    (dot pl.normal pl.normal = 1 →
      dot pl.normal (Gen.Plane3.reflectVector pl v) = dot pl.normal v ∧
      dot (Gen.Plane3.reflectVector pl v) (Gen.Plane3.reflectVector pl v) = dot v v ∧
      Gen.Plane3.reflectVector pl (Gen.Plane3.reflectVector pl v) = v) := by
  refine ⟨?_, fun hu => ⟨?_, ?_, ?_⟩⟩
  · simp only [Gen.Plane3.reflectVector, dot, sub, smul, V3.mk.injEq]
    refine ⟨?_, ?_, ?_⟩ <;> ring
  · simp only [Gen.Plane3.reflectVector, dot] at hu ⊢
    linear_combination (2 * (pl.normal.x * v.x + pl.normal.y * v.y + pl.normal.z * v.z)) * hu
  · simp only [Gen.Plane3.reflectVector, dot] at hu ⊢
    linear_combination (4 * (pl.normal.x * v.x + pl.normal.y * v.y + pl.normal.z * v.z) ^ 2) * hu
  · cases v with | mk vx vy vz =>
    simp only [Gen.Plane3.reflectVector, dot, V3.mk.injEq] at hu ⊢
    refine ⟨?_, ?_, ?_⟩
    · linear_combination (4 * pl.normal.x * (pl.normal.x * vx + pl.normal.y * vy + pl.normal.z * vz)) * hu
    · linear_combination (4 * pl.normal.y * (pl.normal.x * vx + pl.normal.y * vy + pl.normal.z * vz)) * hu
    · linear_combination (4 * pl.normal.z * (pl.normal.x * vx + pl.normal.y * vy + pl.normal.z * vz)) * hu

/-- line–plane `intersectT`: for a line not parallel to the plane the result is `true` with THE parameter whose point
lies on the plane; a parallel line (`normal·dir = 0`) is reported `false` (nothing is divided by zero) -/
theorem Plane3_intersectT (pl : Plane3 α) (l : Line3 α) :
    (dot pl.normal l.dir ≠ 0 →
      (Gen.Plane3.intersectT pl l).1 = true ∧ OnPlane pl (lineAt l (Gen.Plane3.intersectT pl l).2) ∧
      ∀ t, OnPlane pl (lineAt l t) → t = (Gen.Plane3.intersectT pl l).2) ∧
    (dot pl.normal l.dir = 0 → (Gen.Plane3.intersectT pl l).1 = false) := by
  simp only [Gen.Plane3.intersectT, dot, OnPlane, signedDist, lineAt]
  constructor
  · intro hd
    rw [if_neg hd]
    refine ⟨rfl, ?_, ?_⟩
    · simp only []; field_simp; ring
    · intro t ht
      simp only []
      field_simp
      linear_combination ht
  · intro hd
    rw [if_pos hd]

/-- `intersect` returns the same verdict and the point at the parameter of `intersectT`, which lies on the line and
on the plane -/
theorem Plane3_intersect (pl : Plane3 α) (l : Line3 α) :
    (Gen.Plane3.intersect pl l).1 = (Gen.Plane3.intersectT pl l).1 ∧
    ((Gen.Plane3.intersect pl l).1 = true →
      (Gen.Plane3.intersect pl l).2 = lineAt l (Gen.Plane3.intersectT pl l).2 ∧
      OnLine l (Gen.Plane3.intersect pl l).2 ∧ OnPlane pl (Gen.Plane3.intersect pl l).2) := by
  by_cases hd : dot pl.normal l.dir = 0
  · have hd' := hd
    simp only [dot] at hd'
    constructor
    · simp only [Gen.Plane3.intersect, Gen.Plane3.intersectT, if_pos hd']
    · intro h
      simp only [Gen.Plane3.intersect, if_pos hd'] at h
      cases h
  · have hT := (Plane3_intersectT pl l).1 hd
    have hd' := hd
    simp only [dot] at hd'
    have hpt : (Gen.Plane3.intersect pl l).2 = lineAt l (Gen.Plane3.intersectT pl l).2 := by
      simp only [Gen.Plane3.intersect, Gen.Plane3.intersectT, if_neg hd', lineAt]
    refine ⟨?_, fun _ => ⟨hpt, ⟨_, hpt⟩, ?_⟩⟩
    · simp only [Gen.Plane3.intersect, Gen.Plane3.intersectT, if_neg hd']
    · rw [hpt]; exact hT.2.1

/-- unary minus of a plane with unit normal: the same point set with the opposite orientation -/
theorem Plane3_neg (tmin : α) (sqrt : α → α) (hlen : LenSpec (Gen.V3.length tmin sqrt)) (pl : Plane3 α)
    (hu : dot pl.normal pl.normal = 1) :
    Gen.Plane3.neg tmin sqrt pl = ⟨neg pl.normal, -pl.distance⟩ ∧
    ∀ p, signedDist (Gen.Plane3.neg tmin sqrt pl) p = - signedDist pl p := by
  have h1 : Gen.Plane3.neg tmin sqrt pl = ⟨neg pl.normal, -pl.distance⟩ := by
    simp only [Gen.Plane3.neg]
    len_intro hlen L hsq hnn
    have hL : L = 1 := by
      apply len_unit _ hnn
      rw [hsq]; simp only [dot] at hu ⊢; linear_combination hu
    subst hL
    simp only [one_ne_zero, if_false, div_one, neg]
  refine ⟨h1, fun p => ?_⟩
  rw [h1]; simp only [signedDist, dot, neg]; ring


/-! ## operator* (Plane3, Matrix44) -/

/-- the plane through the images of `point = d·n`, `point + D×n`, `point + D` -/
def planeVia (tmin : α) (sqrt : α → α) (pl : Plane3 α) (m : M44 α) (D : V3 α) : Plane3 α :=
  Gen.Plane3.setPoints tmin sqrt (mulM44 (smul pl.distance pl.normal) m)
    (mulM44 (add (smul pl.distance pl.normal) (cross D pl.normal)) m) (mulM44 (add (smul pl.distance pl.normal) D) m)

theorem Plane3_mulM44_cases (tmin : α) (sqrt : α → α) (pl : Plane3 α) (m : M44 α) :
    ∃ D, (D = cross ⟨1, 0, 0⟩ pl.normal ∨ D = cross ⟨0, 1, 0⟩ pl.normal ∨ D = cross ⟨0, 0, 1⟩ pl.normal) ∧
      dot (cross ⟨1, 0, 0⟩ pl.normal) (cross ⟨1, 0, 0⟩ pl.normal) ≤ dot D D ∧
      dot (cross ⟨0, 1, 0⟩ pl.normal) (cross ⟨0, 1, 0⟩ pl.normal) ≤ dot D D ∧
      dot (cross ⟨0, 0, 1⟩ pl.normal) (cross ⟨0, 0, 1⟩ pl.normal) ≤ dot D D ∧
      Gen.Plane3.mulM44 tmin sqrt pl m = planeVia tmin sqrt pl m D := by
  by_cases c1 : dot (cross ⟨1, 0, 0⟩ pl.normal) (cross ⟨1, 0, 0⟩ pl.normal) < dot (cross ⟨0, 1, 0⟩ pl.normal) (cross ⟨0, 1, 0⟩ pl.normal)
  · by_cases c2 : dot (cross ⟨0, 1, 0⟩ pl.normal) (cross ⟨0, 1, 0⟩ pl.normal) < dot (cross ⟨0, 0, 1⟩ pl.normal) (cross ⟨0, 0, 1⟩ pl.normal)
    · refine ⟨cross ⟨0, 0, 1⟩ pl.normal, Or.inr (Or.inr rfl), by linarith, by linarith, le_refl _, ?_⟩
      simp only [dot, cross] at c1 c2
      simp only [Gen.Plane3.mulM44, planeVia, dot, cross, mulM44, add, sub, smul, if_pos c1, if_pos c2]
    · refine ⟨cross ⟨0, 1, 0⟩ pl.normal, Or.inr (Or.inl rfl), by linarith, le_refl _, by linarith, ?_⟩
      simp only [dot, cross] at c1 c2
      simp only [Gen.Plane3.mulM44, planeVia, dot, cross, mulM44, add, sub, smul, if_pos c1, if_neg c2]
  · by_cases c3 : dot (cross ⟨1, 0, 0⟩ pl.normal) (cross ⟨1, 0, 0⟩ pl.normal) < dot (cross ⟨0, 0, 1⟩ pl.normal) (cross ⟨0, 0, 1⟩ pl.normal)
    · refine ⟨cross ⟨0, 0, 1⟩ pl.normal, Or.inr (Or.inr rfl), by linarith, by linarith, le_refl _, ?_⟩
      simp only [dot, cross] at c1 c3
      simp only [Gen.Plane3.mulM44, planeVia, dot, cross, mulM44, add, sub, smul, if_neg c1, if_pos c3]
    · refine ⟨cross ⟨1, 0, 0⟩ pl.normal, Or.inl rfl, le_refl _, by linarith, by linarith, ?_⟩
      simp only [dot, cross] at c1 c3
      simp only [Gen.Plane3.mulM44, planeVia, dot, cross, mulM44, add, sub, smul, if_neg c1, if_neg c3]

/-- `plane * M` for a plane with unit normal and a non-singular AFFINE `M` (last column `(0,0,0,1)ᵀ`): the result has a
unit normal and the signed distance of every transformed point is a POSITIVE multiple `κ` of `det(M₃ₓ₃)` times the
original signed distance.  Hence `p` on the plane ⇒ `p*M` on `plane*M` (it contains the transformed points of the
plane), and for `det > 0` every point stays on the same side (for `det < 0` the sides are swapped). -/
theorem Plane3_mulM44 (tmin : α) (sqrt : α → α) (hlen : LenSpec (Gen.V3.length tmin sqrt)) (pl : Plane3 α) (m : M44 α)
    (hu : dot pl.normal pl.normal = 1) (haff : Affine m) (hdet : det3 m ≠ 0) :
    dot (Gen.Plane3.mulM44 tmin sqrt pl m).normal (Gen.Plane3.mulM44 tmin sqrt pl m).normal = 1 ∧
    ∃ κ, 0 < κ ∧ ∀ p, signedDist (Gen.Plane3.mulM44 tmin sqrt pl m) (mulM44 p m) = κ * det3 m * signedDist pl p := by
  obtain ⟨D, hD, h1, h2, h3, heq⟩ := Plane3_mulM44_cases tmin sqrt pl m
  have hDn : dot D pl.normal = 0 := by
    rcases hD with h | h | h <;> (rw [h]; simp only [dot, cross]; ring)
  have hDpos : 0 < dot D D := by
    have hsum : dot (cross ⟨1, 0, 0⟩ pl.normal) (cross ⟨1, 0, 0⟩ pl.normal) + dot (cross ⟨0, 1, 0⟩ pl.normal) (cross ⟨0, 1, 0⟩ pl.normal)
        + dot (cross ⟨0, 0, 1⟩ pl.normal) (cross ⟨0, 0, 1⟩ pl.normal) = 2 * dot pl.normal pl.normal := by
      simp only [dot, cross]; ring
    rw [hu] at hsum
    linarith
  have hnc := xformNormal_ne_zero pl.normal pl.distance m D haff hdet hu hDn hDpos
  obtain ⟨hunit, hP0, _, _, k, hk, hkN⟩ := Plane3_setPoints tmin sqrt hlen _ _ _ hnc
  rw [heq]
  refine ⟨hunit, dot D D / k, div_pos hDpos hk, fun p => ?_⟩
  have hcore := plane_xform_core pl.normal pl.distance m D p haff
  have e1 : dot pl.normal (sub p (smul pl.distance pl.normal)) = signedDist pl p := by
    simp only [dot, sub, smul, signedDist] at hu ⊢; linear_combination (-pl.distance) * hu
  rw [hDn, e1, zero_mul, sub_zero] at hcore
  have e2 : ∀ v, dot (xformNormal pl.normal pl.distance m D) v = k * dot (planeVia tmin sqrt pl m D).normal v := by
    intro v
    unfold xformNormal planeVia
    rw [hkN]; simp only [dot, smul]; ring
  have e3 : signedDist (planeVia tmin sqrt pl m D) (mulM44 p m)
      = dot (planeVia tmin sqrt pl m D).normal (sub (mulM44 p m) (mulM44 (smul pl.distance pl.normal) m)) := by
    have h0 : signedDist (planeVia tmin sqrt pl m D) (mulM44 (smul pl.distance pl.normal) m) = 0 := hP0
    simp only [signedDist, dot, sub] at h0 ⊢
    linear_combination h0
  rw [e3]
  rw [e2] at hcore
  field_simp
  linear_combination hcore

/-- corollary: `plane * M` contains the image of every point of the plane, and only those -/
theorem Plane3_mulM44_contains (tmin : α) (sqrt : α → α) (hlen : LenSpec (Gen.V3.length tmin sqrt)) (pl : Plane3 α) (m : M44 α)
    (hu : dot pl.normal pl.normal = 1) (haff : Affine m) (hdet : det3 m ≠ 0) (p : V3 α) :
    OnPlane (Gen.Plane3.mulM44 tmin sqrt pl m) (mulM44 p m) ↔ OnPlane pl p := by
  obtain ⟨_, κ, hκ, h⟩ := Plane3_mulM44 tmin sqrt hlen pl m hu haff hdet
  unfold OnPlane
  rw [h p]
  constructor
  · intro h0
    rcases mul_eq_zero.mp h0 with h1 | h1
    · rcases mul_eq_zero.mp h1 with h2 | h2
      · exact absurd h2 (ne_of_gt hκ)
      · exact absurd h2 hdet
    · exact h1
  · intro h0; rw [h0, mul_zero]

/-- corollary: an orientation-preserving `M` keeps every point on the same side of the plane -/
theorem Plane3_mulM44_sides (tmin : α) (sqrt : α → α) (hlen : LenSpec (Gen.V3.length tmin sqrt)) (pl : Plane3 α) (m : M44 α)
    (hu : dot pl.normal pl.normal = 1) (haff : Affine m) (hdet : 0 < det3 m) (p : V3 α) :
    (0 < signedDist (Gen.Plane3.mulM44 tmin sqrt pl m) (mulM44 p m) ↔ 0 < signedDist pl p) ∧
    (signedDist (Gen.Plane3.mulM44 tmin sqrt pl m) (mulM44 p m) < 0 ↔ signedDist pl p < 0) := by
  obtain ⟨_, κ, hκ, h⟩ := Plane3_mulM44 tmin sqrt hlen pl m hu haff (ne_of_gt hdet)
  rw [h p]
  have hpos : 0 < κ * det3 m := mul_pos hκ hdet
  constructor
  · exact ⟨fun h0 => (pos_iff_pos_of_mul_pos (by linarith : 0 < κ * det3 m * signedDist pl p)).mp hpos |> fun x => x, fun h0 => mul_pos hpos h0⟩
  · constructor
    · intro h0
      by_contra hc
      have := mul_nonneg (le_of_lt hpos) (not_lt.mp hc)
      linarith
    · intro h0; exact mul_neg_of_pos_of_neg hpos h0

/-! `Plane3_mulM44` covers non-singular AFFINE matrices with `m[3][3] = 1`.  Missing (would be `_partial` items of the
full property): projective matrices (the `Vec3 * Matrix44` homogeneous divide is in the model, `Plane3_mulM44_cases`
holds for every `M`, but the incidence statement for a projective map is not proved) and singular matrices. -/

end ImathVerif.C15
