import ImathVerif.Lemmas.C07Lemmas
import ImathVerif.Gen.C07Algo
/-!
# C07 — ImathMatrixAlgo.h: the `exc` flag of the decomposition functions (2-D versions and both `checkForZeroScaleInRow`)

One body per function, with the flag threaded down to `checkForZeroScaleInRow`; each function is extracted twice, with
`exc = false` (suffix `F`, returns a `bool` + outputs) and `exc = true` (suffix `T`, returns or throws).  Pair theorems:

* `okOpt (fT x) = flagOpt (fF x)`: the checked call returns `r` ⇒ the unchecked call returns the same `r` (flag `true`,
  same matrix / scale / shear / rotation / translation); the checked call throws ⇔ the unchecked one returns `false`;
* the only exception kind is `std::domain_error` (documented in the header comment);
* `checkForZeroScaleInRow` fails exactly on the `>=` guard `abs (scl) < 1 && abs (row[i]) >= max * abs (scl)`.

`removeScaling` / `sansScaling` (2-D, 1,656 paths each; `sin` / `cos` / `atan2` are parameters) are extracted too — these are the
two functions of the family that had a genuine defect (DESIGN §7).  All 3-D versions have more than 5,000 paths: those pairs are
decided by correspondence (harness `c07_pairs`, with every `checkForZeroScaleInRow` call site reached).
-/
set_option linter.unusedSectionVars false
set_option linter.unusedVariables false
set_option linter.unusedSimpArgs false
set_option maxRecDepth 4000
namespace ImathVerif.C07
open ImathVerif

variable {α : Type} [Field α] [LinearOrder α] [IsStrictOrderedRing α]

/-- compares the `exc = true` tree with the `exc = false` tree leaf by leaf -/
macro "flag_tac " "[" ds:ident,* "]" : tactic =>
  `(tactic| (simp only [$[$ds:ident],*, apply_ite okOpt, apply_ite flagOpt, apply_ite (errIs _), apply_ite (unexc _), okOpt_ok, okOpt_error,
      flagOpt_true, flagOpt_false, errIs_ok, errIs_error, unexc_ok, unexc_error, decide_true, ite_self]))

/-! ## checkForZeroScaleInRow (Vec2 and Vec3 rows) -/

theorem Algo_checkForZeroScaleInRow2_pair (tmax scl : α) (row : V2 α) :
    unexc false (Gen.C07.Algo.checkForZeroScaleInRow2T tmax scl row) = Gen.C07.Algo.checkForZeroScaleInRow2F tmax scl row ∧
    unexc true (Gen.C07.Algo.checkForZeroScaleInRow2T tmax scl row) = true ∧
    errIs Exc.domainError (Gen.C07.Algo.checkForZeroScaleInRow2T tmax scl row) = true := by
  refine ⟨?_, ?_, ?_⟩ <;> flag_tac [Gen.C07.Algo.checkForZeroScaleInRow2T, Gen.C07.Algo.checkForZeroScaleInRow2F]

theorem Algo_checkForZeroScaleInRow3_pair (tmax scl : α) (row : V3 α) :
    unexc false (Gen.C07.Algo.checkForZeroScaleInRow3T tmax scl row) = Gen.C07.Algo.checkForZeroScaleInRow3F tmax scl row ∧
    unexc true (Gen.C07.Algo.checkForZeroScaleInRow3T tmax scl row) = true ∧
    errIs Exc.domainError (Gen.C07.Algo.checkForZeroScaleInRow3T tmax scl row) = true := by
  refine ⟨?_, ?_, ?_⟩ <;> flag_tac [Gen.C07.Algo.checkForZeroScaleInRow3T, Gen.C07.Algo.checkForZeroScaleInRow3F]

/-- `exc = true` returns ⇒ it returns `true` and so does `exc = false`; it throws `std::domain_error` ⇔ `exc = false` returns `false` -/
theorem Algo_checkForZeroScaleInRow2 (tmax scl : α) (row : V2 α) :
    (∀ v, Gen.C07.Algo.checkForZeroScaleInRow2T tmax scl row = .ok v → v = true ∧ Gen.C07.Algo.checkForZeroScaleInRow2F tmax scl row = true) ∧
    (∀ k, Gen.C07.Algo.checkForZeroScaleInRow2T tmax scl row = .error k ↔
      (k = Exc.domainError ∧ Gen.C07.Algo.checkForZeroScaleInRow2F tmax scl row = false)) := by
  obtain ⟨h1, h2, h3⟩ := Algo_checkForZeroScaleInRow2_pair tmax scl row
  cases hT : Gen.C07.Algo.checkForZeroScaleInRow2T tmax scl row with
  | ok v => rw [hT] at h1 h2; simp only [unexc_ok] at h1 h2; subst h2; simp [← h1]
  | error e => rw [hT] at h1 h3; simp only [unexc_error, errIs_error, decide_eq_true_eq] at h1 h3; subst h3; simp [← h1, eq_comm]

theorem Algo_checkForZeroScaleInRow3 (tmax scl : α) (row : V3 α) :
    (∀ v, Gen.C07.Algo.checkForZeroScaleInRow3T tmax scl row = .ok v → v = true ∧ Gen.C07.Algo.checkForZeroScaleInRow3F tmax scl row = true) ∧
    (∀ k, Gen.C07.Algo.checkForZeroScaleInRow3T tmax scl row = .error k ↔
      (k = Exc.domainError ∧ Gen.C07.Algo.checkForZeroScaleInRow3F tmax scl row = false)) := by
  obtain ⟨h1, h2, h3⟩ := Algo_checkForZeroScaleInRow3_pair tmax scl row
  cases hT : Gen.C07.Algo.checkForZeroScaleInRow3T tmax scl row with
  | ok v => rw [hT] at h1 h2; simp only [unexc_ok] at h1 h2; subst h2; simp [← h1]
  | error e => rw [hT] at h1 h3; simp only [unexc_error, errIs_error, decide_eq_true_eq] at h1 h3; subst h3; simp [← h1, eq_comm]

/-- the unchecked form reports failure exactly when some component trips the `>=` guard: `|scl| < 1` and `scl = 0` or the
EXACT quotient `row[i] / scl` (which the caller is about to compute) has magnitude at least `tmax` -/
theorem Algo_checkForZeroScaleInRow2F_false_iff (tmax scl : α) (row : V2 α) :
    Gen.C07.Algo.checkForZeroScaleInRow2F tmax scl row = false ↔ (guardGe tmax row.x scl ∨ guardGe tmax row.y scl) := by
  simp only [Gen.C07.Algo.checkForZeroScaleInRow2F, sabs_eq_abs, guardGe]
  split_ifs <;> simp_all

theorem Algo_checkForZeroScaleInRow3F_false_iff (tmax scl : α) (row : V3 α) :
    Gen.C07.Algo.checkForZeroScaleInRow3F tmax scl row = false ↔
      (guardGe tmax row.x scl ∨ guardGe tmax row.y scl ∨ guardGe tmax row.z scl) := by
  simp only [Gen.C07.Algo.checkForZeroScaleInRow3F, sabs_eq_abs, guardGe]
  split_ifs <;> simp_all

/-- well-conditioned rows never fail: `|scl| ≥ 1`, or every exact quotient below `tmax` -/
theorem Algo_checkForZeroScaleInRow3_never (tmax scl : α) (row : V3 α)
    (h : 1 ≤ |scl| ∨ (scl ≠ 0 ∧ |row.x / scl| < tmax ∧ |row.y / scl| < tmax ∧ |row.z / scl| < tmax)) :
    Gen.C07.Algo.checkForZeroScaleInRow3T tmax scl row = .ok true := by
  have hF : Gen.C07.Algo.checkForZeroScaleInRow3F tmax scl row = true := by
    rw [← Bool.not_eq_false, Algo_checkForZeroScaleInRow3F_false_iff]
    rintro (hg | hg | hg) <;> rcases h with h | ⟨h0, hx, hy, hz⟩
    · exact not_guardGe_of_one_le _ _ _ h hg
    · exact not_guardGe_of_lt _ _ _ h0 hx hg
    · exact not_guardGe_of_one_le _ _ _ h hg
    · exact not_guardGe_of_lt _ _ _ h0 hy hg
    · exact not_guardGe_of_one_le _ _ _ h hg
    · exact not_guardGe_of_lt _ _ _ h0 hz hg
  cases hT : Gen.C07.Algo.checkForZeroScaleInRow3T tmax scl row with
  | ok v => rw [((Algo_checkForZeroScaleInRow3 tmax scl row).1 v hT).1]
  | error e => exact absurd hF (by rw [(((Algo_checkForZeroScaleInRow3 tmax scl row).2 e).mp hT).2]; simp)

example : (1 : ℚ) ≤ |(-3 : ℚ)| := by norm_num
example : Gen.C07.Algo.checkForZeroScaleInRow3T (1048576 : ℚ) 0 ⟨1, 2, 3⟩ = .error Exc.domainError := by
  norm_num [Gen.C07.Algo.checkForZeroScaleInRow3T, sabs]

/-! ## the 2-D decomposition functions (648 paths each, `extractSHRT` 1,656) -/

theorem Algo_extractScaling2_pair (tmin tmax : α) (sqrt : α → α) (m : M33 α) :
    okOpt (Gen.C07.Algo.extractScaling2T tmin tmax sqrt m) = flagOpt (Gen.C07.Algo.extractScaling2F tmin tmax sqrt m) ∧
    errIs Exc.domainError (Gen.C07.Algo.extractScaling2T tmin tmax sqrt m) = true := by
  constructor <;> flag_tac [Gen.C07.Algo.extractScaling2T, Gen.C07.Algo.extractScaling2F]

theorem Algo_extractScalingAndShear2_pair (tmin tmax : α) (sqrt : α → α) (m : M33 α) :
    okOpt (Gen.C07.Algo.extractScalingAndShear2T tmin tmax sqrt m) = flagOpt (Gen.C07.Algo.extractScalingAndShear2F tmin tmax sqrt m) ∧
    errIs Exc.domainError (Gen.C07.Algo.extractScalingAndShear2T tmin tmax sqrt m) = true := by
  constructor <;> flag_tac [Gen.C07.Algo.extractScalingAndShear2T, Gen.C07.Algo.extractScalingAndShear2F]

theorem Algo_extractAndRemoveScalingAndShear2_pair (tmin tmax : α) (sqrt : α → α) (m : M33 α) :
    okOpt (Gen.C07.Algo.extractAndRemoveScalingAndShear2T tmin tmax sqrt m) =
      flagOpt (Gen.C07.Algo.extractAndRemoveScalingAndShear2F tmin tmax sqrt m) ∧
    errIs Exc.domainError (Gen.C07.Algo.extractAndRemoveScalingAndShear2T tmin tmax sqrt m) = true := by
  constructor <;> flag_tac [Gen.C07.Algo.extractAndRemoveScalingAndShear2T, Gen.C07.Algo.extractAndRemoveScalingAndShear2F]

theorem Algo_removeScalingAndShear2_pair (tmin tmax : α) (sqrt : α → α) (m : M33 α) :
    okOpt (Gen.C07.Algo.removeScalingAndShear2T tmin tmax sqrt m) = flagOpt (Gen.C07.Algo.removeScalingAndShear2F tmin tmax sqrt m) ∧
    errIs Exc.domainError (Gen.C07.Algo.removeScalingAndShear2T tmin tmax sqrt m) = true := by
  constructor <;> flag_tac [Gen.C07.Algo.removeScalingAndShear2T, Gen.C07.Algo.removeScalingAndShear2F]

theorem Algo_extractSHRT2_pair (tmin tmax : α) (sqrt : α → α) (atan2 : α → α → α) (m : M33 α) :
    okOpt (Gen.C07.Algo.extractSHRT2T tmin tmax sqrt atan2 m) = flagOpt (Gen.C07.Algo.extractSHRT2F tmin tmax sqrt atan2 m) ∧
    errIs Exc.domainError (Gen.C07.Algo.extractSHRT2T tmin tmax sqrt atan2 m) = true := by
  constructor <;> flag_tac [Gen.C07.Algo.extractSHRT2T, Gen.C07.Algo.extractSHRT2F]

theorem M33_eta (m : M33 α) : (⟨m.x00, m.x01, m.x02, m.x10, m.x11, m.x12, m.x20, m.x21, m.x22⟩ : M33 α) = m := rfl

/-- `sansScalingAndShear (m, true)` returns ⇒ `sansScalingAndShear (m, false)` returns the same matrix; it throws (only
`std::domain_error`) ⇒ the unchecked form reports failure by returning `m` itself -/
theorem Algo_sansScalingAndShear2_pair (tmin tmax : α) (sqrt : α → α) (m : M33 α) :
    unexc m (Gen.C07.Algo.sansScalingAndShear2T tmin tmax sqrt m) = Gen.C07.Algo.sansScalingAndShear2F tmin tmax sqrt m ∧
    errIs Exc.domainError (Gen.C07.Algo.sansScalingAndShear2T tmin tmax sqrt m) = true := by
  constructor
  · flag_tac [Gen.C07.Algo.sansScalingAndShear2T, Gen.C07.Algo.sansScalingAndShear2F, M33_eta]
  · flag_tac [Gen.C07.Algo.sansScalingAndShear2T]

/-- `removeScaling (m, true)` (2-D) against `removeScaling (m, false)`: returns ⇒ the same flag `true` and the same rebuilt matrix
(translate · rotate · shear, with the same `sin` / `cos` / `atan2` applied to the same arguments); throws ⇔ flag `false` -/
theorem Algo_removeScaling2_pair (tmin tmax : α) (sqrt sin cos : α → α) (atan2 : α → α → α) (m : M33 α) :
    okOpt (Gen.C07.Algo.removeScaling2T tmin tmax sqrt sin cos atan2 m) = flagOpt (Gen.C07.Algo.removeScaling2F tmin tmax sqrt sin cos atan2 m) ∧
    errIs Exc.domainError (Gen.C07.Algo.removeScaling2T tmin tmax sqrt sin cos atan2 m) = true := by
  constructor <;> flag_tac [Gen.C07.Algo.removeScaling2T, Gen.C07.Algo.removeScaling2F]

/-- `sansScaling (m, true)` (2-D) returns ⇒ `sansScaling (m, false)` returns the same matrix; it throws (only `std::domain_error`)
⇒ the unchecked form reports failure by returning `m` itself -/
theorem Algo_sansScaling2_pair (tmin tmax : α) (sqrt sin cos : α → α) (atan2 : α → α → α) (m : M33 α) :
    unexc m (Gen.C07.Algo.sansScaling2T tmin tmax sqrt sin cos atan2 m) = Gen.C07.Algo.sansScaling2F tmin tmax sqrt sin cos atan2 m ∧
    errIs Exc.domainError (Gen.C07.Algo.sansScaling2T tmin tmax sqrt sin cos atan2 m) = true := by
  constructor
  · flag_tac [Gen.C07.Algo.sansScaling2T, Gen.C07.Algo.sansScaling2F, M33_eta]
  · flag_tac [Gen.C07.Algo.sansScaling2T]

/-- the two members of each pair fail on the SAME inputs as `extractSHRT` (they only forward `exc`): flag / throw of
`removeScaling` = flag / throw of `extractSHRT` -/
theorem Algo_removeScaling2_fails_iff_extractSHRT2 (tmin tmax : α) (sqrt sin cos : α → α) (atan2 : α → α → α) (m : M33 α) :
    (Gen.C07.Algo.removeScaling2F tmin tmax sqrt sin cos atan2 m).1 = (Gen.C07.Algo.extractSHRT2F tmin tmax sqrt atan2 m).1 := by
  simp only [Gen.C07.Algo.removeScaling2F, Gen.C07.Algo.extractSHRT2F, apply_ite Prod.fst]

/-- non-vacuity: the zero matrix makes the checked form throw and the unchecked one return `false` / the input itself -/
example : Gen.C07.Algo.removeScaling2T (1 / 1024 : ℚ) 1048576 (fun x => x) (fun x => x) (fun x => x) (fun x _ => x) ⟨0, 0, 0, 0, 0, 0, 0, 0, 1⟩ = .error Exc.domainError ∧
    (Gen.C07.Algo.removeScaling2F (1 / 1024 : ℚ) 1048576 (fun x => x) (fun x => x) (fun x => x) (fun x _ => x) ⟨0, 0, 0, 0, 0, 0, 0, 0, 1⟩).1 = false := by
  constructor <;> simp [Gen.C07.Algo.removeScaling2T, Gen.C07.Algo.removeScaling2F, Gen.V2.length, sabs]
example : Gen.C07.Algo.sansScaling2T (1 / 1024 : ℚ) 1048576 (fun x => x) (fun x => x) (fun x => x) (fun x _ => x) ⟨0, 0, 0, 0, 0, 0, 0, 0, 1⟩ = .error Exc.domainError ∧
    Gen.C07.Algo.sansScaling2F (1 / 1024 : ℚ) 1048576 (fun x => x) (fun x => x) (fun x => x) (fun x _ => x) ⟨0, 0, 0, 0, 0, 0, 0, 0, 1⟩ = ⟨0, 0, 0, 0, 0, 0, 0, 0, 1⟩ := by
  constructor <;> simp [Gen.C07.Algo.sansScaling2T, Gen.C07.Algo.sansScaling2F, Gen.V2.length, sabs]

/-- reading of a `…_pair` theorem: returns ⇒ identical results with flag `true`; throws ⇔ the flag is `false` -/
theorem Algo_pair_reading {β : Type} {e : Except Exc (Bool × β)} {r : Bool × β} (h : okOpt e = flagOpt r ∧ errIs Exc.domainError e = true) :
    (∀ y, e = .ok y → r = y ∧ y.1 = true) ∧ (∀ k, e = .error k ↔ (k = Exc.domainError ∧ r.1 = false)) := by
  refine ⟨fun y hy => okOpt_flag_ok h.1 y hy, fun k => ⟨fun hk => ⟨errIs_imp h.2 k hk, (okOpt_flag_error h.1).mp ⟨k, hk⟩⟩, ?_⟩⟩
  rintro ⟨hk, hr⟩
  obtain ⟨k', hk'⟩ := (okOpt_flag_error h.1).mpr hr
  rw [hk', hk, errIs_imp h.2 k' hk']

/-- the pair theorems are not vacuous: on a zero matrix the checked form throws and the unchecked one returns `false`;
on the identity both return scale (1, 1) (with a function that is `sqrt` at 1) -/
example : Gen.C07.Algo.extractScaling2T (1 / 1024 : ℚ) 1048576 (fun x => x) ⟨0, 0, 0, 0, 0, 0, 0, 0, 1⟩ = .error Exc.domainError ∧
    (Gen.C07.Algo.extractScaling2F (1 / 1024 : ℚ) 1048576 (fun x => x) ⟨0, 0, 0, 0, 0, 0, 0, 0, 1⟩).1 = false := by
  constructor <;> simp [Gen.C07.Algo.extractScaling2T, Gen.C07.Algo.extractScaling2F, Gen.V2.length, sabs]
example : Gen.C07.Algo.extractScaling2T (1 / 1024 : ℚ) 1048576 (fun x => x) ⟨1, 0, 0, 0, 1, 0, 0, 0, 1⟩ = .ok (true, ⟨1, 1⟩) := by
  norm_num [Gen.C07.Algo.extractScaling2T, Gen.V2.length, sabs]

end ImathVerif.C07
