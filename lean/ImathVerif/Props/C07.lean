import ImathVerif.Lemmas.C07Lemmas
import ImathVerif.Gen.C07Vec
import ImathVerif.Gen.C07Mat
import ImathVerif.Gen.C07Frustum
/-!
# C07 — throwing and non-throwing variants of every operation agree

`Gen.C07.*` are regenerated from the C++ headers on every run; BOTH members of every pair are extracted
independently (they are separate textual copies in the headers), so an edit to one copy changes one definition
and the pair theorem below stops elaborating.  Suffix `0` = the overload without a flag, `F` = flag `false`,
`T` = flag `true`.  For every pair:

* `…_ok`    : the checked form returns `y`  →  the unchecked form returns the same `y`;
* `…_error` : the checked form throws `k`   ↔  `k` is the kind thrown by the header AND the unchecked form
              reports failure (zero vector / unchanged vector / identity / guard predicate);
* `…_tight` : an overflow guard fires only when the divisor is zero or the EXACT quotient is out of range;
* `…_never` : well-conditioned input never throws (explicit hypotheses, each with a non-vacuity `example`).

All statements are for ALL inputs over an arbitrary ordered field, `numeric_limits` values `tmin tmax` and `sqrt`
are parameters.  The pairs whose trees are big (3×3 Gauss-Jordan, the 2-D decomposition functions) are in
`Props/C07GJ.lean` and `Props/C07Algo.lean`.
-/
set_option linter.unusedSectionVars false
set_option linter.unusedVariables false
set_option linter.unusedSimpArgs false
namespace ImathVerif.C07
open ImathVerif

variable {α : Type} [Field α] [LinearOrder α] [IsStrictOrderedRing α]

/-- pushes `unexc` / `errIs` through an extracted `if`-tree and compares leaf by leaf -/
macro "pair_tac " "[" ds:ident,* "]" : tactic =>
  `(tactic| (simp only [$[$ds:ident],*, apply_ite (unexc _), apply_ite (errIs _), unexc_ok, unexc_error, errIs_ok, errIs_error,
      decide_true, ite_self]))

/-! ## Vec2 / Vec3 / Vec4: normalize, normalizeExc, normalizeNonNull and the value forms -/

theorem V2_length_zero (tmin tmax : α) (ht : 0 < tmin) (sqrt : α → α) : Gen.V2.length tmin tmax sqrt (⟨0, 0⟩ : V2 α) = 0 := by
  simp [Gen.V2.length, sabs, ht]

/-- `normalizedExc` returns ⇒ `normalized` and `normalizedNonNull` return the same vector -/
theorem V2_normalizedExc_ok (tmin tmax : α) (sqrt : α → α) (a y : V2 α) (h : Gen.C07.V2.normalizedExc tmin tmax sqrt a = .ok y) :
    Gen.C07.V2.normalized tmin tmax sqrt a = y ∧ Gen.C07.V2.normalizedNonNull tmin tmax sqrt a = y := by
  simp only [Gen.C07.V2.normalizedExc, Gen.C07.V2.normalized, Gen.C07.V2.normalizedNonNull] at h ⊢
  split_ifs at h ⊢ with h0
  exact ⟨Except.ok.inj h, Except.ok.inj h⟩

/-- `normalizedExc` throws `std::domain_error`, exactly when `length () == 0` -/
theorem V2_normalizedExc_error (tmin tmax : α) (sqrt : α → α) (a : V2 α) (k : Exc) :
    Gen.C07.V2.normalizedExc tmin tmax sqrt a = .error k ↔ (k = Exc.domainError ∧ Gen.V2.length tmin tmax sqrt a = 0) := by
  simp only [Gen.C07.V2.normalizedExc]
  split_ifs with h0
  · simp [h0, eq_comm]
  · simp [h0]

/-- full strength: the checked form throws exactly when the unchecked form reports failure (returns the zero vector) -/
theorem V2_normalized_failure (tmin tmax : α) (ht : 0 < tmin) (sqrt : α → α) (a : V2 α) :
    Gen.C07.V2.normalizedExc tmin tmax sqrt a = .error Exc.domainError ↔ Gen.C07.V2.normalized tmin tmax sqrt a = ⟨0, 0⟩ := by
  rw [V2_normalizedExc_error]
  simp only [Gen.C07.V2.normalized, true_and]
  split_ifs with h0
  · simp [h0]
  · simp only [h0, false_iff, V2.mk.injEq, div_eq_zero_iff, or_false]
    intro hz
    apply h0
    have : a = ⟨0, 0⟩ := by cases a; simp_all
    rw [this]; exact V2_length_zero tmin tmax ht sqrt

/-- in-place forms: `normalizeExc` returns ⇒ `normalize` and `normalizeNonNull` leave the same vector -/
theorem V2_normalizeExc_ok (tmin tmax : α) (sqrt : α → α) (a y : V2 α) (h : Gen.C07.V2.normalizeExc tmin tmax sqrt a = .ok y) :
    Gen.C07.V2.normalize tmin tmax sqrt a = y ∧ Gen.C07.V2.normalizeNonNull tmin tmax sqrt a = y := by
  simp only [Gen.C07.V2.normalizeExc, Gen.C07.V2.normalize, Gen.C07.V2.normalizeNonNull] at h ⊢
  split_ifs at h ⊢ with h0
  exact ⟨Except.ok.inj h, Except.ok.inj h⟩

/-- `normalizeExc` throws `std::domain_error` exactly when `length () == 0`, which is exactly when `normalize`
reports failure by leaving the vector untouched -/
theorem V2_normalizeExc_error (tmin tmax : α) (sqrt : α → α) (a : V2 α) (k : Exc) :
    Gen.C07.V2.normalizeExc tmin tmax sqrt a = .error k ↔ (k = Exc.domainError ∧ Gen.V2.length tmin tmax sqrt a = 0) := by
  simp only [Gen.C07.V2.normalizeExc]
  split_ifs with h0
  · simp [h0, eq_comm]
  · simp [h0]

theorem V2_normalize_failure (tmin tmax : α) (sqrt : α → α) (a : V2 α) (h : Gen.V2.length tmin tmax sqrt a = 0) :
    Gen.C07.V2.normalize tmin tmax sqrt a = a := by
  simp only [Gen.C07.V2.normalize]
  rw [if_pos h]

/-- the in-place and the value forms are the same functions (three duplicated bodies each) -/
theorem V2_inplace_eq_value (tmin tmax : α) (sqrt : α → α) (a : V2 α) :
    Gen.C07.V2.normalizeExc tmin tmax sqrt a = Gen.C07.V2.normalizedExc tmin tmax sqrt a ∧
    Gen.C07.V2.normalizeNonNull tmin tmax sqrt a = Gen.C07.V2.normalizedNonNull tmin tmax sqrt a ∧
    (Gen.V2.length tmin tmax sqrt a ≠ 0 → Gen.C07.V2.normalize tmin tmax sqrt a = Gen.C07.V2.normalized tmin tmax sqrt a) := by
  refine ⟨rfl, rfl, fun h => ?_⟩
  simp only [Gen.C07.V2.normalize, Gen.C07.V2.normalized]
  rw [if_neg h, if_neg h]

/-- well-conditioned input (non-zero length) never throws, and then all three variants agree -/
theorem V2_normalizedExc_never (tmin tmax : α) (sqrt : α → α) (a : V2 α) (h : Gen.V2.length tmin tmax sqrt a ≠ 0) :
    Gen.C07.V2.normalizedExc tmin tmax sqrt a = .ok (Gen.C07.V2.normalized tmin tmax sqrt a) ∧
    Gen.C07.V2.normalizedNonNull tmin tmax sqrt a = Gen.C07.V2.normalized tmin tmax sqrt a := by
  simp only [Gen.C07.V2.normalizedExc, Gen.C07.V2.normalized, Gen.C07.V2.normalizedNonNull]
  rw [if_neg h, if_neg h]
  exact ⟨rfl, rfl⟩

theorem V3_length_zero (tmin tmax : α) (ht : 0 < tmin) (sqrt : α → α) : Gen.V3.length tmin tmax sqrt (⟨0, 0, 0⟩ : V3 α) = 0 := by
  simp [Gen.V3.length, sabs, ht]

/-- `normalizedExc` returns ⇒ `normalized` and `normalizedNonNull` return the same vector -/
theorem V3_normalizedExc_ok (tmin tmax : α) (sqrt : α → α) (a y : V3 α) (h : Gen.C07.V3.normalizedExc tmin tmax sqrt a = .ok y) :
    Gen.C07.V3.normalized tmin tmax sqrt a = y ∧ Gen.C07.V3.normalizedNonNull tmin tmax sqrt a = y := by
  simp only [Gen.C07.V3.normalizedExc, Gen.C07.V3.normalized, Gen.C07.V3.normalizedNonNull] at h ⊢
  split_ifs at h ⊢ with h0
  exact ⟨Except.ok.inj h, Except.ok.inj h⟩

/-- `normalizedExc` throws `std::domain_error`, exactly when `length () == 0` -/
theorem V3_normalizedExc_error (tmin tmax : α) (sqrt : α → α) (a : V3 α) (k : Exc) :
    Gen.C07.V3.normalizedExc tmin tmax sqrt a = .error k ↔ (k = Exc.domainError ∧ Gen.V3.length tmin tmax sqrt a = 0) := by
  simp only [Gen.C07.V3.normalizedExc]
  split_ifs with h0
  · simp [h0, eq_comm]
  · simp [h0]

/-- full strength: the checked form throws exactly when the unchecked form reports failure (returns the zero vector) -/
theorem V3_normalized_failure (tmin tmax : α) (ht : 0 < tmin) (sqrt : α → α) (a : V3 α) :
    Gen.C07.V3.normalizedExc tmin tmax sqrt a = .error Exc.domainError ↔ Gen.C07.V3.normalized tmin tmax sqrt a = ⟨0, 0, 0⟩ := by
  rw [V3_normalizedExc_error]
  simp only [Gen.C07.V3.normalized, true_and]
  split_ifs with h0
  · simp [h0]
  · simp only [h0, false_iff, V3.mk.injEq, div_eq_zero_iff, or_false]
    intro hz
    apply h0
    have : a = ⟨0, 0, 0⟩ := by cases a; simp_all
    rw [this]; exact V3_length_zero tmin tmax ht sqrt

/-- in-place forms: `normalizeExc` returns ⇒ `normalize` and `normalizeNonNull` leave the same vector -/
theorem V3_normalizeExc_ok (tmin tmax : α) (sqrt : α → α) (a y : V3 α) (h : Gen.C07.V3.normalizeExc tmin tmax sqrt a = .ok y) :
    Gen.C07.V3.normalize tmin tmax sqrt a = y ∧ Gen.C07.V3.normalizeNonNull tmin tmax sqrt a = y := by
  simp only [Gen.C07.V3.normalizeExc, Gen.C07.V3.normalize, Gen.C07.V3.normalizeNonNull] at h ⊢
  split_ifs at h ⊢ with h0
  exact ⟨Except.ok.inj h, Except.ok.inj h⟩

/-- `normalizeExc` throws `std::domain_error` exactly when `length () == 0`, which is exactly when `normalize`
reports failure by leaving the vector untouched -/
theorem V3_normalizeExc_error (tmin tmax : α) (sqrt : α → α) (a : V3 α) (k : Exc) :
    Gen.C07.V3.normalizeExc tmin tmax sqrt a = .error k ↔ (k = Exc.domainError ∧ Gen.V3.length tmin tmax sqrt a = 0) := by
  simp only [Gen.C07.V3.normalizeExc]
  split_ifs with h0
  · simp [h0, eq_comm]
  · simp [h0]

theorem V3_normalize_failure (tmin tmax : α) (sqrt : α → α) (a : V3 α) (h : Gen.V3.length tmin tmax sqrt a = 0) :
    Gen.C07.V3.normalize tmin tmax sqrt a = a := by
  simp only [Gen.C07.V3.normalize]
  rw [if_pos h]

/-- the in-place and the value forms are the same functions (three duplicated bodies each) -/
theorem V3_inplace_eq_value (tmin tmax : α) (sqrt : α → α) (a : V3 α) :
    Gen.C07.V3.normalizeExc tmin tmax sqrt a = Gen.C07.V3.normalizedExc tmin tmax sqrt a ∧
    Gen.C07.V3.normalizeNonNull tmin tmax sqrt a = Gen.C07.V3.normalizedNonNull tmin tmax sqrt a ∧
    (Gen.V3.length tmin tmax sqrt a ≠ 0 → Gen.C07.V3.normalize tmin tmax sqrt a = Gen.C07.V3.normalized tmin tmax sqrt a) := by
  refine ⟨rfl, rfl, fun h => ?_⟩
  simp only [Gen.C07.V3.normalize, Gen.C07.V3.normalized]
  rw [if_neg h, if_neg h]

/-- well-conditioned input (non-zero length) never throws, and then all three variants agree -/
theorem V3_normalizedExc_never (tmin tmax : α) (sqrt : α → α) (a : V3 α) (h : Gen.V3.length tmin tmax sqrt a ≠ 0) :
    Gen.C07.V3.normalizedExc tmin tmax sqrt a = .ok (Gen.C07.V3.normalized tmin tmax sqrt a) ∧
    Gen.C07.V3.normalizedNonNull tmin tmax sqrt a = Gen.C07.V3.normalized tmin tmax sqrt a := by
  simp only [Gen.C07.V3.normalizedExc, Gen.C07.V3.normalized, Gen.C07.V3.normalizedNonNull]
  rw [if_neg h, if_neg h]
  exact ⟨rfl, rfl⟩

theorem V4_length_zero (tmin tmax : α) (ht : 0 < tmin) (sqrt : α → α) : Gen.V4.length tmin tmax sqrt (⟨0, 0, 0, 0⟩ : V4 α) = 0 := by
  simp [Gen.V4.length, sabs, ht]

/-- `normalizedExc` returns ⇒ `normalized` and `normalizedNonNull` return the same vector -/
theorem V4_normalizedExc_ok (tmin tmax : α) (sqrt : α → α) (a y : V4 α) (h : Gen.C07.V4.normalizedExc tmin tmax sqrt a = .ok y) :
    Gen.C07.V4.normalized tmin tmax sqrt a = y ∧ Gen.C07.V4.normalizedNonNull tmin tmax sqrt a = y := by
  simp only [Gen.C07.V4.normalizedExc, Gen.C07.V4.normalized, Gen.C07.V4.normalizedNonNull] at h ⊢
  split_ifs at h ⊢ with h0
  exact ⟨Except.ok.inj h, Except.ok.inj h⟩

/-- `normalizedExc` throws `std::domain_error`, exactly when `length () == 0` -/
theorem V4_normalizedExc_error (tmin tmax : α) (sqrt : α → α) (a : V4 α) (k : Exc) :
    Gen.C07.V4.normalizedExc tmin tmax sqrt a = .error k ↔ (k = Exc.domainError ∧ Gen.V4.length tmin tmax sqrt a = 0) := by
  simp only [Gen.C07.V4.normalizedExc]
  split_ifs with h0
  · simp [h0, eq_comm]
  · simp [h0]

/-- full strength: the checked form throws exactly when the unchecked form reports failure (returns the zero vector) -/
theorem V4_normalized_failure (tmin tmax : α) (ht : 0 < tmin) (sqrt : α → α) (a : V4 α) :
    Gen.C07.V4.normalizedExc tmin tmax sqrt a = .error Exc.domainError ↔ Gen.C07.V4.normalized tmin tmax sqrt a = ⟨0, 0, 0, 0⟩ := by
  rw [V4_normalizedExc_error]
  simp only [Gen.C07.V4.normalized, true_and]
  split_ifs with h0
  · simp [h0]
  · simp only [h0, false_iff, V4.mk.injEq, div_eq_zero_iff, or_false]
    intro hz
    apply h0
    have : a = ⟨0, 0, 0, 0⟩ := by cases a; simp_all
    rw [this]; exact V4_length_zero tmin tmax ht sqrt

/-- in-place forms: `normalizeExc` returns ⇒ `normalize` and `normalizeNonNull` leave the same vector -/
theorem V4_normalizeExc_ok (tmin tmax : α) (sqrt : α → α) (a y : V4 α) (h : Gen.C07.V4.normalizeExc tmin tmax sqrt a = .ok y) :
    Gen.C07.V4.normalize tmin tmax sqrt a = y ∧ Gen.C07.V4.normalizeNonNull tmin tmax sqrt a = y := by
  simp only [Gen.C07.V4.normalizeExc, Gen.C07.V4.normalize, Gen.C07.V4.normalizeNonNull] at h ⊢
  split_ifs at h ⊢ with h0
  exact ⟨Except.ok.inj h, Except.ok.inj h⟩

/-- `normalizeExc` throws `std::domain_error` exactly when `length () == 0`, which is exactly when `normalize`
reports failure by leaving the vector untouched -/
theorem V4_normalizeExc_error (tmin tmax : α) (sqrt : α → α) (a : V4 α) (k : Exc) :
    Gen.C07.V4.normalizeExc tmin tmax sqrt a = .error k ↔ (k = Exc.domainError ∧ Gen.V4.length tmin tmax sqrt a = 0) := by
  simp only [Gen.C07.V4.normalizeExc]
  split_ifs with h0
  · simp [h0, eq_comm]
  · simp [h0]

theorem V4_normalize_failure (tmin tmax : α) (sqrt : α → α) (a : V4 α) (h : Gen.V4.length tmin tmax sqrt a = 0) :
    Gen.C07.V4.normalize tmin tmax sqrt a = a := by
  simp only [Gen.C07.V4.normalize]
  rw [if_pos h]

/-- the in-place and the value forms are the same functions (three duplicated bodies each) -/
theorem V4_inplace_eq_value (tmin tmax : α) (sqrt : α → α) (a : V4 α) :
    Gen.C07.V4.normalizeExc tmin tmax sqrt a = Gen.C07.V4.normalizedExc tmin tmax sqrt a ∧
    Gen.C07.V4.normalizeNonNull tmin tmax sqrt a = Gen.C07.V4.normalizedNonNull tmin tmax sqrt a ∧
    (Gen.V4.length tmin tmax sqrt a ≠ 0 → Gen.C07.V4.normalize tmin tmax sqrt a = Gen.C07.V4.normalized tmin tmax sqrt a) := by
  refine ⟨rfl, rfl, fun h => ?_⟩
  simp only [Gen.C07.V4.normalize, Gen.C07.V4.normalized]
  rw [if_neg h, if_neg h]

/-- well-conditioned input (non-zero length) never throws, and then all three variants agree -/
theorem V4_normalizedExc_never (tmin tmax : α) (sqrt : α → α) (a : V4 α) (h : Gen.V4.length tmin tmax sqrt a ≠ 0) :
    Gen.C07.V4.normalizedExc tmin tmax sqrt a = .ok (Gen.C07.V4.normalized tmin tmax sqrt a) ∧
    Gen.C07.V4.normalizedNonNull tmin tmax sqrt a = Gen.C07.V4.normalized tmin tmax sqrt a := by
  simp only [Gen.C07.V4.normalizedExc, Gen.C07.V4.normalized, Gen.C07.V4.normalizedNonNull]
  rw [if_neg h, if_neg h]
  exact ⟨rfl, rfl⟩

/-- non-vacuity of `0 < tmin` and `length ≠ 0` (a 3-4-5 triangle, with a function that is `sqrt` at 25) -/
example : Gen.V2.length (1 / 1024 : ℚ) 1048576 (fun x => if x = 25 then 5 else 0) ⟨3, 4⟩ ≠ 0 := by
  norm_num [Gen.V2.length]
example : Gen.V3.length (1 / 1024 : ℚ) 1048576 (fun x => if x = 9 then 3 else 0) ⟨1, 2, 2⟩ ≠ 0 := by
  norm_num [Gen.V3.length]
example : Gen.V4.length (1 / 1024 : ℚ) 1048576 (fun x => if x = 4 then 2 else 0) ⟨1, 1, 1, 1⟩ ≠ 0 := by
  norm_num [Gen.V4.length]

/-! ## Vec3 (Vec4) vs Vec3 (Vec4, InfException) -/

/-- the checked homogeneous divide returns ⇒ the unchecked one returns the same vector -/
theorem V3_ofV4Exc_ok (tmax : α) (v : V4 α) (y : V3 α) (h : Gen.C07.V3.ofV4Exc tmax v = .ok y) : Gen.C07.V3.ofV4 v = y := by
  have : unexc (Gen.C07.V3.ofV4 v) (Gen.C07.V3.ofV4Exc tmax v) = Gen.C07.V3.ofV4 v := by
    pair_tac [Gen.C07.V3.ofV4Exc, Gen.C07.V3.ofV4]
  exact unexc_ok_imp this y h

/-- it throws `std::domain_error`, exactly when `|w| < 1` and some component trips the `>=` guard -/
theorem V3_ofV4Exc_error (tmax : α) (v : V4 α) (k : Exc) :
    Gen.C07.V3.ofV4Exc tmax v = .error k ↔
      (k = Exc.domainError ∧ (guardGe tmax v.x v.w ∨ guardGe tmax v.y v.w ∨ guardGe tmax v.z v.w)) := by
  simp only [Gen.C07.V3.ofV4Exc, guardGe]
  by_cases hw : 0 ≤ v.w
  · rw [if_pos hw, abs_of_nonneg hw]
    simp only [← le_neg_or_le_iff]
    split_ifs <;> simp_all [eq_comm]
  · rw [if_neg hw, abs_of_neg (not_le.mp hw)]
    simp only [← le_neg_or_le_iff]
    split_ifs <;> simp_all [eq_comm]

/-- guard tightness: it throws only when `w = 0` or the EXACT quotient of some component is not representable
(`|v_i / w| ≥ tmax`), and always when `w = 0` (documented: "throws if w is zero or if division by w would overflow") -/
theorem V3_ofV4Exc_tight (tmax : α) (v : V4 α) (k : Exc) (h : Gen.C07.V3.ofV4Exc tmax v = .error k) :
    |v.w| < 1 ∧ (v.w = 0 ∨ tmax ≤ |v.x / v.w| ∨ tmax ≤ |v.y / v.w| ∨ tmax ≤ |v.z / v.w|) := by
  rcases (V3_ofV4Exc_error tmax v k).mp h with ⟨_, hg⟩
  simp only [guardGe_iff] at hg
  tauto

theorem V3_ofV4Exc_zero_w (tmax : α) (v : V4 α) (hw : v.w = 0) : Gen.C07.V3.ofV4Exc tmax v = .error Exc.domainError := by
  rw [V3_ofV4Exc_error]
  refine ⟨rfl, Or.inl ?_⟩
  rw [guardGe_iff]; simp [hw]

/-- well-conditioned input never throws: `|w| ≥ 1`, or `w ≠ 0` and every exact quotient below `tmax` in magnitude -/
theorem V3_ofV4Exc_never (tmax : α) (v : V4 α)
    (h : 1 ≤ |v.w| ∨ (v.w ≠ 0 ∧ |v.x / v.w| < tmax ∧ |v.y / v.w| < tmax ∧ |v.z / v.w| < tmax)) :
    Gen.C07.V3.ofV4Exc tmax v = .ok (Gen.C07.V3.ofV4 v) := by
  rcases except_cases (Gen.C07.V3.ofV4Exc tmax v) with ⟨y, hy⟩ | ⟨k, hk⟩
  · rw [hy, V3_ofV4Exc_ok tmax v y hy]
  · exfalso
    rcases (V3_ofV4Exc_error tmax v k).mp hk with ⟨_, hg⟩
    rcases h with h1 | ⟨hw, hx, hy, hz⟩
    · rcases hg with hg | hg | hg <;> exact not_guardGe_of_one_le _ _ _ h1 hg
    · rcases hg with hg | hg | hg
      · exact not_guardGe_of_lt _ _ _ hw hx hg
      · exact not_guardGe_of_lt _ _ _ hw hy hg
      · exact not_guardGe_of_lt _ _ _ hw hz hg

example : (1 : ℚ) ≤ |(2 : ℚ)| := by norm_num
example : ((1 / 2 : ℚ) ≠ 0 ∧ |(3 : ℚ) / (1 / 2)| < 1048576 ∧ |(-5 : ℚ) / (1 / 2)| < 1048576 ∧ |(0 : ℚ) / (1 / 2)| < 1048576) := by
  norm_num [abs_of_nonneg, abs_of_nonpos]
/-- the guard does fire on a concrete input (the `error` side is not vacuous) -/
example : Gen.C07.V3.ofV4Exc (1048576 : ℚ) ⟨1, 0, 0, 1 / 2097152⟩ = .error Exc.domainError := by
  norm_num [Gen.C07.V3.ofV4Exc]

/-! ## Matrix22: inverse () / inverse (false) / inverse (true), invert likewise -/

/-- identity matrices (what the unchecked forms return for a singular matrix) -/
def M22.one (α : Type) [OfNat α 0] [OfNat α 1] : M22 α := ⟨1, 0, 0, 1⟩
def M33.one (α : Type) [OfNat α 0] [OfNat α 1] : M33 α := ⟨1, 0, 0, 0, 1, 0, 0, 0, 1⟩
def M44.one (α : Type) [OfNat α 0] [OfNat α 1] : M44 α := ⟨1, 0, 0, 0, 0, 1, 0, 0, 0, 0, 1, 0, 0, 0, 0, 1⟩

/-- `inverse (true)` seen through `unexc`: its value when it returns, the identity when it throws, is `inverse ()` -/
theorem M22_inverseT_unexc (tmin : α) (a : M22 α) :
    unexc (M22.one α) (Gen.C07.M22.inverseT tmin a) = Gen.C07.M22.inverse0 tmin a := by
  unfold M22.one
  pair_tac [Gen.C07.M22.inverseT, Gen.C07.M22.inverse0]

theorem M22_inverseT_ok (tmin : α) (a y : M22 α) (h : Gen.C07.M22.inverseT tmin a = .ok y) :
    Gen.C07.M22.inverse0 tmin a = y := unexc_ok_imp (M22_inverseT_unexc tmin a) y h

/-- `inverse (true)` throws only `std::invalid_argument`, and then `inverse ()` returns the identity -/
theorem M22_inverseT_error (tmin : α) (a : M22 α) (k : Exc) (h : Gen.C07.M22.inverseT tmin a = .error k) :
    k = Exc.invalidArgument ∧ Gen.C07.M22.inverse0 tmin a = M22.one α := by
  refine ⟨errIs_imp (k := Exc.invalidArgument) ?_ k h, unexc_error_imp (M22_inverseT_unexc tmin a) k h⟩
  pair_tac [Gen.C07.M22.inverseT]

/-- the duplicated bodies are the same function; the in-place forms equal the value forms -/
theorem M22_inverse_copies (tmin : α) (a : M22 α) :
    Gen.C07.M22.inverseF tmin a = Gen.C07.M22.inverse0 tmin a ∧
    Gen.C07.M22.invert0 tmin a = Gen.C07.M22.inverse0 tmin a ∧
    Gen.C07.M22.invertF tmin a = Gen.C07.M22.inverse0 tmin a ∧
    Gen.C07.M22.invertT tmin a = Gen.C07.M22.inverseT tmin a := by
  refine ⟨?_, ?_, ?_, ?_⟩
  · pair_tac [Gen.C07.M22.inverseF, Gen.C07.M22.inverse0]
  · pair_tac [Gen.C07.M22.invert0, Gen.C07.M22.inverse0]
  · pair_tac [Gen.C07.M22.invertF, Gen.C07.M22.inverse0]
  · pair_tac [Gen.C07.M22.invertT, Gen.C07.M22.inverseT]

/-- determinant and the guard of `Matrix22::inverse`: every cofactor passes `abs (r) / min > abs (s)` -/
def M22.det (a : M22 α) : α := a.x00 * a.x11 - a.x10 * a.x01
def M22.guardsPass (tmin : α) (a : M22 α) : Prop :=
  |a.x11| < |M22.det a| / tmin ∧ |a.x01| < |M22.det a| / tmin ∧ |a.x10| < |M22.det a| / tmin ∧ |a.x00| < |M22.det a| / tmin

theorem M22_inverseT_error_iff (tmin : α) (a : M22 α) (k : Exc) :
    Gen.C07.M22.inverseT tmin a = .error k ↔
      (k = Exc.invalidArgument ∧ |M22.det a| < 1 ∧ ¬ M22.guardsPass tmin a) := by
  simp only [Gen.C07.M22.inverseT, sabs_eq_abs, M22.det, M22.guardsPass, abs_neg]
  split_ifs <;> simp_all [eq_comm]

theorem M22_inverseT_value (tmin : α) (a y : M22 α) (h : Gen.C07.M22.inverseT tmin a = .ok y) :
    y = ⟨a.x11 / M22.det a, -a.x01 / M22.det a, -a.x10 / M22.det a, a.x00 / M22.det a⟩ ∧
    (1 ≤ |M22.det a| ∨ M22.guardsPass tmin a) := by
  simp only [Gen.C07.M22.inverseT, sabs_eq_abs, M22.det, M22.guardsPass, abs_neg] at h ⊢
  split_ifs at h <;> simp_all [eq_comm]

theorem M22.det_ne_zero_of_guards (tmin : α) (a : M22 α) (h : 1 ≤ |M22.det a| ∨ M22.guardsPass tmin a) :
    M22.det a ≠ 0 := by
  intro h0
  rcases h with h | h
  · rw [h0, abs_zero] at h; linarith
  · have := h.1
    rw [h0, abs_zero, zero_div] at this
    exact absurd (abs_nonneg a.x11) (not_le.mpr this)

/-- full strength: `inverse (true)` throws exactly when `inverse ()` reports failure, i.e. returns the identity for a
matrix that is not the identity -/
theorem M22_inverse_failure (tmin : α) (a : M22 α) :
    Gen.C07.M22.inverseT tmin a = .error Exc.invalidArgument ↔
      (Gen.C07.M22.inverse0 tmin a = M22.one α ∧ a ≠ M22.one α) := by
  constructor
  · intro h
    refine ⟨(M22_inverseT_error tmin a _ h).2, ?_⟩
    rintro rfl
    have := ((M22_inverseT_error_iff tmin _ _).mp h).2.1
    simp [M22.det, M22.one] at this
  · rintro ⟨h1, hne⟩
    rcases except_cases (Gen.C07.M22.inverseT tmin a) with ⟨y, hy⟩ | ⟨k, hk⟩
    · exfalso
      apply hne
      have hy1 : y = M22.one α := by rw [← h1]; exact (M22_inverseT_ok tmin a y hy).symm
      obtain ⟨hv, hg⟩ := M22_inverseT_value tmin a y hy
      have hr := M22.det_ne_zero_of_guards tmin a hg
      rw [hy1] at hv
      simp only [M22.one, M22.mk.injEq] at hv
      obtain ⟨e1, e2, e3, e4⟩ := hv
      have f1 : a.x11 = M22.det a := by field_simp at e1; exact e1.symm
      have f2 : a.x01 = 0 := by field_simp at e2; simpa using e2.symm
      have f3 : a.x10 = 0 := by field_simp at e3; simpa using e3.symm
      have f4 : a.x00 = M22.det a := by field_simp at e4; exact e4.symm
      have f5 : M22.det a = 1 := by
        have : M22.det a = M22.det a * M22.det a := by
          conv_lhs => unfold M22.det
          rw [f2, f4, f1]; ring
        have h2 : M22.det a * (M22.det a - 1) = 0 := by linear_combination -this
        rcases mul_eq_zero.mp h2 with h3 | h3
        · exact absurd h3 hr
        · linarith
      have e : a = ⟨a.x00, a.x01, a.x10, a.x11⟩ := rfl
      rw [e]
      simp only [M22.one, M22.mk.injEq]
      exact ⟨f4.trans f5, f2, f3, f1.trans f5⟩
    · rw [hk, (M22_inverseT_error tmin a k hk).1]

/-- guard tightness: `inverse (true)` throws only when `|det| < 1` and either `det = 0` or some EXACT entry `s / det` of the
inverse has magnitude at least `1 / tmin` -/
theorem M22_inverseT_tight (tmin : α) (ht : 0 < tmin) (a : M22 α) (k : Exc) (h : Gen.C07.M22.inverseT tmin a = .error k) :
    |M22.det a| < 1 ∧ (M22.det a = 0 ∨ 1 / tmin ≤ |a.x11 / M22.det a| ∨ 1 / tmin ≤ |a.x01 / M22.det a| ∨
      1 / tmin ≤ |a.x10 / M22.det a| ∨ 1 / tmin ≤ |a.x00 / M22.det a|) := by
  obtain ⟨_, hd, hg⟩ := (M22_inverseT_error_iff tmin a k).mp h
  refine ⟨hd, ?_⟩
  unfold M22.guardsPass at hg
  simp only [not_and_or] at hg
  rcases hg with hg | hg | hg | hg <;> rcases (inv_guard_fails_iff tmin _ _ ht).mp hg with h0 | h1 <;> tauto

/-- ... which for the IEEE formats (`tmax · tmin ≤ 4`) is within a factor four of the element type's maximum -/
theorem M22_inverseT_tight_quarter (tmin tmax : α) (ht : 0 < tmin) (h4 : tmax * tmin ≤ 4) (a : M22 α) (k : Exc)
    (h : Gen.C07.M22.inverseT tmin a = .error k) :
    M22.det a = 0 ∨ tmax / 4 ≤ |a.x11 / M22.det a| ∨ tmax / 4 ≤ |a.x01 / M22.det a| ∨
      tmax / 4 ≤ |a.x10 / M22.det a| ∨ tmax / 4 ≤ |a.x00 / M22.det a| := by
  rcases (M22_inverseT_tight tmin ht a k h).2 with h | h | h | h | h
  · exact Or.inl h
  · exact Or.inr (Or.inl (quarter_max_le tmin tmax _ ht h4 h))
  · exact Or.inr (Or.inr (Or.inl (quarter_max_le tmin tmax _ ht h4 h)))
  · exact Or.inr (Or.inr (Or.inr (Or.inl (quarter_max_le tmin tmax _ ht h4 h))))
  · exact Or.inr (Or.inr (Or.inr (Or.inr (quarter_max_le tmin tmax _ ht h4 h))))

/-- well-conditioned input never throws: `|det| ≥ 1`, or every cofactor passes the guard -/
theorem M22_inverseT_never (tmin : α) (a : M22 α) (h : 1 ≤ |M22.det a| ∨ M22.guardsPass tmin a) :
    Gen.C07.M22.inverseT tmin a = .ok (Gen.C07.M22.inverse0 tmin a) := by
  rcases except_cases (Gen.C07.M22.inverseT tmin a) with ⟨y, hy⟩ | ⟨k, hk⟩
  · rw [hy, M22_inverseT_ok tmin a y hy]
  · exfalso
    obtain ⟨_, hd, hg⟩ := (M22_inverseT_error_iff tmin a k).mp hk
    rcases h with h | h
    · exact absurd hd (not_lt.mpr h)
    · exact hg h

example : (1 : ℚ) ≤ |M22.det (⟨2, 1, 1, 1⟩ : M22 ℚ)| := by norm_num [M22.det]
example : M22.guardsPass (1 / 1024 : ℚ) ⟨1 / 2, 0, 0, 1 / 2⟩ := by
  norm_num [M22.guardsPass, M22.det, abs_of_nonneg]
/-- binary32: `max · min = (2 − 2⁻²³)·2¹²⁷·2⁻¹²⁶ < 4`, so the factor-four hypothesis holds for the real formats -/
example : ((2 - 1 / 2 ^ 23 : ℚ) * 2 ^ 127) * (1 / 2 ^ 126) ≤ 4 := by norm_num
/-- binary64: `(2 − 2⁻⁵²)·2¹⁰²³·2⁻¹⁰²² < 4`;  binary16 (`half`): `65504 · 2⁻¹⁴ < 4` -/
example : ((2 - 1 / 2 ^ 52 : ℚ) * 2 ^ 1023) * (1 / 2 ^ 1022) ≤ 4 := by
  have e : ((2 - 1 / 2 ^ 52 : ℚ) * 2 ^ 1023) * (1 / 2 ^ 1022) = (2 - 1 / 2 ^ 52) * 2 := by
    rw [show (2 : ℚ) ^ 1023 = 2 ^ 1022 * 2 by rw [pow_succ]]; field_simp
  rw [e]; norm_num
example : (65504 : ℚ) * (1 / 2 ^ 14) ≤ 4 := by norm_num
/-- the guard does fire (singular matrix), and the identity is returned by the unchecked form -/
example : Gen.C07.M22.inverseT (1 / 1024 : ℚ) ⟨1, 2, 2, 4⟩ = .error Exc.invalidArgument ∧
    Gen.C07.M22.inverse0 (1 / 1024 : ℚ) ⟨1, 2, 2, 4⟩ = M22.one ℚ := by
  norm_num [Gen.C07.M22.inverseT, Gen.C07.M22.inverse0, M22.one, sabs]

/-! ## Matrix33: inverse () / inverse (false) / inverse (true), invert likewise -/

theorem M33_inverseT_unexc (tmin : α) (a : M33 α) :
    unexc (M33.one α) (Gen.C07.M33.inverseT tmin a) = Gen.C07.M33.inverse0 tmin a := by
  unfold M33.one
  pair_tac [Gen.C07.M33.inverseT, Gen.C07.M33.inverse0]

theorem M33_inverseT_ok (tmin : α) (a y : M33 α) (h : Gen.C07.M33.inverseT tmin a = .ok y) :
    Gen.C07.M33.inverse0 tmin a = y := unexc_ok_imp (M33_inverseT_unexc tmin a) y h

theorem M33_inverseT_error (tmin : α) (a : M33 α) (k : Exc) (h : Gen.C07.M33.inverseT tmin a = .error k) :
    k = Exc.invalidArgument ∧ Gen.C07.M33.inverse0 tmin a = M33.one α := by
  refine ⟨errIs_imp (k := Exc.invalidArgument) ?_ k h, unexc_error_imp (M33_inverseT_unexc tmin a) k h⟩
  pair_tac [Gen.C07.M33.inverseT]

theorem M33_inverse_copies (tmin : α) (a : M33 α) :
    Gen.C07.M33.inverseF tmin a = Gen.C07.M33.inverse0 tmin a ∧
    Gen.C07.M33.invert0 tmin a = Gen.C07.M33.inverse0 tmin a ∧
    Gen.C07.M33.invertF tmin a = Gen.C07.M33.inverse0 tmin a ∧
    Gen.C07.M33.invertT tmin a = Gen.C07.M33.inverseT tmin a := by
  refine ⟨?_, ?_, ?_, ?_⟩
  · pair_tac [Gen.C07.M33.inverseF, Gen.C07.M33.inverse0]
  · pair_tac [Gen.C07.M33.invert0, Gen.C07.M33.inverse0]
  · pair_tac [Gen.C07.M33.invertF, Gen.C07.M33.inverse0]
  · pair_tac [Gen.C07.M33.invertT, Gen.C07.M33.inverseT]

/-- the fast path of `Matrix33::inverse` is taken when the last column is `(0, 0, 1)` -/
def M33.affine (a : M33 α) : Prop := a.x02 = 0 ∧ a.x12 = 0 ∧ a.x22 = 1
instance (a : M33 α) : Decidable (M33.affine a) := by unfold M33.affine; infer_instance
/-- the matrix `s` of cofactors computed by the general path (the adjugate) -/
def M33.adj (a : M33 α) : M33 α :=
  ⟨a.x11 * a.x22 - a.x21 * a.x12, a.x21 * a.x02 - a.x01 * a.x22, a.x01 * a.x12 - a.x11 * a.x02,
   a.x20 * a.x12 - a.x10 * a.x22, a.x00 * a.x22 - a.x20 * a.x02, a.x10 * a.x02 - a.x00 * a.x12,
   a.x10 * a.x21 - a.x20 * a.x11, a.x20 * a.x01 - a.x00 * a.x21, a.x00 * a.x11 - a.x10 * a.x01⟩
def M33.det (a : M33 α) : α := a.x00 * (M33.adj a).x00 + a.x01 * (M33.adj a).x10 + a.x02 * (M33.adj a).x20
def M33.det2 (a : M33 α) : α := a.x00 * a.x11 - a.x10 * a.x01
/-- every cofactor passes `abs (r) / min > abs (s)` (general path) -/
def M33.guardsPass (tmin : α) (a : M33 α) : Prop :=
  |(M33.adj a).x00| < |M33.det a| / tmin ∧ |(M33.adj a).x01| < |M33.det a| / tmin ∧ |(M33.adj a).x02| < |M33.det a| / tmin ∧
  |(M33.adj a).x10| < |M33.det a| / tmin ∧ |(M33.adj a).x11| < |M33.det a| / tmin ∧ |(M33.adj a).x12| < |M33.det a| / tmin ∧
  |(M33.adj a).x20| < |M33.det a| / tmin ∧ |(M33.adj a).x21| < |M33.det a| / tmin ∧ |(M33.adj a).x22| < |M33.det a| / tmin
instance (tmin : α) (a : M33 α) : Decidable (M33.guardsPass tmin a) := by unfold M33.guardsPass; infer_instance
/-- the four cofactors of the upper-left 2×2 block pass the guard (fast path) -/
def M33.guardsPass2 (tmin : α) (a : M33 α) : Prop :=
  |a.x11| < |M33.det2 a| / tmin ∧ |a.x01| < |M33.det2 a| / tmin ∧ |a.x10| < |M33.det2 a| / tmin ∧ |a.x00| < |M33.det2 a| / tmin
instance (tmin : α) (a : M33 α) : Decidable (M33.guardsPass2 tmin a) := by unfold M33.guardsPass2; infer_instance

/-- what the fast path returns when it does not fail -/
def M33.affineInverse (a : M33 α) : M33 α :=
  ⟨a.x11 / M33.det2 a, -a.x01 / M33.det2 a, 0, -a.x10 / M33.det2 a, a.x00 / M33.det2 a, 0,
   -a.x20 * (a.x11 / M33.det2 a) - a.x21 * (-a.x10 / M33.det2 a), -a.x20 * (-a.x01 / M33.det2 a) - a.x21 * (a.x00 / M33.det2 a), 1⟩
/-- what the general path returns when it does not fail: adjugate / determinant -/
def M33.adjOverDet (a : M33 α) : M33 α :=
  ⟨(M33.adj a).x00 / M33.det a, (M33.adj a).x01 / M33.det a, (M33.adj a).x02 / M33.det a,
   (M33.adj a).x10 / M33.det a, (M33.adj a).x11 / M33.det a, (M33.adj a).x12 / M33.det a,
   (M33.adj a).x20 / M33.det a, (M33.adj a).x21 / M33.det a, (M33.adj a).x22 / M33.det a⟩

/-- COMPLETE description of `Matrix33::inverse (true)` (normal form of the extracted 39-path tree) -/
theorem M33_inverseT_normal_form (tmin : α) (a : M33 α) :
    Gen.C07.M33.inverseT tmin a =
      if M33.affine a then
        (if 1 ≤ |M33.det2 a| ∨ M33.guardsPass2 tmin a then .ok (M33.affineInverse a) else .error Exc.invalidArgument)
      else
        (if 1 ≤ |M33.det a| ∨ M33.guardsPass tmin a then .ok (M33.adjOverDet a) else .error Exc.invalidArgument) := by
  simp only [Gen.C07.M33.inverseT, sabs_eq_abs, abs_neg, ite_and_collapse, ite_or_collapse, M33.affine, M33.det2, M33.det, M33.adj,
    M33.guardsPass, M33.guardsPass2, M33.affineInverse, M33.adjOverDet]
  rfl

/-- `inverse (true)` throws `std::invalid_argument`, exactly when on the path taken `|det| < 1` and some cofactor fails the guard -/
theorem M33_inverseT_error_iff (tmin : α) (a : M33 α) (k : Exc) :
    Gen.C07.M33.inverseT tmin a = .error k ↔
      (k = Exc.invalidArgument ∧
        ((M33.affine a ∧ |M33.det2 a| < 1 ∧ ¬ M33.guardsPass2 tmin a) ∨
         (¬ M33.affine a ∧ |M33.det a| < 1 ∧ ¬ M33.guardsPass tmin a))) := by
  rw [M33_inverseT_normal_form]
  by_cases ha : M33.affine a
  · simp only [ha, if_true, ite_ok_err_error_iff, not_or, not_le]; tauto
  · simp only [ha, if_false, ite_ok_err_error_iff, not_or, not_le]; tauto

theorem M33_inverseT_ok_iff (tmin : α) (a y : M33 α) :
    Gen.C07.M33.inverseT tmin a = .ok y ↔
      ((M33.affine a ∧ (1 ≤ |M33.det2 a| ∨ M33.guardsPass2 tmin a) ∧ M33.affineInverse a = y) ∨
       (¬ M33.affine a ∧ (1 ≤ |M33.det a| ∨ M33.guardsPass tmin a) ∧ M33.adjOverDet a = y)) := by
  rw [M33_inverseT_normal_form]
  by_cases ha : M33.affine a
  · simp only [ha, if_true, ite_ok_err_ok_iff]; tauto
  · simp only [ha, if_false, ite_ok_err_ok_iff]; tauto

/-- the determinant of an affine matrix is the determinant of its upper-left block -/
theorem M33.det_of_affine (a : M33 α) (h : M33.affine a) : M33.det a = M33.det2 a := by
  obtain ⟨h1, h2, h3⟩ := h
  simp only [M33.det, M33.adj, M33.det2, h1, h2, h3]; ring

theorem M33.det_ne_zero_of_guards (tmin : α) (a : M33 α) (h : 1 ≤ |M33.det a| ∨ M33.guardsPass tmin a) : M33.det a ≠ 0 := by
  intro h0
  rcases h with h | h
  · rw [h0, abs_zero] at h; linarith
  · have := h.1
    rw [h0, abs_zero, zero_div] at this
    exact absurd (abs_nonneg _) (not_le.mpr this)

theorem M33.det2_ne_zero_of_guards (tmin : α) (a : M33 α) (h : 1 ≤ |M33.det2 a| ∨ M33.guardsPass2 tmin a) : M33.det2 a ≠ 0 := by
  intro h0
  rcases h with h | h
  · rw [h0, abs_zero] at h; linarith
  · have := h.1
    rw [h0, abs_zero, zero_div] at this
    exact absurd (abs_nonneg _) (not_le.mpr this)

/-- the only matrix whose computed inverse is the identity is the identity -/
theorem M33_inverseT_ok_one (tmin : α) (a : M33 α) (h : Gen.C07.M33.inverseT tmin a = .ok (M33.one α)) : a = M33.one α := by
  rcases (M33_inverseT_ok_iff tmin a _).mp h with ⟨⟨h1, h2, h3⟩, hg, hv⟩ | ⟨_, hg, hv⟩
  · have hd := M33.det2_ne_zero_of_guards tmin a hg
    simp only [M33.affineInverse, M33.one, M33.mk.injEq] at hv
    obtain ⟨e00, e01, _, e10, e11, _, e20, e21, _⟩ := hv
    rw [div_eq_iff hd] at e00 e01 e10 e11
    have f01 : a.x01 = 0 := by linarith
    have f10 : a.x10 = 0 := by linarith
    have f11 : a.x11 = M33.det2 a := by linarith
    have f00 : a.x00 = M33.det2 a := by linarith
    have fd : M33.det2 a = 1 := by
      have : M33.det2 a = M33.det2 a * M33.det2 a := by
        conv_lhs => unfold M33.det2
        rw [f01, f00, f11]; ring
      have h2' : M33.det2 a * (M33.det2 a - 1) = 0 := by linear_combination -this
      rcases mul_eq_zero.mp h2' with h3' | h3'
      · exact absurd h3' hd
      · linarith
    rw [f11, f10, fd] at e20
    rw [f01, f00, fd] at e21
    have f20 : a.x20 = 0 := by simp at e20; linarith
    have f21 : a.x21 = 0 := by simp at e21; linarith
    have e : a = ⟨a.x00, a.x01, a.x02, a.x10, a.x11, a.x12, a.x20, a.x21, a.x22⟩ := rfl
    rw [e]
    simp only [M33.one, M33.mk.injEq]
    exact ⟨f00.trans fd, f01, h1, f10, f11.trans fd, h2, f20, f21, h3⟩
  · have hd := M33.det_ne_zero_of_guards tmin a hg
    simp only [M33.adjOverDet, M33.one, M33.mk.injEq] at hv
    obtain ⟨e00, e01, e02, e10, e11, e12, e20, e21, e22⟩ := hv
    rw [div_eq_iff hd] at e00 e01 e02 e10 e11 e12 e20 e21 e22
    simp only [one_mul, zero_mul] at e00 e01 e02 e10 e11 e12 e20 e21 e22
    -- a · adj a = det a · 1 (polynomial identities), and adj a = det a · 1, hence det a · a = det a · 1
    have g00 : M33.det a * a.x00 = M33.det a := by
      have : a.x00 * (M33.adj a).x00 + a.x01 * (M33.adj a).x10 + a.x02 * (M33.adj a).x20 = M33.det a := rfl
      rw [e00, e10, e20] at this; linear_combination this
    have g01 : M33.det a * a.x01 = 0 := by
      have : a.x00 * (M33.adj a).x01 + a.x01 * (M33.adj a).x11 + a.x02 * (M33.adj a).x21 = 0 := by simp only [M33.adj]; ring
      rw [e01, e11, e21] at this; linear_combination this
    have g02 : M33.det a * a.x02 = 0 := by
      have : a.x00 * (M33.adj a).x02 + a.x01 * (M33.adj a).x12 + a.x02 * (M33.adj a).x22 = 0 := by simp only [M33.adj]; ring
      rw [e02, e12, e22] at this; linear_combination this
    have g10 : M33.det a * a.x10 = 0 := by
      have : a.x10 * (M33.adj a).x00 + a.x11 * (M33.adj a).x10 + a.x12 * (M33.adj a).x20 = 0 := by simp only [M33.adj]; ring
      rw [e00, e10, e20] at this; linear_combination this
    have g11 : M33.det a * a.x11 = M33.det a := by
      have : a.x10 * (M33.adj a).x01 + a.x11 * (M33.adj a).x11 + a.x12 * (M33.adj a).x21 = M33.det a := by
        simp only [M33.det, M33.adj]; ring
      rw [e01, e11, e21] at this; linear_combination this
    have g12 : M33.det a * a.x12 = 0 := by
      have : a.x10 * (M33.adj a).x02 + a.x11 * (M33.adj a).x12 + a.x12 * (M33.adj a).x22 = 0 := by simp only [M33.adj]; ring
      rw [e02, e12, e22] at this; linear_combination this
    have g20 : M33.det a * a.x20 = 0 := by
      have : a.x20 * (M33.adj a).x00 + a.x21 * (M33.adj a).x10 + a.x22 * (M33.adj a).x20 = 0 := by simp only [M33.adj]; ring
      rw [e00, e10, e20] at this; linear_combination this
    have g21 : M33.det a * a.x21 = 0 := by
      have : a.x20 * (M33.adj a).x01 + a.x21 * (M33.adj a).x11 + a.x22 * (M33.adj a).x21 = 0 := by simp only [M33.adj]; ring
      rw [e01, e11, e21] at this; linear_combination this
    have g22 : M33.det a * a.x22 = M33.det a := by
      have : a.x20 * (M33.adj a).x02 + a.x21 * (M33.adj a).x12 + a.x22 * (M33.adj a).x22 = M33.det a := by
        simp only [M33.det, M33.adj]; ring
      rw [e02, e12, e22] at this; linear_combination this
    have z : ∀ x : α, M33.det a * x = 0 → x = 0 := fun x hx => (mul_eq_zero.mp hx).resolve_left hd
    have o : ∀ x : α, M33.det a * x = M33.det a → x = 1 := fun x hx => by
      have : M33.det a * (x - 1) = 0 := by linear_combination hx
      have := z _ this; linarith
    have e : a = ⟨a.x00, a.x01, a.x02, a.x10, a.x11, a.x12, a.x20, a.x21, a.x22⟩ := rfl
    rw [e]
    simp only [M33.one, M33.mk.injEq]
    exact ⟨o _ g00, z _ g01, z _ g02, z _ g10, o _ g11, z _ g12, z _ g20, z _ g21, o _ g22⟩

/-- full strength: `inverse (true)` throws exactly when `inverse ()` reports failure, i.e. returns the identity for a
matrix that is not the identity -/
theorem M33_inverse_failure (tmin : α) (a : M33 α) :
    Gen.C07.M33.inverseT tmin a = .error Exc.invalidArgument ↔
      (Gen.C07.M33.inverse0 tmin a = M33.one α ∧ a ≠ M33.one α) := by
  constructor
  · intro h
    refine ⟨(M33_inverseT_error tmin a _ h).2, ?_⟩
    rintro rfl
    rcases ((M33_inverseT_error_iff tmin _ _).mp h).2 with ⟨_, hd, _⟩ | ⟨hna, _⟩
    · simp [M33.det2, M33.one] at hd
    · exact hna (by simp [M33.affine, M33.one])
  · rintro ⟨h1, hne⟩
    rcases except_cases (Gen.C07.M33.inverseT tmin a) with ⟨y, hy⟩ | ⟨k, hk⟩
    · exfalso
      have hy1 : y = M33.one α := by rw [← h1]; exact (M33_inverseT_ok tmin a y hy).symm
      exact hne (M33_inverseT_ok_one tmin a (hy1 ▸ hy))
    · rw [hk, (M33_inverseT_error tmin a k hk).1]

/-- guard tightness: `inverse (true)` throws only when the determinant (of the path taken) is below 1 in magnitude and
either it is zero or some EXACT entry `cofactor / det` of the inverse has magnitude at least `1 / tmin` -/
theorem M33_inverseT_tight (tmin : α) (ht : 0 < tmin) (a : M33 α) (k : Exc) (h : Gen.C07.M33.inverseT tmin a = .error k) :
    |M33.det a| < 1 ∧ (M33.det a = 0 ∨
      (M33.affine a ∧ (1 / tmin ≤ |a.x11 / M33.det a| ∨ 1 / tmin ≤ |a.x01 / M33.det a| ∨ 1 / tmin ≤ |a.x10 / M33.det a| ∨
        1 / tmin ≤ |a.x00 / M33.det a|)) ∨
      (1 / tmin ≤ |(M33.adjOverDet a).x00| ∨ 1 / tmin ≤ |(M33.adjOverDet a).x01| ∨ 1 / tmin ≤ |(M33.adjOverDet a).x02| ∨
       1 / tmin ≤ |(M33.adjOverDet a).x10| ∨ 1 / tmin ≤ |(M33.adjOverDet a).x11| ∨ 1 / tmin ≤ |(M33.adjOverDet a).x12| ∨
       1 / tmin ≤ |(M33.adjOverDet a).x20| ∨ 1 / tmin ≤ |(M33.adjOverDet a).x21| ∨ 1 / tmin ≤ |(M33.adjOverDet a).x22|)) := by
  rcases ((M33_inverseT_error_iff tmin a k).mp h).2 with ⟨ha, hd, hg⟩ | ⟨_, hd, hg⟩
  · rw [M33.det_of_affine a ha]
    refine ⟨hd, ?_⟩
    unfold M33.guardsPass2 at hg
    simp only [not_and_or] at hg
    rcases hg with hg | hg | hg | hg <;> rcases (inv_guard_fails_iff tmin _ _ ht).mp hg with h0 | h1 <;> tauto
  · refine ⟨hd, ?_⟩
    unfold M33.guardsPass at hg
    simp only [not_and_or] at hg
    simp only [M33.adjOverDet]
    rcases hg with hg | hg | hg | hg | hg | hg | hg | hg | hg <;>
      rcases (inv_guard_fails_iff tmin _ _ ht).mp hg with h0 | h1 <;> tauto

/-- ... which for the IEEE formats (`tmax · tmin ≤ 4`) is within a factor four of the element type's maximum -/
theorem M33_inverseT_tight_quarter (tmin tmax : α) (ht : 0 < tmin) (h4 : tmax * tmin ≤ 4) (a : M33 α) (k : Exc)
    (h : Gen.C07.M33.inverseT tmin a = .error k) :
    M33.det a = 0 ∨
      (M33.affine a ∧ (tmax / 4 ≤ |a.x11 / M33.det a| ∨ tmax / 4 ≤ |a.x01 / M33.det a| ∨ tmax / 4 ≤ |a.x10 / M33.det a| ∨
        tmax / 4 ≤ |a.x00 / M33.det a|)) ∨
      (tmax / 4 ≤ |(M33.adjOverDet a).x00| ∨ tmax / 4 ≤ |(M33.adjOverDet a).x01| ∨ tmax / 4 ≤ |(M33.adjOverDet a).x02| ∨
       tmax / 4 ≤ |(M33.adjOverDet a).x10| ∨ tmax / 4 ≤ |(M33.adjOverDet a).x11| ∨ tmax / 4 ≤ |(M33.adjOverDet a).x12| ∨
       tmax / 4 ≤ |(M33.adjOverDet a).x20| ∨ tmax / 4 ≤ |(M33.adjOverDet a).x21| ∨ tmax / 4 ≤ |(M33.adjOverDet a).x22|) := by
  have q : ∀ x : α, 1 / tmin ≤ x → tmax / 4 ≤ x := fun x hx => quarter_max_le tmin tmax x ht h4 hx
  rcases (M33_inverseT_tight tmin ht a k h).2 with h0 | ⟨ha, h1 | h1 | h1 | h1⟩ | h1 | h1 | h1 | h1 | h1 | h1 | h1 | h1 | h1
  · exact Or.inl h0
  all_goals (have h2 := q _ h1; tauto)

/-- well-conditioned input never throws: `|det| ≥ 1` -/
theorem M33_inverseT_never (tmin : α) (a : M33 α) (h : 1 ≤ |M33.det a|) :
    Gen.C07.M33.inverseT tmin a = .ok (Gen.C07.M33.inverse0 tmin a) := by
  rcases except_cases (Gen.C07.M33.inverseT tmin a) with ⟨y, hy⟩ | ⟨k, hk⟩
  · rw [hy, M33_inverseT_ok tmin a y hy]
  · exfalso
    rcases ((M33_inverseT_error_iff tmin a k).mp hk).2 with ⟨ha, hd, _⟩ | ⟨_, hd, _⟩
    · rw [← M33.det_of_affine a ha] at hd; exact absurd hd (not_lt.mpr h)
    · exact absurd hd (not_lt.mpr h)

example : (1 : ℚ) ≤ |M33.det (⟨2, 0, 0, 0, 1, 0, 0, 0, 1⟩ : M33 ℚ)| := by norm_num [M33.det, M33.adj]
example : (1 : ℚ) ≤ |M33.det (⟨1, 2, 3, 0, 1, 4, 5, 6, 0⟩ : M33 ℚ)| := by norm_num [M33.det, M33.adj]
/-- both failure sites are reachable: a singular affine matrix and a singular general matrix -/
example : Gen.C07.M33.inverseT (1 / 1024 : ℚ) ⟨1, 2, 0, 2, 4, 0, 5, 6, 1⟩ = .error Exc.invalidArgument := by
  rw [M33_inverseT_error_iff]; norm_num [M33.affine, M33.det2, M33.guardsPass2, M33.det, M33.guardsPass]
example : Gen.C07.M33.inverseT (1 / 1024 : ℚ) ⟨1, 2, 3, 2, 4, 6, 0, 1, 5⟩ = .error Exc.invalidArgument := by
  rw [M33_inverseT_error_iff]; norm_num [M33.affine, M33.det2, M33.guardsPass2, M33.det, M33.guardsPass, M33.adj]

/-! ## Matrix44: inverse () / inverse (false) / inverse (true), invert likewise

The non-affine arm forwards to `gjInverse`, whose tree cannot be enumerated; it is a PARAMETER of the extracted
definitions: `gj` = `gjInverse ()`, `gjF` = `gjInverse (false)`, and `gjInverse (true)` as the pair
(`gjTs` = 0 when it returns / non-zero when it throws `std::invalid_argument`, `gjTv` = the value it returns).
The theorems hold for EVERY such functions that agree as a checked / unchecked pair ON THE ARGUMENT (hypotheses
`hok`, `herr`; that the real `gjInverse` members satisfy them is decided by the correspondence harness
`c07_pairs`, and for 3×3 proved in `Props/C07GJ.lean`). -/

theorem M44_eta (a : M44 α) :
    (⟨a.x00, a.x01, a.x02, a.x03, a.x10, a.x11, a.x12, a.x13, a.x20, a.x21, a.x22, a.x23, a.x30, a.x31, a.x32, a.x33⟩ : M44 α) = a := rfl

theorem M44_inverseT_unexc (tmin : α) (gj gjTv : M44 α → M44 α) (gjTs : M44 α → α) (a : M44 α)
    (hok : gjTs a = 0 → gjTv a = gj a) (herr : gjTs a ≠ 0 → gj a = M44.one α) :
    unexc (M44.one α) (Gen.C07.M44.inverseT tmin gjTs gjTv a) = Gen.C07.M44.inverse0 tmin gj a := by
  by_cases hs : gjTs a = 0
  · have := hok hs
    simp only [Gen.C07.M44.inverseT, Gen.C07.M44.inverse0, M44_eta, hs, this, if_true, apply_ite (unexc _), unexc_ok, unexc_error, M44.one]
  · have := herr hs
    simp only [Gen.C07.M44.inverseT, Gen.C07.M44.inverse0, M44_eta, hs, this, if_false, apply_ite (unexc _), unexc_ok, unexc_error, M44.one]

theorem M44_inverseT_ok (tmin : α) (gj gjTv : M44 α → M44 α) (gjTs : M44 α → α) (a y : M44 α)
    (hok : gjTs a = 0 → gjTv a = gj a) (herr : gjTs a ≠ 0 → gj a = M44.one α)
    (h : Gen.C07.M44.inverseT tmin gjTs gjTv a = .ok y) : Gen.C07.M44.inverse0 tmin gj a = y :=
  unexc_ok_imp (M44_inverseT_unexc tmin gj gjTv gjTs a hok herr) y h

theorem M44_inverseT_error (tmin : α) (gj gjTv : M44 α → M44 α) (gjTs : M44 α → α) (a : M44 α) (k : Exc)
    (hok : gjTs a = 0 → gjTv a = gj a) (herr : gjTs a ≠ 0 → gj a = M44.one α)
    (h : Gen.C07.M44.inverseT tmin gjTs gjTv a = .error k) :
    k = Exc.invalidArgument ∧ Gen.C07.M44.inverse0 tmin gj a = M44.one α := by
  refine ⟨errIs_imp (k := Exc.invalidArgument) ?_ k h, unexc_error_imp (M44_inverseT_unexc tmin gj gjTv gjTs a hok herr) k h⟩
  pair_tac [Gen.C07.M44.inverseT]

/-- the duplicated bodies are the same function (given that `gjInverse (false)` and `gjInverse ()` agree on the argument);
the in-place forms equal the value forms -/
theorem M44_inverse_copies (tmin : α) (gj gjF gjTv : M44 α → M44 α) (gjTs : M44 α → α) (a : M44 α) (hF : gjF a = gj a) :
    Gen.C07.M44.inverseF tmin gjF a = Gen.C07.M44.inverse0 tmin gj a ∧
    Gen.C07.M44.invert0 tmin gj a = Gen.C07.M44.inverse0 tmin gj a ∧
    Gen.C07.M44.invertF tmin gjF a = Gen.C07.M44.inverseF tmin gjF a ∧
    Gen.C07.M44.invertT tmin gjTs gjTv a = Gen.C07.M44.inverseT tmin gjTs gjTv a := by
  refine ⟨?_, ?_, ?_, ?_⟩
  · simp only [Gen.C07.M44.inverseF, Gen.C07.M44.inverse0, M44_eta, hF]
  · pair_tac [Gen.C07.M44.invert0, Gen.C07.M44.inverse0]
  · pair_tac [Gen.C07.M44.invertF, Gen.C07.M44.inverseF]
  · pair_tac [Gen.C07.M44.invertT, Gen.C07.M44.inverseT]

/-- the fast path of `Matrix44::inverse` is taken when the last column is `(0, 0, 0, 1)` -/
def M44.affine (a : M44 α) : Prop := a.x03 = 0 ∧ a.x13 = 0 ∧ a.x23 = 0 ∧ a.x33 = 1
instance (a : M44 α) : Decidable (M44.affine a) := by unfold M44.affine; infer_instance
/-- upper-left 3×3 block -/
def M44.upper (a : M44 α) : M33 α := ⟨a.x00, a.x01, a.x02, a.x10, a.x11, a.x12, a.x20, a.x21, a.x22⟩
/-- what the fast path returns when it does not fail -/
def M44.affineInverse (a : M44 α) : M44 α :=
  ⟨(M33.adjOverDet (M44.upper a)).x00, (M33.adjOverDet (M44.upper a)).x01, (M33.adjOverDet (M44.upper a)).x02, 0,
   (M33.adjOverDet (M44.upper a)).x10, (M33.adjOverDet (M44.upper a)).x11, (M33.adjOverDet (M44.upper a)).x12, 0,
   (M33.adjOverDet (M44.upper a)).x20, (M33.adjOverDet (M44.upper a)).x21, (M33.adjOverDet (M44.upper a)).x22, 0,
   -a.x30 * (M33.adjOverDet (M44.upper a)).x00 - a.x31 * (M33.adjOverDet (M44.upper a)).x10 - a.x32 * (M33.adjOverDet (M44.upper a)).x20,
   -a.x30 * (M33.adjOverDet (M44.upper a)).x01 - a.x31 * (M33.adjOverDet (M44.upper a)).x11 - a.x32 * (M33.adjOverDet (M44.upper a)).x21,
   -a.x30 * (M33.adjOverDet (M44.upper a)).x02 - a.x31 * (M33.adjOverDet (M44.upper a)).x12 - a.x32 * (M33.adjOverDet (M44.upper a)).x22, 1⟩

/-- COMPLETE description of `Matrix44::inverse (true)` relative to `gjInverse (true)` (normal form of the extracted tree) -/
theorem M44_inverseT_normal_form (tmin : α) (gjTv : M44 α → M44 α) (gjTs : M44 α → α) (a : M44 α) :
    Gen.C07.M44.inverseT tmin gjTs gjTv a =
      if M44.affine a then
        (if 1 ≤ |M33.det (M44.upper a)| ∨ M33.guardsPass tmin (M44.upper a) then .ok (M44.affineInverse a)
         else .error Exc.invalidArgument)
      else (if gjTs a = 0 then .ok (gjTv a) else .error Exc.invalidArgument) := by
  simp only [Gen.C07.M44.inverseT, M44_eta, sabs_eq_abs, abs_neg, ite_and_collapse, ite_or_collapse, M44.affine, M33.det, M33.adj,
    M33.guardsPass, M44.affineInverse, M33.adjOverDet, M44.upper]
  rfl

theorem M44_inverseT_error_iff (tmin : α) (gjTv : M44 α → M44 α) (gjTs : M44 α → α) (a : M44 α) (k : Exc) :
    Gen.C07.M44.inverseT tmin gjTs gjTv a = .error k ↔
      (k = Exc.invalidArgument ∧
        ((M44.affine a ∧ |M33.det (M44.upper a)| < 1 ∧ ¬ M33.guardsPass tmin (M44.upper a)) ∨
         (¬ M44.affine a ∧ gjTs a ≠ 0))) := by
  rw [M44_inverseT_normal_form]
  by_cases ha : M44.affine a
  · simp only [ha, if_true, ite_ok_err_error_iff, not_or, not_le]; tauto
  · simp only [ha, if_false, ite_ok_err_error_iff, not_or, not_le]; tauto

/-- `inverse (true)` throws ⇒ `inverse ()` reports failure (identity for a non-identity matrix).
FULL-STRENGTH statement (not provable here, because `gjInverse` is a parameter):
`inverseT … a = .error invalidArgument ↔ (inverse0 … a = 1 ∧ a ≠ 1)`; the missing direction needs
"gjInverse () = 1 only for the identity or a singular matrix", i.e. the correctness of Gauss-Jordan (C06). -/
theorem M44_inverse_failure_partial (tmin : α) (gj gjTv : M44 α → M44 α) (gjTs : M44 α → α) (a : M44 α)
    (hok : gjTs a = 0 → gjTv a = gj a) (herr : gjTs a ≠ 0 → gj a = M44.one α)
    (h : Gen.C07.M44.inverseT tmin gjTs gjTv a = .error Exc.invalidArgument) :
    Gen.C07.M44.inverse0 tmin gj a = M44.one α ∧ a ≠ M44.one α := by
  refine ⟨(M44_inverseT_error tmin gj gjTv gjTs a _ hok herr h).2, ?_⟩
  rintro rfl
  rcases ((M44_inverseT_error_iff tmin gjTv gjTs _ _).mp h).2 with ⟨_, hd, _⟩ | ⟨hna, _⟩
  · simp [M33.det, M33.adj, M44.upper, M44.one] at hd
  · exact hna (by simp [M44.affine, M44.one])

/-- guard tightness on the fast path (the Gauss-Jordan arm has no overflow guard: it fails on an exactly zero pivot) -/
theorem M44_inverseT_tight (tmin : α) (ht : 0 < tmin) (gjTv : M44 α → M44 α) (gjTs : M44 α → α) (a : M44 α) (k : Exc)
    (ha : M44.affine a) (h : Gen.C07.M44.inverseT tmin gjTs gjTv a = .error k) :
    |M33.det (M44.upper a)| < 1 ∧ (M33.det (M44.upper a) = 0 ∨
      (1 / tmin ≤ |(M44.affineInverse a).x00| ∨ 1 / tmin ≤ |(M44.affineInverse a).x01| ∨ 1 / tmin ≤ |(M44.affineInverse a).x02| ∨
       1 / tmin ≤ |(M44.affineInverse a).x10| ∨ 1 / tmin ≤ |(M44.affineInverse a).x11| ∨ 1 / tmin ≤ |(M44.affineInverse a).x12| ∨
       1 / tmin ≤ |(M44.affineInverse a).x20| ∨ 1 / tmin ≤ |(M44.affineInverse a).x21| ∨ 1 / tmin ≤ |(M44.affineInverse a).x22|)) := by
  rcases ((M44_inverseT_error_iff tmin gjTv gjTs a k).mp h).2 with ⟨_, hd, hg⟩ | ⟨hna, _⟩
  · refine ⟨hd, ?_⟩
    unfold M33.guardsPass at hg
    simp only [not_and_or] at hg
    simp only [M44.affineInverse, M33.adjOverDet]
    rcases hg with hg | hg | hg | hg | hg | hg | hg | hg | hg <;>
      rcases (inv_guard_fails_iff tmin _ _ ht).mp hg with h0 | h1 <;> tauto
  · exact absurd ha hna

/-- ... which for the IEEE formats (`tmax · tmin ≤ 4`) is within a factor four of the element type's maximum -/
theorem M44_inverseT_tight_quarter (tmin tmax : α) (ht : 0 < tmin) (h4 : tmax * tmin ≤ 4) (gjTv : M44 α → M44 α) (gjTs : M44 α → α)
    (a : M44 α) (k : Exc) (ha : M44.affine a) (h : Gen.C07.M44.inverseT tmin gjTs gjTv a = .error k) :
    M33.det (M44.upper a) = 0 ∨
      (tmax / 4 ≤ |(M44.affineInverse a).x00| ∨ tmax / 4 ≤ |(M44.affineInverse a).x01| ∨ tmax / 4 ≤ |(M44.affineInverse a).x02| ∨
       tmax / 4 ≤ |(M44.affineInverse a).x10| ∨ tmax / 4 ≤ |(M44.affineInverse a).x11| ∨ tmax / 4 ≤ |(M44.affineInverse a).x12| ∨
       tmax / 4 ≤ |(M44.affineInverse a).x20| ∨ tmax / 4 ≤ |(M44.affineInverse a).x21| ∨ tmax / 4 ≤ |(M44.affineInverse a).x22|) := by
  have q : ∀ x : α, 1 / tmin ≤ x → tmax / 4 ≤ x := fun x hx => quarter_max_le tmin tmax x ht h4 hx
  rcases (M44_inverseT_tight tmin ht gjTv gjTs a k ha h).2 with h0 | h1 | h1 | h1 | h1 | h1 | h1 | h1 | h1 | h1
  · exact Or.inl h0
  all_goals (have h2 := q _ h1; tauto)

/-- well-conditioned input never throws: an affine matrix with `|det| ≥ 1`, or a non-affine one on which `gjInverse (true)` returns -/
theorem M44_inverseT_never (tmin : α) (gj gjTv : M44 α → M44 α) (gjTs : M44 α → α) (a : M44 α)
    (hok : gjTs a = 0 → gjTv a = gj a) (herr : gjTs a ≠ 0 → gj a = M44.one α)
    (h : (M44.affine a ∧ 1 ≤ |M33.det (M44.upper a)|) ∨ (¬ M44.affine a ∧ gjTs a = 0)) :
    Gen.C07.M44.inverseT tmin gjTs gjTv a = .ok (Gen.C07.M44.inverse0 tmin gj a) := by
  rcases except_cases (Gen.C07.M44.inverseT tmin gjTs gjTv a) with ⟨y, hy⟩ | ⟨k, hk⟩
  · rw [hy, M44_inverseT_ok tmin gj gjTv gjTs a y hok herr hy]
  · exfalso
    rcases ((M44_inverseT_error_iff tmin gjTv gjTs a k).mp hk).2 with ⟨ha, hd, _⟩ | ⟨hna, hs⟩
    · rcases h with ⟨_, h1⟩ | ⟨h2, _⟩
      · exact absurd hd (not_lt.mpr h1)
      · exact h2 ha
    · rcases h with ⟨h1, _⟩ | ⟨_, h2⟩
      · exact hna h1
      · exact hs h2

/-- non-vacuity: the hypotheses on the Gauss-Jordan pair are satisfiable (here by the trivial pair "never fails") and both arms are reachable -/
example : ∀ a : M44 ℚ, ((fun _ => (0 : ℚ)) a = 0 → (fun m : M44 ℚ => m) a = (fun m : M44 ℚ => m) a) ∧
    ((fun _ : M44 ℚ => (0 : ℚ)) a ≠ 0 → (fun m : M44 ℚ => m) a = M44.one ℚ) := fun a => ⟨fun _ => rfl, fun h => absurd rfl h⟩
example : M44.affine (⟨2, 0, 0, 0, 0, 1, 0, 0, 0, 0, 1, 0, 3, 4, 5, 1⟩ : M44 ℚ) ∧
    (1 : ℚ) ≤ |M33.det (M44.upper (⟨2, 0, 0, 0, 0, 1, 0, 0, 0, 0, 1, 0, 3, 4, 5, 1⟩ : M44 ℚ))| := by
  norm_num [M44.affine, M44.upper, M33.det, M33.adj]
example : Gen.C07.M44.inverseT (1 / 1024 : ℚ) (fun _ => 0) (fun m => m) ⟨1, 2, 3, 0, 2, 4, 6, 0, 0, 1, 5, 0, 7, 8, 9, 1⟩ = .error Exc.invalidArgument := by
  rw [M44_inverseT_error_iff]; norm_num [M44.affine, M44.upper, M33.det, M33.guardsPass, M33.adj]

/-! ## Frustum: every `…Exc` member against its unchecked twin

A frustum is its six scalars `n f l r t b` (near, far, left, right, top, bottom) and a concrete `orthographic` flag
(suffix `_persp` / `_ortho`; members that do not read the flag are extracted once).  Every guard in ImathFrustum.h is
the strict form `abs (d) < 1 && abs (n) > max * abs (d)` = `guardGt tmax n d`; by `guardGt_iff` it fires exactly when
`d = 0 ≠ n` or the EXACT quotient `|n / d| > tmax`; it never fires for `|d| ≥ 1` nor for `0 / 0`. -/

/-- `.error k ↔ k = domainError ∧ guards`: collapses the extracted guard chain into one proposition -/
macro "exc_err_tac " "[" ds:ident,* "]" : tactic =>
  `(tactic| (simp only [$[$ds:ident],*, sabs_eq_abs, ite_and_collapse, ite_or_collapse, ite_guard_collapse, ite_err_ok_error_iff, ite_ok_err_error_iff,
      guardGt, guardGe, guardGe']))
/-- `checked = .ok y → unchecked = y`: every returning leaf of the checked tree is the unchecked expression -/
macro "exc_ok_tac " h:ident y:ident "[" ds:ident,* "]" : tactic =>
  `(tactic| (refine unexc_self_ok ?_ $y $h; pair_tac [$[$ds:ident],*]))

theorem Frustum_aspectExc_ok (tmax n f l r t b y : α) (h : Gen.C07.Frustum.aspectExc tmax n f l r t b = .ok y) :
    Gen.C07.Frustum.aspect n f l r t b = y := by
  exc_ok_tac h y [Gen.C07.Frustum.aspectExc, Gen.C07.Frustum.aspect]

theorem Frustum_aspectExc_error (tmax n f l r t b : α) (k : Exc) :
    Gen.C07.Frustum.aspectExc tmax n f l r t b = .error k ↔ (k = Exc.domainError ∧ guardGt tmax (r - l) (t - b)) := by
  exc_err_tac [Gen.C07.Frustum.aspectExc]
  tauto

/-- tightness: `aspectExc` throws only when `|top − bottom| < 1` and either `top − bottom = 0 ≠ right − left` or the EXACT
aspect ratio exceeds `tmax` in magnitude.  OBSERVATION (reported, see `Frustum_aspectExc_zero_over_zero`): for `right = left ∧
top = bottom` the ratio is `0 / 0`, "undefined", and `aspectExc` does NOT throw although it is documented to "throw an exception if
the aspect ratio is undefined" (the guard is the strict `>`; the unchecked form has no failure report, so the pair still agrees). -/
theorem Frustum_aspectExc_tight (tmax n f l r t b : α) (k : Exc) (h : Gen.C07.Frustum.aspectExc tmax n f l r t b = .error k) :
    |t - b| < 1 ∧ ((t - b = 0 ∧ r - l ≠ 0) ∨ (t - b ≠ 0 ∧ tmax < |Gen.C07.Frustum.aspect n f l r t b|)) := by
  have := ((Frustum_aspectExc_error tmax n f l r t b k).mp h).2
  rwa [guardGt_iff] at this

theorem Frustum_aspectExc_never (tmax n f l r t b : α) (h : 1 ≤ |t - b| ∨ (t - b ≠ 0 ∧ |(r - l) / (t - b)| ≤ tmax)) :
    Gen.C07.Frustum.aspectExc tmax n f l r t b = .ok (Gen.C07.Frustum.aspect n f l r t b) := by
  rcases except_cases (Gen.C07.Frustum.aspectExc tmax n f l r t b) with ⟨y, hy⟩ | ⟨k, hk⟩
  · rw [hy, Frustum_aspectExc_ok tmax n f l r t b y hy]
  · exfalso
    have hg := ((Frustum_aspectExc_error tmax n f l r t b k).mp hk).2
    rcases h with h | ⟨h0, h1⟩
    · exact not_guardGt_of_one_le _ _ _ h hg
    · exact not_guardGt_of_le _ _ _ h0 h1 hg

/-- the degenerate frustum `right = left`, `top = bottom`: `0 / 0`, not flagged by `aspectExc` -/
theorem Frustum_aspectExc_zero_over_zero (tmax n f l t : α) :
    Gen.C07.Frustum.aspectExc tmax n f l l t t = .ok (Gen.C07.Frustum.aspect n f l l t t) := by
  simp [Gen.C07.Frustum.aspectExc, Gen.C07.Frustum.aspect, sabs]

example : (1 : ℚ) ≤ |(1 : ℚ) - (-1)| := by norm_num
example : Gen.C07.Frustum.aspectExc (1048576 : ℚ) 1 2 (-1) 1 (1 / 4194304) 0 = .error Exc.domainError := by
  rw [Frustum_aspectExc_error]; norm_num [guardGt, abs_of_nonneg]

/-! ### localToScreen / projectPointToScreen -/

theorem Frustum_localToScreenExc_ok (tmax n f l r t b : α) (p y : V2 α)
    (h : Gen.C07.Frustum.localToScreenExc tmax n f l r t b p = .ok y) : Gen.C07.Frustum.localToScreen n f l r t b p = y := by
  exc_ok_tac h y [Gen.C07.Frustum.localToScreenExc, Gen.C07.Frustum.localToScreen]

theorem Frustum_localToScreenExc_error (tmax n f l r t b : α) (p : V2 α) (k : Exc) :
    Gen.C07.Frustum.localToScreenExc tmax n f l r t b p = .error k ↔
      (k = Exc.domainError ∧ (guardGt tmax (l - 2 * p.x + r) (l - r) ∨ guardGt tmax (b - 2 * p.y + t) (b - t))) := by
  exc_err_tac [Gen.C07.Frustum.localToScreenExc]
  tauto

/-- the point handed to `localToScreen`: the point itself for `z = 0` (or an orthographic frustum), else its perspective projection -/
def perspPoint (n : α) (p : V3 α) : V2 α := if p.z = 0 then ⟨p.x, p.y⟩ else ⟨p.x * n / -p.z, p.y * n / -p.z⟩

/-- `projectPointToScreen[Exc]` is `localToScreen[Exc]` of the projected point — for both members of the pair -/
theorem Frustum_projectPointToScreen_persp (tmax n f l r t b : α) (p : V3 α) :
    Gen.C07.Frustum.projectPointToScreenExc_persp tmax n f l r t b p = Gen.C07.Frustum.localToScreenExc tmax n f l r t b (perspPoint n p) ∧
    Gen.C07.Frustum.projectPointToScreen_persp n f l r t b p = Gen.C07.Frustum.localToScreen n f l r t b (perspPoint n p) := by
  unfold perspPoint
  by_cases hz : p.z = 0
  · constructor <;> simp only [Gen.C07.Frustum.projectPointToScreenExc_persp, Gen.C07.Frustum.localToScreenExc,
      Gen.C07.Frustum.projectPointToScreen_persp, Gen.C07.Frustum.localToScreen, hz, if_true]
  · constructor <;> simp only [Gen.C07.Frustum.projectPointToScreenExc_persp, Gen.C07.Frustum.localToScreenExc,
      Gen.C07.Frustum.projectPointToScreen_persp, Gen.C07.Frustum.localToScreen, hz, if_false]

theorem Frustum_projectPointToScreen_ortho (tmax n f l r t b : α) (p : V3 α) :
    Gen.C07.Frustum.projectPointToScreenExc_ortho tmax n f l r t b p = Gen.C07.Frustum.localToScreenExc tmax n f l r t b ⟨p.x, p.y⟩ ∧
    Gen.C07.Frustum.projectPointToScreen_ortho n f l r t b p = Gen.C07.Frustum.localToScreen n f l r t b ⟨p.x, p.y⟩ := by
  constructor <;> simp only [Gen.C07.Frustum.projectPointToScreenExc_ortho, Gen.C07.Frustum.localToScreenExc,
      Gen.C07.Frustum.projectPointToScreen_ortho, Gen.C07.Frustum.localToScreen]

theorem Frustum_projectPointToScreenExc_ok (tmax n f l r t b : α) (p : V3 α) (y : V2 α) :
    (Gen.C07.Frustum.projectPointToScreenExc_persp tmax n f l r t b p = .ok y → Gen.C07.Frustum.projectPointToScreen_persp n f l r t b p = y) ∧
    (Gen.C07.Frustum.projectPointToScreenExc_ortho tmax n f l r t b p = .ok y → Gen.C07.Frustum.projectPointToScreen_ortho n f l r t b p = y) := by
  rw [(Frustum_projectPointToScreen_persp tmax n f l r t b p).1, (Frustum_projectPointToScreen_persp tmax n f l r t b p).2,
    (Frustum_projectPointToScreen_ortho tmax n f l r t b p).1, (Frustum_projectPointToScreen_ortho tmax n f l r t b p).2]
  exact ⟨Frustum_localToScreenExc_ok tmax n f l r t b _ y, Frustum_localToScreenExc_ok tmax n f l r t b _ y⟩

theorem Frustum_projectPointToScreenExc_error (tmax n f l r t b : α) (p : V3 α) (k : Exc) :
    (Gen.C07.Frustum.projectPointToScreenExc_persp tmax n f l r t b p = .error k ↔
      (k = Exc.domainError ∧ (guardGt tmax (l - 2 * (perspPoint n p).x + r) (l - r) ∨ guardGt tmax (b - 2 * (perspPoint n p).y + t) (b - t)))) ∧
    (Gen.C07.Frustum.projectPointToScreenExc_ortho tmax n f l r t b p = .error k ↔
      (k = Exc.domainError ∧ (guardGt tmax (l - 2 * p.x + r) (l - r) ∨ guardGt tmax (b - 2 * p.y + t) (b - t)))) := by
  rw [(Frustum_projectPointToScreen_persp tmax n f l r t b p).1, (Frustum_projectPointToScreen_ortho tmax n f l r t b p).1]
  exact ⟨Frustum_localToScreenExc_error tmax n f l r t b _ k, Frustum_localToScreenExc_error tmax n f l r t b _ k⟩

/-- well-conditioned: a window at least 1 wide and 1 high never throws, for any point -/
theorem Frustum_localToScreenExc_never (tmax n f l r t b : α) (p : V2 α) (hw : 1 ≤ |l - r|) (hh : 1 ≤ |b - t|) :
    Gen.C07.Frustum.localToScreenExc tmax n f l r t b p = .ok (Gen.C07.Frustum.localToScreen n f l r t b p) := by
  rcases except_cases (Gen.C07.Frustum.localToScreenExc tmax n f l r t b p) with ⟨y, hy⟩ | ⟨k, hk⟩
  · rw [hy, Frustum_localToScreenExc_ok tmax n f l r t b p y hy]
  · exfalso
    rcases ((Frustum_localToScreenExc_error tmax n f l r t b p k).mp hk).2 with hg | hg
    · exact not_guardGt_of_one_le _ _ _ hw hg
    · exact not_guardGt_of_one_le _ _ _ hh hg

/-! ### projectionMatrix -/

theorem Frustum_projectionMatrixExc_ok (tmax n f l r t b : α) (y : M44 α) :
    (Gen.C07.Frustum.projectionMatrixExc_persp tmax n f l r t b = .ok y → Gen.C07.Frustum.projectionMatrix_persp n f l r t b = y) ∧
    (Gen.C07.Frustum.projectionMatrixExc_ortho tmax n f l r t b = .ok y → Gen.C07.Frustum.projectionMatrix_ortho n f l r t b = y) := by
  constructor <;> intro h
  · exc_ok_tac h y [Gen.C07.Frustum.projectionMatrixExc_persp, Gen.C07.Frustum.projectionMatrix_persp]
  · exc_ok_tac h y [Gen.C07.Frustum.projectionMatrixExc_ortho, Gen.C07.Frustum.projectionMatrix_ortho]

/-- the three guards shared by both kinds of frustum: `(r+l)/(r−l)`, `(t+b)/(t−b)`, `(f+n)/(f−n)` -/
abbrev projGuards (tmax n f l r t b : α) : Prop :=
  guardGt tmax (r + l) (r - l) ∨ guardGt tmax (t + b) (t - b) ∨ guardGt tmax (f + n) (f - n)

/-- perspective: additionally `−2fn/(f−n)`, `2n/(r−l)`, `2n/(t−b)` (the header calls these "impossible: already tested above";
they are not implied by the first three, but that does not matter for the pair) -/
theorem Frustum_projectionMatrixExc_persp_error (tmax n f l r t b : α) (k : Exc) :
    Gen.C07.Frustum.projectionMatrixExc_persp tmax n f l r t b = .error k ↔
      (k = Exc.domainError ∧ (projGuards tmax n f l r t b ∨ guardGt tmax (-2 * f * n) (f - n) ∨
        guardGt tmax (2 * n) (r - l) ∨ guardGt tmax (2 * n) (t - b))) := by
  have hk : errIs Exc.domainError (Gen.C07.Frustum.projectionMatrixExc_persp tmax n f l r t b) = true := by
    pair_tac [Gen.C07.Frustum.projectionMatrixExc_persp]
  rw [error_iff_of_errIs hk]
  refine and_congr_right fun _ => bool_iff_of_eq_decide ?_
  -- Boolean reflection: both sides become Boolean expressions over the nine comparisons, compared by `decide`
  simp only [Gen.C07.Frustum.projectionMatrixExc_persp, apply_ite errB, errB_ok, errB_error, sabs_eq_abs, guardGt, projGuards]
  simp only [Bool.decide_or, Bool.decide_and, ← Bool.cond_decide]
  generalize decide (|r - l| < 1) = a1
  generalize decide (|t - b| < 1) = a2
  generalize decide (|f - n| < 1) = a3
  generalize decide (tmax * |r - l| < |r + l|) = b1
  generalize decide (tmax * |t - b| < |t + b|) = b2
  generalize decide (tmax * |f - n| < |f + n|) = b3
  generalize decide (tmax * |f - n| < |-2 * f * n|) = b4
  generalize decide (tmax * |r - l| < |2 * n|) = b5
  generalize decide (tmax * |t - b| < |2 * n|) = b6
  revert a1 a2 a3 b1 b2 b3 b4 b5 b6
  decide

/-- orthographic: additionally `2/(r−l)`, `2/(t−b)`, `2/(f−n)` -/
theorem Frustum_projectionMatrixExc_ortho_error (tmax n f l r t b : α) (k : Exc) :
    Gen.C07.Frustum.projectionMatrixExc_ortho tmax n f l r t b = .error k ↔
      (k = Exc.domainError ∧ (projGuards tmax n f l r t b ∨ guardGt tmax 2 (r - l) ∨ guardGt tmax 2 (t - b) ∨ guardGt tmax 2 (f - n))) := by
  have hk : errIs Exc.domainError (Gen.C07.Frustum.projectionMatrixExc_ortho tmax n f l r t b) = true := by
    pair_tac [Gen.C07.Frustum.projectionMatrixExc_ortho]
  rw [error_iff_of_errIs hk]
  refine and_congr_right fun _ => bool_iff_of_eq_decide ?_
  simp only [Gen.C07.Frustum.projectionMatrixExc_ortho, apply_ite errB, errB_ok, errB_error, sabs_eq_abs, abs_two, guardGt, projGuards]
  simp only [Bool.decide_or, Bool.decide_and, ← Bool.cond_decide, abs_two]
  generalize decide (|r - l| < 1) = a1
  generalize decide (|t - b| < 1) = a2
  generalize decide (|f - n| < 1) = a3
  generalize decide (tmax * |r - l| < |r + l|) = b1
  generalize decide (tmax * |t - b| < |t + b|) = b2
  generalize decide (tmax * |f - n| < |f + n|) = b3
  generalize decide (tmax * |r - l| < 2) = b4
  generalize decide (tmax * |t - b| < 2) = b5
  generalize decide (tmax * |f - n| < 2) = b6
  revert a1 a2 a3 b1 b2 b3 b4 b5 b6
  decide

/-- well-conditioned: a frustum at least 1 wide, 1 high and 1 deep never throws -/
theorem Frustum_projectionMatrixExc_never (tmax n f l r t b : α) (hw : 1 ≤ |r - l|) (hh : 1 ≤ |t - b|) (hd : 1 ≤ |f - n|) :
    Gen.C07.Frustum.projectionMatrixExc_persp tmax n f l r t b = .ok (Gen.C07.Frustum.projectionMatrix_persp n f l r t b) ∧
    Gen.C07.Frustum.projectionMatrixExc_ortho tmax n f l r t b = .ok (Gen.C07.Frustum.projectionMatrix_ortho n f l r t b) := by
  have hp : ¬ projGuards tmax n f l r t b := by
    rintro (h | h | h)
    · exact not_guardGt_of_one_le _ _ _ hw h
    · exact not_guardGt_of_one_le _ _ _ hh h
    · exact not_guardGt_of_one_le _ _ _ hd h
  constructor
  · rcases except_cases (Gen.C07.Frustum.projectionMatrixExc_persp tmax n f l r t b) with ⟨y, hy⟩ | ⟨k, hk⟩
    · rw [hy, (Frustum_projectionMatrixExc_ok tmax n f l r t b y).1 hy]
    · exfalso
      rcases ((Frustum_projectionMatrixExc_persp_error tmax n f l r t b k).mp hk).2 with h | h | h | h
      · exact hp h
      · exact not_guardGt_of_one_le _ _ _ hd h
      · exact not_guardGt_of_one_le _ _ _ hw h
      · exact not_guardGt_of_one_le _ _ _ hh h
  · rcases except_cases (Gen.C07.Frustum.projectionMatrixExc_ortho tmax n f l r t b) with ⟨y, hy⟩ | ⟨k, hk⟩
    · rw [hy, (Frustum_projectionMatrixExc_ok tmax n f l r t b y).2 hy]
    · exfalso
      rcases ((Frustum_projectionMatrixExc_ortho_error tmax n f l r t b k).mp hk).2 with h | h | h | h
      · exact hp h
      · exact not_guardGt_of_one_le _ _ _ hw h
      · exact not_guardGt_of_one_le _ _ _ hh h
      · exact not_guardGt_of_one_le _ _ _ hd h

/-- the default frustum (near 0.1, far 1000, window [−1,1]²) is well-conditioned -/
example : (1 : ℚ) ≤ |(1 : ℚ) - (-1)| ∧ (1 : ℚ) ≤ |(1000 : ℚ) - 1 / 10| := by norm_num [abs_of_nonneg]

/-! ### depth maps -/

theorem Frustum_normalizedZToDepthExc_ok (tmax n f l r t b z y : α) :
    (Gen.C07.Frustum.normalizedZToDepthExc_persp tmax n f l r t b z = .ok y → Gen.C07.Frustum.normalizedZToDepth_persp n f l r t b z = y) ∧
    Gen.C07.Frustum.normalizedZToDepthExc_ortho n f l r t b z = Gen.C07.Frustum.normalizedZToDepth_ortho n f l r t b z := by
  constructor
  · intro h
    exc_ok_tac h y [Gen.C07.Frustum.normalizedZToDepthExc_persp, Gen.C07.Frustum.normalizedZToDepth_persp]
  · rfl

theorem Frustum_normalizedZToDepthExc_error (tmax n f l r t b z : α) (k : Exc) :
    Gen.C07.Frustum.normalizedZToDepthExc_persp tmax n f l r t b z = .error k ↔
      (k = Exc.domainError ∧ guardGt tmax (2 * f * n) ((z * 2 - 1) * (f - n) - f - n)) := by
  exc_err_tac [Gen.C07.Frustum.normalizedZToDepthExc_persp]
  tauto

/-- `ZToDepth[Exc] (zval, zmin, zmax)` for concrete integer arguments is `normalizedZToDepth[Exc]` of the exact fraction:
`(5 − 0)/10`; `zval = 12 > zmax + 1` wraps to `2`; `zmax = zmin` is the failure case: the checked form always throws,
the unchecked form divides by `T (0)` -/
theorem Frustum_ZToDepth_concrete (tmax n f l r t b : α) :
    Gen.C07.Frustum.ZToDepthExc_5_0_10_persp tmax n f l r t b = Gen.C07.Frustum.normalizedZToDepthExc_persp tmax n f l r t b ((5 - 0) / 10) ∧
    Gen.C07.Frustum.ZToDepth_5_0_10_persp n f l r t b = Gen.C07.Frustum.normalizedZToDepth_persp n f l r t b ((5 - 0) / 10) ∧
    Gen.C07.Frustum.ZToDepthExc_5_0_10_ortho n f l r t b = Gen.C07.Frustum.ZToDepth_5_0_10_ortho n f l r t b ∧
    Gen.C07.Frustum.ZToDepthExc_12_0_10_persp tmax n f l r t b = Gen.C07.Frustum.normalizedZToDepthExc_persp tmax n f l r t b ((2 - 0) / 10) ∧
    Gen.C07.Frustum.ZToDepth_12_0_10_persp n f l r t b = Gen.C07.Frustum.normalizedZToDepth_persp n f l r t b ((2 - 0) / 10) ∧
    Gen.C07.Frustum.ZToDepthExc_3_7_7_persp n f l r t b = .error Exc.domainError ∧
    Gen.C07.Frustum.ZToDepth_3_7_7_persp n f l r t b = Gen.C07.Frustum.normalizedZToDepth_persp n f l r t b ((3 - 7) / 0) := by
  refine ⟨?_, ?_, ?_, ?_, ?_, ?_, ?_⟩ <;>
    simp only [Gen.C07.Frustum.ZToDepthExc_5_0_10_persp, Gen.C07.Frustum.normalizedZToDepthExc_persp, Gen.C07.Frustum.ZToDepth_5_0_10_persp,
      Gen.C07.Frustum.normalizedZToDepth_persp, Gen.C07.Frustum.ZToDepthExc_5_0_10_ortho, Gen.C07.Frustum.ZToDepth_5_0_10_ortho,
      Gen.C07.Frustum.ZToDepthExc_12_0_10_persp, Gen.C07.Frustum.ZToDepth_12_0_10_persp, Gen.C07.Frustum.ZToDepthExc_3_7_7_persp,
      Gen.C07.Frustum.ZToDepth_3_7_7_persp]

theorem Frustum_ZToDepthExc_ok (tmax n f l r t b y : α) :
    (Gen.C07.Frustum.ZToDepthExc_5_0_10_persp tmax n f l r t b = .ok y → Gen.C07.Frustum.ZToDepth_5_0_10_persp n f l r t b = y) ∧
    (Gen.C07.Frustum.ZToDepthExc_12_0_10_persp tmax n f l r t b = .ok y → Gen.C07.Frustum.ZToDepth_12_0_10_persp n f l r t b = y) := by
  constructor <;> intro h
  · exc_ok_tac h y [Gen.C07.Frustum.ZToDepthExc_5_0_10_persp, Gen.C07.Frustum.ZToDepth_5_0_10_persp]
  · exc_ok_tac h y [Gen.C07.Frustum.ZToDepthExc_12_0_10_persp, Gen.C07.Frustum.ZToDepth_12_0_10_persp]

/-- more literal triples (audit r2 S3): `zval = zmax + 1` (the last value that does not wrap), a negative range, a wrap with negative
`zmin` (25 > 16 ↦ 5), the unit range, and a range beyond 32 bits.  Each CHECKED member is `normalizedZToDepthExc` of the same exact
fraction its unchecked twin feeds to `normalizedZToDepth` (whose general integer plumbing — wrap, `zdiff`, cast — is
`C16.zToDepth_*_inrange / _wrap` in `Props/C16Z.lean`); the orthographic copies are identical -/
theorem Frustum_ZToDepth_more (tmax n f l r t b : α) :
    Gen.C07.Frustum.ZToDepthExc_11_0_10_persp tmax n f l r t b = Gen.C07.Frustum.normalizedZToDepthExc_persp tmax n f l r t b ((11 - 0) / 10) ∧
    Gen.C07.Frustum.ZToDepth_11_0_10_persp n f l r t b = Gen.C07.Frustum.normalizedZToDepth_persp n f l r t b ((11 - 0) / 10) ∧
    Gen.C07.Frustum.ZToDepthExc_11_0_10_ortho n f l r t b = Gen.C07.Frustum.ZToDepth_11_0_10_ortho n f l r t b ∧
    Gen.C07.Frustum.ZToDepthExc_m3_m10_10_persp tmax n f l r t b = Gen.C07.Frustum.normalizedZToDepthExc_persp tmax n f l r t b ((-3 - -10) / 20) ∧
    Gen.C07.Frustum.ZToDepth_m3_m10_10_persp n f l r t b = Gen.C07.Frustum.normalizedZToDepth_persp n f l r t b ((-3 - -10) / 20) ∧
    Gen.C07.Frustum.ZToDepthExc_m3_m10_10_ortho n f l r t b = Gen.C07.Frustum.ZToDepth_m3_m10_10_ortho n f l r t b ∧
    Gen.C07.Frustum.ZToDepthExc_25_m5_15_persp tmax n f l r t b = Gen.C07.Frustum.normalizedZToDepthExc_persp tmax n f l r t b ((5 - -5) / 20) ∧
    Gen.C07.Frustum.ZToDepth_25_m5_15_persp n f l r t b = Gen.C07.Frustum.normalizedZToDepth_persp n f l r t b ((5 - -5) / 20) ∧
    Gen.C07.Frustum.ZToDepthExc_25_m5_15_ortho n f l r t b = Gen.C07.Frustum.ZToDepth_25_m5_15_ortho n f l r t b ∧
    Gen.C07.Frustum.ZToDepthExc_0_0_1_persp tmax n f l r t b = Gen.C07.Frustum.normalizedZToDepthExc_persp tmax n f l r t b ((0 - 0) / 1) ∧
    Gen.C07.Frustum.ZToDepth_0_0_1_persp n f l r t b = Gen.C07.Frustum.normalizedZToDepth_persp n f l r t b ((0 - 0) / 1) ∧
    Gen.C07.Frustum.ZToDepthExc_0_0_1_ortho n f l r t b = Gen.C07.Frustum.ZToDepth_0_0_1_ortho n f l r t b ∧
    Gen.C07.Frustum.ZToDepthExc_w33_persp tmax n f l r t b = Gen.C07.Frustum.normalizedZToDepthExc_persp tmax n f l r t b ((8589934591 - 1) / 8589934590) ∧
    Gen.C07.Frustum.ZToDepth_w33_persp n f l r t b = Gen.C07.Frustum.normalizedZToDepth_persp n f l r t b ((8589934591 - 1) / 8589934590) ∧
    Gen.C07.Frustum.ZToDepthExc_w33_ortho n f l r t b = Gen.C07.Frustum.ZToDepth_w33_ortho n f l r t b := by
  refine ⟨?_, ?_, ?_, ?_, ?_, ?_, ?_, ?_, ?_, ?_, ?_, ?_, ?_, ?_, ?_⟩ <;>
    simp only [Gen.C07.Frustum.normalizedZToDepthExc_persp, Gen.C07.Frustum.normalizedZToDepth_persp,
      Gen.C07.Frustum.ZToDepthExc_11_0_10_persp,
      Gen.C07.Frustum.ZToDepth_11_0_10_persp,
      Gen.C07.Frustum.ZToDepthExc_11_0_10_ortho,
      Gen.C07.Frustum.ZToDepth_11_0_10_ortho,
      Gen.C07.Frustum.ZToDepthExc_m3_m10_10_persp,
      Gen.C07.Frustum.ZToDepth_m3_m10_10_persp,
      Gen.C07.Frustum.ZToDepthExc_m3_m10_10_ortho,
      Gen.C07.Frustum.ZToDepth_m3_m10_10_ortho,
      Gen.C07.Frustum.ZToDepthExc_25_m5_15_persp,
      Gen.C07.Frustum.ZToDepth_25_m5_15_persp,
      Gen.C07.Frustum.ZToDepthExc_25_m5_15_ortho,
      Gen.C07.Frustum.ZToDepth_25_m5_15_ortho,
      Gen.C07.Frustum.ZToDepthExc_0_0_1_persp,
      Gen.C07.Frustum.ZToDepth_0_0_1_persp,
      Gen.C07.Frustum.ZToDepthExc_0_0_1_ortho,
      Gen.C07.Frustum.ZToDepth_0_0_1_ortho,
      Gen.C07.Frustum.ZToDepthExc_w33_persp,
      Gen.C07.Frustum.ZToDepth_w33_persp,
      Gen.C07.Frustum.ZToDepthExc_w33_ortho,
      Gen.C07.Frustum.ZToDepth_w33_ortho]

theorem Frustum_ZToDepthExc_more_ok (tmax n f l r t b y : α) :
    (Gen.C07.Frustum.ZToDepthExc_11_0_10_persp tmax n f l r t b = .ok y → Gen.C07.Frustum.ZToDepth_11_0_10_persp n f l r t b = y) ∧
    (Gen.C07.Frustum.ZToDepthExc_m3_m10_10_persp tmax n f l r t b = .ok y → Gen.C07.Frustum.ZToDepth_m3_m10_10_persp n f l r t b = y) ∧
    (Gen.C07.Frustum.ZToDepthExc_25_m5_15_persp tmax n f l r t b = .ok y → Gen.C07.Frustum.ZToDepth_25_m5_15_persp n f l r t b = y) ∧
    (Gen.C07.Frustum.ZToDepthExc_0_0_1_persp tmax n f l r t b = .ok y → Gen.C07.Frustum.ZToDepth_0_0_1_persp n f l r t b = y) ∧
    (Gen.C07.Frustum.ZToDepthExc_w33_persp tmax n f l r t b = .ok y → Gen.C07.Frustum.ZToDepth_w33_persp n f l r t b = y) := by
  refine ⟨?_, ?_, ?_, ?_, ?_⟩
  · intro h; exc_ok_tac h y [Gen.C07.Frustum.ZToDepthExc_11_0_10_persp, Gen.C07.Frustum.ZToDepth_11_0_10_persp]
  · intro h; exc_ok_tac h y [Gen.C07.Frustum.ZToDepthExc_m3_m10_10_persp, Gen.C07.Frustum.ZToDepth_m3_m10_10_persp]
  · intro h; exc_ok_tac h y [Gen.C07.Frustum.ZToDepthExc_25_m5_15_persp, Gen.C07.Frustum.ZToDepth_25_m5_15_persp]
  · intro h; exc_ok_tac h y [Gen.C07.Frustum.ZToDepthExc_0_0_1_persp, Gen.C07.Frustum.ZToDepth_0_0_1_persp]
  · intro h; exc_ok_tac h y [Gen.C07.Frustum.ZToDepthExc_w33_persp, Gen.C07.Frustum.ZToDepth_w33_persp]

/-! ### screenRadius / worldRadius: `if (abs (d) > 1 || abs (n) < max * abs (d)) return …; else throw` -/

theorem Frustum_screenRadiusExc_ok (tmax n f l r t b : α) (p : V3 α) (radius y : α)
    (h : Gen.C07.Frustum.screenRadiusExc tmax n f l r t b p radius = .ok y) : Gen.C07.Frustum.screenRadius n f l r t b p radius = y := by
  exc_ok_tac h y [Gen.C07.Frustum.screenRadiusExc, Gen.C07.Frustum.screenRadius]

theorem Frustum_screenRadiusExc_error (tmax n f l r t b : α) (p : V3 α) (radius : α) (k : Exc) :
    Gen.C07.Frustum.screenRadiusExc tmax n f l r t b p radius = .error k ↔ (k = Exc.domainError ∧ guardGe' tmax (-n) p.z) := by
  exc_err_tac [Gen.C07.Frustum.screenRadiusExc, not_or, not_lt]
  tauto

theorem Frustum_worldRadiusExc_ok (tmax n f l r t b : α) (p : V3 α) (radius y : α)
    (h : Gen.C07.Frustum.worldRadiusExc tmax n f l r t b p radius = .ok y) : Gen.C07.Frustum.worldRadius n f l r t b p radius = y := by
  exc_ok_tac h y [Gen.C07.Frustum.worldRadiusExc, Gen.C07.Frustum.worldRadius]

theorem Frustum_worldRadiusExc_error (tmax n f l r t b : α) (p : V3 α) (radius : α) (k : Exc) :
    Gen.C07.Frustum.worldRadiusExc tmax n f l r t b p radius = .error k ↔ (k = Exc.domainError ∧ guardGe' tmax p.z (-n)) := by
  exc_err_tac [Gen.C07.Frustum.worldRadiusExc, not_or, not_lt]
  tauto

/-- tightness and "never" for the two radius functions: they throw exactly when the divisor is at most 1 in magnitude and is zero
or the exact quotient is out of range (`p.z = 0` always throws in `screenRadiusExc`, `near = 0` in `worldRadiusExc`) -/
theorem Frustum_radiusExc_tight (tmax n f l r t b : α) (p : V3 α) (radius : α) (k : Exc) :
    (Gen.C07.Frustum.screenRadiusExc tmax n f l r t b p radius = .error k → |p.z| ≤ 1 ∧ (p.z = 0 ∨ tmax ≤ |-n / p.z|)) ∧
    (Gen.C07.Frustum.worldRadiusExc tmax n f l r t b p radius = .error k → |-n| ≤ 1 ∧ (-n = 0 ∨ tmax ≤ |p.z / -n|)) := by
  constructor <;> intro h
  · exact (guardGe'_iff _ _ _).mp ((Frustum_screenRadiusExc_error tmax n f l r t b p radius k).mp h).2
  · exact (guardGe'_iff _ _ _).mp ((Frustum_worldRadiusExc_error tmax n f l r t b p radius k).mp h).2

theorem Frustum_screenRadiusExc_never (tmax n f l r t b : α) (p : V3 α) (radius : α)
    (h : 1 < |p.z| ∨ (p.z ≠ 0 ∧ |-n / p.z| < tmax)) :
    Gen.C07.Frustum.screenRadiusExc tmax n f l r t b p radius = .ok (Gen.C07.Frustum.screenRadius n f l r t b p radius) := by
  rcases except_cases (Gen.C07.Frustum.screenRadiusExc tmax n f l r t b p radius) with ⟨y, hy⟩ | ⟨k, hk⟩
  · rw [hy, Frustum_screenRadiusExc_ok tmax n f l r t b p radius y hy]
  · exfalso
    have hg := ((Frustum_screenRadiusExc_error tmax n f l r t b p radius k).mp hk).2
    rcases h with h | ⟨h0, h1⟩
    · exact not_guardGe'_of_one_lt _ _ _ h hg
    · exact not_guardGe'_of_lt _ _ _ h0 h1 hg

theorem Frustum_worldRadiusExc_never (tmax n f l r t b : α) (p : V3 α) (radius : α)
    (h : 1 < |-n| ∨ (-n ≠ 0 ∧ |p.z / -n| < tmax)) :
    Gen.C07.Frustum.worldRadiusExc tmax n f l r t b p radius = .ok (Gen.C07.Frustum.worldRadius n f l r t b p radius) := by
  rcases except_cases (Gen.C07.Frustum.worldRadiusExc tmax n f l r t b p radius) with ⟨y, hy⟩ | ⟨k, hk⟩
  · rw [hy, Frustum_worldRadiusExc_ok tmax n f l r t b p radius y hy]
  · exfalso
    have hg := ((Frustum_worldRadiusExc_error tmax n f l r t b p radius k).mp hk).2
    rcases h with h | ⟨h0, h1⟩
    · exact not_guardGe'_of_one_lt _ _ _ h hg
    · exact not_guardGe'_of_lt _ _ _ h0 h1 hg

example : (1 : ℚ) < |(-5 : ℚ)| := by norm_num
example : ((1 / 2 : ℚ) ≠ 0 ∧ |(-(1 / 10) : ℚ) / (1 / 2)| < 1048576) := by norm_num [abs_of_nonpos]

/-! ### set (near, far, fovx, fovy, aspect) / setExc -/

theorem Frustum_setFovExc_ok (tan : α → α) (n f fovx fovy aspect : α) (y : α × α × α × α × α × α × Bool)
    (h : Gen.C07.Frustum.setFovExc tan n f fovx fovy aspect = .ok y) : Gen.C07.Frustum.setFov tan n f fovx fovy aspect = y := by
  simp only [Gen.C07.Frustum.setFovExc, Gen.C07.Frustum.setFov] at h ⊢
  split_ifs at h ⊢ <;> exact Except.ok.inj h

/-- `setExc` throws `std::domain_error` exactly when both `fovx` and `fovy` are non-zero (documented: "if fovx and/or fovy are
invalid"); `set` then silently uses `fovx` -/
theorem Frustum_setFovExc_error (tan : α → α) (n f fovx fovy aspect : α) (k : Exc) :
    Gen.C07.Frustum.setFovExc tan n f fovx fovy aspect = .error k ↔ (k = Exc.domainError ∧ fovx ≠ 0 ∧ fovy ≠ 0) := by
  simp only [Gen.C07.Frustum.setFovExc]
  split_ifs with h1 h2 <;> simp_all [eq_comm (a := Exc.domainError)]

/-! ### the same pair on an object whose prior state is orthographic: the whole state is overwritten by both copies -/

theorem Frustum_setFovExcFromOrtho_ok (tan : α → α) (n f fovx fovy aspect : α) (y : α × α × α × α × α × α × Bool)
    (h : Gen.C07.Frustum.setFovExcFromOrtho tan n f fovx fovy aspect = .ok y) :
    Gen.C07.Frustum.setFovFromOrtho tan n f fovx fovy aspect = y := by
  simp only [Gen.C07.Frustum.setFovExcFromOrtho, Gen.C07.Frustum.setFovFromOrtho] at h ⊢
  split_ifs at h ⊢ <;> exact Except.ok.inj h

/-- re-initialising an orthographic frustum gives exactly what initialising a fresh one gives (the flag is reset): `set` -/
theorem Frustum_setFovFromOrtho_eq (tan : α → α) (n f fovx fovy aspect : α) :
    Gen.C07.Frustum.setFovFromOrtho tan n f fovx fovy aspect = Gen.C07.Frustum.setFov tan n f fovx fovy aspect := by
  simp only [Gen.C07.Frustum.setFovFromOrtho, Gen.C07.Frustum.setFov]

/-- … and `setExc` -/
theorem Frustum_setFovExcFromOrtho_eq (tan : α → α) (n f fovx fovy aspect : α) :
    Gen.C07.Frustum.setFovExcFromOrtho tan n f fovx fovy aspect = Gen.C07.Frustum.setFovExc tan n f fovx fovy aspect := by
  simp only [Gen.C07.Frustum.setFovExcFromOrtho, Gen.C07.Frustum.setFovExc]

end ImathVerif.C07
