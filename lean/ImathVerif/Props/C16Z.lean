import ImathVerif.Props.C16
import ImathVerif.Model.FrustumZ
/-!
# C16 — the integer depth mapping `ZToDepth` / `DepthToZ`

`Frustum::ZToDepth (long zval, long zmin, long zmax)` and `Frustum::DepthToZ (T depth, long zmin, long zmax)` mix machine
integers and floating point.  The model here is

* the machine-integer prologue / epilogue of Model/FrustumZ.lean (hand model: `long zdiff`, the wrap `zval > zmax + 1`,
  `long (…) + zmin`), tied to the real code on every run by tools/props/c16.py (`H:zmodel`: the model is EVALUATED and its
  integers are fed to harness/corr/c16_corr.cpp, which compares with the real `ZToDepth` / `DepthToZ` bit for bit);
* the generated `Gen.Frustum.normalizedZToDepth_*` (T-route) and `Gen.Frustum.depthToZp_*`; the latter is a hand transcript,
  PROVED below (`depthToZp_*_real_body`) to be what the real body of `DepthToZ` computes: `Gen.Frustum.DepthToZ_*_3_10` is
  extracted from the real template body with the operand of its `long (…)` cast made observable;
* `Gen.Frustum.ZToDepth_*_<z>_<zmin>_<zmax>`: the real `ZToDepth` at concrete integer arguments (T-route; `T (long)` is a
  literal), PROVED equal to the model at those arguments, among them `zmax + 1` (not wrapped), `zmax + 2` (wrapped) and the
  32-bit z-buffer range `[0, 2^32 − 1]` — the input of the defect this check found (`int zdiff`, fixed by /repo 6489c36).

Over an ordered field (all rounding is residue, measured by c16_corr.cpp: round trip within ±1 plus a rounding allowance).
The cast `long (x)` is a parameter `toLong` with the one hypothesis the round trip needs: it is exact on integers.
-/
set_option linter.unusedSimpArgs false
set_option linter.unusedSectionVars false
set_option linter.unusedVariables false
set_option linter.unusedTactic false
set_option linter.unreachableTactic false
set_option linter.unnecessarySeqFocus false
namespace ImathVerif.C16
open ImathVerif ImathVerif.FrustumSpec ImathVerif.FrustumZ
variable {α : Type} [Field α] [LinearOrder α] [IsStrictOrderedRing α]

/-! ## the model -/
/-- `(T (zval') - T (zmin)) / T (zdiff)` with the machine integers of `ZToDepth` -/
def zNormalized (zval zmin zmax : Int) : α :=
  (((zvalWrapped zval zmin zmax : Int) : α) - ((zmin : Int) : α)) / ((zdiffLong zmin zmax : Int) : α)
/-- `Frustum::ZToDepth (zval, zmin, zmax)`, perspective / orthographic -/
def zToDepth_persp (n f l r t b : α) (zval zmin zmax : Int) : α :=
  Gen.Frustum.normalizedZToDepth_persp n f l r t b (zNormalized zval zmin zmax)
def zToDepth_ortho (n f l r t b : α) (zval zmin zmax : Int) : α :=
  Gen.Frustum.normalizedZToDepth_ortho n f l r t b (zNormalized zval zmin zmax)
/-- `Frustum::DepthToZ (depth, zmin, zmax)` = `long (0.5 * (Zp + 1) * zdiff) + zmin`, `toLong` being the cast -/
def depthToZ_persp (toLong : α → Int) (n f l r t b d : α) (zmin zmax : Int) : Int :=
  depthToZTail (toLong (1 / 2 * (Gen.Frustum.depthToZp_persp n f l r t b d + 1) * ((zdiffLong zmin zmax : Int) : α))) zmin
def depthToZ_ortho (toLong : α → Int) (n f l r t b d : α) (zmin zmax : Int) : Int :=
  depthToZTail (toLong (1 / 2 * (Gen.Frustum.depthToZp_ortho n f l r t b d + 1) * ((zdiffLong zmin zmax : Int) : α))) zmin

/-! ## the hand transcript `depthToZp` is what the real body of `DepthToZ` computes (translation validated at double,
bitwise, on every run: the operand of `long (…)`, the `+ zmin` tail, exactly one cast) -/
theorem depthToZp_persp_real_body (n f l r t b d : α) :
    Gen.Frustum.DepthToZ_persp_3_10 n f l r t b d = (1 / 2 * (Gen.Frustum.depthToZp_persp n f l r t b d + 1) * 7, 3, 1, 0) := rfl
theorem depthToZp_ortho_real_body (n f l r t b d : α) :
    Gen.Frustum.DepthToZ_ortho_3_10 n f l r t b d = (1 / 2 * (Gen.Frustum.depthToZp_ortho n f l r t b d + 1) * 7, 3, 1, 0) := rfl
/-- … so the model `depthToZ_*` at `(zmin, zmax) = (3, 10)` is the real body's operand, cast, plus the real body's tail -/
theorem depthToZ_persp_3_10 (toLong : α → Int) (n f l r t b d : α) :
    depthToZ_persp toLong n f l r t b d 3 10 =
      wrap64 (toLong (Gen.Frustum.DepthToZ_persp_3_10 n f l r t b d).1 + (Gen.Frustum.DepthToZ_persp_3_10 n f l r t b d).2.1) := by
  have e : zdiffLong 3 10 = 7 := by decide
  simp only [depthToZ_persp, depthToZTail, depthToZp_persp_real_body, e]
  norm_num
theorem depthToZ_ortho_3_10 (toLong : α → Int) (n f l r t b d : α) :
    depthToZ_ortho toLong n f l r t b d 3 10 =
      wrap64 (toLong (Gen.Frustum.DepthToZ_ortho_3_10 n f l r t b d).1 + (Gen.Frustum.DepthToZ_ortho_3_10 n f l r t b d).2.1) := by
  have e : zdiffLong 3 10 = 7 := by decide
  simp only [depthToZ_ortho, depthToZTail, depthToZp_ortho_real_body, e]
  norm_num

/-! ## the throwing copy `DepthToZExc` (a separate textual copy of both branches): extracted from the real body the same way.  Whenever it
returns, it returns what `DepthToZ` returns (same operand of the cast, same tail); it throws `domain_error` exactly when one of its overflow
guards fires (`|x| < 1 ∧ max · |x| < |numerator|`), never otherwise -/
theorem DepthToZExc_persp_ok (tmax n f l r t b d : α) (y : α × Int × Int × Int)
    (h : Gen.Frustum.DepthToZExc_persp_3_10 tmax n f l r t b d = .ok y) : Gen.Frustum.DepthToZ_persp_3_10 n f l r t b d = y := by
  simp only [Gen.Frustum.DepthToZExc_persp_3_10] at h
  simp only [Gen.Frustum.DepthToZ_persp_3_10]
  split_ifs at h <;> first | exact Except.ok.inj h | exact absurd h (by simp)
theorem DepthToZExc_ortho_ok (tmax n f l r t b d : α) (y : α × Int × Int × Int)
    (h : Gen.Frustum.DepthToZExc_ortho_3_10 tmax n f l r t b d = .ok y) : Gen.Frustum.DepthToZ_ortho_3_10 n f l r t b d = y := by
  simp only [Gen.Frustum.DepthToZExc_ortho_3_10] at h
  simp only [Gen.Frustum.DepthToZ_ortho_3_10]
  split_ifs at h <;> first | exact Except.ok.inj h | exact absurd h (by simp)
theorem DepthToZExc_persp_error (tmax n f l r t b d : α) (k : Exc) :
    Gen.Frustum.DepthToZExc_persp_3_10 tmax n f l r t b d = .error k ↔
      k = Exc.domainError ∧
        ((|d| < 1 ∧ tmax * |d| < |2 * f * n|) ∨ (|f - n| < 1 ∧ tmax * |f - n| < |2 * f * n / d + f + n|)) := by
  simp only [Gen.Frustum.DepthToZExc_persp_3_10, sabs_eq_abs]
  split_ifs <;> simp_all <;> tauto
theorem DepthToZExc_ortho_error (tmax n f l r t b d : α) (k : Exc) :
    Gen.Frustum.DepthToZExc_ortho_3_10 tmax n f l r t b d = .error k ↔
      k = Exc.domainError ∧ (|f - n| < 1 ∧ tmax * |f - n| < |2 * d + f + n|) := by
  simp only [Gen.Frustum.DepthToZExc_ortho_3_10, sabs_eq_abs]
  split_ifs <;> simp_all <;> tauto

/-! ## the integer prologue on the intended domain -/
theorem wrap64_id (x : Int) (h1 : -9223372036854775808 ≤ x) (h2 : x < 9223372036854775808) : wrap64 x = x := by
  unfold wrap64; omega
theorem wrap32_id (x : Int) (h1 : -2147483648 ≤ x) (h2 : x < 2147483648) : wrap32 x = x := by
  unfold wrap32; omega
theorem zdiffLong_eq (zmin zmax : Int) (h1 : -9223372036854775808 ≤ zmax - zmin) (h2 : zmax - zmin < 9223372036854775808) :
    zdiffLong zmin zmax = zmax - zmin := wrap64_id _ h1 h2
/-- no wrap up to AND INCLUDING `zmax + 1` -/
theorem zvalWrapped_inrange (z zmin zmax : Int) (hmax : zmax < 9223372036854775807) (hmax' : -9223372036854775808 ≤ zmax + 1)
    (hz : z ≤ zmax + 1) : zvalWrapped z zmin zmax = z := by
  unfold zvalWrapped
  rw [wrap64_id _ hmax' (by omega), if_neg (by omega)]
/-- above `zmax + 1` the value is moved down by `zdiff` ONCE -/
theorem zvalWrapped_wrap (z zmin zmax : Int) (hz2 : z < 9223372036854775808) (hmax' : -9223372036854775808 ≤ zmin)
    (hd1 : 0 ≤ zmax - zmin) (hd2 : zmax - zmin < 9223372036854775808) (hz : zmax + 1 < z) :
    zvalWrapped z zmin zmax = z - (zmax - zmin) := by
  unfold zvalWrapped
  rw [wrap64_id _ (by omega) (by omega), if_pos (by omega), zdiffLong_eq _ _ (by omega) hd2, wrap64_id _ (by omega) (by omega)]

/-- **ZToDepth, in range** (`z ≤ zmax + 1`, `zmax − zmin` fits a `long`): the normalised depth is `(z − zmin)/(zmax − zmin)` -/
theorem zNormalized_inrange (z zmin zmax : Int) (hmax : zmax < 9223372036854775807) (hmax' : -9223372036854775808 ≤ zmax + 1)
    (hd1 : -9223372036854775808 ≤ zmax - zmin) (hd2 : zmax - zmin < 9223372036854775808) (hz : z ≤ zmax + 1) :
    (zNormalized z zmin zmax : α) = ((z : α) - (zmin : α)) / ((zmax : α) - (zmin : α)) := by
  simp only [zNormalized, zvalWrapped_inrange z zmin zmax hmax hmax' hz, zdiffLong_eq zmin zmax hd1 hd2, Int.cast_sub]
/-- **ZToDepth, wrapped** (`z > zmax + 1`): the same with `z − (zmax − zmin)` in place of `z` -/
theorem zNormalized_wrap (z zmin zmax : Int) (hz2 : z < 9223372036854775808) (hmax' : -9223372036854775808 ≤ zmin)
    (hd1 : 0 ≤ zmax - zmin) (hd2 : zmax - zmin < 9223372036854775808) (hz : zmax + 1 < z) :
    (zNormalized z zmin zmax : α) = (((z : α) - ((zmax : α) - (zmin : α))) - (zmin : α)) / ((zmax : α) - (zmin : α)) := by
  simp only [zNormalized, zvalWrapped_wrap z zmin zmax hz2 hmax' hd1 hd2 hz, zdiffLong_eq zmin zmax (by omega) hd2, Int.cast_sub]
theorem zToDepth_persp_inrange (n f l r t b : α) (z zmin zmax : Int) (hmax : zmax < 9223372036854775807)
    (hmax' : -9223372036854775808 ≤ zmax + 1) (hd1 : -9223372036854775808 ≤ zmax - zmin) (hd2 : zmax - zmin < 9223372036854775808) (hz : z ≤ zmax + 1) :
    zToDepth_persp n f l r t b z zmin zmax =
      Gen.Frustum.normalizedZToDepth_persp n f l r t b (((z : α) - (zmin : α)) / ((zmax : α) - (zmin : α))) := by
  rw [zToDepth_persp, zNormalized_inrange z zmin zmax hmax hmax' hd1 hd2 hz]
theorem zToDepth_ortho_inrange (n f l r t b : α) (z zmin zmax : Int) (hmax : zmax < 9223372036854775807)
    (hmax' : -9223372036854775808 ≤ zmax + 1) (hd1 : -9223372036854775808 ≤ zmax - zmin) (hd2 : zmax - zmin < 9223372036854775808) (hz : z ≤ zmax + 1) :
    zToDepth_ortho n f l r t b z zmin zmax =
      Gen.Frustum.normalizedZToDepth_ortho n f l r t b (((z : α) - (zmin : α)) / ((zmax : α) - (zmin : α))) := by
  rw [zToDepth_ortho, zNormalized_inrange z zmin zmax hmax hmax' hd1 hd2 hz]
/-- the wrap: for `zmax + 1 < z ≤ zmax + 1 + (zmax − zmin)`, `ZToDepth z = ZToDepth (z − (zmax − zmin))` -/
theorem zToDepth_persp_wrap (n f l r t b : α) (z zmin zmax : Int) (hz2 : z < 9223372036854775808)
    (hmax' : -9223372036854775808 ≤ zmin) (hd1 : 0 ≤ zmax - zmin) (hd2 : zmax - zmin < 9223372036854775808) (hz : zmax + 1 < z)
    (hz3 : z ≤ zmax + 1 + (zmax - zmin)) :
    zToDepth_persp n f l r t b z zmin zmax = zToDepth_persp n f l r t b (z - (zmax - zmin)) zmin zmax := by
  rw [zToDepth_persp, zToDepth_persp, zNormalized_wrap z zmin zmax hz2 hmax' hd1 hd2 hz,
    zNormalized_inrange (z - (zmax - zmin)) zmin zmax (by omega) (by omega) (by omega) hd2 (by omega)]
  push_cast; rfl
theorem zToDepth_ortho_wrap (n f l r t b : α) (z zmin zmax : Int) (hz2 : z < 9223372036854775808)
    (hmax' : -9223372036854775808 ≤ zmin) (hd1 : 0 ≤ zmax - zmin) (hd2 : zmax - zmin < 9223372036854775808) (hz : zmax + 1 < z)
    (hz3 : z ≤ zmax + 1 + (zmax - zmin)) :
    zToDepth_ortho n f l r t b z zmin zmax = zToDepth_ortho n f l r t b (z - (zmax - zmin)) zmin zmax := by
  rw [zToDepth_ortho, zToDepth_ortho, zNormalized_wrap z zmin zmax hz2 hmax' hd1 hd2 hz,
    zNormalized_inrange (z - (zmax - zmin)) zmin zmax (by omega) (by omega) (by omega) hd2 (by omega)]
  push_cast; rfl

/-! ## the real `ZToDepth` at concrete integer arguments IS the model at those arguments (T-route, regenerated) -/
theorem zNormalized_of (z zmin zmax zw zd : Int) (h1 : zvalWrapped z zmin zmax = zw) (h2 : zdiffLong zmin zmax = zd) :
    (zNormalized z zmin zmax : α) = ((zw : α) - (zmin : α)) / (zd : α) := by
  simp only [zNormalized, h1, h2]
theorem ZToDepth_persp_5_0_10 (n f l r t b : α) : Gen.Frustum.ZToDepth_persp_5_0_10 n f l r t b = zToDepth_persp n f l r t b 5 0 10 := by
  simp only [Gen.Frustum.ZToDepth_persp_5_0_10, zToDepth_persp, zNormalized_of 5 0 10 5 10 (by decide) (by decide), Gen.Frustum.normalizedZToDepth_persp]
  norm_num
theorem ZToDepth_persp_11_0_10 (n f l r t b : α) : Gen.Frustum.ZToDepth_persp_11_0_10 n f l r t b = zToDepth_persp n f l r t b 11 0 10 := by
  simp only [Gen.Frustum.ZToDepth_persp_11_0_10, zToDepth_persp, zNormalized_of 11 0 10 11 10 (by decide) (by decide), Gen.Frustum.normalizedZToDepth_persp]
  norm_num
theorem ZToDepth_persp_12_0_10 (n f l r t b : α) : Gen.Frustum.ZToDepth_persp_12_0_10 n f l r t b = zToDepth_persp n f l r t b 12 0 10 := by
  simp only [Gen.Frustum.ZToDepth_persp_12_0_10, zToDepth_persp, zNormalized_of 12 0 10 2 10 (by decide) (by decide), Gen.Frustum.normalizedZToDepth_persp]
  norm_num
theorem ZToDepth_persp_m3_m10_10 (n f l r t b : α) : Gen.Frustum.ZToDepth_persp_m3_m10_10 n f l r t b = zToDepth_persp n f l r t b (-3) (-10) 10 := by
  simp only [Gen.Frustum.ZToDepth_persp_m3_m10_10, zToDepth_persp, zNormalized_of (-3) (-10) 10 (-3) 20 (by decide) (by decide), Gen.Frustum.normalizedZToDepth_persp]
  norm_num
theorem ZToDepth_persp_w32 (n f l r t b : α) : Gen.Frustum.ZToDepth_persp_w32 n f l r t b = zToDepth_persp n f l r t b 4294967295 0 4294967295 := by
  simp only [Gen.Frustum.ZToDepth_persp_w32, zToDepth_persp, zNormalized_of 4294967295 0 4294967295 4294967295 4294967295 (by decide) (by decide), Gen.Frustum.normalizedZToDepth_persp]
  norm_num
theorem ZToDepth_ortho_5_0_10 (n f l r t b : α) : Gen.Frustum.ZToDepth_ortho_5_0_10 n f l r t b = zToDepth_ortho n f l r t b 5 0 10 := by
  simp only [Gen.Frustum.ZToDepth_ortho_5_0_10, zToDepth_ortho, zNormalized_of 5 0 10 5 10 (by decide) (by decide), Gen.Frustum.normalizedZToDepth_ortho]
  norm_num
theorem ZToDepth_ortho_11_0_10 (n f l r t b : α) : Gen.Frustum.ZToDepth_ortho_11_0_10 n f l r t b = zToDepth_ortho n f l r t b 11 0 10 := by
  simp only [Gen.Frustum.ZToDepth_ortho_11_0_10, zToDepth_ortho, zNormalized_of 11 0 10 11 10 (by decide) (by decide), Gen.Frustum.normalizedZToDepth_ortho]
  norm_num
theorem ZToDepth_ortho_12_0_10 (n f l r t b : α) : Gen.Frustum.ZToDepth_ortho_12_0_10 n f l r t b = zToDepth_ortho n f l r t b 12 0 10 := by
  simp only [Gen.Frustum.ZToDepth_ortho_12_0_10, zToDepth_ortho, zNormalized_of 12 0 10 2 10 (by decide) (by decide), Gen.Frustum.normalizedZToDepth_ortho]
  norm_num
theorem ZToDepth_ortho_m3_m10_10 (n f l r t b : α) : Gen.Frustum.ZToDepth_ortho_m3_m10_10 n f l r t b = zToDepth_ortho n f l r t b (-3) (-10) 10 := by
  simp only [Gen.Frustum.ZToDepth_ortho_m3_m10_10, zToDepth_ortho, zNormalized_of (-3) (-10) 10 (-3) 20 (by decide) (by decide), Gen.Frustum.normalizedZToDepth_ortho]
  norm_num
theorem ZToDepth_ortho_w32 (n f l r t b : α) : Gen.Frustum.ZToDepth_ortho_w32 n f l r t b = zToDepth_ortho n f l r t b 4294967295 0 4294967295 := by
  simp only [Gen.Frustum.ZToDepth_ortho_w32, zToDepth_ortho, zNormalized_of 4294967295 0 4294967295 4294967295 4294967295 (by decide) (by decide), Gen.Frustum.normalizedZToDepth_ortho]
  norm_num
/-- independent expectations for the small cases, written from the intended meaning: mid range is normalised depth 1/2;
`zmax + 1` is NOT wrapped (11/10); `zmax + 2` is wrapped to 2 (2/10); negative `zmin`: (−3 − (−10))/20 -/
theorem ZToDepth_persp_small_cases (n f l r t b : α) :
    Gen.Frustum.ZToDepth_persp_5_0_10 n f l r t b = Gen.Frustum.normalizedZToDepth_persp n f l r t b (1 / 2) ∧
    Gen.Frustum.ZToDepth_persp_11_0_10 n f l r t b = Gen.Frustum.normalizedZToDepth_persp n f l r t b (11 / 10) ∧
    Gen.Frustum.ZToDepth_persp_12_0_10 n f l r t b = Gen.Frustum.normalizedZToDepth_persp n f l r t b (2 / 10) ∧
    Gen.Frustum.ZToDepth_persp_m3_m10_10 n f l r t b = Gen.Frustum.normalizedZToDepth_persp n f l r t b (7 / 20) := by
  refine ⟨?_, ?_, ?_, ?_⟩ <;>
    simp only [Gen.Frustum.ZToDepth_persp_5_0_10, Gen.Frustum.ZToDepth_persp_11_0_10, Gen.Frustum.ZToDepth_persp_12_0_10,
      Gen.Frustum.ZToDepth_persp_m3_m10_10, Gen.Frustum.normalizedZToDepth_persp] <;> norm_num
theorem ZToDepth_ortho_small_cases (n f l r t b : α) :
    Gen.Frustum.ZToDepth_ortho_5_0_10 n f l r t b = Gen.Frustum.normalizedZToDepth_ortho n f l r t b (1 / 2) ∧
    Gen.Frustum.ZToDepth_ortho_11_0_10 n f l r t b = Gen.Frustum.normalizedZToDepth_ortho n f l r t b (11 / 10) ∧
    Gen.Frustum.ZToDepth_ortho_12_0_10 n f l r t b = Gen.Frustum.normalizedZToDepth_ortho n f l r t b (2 / 10) ∧
    Gen.Frustum.ZToDepth_ortho_m3_m10_10 n f l r t b = Gen.Frustum.normalizedZToDepth_ortho n f l r t b (7 / 20) := by
  refine ⟨?_, ?_, ?_, ?_⟩ <;>
    simp only [Gen.Frustum.ZToDepth_ortho_5_0_10, Gen.Frustum.ZToDepth_ortho_11_0_10, Gen.Frustum.ZToDepth_ortho_12_0_10,
      Gen.Frustum.ZToDepth_ortho_m3_m10_10, Gen.Frustum.normalizedZToDepth_ortho] <;> norm_num

/-! ## round trip `DepthToZ (ZToDepth z) = z` (exact arithmetic; with rounding: within ±1, measured) -/
/-- the operand of `long (…)` in `DepthToZ (ZToDepth z)` is the INTEGER `z − zmin` -/
theorem depthToZ_operand_persp (n f l r t b : α) (hn : 0 < n) (hnf : n < f) (z zmin zmax : Int) (hmax : zmax < 9223372036854775807)
    (hmin : -9223372036854775808 ≤ zmin) (hw : zmax - zmin < 9223372036854775808) (hne : zmin < zmax) (h1 : zmin ≤ z) (h2 : z ≤ zmax) :
    1 / 2 * (Gen.Frustum.depthToZp_persp n f l r t b (zToDepth_persp n f l r t b z zmin zmax) + 1) * ((zdiffLong zmin zmax : Int) : α)
      = (((z - zmin : Int)) : α) := by
  have hD : (0 : α) < (zmax : α) - (zmin : α) := by rw [sub_pos]; exact_mod_cast hne
  have hfz1 : ((z : α) - (zmin : α)) / ((zmax : α) - (zmin : α)) ≤ 1 := by
    rw [div_le_one hD]; have : (z : α) ≤ (zmax : α) := by exact_mod_cast h2
    linarith
  have hDef := normalizedZToDepth_persp_defined n f _ hn hnf hfz1
  rw [zToDepth_persp_inrange n f l r t b z zmin zmax hmax (by omega) (by omega) hw (by omega),
    zdiffLong_eq zmin zmax (by omega) (by omega)]
  have key := depthToZp_persp_normalizedZToDepth n f l r t b (((z : α) - (zmin : α)) / ((zmax : α) - (zmin : α)))
    (ne_of_gt hn) (ne_of_gt (lt_trans hn hnf)) (ne_of_lt hnf) hDef
  have e : 1 / 2 * (Gen.Frustum.depthToZp_persp n f l r t b (Gen.Frustum.normalizedZToDepth_persp n f l r t b
      (((z : α) - (zmin : α)) / ((zmax : α) - (zmin : α)))) + 1) = ((z : α) - (zmin : α)) / ((zmax : α) - (zmin : α)) := by
    rw [one_div, inv_mul_eq_div]; exact key
  rw [e]; push_cast; field_simp
theorem depthToZ_operand_ortho (n f l r t b : α) (hnf : n ≠ f) (z zmin zmax : Int) (hmax : zmax < 9223372036854775807)
    (hmin : -9223372036854775808 ≤ zmin) (hw : zmax - zmin < 9223372036854775808) (hne : zmin < zmax) (h1 : zmin ≤ z) (h2 : z ≤ zmax) :
    1 / 2 * (Gen.Frustum.depthToZp_ortho n f l r t b (zToDepth_ortho n f l r t b z zmin zmax) + 1) * ((zdiffLong zmin zmax : Int) : α)
      = (((z - zmin : Int)) : α) := by
  have hD : (0 : α) < (zmax : α) - (zmin : α) := by rw [sub_pos]; exact_mod_cast hne
  rw [zToDepth_ortho_inrange n f l r t b z zmin zmax hmax (by omega) (by omega) hw (by omega),
    zdiffLong_eq zmin zmax (by omega) (by omega)]
  have key := depthToZp_ortho_normalizedZToDepth n f l r t b (((z : α) - (zmin : α)) / ((zmax : α) - (zmin : α))) hnf
  have e : 1 / 2 * (Gen.Frustum.depthToZp_ortho n f l r t b (Gen.Frustum.normalizedZToDepth_ortho n f l r t b
      (((z : α) - (zmin : α)) / ((zmax : α) - (zmin : α)))) + 1) = ((z : α) - (zmin : α)) / ((zmax : α) - (zmin : α)) := by
    rw [one_div, inv_mul_eq_div]; exact key
  rw [e]; push_cast; field_simp
/-- **ZToDepth and DepthToZ are mutually inverse on the z-buffer range**, perspective: for a proper frustum `0 < n < f`,
`zmin ≤ z ≤ zmax` (any range whose width fits a `long`: 8 … 63 bits), a cast that is exact on integers -/
theorem depthToZ_zToDepth_persp (toLong : α → Int) (htr : ∀ k : Int, toLong (k : α) = k) (n f l r t b : α) (hn : 0 < n) (hnf : n < f)
    (z zmin zmax : Int) (hmax : zmax < 9223372036854775807) (hmin : -9223372036854775808 ≤ zmin) (hw : zmax - zmin < 9223372036854775808)
    (hne : zmin < zmax) (h1 : zmin ≤ z) (h2 : z ≤ zmax) :
    depthToZ_persp toLong n f l r t b (zToDepth_persp n f l r t b z zmin zmax) zmin zmax = z := by
  rw [depthToZ_persp, depthToZ_operand_persp n f l r t b hn hnf z zmin zmax hmax hmin hw hne h1 h2, htr, depthToZTail,
    wrap64_id _ (by omega) (by omega)]
  omega
theorem depthToZ_zToDepth_ortho (toLong : α → Int) (htr : ∀ k : Int, toLong (k : α) = k) (n f l r t b : α) (hnf : n ≠ f)
    (z zmin zmax : Int) (hmax : zmax < 9223372036854775807) (hmin : -9223372036854775808 ≤ zmin) (hw : zmax - zmin < 9223372036854775808)
    (hne : zmin < zmax) (h1 : zmin ≤ z) (h2 : z ≤ zmax) :
    depthToZ_ortho toLong n f l r t b (zToDepth_ortho n f l r t b z zmin zmax) zmin zmax = z := by
  rw [depthToZ_ortho, depthToZ_operand_ortho n f l r t b hnf z zmin zmax hmax hmin hw hne h1 h2, htr, depthToZTail,
    wrap64_id _ (by omega) (by omega)]
  omega
/-- the clause as measured (`|DepthToZ (ZToDepth z) − z| ≤ 1`) follows a fortiori -/
theorem depthToZ_zToDepth_persp_within_one (toLong : α → Int) (htr : ∀ k : Int, toLong (k : α) = k) (n f l r t b : α) (hn : 0 < n)
    (hnf : n < f) (z zmin zmax : Int) (hmax : zmax < 9223372036854775807) (hmin : -9223372036854775808 ≤ zmin)
    (hw : zmax - zmin < 9223372036854775808) (hne : zmin < zmax) (h1 : zmin ≤ z) (h2 : z ≤ zmax) :
    |depthToZ_persp toLong n f l r t b (zToDepth_persp n f l r t b z zmin zmax) zmin zmax - z| ≤ 1 := by
  rw [depthToZ_zToDepth_persp toLong htr n f l r t b hn hnf z zmin zmax hmax hmin hw hne h1 h2]; simp
theorem depthToZ_zToDepth_ortho_within_one (toLong : α → Int) (htr : ∀ k : Int, toLong (k : α) = k) (n f l r t b : α) (hnf : n ≠ f)
    (z zmin zmax : Int) (hmax : zmax < 9223372036854775807) (hmin : -9223372036854775808 ≤ zmin) (hw : zmax - zmin < 9223372036854775808)
    (hne : zmin < zmax) (h1 : zmin ≤ z) (h2 : z ≤ zmax) :
    |depthToZ_ortho toLong n f l r t b (zToDepth_ortho n f l r t b z zmin zmax) zmin zmax - z| ≤ 1 := by
  rw [depthToZ_zToDepth_ortho toLong htr n f l r t b hnf z zmin zmax hmax hmin hw hne h1 h2]; simp
/-- the end points: `zmin` is the near plane, `zmax` the far plane -/
theorem zToDepth_persp_ends (n f l r t b : α) (hn : n ≠ 0) (hf : f ≠ 0) (zmin zmax : Int) (hmax : zmax < 9223372036854775807)
    (hmin : -9223372036854775808 ≤ zmin) (hw : zmax - zmin < 9223372036854775808) (hne : zmin < zmax) :
    zToDepth_persp n f l r t b zmin zmin zmax = -n ∧ zToDepth_persp n f l r t b zmax zmin zmax = -f := by
  have hD : (zmax : α) - (zmin : α) ≠ 0 := by rw [sub_ne_zero]; exact_mod_cast (ne_of_gt hne)
  rw [zToDepth_persp_inrange n f l r t b zmin zmin zmax hmax (by omega) (by omega) hw (by omega),
    zToDepth_persp_inrange n f l r t b zmax zmin zmax hmax (by omega) (by omega) hw (by omega), sub_self, zero_div, div_self hD]
  exact normalizedZToDepth_persp_ends n f l r t b hn hf
theorem zToDepth_ortho_ends (n f l r t b : α) (zmin zmax : Int) (hmax : zmax < 9223372036854775807)
    (hmin : -9223372036854775808 ≤ zmin) (hw : zmax - zmin < 9223372036854775808) (hne : zmin < zmax) :
    zToDepth_ortho n f l r t b zmin zmin zmax = -n ∧ zToDepth_ortho n f l r t b zmax zmin zmax = -f := by
  have hD : (zmax : α) - (zmin : α) ≠ 0 := by rw [sub_ne_zero]; exact_mod_cast (ne_of_gt hne)
  rw [zToDepth_ortho_inrange n f l r t b zmin zmin zmax hmax (by omega) (by omega) hw (by omega),
    zToDepth_ortho_inrange n f l r t b zmax zmin zmax hmax (by omega) (by omega) hw (by omega), sub_self, zero_div, div_self hD]
  exact normalizedZToDepth_ortho_ends n f l r t b

/-! ## non-vacuity; the 32-bit z-buffer; the FORMER defect (`int zdiff`, fixed by /repo 6489c36) -/
/-- truncation toward zero on ℚ: exact on integers -/
def ratToLong (q : ℚ) : Int := Int.tdiv q.num q.den
example : ∀ k : Int, ratToLong (k : ℚ) = k := by intro k; simp [ratToLong]
/-- the hypotheses of the round trip hold for a 24-bit and a 32-bit z-buffer -/
example : (4294967295 : Int) < 9223372036854775807 ∧ (-9223372036854775808 : Int) ≤ 0 ∧ (4294967295 : Int) - 0 < 9223372036854775808 ∧
    (0 : Int) < 4294967295 ∧ (0 : ℚ) < 1 ∧ (1 : ℚ) < 1000 := by norm_num
theorem witness_zToDepth_24bit : zToDepth_persp (1 : ℚ) 1000 (-1) 1 1 (-1) 16777215 0 16777215 = -1000 ∧
    depthToZ_persp ratToLong (1 : ℚ) 1000 (-1) 1 1 (-1) (-1000) 0 16777215 = 16777215 := by
  have e1 : zvalWrapped 16777215 0 16777215 = 16777215 := by decide
  have e2 : zdiffLong 0 16777215 = 16777215 := by decide
  constructor
  · simp only [zToDepth_persp, zNormalized, e1, e2, Gen.Frustum.normalizedZToDepth_persp]; norm_num
  · simp only [depthToZ_persp, e2, Gen.Frustum.depthToZp_persp, depthToZTail]
    norm_num [ratToLong, wrap64]
/-- **32-bit z-buffer** `[0, 2^32 − 1]`, frustum near 1, far 1000: `ZToDepth (zmax)` — both the model and the definition extracted from
the real body at these arguments — is the far plane, `ZToDepth (0)` the near plane, and `DepthToZ` brings `zmax` back -/
theorem witness_zToDepth_32bit :
    zToDepth_persp (1 : ℚ) 1000 (-1) 1 1 (-1) 4294967295 0 4294967295 = -1000 ∧
    Gen.Frustum.ZToDepth_persp_w32 (1 : ℚ) 1000 (-1) 1 1 (-1) = -1000 ∧
    Gen.Frustum.ZToDepth_ortho_w32 (1 : ℚ) 1000 (-1) 1 1 (-1) = -1000 ∧
    depthToZ_persp ratToLong (1 : ℚ) 1000 (-1) 1 1 (-1) (-1000) 0 4294967295 = 4294967295 := by
  have e1 : zvalWrapped 4294967295 0 4294967295 = 4294967295 := by decide
  have e2 : zdiffLong 0 4294967295 = 4294967295 := by decide
  refine ⟨?_, ?_, ?_, ?_⟩
  · simp only [zToDepth_persp, zNormalized, e1, e2, Gen.Frustum.normalizedZToDepth_persp]; norm_num
  · simp only [Gen.Frustum.ZToDepth_persp_w32]; norm_num
  · simp only [Gen.Frustum.ZToDepth_ortho_w32]; norm_num
  · simp only [depthToZ_persp, e2, Gen.Frustum.depthToZp_persp, depthToZTail]
    norm_num [ratToLong, wrap64]
/-- RECORD of the former defect (key `c16_corr:ZToDepth:zrange-ge-2^31`, found by this check, fixed by /repo 6489c36): with the
FORMER `int zdiff` the divisor for the 32-bit range was −1, and `ZToDepth (zmax)` was a point a hair behind the eye, not the far plane -/
theorem former_narrowing_defect :
    zdiffIntOld 0 4294967295 = -1 ∧ zdiffIntOld 0 2147483648 = -2147483648 ∧ zdiffIntOld (-2147483648) 2147483648 = 0 ∧
    Gen.Frustum.normalizedZToDepth_persp (1 : ℚ) 1000 (-1) 1 1 (-1) (((4294967295 : ℚ) - 0) / ((zdiffIntOld 0 4294967295 : Int) : ℚ))
      = -200 / 858134465741 := by
  have e : zdiffIntOld 0 4294967295 = -1 := by decide
  refine ⟨e, by decide, by decide, ?_⟩
  simp only [e, Gen.Frustum.normalizedZToDepth_persp]; norm_num

end ImathVerif.C16
