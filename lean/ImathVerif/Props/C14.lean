import ImathVerif.Lemmas.RayBoxLemmas
import ImathVerif.Lemmas.RayBoxPoints
import ImathVerif.Lemmas.RayBoxOracleLemmas
/-!
# C14 — ray-box and line-box intersection are geometrically exact

Property theorems only.  Model: `Model/RayBox.lean`, a statement-by-statement
transcription of `findEntryAndExitPoints`, `intersects(box, ray, ip)` and
`intersects(box, ray)` (`/repo/src/Imath/ImathBoxAlgo.h` 369-897), generic in the
scalar; tied to the real code on every run by exhaustive integer-lattice
correspondence (`harness/corr/raybox_corr.cpp`, `Driver/RayBox.lean`).

Everything here is over an arbitrary ordered field `α` (exact arithmetic);
`T` is `std::numeric_limits<T>::max()`, an arbitrary parameter.  What rounding
adds is measured, not proved (tools/props/c14.py, float guard sweep).

Vocabulary (`Spec/RayBoxSpec.lean`): `mem p b` — closed box; `b.Empty` — some
`max < min`; `pointAt r t = pos + t·dir`; `onSurface p b` — a coordinate equals
a face value; per axis
`CodeGuard  := 1 < |dir| ∨ (|max-pos| < T·|dir| ∧ |min-pos| < T·|dir|)`  (as written),
`StrictGuard := |max-pos| < T·|dir| ∧ |min-pos| < T·|dir|`               (no quotient reaches `T`),
`GuardsOK`: every axis has `dir = 0 ∨ StrictGuard`; `CodeGuardsOK`: `dir = 0 ∨ CodeGuard`.

## What is proved

* exactness (`*_iff`, `*_empty`, `intersects_ip_*`, `findEntryAndExitPoints_points`)
  under `GuardsOK` (resp. `CodeGuardsOK`), i.e. when no `TMAX` substitution happens;
* the guard path *exactly* (`*_guardpath`): which parameter set the code decides
  when a guard fails (`feEff`, `isEff` in Lemmas) — no hypotheses at all;
* `intersects_never_misses`: with NO guard hypothesis, a hit at a parameter
  `0 ≤ t ≤ T` is always reported (the `TMAX` substitution never turns a hit into
  a miss);
* the hypothesis the proof FORCED is real: `*_witness` theorems exhibit, over ℚ,
  (a) `findEntryAndExitPoints` turning a hit into a miss when a guard fails
  (box reaching `T`, unit direction), (b) both functions turning a miss into a
  hit when all direction components fail the guard, (c) the `|dir| > 1`
  disjunct alone not being enough when `|face - pos| > T`.

* where the reported points lie WITHOUT guard hypotheses: `intersects_ip_in_box_always`
  (`ip` is in the box and on a face whenever the result is `true`), `findEntryAndExitPoints_points_in_box`
  (one axis with a non-zero component and a strict guard suffices, the other two arbitrary);
* and where the clause "every reported point lies in the box" is FALSE:
  `findEntryAndExitPoints_unwritten` (every axis fails its guard — e.g. all components zero or
  denormal — and the origin is in the box: `true` is returned and `entry`/`exit` are never assigned),
  with the ℚ witness `findEntryAndExitPoints_unwritten_witness`;
* `*_false_hit_only_if`: a `true` answer that is geometrically wrong needs a non-zero
  component whose guard as written fails.

* `oracleLine_iff`, `oracleRay_iff`, `spec_*`: the exact interval oracle the correspondence driver
  EXECUTES at `Rat` (`Model/RayBoxOracle.lean`) is a proved decision procedure for
  `∃ t, mem (pointAt r t) b` / `∃ t ≥ 0, …`, and the points it reports are the first / last
  parameter of the line inside the box (first contact of the ray).  No hypotheses.

`strictGuard_of_codeGuard` (Lemmas): `CodeGuard` and `|max-pos| ≤ T`, `|min-pos| ≤ T`
imply `StrictGuard`; so for floats whose differences do not overflow the
hypothesis `GuardsOK` is "every component is zero or passes its guard".
-/
namespace ImathVerif.RayBox.C14
open ImathVerif.RayBox

variable {α : Type} [Field α] [LinearOrder α] [IsStrictOrderedRing α]

/-! ### Empty boxes -/

/-- No line meets an empty box; the out-parameters are left untouched. -/
theorem findEntryAndExitPoints_empty (T : α) (r : Line3 α) (b : Box3 α) (e x : V3 α)
    (he : b.Empty) : findEntryAndExitPoints T r b e x = (false, e, x) :=
  fe_empty he e x

/-- No ray meets an empty box. -/
theorem intersects_empty (T : α) (r : Line3 α) (b : Box3 α) (ip : V3 α)
    (he : b.Empty) : intersects T b r ip = (false, ip) ∧ intersectsBool T b r ip = false := by
  have := is_empty (T := T) (r := r) he ip
  exact ⟨this, by unfold intersectsBool; rw [this]⟩

/-! ### The guard path, exactly (no hypotheses on the direction) -/

/-- `findEntryAndExitPoints` decides: is there a parameter `|t| ≤ T` lying, on
every axis, in the exact slab if that axis' guard passes, and — if the guard
fails — is `pos` inside the slab (the axis is treated as parallel). -/
theorem findEntryAndExitPoints_guardpath (T : α) (r : Line3 α) (b : Box3 α) (e x : V3 α)
    (hne : ¬ b.Empty) :
    (findEntryAndExitPoints T r b e x).1 = true ↔ ∃ t, (-T ≤ t ∧ t ≤ T) ∧ feEff3 T r b t := by
  rw [fe_eq_run hne]
  exact (fe_run_master (T := T) hne _ rfl rfl).1

/-- `intersects` decides: is there `0 ≤ t ≤ T` in every axis' *coded* set `isEff`
(front parameter replaced by `T`, back bound dropped, where a guard fails). -/
theorem intersects_guardpath (T : α) (r : Line3 α) (b : Box3 α) (ip : V3 α)
    (hne : ¬ b.Empty) (hT : 0 ≤ T) (hout : ¬ mem r.pos b) :
    (intersects T b r ip).1 = true ↔ ∃ t, (0 ≤ t ∧ t ≤ T) ∧ isEff3 T r b t := by
  rw [is_eq_run hne hout]
  exact (is_run_master (T := T) hne _ rfl rfl hT).1

/-- The `TMAX` substitution never turns a hit into a miss: NO guard hypothesis.
If the ray meets the box at some parameter `0 ≤ t ≤ T`, `intersects` says so. -/
theorem intersects_never_misses (T : α) (r : Line3 α) (b : Box3 α) (ip : V3 α)
    (hne : ¬ b.Empty) (hT : 0 ≤ T)
    (h : ∃ t, 0 ≤ t ∧ t ≤ T ∧ mem (pointAt r t) b) : (intersects T b r ip).1 = true := by
  by_cases hin : mem r.pos b
  · rw [is_inside hne hin]
  · obtain ⟨t, h0, hT', hm⟩ := h
    rw [intersects_guardpath T r b ip hne hT hin]
    obtain ⟨mx, my, mz⟩ := (mem_pointAt_iff r b t).mp hm
    exact ⟨t, ⟨h0, hT'⟩, isEff_of_inSlab h0 mx, isEff_of_inSlab h0 my, isEff_of_inSlab h0 mz⟩

/-! ### Exactness when the guards as written pass: parameters up to `T` -/

/-- Every component zero or passing its guard as written: the result is exact
for parameters of magnitude at most `T`. -/
theorem findEntryAndExitPoints_iff_window (T : α) (r : Line3 α) (b : Box3 α) (e x : V3 α)
    (hne : ¬ b.Empty) (hg : CodeGuardsOK T r b) :
    (findEntryAndExitPoints T r b e x).1 = true ↔ ∃ t, (-T ≤ t ∧ t ≤ T) ∧ mem (pointAt r t) b := by
  rw [findEntryAndExitPoints_guardpath T r b e x hne]
  simp only [feEff3_iff_mem hg]

theorem intersects_iff_window (T : α) (r : Line3 α) (b : Box3 α) (ip : V3 α)
    (hne : ¬ b.Empty) (hT : 0 ≤ T) (hg : CodeGuardsOK T r b) :
    (intersects T b r ip).1 = true ↔ ∃ t, (0 ≤ t ∧ t ≤ T) ∧ mem (pointAt r t) b := by
  by_cases hin : mem r.pos b
  · rw [is_inside hne hin]
    exact ⟨fun _ => ⟨0, ⟨le_refl _, hT⟩, by rw [pointAt_zero]; exact hin⟩, fun _ => rfl⟩
  · rw [intersects_guardpath T r b ip hne hT hin]
    constructor
    · rintro ⟨t, ht, h⟩; exact ⟨t, ht, (isEff3_iff_mem hg ht.1).mp h⟩
    · rintro ⟨t, ht, h⟩; exact ⟨t, ht, (isEff3_iff_mem hg ht.1).mpr h⟩

/-! ### Exactness (main theorems): `GuardsOK`, no window -/

/-- **Line vs. box.**  For a non-empty box and a direction each of whose
components is zero or passes its overflow guard (strictly: no quotient reaches
`T`), `findEntryAndExitPoints` returns `true` exactly when the full line meets
the closed box. -/
theorem findEntryAndExitPoints_iff (T : α) (r : Line3 α) (b : Box3 α) (e x : V3 α)
    (hne : ¬ b.Empty) (hT : 0 ≤ T) (hg : GuardsOK T r b) :
    (findEntryAndExitPoints T r b e x).1 = true ↔ ∃ t, mem (pointAt r t) b := by
  rw [findEntryAndExitPoints_iff_window T r b e x hne (guardsOK_code hg)]
  constructor
  · rintro ⟨t, _, h⟩; exact ⟨t, h⟩
  · rintro ⟨t, h⟩
    rcases window_free hg h with hw | hz
    · exact ⟨t, ⟨le_of_lt hw.1, le_of_lt hw.2⟩, h⟩
    · exact ⟨0, ⟨by linarith, hT⟩, mem_pointAt_of_dir_zero hz h 0⟩

/-- **Ray vs. box.**  Same hypotheses: `intersects` returns `true` exactly when
some point `pos + t·dir`, `t ≥ 0`, lies in the closed box. -/
theorem intersects_iff (T : α) (r : Line3 α) (b : Box3 α) (ip : V3 α)
    (hne : ¬ b.Empty) (hT : 0 ≤ T) (hg : GuardsOK T r b) :
    (intersects T b r ip).1 = true ↔ ∃ t, 0 ≤ t ∧ mem (pointAt r t) b := by
  rw [intersects_iff_window T r b ip hne hT (guardsOK_code hg)]
  constructor
  · rintro ⟨t, ht, h⟩; exact ⟨t, ht.1, h⟩
  · rintro ⟨t, h0, h⟩
    rcases window_free hg h with hw | hz
    · exact ⟨t, ⟨h0, le_of_lt hw.2⟩, h⟩
    · exact ⟨0, ⟨le_refl _, hT⟩, mem_pointAt_of_dir_zero hz h 0⟩

/-- The two-argument wrapper `intersects(box, ray)`; the value of its
uninitialised local is irrelevant. -/
theorem intersectsBool_iff (T : α) (r : Line3 α) (b : Box3 α) (ignored : V3 α)
    (hne : ¬ b.Empty) (hT : 0 ≤ T) (hg : GuardsOK T r b) :
    intersectsBool T b r ignored = true ↔ ∃ t, 0 ≤ t ∧ mem (pointAt r t) b :=
  intersects_iff T r b ignored hne hT hg

/-! ### Reported points -/

/-- The ray starts inside the box: `ip` is the origin (no hypothesis on `dir`). -/
theorem intersects_ip_inside (T : α) (r : Line3 α) (b : Box3 α) (ip : V3 α)
    (hne : ¬ b.Empty) (hin : mem r.pos b) : intersects T b r ip = (true, r.pos) :=
  is_inside hne hin ip

/-- The ray starts outside and hits: `ip` is the point of parameter `t₀ ≥ 0`,
it lies in the box and on its surface, and it is the FIRST contact: no point of
the ray with a smaller parameter is in the box.  (Guards as written suffice.) -/
theorem intersects_ip_first_contact (T : α) (r : Line3 α) (b : Box3 α) (ip : V3 α)
    (hne : ¬ b.Empty) (hT : 0 ≤ T) (hg : CodeGuardsOK T r b) (hout : ¬ mem r.pos b)
    (hres : (intersects T b r ip).1 = true) :
    ∃ t0, 0 ≤ t0 ∧ (intersects T b r ip).2 = pointAt r t0 ∧
      mem (intersects T b r ip).2 b ∧ onSurface (intersects T b r ip).2 b ∧
      ∀ t, 0 ≤ t → mem (pointAt r t) b → t0 ≤ t := by
  rw [is_eq_run hne hout] at hres ⊢
  obtain ⟨F, B, hFB, hB0, hBT, inv, hrep⟩ := (is_run_master (T := T) hne _ rfl rfl hT).2 hres
  have hF0 : 0 ≤ F := by
    by_contra hc
    have h0 := (inv 0).mp ⟨le_of_lt (not_le.mp hc), hB0⟩
    have := (isEff3_iff_mem hg (le_refl (0 : α))).mp h0.2
    rw [pointAt_zero] at this
    exact hout this
  have hmF : mem (pointAt r F) b := (isEff3_iff_mem hg hF0).mp ((inv F).mp ⟨le_refl _, hFB⟩).2
  obtain ⟨hq, hs⟩ := hrep hg hF0
  rw [clampPt_of_mem hmF] at hq
  refine ⟨F, hF0, hq, by rw [hq]; exact hmF, hs, ?_⟩
  intro t h0 hm
  by_cases htT : t ≤ T
  · exact ((inv t).mpr ⟨⟨by linarith, htT⟩, (isEff3_iff_mem hg h0).mpr hm⟩).1
  · linarith [not_le.mp htT]

/-- `findEntryAndExitPoints = true` with a non-zero direction: the parameters
of the points of the line inside the box form the interval `[tE, tX]`, `entry`
is the point at `tE` and `exit` the point at `tX` (ends of the interval in the
direction of travel); both lie in the box and on its surface. -/
theorem findEntryAndExitPoints_points (T : α) (r : Line3 α) (b : Box3 α) (e x : V3 α)
    (hne : ¬ b.Empty) (hg : GuardsOK T r b)
    (hdir : r.dir.x ≠ 0 ∨ r.dir.y ≠ 0 ∨ r.dir.z ≠ 0)
    (hres : (findEntryAndExitPoints T r b e x).1 = true) :
    ∃ tE tX, tE ≤ tX ∧
      (findEntryAndExitPoints T r b e x).2.1 = pointAt r tE ∧
      (findEntryAndExitPoints T r b e x).2.2 = pointAt r tX ∧
      (∀ t, mem (pointAt r t) b ↔ (tE ≤ t ∧ t ≤ tX)) ∧
      mem (findEntryAndExitPoints T r b e x).2.1 b ∧ mem (findEntryAndExitPoints T r b e x).2.2 b ∧
      onSurface (findEntryAndExitPoints T r b e x).2.1 b ∧
      onSurface (findEntryAndExitPoints T r b e x).2.2 b := by
  have hcg := guardsOK_code hg
  rw [fe_eq_run hne] at hres ⊢
  obtain ⟨F, B, hFB, inv, hE, hX⟩ := (fe_run_master (T := T) hne _ rfl rfl).2 hres
  have hmF : mem (pointAt r F) b := (feEff3_iff_mem hcg F).mp ((inv F).mp ⟨le_refl _, hFB⟩).2
  have hmB : mem (pointAt r B) b := (feEff3_iff_mem hcg B).mp ((inv B).mp ⟨hFB, le_refl _⟩).2
  have hTF := (inv F).mp ⟨le_refl _, hFB⟩
  have hT0 : 0 ≤ T := by linarith [hTF.1.1, hTF.1.2]
  have hnz : ¬ (r.dir.x = 0 ∧ r.dir.y = 0 ∧ r.dir.z = 0) := by
    rintro ⟨h1, h2, h3⟩
    rcases hdir with h | h | h
    · exact h h1
    · exact h h2
    · exact h h3
  have win : ∀ t, mem (pointAt r t) b → -T < t ∧ t < T := fun t hm =>
    (window_free hg hm).resolve_right hnz
  obtain ⟨hqE, hsE⟩ := hE (win F hmF).1
  obtain ⟨hqX, hsX⟩ := hX (win B hmB).2
  rw [clampPt_of_mem hmF] at hqE
  rw [clampPt_of_mem hmB] at hqX
  refine ⟨F, B, hFB, hqE, hqX, ?_, by rw [hqE]; exact hmF, by rw [hqX]; exact hmB, hsE, hsX⟩
  intro t
  constructor
  · intro hm
    have hw := win t hm
    exact (inv t).mpr ⟨⟨le_of_lt hw.1, le_of_lt hw.2⟩, (feEff3_iff_mem hcg t).mpr hm⟩
  · intro h
    exact (feEff3_iff_mem hcg t).mp ((inv t).mp h).2

/-! ### Reported points without guard hypotheses -/

/-- **`ip` is always in the box and on a face** when `intersects` returns `true`
from an origin outside the box — NO hypothesis on the direction or the guards:
every assignment of `ip` has the shape `(face, clamp …, clamp …)`, and an
assignment must have happened because the axis on which the origin is outside
pushes `tFrontMax` from `-1` to a value `≥ 0`.  (Origin inside: `intersects_ip_inside`.) -/
theorem intersects_ip_in_box_always (T : α) (r : Line3 α) (b : Box3 α) (ip : V3 α)
    (hne : ¬ b.Empty) (hT : 0 ≤ T) (hout : ¬ mem r.pos b)
    (hres : (intersects T b r ip).1 = true) :
    mem (intersects T b r ip).2 b ∧ onSurface (intersects T b r ip).2 b := by
  rw [is_eq_run hne hout] at hres ⊢
  exact is_run_pts hne hT _ rfl hout hres

/-- `entry` and `exit` are in the box and on a face as soon as ONE axis has a
non-zero direction component with a strict guard (no quotient of that axis reaches
`T`); the other two axes are arbitrary (zero, denormal, guard failing, …). -/
theorem findEntryAndExitPoints_points_in_box (T : α) (r : Line3 α) (b : Box3 α) (e x : V3 α)
    (hne : ¬ b.Empty)
    (hax : (r.dir.x ≠ 0 ∧ StrictGuard T r.pos.x r.dir.x b.min.x b.max.x) ∨
           (r.dir.y ≠ 0 ∧ StrictGuard T r.pos.y r.dir.y b.min.y b.max.y) ∨
           (r.dir.z ≠ 0 ∧ StrictGuard T r.pos.z r.dir.z b.min.z b.max.z))
    (hres : (findEntryAndExitPoints T r b e x).1 = true) :
    mem (findEntryAndExitPoints T r b e x).2.1 b ∧ mem (findEntryAndExitPoints T r b e x).2.2 b ∧
    onSurface (findEntryAndExitPoints T r b e x).2.1 b ∧ onSurface (findEntryAndExitPoints T r b e x).2.2 b := by
  rw [fe_eq_run hne] at hres ⊢
  obtain ⟨F, B, hFB, inv, hE, hX⟩ := (fe_run_master (T := T) hne _ rfl rfl).2 hres
  have eF := ((inv F).mp ⟨le_refl _, hFB⟩).2
  have eB := ((inv B).mp ⟨hFB, le_refl _⟩).2
  have win : (-T < F ∧ F < T) ∧ (-T < B ∧ B < T) := by
    rcases hax with ⟨hd, hg⟩ | ⟨hd, hg⟩ | ⟨hd, hg⟩
    · exact ⟨strictGuard_window hd hg (eF.1.1 (Or.inr hg)), strictGuard_window hd hg (eB.1.1 (Or.inr hg))⟩
    · exact ⟨strictGuard_window hd hg (eF.2.1.1 (Or.inr hg)), strictGuard_window hd hg (eB.2.1.1 (Or.inr hg))⟩
    · exact ⟨strictGuard_window hd hg (eF.2.2.1 (Or.inr hg)), strictGuard_window hd hg (eB.2.2.1 (Or.inr hg))⟩
  obtain ⟨hqE, hsE⟩ := hE win.1.1
  obtain ⟨hqX, hsX⟩ := hX win.2.2
  exact ⟨by rw [hqE]; exact clampPt_mem hne F, by rw [hqX]; exact clampPt_mem hne B, hsE, hsX⟩

/-- **The clause "every reported point lies in the box" is false for
`findEntryAndExitPoints`.**  If on every axis the guard as written fails (a zero
component always fails it; so does a denormal one) and the origin is in the box, all
three blocks fall through: the function returns `true` and `entry`, `exit` keep
whatever the caller's variables held (uninitialised memory in C++). -/
theorem findEntryAndExitPoints_unwritten (T : α) (r : Line3 α) (b : Box3 α) (e x : V3 α)
    (hne : ¬ b.Empty) (hT : 0 ≤ T)
    (hx : ¬ CodeGuard T r.pos.x r.dir.x b.min.x b.max.x)
    (hy : ¬ CodeGuard T r.pos.y r.dir.y b.min.y b.max.y)
    (hz : ¬ CodeGuard T r.pos.z r.dir.z b.min.z b.max.z)
    (hin : mem r.pos b) : findEntryAndExitPoints T r b e x = (true, e, x) :=
  fe_unwritten hne hT hx hy hz hin e x

/-- The zero direction in particular (the line degenerates to the point `pos`). -/
theorem findEntryAndExitPoints_unwritten_zero_dir (T : α) (r : Line3 α) (b : Box3 α) (e x : V3 α)
    (hne : ¬ b.Empty) (hT : 0 ≤ T) (h0 : r.dir.x = 0 ∧ r.dir.y = 0 ∧ r.dir.z = 0)
    (hin : mem r.pos b) : findEntryAndExitPoints T r b e x = (true, e, x) := by
  refine fe_unwritten hne hT ?_ ?_ ?_ hin e x
  · rw [h0.1]; exact not_codeGuard_zero
  · rw [h0.2.1]; exact not_codeGuard_zero
  · rw [h0.2.2]; exact not_codeGuard_zero

/-! ### A geometrically wrong `true` needs a failing guard -/

theorem intersects_false_hit_only_if (T : α) (r : Line3 α) (b : Box3 α) (ip : V3 α)
    (hne : ¬ b.Empty) (hT : 0 ≤ T) (hres : (intersects T b r ip).1 = true) :
    (∃ t, 0 ≤ t ∧ mem (pointAt r t) b) ∨
    (r.dir.x ≠ 0 ∧ ¬ CodeGuard T r.pos.x r.dir.x b.min.x b.max.x) ∨
    (r.dir.y ≠ 0 ∧ ¬ CodeGuard T r.pos.y r.dir.y b.min.y b.max.y) ∨
    (r.dir.z ≠ 0 ∧ ¬ CodeGuard T r.pos.z r.dir.z b.min.z b.max.z) := by
  by_cases hg : CodeGuardsOK T r b
  · obtain ⟨t, ht, hm⟩ := (intersects_iff_window T r b ip hne hT hg).mp hres
    exact Or.inl ⟨t, ht.1, hm⟩
  · right
    unfold CodeGuardsOK at hg
    by_contra hc
    apply hg
    simp only [not_or, not_and_or, not_not] at hc
    exact ⟨hc.1, hc.2.1, hc.2.2⟩

theorem findEntryAndExitPoints_false_hit_only_if (T : α) (r : Line3 α) (b : Box3 α) (e x : V3 α)
    (hne : ¬ b.Empty) (hres : (findEntryAndExitPoints T r b e x).1 = true) :
    (∃ t, mem (pointAt r t) b) ∨
    (r.dir.x ≠ 0 ∧ ¬ CodeGuard T r.pos.x r.dir.x b.min.x b.max.x) ∨
    (r.dir.y ≠ 0 ∧ ¬ CodeGuard T r.pos.y r.dir.y b.min.y b.max.y) ∨
    (r.dir.z ≠ 0 ∧ ¬ CodeGuard T r.pos.z r.dir.z b.min.z b.max.z) := by
  by_cases hg : CodeGuardsOK T r b
  · obtain ⟨t, _, hm⟩ := (findEntryAndExitPoints_iff_window T r b e x hne hg).mp hres
    exact Or.inl ⟨t, hm⟩
  · right
    unfold CodeGuardsOK at hg
    by_contra hc
    apply hg
    simp only [not_or, not_and_or, not_not] at hc
    exact ⟨hc.1, hc.2.1, hc.2.2⟩

/-! ### Non-vacuity of the hypotheses (concrete instances over ℚ) -/

section NonVacuity
/-- A ray from outside through the unit cube, `T = 1000`. -/
def exRay : Line3 ℚ := ⟨⟨-1, 1/2, 1/2⟩, ⟨1, 0, 0⟩⟩
/-- A skew ray grazing an edge of the unit cube. -/
def exSkew : Line3 ℚ := ⟨⟨-1, -1, 1/2⟩, ⟨2, 2, -1/4⟩⟩
def exBox : Box3 ℚ := ⟨⟨0, 0, 0⟩, ⟨1, 1, 1⟩⟩
def z3 : V3 ℚ := ⟨0, 0, 0⟩

example : ¬ exBox.Empty := by norm_num [Box3.Empty, exBox]
example : GuardsOK 1000 exRay exBox := by norm_num [GuardsOK, AxisOK, StrictGuard, exRay, exBox]
example : GuardsOK 1000 exSkew exBox := by norm_num [GuardsOK, AxisOK, StrictGuard, exSkew, exBox]
example : CodeGuardsOK 1000 exSkew exBox := guardsOK_code (by norm_num [GuardsOK, AxisOK, StrictGuard, exSkew, exBox])
example : ¬ mem exRay.pos exBox := by norm_num [mem, exRay, exBox]
example : exRay.dir.x ≠ 0 ∨ exRay.dir.y ≠ 0 ∨ exRay.dir.z ≠ 0 := by norm_num [exRay]
/-- the hypotheses of `intersects_ip_first_contact` / `findEntryAndExitPoints_points` are met with a `true` result -/
example : (intersects 1000 exBox exRay z3) = (true, ⟨0, 1/2, 1/2⟩) := by decide +kernel
example : (findEntryAndExitPoints 1000 exRay exBox z3 z3) = (true, ⟨0, 1/2, 1/2⟩, ⟨1, 1/2, 1/2⟩) := by decide +kernel
example : (findEntryAndExitPoints 1000 exSkew exBox z3 z3) = (true, ⟨0, 0, 3/8⟩, ⟨1, 1, 1/4⟩) := by decide +kernel
/-- an empty (inverted) box -/
example : (⟨⟨1, 0, 0⟩, ⟨0, 1, 1⟩⟩ : Box3 ℚ).Empty := by norm_num [Box3.Empty]
/-- a hit within the window for `intersects_never_misses`, on a guard-failing direction -/
example : ∃ t : ℚ, 0 ≤ t ∧ t ≤ 4 ∧ mem (pointAt (⟨⟨0, 0, 0⟩, ⟨1/2, 0, 0⟩⟩ : Line3 ℚ) t) ⟨⟨2, -1, -1⟩, ⟨3, 1, 1⟩⟩ :=
  ⟨4, by norm_num [mem, pointAt]⟩
/-- `intersects_ip_in_box_always` on a direction ALL of whose components fail the guard (`T = 4`):
the result is `true` (a false hit, cf. witness (c)) and `ip` is a corner-region point of the box -/
example : (intersects (4 : ℚ) ⟨⟨1, 5, -1⟩, ⟨2, 6, 1⟩⟩ ⟨⟨0, 0, 0⟩, ⟨1/8, 1/8, 0⟩⟩ z3) = (true, ⟨1, 5, 0⟩) := by decide +kernel
example : ¬ mem (⟨0, 0, 0⟩ : V3 ℚ) ⟨⟨1, 5, -1⟩, ⟨2, 6, 1⟩⟩ := by norm_num [mem]
/-- `findEntryAndExitPoints_points_in_box`: X strict and non-zero, Y failing its guard with the origin inside the Y slab -/
example : ((1 : ℚ) ≠ 0 ∧ StrictGuard (4 : ℚ) (-1) 1 0 1) := by norm_num [StrictGuard]
example : ¬ CodeGuard (4 : ℚ) (1/2) (1/100) 0 1 := by norm_num [CodeGuard]
example : (findEntryAndExitPoints (4 : ℚ) ⟨⟨-1, 1/2, 1/2⟩, ⟨1, 1/100, 0⟩⟩ exBox z3 z3) =
    (true, ⟨0, 51/100, 1/2⟩, ⟨1, 13/25, 1/2⟩) := by decide +kernel
end NonVacuity

/-! ### The exact oracle of the correspondence is a PROVED decision procedure

`lineIval` / `rayIval` / `oracleLine` / `oracleRay` / `spec` (`Model/RayBoxOracle.lean`, core Lean, generic
scalar) are what `drv_raybox` evaluates at `Rat` as "the exact answer" on every lattice and in the
guard sweep.  Over any ordered field, with NO hypothesis (empty boxes, zero directions included): -/

/-- The line oracle decides exactly whether the full line meets the closed box. -/
theorem oracleLine_iff (r : Line3 α) (b : Box3 α) :
    oracleLine r b = true ↔ ∃ t, mem (pointAt r t) b :=
  sem_isSome (sem_lineIval r b)

/-- The ray oracle decides exactly whether some point with `t ≥ 0` lies in the closed box. -/
theorem oracleRay_iff (r : Line3 α) (b : Box3 α) :
    oracleRay r b = true ↔ ∃ t, 0 ≤ t ∧ mem (pointAt r t) b :=
  sem_isSome (sem_rayIval r b)

theorem spec_feHit_iff (r : Line3 α) (b : Box3 α) : (spec r b).feHit = true ↔ ∃ t, mem (pointAt r t) b :=
  oracleLine_iff r b

theorem spec_isHit_iff (r : Line3 α) (b : Box3 α) : (spec r b).isHit = true ↔ ∃ t, 0 ≤ t ∧ mem (pointAt r t) b :=
  oracleRay_iff r b

/-- The oracle's `entry`, when defined, is the point of the SMALLEST parameter inside the box. -/
theorem spec_entry (r : Line3 α) (b : Box3 α) (p : V3 α) (h : (spec r b).entry = some p) :
    ∃ tE, p = pointAt r tE ∧ mem p b ∧ ∀ t, mem (pointAt r t) b → tE ≤ t := by
  have hs := sem_lineIval r b
  simp only [spec] at h
  cases hl : lineIval r b with
  | none => rw [hl] at h; exact absurd h (by simp)
  | some i =>
    rw [hl] at h hs
    by_cases hf : i.loInf = true
    · simp [hf] at h
    · have hf' : i.loInf = false := by simpa using hf
      simp only [hf', Bool.false_eq_true, if_false, Option.some.injEq] at h
      obtain ⟨h1, h2⟩ := sem_lo_least hs hf'
      exact ⟨i.lo, h.symm, by rw [← h]; exact h1, h2⟩

/-- The oracle's `exit`, when defined, is the point of the LARGEST parameter inside the box. -/
theorem spec_exit (r : Line3 α) (b : Box3 α) (p : V3 α) (h : (spec r b).exit = some p) :
    ∃ tX, p = pointAt r tX ∧ mem p b ∧ ∀ t, mem (pointAt r t) b → t ≤ tX := by
  have hs := sem_lineIval r b
  simp only [spec] at h
  cases hl : lineIval r b with
  | none => rw [hl] at h; exact absurd h (by simp)
  | some i =>
    rw [hl] at h hs
    by_cases hf : i.hiInf = true
    · simp [hf] at h
    · have hf' : i.hiInf = false := by simpa using hf
      simp only [hf', Bool.false_eq_true, if_false, Option.some.injEq] at h
      obtain ⟨h1, h2⟩ := sem_hi_greatest hs hf'
      exact ⟨i.hi, h.symm, by rw [← h]; exact h1, h2⟩

/-- The oracle's `ip` is defined exactly when the ray hits, and is the FIRST contact. -/
theorem spec_ip (r : Line3 α) (b : Box3 α) :
    ((spec r b).ip.isSome = (spec r b).isHit) ∧
    ∀ p, (spec r b).ip = some p →
      ∃ t0, 0 ≤ t0 ∧ p = pointAt r t0 ∧ mem p b ∧ ∀ t, 0 ≤ t → mem (pointAt r t) b → t0 ≤ t := by
  have hs := sem_rayIval r b
  simp only [spec, oracleRay]
  cases hl : rayIval r b with
  | none => exact ⟨rfl, fun p h => absurd h (by simp)⟩
  | some i =>
    rw [hl] at hs
    refine ⟨rfl, fun p h => ?_⟩
    simp only [Option.some.injEq] at h
    obtain ⟨hfin, h0⟩ := sem_lo_finite_of_nonneg hs (fun t ht => ht.1)
    obtain ⟨h1, h2⟩ := sem_lo_least hs hfin
    exact ⟨i.lo, h0, h.symm, by rw [← h]; exact h1.2, fun t ht hm => h2 t ⟨ht, hm⟩⟩

/-- Non-vacuity / sanity: the oracle evaluated by the kernel on the skew grazing ray. -/
example : oracleLine exSkew exBox = true ∧ oracleRay exSkew exBox = true ∧
    (spec exSkew exBox).entry = some ⟨0, 0, 3/8⟩ ∧ (spec exSkew exBox).exit = some ⟨1, 1, 1/4⟩ := by decide +kernel

/-! ### The hypotheses are necessary: concrete witnesses over ℚ (the model evaluated by the kernel)

The proofs forced `GuardsOK`; these show the model (and, replayed through the
harness, the real code with `T = FLT_MAX/DBL_MAX`) really behaves differently
outside it. -/

section Witnesses

/-- (a) Guard path of `findEntryAndExitPoints`, hit → miss.  Box `[1,T]×[-1,1]²`
reaching `T` on one axis, origin `0`, unit direction `(1,0,0)`: `|max.x - pos.x| = T`
is not `< T·1`, the X block treats the axis as parallel and returns `false`,
although the line enters the box at `t = 1`.  (`intersects` answers `true`.) -/
theorem findEntryAndExitPoints_guard_miss_witness :
    (findEntryAndExitPoints (100 : ℚ) ⟨⟨0, 0, 0⟩, ⟨1, 0, 0⟩⟩ ⟨⟨1, -1, -1⟩, ⟨100, 1, 1⟩⟩ z3 z3).1 = false ∧
    mem (pointAt (⟨⟨0, 0, 0⟩, ⟨1, 0, 0⟩⟩ : Line3 ℚ) 1) ⟨⟨1, -1, -1⟩, ⟨100, 1, 1⟩⟩ ∧
    (intersects (100 : ℚ) ⟨⟨1, -1, -1⟩, ⟨100, 1, 1⟩⟩ ⟨⟨0, 0, 0⟩, ⟨1, 0, 0⟩⟩ z3).1 = true :=
  ⟨by decide +kernel, by norm_num [mem, pointAt], by decide +kernel⟩

/-- (b) Guard path of `findEntryAndExitPoints`, miss → hit.  The X component
`1/1000` fails its guard (`|max.x - pos.x| = 1 ≥ T·dir.x = 1/10`), `pos.x` is
inside the X slab, so X is ignored; the Y/Z blocks alone report a hit at
`t ∈ [-3,-2]`, where `x = 1/1000 - t/1000·…` has left the box. -/
theorem findEntryAndExitPoints_guard_falsehit_witness :
    (findEntryAndExitPoints (100 : ℚ) ⟨⟨1/1000, 0, 0⟩, ⟨1/1000, 1, 0⟩⟩ ⟨⟨0, -3, -1⟩, ⟨1, -2, 1⟩⟩ z3 z3).1 = true ∧
    ¬ ∃ t : ℚ, mem (pointAt (⟨⟨1/1000, 0, 0⟩, ⟨1/1000, 1, 0⟩⟩ : Line3 ℚ) t) ⟨⟨0, -3, -1⟩, ⟨1, -2, 1⟩⟩ := by
  refine ⟨by decide +kernel, ?_⟩
  rintro ⟨t, ⟨h1, _⟩, ⟨h3, h4⟩, _⟩
  simp only [pointAt] at h1 h3 h4
  linarith

/-- (c) Guard path of `intersects`, miss → hit: every non-zero direction
component fails its guard, every front parameter becomes `T`, no back
parameter is recorded, and `T ≤ T` reports a hit although the X and Y slabs
are met at disjoint parameter ranges (`[8,16]` and `[40,48]`, all `> T = 4`). -/
theorem intersects_guard_falsehit_witness :
    (intersects (4 : ℚ) ⟨⟨1, 5, -1⟩, ⟨2, 6, 1⟩⟩ ⟨⟨0, 0, 0⟩, ⟨1/8, 1/8, 0⟩⟩ z3).1 = true ∧
    ¬ ∃ t : ℚ, mem (pointAt (⟨⟨0, 0, 0⟩, ⟨1/8, 1/8, 0⟩⟩ : Line3 ℚ) t) ⟨⟨1, 5, -1⟩, ⟨2, 6, 1⟩⟩ := by
  refine ⟨by decide +kernel, ?_⟩
  rintro ⟨t, ⟨_, h2⟩, ⟨h3, _⟩, _⟩
  simp only [pointAt] at h2 h3
  linarith

/-- (d) The `|dir| > 1` disjunct alone is not enough: with `|face - pos| > T`
(in floating point: the subtraction overflows) the quotient exceeds `T` and the
initial `tBackMin = T` cuts the hit off.  Here the line meets the box at `t = 6 > T = 4`. -/
theorem findEntryAndExitPoints_overflow_witness :
    CodeGuardsOK (4 : ℚ) ⟨⟨-6, 0, 0⟩, ⟨2, 0, 0⟩⟩ ⟨⟨6, -1, -1⟩, ⟨6, 1, 1⟩⟩ ∧
    (findEntryAndExitPoints (4 : ℚ) ⟨⟨-6, 0, 0⟩, ⟨2, 0, 0⟩⟩ ⟨⟨6, -1, -1⟩, ⟨6, 1, 1⟩⟩ z3 z3).1 = false ∧
    (intersects (4 : ℚ) ⟨⟨6, -1, -1⟩, ⟨6, 1, 1⟩⟩ ⟨⟨-6, 0, 0⟩, ⟨2, 0, 0⟩⟩ z3).1 = false ∧
    mem (pointAt (⟨⟨-6, 0, 0⟩, ⟨2, 0, 0⟩⟩ : Line3 ℚ) 6) ⟨⟨6, -1, -1⟩, ⟨6, 1, 1⟩⟩ :=
  ⟨by norm_num [CodeGuardsOK, CodeGuard], by decide +kernel, by decide +kernel, by norm_num [mem, pointAt]⟩

/-- (e) "Every reported point lies in the box" fails: unit cube, origin at its centre,
direction `(1/100, 1/100, 1/100)`, `T = 4`: every axis fails its guard
(`|face - pos| = 1/2 ≥ T·dir = 1/25`), the function answers `true` (correctly: the
line meets the box) and returns the caller's `entry`/`exit` unchanged, whatever
they were — e.g. the point `(1001, 1002, 1003)`, which is not in the box.  Replayed on
the real code with `dir = (denorm_min)³` (or `0³`) by the guard sweep
(`guard-sweep:reported-points:…entry-unwritten…`). -/
theorem findEntryAndExitPoints_unwritten_witness :
    (∀ e x : V3 ℚ, findEntryAndExitPoints (4 : ℚ) ⟨⟨1/2, 1/2, 1/2⟩, ⟨1/100, 1/100, 1/100⟩⟩ exBox e x = (true, e, x)) ∧
    (∃ t : ℚ, mem (pointAt (⟨⟨1/2, 1/2, 1/2⟩, ⟨1/100, 1/100, 1/100⟩⟩ : Line3 ℚ) t) exBox) ∧
    ¬ mem (findEntryAndExitPoints (4 : ℚ) ⟨⟨1/2, 1/2, 1/2⟩, ⟨1/100, 1/100, 1/100⟩⟩ exBox ⟨1001, 1002, 1003⟩ z3).2.1 exBox := by
  have hu : ∀ e x : V3 ℚ,
      findEntryAndExitPoints (4 : ℚ) ⟨⟨1/2, 1/2, 1/2⟩, ⟨1/100, 1/100, 1/100⟩⟩ exBox e x = (true, e, x) := fun e x =>
    findEntryAndExitPoints_unwritten 4 _ exBox e x (by norm_num [Box3.Empty, exBox]) (by norm_num)
      (by norm_num [CodeGuard, exBox]) (by norm_num [CodeGuard, exBox]) (by norm_num [CodeGuard, exBox])
      (by norm_num [mem, exBox])
  refine ⟨hu, ⟨0, by norm_num [mem, pointAt, exBox]⟩, ?_⟩
  rw [hu]
  norm_num [mem, exBox]

/-- (f) Guard path of `findEntryAndExitPoints`, hit → miss with a REPRESENTABLE entry parameter.  Box `[0,1]³`, origin
`(-1/16)³` a hair outside, direction `(1/8)³`, `T = 4`: reaching the FAR face needs `t = (1 + 1/16)·8 > T`, so
`|max.x - pos.x| = 17/16` is not `< T·dir.x = 1/2`, the X block treats the axis as parallel and, the origin being outside
the slab, returns `false` — although the line enters the box at `t = 1/2 ≤ T` (and `intersects` answers `true` with
`ip = (0,0,0)`).  Replayed on the real code at double with origin `(-1e-30)³`, direction `(denorm_min)³`
(`guard-sweep:findEntryAndExitPoints:hit-to-miss:all-components-fail-guard:t-le-TMAX`, sweep block fixed-underflow-t-min). -/
theorem findEntryAndExitPoints_near_face_miss_witness :
    (findEntryAndExitPoints (4 : ℚ) ⟨⟨-1/16, -1/16, -1/16⟩, ⟨1/8, 1/8, 1/8⟩⟩ ⟨⟨0, 0, 0⟩, ⟨1, 1, 1⟩⟩ z3 z3).1 = false ∧
    mem (pointAt (⟨⟨-1/16, -1/16, -1/16⟩, ⟨1/8, 1/8, 1/8⟩⟩ : Line3 ℚ) (1/2)) ⟨⟨0, 0, 0⟩, ⟨1, 1, 1⟩⟩ ∧
    (1/2 : ℚ) ≤ 4 ∧
    intersects (4 : ℚ) ⟨⟨0, 0, 0⟩, ⟨1, 1, 1⟩⟩ ⟨⟨-1/16, -1/16, -1/16⟩, ⟨1/8, 1/8, 1/8⟩⟩ z3 = (true, ⟨0, 0, 0⟩) :=
  ⟨by decide +kernel, by norm_num [mem, pointAt], by norm_num, by decide +kernel⟩

end Witnesses

end ImathVerif.RayBox.C14
