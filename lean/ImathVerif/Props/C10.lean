import ImathVerif.Spec.MatSpec
import ImathVerif.Gen.C10Quat
import ImathVerif.Gen.C10Algo
import ImathVerif.Gen.C10Interp
import ImathVerif.Lemmas.C10Lemmas
import ImathVerif.Lemmas.C10Rot
import ImathVerif.Gen.C10Rot
import Mathlib.Tactic.Ring
import Mathlib.Tactic.LinearCombination
import Mathlib.Tactic.FinCases
import Mathlib.Tactic.SplitIfs
import Mathlib.Tactic.FieldSimp
import Mathlib.Tactic.NormNum
import Mathlib.Analysis.SpecialFunctions.Trigonometric.Inverse
import Mathlib.Analysis.SpecialFunctions.Trigonometric.Bounds
import Mathlib.Analysis.SpecialFunctions.Complex.Arg
/-!
# C10 — quaternion, matrix and axis-angle rotations are mutually consistent

`Gen.C10.*` is regenerated from ImathQuat.h / ImathMatrixAlgo.h / ImathMatrix.h / ImathMath.h on every
run (T = Sym path extraction).  Algebraic statements are over an arbitrary (ordered) field with an explicit
unit-norm hypothesis `UnitQ q : q.r² + q.v·q.v = 1`; `sqrt`, `sin`, `cos`, `acos`, `atan2` are parameters of the
generated definitions and enter through explicit hypotheses (each with an `example` that the real functions
satisfy them) or are instantiated with `Real.sqrt/sin/cos/arccos` for the analytic statements.
Rounding is not covered by theorems (DESIGN.md §3): squad/spline behaviour away from the end points, tangent continuity of
consecutive spline segments, the tiny-angle branches of `sinx_over_x`, and all accuracy claims are MEASURED by
harness/corr/c10_residue.cpp.  (Constant angular velocity of slerp and the 90° bound of slerpShortestArc are theorems:
`slerp_angle_linear(_real)`, `slerpShortestArc_angle_real`; the defining identity of `intermediate` is `intermediate_defining`.)
-/
namespace ImathVerif.C10
open ImathVerif Matrix

/-! ## Hamilton product, conjugate, negation -/

theorem Quat_mul {α : Type} [CommRing α] (a b : Quat α) :
    Gen.C10.Quat.mul a b =
      ⟨a.r * b.r - (a.v.x * b.v.x + a.v.y * b.v.y + a.v.z * b.v.z),
       ⟨a.r * b.v.x + b.r * a.v.x + (a.v.y * b.v.z - a.v.z * b.v.y),
        a.r * b.v.y + b.r * a.v.y + (a.v.z * b.v.x - a.v.x * b.v.z),
        a.r * b.v.z + b.r * a.v.z + (a.v.x * b.v.y - a.v.y * b.v.x)⟩⟩ := by
  unfold Gen.C10.Quat.mul
  congr 1; congr 1 <;> ring

/-- `~q` is the conjugate: same real part, negated vector part -/
theorem Quat_conj {α : Type} [CommRing α] (q : Quat α) : Gen.C10.Quat.conj q = ⟨q.r, ⟨-q.v.x, -q.v.y, -q.v.z⟩⟩ := rfl
theorem Quat_neg {α : Type} [CommRing α] (q : Quat α) : Gen.C10.Quat.neg q = ⟨-q.r, ⟨-q.v.x, -q.v.y, -q.v.z⟩⟩ := rfl
/-- conjugation reverses products -/
theorem Quat_conj_mul {α : Type} [CommRing α] (a b : Quat α) :
    Gen.C10.Quat.conj (Gen.C10.Quat.mul a b) = Gen.C10.Quat.mul (Gen.C10.Quat.conj b) (Gen.C10.Quat.conj a) := by
  simp only [Gen.C10.Quat.mul, Gen.C10.Quat.conj]
  congr 1; · ring
  congr 1 <;> ring
/-- `q * ~q = |q|²` (a real quaternion) -/
theorem Quat_mul_conj {α : Type} [CommRing α] (q : Quat α) :
    Gen.C10.Quat.mul q (Gen.C10.Quat.conj q) = ⟨normSq q, ⟨0, 0, 0⟩⟩ := by
  simp only [Gen.C10.Quat.mul, Gen.C10.Quat.conj, normSq]
  congr 1; · ring
  congr 1 <;> ring
/-- the 4-D dot product `q1 ^ q2` -/
theorem Quat_dot4 {α : Type} [CommRing α] (a b : Quat α) :
    Gen.C10.Quat.dot4 a b = a.r * b.r + (a.v.x * b.v.x + a.v.y * b.v.y + a.v.z * b.v.z) := by
  unfold Gen.C10.Quat.dot4; ring
/-- the norm is multiplicative -/
theorem Quat_normSq_mul {α : Type} [CommRing α] (a b : Quat α) :
    normSq (Gen.C10.Quat.mul a b) = normSq a * normSq b := by
  simp only [Gen.C10.Quat.mul, normSq]; ring

/-! ## rotating a vector: `rotateVector`, `v * q`, `v * toMatrix33 q`, `v * toMatrix44 q` agree for unit q -/

/-- `rotateVector` is `q (0,v) ~q`, written out (no unit hypothesis needed for this form) -/
theorem Quat_rotateVector_def {α : Type} [CommRing α] (q : Quat α) (v : V3 α) :
    Gen.C10.Quat.rotateVector q v =
      (Gen.C10.Quat.mul (Gen.C10.Quat.mul q ⟨0, v⟩) (Gen.C10.Quat.conj q)).v := by
  simp only [Gen.C10.Quat.rotateVector, Gen.C10.Quat.mul, Gen.C10.Quat.conj]
  congr 1 <;> ring

/-- for unit q: `q.rotateVector v = v * q` -/
theorem Quat_rotateVector_eq_mulQuat {α : Type} [CommRing α] (q : Quat α) (v : V3 α) (hq : UnitQ q) :
    Gen.C10.Quat.rotateVector q v = Gen.C10.V3.mulQuat v q := by
  simp only [UnitQ, normSq] at hq
  simp only [Gen.C10.Quat.rotateVector, Gen.C10.V3.mulQuat]
  congr 1
  · linear_combination (v.x) * hq
  · linear_combination (v.y) * hq
  · linear_combination (v.z) * hq

/-- `v * q = v * q.toMatrix33 ()` for EVERY q (the matrix is exactly the operator's expansion) -/
theorem V3_mulQuat_eq_mulM33 {α : Type} [CommRing α] (q : Quat α) (v : V3 α) :
    Gen.C10.V3.mulQuat v q = Gen.C10.V3.mulM33 v (Gen.C10.Quat.toMatrix33 q) := by
  simp only [Gen.C10.V3.mulQuat, Gen.C10.V3.mulM33, Gen.C10.Quat.toMatrix33]
  congr 1 <;> ring

/-- for unit q: `q.rotateVector v = v * q.toMatrix33 ()` (the code's row-vector × matrix operator) -/
theorem Quat_rotateVector_eq_mulM33 {α : Type} [CommRing α] (q : Quat α) (v : V3 α) (hq : UnitQ q) :
    Gen.C10.Quat.rotateVector q v = Gen.C10.V3.mulM33 v (Gen.C10.Quat.toMatrix33 q) := by
  rw [Quat_rotateVector_eq_mulQuat q v hq, V3_mulQuat_eq_mulM33]

/-- the code's `Vec3 * Matrix33` is Mathlib's row-vector × matrix (as in C05) -/
theorem V3_mulM33 {α : Type} [CommRing α] (v : V3 α) (m : M33 α) :
    (Gen.C10.V3.mulM33 v m).toVec = v.toVec ᵥ* m.toMat := by
  ext i; fin_cases i <;> simp [Gen.C10.V3.mulM33, V3.toVec, M33.toMat, Matrix.vecMul, dotProduct, Fin.sum_univ_three]

/-- Mathlib form: `(rotateVector q v) = v ᵥ* (toMatrix33 q)` for unit q -/
theorem Quat_rotateVector_vecMul {α : Type} [CommRing α] (q : Quat α) (v : V3 α) (hq : UnitQ q) :
    (Gen.C10.Quat.rotateVector q v).toVec = v.toVec ᵥ* (Gen.C10.Quat.toMatrix33 q).toMat := by
  rw [Quat_rotateVector_eq_mulM33 q v hq, V3_mulM33]

/-- `toMatrix44 q` is `toMatrix33 q` in the upper-left block, identity last row / column -/
theorem Quat_toMatrix44_block {α : Type} [CommRing α] (q : Quat α) :
    Gen.C10.Quat.toMatrix44 q =
      (let m := Gen.C10.Quat.toMatrix33 q
       ⟨m.x00, m.x01, m.x02, 0, m.x10, m.x11, m.x12, 0, m.x20, m.x21, m.x22, 0, 0, 0, 0, 1⟩) := by
  rfl

/-- `v * q.toMatrix44 ()` (homogeneous divide by w = 1) agrees with `v * q.toMatrix33 ()` over a field, every q -/
theorem V3_mulM44_toMatrix44 {α : Type} [Field α] (q : Quat α) (v : V3 α) :
    Gen.C10.V3.mulM44 v (Gen.C10.Quat.toMatrix44 q) = Gen.C10.V3.mulM33 v (Gen.C10.Quat.toMatrix33 q) := by
  simp only [Gen.C10.V3.mulM44, Gen.C10.V3.mulM33, Gen.C10.Quat.toMatrix44, Gen.C10.Quat.toMatrix33]
  congr 1 <;> (simp only [mul_zero, add_zero, zero_add]; rw [div_one])

/-- `toMatrix44 q . multDirMatrix v` agrees as well -/
theorem M44_multDirMatrix_toMatrix44 {α : Type} [CommRing α] (q : Quat α) (v : V3 α) :
    Gen.C10.M44.multDirMatrix (Gen.C10.Quat.toMatrix44 q) v = Gen.C10.V3.mulM33 v (Gen.C10.Quat.toMatrix33 q) := by
  simp only [Gen.C10.M44.multDirMatrix, Gen.C10.V3.mulM33, Gen.C10.Quat.toMatrix44, Gen.C10.Quat.toMatrix33]

/-- for unit q all four ways of rotating a vector agree -/
theorem Quat_rotate_all_agree {α : Type} [Field α] (q : Quat α) (v : V3 α) (hq : UnitQ q) :
    Gen.C10.Quat.rotateVector q v = Gen.C10.V3.mulQuat v q ∧
    Gen.C10.Quat.rotateVector q v = Gen.C10.V3.mulM33 v (Gen.C10.Quat.toMatrix33 q) ∧
    Gen.C10.Quat.rotateVector q v = Gen.C10.V3.mulM44 v (Gen.C10.Quat.toMatrix44 q) ∧
    Gen.C10.Quat.rotateVector q v = Gen.C10.M44.multDirMatrix (Gen.C10.Quat.toMatrix44 q) v := by
  refine ⟨Quat_rotateVector_eq_mulQuat q v hq, Quat_rotateVector_eq_mulM33 q v hq, ?_, ?_⟩
  · rw [V3_mulM44_toMatrix44]; exact Quat_rotateVector_eq_mulM33 q v hq
  · rw [M44_multDirMatrix_toMatrix44]; exact Quat_rotateVector_eq_mulM33 q v hq

/-- non-vacuity: a unit quaternion with all components non-zero (1/2, 1/2, 1/2, 1/2) and one with w = 0 -/
example : UnitQ (⟨1/2, ⟨1/2, 1/2, 1/2⟩⟩ : Quat ℚ) ∧ UnitQ (⟨0, ⟨3/5, 0, -4/5⟩⟩ : Quat ℚ) := by
  constructor <;> norm_num [UnitQ, normSq]

/-! ## quaternion product ↔ matrix product

With Imath's row-vector convention (`v * M`) the matrix of a product is the product of the matrices in the
OPPOSITE order: `(q1 * q2).toMatrix33 () = q2.toMatrix33 () * q1.toMatrix33 ()` (so that
`v * (q1*q2).toMatrix33() = (v * q2.toMatrix33()) * q1.toMatrix33()`, i.e. q2 acts first, as in
`(q1 q2) v ~(q1 q2) = q1 (q2 v ~q2) ~q1`). -/

theorem Quat_toMatrix33_mul {α : Type} [CommRing α] (q1 q2 : Quat α) (h1 : UnitQ q1) (h2 : UnitQ q2) :
    Gen.C10.Quat.toMatrix33 (Gen.C10.Quat.mul q1 q2) =
      Gen.C10.M33.mul (Gen.C10.Quat.toMatrix33 q2) (Gen.C10.Quat.toMatrix33 q1) := by
  simp only [UnitQ] at h1 h2
  have e : ∀ (d : α) (a1 a2 : α), (a2 - normSq q2 * d) * (normSq q1 - 1) + (a1 + (normSq q1 - 2) * d) * (normSq q2 - 1) = 0 := by
    intro d a1 a2; rw [h1, h2]; ring
  simp only [normSq] at e
  simp only [Gen.C10.Quat.toMatrix33, Gen.C10.Quat.mul, Gen.C10.M33.mul]
  congr 1
  · linear_combination e 1 (1 - 2 * (q1.v.y * q1.v.y + q1.v.z * q1.v.z)) (1 - 2 * (q2.v.y * q2.v.y + q2.v.z * q2.v.z))
  · linear_combination e 0 (2 * (q1.v.x * q1.v.y + q1.v.z * q1.r)) (2 * (q2.v.x * q2.v.y + q2.v.z * q2.r))
  · linear_combination e 0 (2 * (q1.v.z * q1.v.x - q1.v.y * q1.r)) (2 * (q2.v.z * q2.v.x - q2.v.y * q2.r))
  · linear_combination e 0 (2 * (q1.v.x * q1.v.y - q1.v.z * q1.r)) (2 * (q2.v.x * q2.v.y - q2.v.z * q2.r))
  · linear_combination e 1 (1 - 2 * (q1.v.z * q1.v.z + q1.v.x * q1.v.x)) (1 - 2 * (q2.v.z * q2.v.z + q2.v.x * q2.v.x))
  · linear_combination e 0 (2 * (q1.v.y * q1.v.z + q1.v.x * q1.r)) (2 * (q2.v.y * q2.v.z + q2.v.x * q2.r))
  · linear_combination e 0 (2 * (q1.v.z * q1.v.x + q1.v.y * q1.r)) (2 * (q2.v.z * q2.v.x + q2.v.y * q2.r))
  · linear_combination e 0 (2 * (q1.v.y * q1.v.z - q1.v.x * q1.r)) (2 * (q2.v.y * q2.v.z - q2.v.x * q2.r))
  · linear_combination e 1 (1 - 2 * (q1.v.y * q1.v.y + q1.v.x * q1.v.x)) (1 - 2 * (q2.v.y * q2.v.y + q2.v.x * q2.v.x))

/-- the code's Matrix33 product is Mathlib's (as in C05) -/
theorem M33_mul {α : Type} [CommRing α] (a b : M33 α) : (Gen.C10.M33.mul a b).toMat = a.toMat * b.toMat := by
  ext i j; fin_cases i <;> fin_cases j <;> simp [Gen.C10.M33.mul, M33.toMat, Matrix.mul_apply, Fin.sum_univ_three]
theorem M44_mul {α : Type} [CommRing α] (a b : M44 α) : (Gen.C10.M44.mul a b).toMat = a.toMat * b.toMat := by
  ext i j; fin_cases i <;> fin_cases j <;> simp [Gen.C10.M44.mul, M44.toMat, Matrix.mul_apply, Fin.sum_univ_four] <;> try ring

/-- `Matrix33 * Quat` and `Quat * Matrix33` (ImathQuat.h free operators) multiply by `q.toMatrix33 ()` -/
theorem M33_mulQuat {α : Type} [CommRing α] (m : M33 α) (q : Quat α) :
    Gen.C10.M33.mulQuat m q = Gen.C10.M33.mul m (Gen.C10.Quat.toMatrix33 q) := by
  simp only [Gen.C10.M33.mulQuat, Gen.C10.M33.mul, Gen.C10.Quat.toMatrix33]
theorem Quat_mulM33 {α : Type} [CommRing α] (q : Quat α) (m : M33 α) :
    Gen.C10.Quat.mulM33 q m = Gen.C10.M33.mul (Gen.C10.Quat.toMatrix33 q) m := by
  simp only [Gen.C10.Quat.mulM33, Gen.C10.M33.mul, Gen.C10.Quat.toMatrix33]

/-- Mathlib form of the product rule -/
theorem Quat_toMatrix33_mul_toMat {α : Type} [CommRing α] (q1 q2 : Quat α) (h1 : UnitQ q1) (h2 : UnitQ q2) :
    (Gen.C10.Quat.toMatrix33 (Gen.C10.Quat.mul q1 q2)).toMat =
      (Gen.C10.Quat.toMatrix33 q2).toMat * (Gen.C10.Quat.toMatrix33 q1).toMat := by
  rw [Quat_toMatrix33_mul q1 q2 h1 h2, M33_mul]

/-- the same for toMatrix44 -/
theorem Quat_toMatrix44_mul {α : Type} [CommRing α] (q1 q2 : Quat α) (h1 : UnitQ q1) (h2 : UnitQ q2) :
    Gen.C10.Quat.toMatrix44 (Gen.C10.Quat.mul q1 q2) =
      Gen.C10.M44.mul (Gen.C10.Quat.toMatrix44 q2) (Gen.C10.Quat.toMatrix44 q1) := by
  have h := Quat_toMatrix33_mul q1 q2 h1 h2
  rw [Quat_toMatrix44_block, Quat_toMatrix44_block q1, Quat_toMatrix44_block q2, h]
  simp only [Gen.C10.M44.mul, Gen.C10.M33.mul]
  congr 1 <;> ring

/-- the ORDER matters: the other order is false in general (witness: 90° rotations about x and about y) -/
theorem Quat_toMatrix33_mul_other_order_false :
    ∃ q1 q2 : Quat ℚ, UnitQ q1 ∧ UnitQ q2 ∧
      Gen.C10.Quat.toMatrix33 (Gen.C10.Quat.mul q1 q2) ≠
        Gen.C10.M33.mul (Gen.C10.Quat.toMatrix33 q1) (Gen.C10.Quat.toMatrix33 q2) := by
  refine ⟨⟨3/5, ⟨4/5, 0, 0⟩⟩, ⟨3/5, ⟨0, 4/5, 0⟩⟩, by norm_num [UnitQ, normSq], by norm_num [UnitQ, normSq], ?_⟩
  simp only [Gen.C10.Quat.toMatrix33, Gen.C10.Quat.mul, Gen.C10.M33.mul]
  intro h
  have := congrArg M33.x01 h
  norm_num at this

/-- the product of unit quaternions is a unit quaternion -/
theorem Quat_mul_unit {α : Type} [CommRing α] (q1 q2 : Quat α) (h1 : UnitQ q1) (h2 : UnitQ q2) :
    UnitQ (Gen.C10.Quat.mul q1 q2) := by
  simp only [UnitQ] at *; rw [Quat_normSq_mul, h1, h2, mul_one]

/-- rotating by a product = rotating by the right factor first (every q1, q2) -/
theorem Quat_rotateVector_mul {α : Type} [CommRing α] (q1 q2 : Quat α) (v : V3 α) :
    Gen.C10.Quat.rotateVector (Gen.C10.Quat.mul q1 q2) v =
      Gen.C10.Quat.rotateVector q1 (Gen.C10.Quat.rotateVector q2 v) := by
  simp only [Gen.C10.Quat.rotateVector, Gen.C10.Quat.mul]
  congr 1 <;> ring

/-! ## inverse, invert, division -/

/-- `inverse q = ~q / (q ^ q)` -/
theorem Quat_inverse {α : Type} [Field α] (q : Quat α) :
    Gen.C10.Quat.inverse q = ⟨q.r / normSq q, ⟨-q.v.x / normSq q, -q.v.y / normSq q, -q.v.z / normSq q⟩⟩ := rfl
theorem Quat_invert {α : Type} [Field α] (q : Quat α) : Gen.C10.Quat.invert q = Gen.C10.Quat.inverse q := by
  simp only [Gen.C10.Quat.invert, Gen.C10.Quat.inverse]
theorem Quat_invertRet {α : Type} [Field α] (q : Quat α) : Gen.C10.Quat.invertRet q = Gen.C10.Quat.inverse q := by
  simp only [Gen.C10.Quat.invertRet, Gen.C10.Quat.inverse]

/-- `q * q.inverse () = identity = q.inverse () * q` whenever `q ^ q ≠ 0` -/
theorem Quat_mul_inverse {α : Type} [Field α] (q : Quat α) (hq : normSq q ≠ 0) :
    Gen.C10.Quat.mul q (Gen.C10.Quat.inverse q) = ⟨1, ⟨0, 0, 0⟩⟩ ∧
    Gen.C10.Quat.mul (Gen.C10.Quat.inverse q) q = ⟨1, ⟨0, 0, 0⟩⟩ := by
  simp only [normSq] at hq
  simp only [Gen.C10.Quat.mul, Gen.C10.Quat.inverse]
  generalize hn : q.r * q.r + (q.v.x * q.v.x + q.v.y * q.v.y + q.v.z * q.v.z) = n at hq ⊢
  constructor <;> (congr 1; · (field_simp; linear_combination hn)
                   congr 1 <;> (field_simp; ring))

/-- in an ordered field `q ^ q ≠ 0` is the same as `q ≠ 0` -/
theorem normSq_ne_zero_iff {α : Type} [Field α] [LinearOrder α] [IsStrictOrderedRing α] (q : Quat α) :
    normSq q ≠ 0 ↔ q ≠ ⟨0, ⟨0, 0, 0⟩⟩ := by
  rw [not_iff_not]
  constructor
  · intro h
    simp only [normSq] at h
    have h0 := mul_self_nonneg q.r; have h1 := mul_self_nonneg q.v.x
    have h2 := mul_self_nonneg q.v.y; have h3 := mul_self_nonneg q.v.z
    apply Quat.ext' <;> (apply mul_self_eq_zero.mp; linarith)
  · intro h; rw [h]; simp [normSq]

/-- `q * q.inverse () = identity` for every q ≠ 0 (ordered field, e.g. ℚ, ℝ) -/
theorem Quat_mul_inverse_of_ne_zero {α : Type} [Field α] [LinearOrder α] [IsStrictOrderedRing α] (q : Quat α)
    (hq : q ≠ ⟨0, ⟨0, 0, 0⟩⟩) :
    Gen.C10.Quat.mul q (Gen.C10.Quat.inverse q) = ⟨1, ⟨0, 0, 0⟩⟩ ∧
    Gen.C10.Quat.mul (Gen.C10.Quat.inverse q) q = ⟨1, ⟨0, 0, 0⟩⟩ :=
  Quat_mul_inverse q ((normSq_ne_zero_iff q).mpr hq)
example : (⟨2, ⟨-1, 0, 3⟩⟩ : Quat ℚ) ≠ ⟨0, ⟨0, 0, 0⟩⟩ := by decide

/-- for a unit quaternion the inverse is the conjugate -/
theorem Quat_inverse_unit {α : Type} [Field α] (q : Quat α) (hq : UnitQ q) :
    Gen.C10.Quat.inverse q = Gen.C10.Quat.conj q := by
  rw [Quat_inverse]; simp only [UnitQ] at hq; rw [hq]; simp [Gen.C10.Quat.conj]

/-- `q1 / q2 = q1 * q2.inverse ()`, both spellings -/
theorem Quat_div {α : Type} [Field α] (a b : Quat α) :
    Gen.C10.Quat.div a b = Gen.C10.Quat.mul a (Gen.C10.Quat.inverse b) := by
  simp only [Gen.C10.Quat.div, Gen.C10.Quat.mul, Gen.C10.Quat.inverse]
theorem Quat_divAssign {α : Type} [Field α] (a b : Quat α) : Gen.C10.Quat.divAssign a b = Gen.C10.Quat.div a b := by
  simp only [Gen.C10.Quat.divAssign, Gen.C10.Quat.div]

/-! ## length, normalize -/

theorem Quat_length {α : Type} [Field α] (sqrt : α → α) (q : Quat α) :
    Gen.C10.Quat.length sqrt q = sqrt (normSq q) := rfl
theorem Quat_normalized {α : Type} [Field α] [DecidableEq α] (sqrt : α → α) (q : Quat α) :
    Gen.C10.Quat.normalized sqrt q = Gen.C10.Quat.normalize sqrt q := by
  simp only [Gen.C10.Quat.normalized, Gen.C10.Quat.normalize]

/-- `normalize` gives a unit quaternion (every component divided by the length) for q ≠ 0 … -/
theorem Quat_normalize_unit {α : Type} [Field α] [LinearOrder α] [IsStrictOrderedRing α] (sqrt : α → α)
    (hsqrt : SqrtSpec sqrt) (q : Quat α) (hq : q ≠ ⟨0, ⟨0, 0, 0⟩⟩) :
    Gen.C10.Quat.normalize sqrt q =
        ⟨q.r / sqrt (normSq q), ⟨q.v.x / sqrt (normSq q), q.v.y / sqrt (normSq q), q.v.z / sqrt (normSq q)⟩⟩ ∧
      UnitQ (Gen.C10.Quat.normalize sqrt q) := by
  have hn : normSq q ≠ 0 := (normSq_ne_zero_iff q).mpr hq
  have hn0 : 0 ≤ normSq q := normSq_nonneg q
  obtain ⟨hs, hs0⟩ := hsqrt _ hn0
  have hl : sqrt (normSq q) ≠ 0 := by
    intro h; rw [h] at hs; exact hn (by linarith)
  have e : Gen.C10.Quat.normalize sqrt q =
      ⟨q.r / sqrt (normSq q), ⟨q.v.x / sqrt (normSq q), q.v.y / sqrt (normSq q), q.v.z / sqrt (normSq q)⟩⟩ := by
    simp only [Gen.C10.Quat.normalize]
    rw [if_neg (by simpa [normSq] using hl)]
    first
      | rfl
      | (simp only [normSq] at hl ⊢; congr 1; · field_simp
         congr 1 <;> field_simp)
  refine ⟨e, ?_⟩
  rw [e]
  generalize sqrt (normSq q) = l at hs hl
  simp only [UnitQ, normSq] at hs ⊢
  field_simp
  linear_combination -hs

/-- … and the identity quaternion for q = 0 -/
theorem Quat_normalize_zero {α : Type} [Field α] [LinearOrder α] [IsStrictOrderedRing α] (sqrt : α → α)
    (hsqrt : SqrtSpec sqrt) :
    Gen.C10.Quat.normalize sqrt ⟨0, ⟨0, 0, 0⟩⟩ = ⟨1, ⟨0, 0, 0⟩⟩ := by
  have h0 : sqrt 0 = 0 := C08.sqrt_zero hsqrt
  simp only [Gen.C10.Quat.normalize]
  rw [if_pos (by simpa using h0)]

/-- a unit quaternion is a fixed point of normalize -/
theorem Quat_normalize_of_unit {α : Type} [Field α] [LinearOrder α] [IsStrictOrderedRing α] (sqrt : α → α)
    (hsqrt : SqrtSpec sqrt) (q : Quat α) (hq : UnitQ q) : Gen.C10.Quat.normalize sqrt q = q := by
  have h1 : sqrt 1 = 1 := C08.sqrt_unique hsqrt zero_le_one (one_mul 1)
  have hne : q ≠ ⟨0, ⟨0, 0, 0⟩⟩ := by
    intro h; rw [h] at hq; simp [UnitQ, normSq] at hq
  rw [(Quat_normalize_unit sqrt hsqrt q hne).1]
  simp only [UnitQ] at hq
  rw [hq, h1]; simp

/-- the real square root satisfies the specification -/
example : SqrtSpec Real.sqrt := fun x hx => ⟨Real.mul_self_sqrt hx, Real.sqrt_nonneg x⟩

/-! ## `toMatrix33 q` is orthonormal with determinant +1 for unit q -/

theorem Quat_toMatrix33_orthonormal {α : Type} [CommRing α] (q : Quat α) (hq : UnitQ q) :
    Gen.C10.M33.mul (Gen.C10.Quat.toMatrix33 q) (Gen.C10.M33.transposed (Gen.C10.Quat.toMatrix33 q)) =
      ⟨1, 0, 0, 0, 1, 0, 0, 0, 1⟩ := by
  simp only [UnitQ, normSq] at hq
  simp only [Gen.C10.Quat.toMatrix33, Gen.C10.M33.mul, Gen.C10.M33.transposed]
  congr 1
  · linear_combination (2 - 2 * (1 - 2 * (q.v.y * q.v.y + q.v.z * q.v.z))) * hq
  · linear_combination (- (2 * (q.v.x * q.v.y + q.v.z * q.r)) - (2 * (q.v.x * q.v.y - q.v.z * q.r))) * hq
  · linear_combination (- (2 * (q.v.z * q.v.x - q.v.y * q.r)) - (2 * (q.v.z * q.v.x + q.v.y * q.r))) * hq
  · linear_combination (- (2 * (q.v.x * q.v.y + q.v.z * q.r)) - (2 * (q.v.x * q.v.y - q.v.z * q.r))) * hq
  · linear_combination (2 - 2 * (1 - 2 * (q.v.z * q.v.z + q.v.x * q.v.x))) * hq
  · linear_combination (- (2 * (q.v.y * q.v.z + q.v.x * q.r)) - (2 * (q.v.y * q.v.z - q.v.x * q.r))) * hq
  · linear_combination (- (2 * (q.v.z * q.v.x - q.v.y * q.r)) - (2 * (q.v.z * q.v.x + q.v.y * q.r))) * hq
  · linear_combination (- (2 * (q.v.y * q.v.z + q.v.x * q.r)) - (2 * (q.v.y * q.v.z - q.v.x * q.r))) * hq
  · linear_combination (2 - 2 * (1 - 2 * (q.v.y * q.v.y + q.v.x * q.v.x))) * hq

theorem Quat_toMatrix33_det {α : Type} [CommRing α] (q : Quat α) (hq : UnitQ q) :
    Gen.C10.M33.determinant (Gen.C10.Quat.toMatrix33 q) = 1 := by
  simp only [UnitQ, normSq] at hq
  simp only [Gen.C10.Quat.toMatrix33, Gen.C10.M33.determinant]
  linear_combination (4 * (q.v.x * q.v.x + q.v.y * q.v.y + q.v.z * q.v.z)) * hq

theorem M33_transposed {α : Type} (a : M33 α) : (Gen.C10.M33.transposed a).toMat = a.toMatᵀ := by
  ext i j; fin_cases i <;> fin_cases j <;> rfl
theorem M33_determinant {α : Type} [CommRing α] (a : M33 α) : Gen.C10.M33.determinant a = a.toMat.det := by
  simp [Gen.C10.M33.determinant, M33.toMat, Matrix.det_fin_three] <;> try ring

/-- Mathlib form: `M Mᵀ = 1`, `Mᵀ M = 1`, `det M = 1` -/
theorem Quat_toMatrix33_rotation {α : Type} [CommRing α] (q : Quat α) (hq : UnitQ q) :
    (Gen.C10.Quat.toMatrix33 q).toMat * (Gen.C10.Quat.toMatrix33 q).toMatᵀ = 1 ∧
    (Gen.C10.Quat.toMatrix33 q).toMatᵀ * (Gen.C10.Quat.toMatrix33 q).toMat = 1 ∧
    (Gen.C10.Quat.toMatrix33 q).toMat.det = 1 := by
  have h := congrArg M33.toMat (Quat_toMatrix33_orthonormal q hq)
  rw [M33_mul, M33_transposed] at h
  have h1 : (Gen.C10.Quat.toMatrix33 q).toMat * (Gen.C10.Quat.toMatrix33 q).toMatᵀ = 1 := by
    rw [h]; ext i j; fin_cases i <;> fin_cases j <;> simp [M33.toMat]
  refine ⟨h1, ?_, ?_⟩
  · exact mul_eq_one_comm.mp h1
  · rw [← M33_determinant]; exact Quat_toMatrix33_det q hq

/-! ## `extractQuat (q.toMatrix44 ()) = q` or `= -q`, on all four branches (9 paths) -/

-- split the outermost `if` of hypothesis `he` (plain `split_ifs` introduces the condition but does not
-- reduce the `ite` on these generated terms; `simp only [hc, ↓reduceIte]` does); the condition is named `hc`
set_option hygiene false in
macro "isplit" : tactic =>
  `(tactic| (split_ifs at he with hc <;> simp only [hc, ↓reduceIte] at he))
-- finish a leaf of extractQuat once the square root has been rewritten to ±2w
set_option hygiene false in
macro "eq_fin" : tactic =>
  `(tactic| (rw [he]; congr 1; · (field_simp; try ring)
             congr 1 <;> (field_simp; try ring)))

/-- trace > 0: `s = sqrt (4 r²) = 2|r|`, result `sign(r) q`; otherwise the largest diagonal entry selects the
component `w ∈ {x, y, z}` of largest modulus, which is non-zero because the trace is ≤ 0, `s = 2|w|`, result `sign(w) q`;
the `s == 0` guards are unreachable for a unit quaternion. -/
theorem extractQuat_toMatrix44 {α : Type} [Field α] [LinearOrder α] [IsStrictOrderedRing α] (sqrt : α → α)
    (hsqrt : SqrtSpec sqrt) (q : Quat α) (hq : UnitQ q) :
    Gen.C10.extractQuat sqrt (Gen.C10.Quat.toMatrix44 q) = q ∨
    Gen.C10.extractQuat sqrt (Gen.C10.Quat.toMatrix44 q) = Gen.C10.Quat.neg q := by
  obtain ⟨r, ⟨x, y, z⟩⟩ := q
  simp only [UnitQ, normSq] at hq
  suffices h : ∀ e, e = Gen.C10.extractQuat sqrt (Gen.C10.Quat.toMatrix44 ⟨r, ⟨x, y, z⟩⟩) →
      (e = ⟨r, ⟨x, y, z⟩⟩ ∨ e = Gen.C10.Quat.neg ⟨r, ⟨x, y, z⟩⟩) from h _ rfl
  intro e he
  simp only [Gen.C10.extractQuat, Gen.C10.Quat.toMatrix44] at he
  simp only [Gen.C10.Quat.neg]
  have hr2 := mul_self_nonneg r; have hx2 := mul_self_nonneg x; have hy2 := mul_self_nonneg y; have hz2 := mul_self_nonneg z
  isplit
  · -- trace > 0: s = sqrt (4 r²)
    have hw : r ≠ 0 := by
      intro h; subst h; linarith
    rcases lt_or_gt_of_ne hw with hp | hp
    · right; rw [sqrt_four_sq_neg hsqrt hp _ (by linear_combination (-4:α) * hq)] at he; eq_fin
    · left; rw [sqrt_four_sq_pos hsqrt hp _ (by linear_combination (-4:α) * hq)] at he; eq_fin
  · isplit
    · isplit
      · -- largest diagonal entry is [2][2]
        have hw : z ≠ 0 := by intro h; subst h; linarith
        isplit
        · exact (eq_leaf_zero hsqrt hc (by ring) hw).elim
        · rcases eq_leaf_nz hsqrt hc (by ring) hw with ⟨hp, hs⟩ | ⟨hp, hs⟩
          · left; rw [hs] at he; eq_fin
          · right; rw [hs] at he; eq_fin
      · have hw : y ≠ 0 := by intro h; subst h; linarith
        isplit
        · exact (eq_leaf_zero hsqrt hc (by ring) hw).elim
        · rcases eq_leaf_nz hsqrt hc (by ring) hw with ⟨hp, hs⟩ | ⟨hp, hs⟩
          · left; rw [hs] at he; eq_fin
          · right; rw [hs] at he; eq_fin
    · isplit
      · have hw : z ≠ 0 := by intro h; subst h; linarith
        isplit
        · exact (eq_leaf_zero hsqrt hc (by ring) hw).elim
        · rcases eq_leaf_nz hsqrt hc (by ring) hw with ⟨hp, hs⟩ | ⟨hp, hs⟩
          · left; rw [hs] at he; eq_fin
          · right; rw [hs] at he; eq_fin
      · have hw : x ≠ 0 := by intro h; subst h; linarith
        isplit
        · exact (eq_leaf_zero hsqrt hc (by ring) hw).elim
        · rcases eq_leaf_nz hsqrt hc (by ring) hw with ⟨hp, hs⟩ | ⟨hp, hs⟩
          · left; rw [hs] at he; eq_fin
          · right; rw [hs] at he; eq_fin

/-- both signs occur: `q` with r > 0 is returned as is, `-q` comes back as `q` -/
example : UnitQ (⟨-3/5, ⟨0, 4/5, 0⟩⟩ : Quat ℚ) := by norm_num [UnitQ, normSq]

/-! ## `Quat::setAxisAngle` and `Matrix44::setAxisAngle` describe the same rotation

`sin`, `cos` are parameters of the generated definitions; the only facts used are the half-angle identities at
the given angle (satisfied by `Real.sin`, `Real.cos`: example below).  For a ZERO axis both functions return
non-rotations (`Vec3::normalized` yields 0): excluded by `axis ≠ 0`. -/

theorem setAxisAngle_consistent {α : Type} [Field α] [LinearOrder α] [IsStrictOrderedRing α] (tmin tmax : α) (sqrt : α → α)
    (hsqrt : SqrtSpec sqrt) (sin cos : α → α) (q0 : Quat α) (m0 : M44 α) (axis : V3 α) (a : α)
    (hax : axis ≠ ⟨0, 0, 0⟩)
    (hs : sin a = 2 * sin (a / 2) * cos (a / 2))
    (hc : cos a = cos (a / 2) * cos (a / 2) - sin (a / 2) * sin (a / 2))
    (h1 : sin (a / 2) * sin (a / 2) + cos (a / 2) * cos (a / 2) = 1) :
    Gen.C10.Quat.toMatrix44 (Gen.C10.Quat.setAxisAngle tmin tmax sqrt sin cos q0 axis a) =
      Gen.C10.M44.setAxisAngle tmin tmax sqrt sin cos m0 axis a := by
  obtain ⟨hl, hll⟩ := sqrt_len2 hsqrt axis hax
  simp only [Gen.C10.Quat.setAxisAngle, Gen.C10.M44.setAxisAngle, C08.V3_length_eq tmin tmax hsqrt]
  simp only [hl, ↓reduceIte, Gen.C10.Quat.toMatrix44]
  rw [hs, hc]
  generalize sqrt (axis.x * axis.x + axis.y * axis.y + axis.z * axis.z) = l at hl hll
  have hu : axis.x / l * (axis.x / l) + axis.y / l * (axis.y / l) + axis.z / l * (axis.z / l) = 1 := by
    field_simp; linear_combination -hll
  generalize axis.x / l = ux at hu ⊢
  generalize axis.y / l = uy at hu ⊢
  generalize axis.z / l = uz at hu ⊢
  generalize sin (a / 2) = s at h1 ⊢
  generalize cos (a / 2) = c at h1 ⊢
  congr 1
  · linear_combination (-2 * s * s) * hu + (ux * ux - 1) * h1
  · linear_combination (ux * uy) * h1
  · linear_combination (ux * uz) * h1
  · linear_combination (ux * uy) * h1
  · linear_combination (-2 * s * s) * hu + (uy * uy - 1) * h1
  · linear_combination (uy * uz) * h1
  · linear_combination (ux * uz) * h1
  · linear_combination (uy * uz) * h1
  · linear_combination (-2 * s * s) * hu + (uz * uz - 1) * h1

/-- the real sine and cosine satisfy the three hypotheses at every angle -/
theorem real_half_angle (a : ℝ) :
    Real.sin a = 2 * Real.sin (a / 2) * Real.cos (a / 2) ∧
    Real.cos a = Real.cos (a / 2) * Real.cos (a / 2) - Real.sin (a / 2) * Real.sin (a / 2) ∧
    Real.sin (a / 2) * Real.sin (a / 2) + Real.cos (a / 2) * Real.cos (a / 2) = 1 := by
  have h : a = 2 * (a / 2) := by ring
  have h1 := Real.sin_sq_add_cos_sq (a / 2)
  refine ⟨?_, ?_, by linear_combination h1⟩
  · conv_lhs => rw [h]
    exact Real.sin_two_mul _
  · conv_lhs => rw [h, Real.cos_two_mul]
    linear_combination h1

theorem real_sqrt_spec : SqrtSpec Real.sqrt := fun x hx => ⟨Real.mul_self_sqrt hx, Real.sqrt_nonneg x⟩

/-- over ℝ with the real functions: no hypotheses beyond a non-zero axis -/
theorem setAxisAngle_consistent_real (tmin tmax : ℝ) (q0 : Quat ℝ) (m0 : M44 ℝ) (axis : V3 ℝ) (a : ℝ) (hax : axis ≠ ⟨0, 0, 0⟩) :
    Gen.C10.Quat.toMatrix44 (Gen.C10.Quat.setAxisAngle tmin tmax Real.sqrt Real.sin Real.cos q0 axis a) =
      Gen.C10.M44.setAxisAngle tmin tmax Real.sqrt Real.sin Real.cos m0 axis a :=
  setAxisAngle_consistent tmin tmax Real.sqrt real_sqrt_spec Real.sin Real.cos q0 m0 axis a hax
    (real_half_angle a).1 (real_half_angle a).2.1 (real_half_angle a).2.2
example : (⟨1, 2, -2⟩ : V3 ℝ) ≠ ⟨0, 0, 0⟩ := by intro h; have := congrArg V3.x h; norm_num at this

/-- `setAxisAngle` gives a unit quaternion for a non-zero axis -/
theorem Quat_setAxisAngle_unit {α : Type} [Field α] [LinearOrder α] [IsStrictOrderedRing α] (tmin tmax : α) (sqrt : α → α)
    (hsqrt : SqrtSpec sqrt) (sin cos : α → α) (q0 : Quat α) (axis : V3 α) (a : α) (hax : axis ≠ ⟨0, 0, 0⟩)
    (h1 : sin (a / 2) * sin (a / 2) + cos (a / 2) * cos (a / 2) = 1) :
    UnitQ (Gen.C10.Quat.setAxisAngle tmin tmax sqrt sin cos q0 axis a) := by
  obtain ⟨hl, hll⟩ := sqrt_len2 hsqrt axis hax
  simp only [Gen.C10.Quat.setAxisAngle, C08.V3_length_eq tmin tmax hsqrt]
  simp only [hl, ↓reduceIte, UnitQ, normSq]
  generalize sqrt (axis.x * axis.x + axis.y * axis.y + axis.z * axis.z) = l at hl hll
  field_simp
  linear_combination (l * l) * h1 - (sin (a / 2) * sin (a / 2)) * hll

/-! ## slerp, slerpShortestArc, squad, spline, intermediate

PROVED here: the structure of `slerp` (normalised linear combination with the `sinx_over_x` weights, all 16 paths),
unit length of EVERY result of slerp / slerpShortestArc / intermediate (they end in `normalize`), the end points
`slerp (q1, q2, 0) = q1`, `slerp (q1, q2, 1) = q2`, `slerpShortestArc` = slerp towards `q2` or `-q2` according to the
sign of `q1 ^ q2`, and that squad / spline pass through their end keys.
Also PROVED (further down): the 4-D angle advances linearly in t off the tiny-angle branches (`slerp_angle_linear`), the
shortest-arc variant never exceeds 90° (`slerpShortestArc_angle_real`), `intermediate`'s structure and defining identity.
NOT proved (MEASURED by c10_residue: partial): the tiny-angle branches' accuracy, interior behaviour of squad / spline and the
continuity of the tangent across consecutive spline segments. -/

theorem slerp_eq {α : Type} [Field α] [LinearOrder α] [IsStrictOrderedRing α] (teps : α) (sqrt sin : α → α)
    (atan2 : α → α → α) (q1 q2 : Quat α) (t : α) :
    Gen.C10.Quat.slerp teps sqrt sin atan2 q1 q2 t =
      Gen.C10.Quat.normalize sqrt
        (lincomb (Gen.C10.sinx_over_x teps sin ((1 - t) * Gen.C10.Quat.angle4D sqrt atan2 q1 q2) /
                    Gen.C10.sinx_over_x teps sin (Gen.C10.Quat.angle4D sqrt atan2 q1 q2) * (1 - t)) q1
                 (Gen.C10.sinx_over_x teps sin (t * Gen.C10.Quat.angle4D sqrt atan2 q1 q2) /
                    Gen.C10.sinx_over_x teps sin (Gen.C10.Quat.angle4D sqrt atan2 q1 q2) * t) q2) := by
  simp only [Gen.C10.Quat.slerp, Gen.C10.sinx_over_x, Gen.C10.Quat.angle4D, lincomb]
  repeat' (split_ifs with hc <;> simp only [hc, ↓reduceIte])
  all_goals simp only [Gen.C10.Quat.normalize, *, ↓reduceIte]

/-! the two lemmas that unfold `sinx_over_x` live here (not in Lemmas/) so that an edit of its guard or of a branch is attributed to them -/
/-- non-tiny branch of sinx_over_x -/
theorem sinx_over_x_big {α : Type} [Field α] [LinearOrder α] [IsStrictOrderedRing α] (teps : α) (sin : α → α) (x : α)
    (h : ¬ x * x < teps) : Gen.C10.sinx_over_x teps sin x = sin x / x := by
  simp only [Gen.C10.sinx_over_x, h, ↓reduceIte]


/-- over ℝ, `sinx_over_x (angle4D q1 q2) ≠ 0` whenever `q1 ≠ -q2` (and `epsilon > 0`) -/
theorem sinx_over_x_angle4D_ne_zero (teps : ℝ) (hteps : 0 < teps) (q1 q2 : Quat ℝ) (hne : q1 ≠ Gen.C10.Quat.neg q2) :
    Gen.C10.sinx_over_x teps Real.sin (Gen.C10.Quat.angle4D Real.sqrt ratan2 q1 q2) ≠ 0 := by
  obtain ⟨h0, hpi⟩ := angle4D_real_range q1 q2 hne
  generalize Gen.C10.Quat.angle4D Real.sqrt ratan2 q1 q2 = a at h0 hpi
  simp only [Gen.C10.sinx_over_x]
  split_ifs with hc
  · exact one_ne_zero
  · have ha : a ≠ 0 := by
      intro h; rw [h] at hc; simp at hc; linarith
    have hap : 0 < a := lt_of_le_of_ne h0 (Ne.symm ha)
    exact div_ne_zero (Real.sin_pos_of_pos_of_lt_pi hap hpi).ne' ha


/-- `normalize` ALWAYS returns a unit quaternion (the identity for a zero-length input) -/
theorem Quat_normalize_always_unit {α : Type} [Field α] [LinearOrder α] [IsStrictOrderedRing α] (sqrt : α → α)
    (hsqrt : SqrtSpec sqrt) (q : Quat α) : UnitQ (Gen.C10.Quat.normalize sqrt q) := by
  simp only [Gen.C10.Quat.normalize]
  split_ifs with hc
  · exact unit_identity
  · exact unit_of_div hsqrt _ _ _ _ hc

/-- every result of slerp is a unit quaternion — because it ends in `normalized ()`, which returns the identity for a
zero-length argument.  At the input the header excludes (`q1 = -q2`: `sinx_over_x (π) = 0`, and Lean's `x / 0 = 0`) this
holds for that reason only; `slerp_span` below says what the unit result is (a point of span{q1, q2}, or the identity), and
the float behaviour at θ = π − 10⁻ᵏ and at the bitwise antipodal pair is MEASURED (c10_residue: `slerp-near-antipodal`). -/
theorem slerp_unit {α : Type} [Field α] [LinearOrder α] [IsStrictOrderedRing α] (teps : α) (sqrt sin : α → α)
    (atan2 : α → α → α) (hsqrt : SqrtSpec sqrt) (q1 q2 : Quat α) (t : α) :
    UnitQ (Gen.C10.Quat.slerp teps sqrt sin atan2 q1 q2 t) := by
  rw [slerp_eq]; exact Quat_normalize_always_unit sqrt hsqrt _

/-- **what `slerp_unit` means**: with the `sinx_over_x` weights `w1`, `w2` and `L = |w1 q1 + w2 q2|`, slerp is the point
`(w1/L) q1 + (w2/L) q2` of span{q1, q2} whenever `L ≠ 0`; when `L = 0` (e.g. `q2 = -q1`, `t = 1/2`, where the header says
the function is undefined) `normalized ()` returns the IDENTITY quaternion, which is unit but in general NOT in the span. -/
theorem slerp_span {α : Type} [Field α] [LinearOrder α] [IsStrictOrderedRing α] (teps : α) (sqrt sin : α → α)
    (atan2 : α → α → α) (q1 q2 : Quat α) (t : α) :
    let θ := Gen.C10.Quat.angle4D sqrt atan2 q1 q2
    let w1 := Gen.C10.sinx_over_x teps sin ((1 - t) * θ) / Gen.C10.sinx_over_x teps sin θ * (1 - t)
    let w2 := Gen.C10.sinx_over_x teps sin (t * θ) / Gen.C10.sinx_over_x teps sin θ * t
    let L := sqrt (normSq (lincomb w1 q1 w2 q2))
    (L ≠ 0 → Gen.C10.Quat.slerp teps sqrt sin atan2 q1 q2 t = lincomb (w1 / L) q1 (w2 / L) q2) ∧
    (L = 0 → Gen.C10.Quat.slerp teps sqrt sin atan2 q1 q2 t = ⟨1, ⟨0, 0, 0⟩⟩) := by
  intro θ w1 w2 L
  rw [slerp_eq]
  change (L ≠ 0 → Gen.C10.Quat.normalize sqrt (lincomb w1 q1 w2 q2) = _) ∧ (L = 0 → Gen.C10.Quat.normalize sqrt (lincomb w1 q1 w2 q2) = _)
  have hL : L = sqrt (normSq (lincomb w1 q1 w2 q2)) := rfl
  clear_value L w1 w2
  simp only [Gen.C10.Quat.normalize, normSq] at hL ⊢
  rw [← hL]
  constructor
  · intro h
    rw [if_neg h]
    simp only [lincomb]
    congr 1
    · field_simp
    congr 1 <;> field_simp
  · intro h; rw [if_pos h]

theorem slerpShortestArc_eq {α : Type} [Field α] [LinearOrder α] [IsStrictOrderedRing α] (teps : α) (sqrt sin : α → α)
    (atan2 : α → α → α) (q1 q2 : Quat α) (t : α) :
    Gen.C10.Quat.slerpShortestArc teps sqrt sin atan2 q1 q2 t =
      if 0 ≤ Gen.C10.Quat.dot4 q1 q2 then Gen.C10.Quat.slerp teps sqrt sin atan2 q1 q2 t
      else Gen.C10.Quat.slerp teps sqrt sin atan2 q1 (Gen.C10.Quat.neg q2) t := by
  by_cases h : 0 ≤ Gen.C10.Quat.dot4 q1 q2
  · rw [if_pos h]
    simp only [Gen.C10.Quat.dot4] at h
    simp only [Gen.C10.Quat.slerpShortestArc, Gen.C10.Quat.slerp, h, ↓reduceIte]
  · rw [if_neg h]
    simp only [Gen.C10.Quat.dot4] at h
    simp only [Gen.C10.Quat.slerpShortestArc, Gen.C10.Quat.slerp, Gen.C10.Quat.neg, h, ↓reduceIte]
    rfl


theorem slerpShortestArc_unit {α : Type} [Field α] [LinearOrder α] [IsStrictOrderedRing α] (teps : α) (sqrt sin : α → α)
    (atan2 : α → α → α) (hsqrt : SqrtSpec sqrt) (q1 q2 : Quat α) (t : α) :
    UnitQ (Gen.C10.Quat.slerpShortestArc teps sqrt sin atan2 q1 q2 t) := by
  rw [slerpShortestArc_eq]; split_ifs <;> exact slerp_unit teps sqrt sin atan2 hsqrt _ _ t

theorem intermediate_unit {α : Type} [Field α] [LinearOrder α] [IsStrictOrderedRing α] (tmin tmax : α)
    (sqrt sin cos acos : α → α) (hsqrt : SqrtSpec sqrt) (q0 q1 q2 : Quat α) :
    UnitQ (Gen.C10.Quat.intermediate tmin tmax sqrt sin cos acos q0 q1 q2) := by
  simp only [Gen.C10.Quat.intermediate]
  repeat' (apply UnitQ_ite <;> intro hc)
  all_goals first | exact unit_identity | exact unit_of_div hsqrt _ _ _ _ hc

theorem Quat_normalize_of_unit_simp {α : Type} [Field α] [LinearOrder α] [IsStrictOrderedRing α] (sqrt : α → α)
    (hsqrt : SqrtSpec sqrt) (q : Quat α) (hq : UnitQ q) : Gen.C10.Quat.normalize sqrt q = q := by
  have h1 : sqrt 1 = 1 := C08.sqrt_unique hsqrt zero_le_one (one_mul 1)
  simp only [UnitQ, normSq] at hq
  simp only [Gen.C10.Quat.normalize, hq, h1]
  simp

/-- slerp at t = 0 is q1 and at t = 1 is q2 (q1, q2 unit, `sinx_over_x (angle4D q1 q2) ≠ 0`, i.e. q1 ≠ -q2) -/
theorem slerp_endpoints {α : Type} [Field α] [LinearOrder α] [IsStrictOrderedRing α] (teps : α) (sqrt sin : α → α)
    (atan2 : α → α → α) (hsqrt : SqrtSpec sqrt) (q1 q2 : Quat α) (h1 : UnitQ q1) (h2 : UnitQ q2)
    (hsx : Gen.C10.sinx_over_x teps sin (Gen.C10.Quat.angle4D sqrt atan2 q1 q2) ≠ 0) :
    Gen.C10.Quat.slerp teps sqrt sin atan2 q1 q2 0 = q1 ∧ Gen.C10.Quat.slerp teps sqrt sin atan2 q1 q2 1 = q2 := by
  constructor
  · rw [slerp_eq]
    simp only [sub_zero, one_mul, mul_one, mul_zero, div_self hsx, lincomb_one_zero]
    exact Quat_normalize_of_unit_simp sqrt hsqrt q1 h1
  · rw [slerp_eq]
    simp only [sub_self, one_mul, mul_one, mul_zero, div_self hsx, lincomb_zero_one]
    exact Quat_normalize_of_unit_simp sqrt hsqrt q2 h2

/-- squad passes through its end keys: `squad (q1, qa, qb, q2, 0) = q1`, `squad (q1, qa, qb, q2, 1) = q2` -/
theorem squad_keys {α : Type} [Field α] [LinearOrder α] [IsStrictOrderedRing α] (teps : α) (sqrt sin : α → α)
    (atan2 : α → α → α) (hsqrt : SqrtSpec sqrt) (q1 qa qb q2 : Quat α)
    (h1 : UnitQ q1) (h2 : UnitQ q2) (ha : UnitQ qa) (hb : UnitQ qb)
    (h12 : Gen.C10.sinx_over_x teps sin (Gen.C10.Quat.angle4D sqrt atan2 q1 q2) ≠ 0)
    (hab : Gen.C10.sinx_over_x teps sin (Gen.C10.Quat.angle4D sqrt atan2 qa qb) ≠ 0)
    (h1a : Gen.C10.sinx_over_x teps sin (Gen.C10.Quat.angle4D sqrt atan2 q1 qa) ≠ 0)
    (h2b : Gen.C10.sinx_over_x teps sin (Gen.C10.Quat.angle4D sqrt atan2 q2 qb) ≠ 0) :
    Gen.C10.Quat.squad teps sqrt sin atan2 q1 qa qb q2 0 = q1 ∧
    Gen.C10.Quat.squad teps sqrt sin atan2 q1 qa qb q2 1 = q2 := by
  obtain ⟨e1, e2⟩ := slerp_endpoints teps sqrt sin atan2 hsqrt q1 q2 h1 h2 h12
  obtain ⟨e3, e4⟩ := slerp_endpoints teps sqrt sin atan2 hsqrt qa qb ha hb hab
  obtain ⟨e5, _⟩ := slerp_endpoints teps sqrt sin atan2 hsqrt q1 qa h1 ha h1a
  obtain ⟨e6, _⟩ := slerp_endpoints teps sqrt sin atan2 hsqrt q2 qb h2 hb h2b
  constructor
  · simp only [Gen.C10.Quat.squad]
    rw [show (2 : α) * 0 * (1 - 0) = 0 by ring, e1, e3, e5]
  · simp only [Gen.C10.Quat.squad]
    rw [show (2 : α) * 1 * (1 - 1) = 0 by ring, e2, e4, e6]

/-- over ℝ with the real functions: the only hypothesis left is `q1 ≠ -q2` (as the header says) -/
theorem slerp_endpoints_real (teps : ℝ) (hteps : 0 < teps) (q1 q2 : Quat ℝ) (h1 : UnitQ q1) (h2 : UnitQ q2)
    (hne : q1 ≠ Gen.C10.Quat.neg q2) :
    Gen.C10.Quat.slerp teps Real.sqrt Real.sin ratan2 q1 q2 0 = q1 ∧
    Gen.C10.Quat.slerp teps Real.sqrt Real.sin ratan2 q1 q2 1 = q2 :=
  slerp_endpoints teps Real.sqrt Real.sin ratan2 real_sqrt_spec q1 q2 h1 h2
    (sinx_over_x_angle4D_ne_zero teps hteps q1 q2 hne)
example : UnitQ (⟨1, ⟨0, 0, 0⟩⟩ : Quat ℝ) ∧ UnitQ (⟨0, ⟨1, 0, 0⟩⟩ : Quat ℝ) ∧
    (⟨1, ⟨0, 0, 0⟩⟩ : Quat ℝ) ≠ Gen.C10.Quat.neg ⟨0, ⟨1, 0, 0⟩⟩ := by
  refine ⟨by norm_num [UnitQ, normSq], by norm_num [UnitQ, normSq], ?_⟩
  intro h; have := congrArg Quat.r h; norm_num [Gen.C10.Quat.neg] at this

/-! ## the tiny-angle branch of `sinx_over_x` -/

/-- the tiny-angle branch returns exactly 1 (any ordered field; the guard is the code's own `x * x < epsilon`) -/
theorem sinx_over_x_tiny {α : Type} [Field α] [LinearOrder α] [IsStrictOrderedRing α] (teps : α) (sin : α → α) (x : α)
    (h : x * x < teps) : Gen.C10.sinx_over_x teps sin x = 1 := by
  simp only [Gen.C10.sinx_over_x, h, ↓reduceIte]

/-- … and over ℝ that value is within `x²/6 < ε/6` of `sin x / x` (at `x = 0` it is the limit):
the two branches of `sinx_over_x` differ by less than `ε/6` where they meet, with the sign `sin x / x < 1`. -/
theorem sinx_over_x_tiny_real (teps : ℝ) (x : ℝ) (hx : x * x < teps) (hx0 : x ≠ 0) :
    Gen.C10.sinx_over_x teps Real.sin x = 1 ∧
    Real.sin x / x < Gen.C10.sinx_over_x teps Real.sin x ∧
    Gen.C10.sinx_over_x teps Real.sin x - Real.sin x / x < x * x / 6 ∧ x * x / 6 < teps / 6 := by
  have e := sinx_over_x_tiny teps Real.sin x hx
  rw [e]
  have key : ∀ y : ℝ, 0 < y → Real.sin y / y < 1 ∧ 1 - Real.sin y / y < y * y / 6 := by
    intro y hy
    have h2 := Real.sin_lt hy
    have h3 := Real.sin_gt_sub_cube hy
    constructor
    · rw [div_lt_one hy]; exact h2
    · have : 1 - y * y / 6 < Real.sin y / y := by
        rw [lt_div_iff₀ hy]; nlinarith
      linarith
  refine ⟨rfl, ?_, ?_, by linarith⟩
  · rcases lt_or_gt_of_ne hx0 with hn | hp
    · have := (key (-x) (by linarith)).1
      rwa [Real.sin_neg, neg_div_neg_eq] at this
    · exact (key x hp).1
  · rcases lt_or_gt_of_ne hx0 with hn | hp
    · have := (key (-x) (by linarith)).2
      rw [Real.sin_neg, neg_div_neg_eq] at this
      linarith
    · exact (key x hp).2
/-- non-vacuity: float-like ε = 2⁻²³, x = 2⁻¹² -/
example : ((1 : ℝ) / 4096) * (1 / 4096) < 1 / 8388608 ∧ (1 : ℝ) / 4096 ≠ 0 := by norm_num

/-! ### slerp advances the 4-D angle linearly in t; slerpShortestArc stays within 90° -/

/-- **slerp advances the 4-D angle linearly in t** (off the tiny-angle branches of `sinx_over_x`). -/
theorem slerp_angle_linear {α : Type} [Field α] [LinearOrder α] [IsStrictOrderedRing α] (teps : α) (sqrt sin cos : α → α)
    (atan2 : α → α → α) (hsqrt : SqrtSpec sqrt) (q1 q2 : Quat α) (t θ : α) (h1 : UnitQ q1) (h2 : UnitQ q2)
    (hteps : 0 < teps)
    (hθ : Gen.C10.Quat.angle4D sqrt atan2 q1 q2 = θ)
    (hcos : cos θ = Gen.C10.Quat.dot4 q1 q2)
    (hbig : ¬ θ * θ < teps ∧ ¬ (t * θ) * (t * θ) < teps ∧ ¬ ((1 - t) * θ) * ((1 - t) * θ) < teps)
    (hs : sin θ ≠ 0)
    (hadd : sin θ = sin ((1 - t) * θ) * cos (t * θ) + cos ((1 - t) * θ) * sin (t * θ))
    (hcadd : cos θ = cos ((1 - t) * θ) * cos (t * θ) - sin ((1 - t) * θ) * sin (t * θ))
    (hpa : sin ((1 - t) * θ) * sin ((1 - t) * θ) + cos ((1 - t) * θ) * cos ((1 - t) * θ) = 1)
    (hpb : sin (t * θ) * sin (t * θ) + cos (t * θ) * cos (t * θ) = 1) :
    Gen.C10.Quat.slerp teps sqrt sin atan2 q1 q2 t =
        lincomb (sin ((1 - t) * θ) / sin θ) q1 (sin (t * θ) / sin θ) q2 ∧
      Gen.C10.Quat.dot4 q1 (Gen.C10.Quat.slerp teps sqrt sin atan2 q1 q2 t) = cos (t * θ) ∧
      Gen.C10.Quat.dot4 (Gen.C10.Quat.slerp teps sqrt sin atan2 q1 q2 t) q2 = cos ((1 - t) * θ) := by
  obtain ⟨hb0, hb1, hb2⟩ := hbig
  have nz : ∀ x : α, ¬ x * x < teps → x ≠ 0 := by
    intro x hx h; rw [h, mul_zero] at hx; exact hx hteps
  have hθ0 := nz _ hb0
  have htθ := nz _ hb1
  have hsθ := nz _ hb2
  have ht0 : t ≠ 0 := fun h => htθ (by rw [h, zero_mul])
  have hs0 : 1 - t ≠ 0 := fun h => hsθ (by rw [h, zero_mul])
  have hw1 : Gen.C10.sinx_over_x teps sin ((1 - t) * θ) / Gen.C10.sinx_over_x teps sin θ * (1 - t) = sin ((1 - t) * θ) / sin θ := by
    rw [sinx_over_x_big _ _ _ hb2, sinx_over_x_big _ _ _ hb0]; field_simp
  have hw2 : Gen.C10.sinx_over_x teps sin (t * θ) / Gen.C10.sinx_over_x teps sin θ * t = sin (t * θ) / sin θ := by
    rw [sinx_over_x_big _ _ _ hb1, sinx_over_x_big _ _ _ hb0]; field_simp
  simp only [UnitQ] at h1 h2
  have hunit : UnitQ (lincomb (sin ((1 - t) * θ) / sin θ) q1 (sin (t * θ) / sin θ) q2) := by
    simp only [UnitQ]
    rw [normSq_lincomb, h1, h2, ← hcos, hcadd]
    generalize sin ((1 - t) * θ) = sa at *
    generalize cos ((1 - t) * θ) = ca at *
    generalize sin (t * θ) = sb at *
    generalize cos (t * θ) = cb at *
    generalize sin θ = s at *
    field_simp
    rw [hadd]
    linear_combination (-(sb * sb)) * hpa + (-(sa * sa)) * hpb
  have e : Gen.C10.Quat.slerp teps sqrt sin atan2 q1 q2 t =
      lincomb (sin ((1 - t) * θ) / sin θ) q1 (sin (t * θ) / sin θ) q2 := by
    rw [slerp_eq, hθ, hw1, hw2]
    exact Quat_normalize_of_unit_simp sqrt hsqrt _ hunit
  refine ⟨e, ?_, ?_⟩
  · rw [e, dot4_lincomb_left, dot4_self, h1, ← hcos, hcadd]
    generalize sin ((1 - t) * θ) = sa at *
    generalize cos ((1 - t) * θ) = ca at *
    generalize sin (t * θ) = sb at *
    generalize cos (t * θ) = cb at *
    generalize sin θ = s at *
    field_simp
    rw [hadd]
    linear_combination (-sa) * hpb
  · rw [e, dot4_lincomb_right, dot4_self, h2, ← hcos, hcadd]
    generalize sin ((1 - t) * θ) = sa at *
    generalize cos ((1 - t) * θ) = ca at *
    generalize sin (t * θ) = sb at *
    generalize cos (t * θ) = cb at *
    generalize sin θ = s at *
    field_simp
    rw [hadd]
    linear_combination (-sb) * hpa

/-- **slerp advances the 4-D angle linearly** over ℝ with the real functions: the only hypotheses left are unit inputs, `q1 ≠ -q2`
and "no tiny-angle branch of sinx_over_x" -/
theorem slerp_angle_linear_real (teps : ℝ) (hteps : 0 < teps) (q1 q2 : Quat ℝ) (t : ℝ) (h1 : UnitQ q1) (h2 : UnitQ q2)
    (hne : q1 ≠ Gen.C10.Quat.neg q2)
    (hbig : let θ := Gen.C10.Quat.angle4D Real.sqrt ratan2 q1 q2
            ¬ θ * θ < teps ∧ ¬ (t * θ) * (t * θ) < teps ∧ ¬ ((1 - t) * θ) * ((1 - t) * θ) < teps) :
    let θ := Gen.C10.Quat.angle4D Real.sqrt ratan2 q1 q2
    Gen.C10.Quat.slerp teps Real.sqrt Real.sin ratan2 q1 q2 t =
        lincomb (Real.sin ((1 - t) * θ) / Real.sin θ) q1 (Real.sin (t * θ) / Real.sin θ) q2 ∧
      Gen.C10.Quat.dot4 q1 (Gen.C10.Quat.slerp teps Real.sqrt Real.sin ratan2 q1 q2 t) = Real.cos (t * θ) ∧
      Gen.C10.Quat.dot4 (Gen.C10.Quat.slerp teps Real.sqrt Real.sin ratan2 q1 q2 t) q2 = Real.cos ((1 - t) * θ) := by
  intro θ
  obtain ⟨h0, hpi⟩ := angle4D_real_range q1 q2 hne
  have hθ0 : θ ≠ 0 := by
    intro h; have := hbig.1; rw [show Gen.C10.Quat.angle4D Real.sqrt ratan2 q1 q2 = θ from rfl, h, mul_zero] at this
    exact this hteps
  have hpos : 0 < θ := lt_of_le_of_ne h0 (Ne.symm hθ0)
  have hsplit : θ = (1 - t) * θ + t * θ := by ring
  refine slerp_angle_linear teps Real.sqrt Real.sin Real.cos ratan2 real_sqrt_spec q1 q2 t θ h1 h2 hteps rfl
    (cos_angle4D_real q1 q2 h1 h2) hbig (Real.sin_pos_of_pos_of_lt_pi hpos hpi).ne' ?_ ?_ ?_ ?_
  · conv_lhs => rw [hsplit]
    exact Real.sin_add _ _
  · conv_lhs => rw [hsplit]
    exact Real.cos_add _ _
  · have := Real.sin_sq_add_cos_sq ((1 - t) * θ); nlinarith [this]
  · have := Real.sin_sq_add_cos_sq (t * θ); nlinarith [this]

/-- non-vacuity: q1 = 1, q2 = i (θ = π/2), t = 1/2, ε = 1/100 — a quarter of a half turn each way -/
example : let q1 : Quat ℝ := ⟨1, ⟨0, 0, 0⟩⟩; let q2 : Quat ℝ := ⟨0, ⟨1, 0, 0⟩⟩
    UnitQ q1 ∧ UnitQ q2 ∧ q1 ≠ Gen.C10.Quat.neg q2 ∧
    (let θ := Gen.C10.Quat.angle4D Real.sqrt ratan2 q1 q2
     θ = Real.pi / 2 ∧
     ¬ θ * θ < 1 / 100 ∧ ¬ ((1 / 2 : ℝ) * θ) * ((1 / 2 : ℝ) * θ) < 1 / 100 ∧ ¬ ((1 - 1 / 2 : ℝ) * θ) * ((1 - 1 / 2 : ℝ) * θ) < 1 / 100) := by
  intro q1 q2
  have u1 : UnitQ q1 := by norm_num [q1, UnitQ, normSq]
  have u2 : UnitQ q2 := by norm_num [q2, UnitQ, normSq]
  have hne : q1 ≠ Gen.C10.Quat.neg q2 := by
    intro h; have := congrArg Quat.r h; norm_num [q1, q2, Gen.C10.Quat.neg] at this
  refine ⟨u1, u2, hne, ?_⟩
  intro θ
  have hc : Real.cos θ = 0 := by
    rw [cos_angle4D_real q1 q2 u1 u2]; norm_num [q1, q2, Gen.C10.Quat.dot4]
  obtain ⟨h0, hpi⟩ := angle4D_real_range q1 q2 hne
  have hθ : θ = Real.pi / 2 := by
    have := Real.arccos_cos h0 hpi.le
    rw [hc, Real.arccos_zero] at this; exact this.symm
  have hp := Real.two_le_pi
  refine ⟨hθ, ?_, ?_, ?_⟩ <;> (rw [hθ]; nlinarith)


/-- **slerpShortestArc never takes the long way round** (ℝ, real functions, unit inputs — no further hypothesis): it is slerp
towards `q2' ∈ {q2, -q2}` with `q1 ^ q2' ≥ 0`, the 4-D angle θ' between q1 and q2' is at most π/2, and (off the tiny-angle
branches) the result is at angle `t θ'` from q1. -/
theorem slerpShortestArc_angle_real (teps : ℝ) (hteps : 0 < teps) (q1 q2 : Quat ℝ) (t : ℝ) (h1 : UnitQ q1) (h2 : UnitQ q2) :
    let q2' := if 0 ≤ Gen.C10.Quat.dot4 q1 q2 then q2 else Gen.C10.Quat.neg q2
    let θ := Gen.C10.Quat.angle4D Real.sqrt ratan2 q1 q2'
    Gen.C10.Quat.slerpShortestArc teps Real.sqrt Real.sin ratan2 q1 q2 t = Gen.C10.Quat.slerp teps Real.sqrt Real.sin ratan2 q1 q2' t ∧
    0 ≤ θ ∧ θ ≤ Real.pi / 2 ∧
    ((¬ θ * θ < teps ∧ ¬ (t * θ) * (t * θ) < teps ∧ ¬ ((1 - t) * θ) * ((1 - t) * θ) < teps) →
      Gen.C10.Quat.dot4 q1 (Gen.C10.Quat.slerpShortestArc teps Real.sqrt Real.sin ratan2 q1 q2 t) = Real.cos (t * θ) ∧
      Gen.C10.Quat.dot4 (Gen.C10.Quat.slerpShortestArc teps Real.sqrt Real.sin ratan2 q1 q2 t) q2' = Real.cos ((1 - t) * θ)) := by
  intro q2' θ
  have hu' : UnitQ q2' := by
    simp only [q2']; split_ifs
    · exact h2
    · exact Quat_neg_unit q2 h2
  have hd : 0 ≤ Gen.C10.Quat.dot4 q1 q2' := by
    simp only [q2']; split_ifs with h
    · exact h
    · rw [dot4_neg]; linarith [not_le.mp h]
  have hne : q1 ≠ Gen.C10.Quat.neg q2' := by
    intro h
    have : Gen.C10.Quat.dot4 q1 q2' = -1 := by
      have e : q2' = Gen.C10.Quat.neg q1 := by
        rw [h]; simp [Gen.C10.Quat.neg]
      rw [e, dot4_neg, dot4_self]; simp only [UnitQ] at h1; rw [h1]
    linarith
  have he : Gen.C10.Quat.slerpShortestArc teps Real.sqrt Real.sin ratan2 q1 q2 t =
      Gen.C10.Quat.slerp teps Real.sqrt Real.sin ratan2 q1 q2' t := by
    rw [slerpShortestArc_eq]; simp only [q2']; split_ifs <;> rfl
  obtain ⟨h0, hpi⟩ := angle4D_real_range q1 q2' hne
  have hcos : Real.cos θ = Gen.C10.Quat.dot4 q1 q2' := cos_angle4D_real q1 q2' h1 hu'
  refine ⟨he, h0, ?_, ?_⟩
  · by_contra hgt
    have := Real.cos_neg_of_pi_div_two_lt_of_lt (not_le.mp hgt) (by linarith)
    linarith
  · intro hbig
    rw [he]
    exact (slerp_angle_linear_real teps hteps q1 q2' t h1 hu' hne hbig).2

theorem squad_keys_real (teps : ℝ) (hteps : 0 < teps) (q1 qa qb q2 : Quat ℝ)
    (h1 : UnitQ q1) (h2 : UnitQ q2) (ha : UnitQ qa) (hb : UnitQ qb)
    (h12 : q1 ≠ Gen.C10.Quat.neg q2) (hab : qa ≠ Gen.C10.Quat.neg qb) (h1a : q1 ≠ Gen.C10.Quat.neg qa)
    (h2b : q2 ≠ Gen.C10.Quat.neg qb) :
    Gen.C10.Quat.squad teps Real.sqrt Real.sin ratan2 q1 qa qb q2 0 = q1 ∧
    Gen.C10.Quat.squad teps Real.sqrt Real.sin ratan2 q1 qa qb q2 1 = q2 :=
  squad_keys teps Real.sqrt Real.sin ratan2 real_sqrt_spec q1 qa qb q2 h1 h2 ha hb
    (sinx_over_x_angle4D_ne_zero teps hteps _ _ h12) (sinx_over_x_angle4D_ne_zero teps hteps _ _ hab)
    (sinx_over_x_angle4D_ne_zero teps hteps _ _ h1a) (sinx_over_x_angle4D_ne_zero teps hteps _ _ h2b)

/-- `spline (q0, q1, q2, q3, t) = squad (q1, intermediate (q0,q1,q2), intermediate (q1,q2,q3), q2, t)` -/
theorem spline_eq_squad {α : Type} [Field α] [LinearOrder α] [IsStrictOrderedRing α] (tmin tmax teps : α)
    (sqrt sin cos acos : α → α) (atan2 : α → α → α) (q0 q1 q2 q3 : Quat α) (t : α) :
    Gen.C10.Quat.spline tmin tmax teps sqrt sin cos acos atan2 q0 q1 q2 q3 t =
      Gen.C10.Quat.squad teps sqrt sin atan2 q1 (Gen.C10.Quat.intermediate tmin tmax sqrt sin cos acos q0 q1 q2)
        (Gen.C10.Quat.intermediate tmin tmax sqrt sin cos acos q1 q2 q3) q2 t := by
  simp only [Gen.C10.Quat.spline, Gen.C10.Quat.squad]

/-- spline passes through its keys q1 (t = 0) and q2 (t = 1) for unit keys in non-degenerate position
(no pair of slerp arguments antipodal) -/
theorem spline_keys {α : Type} [Field α] [LinearOrder α] [IsStrictOrderedRing α] (tmin tmax teps : α)
    (sqrt sin cos acos : α → α) (atan2 : α → α → α) (hsqrt : SqrtSpec sqrt) (q0 q1 q2 q3 : Quat α)
    (h1 : UnitQ q1) (h2 : UnitQ q2)
    (h12 : Gen.C10.sinx_over_x teps sin (Gen.C10.Quat.angle4D sqrt atan2 q1 q2) ≠ 0)
    (hab : Gen.C10.sinx_over_x teps sin (Gen.C10.Quat.angle4D sqrt atan2
      (Gen.C10.Quat.intermediate tmin tmax sqrt sin cos acos q0 q1 q2)
      (Gen.C10.Quat.intermediate tmin tmax sqrt sin cos acos q1 q2 q3)) ≠ 0)
    (h1a : Gen.C10.sinx_over_x teps sin (Gen.C10.Quat.angle4D sqrt atan2 q1
      (Gen.C10.Quat.intermediate tmin tmax sqrt sin cos acos q0 q1 q2)) ≠ 0)
    (h2b : Gen.C10.sinx_over_x teps sin (Gen.C10.Quat.angle4D sqrt atan2 q2
      (Gen.C10.Quat.intermediate tmin tmax sqrt sin cos acos q1 q2 q3)) ≠ 0) :
    Gen.C10.Quat.spline tmin tmax teps sqrt sin cos acos atan2 q0 q1 q2 q3 0 = q1 ∧
    Gen.C10.Quat.spline tmin tmax teps sqrt sin cos acos atan2 q0 q1 q2 q3 1 = q2 := by
  rw [spline_eq_squad, spline_eq_squad]
  exact squad_keys teps sqrt sin atan2 hsqrt q1 _ _ q2 h1 h2
    (intermediate_unit tmin tmax sqrt sin cos acos hsqrt q0 q1 q2)
    (intermediate_unit tmin tmax sqrt sin cos acos hsqrt q1 q2 q3) h12 hab h1a h2b

/-- over ℝ with the real functions the hypotheses of `spline_keys` reduce to "no two slerp arguments antipodal"
(qa, qb are the two intermediates; they are unit by `intermediate_unit`) -/
theorem spline_keys_real (tmin tmax teps : ℝ) (hteps : 0 < teps) (q0 q1 q2 q3 : Quat ℝ) (h1 : UnitQ q1) (h2 : UnitQ q2)
    (h12 : q1 ≠ Gen.C10.Quat.neg q2)
    (hab : Gen.C10.Quat.intermediate tmin tmax Real.sqrt Real.sin Real.cos Real.arccos q0 q1 q2 ≠
      Gen.C10.Quat.neg (Gen.C10.Quat.intermediate tmin tmax Real.sqrt Real.sin Real.cos Real.arccos q1 q2 q3))
    (h1a : q1 ≠ Gen.C10.Quat.neg (Gen.C10.Quat.intermediate tmin tmax Real.sqrt Real.sin Real.cos Real.arccos q0 q1 q2))
    (h2b : q2 ≠ Gen.C10.Quat.neg (Gen.C10.Quat.intermediate tmin tmax Real.sqrt Real.sin Real.cos Real.arccos q1 q2 q3)) :
    Gen.C10.Quat.spline tmin tmax teps Real.sqrt Real.sin Real.cos Real.arccos ratan2 q0 q1 q2 q3 0 = q1 ∧
    Gen.C10.Quat.spline tmin tmax teps Real.sqrt Real.sin Real.cos Real.arccos ratan2 q0 q1 q2 q3 1 = q2 :=
  spline_keys tmin tmax teps Real.sqrt Real.sin Real.cos Real.arccos ratan2 real_sqrt_spec q0 q1 q2 q3 h1 h2
    (sinx_over_x_angle4D_ne_zero teps hteps _ _ h12) (sinx_over_x_angle4D_ne_zero teps hteps _ _ hab)
    (sinx_over_x_angle4D_ne_zero teps hteps _ _ h1a) (sinx_over_x_angle4D_ne_zero teps hteps _ _ h2b)

/-! ## `exp (log q) = q`, `setAxisAngle (axis q, angle q) = q` (over ℝ, with Real.arccos / sin / cos / sqrt / arg)

`log` protects the division `theta / sin theta` by the guard `|sin theta| < 1 ∧ |theta| ≥ max * |sin theta|`
(then the factor is 1): that is the region "real part close to -1" of the property, stated here exactly as
`arccos r < max * sin (arccos r)`.  For float (max ≈ 3.4e38) it excludes only `pi - theta ≲ 1e-38`; all the
accuracy loss near r = -1 in floating point is a matter of rounding and is MEASURED (c10_residue: exp-log). -/

theorem exp_log (tmin tmax : ℝ) (htmax : 1 ≤ tmax) (q : Quat ℝ) (hq : UnitQ q)
    (hguard : q.r = 1 ∨ (-1 < q.r ∧ Real.arccos q.r < tmax * Real.sin (Real.arccos q.r))) :
    Gen.C10.Quat.exp tmin tmax Real.sqrt Real.sin Real.cos (Gen.C10.Quat.log tmax Real.sin Real.arccos q) = q := by
  obtain ⟨r, ⟨x, y, z⟩⟩ := q
  simp only [UnitQ, normSq] at hq
  simp only at hguard
  have hx2 := mul_self_nonneg x; have hy2 := mul_self_nonneg y; have hz2 := mul_self_nonneg z
  have hr1 : r ≤ 1 := by nlinarith
  have hsmin : smin r 1 = r := by
    simp only [smin]; rw [if_neg (not_lt.mpr hr1)]
  rcases hguard with h1 | ⟨hm1, hg⟩
  · -- r = 1: v = 0, log q = 0, exp 0 = 1
    subst h1
    have hx : x = 0 := mul_self_eq_zero.mp (by linarith)
    have hy : y = 0 := mul_self_eq_zero.mp (by linarith)
    have hz : z = 0 := mul_self_eq_zero.mp (by linarith)
    subst hx hy hz
    have hlog : Gen.C10.Quat.log tmax Real.sin Real.arccos (⟨1, ⟨0, 0, 0⟩⟩ : Quat ℝ) = ⟨0, ⟨0, 0, 0⟩⟩ := by
      simp only [Gen.C10.Quat.log, hsmin, Real.arccos_one, ↓reduceIte]
    rw [hlog]
    simp only [Gen.C10.Quat.exp, C08.V3_length_eq tmin tmax real_sqrt_spec]
    simp [sabs]
  · have hθ0 : 0 < Real.arccos r := Real.arccos_pos.mpr (lt_of_le_of_ne hr1 (by
      intro h; subst h
      have hx : x = 0 := mul_self_eq_zero.mp (by linarith)
      have hy : y = 0 := mul_self_eq_zero.mp (by linarith)
      have hz : z = 0 := mul_self_eq_zero.mp (by linarith)
      subst hx hy hz
      simp at hg))
    have hcos : Real.cos (Real.arccos r) = r := Real.cos_arccos hm1.le hr1
    have hθpi : Real.arccos r < Real.pi := by
      rcases lt_or_eq_of_le (Real.arccos_le_pi r) with h | h
      · exact h
      · exfalso; rw [Real.arccos_eq_pi] at h; linarith
    have hs0 : 0 < Real.sin (Real.arccos r) := Real.sin_pos_of_pos_of_lt_pi hθ0 hθpi
    have hs2 : Real.sin (Real.arccos r) * Real.sin (Real.arccos r) = x * x + y * y + z * z := by
      have := Real.sin_sq_add_cos_sq (Real.arccos r)
      rw [hcos] at this; nlinarith
    have hslt : Real.sin (Real.arccos r) < Real.arccos r := Real.sin_lt hθ0
    generalize hθ : Real.arccos r = θ at *
    generalize hs : Real.sin θ = s at *
    have hlog : Gen.C10.Quat.log tmax Real.sin Real.arccos (⟨r, ⟨x, y, z⟩⟩ : Quat ℝ) =
        ⟨0, ⟨x * (θ / s), y * (θ / s), z * (θ / s)⟩⟩ := by
      simp only [Gen.C10.Quat.log, hsmin, hθ, hs, sabs_of_nonneg hs0.le, sabs_of_nonneg hθ0.le,
        hθ0.ne', ↓reduceIte, not_le.mpr hg]
      split_ifs <;> rfl
    rw [hlog]
    have hlen : Real.sqrt (x * (θ / s) * (x * (θ / s)) + y * (θ / s) * (y * (θ / s)) + z * (θ / s) * (z * (θ / s))) = θ := by
      have : x * (θ / s) * (x * (θ / s)) + y * (θ / s) * (y * (θ / s)) + z * (θ / s) * (z * (θ / s)) = θ * θ := by
        calc x * (θ / s) * (x * (θ / s)) + y * (θ / s) * (y * (θ / s)) + z * (θ / s) * (z * (θ / s))
            = (θ / s) * (θ / s) * (x * x + y * y + z * z) := by ring
          _ = (θ / s) * (θ / s) * (s * s) := by rw [hs2]
          _ = θ * θ := by field_simp
      rw [this]; exact Real.sqrt_mul_self hθ0.le
    simp only [Gen.C10.Quat.exp, C08.V3_length_eq tmin tmax real_sqrt_spec, hlen, hs, hcos, sabs_of_nonneg hs0.le,
      sabs_of_nonneg hθ0.le]
    have hng : ¬ tmax * θ ≤ s := by
      have : θ ≤ tmax * θ := by nlinarith
      linarith
    simp only [hng, ↓reduceIte]
    have hk : θ / s * (s / θ) = 1 := by field_simp
    split_ifs <;> (congr 1; congr 1 <;> (rw [mul_assoc, hk, mul_one]))

/-- non-vacuity: q = (0; 1, 0, 0) (a half turn, real part 0) satisfies the guard with max = 3 -/
example : UnitQ (⟨0, ⟨1, 0, 0⟩⟩ : Quat ℝ) ∧ (-1 : ℝ) < 0 ∧ Real.arccos 0 < 3 * Real.sin (Real.arccos 0) := by
  refine ⟨by norm_num [UnitQ, normSq], by norm_num, ?_⟩
  rw [Real.arccos_zero, Real.sin_pi_div_two]
  linarith [Real.pi_le_four]

/-- `q.setAxisAngle (q.axis (), q.angle ()) = q` for every unit quaternion (real functions; exactly `q`, not `-q`) -/
theorem setAxisAngle_axis_angle (tmin tmax : ℝ) (q0 q : Quat ℝ) (hq : UnitQ q) :
    Gen.C10.Quat.setAxisAngle tmin tmax Real.sqrt Real.sin Real.cos q0 (Gen.C10.Quat.axis tmin tmax Real.sqrt q)
      (Gen.C10.Quat.angle tmin tmax Real.sqrt ratan2 q) = q := by
  obtain ⟨r, ⟨x, y, z⟩⟩ := q
  simp only [UnitQ, normSq] at hq
  have h0 : 0 ≤ x * x + y * y + z * z := by
    have := mul_self_nonneg x; have := mul_self_nonneg y; have := mul_self_nonneg z; linarith
  have hll : Real.sqrt (x * x + y * y + z * z) * Real.sqrt (x * x + y * y + z * z) = x * x + y * y + z * z :=
    Real.mul_self_sqrt h0
  have hl0 : 0 ≤ Real.sqrt (x * x + y * y + z * z) := Real.sqrt_nonneg _
  simp only [Gen.C10.Quat.setAxisAngle, Gen.C10.Quat.axis, Gen.C10.Quat.angle, C08.V3_length_eq tmin tmax real_sqrt_spec, ratan2]
  generalize Real.sqrt (x * x + y * y + z * z) = l at hll hl0
  have hnorm : ‖(⟨r, l⟩ : ℂ)‖ = 1 := by
    rw [Complex.norm_def, Complex.normSq_apply]
    have : r * r + l * l = 1 := by linarith
    simp only [this, Real.sqrt_one]
  have hne : (⟨r, l⟩ : ℂ) ≠ 0 := by
    intro h; rw [h] at hnorm; simp at hnorm
  have hcos : Real.cos (Complex.arg ⟨r, l⟩) = r := by
    rw [Complex.cos_arg hne, hnorm]; simp
  have hsin : Real.sin (Complex.arg ⟨r, l⟩) = l := by
    rw [Complex.sin_arg, hnorm]; simp
  have hhalf : 2 * Complex.arg ⟨r, l⟩ / 2 = Complex.arg ⟨r, l⟩ := by ring
  rw [hhalf, hcos, hsin]
  by_cases hl : l = 0
  · subst hl
    have hx : x = 0 := mul_self_eq_zero.mp (by nlinarith [mul_self_nonneg x, mul_self_nonneg y, mul_self_nonneg z])
    have hy : y = 0 := mul_self_eq_zero.mp (by nlinarith [mul_self_nonneg x, mul_self_nonneg y, mul_self_nonneg z])
    have hz : z = 0 := mul_self_eq_zero.mp (by nlinarith [mul_self_nonneg x, mul_self_nonneg y, mul_self_nonneg z])
    subst hx hy hz
    simp
  · simp only [hl, ↓reduceIte]
    have h1 : x / l * (x / l) + y / l * (y / l) + z / l * (z / l) = 1 := by
      field_simp; linarith
    simp only [h1, Real.sqrt_one, one_ne_zero, ↓reduceIte, div_one]
    congr 1; congr 1 <;> field_simp

example : UnitQ (⟨-3/5, ⟨0, 4/5, 0⟩⟩ : Quat ℝ) := by norm_num [UnitQ, normSq]

/-! ## `intermediate (q0, q1, q2)`: structure, and its defining identity `log (q1⁻¹ qa) = -¼ (log (q1⁻¹ q2) + log (q1⁻¹ q0))`

`intermediate_eq` exposes the 96-path tree as `normalize (q1 * exp (-¼ (log (q1⁻¹ q0) + log (q1⁻¹ q2))))` over any ordered field
(operand order and constant are visible: `q2 * q1⁻¹` instead of `q1⁻¹ * q2` no longer proves).  Over ℝ, `log_exp` (the converse
of `exp_log`) gives the defining identity, from which the classical argument that consecutive squad segments share their tangent
at the common key is a paper proof (not formalised; the tangent itself is MEASURED: `spline-tangent`). -/

macro "c10_fin" : tactic =>
  `(tactic| (simp only [Gen.C10.Quat.normalize, Gen.C10.Quat.mul, Gen.C10.Quat.exp]
             repeat' (split_ifs with hc <;> simp only [hc, ↓reduceIte])))
set_option hygiene false in
macro "c10_l0" : tactic =>
  `(tactic| (by_cases A0 : acos (smin c0r 1) = 0
             · simp only [A0, ↓reduceIte]; c10_fin
             · simp only [A0, ↓reduceIte]
               by_cases B0 : sabs (sin (acos (smin c0r 1))) < 1
               · simp only [B0, ↓reduceIte]
                 by_cases C0 : tmax * sabs (sin (acos (smin c0r 1))) ≤ sabs (acos (smin c0r 1)) <;> simp only [C0, ↓reduceIte] <;> c10_fin
               · simp only [B0, ↓reduceIte]; c10_fin))
-- (the option is set for the section, not with `… in`, and the docstring sits on the theorem's own line, so that an error is
--  reported at the line of `theorem intermediate_eq` and attributed to it by tools/lib.failing_theorems)
section intermediateEq
set_option maxHeartbeats 1000000
/-- **structure of `intermediate`** (all 96 paths) -/ theorem intermediate_eq {α : Type} [Field α] [LinearOrder α] [IsStrictOrderedRing α] (tmin tmax : α)
    (sqrt sin cos acos : α → α) (q0 q1 q2 : Quat α) :
    Gen.C10.Quat.intermediate tmin tmax sqrt sin cos acos q0 q1 q2 =
      Gen.C10.Quat.normalize sqrt
        (Gen.C10.Quat.mul q1
          (Gen.C10.Quat.exp tmin tmax sqrt sin cos
            (qscaleAdd (-(1 / 4))
              (Gen.C10.Quat.log tmax sin acos (Gen.C10.Quat.mul (Gen.C10.Quat.inverse q1) q0))
              (Gen.C10.Quat.log tmax sin acos (Gen.C10.Quat.mul (Gen.C10.Quat.inverse q1) q2))))) := by
  obtain ⟨c0, hc0⟩ : ∃ c, Gen.C10.Quat.mul (Gen.C10.Quat.inverse q1) q0 = c := ⟨_, rfl⟩
  obtain ⟨c2, hc2⟩ : ∃ c, Gen.C10.Quat.mul (Gen.C10.Quat.inverse q1) q2 = c := ⟨_, rfl⟩
  rw [hc0, hc2]
  obtain ⟨c0r, ⟨c0x, c0y, c0z⟩⟩ := c0
  obtain ⟨c2r, ⟨c2x, c2y, c2z⟩⟩ := c2
  simp only [Gen.C10.Quat.mul, Gen.C10.Quat.inverse, Quat.mk.injEq, V3.mk.injEq] at hc0 hc2
  obtain ⟨e0r, e0x, e0y, e0z⟩ := hc0
  obtain ⟨e2r, e2x, e2y, e2z⟩ := hc2
  simp only [Gen.C10.Quat.intermediate]
  simp only [e0r, e0x, e0y, e0z, e2r, e2x, e2y, e2z]
  simp only [Gen.C10.Quat.log, qscaleAdd]
  by_cases A2 : acos (smin c2r 1) = 0
  · simp only [A2, ↓reduceIte]; c10_l0
  · simp only [A2, ↓reduceIte]
    by_cases B2 : sabs (sin (acos (smin c2r 1))) < 1
    · simp only [B2, ↓reduceIte]
      by_cases C2 : tmax * sabs (sin (acos (smin c2r 1))) ≤ sabs (acos (smin c2r 1)) <;> simp only [C2, ↓reduceIte] <;> c10_l0
    · simp only [B2, ↓reduceIte]; c10_l0
end intermediateEq

/-- `exp` of a pure quaternion over ℝ (max ≥ 1): `(cos θ, v sin θ / θ)` with θ = |v|; for θ = 0 it is the identity -/
theorem exp_real (tmin tmax : ℝ) (htmax : 1 ≤ tmax) (p : Quat ℝ) :
    let θ := Real.sqrt (p.v.x * p.v.x + p.v.y * p.v.y + p.v.z * p.v.z)
    Gen.C10.Quat.exp tmin tmax Real.sqrt Real.sin Real.cos p =
      ⟨Real.cos θ, ⟨p.v.x * (Real.sin θ / θ), p.v.y * (Real.sin θ / θ), p.v.z * (Real.sin θ / θ)⟩⟩ ∧
    UnitQ (Gen.C10.Quat.exp tmin tmax Real.sqrt Real.sin Real.cos p) := by
  obtain ⟨r, ⟨x, y, z⟩⟩ := p
  intro θ
  have hθd : θ = Real.sqrt (x * x + y * y + z * z) := rfl
  clear_value θ
  simp only
  have h0 : 0 ≤ x * x + y * y + z * z := by
    have := mul_self_nonneg x; have := mul_self_nonneg y; have := mul_self_nonneg z; linarith
  have hθ0 : 0 ≤ θ := hθd ▸ Real.sqrt_nonneg _
  have hθθ : θ * θ = x * x + y * y + z * z := hθd ▸ Real.mul_self_sqrt h0
  have e : Gen.C10.Quat.exp tmin tmax Real.sqrt Real.sin Real.cos ⟨r, ⟨x, y, z⟩⟩ =
      ⟨Real.cos θ, ⟨x * (Real.sin θ / θ), y * (Real.sin θ / θ), z * (Real.sin θ / θ)⟩⟩ := by
    simp only [Gen.C10.Quat.exp, C08.V3_length_eq tmin tmax real_sqrt_spec, ← hθd]
    rcases eq_or_lt_of_le hθ0 with hz | hpos
    · -- θ = 0: v = 0
      have hxyz : x * x + y * y + z * z = 0 := by rw [← hθθ, ← hz]; ring
      obtain ⟨hx, hy, hz'⟩ := C08.sumsq3_eq_zero.mp hxyz
      subst hx hy hz'
      split_ifs <;> simp
    · have hs : sabs (Real.sin θ) < tmax * sabs θ := by
        rw [sabs_of_nonneg hθ0]
        have h1 : sabs (Real.sin θ) ≤ |Real.sin θ| := by
          simp only [sabs]; split_ifs with h
          · exact le_abs_self _
          · exact neg_le_abs _
        have h2 : |Real.sin θ| < θ := by
          rw [abs_lt]; constructor
          · have := Real.neg_one_le_sin θ
            rcases le_or_gt θ 1 with h | h
            · have := Real.sin_nonneg_of_nonneg_of_le_pi hθ0 (by linarith [Real.two_le_pi])
              linarith
            · linarith
          · exact Real.sin_lt hpos
        nlinarith
      simp only [not_le.mpr hs, ↓reduceIte]
      split_ifs <;> rfl
  refine ⟨e, ?_⟩
  rw [e]
  simp only [UnitQ, normSq]
  rcases eq_or_lt_of_le hθ0 with hz | hpos
  · have hxyz : x * x + y * y + z * z = 0 := by rw [← hθθ, ← hz]; ring
    obtain ⟨hx, hy, hz'⟩ := C08.sumsq3_eq_zero.mp hxyz
    subst hx hy hz'
    rw [← hz]; simp
  · have := Real.sin_sq_add_cos_sq θ
    field_simp
    nlinarith

/-- `log (exp p) = p` over ℝ for a pure quaternion `p = (0, v)` with θ = |v| < π, under the code's own guard (as in `exp_log`) -/
theorem log_exp (tmin tmax : ℝ) (htmax : 1 ≤ tmax) (p : Quat ℝ) (hp : p.r = 0)
    (hπ : Real.sqrt (p.v.x * p.v.x + p.v.y * p.v.y + p.v.z * p.v.z) < Real.pi)
    (hguard : Real.sqrt (p.v.x * p.v.x + p.v.y * p.v.y + p.v.z * p.v.z) = 0 ∨
      Real.sqrt (p.v.x * p.v.x + p.v.y * p.v.y + p.v.z * p.v.z) <
        tmax * Real.sin (Real.sqrt (p.v.x * p.v.x + p.v.y * p.v.y + p.v.z * p.v.z))) :
    Gen.C10.Quat.log tmax Real.sin Real.arccos (Gen.C10.Quat.exp tmin tmax Real.sqrt Real.sin Real.cos p) = p := by
  rw [(exp_real tmin tmax htmax p).1]
  obtain ⟨r, ⟨x, y, z⟩⟩ := p
  simp only at hp hπ hguard ⊢
  subst hp
  have h0 : 0 ≤ x * x + y * y + z * z := by
    have := mul_self_nonneg x; have := mul_self_nonneg y; have := mul_self_nonneg z; linarith
  have hθ0 : 0 ≤ Real.sqrt (x * x + y * y + z * z) := Real.sqrt_nonneg _
  have hθθ : Real.sqrt (x * x + y * y + z * z) * Real.sqrt (x * x + y * y + z * z) = x * x + y * y + z * z := Real.mul_self_sqrt h0
  generalize Real.sqrt (x * x + y * y + z * z) = θ at *
  have hsmin : smin (Real.cos θ) 1 = Real.cos θ := by
    simp only [smin]; rw [if_neg (not_lt.mpr (Real.cos_le_one θ))]
  have hacos : Real.arccos (Real.cos θ) = θ := Real.arccos_cos hθ0 hπ.le
  rcases eq_or_lt_of_le hθ0 with hz | hpos
  · have hxyz : x * x + y * y + z * z = 0 := by rw [← hθθ, ← hz]; ring
    obtain ⟨hx, hy, hz'⟩ := C08.sumsq3_eq_zero.mp hxyz
    subst hx hy hz'
    rw [← hz]
    simp only [Gen.C10.Quat.log, Real.cos_zero, Real.sin_zero, smin, lt_self_iff_false, ↓reduceIte, Real.arccos_one]
    simp
  · have hs0 : 0 < Real.sin θ := Real.sin_pos_of_pos_of_lt_pi hpos hπ
    have hg : θ < tmax * Real.sin θ := by
      rcases hguard with h | h
      · exact absurd h hpos.ne'
      · exact h
    simp only [Gen.C10.Quat.log, hsmin, hacos, hpos.ne', sabs_of_nonneg hs0.le, sabs_of_nonneg hθ0, not_le.mpr hg, ↓reduceIte]
    have hk : Real.sin θ / θ * (θ / Real.sin θ) = 1 := by field_simp
    split_ifs <;> (congr 1; congr 1 <;> (rw [mul_assoc, hk, mul_one]))

/-- `q⁻¹ (q x) = x` for a unit quaternion q -/
theorem Quat_inverse_mul_cancel {α : Type} [Field α] (q x : Quat α) (hq : UnitQ q) :
    Gen.C10.Quat.mul (Gen.C10.Quat.inverse q) (Gen.C10.Quat.mul q x) = x := by
  rw [Quat_inverse_unit q hq]
  simp only [UnitQ, normSq] at hq
  obtain ⟨xr, ⟨xx, xy, xz⟩⟩ := x
  simp only [Gen.C10.Quat.mul, Gen.C10.Quat.conj]
  congr 1
  · linear_combination xr * hq
  congr 1
  · linear_combination xx * hq
  · linear_combination xy * hq
  · linear_combination xz * hq

/-- the logarithmic mean of `intermediate` : `P = -¼ (log (q1⁻¹ q0) + log (q1⁻¹ q2))` -/
noncomputable def interP (tmax : ℝ) (q0 q1 q2 : Quat ℝ) : Quat ℝ :=
  qscaleAdd (-(1 / 4))
    (Gen.C10.Quat.log tmax Real.sin Real.arccos (Gen.C10.Quat.mul (Gen.C10.Quat.inverse q1) q0))
    (Gen.C10.Quat.log tmax Real.sin Real.arccos (Gen.C10.Quat.mul (Gen.C10.Quat.inverse q1) q2))

theorem log_r {α : Type} [Field α] [LinearOrder α] [IsStrictOrderedRing α] (tmax : α) (sin acos : α → α) (q : Quat α) :
    (Gen.C10.Quat.log tmax sin acos q).r = 0 := by
  simp only [Gen.C10.Quat.log]; split_ifs <;> rfl

theorem interP_r (tmax : ℝ) (q0 q1 q2 : Quat ℝ) : (interP tmax q0 q1 q2).r = 0 := by
  simp only [interP, qscaleAdd, log_r]; ring

/-- **the defining identity of `intermediate`** (Watt & Watt): for a unit key `q1`,
`intermediate (q0, q1, q2) = q1 · exp P` and `log (q1⁻¹ · intermediate (q0, q1, q2)) = P = -¼ (log (q1⁻¹ q2) + log (q1⁻¹ q0))`,
whenever `|P| < π` and the guard of `log` does not fire for `exp P` (`|P| = 0 ∨ |P| < max · sin |P|`).
The operand ORDER in `q1⁻¹ q0`, `q1⁻¹ q2` (left multiplication by the inverse) and the constant −¼ are part of the statement:
they are what makes consecutive squad segments share their tangent at `q1`. -/
theorem intermediate_defining (tmin tmax : ℝ) (htmax : 1 ≤ tmax) (q0 q1 q2 : Quat ℝ) (h1 : UnitQ q1)
    (hπ : Real.sqrt ((interP tmax q0 q1 q2).v.x * (interP tmax q0 q1 q2).v.x + (interP tmax q0 q1 q2).v.y * (interP tmax q0 q1 q2).v.y +
        (interP tmax q0 q1 q2).v.z * (interP tmax q0 q1 q2).v.z) < Real.pi)
    (hguard : Real.sqrt ((interP tmax q0 q1 q2).v.x * (interP tmax q0 q1 q2).v.x + (interP tmax q0 q1 q2).v.y * (interP tmax q0 q1 q2).v.y +
        (interP tmax q0 q1 q2).v.z * (interP tmax q0 q1 q2).v.z) = 0 ∨
      Real.sqrt ((interP tmax q0 q1 q2).v.x * (interP tmax q0 q1 q2).v.x + (interP tmax q0 q1 q2).v.y * (interP tmax q0 q1 q2).v.y +
        (interP tmax q0 q1 q2).v.z * (interP tmax q0 q1 q2).v.z) <
      tmax * Real.sin (Real.sqrt ((interP tmax q0 q1 q2).v.x * (interP tmax q0 q1 q2).v.x + (interP tmax q0 q1 q2).v.y * (interP tmax q0 q1 q2).v.y +
        (interP tmax q0 q1 q2).v.z * (interP tmax q0 q1 q2).v.z))) :
    Gen.C10.Quat.intermediate tmin tmax Real.sqrt Real.sin Real.cos Real.arccos q0 q1 q2 =
        Gen.C10.Quat.mul q1 (Gen.C10.Quat.exp tmin tmax Real.sqrt Real.sin Real.cos (interP tmax q0 q1 q2)) ∧
    Gen.C10.Quat.log tmax Real.sin Real.arccos
        (Gen.C10.Quat.mul (Gen.C10.Quat.inverse q1)
          (Gen.C10.Quat.intermediate tmin tmax Real.sqrt Real.sin Real.cos Real.arccos q0 q1 q2)) =
      interP tmax q0 q1 q2 := by
  have hu : UnitQ (Gen.C10.Quat.mul q1 (Gen.C10.Quat.exp tmin tmax Real.sqrt Real.sin Real.cos (interP tmax q0 q1 q2))) :=
    Quat_mul_unit _ _ h1 (exp_real tmin tmax htmax _).2
  have e : Gen.C10.Quat.intermediate tmin tmax Real.sqrt Real.sin Real.cos Real.arccos q0 q1 q2 =
      Gen.C10.Quat.mul q1 (Gen.C10.Quat.exp tmin tmax Real.sqrt Real.sin Real.cos (interP tmax q0 q1 q2)) := by
    rw [intermediate_eq]
    exact Quat_normalize_of_unit_simp Real.sqrt real_sqrt_spec _ hu
  refine ⟨e, ?_⟩
  rw [e, Quat_inverse_mul_cancel _ _ h1]
  exact log_exp tmin tmax htmax _ (interP_r tmax q0 q1 q2) hπ hguard

/-- non-vacuity of `intermediate_defining`: keys i, 1, i (a quarter turn about x on either side of the identity), max = 2:
`P = (0; -π/4, 0, 0)`, `|P| = π/4 < π` and `π/4 < 2 sin (π/4) = √2` -/
theorem interP_example : interP 2 ⟨0, ⟨1, 0, 0⟩⟩ ⟨1, ⟨0, 0, 0⟩⟩ ⟨0, ⟨1, 0, 0⟩⟩ = ⟨0, ⟨-(Real.pi / 4), 0, 0⟩⟩ := by
  have hm : Gen.C10.Quat.mul (Gen.C10.Quat.inverse (⟨1, ⟨0, 0, 0⟩⟩ : Quat ℝ)) ⟨0, ⟨1, 0, 0⟩⟩ = ⟨0, ⟨1, 0, 0⟩⟩ := by
    simp [Gen.C10.Quat.mul, Gen.C10.Quat.inverse]
  have hl : Gen.C10.Quat.log 2 Real.sin Real.arccos (⟨0, ⟨1, 0, 0⟩⟩ : Quat ℝ) = ⟨0, ⟨Real.pi / 2, 0, 0⟩⟩ := by
    have h2 : Real.pi / 2 ≠ 0 := by have := Real.pi_pos; positivity
    simp [Gen.C10.Quat.log, smin_eq_min, Real.arccos_zero, Real.sin_pi_div_two, sabs, h2]
  simp only [interP, hm, hl, qscaleAdd]
  congr 1
  · ring
  congr 1 <;> ring

example : let P := interP 2 ⟨0, ⟨1, 0, 0⟩⟩ ⟨1, ⟨0, 0, 0⟩⟩ ⟨0, ⟨1, 0, 0⟩⟩
    (1 : ℝ) ≤ 2 ∧ UnitQ (⟨1, ⟨0, 0, 0⟩⟩ : Quat ℝ) ∧
    Real.sqrt (P.v.x * P.v.x + P.v.y * P.v.y + P.v.z * P.v.z) < Real.pi ∧
    Real.sqrt (P.v.x * P.v.x + P.v.y * P.v.y + P.v.z * P.v.z) < 2 * Real.sin (Real.sqrt (P.v.x * P.v.x + P.v.y * P.v.y + P.v.z * P.v.z)) := by
  intro P
  have hP : P = ⟨0, ⟨-(Real.pi / 4), 0, 0⟩⟩ := interP_example
  have hpos := Real.pi_pos
  have hs : Real.sqrt (P.v.x * P.v.x + P.v.y * P.v.y + P.v.z * P.v.z) = Real.pi / 4 := by
    rw [hP]; simp only
    rw [show -(Real.pi / 4) * -(Real.pi / 4) + 0 * 0 + 0 * 0 = (Real.pi / 4) * (Real.pi / 4) by ring]
    exact Real.sqrt_mul_self (by positivity)
  refine ⟨by norm_num, unit_identity, ?_, ?_⟩
  · rw [hs]; linarith
  · rw [hs, Real.sin_pi_div_four]
    have h4 := Real.pi_le_four
    have h2 : (1 : ℝ) < Real.sqrt 2 := by
      rw [show (1 : ℝ) = Real.sqrt 1 by simp]; exact Real.sqrt_lt_sqrt (by norm_num) (by norm_num)
    linarith

/-- all keys equal to the identity: `intermediate (1, 1, 1) = 1` -/
theorem intermediate_identity (tmin tmax : ℝ) :
    Gen.C10.Quat.intermediate tmin tmax Real.sqrt Real.sin Real.cos Real.arccos ⟨1, ⟨0, 0, 0⟩⟩ ⟨1, ⟨0, 0, 0⟩⟩ ⟨1, ⟨0, 0, 0⟩⟩ = ⟨1, ⟨0, 0, 0⟩⟩ := by
  have hm : Gen.C10.Quat.mul (Gen.C10.Quat.inverse (⟨1, ⟨0, 0, 0⟩⟩ : Quat ℝ)) ⟨1, ⟨0, 0, 0⟩⟩ = ⟨1, ⟨0, 0, 0⟩⟩ := by
    simp [Gen.C10.Quat.mul, Gen.C10.Quat.inverse]
  have hl : Gen.C10.Quat.log tmax Real.sin Real.arccos (⟨1, ⟨0, 0, 0⟩⟩ : Quat ℝ) = ⟨0, ⟨0, 0, 0⟩⟩ := by
    simp [Gen.C10.Quat.log, smin_eq_min]
  have he : Gen.C10.Quat.exp tmin tmax Real.sqrt Real.sin Real.cos (⟨0, ⟨0, 0, 0⟩⟩ : Quat ℝ) = ⟨1, ⟨0, 0, 0⟩⟩ := by
    simp only [Gen.C10.Quat.exp, C08.V3_length_eq tmin tmax real_sqrt_spec]
    simp [sabs]
  rw [intermediate_eq, hm, hl]
  have hq : qscaleAdd (-(1 / 4) : ℝ) ⟨0, ⟨0, 0, 0⟩⟩ ⟨0, ⟨0, 0, 0⟩⟩ = ⟨0, ⟨0, 0, 0⟩⟩ := by simp [qscaleAdd]
  rw [hq, he]
  have hmm : Gen.C10.Quat.mul (⟨1, ⟨0, 0, 0⟩⟩ : Quat ℝ) ⟨1, ⟨0, 0, 0⟩⟩ = ⟨1, ⟨0, 0, 0⟩⟩ := by simp [Gen.C10.Quat.mul]
  rw [hmm]
  exact Quat_normalize_of_unit_simp Real.sqrt real_sqrt_spec _ unit_identity

/-- non-vacuity of `squad_keys_real` / `spline_keys_real`: all four keys the identity quaternion -/
example (tmin tmax : ℝ) : let e : Quat ℝ := ⟨1, ⟨0, 0, 0⟩⟩
    UnitQ e ∧ e ≠ Gen.C10.Quat.neg e ∧
    Gen.C10.Quat.intermediate tmin tmax Real.sqrt Real.sin Real.cos Real.arccos e e e ≠
      Gen.C10.Quat.neg (Gen.C10.Quat.intermediate tmin tmax Real.sqrt Real.sin Real.cos Real.arccos e e e) ∧
    e ≠ Gen.C10.Quat.neg (Gen.C10.Quat.intermediate tmin tmax Real.sqrt Real.sin Real.cos Real.arccos e e e) := by
  intro e
  have hne : e ≠ Gen.C10.Quat.neg e := by
    intro h; have := congrArg Quat.r h; norm_num [e, Gen.C10.Quat.neg] at this
  simp only [e] at hne ⊢
  rw [intermediate_identity]
  exact ⟨unit_identity, hne, hne, hne⟩

/-! ## slerp in exponential form: `slerp (q1, q2, t) = q1 · exp (t · log (q1⁻¹ q2))` -/

/-- `x · sin |x| / |x| = sin x` -/
theorem mul_sin_abs_div_abs (x : ℝ) (hx : x ≠ 0) : x * (Real.sin |x| / |x|) = Real.sin x := by
  rcases lt_or_gt_of_ne hx with h | h
  · rw [abs_of_neg h, Real.sin_neg]; field_simp
  · rw [abs_of_pos h]; field_simp

/-- **slerp in exponential form** (ℝ, real functions): off the tiny-angle tests, for unit q1, q2 with q1 ≠ −q2 and log's guard not firing
for `c = q1⁻¹ q2`, `slerp (q1, q2, t) = q1 · exp (t · log (q1⁻¹ q2))` — the form in which "squad's tangent at a key depends only on the key
and its intermediate" is a two-line computation; it also fixes the ORDER `q1⁻¹ q2` (left multiplication), which the linear-angle statement
does not. `t · log c` is written out as the pure quaternion `(0, (log c).v · t)`. -/
theorem slerp_exp_form (tmin tmax teps : ℝ) (htmax : 1 ≤ tmax) (hteps : 0 < teps) (q1 q2 : Quat ℝ) (t : ℝ) (h1 : UnitQ q1) (h2 : UnitQ q2)
    (hne : q1 ≠ Gen.C10.Quat.neg q2)
    (hbig : let θ := Gen.C10.Quat.angle4D Real.sqrt ratan2 q1 q2
            ¬ θ * θ < teps ∧ ¬ (t * θ) * (t * θ) < teps ∧ ¬ ((1 - t) * θ) * ((1 - t) * θ) < teps)
    (hguard : Gen.C10.Quat.angle4D Real.sqrt ratan2 q1 q2 < tmax * Real.sin (Gen.C10.Quat.angle4D Real.sqrt ratan2 q1 q2)) :
    let L := Gen.C10.Quat.log tmax Real.sin Real.arccos (Gen.C10.Quat.mul (Gen.C10.Quat.inverse q1) q2)
    Gen.C10.Quat.slerp teps Real.sqrt Real.sin ratan2 q1 q2 t =
      Gen.C10.Quat.mul q1 (Gen.C10.Quat.exp tmin tmax Real.sqrt Real.sin Real.cos ⟨0, ⟨L.v.x * t, L.v.y * t, L.v.z * t⟩⟩) := by
  intro L
  obtain ⟨hlin, _, _⟩ := slerp_angle_linear_real teps hteps q1 q2 t h1 h2 hne hbig
  rw [hlin]
  have hcosθ := cos_angle4D_real q1 q2 h1 h2
  obtain ⟨hθ0', hθπ⟩ := angle4D_real_range q1 q2 hne
  have hb := hbig
  generalize hθdef : Gen.C10.Quat.angle4D Real.sqrt ratan2 q1 q2 = θ at *
  obtain ⟨hb0, hb1, _⟩ := hb
  have hθne : θ ≠ 0 := by intro h; rw [h, mul_zero] at hb0; exact hb0 hteps
  have hθ0 : 0 < θ := lt_of_le_of_ne hθ0' (Ne.symm hθne)
  have hx : t * θ ≠ 0 := by intro h; rw [h, mul_zero] at hb1; exact hb1 hteps
  have hs0 : 0 < Real.sin θ := Real.sin_pos_of_pos_of_lt_pi hθ0 hθπ
  -- c = q1⁻¹ q2 = ~q1 q2 : real part cos θ, unit
  have hinv := Quat_inverse_unit q1 h1
  have hcu : UnitQ (Gen.C10.Quat.mul (Gen.C10.Quat.conj q1) q2) :=
    Quat_mul_unit _ _ (by simp only [UnitQ, normSq, Gen.C10.Quat.conj] at *; linarith) h2
  have hL : L = Gen.C10.Quat.log tmax Real.sin Real.arccos (Gen.C10.Quat.mul (Gen.C10.Quat.conj q1) q2) := by
    simp only [L, hinv]
  obtain ⟨c, hc⟩ : ∃ c, Gen.C10.Quat.mul (Gen.C10.Quat.conj q1) q2 = c := ⟨_, rfl⟩
  obtain ⟨cr, ⟨cx, cy, cz⟩⟩ := c
  have hcr : cr = Real.cos θ := by
    have := congrArg Quat.r hc
    simp only [Gen.C10.Quat.mul, Gen.C10.Quat.conj] at this
    rw [hcosθ, ← this, Quat_dot4]; ring
  rw [hc] at hcu hL
  simp only [UnitQ, normSq] at hcu
  have hv2 : cx * cx + cy * cy + cz * cz = Real.sin θ * Real.sin θ := by
    have := Real.sin_sq_add_cos_sq θ
    rw [hcr] at hcu; nlinarith
  -- log c = (0, c.v θ / sin θ)
  have hsmin : smin (Real.cos θ) 1 = Real.cos θ := by
    simp only [smin]; rw [if_neg (not_lt.mpr (Real.cos_le_one θ))]
  have hacos : Real.arccos (Real.cos θ) = θ := Real.arccos_cos hθ0.le hθπ.le
  have hlog : L = ⟨0, ⟨cx * (θ / Real.sin θ), cy * (θ / Real.sin θ), cz * (θ / Real.sin θ)⟩⟩ := by
    rw [hL, hcr]
    simp only [Gen.C10.Quat.log, hsmin, hacos, hθne, sabs_of_nonneg hs0.le, sabs_of_nonneg hθ0.le, not_le.mpr hguard, ↓reduceIte]
    split_ifs <;> rfl
  rw [hlog]
  simp only
  -- exp of the pure quaternion: angle |t θ|
  have hang : Real.sqrt (cx * (θ / Real.sin θ) * t * (cx * (θ / Real.sin θ) * t) + cy * (θ / Real.sin θ) * t * (cy * (θ / Real.sin θ) * t) +
      cz * (θ / Real.sin θ) * t * (cz * (θ / Real.sin θ) * t)) = |t * θ| := by
    have : cx * (θ / Real.sin θ) * t * (cx * (θ / Real.sin θ) * t) + cy * (θ / Real.sin θ) * t * (cy * (θ / Real.sin θ) * t) +
        cz * (θ / Real.sin θ) * t * (cz * (θ / Real.sin θ) * t) = (t * θ) * (t * θ) := by
      have : cx * (θ / Real.sin θ) * t * (cx * (θ / Real.sin θ) * t) + cy * (θ / Real.sin θ) * t * (cy * (θ / Real.sin θ) * t) +
          cz * (θ / Real.sin θ) * t * (cz * (θ / Real.sin θ) * t) = (cx * cx + cy * cy + cz * cz) * ((θ / Real.sin θ) * t * ((θ / Real.sin θ) * t)) := by ring
      rw [this, hv2]; field_simp
    rw [this]; exact Real.sqrt_mul_self_eq_abs _
  rw [(exp_real tmin tmax htmax _).1]
  simp only [hang, Real.cos_abs]
  have hk : ∀ w : ℝ, w * (θ / Real.sin θ) * t * (Real.sin |t * θ| / |t * θ|) = w * (Real.sin (t * θ) / Real.sin θ) := by
    intro w
    have := mul_sin_abs_div_abs (t * θ) hx
    calc w * (θ / Real.sin θ) * t * (Real.sin |t * θ| / |t * θ|) = w / Real.sin θ * ((t * θ) * (Real.sin |t * θ| / |t * θ|)) := by field_simp
      _ = w * (Real.sin (t * θ) / Real.sin θ) := by rw [this]; field_simp
  simp only [hk]
  -- c.v in terms of q1, q2; sin ((1-t) θ) by the subtraction formula
  have hsub : Real.sin ((1 - t) * θ) = Real.sin θ * Real.cos (t * θ) - Real.cos θ * Real.sin (t * θ) := by
    rw [show (1 - t) * θ = θ - t * θ by ring, Real.sin_sub]
  have ecx := congrArg (fun q : Quat ℝ => q.v.x) hc
  have ecy := congrArg (fun q : Quat ℝ => q.v.y) hc
  have ecz := congrArg (fun q : Quat ℝ => q.v.z) hc
  simp only [Gen.C10.Quat.mul, Gen.C10.Quat.conj] at ecx ecy ecz
  rw [hsub, hcosθ, Quat_dot4, ← ecx, ← ecy, ← ecz]
  simp only [UnitQ, normSq] at h1
  generalize Real.sin (t * θ) = sx
  generalize Real.cos (t * θ) = cxx
  generalize hsdef : Real.sin θ = s at *
  have hsne : s ≠ 0 := hs0.ne'
  simp only [lincomb, Gen.C10.Quat.mul]
  congr 1
  · field_simp; linear_combination (-(sx * q2.r)) * h1
  congr 1
  · field_simp; linear_combination (-(sx * q2.v.x)) * h1
  · field_simp; linear_combination (-(sx * q2.v.y)) * h1
  · field_simp; linear_combination (-(sx * q2.v.z)) * h1
/-- non-vacuity of `slerp_exp_form`: q1 = 1, q2 = i (θ = π/2), t = 1/2, ε = 1/100, max = 3 (π/2 < 3 sin (π/2) = 3) -/
example : let q1 : Quat ℝ := ⟨1, ⟨0, 0, 0⟩⟩; let q2 : Quat ℝ := ⟨0, ⟨1, 0, 0⟩⟩
    let θ := Gen.C10.Quat.angle4D Real.sqrt ratan2 q1 q2
    UnitQ q1 ∧ UnitQ q2 ∧ q1 ≠ Gen.C10.Quat.neg q2 ∧ θ < 3 * Real.sin θ ∧
    ¬ θ * θ < 1 / 100 ∧ ¬ ((1 / 2 : ℝ) * θ) * ((1 / 2 : ℝ) * θ) < 1 / 100 ∧ ¬ ((1 - 1 / 2 : ℝ) * θ) * ((1 - 1 / 2 : ℝ) * θ) < 1 / 100 := by
  intro q1 q2 θ
  have u1 : UnitQ q1 := by norm_num [q1, UnitQ, normSq]
  have u2 : UnitQ q2 := by norm_num [q2, UnitQ, normSq]
  have hne : q1 ≠ Gen.C10.Quat.neg q2 := by
    intro h; have := congrArg Quat.r h; norm_num [q1, q2, Gen.C10.Quat.neg] at this
  have hc : Real.cos θ = 0 := by
    rw [cos_angle4D_real q1 q2 u1 u2]; norm_num [q1, q2, Gen.C10.Quat.dot4]
  obtain ⟨h0, hpi⟩ := angle4D_real_range q1 q2 hne
  have hθ : θ = Real.pi / 2 := by
    have := Real.arccos_cos h0 hpi.le
    rw [hc, Real.arccos_zero] at this; exact this.symm
  have hp := Real.two_le_pi
  have h4 := Real.pi_le_four
  refine ⟨u1, u2, hne, ?_, ?_, ?_, ?_⟩
  · rw [hθ, Real.sin_pi_div_two]; linarith
  all_goals (rw [hθ]; nlinarith)

/-! ## a non-degenerate witness for `spline_keys_real`: keys 1, 1, i, i (max = 2) -/

theorem guard_small (θ : ℝ) (h0 : 0 < θ) (h1 : θ ≤ 1) : θ < 2 * Real.sin θ := by
  have := Real.sin_gt_sub_cube h0
  have h3 : θ ^ 3 ≤ θ := by
    have : θ ^ 3 = θ * (θ * θ) := by ring
    rw [this]; nlinarith [mul_nonneg h0.le h0.le, mul_le_one₀ h1 h0.le h1]
  linarith

theorem log_i : Gen.C10.Quat.log 2 Real.sin Real.arccos (⟨0, ⟨1, 0, 0⟩⟩ : Quat ℝ) = ⟨0, ⟨Real.pi / 2, 0, 0⟩⟩ := by
  have h2 : Real.pi / 2 ≠ 0 := by have := Real.pi_pos; positivity
  simp [Gen.C10.Quat.log, smin_eq_min, Real.arccos_zero, Real.sin_pi_div_two, sabs, h2]
theorem log_neg_i : Gen.C10.Quat.log 2 Real.sin Real.arccos (⟨0, ⟨-1, 0, 0⟩⟩ : Quat ℝ) = ⟨0, ⟨-(Real.pi / 2), 0, 0⟩⟩ := by
  have h2 : Real.pi / 2 ≠ 0 := by have := Real.pi_pos; positivity
  simp [Gen.C10.Quat.log, smin_eq_min, Real.arccos_zero, Real.sin_pi_div_two, sabs, h2]
theorem log_one : Gen.C10.Quat.log 2 Real.sin Real.arccos (⟨1, ⟨0, 0, 0⟩⟩ : Quat ℝ) = ⟨0, ⟨0, 0, 0⟩⟩ := by
  simp [Gen.C10.Quat.log, smin_eq_min]

theorem interP_11i : interP 2 ⟨1, ⟨0, 0, 0⟩⟩ ⟨1, ⟨0, 0, 0⟩⟩ ⟨0, ⟨1, 0, 0⟩⟩ = ⟨0, ⟨-(Real.pi / 8), 0, 0⟩⟩ := by
  have hm0 : Gen.C10.Quat.mul (Gen.C10.Quat.inverse (⟨1, ⟨0, 0, 0⟩⟩ : Quat ℝ)) ⟨1, ⟨0, 0, 0⟩⟩ = ⟨1, ⟨0, 0, 0⟩⟩ := by
    simp [Gen.C10.Quat.mul, Gen.C10.Quat.inverse]
  have hm2 : Gen.C10.Quat.mul (Gen.C10.Quat.inverse (⟨1, ⟨0, 0, 0⟩⟩ : Quat ℝ)) ⟨0, ⟨1, 0, 0⟩⟩ = ⟨0, ⟨1, 0, 0⟩⟩ := by
    simp [Gen.C10.Quat.mul, Gen.C10.Quat.inverse]
  simp only [interP, hm0, hm2, log_i, log_one, qscaleAdd]
  congr 1
  · ring
  congr 1 <;> ring
theorem interP_1ii : interP 2 ⟨1, ⟨0, 0, 0⟩⟩ ⟨0, ⟨1, 0, 0⟩⟩ ⟨0, ⟨1, 0, 0⟩⟩ = ⟨0, ⟨Real.pi / 8, 0, 0⟩⟩ := by
  have hm0 : Gen.C10.Quat.mul (Gen.C10.Quat.inverse (⟨0, ⟨1, 0, 0⟩⟩ : Quat ℝ)) ⟨1, ⟨0, 0, 0⟩⟩ = ⟨0, ⟨-1, 0, 0⟩⟩ := by
    simp [Gen.C10.Quat.mul, Gen.C10.Quat.inverse]
  have hm2 : Gen.C10.Quat.mul (Gen.C10.Quat.inverse (⟨0, ⟨1, 0, 0⟩⟩ : Quat ℝ)) ⟨0, ⟨1, 0, 0⟩⟩ = ⟨1, ⟨0, 0, 0⟩⟩ := by
    simp [Gen.C10.Quat.mul, Gen.C10.Quat.inverse]
  simp only [interP, hm0, hm2, log_neg_i, log_one, qscaleAdd]
  congr 1
  · ring
  congr 1 <;> ring

/-- real parts of the two intermediates of the key quadruple (1, 1, i, i): `cos (π/8)` and `-sin (π/8)` -/
theorem spline_witness_intermediates (tmin : ℝ) :
    (Gen.C10.Quat.intermediate tmin 2 Real.sqrt Real.sin Real.cos Real.arccos ⟨1, ⟨0, 0, 0⟩⟩ ⟨1, ⟨0, 0, 0⟩⟩ ⟨0, ⟨1, 0, 0⟩⟩).r = Real.cos (Real.pi / 8) ∧
    (Gen.C10.Quat.intermediate tmin 2 Real.sqrt Real.sin Real.cos Real.arccos ⟨1, ⟨0, 0, 0⟩⟩ ⟨0, ⟨1, 0, 0⟩⟩ ⟨0, ⟨1, 0, 0⟩⟩).r = -Real.sin (Real.pi / 8) := by
  have hpos := Real.pi_pos
  have h8 : 0 < Real.pi / 8 := by positivity
  have h81 : Real.pi / 8 ≤ 1 := by have := Real.pi_le_four; linarith
  have hs1 : Real.sqrt (-(Real.pi / 8) * -(Real.pi / 8) + 0 * 0 + 0 * 0) = Real.pi / 8 := by
    rw [show -(Real.pi / 8) * -(Real.pi / 8) + 0 * 0 + 0 * 0 = (Real.pi / 8) * (Real.pi / 8) by ring]
    exact Real.sqrt_mul_self h8.le
  have hs2 : Real.sqrt (Real.pi / 8 * (Real.pi / 8) + 0 * 0 + 0 * 0) = Real.pi / 8 := by
    rw [show Real.pi / 8 * (Real.pi / 8) + 0 * 0 + 0 * 0 = (Real.pi / 8) * (Real.pi / 8) by ring]
    exact Real.sqrt_mul_self h8.le
  have u1 : UnitQ (⟨1, ⟨0, 0, 0⟩⟩ : Quat ℝ) := unit_identity
  have ui : UnitQ (⟨0, ⟨1, 0, 0⟩⟩ : Quat ℝ) := by norm_num [UnitQ, normSq]
  have g := guard_small _ h8 h81
  constructor
  · have hd := (intermediate_defining tmin 2 (by norm_num) ⟨1, ⟨0, 0, 0⟩⟩ ⟨1, ⟨0, 0, 0⟩⟩ ⟨0, ⟨1, 0, 0⟩⟩ u1
      (by rw [interP_11i]; simp only; rw [hs1]; linarith) (by rw [interP_11i]; simp only; rw [hs1]; exact Or.inr g)).1
    rw [hd, interP_11i, (exp_real tmin 2 (by norm_num) _).1]
    simp only [hs1, Gen.C10.Quat.mul]
    ring
  · have hd := (intermediate_defining tmin 2 (by norm_num) ⟨1, ⟨0, 0, 0⟩⟩ ⟨0, ⟨1, 0, 0⟩⟩ ⟨0, ⟨1, 0, 0⟩⟩ ui
      (by rw [interP_1ii]; simp only; rw [hs2]; linarith) (by rw [interP_1ii]; simp only; rw [hs2]; exact Or.inr g)).1
    rw [hd, interP_1ii, (exp_real tmin 2 (by norm_num) _).1]
    simp only [hs2, Gen.C10.Quat.mul]
    field_simp
    ring

/-- **non-degenerate non-vacuity of `spline_keys_real`** (and of `squad_keys_real`): the key quadruple (1, 1, i, i) with max = 2 —
the segment 1 → i is a quarter turn, the two intermediates are `exp (∓ π/8 i)`-rotations of their keys, and no pair of slerp
arguments is antipodal -/
example (tmin : ℝ) :
    let e : Quat ℝ := ⟨1, ⟨0, 0, 0⟩⟩; let i : Quat ℝ := ⟨0, ⟨1, 0, 0⟩⟩
    let a := Gen.C10.Quat.intermediate tmin 2 Real.sqrt Real.sin Real.cos Real.arccos e e i
    let b := Gen.C10.Quat.intermediate tmin 2 Real.sqrt Real.sin Real.cos Real.arccos e i i
    UnitQ e ∧ UnitQ i ∧ e ≠ Gen.C10.Quat.neg i ∧ a ≠ Gen.C10.Quat.neg b ∧ e ≠ Gen.C10.Quat.neg a ∧ i ≠ Gen.C10.Quat.neg b := by
  intro e i a b
  obtain ⟨ha, hb⟩ := spline_witness_intermediates tmin
  have hpos := Real.pi_pos
  have hs : 0 < Real.sin (Real.pi / 8) := Real.sin_pos_of_pos_of_lt_pi (by positivity) (by linarith)
  have hc : 0 < Real.cos (Real.pi / 8) := Real.cos_pos_of_mem_Ioo ⟨by linarith, by linarith⟩
  have hlt : Real.sin (Real.pi / 8) < Real.cos (Real.pi / 8) := by
    rw [← Real.sin_pi_div_two_sub]
    exact Real.sin_lt_sin_of_lt_of_le_pi_div_two (by linarith) (by linarith) (by linarith)
  refine ⟨unit_identity, by norm_num [i, UnitQ, normSq], ?_, ?_, ?_, ?_⟩
  · intro h; have := congrArg Quat.r h; norm_num [e, i, Gen.C10.Quat.neg] at this
  · intro h; have := congrArg Quat.r h
    simp only [Gen.C10.Quat.neg] at this
    rw [show a.r = Real.cos (Real.pi / 8) from ha, show b.r = -Real.sin (Real.pi / 8) from hb] at this
    linarith
  · intro h; have := congrArg Quat.r h
    simp only [Gen.C10.Quat.neg] at this
    rw [show a.r = Real.cos (Real.pi / 8) from ha] at this
    simp only [e] at this; linarith
  · intro h; have := congrArg Quat.r h
    simp only [Gen.C10.Quat.neg] at this
    rw [show b.r = -Real.sin (Real.pi / 8) from hb] at this
    simp only [i] at this; linarith
/-! ## `setRotation (from, to)` / `rotationMatrix (from, to)`: a unit rotation carrying from/‖from‖ onto to/‖to‖

Stated about the MODULAR extraction `Gen.C10.Quat.setRotationMod` (harness/sym/sym_c10c.cpp: the real
`Quat::setRotation` with `Vec3::normalized` and the private `Quat::setRotationInternal` as opaque calls of their own
extracted definitions `Gen.C10.V3.normalized`, `Gen.C10.Quat.setRotationInternal`; 13 paths), validated bitwise against the
real code (tv) and at exact fractions against the emitted text (lean-tv, callees = the real templates at T = Frac) on every
run.  (A flat 115-path twin used to be extracted as well; it appeared in no theorem and was removed.)  All three paths are covered: f0·t0 ≥ 0 (one step), split at the halfway vector (two steps, which commute
because both axes are parallel to f0 × t0), and the antipodal fallback, taken when |f0 + t0| ≤ 8 ε (half turn about an
axis orthogonal to f0; the smallest-component choice guarantees a non-zero cross product). -/

section setRotation
variable {α : Type} [Field α] [LinearOrder α] [IsStrictOrderedRing α]

/-- **setRotation (from, to)** on the modular extraction, all three paths.
With f0 = from.normalized (), t0 = to.normalized () (unit because from, to ≠ 0) the result r is a unit quaternion;
it carries f0 onto t0 whenever the main path (f0·t0 ≥ 0) or the split path (|f0 + t0|² > (8 ε)²) is taken; on the
antipodal fallback (|f0 + t0|² ≤ (8 ε)²) it carries f0 onto −f0 (which is t0 when the vectors are exactly opposite,
and within 8 ε of t0 otherwise). -/
theorem setRotationMod_spec (tmin tmax teps : α) {sqrt : α → α} (hsqrt : SqrtSpec sqrt) (q0 : Quat α) (vfrom vto : V3 α)
    (hfrom : vfrom ≠ ⟨0, 0, 0⟩) (hto : vto ≠ ⟨0, 0, 0⟩) :
    let f0 := Gen.C10.V3.normalized tmin tmax sqrt vfrom
    let t0 := Gen.C10.V3.normalized tmin tmax sqrt vto
    let r := Gen.C10.Quat.setRotationMod tmin tmax teps sqrt q0 vfrom vto
    UnitV f0 ∧ UnitV t0 ∧ UnitQ r ∧
    ((0 ≤ f0.x * t0.x + f0.y * t0.y + f0.z * t0.z ∨
      (8 * teps) * (8 * teps) < (f0.x + t0.x) * (f0.x + t0.x) + (f0.y + t0.y) * (f0.y + t0.y) + (f0.z + t0.z) * (f0.z + t0.z)) →
        Gen.C10.Quat.rotateVector r f0 = t0) ∧
    (¬ (0 ≤ f0.x * t0.x + f0.y * t0.y + f0.z * t0.z) →
     ¬ ((8 * teps) * (8 * teps) < (f0.x + t0.x) * (f0.x + t0.x) + (f0.y + t0.y) * (f0.y + t0.y) + (f0.z + t0.z) * (f0.z + t0.z)) →
        Gen.C10.Quat.rotateVector r f0 = ⟨-f0.x, -f0.y, -f0.z⟩) := by
  obtain ⟨a, b, c⟩ := vfrom
  obtain ⟨d, e, g⟩ := vto
  have hF := (V3_normalized_of_ne_zero tmin tmax hsqrt _ hfrom).2
  have hT := (V3_normalized_of_ne_zero tmin tmax hsqrt _ hto).2
  intro f0 t0 r
  simp only [f0, t0, r, Gen.C10.Quat.setRotationMod]
  generalize Gen.C10.V3.normalized tmin tmax sqrt ⟨a, b, c⟩ = F at hF ⊢
  generalize Gen.C10.V3.normalized tmin tmax sqrt ⟨d, e, g⟩ = T at hT ⊢
  obtain ⟨fx, fy, fz⟩ := F
  obtain ⟨tx, ty, tz⟩ := T
  simp only
  refine ⟨hF, hT, ?_⟩
  have hsum := sum_len2 ⟨fx, fy, fz⟩ ⟨tx, ty, tz⟩ hF hT
  simp only at hsum
  by_cases h1 : 0 ≤ fx * tx + fy * ty + fz * tz
  · -- main path
    simp only [h1, ↓reduceIte, true_or, not_true_eq_false, forall_const, IsEmpty.forall_iff, and_true]
    have hs := sum_ne_zero ⟨fx, fy, fz⟩ ⟨tx, ty, tz⟩ hF hT (by simp only; linarith)
    obtain ⟨u, _, rv, _⟩ := sri_spec tmin tmax hsqrt ⟨fx, fy, fz⟩ ⟨tx, ty, tz⟩ hF hT hs
    exact ⟨u, rv⟩
  · by_cases h2 : (8 * teps) * (8 * teps) < (fx + tx) * (fx + tx) + (fy + ty) * (fy + ty) + (fz + tz) * (fz + tz)
    · -- split at the halfway vector
      have hc : -1 < fx * tx + fy * ty + fz * tz := by
        have := mul_self_nonneg (8 * teps); linarith
      obtain ⟨hH, hu, hr⟩ := split_spec tmin tmax hsqrt ⟨fx, fy, fz⟩ ⟨tx, ty, tz⟩ hF hT hc
      simp only at hH hu hr
      have hne : ¬ ((Gen.C10.V3.normalized tmin tmax sqrt ⟨fx + tx, fy + ty, fz + tz⟩).x * (Gen.C10.V3.normalized tmin tmax sqrt ⟨fx + tx, fy + ty, fz + tz⟩).x +
          (Gen.C10.V3.normalized tmin tmax sqrt ⟨fx + tx, fy + ty, fz + tz⟩).y * (Gen.C10.V3.normalized tmin tmax sqrt ⟨fx + tx, fy + ty, fz + tz⟩).y +
          (Gen.C10.V3.normalized tmin tmax sqrt ⟨fx + tx, fy + ty, fz + tz⟩).z * (Gen.C10.V3.normalized tmin tmax sqrt ⟨fx + tx, fy + ty, fz + tz⟩).z = 0) := by
        simp only [UnitV] at hH; rw [hH]; exact one_ne_zero
      simp only [h1, h2, hne, ↓reduceIte, false_or, true_implies, not_true_eq_false, not_false_eq_true, forall_const,
        IsEmpty.forall_iff, and_true]
      exact ⟨hu, hr⟩
    · -- antipodal fallback
      have h0 : ((0 : α) * 0 + 0 * 0 + 0 * 0 = 0) := by ring
      simp only [h1, h2, h0, ↓reduceIte, false_or, not_false_eq_true, forall_const, false_implies, true_and]
      exact fallback_leaves tmin tmax hsqrt fx fy fz hF

/-- in every case the image of f0 is within `8 ε` of t0 (squared distance ≤ (8 ε)²), and exactly t0 off the fallback -/
theorem setRotationMod_carries (tmin tmax teps : α) {sqrt : α → α} (hsqrt : SqrtSpec sqrt) (q0 : Quat α) (vfrom vto : V3 α)
    (hfrom : vfrom ≠ ⟨0, 0, 0⟩) (hto : vto ≠ ⟨0, 0, 0⟩) :
    let f0 := Gen.C10.V3.normalized tmin tmax sqrt vfrom
    let t0 := Gen.C10.V3.normalized tmin tmax sqrt vto
    let p := Gen.C10.Quat.rotateVector (Gen.C10.Quat.setRotationMod tmin tmax teps sqrt q0 vfrom vto) f0
    (p.x - t0.x) * (p.x - t0.x) + (p.y - t0.y) * (p.y - t0.y) + (p.z - t0.z) * (p.z - t0.z) ≤ (8 * teps) * (8 * teps) := by
  obtain ⟨_, _, _, h1, h2⟩ := setRotationMod_spec tmin tmax teps hsqrt q0 vfrom vto hfrom hto
  intro f0 t0 p
  by_cases hc : (0 ≤ f0.x * t0.x + f0.y * t0.y + f0.z * t0.z ∨
      (8 * teps) * (8 * teps) < (f0.x + t0.x) * (f0.x + t0.x) + (f0.y + t0.y) * (f0.y + t0.y) + (f0.z + t0.z) * (f0.z + t0.z))
  · have : p = t0 := h1 hc
    rw [this]; simp only [sub_self, mul_zero, add_zero]; exact mul_self_nonneg _
  · rw [not_or] at hc
    have : p = ⟨-f0.x, -f0.y, -f0.z⟩ := h2 hc.1 hc.2
    rw [this]; simp only
    have := not_lt.mp hc.2
    calc (-f0.x - t0.x) * (-f0.x - t0.x) + (-f0.y - t0.y) * (-f0.y - t0.y) + (-f0.z - t0.z) * (-f0.z - t0.z)
        = (f0.x + t0.x) * (f0.x + t0.x) + (f0.y + t0.y) * (f0.y + t0.y) + (f0.z + t0.z) * (f0.z + t0.z) := by ring
      _ ≤ _ := this

/-- `rotationMatrix (from, to) = setRotation (from, to) . toMatrix44 ()` -/
theorem rotationMatrixMod_eq (tmin tmax teps : α) (sqrt : α → α) (q0 : Quat α) (vfrom vto : V3 α) :
    Gen.C10.rotationMatrixMod tmin tmax teps sqrt vfrom vto =
      Gen.C10.Quat.toMatrix44 (Gen.C10.Quat.setRotationMod tmin tmax teps sqrt q0 vfrom vto) := by
  simp only [Gen.C10.rotationMatrixMod, Gen.C10.Quat.setRotationMod, apply_ite Gen.C10.Quat.toMatrix44,
    Gen.C10.Quat.toMatrix44]
  repeat' (split_ifs with hc <;> simp only [hc, ↓reduceIte])

/-- **rotationMatrix (from, to)**: the matrix is `q.toMatrix44 ()` of a unit quaternion, `f0 * M` (and `M.multDirMatrix (f0)`) lies
within `8 ε` of t0 (squared distance ≤ (8 ε)²) in every case, and is exactly t0 on the main and split paths. -/
theorem rotationMatrixMod_carries (tmin tmax teps : α) {sqrt : α → α} (hsqrt : SqrtSpec sqrt) (vfrom vto : V3 α)
    (hfrom : vfrom ≠ ⟨0, 0, 0⟩) (hto : vto ≠ ⟨0, 0, 0⟩) :
    let f0 := Gen.C10.V3.normalized tmin tmax sqrt vfrom
    let t0 := Gen.C10.V3.normalized tmin tmax sqrt vto
    let M := Gen.C10.rotationMatrixMod tmin tmax teps sqrt vfrom vto
    let p := Gen.C10.V3.mulM44 f0 M
    Gen.C10.M44.multDirMatrix M f0 = p ∧
    (∃ q : Quat α, UnitQ q ∧ M = Gen.C10.Quat.toMatrix44 q) ∧
    (p.x - t0.x) * (p.x - t0.x) + (p.y - t0.y) * (p.y - t0.y) + (p.z - t0.z) * (p.z - t0.z) ≤ (8 * teps) * (8 * teps) ∧
    ((0 ≤ f0.x * t0.x + f0.y * t0.y + f0.z * t0.z ∨
      (8 * teps) * (8 * teps) < (f0.x + t0.x) * (f0.x + t0.x) + (f0.y + t0.y) * (f0.y + t0.y) + (f0.z + t0.z) * (f0.z + t0.z)) →
        p = t0) := by
  intro f0 t0 M p
  have hM : M = Gen.C10.Quat.toMatrix44 (Gen.C10.Quat.setRotationMod tmin tmax teps sqrt ⟨1, ⟨0, 0, 0⟩⟩ vfrom vto) :=
    rotationMatrixMod_eq tmin tmax teps sqrt _ vfrom vto
  obtain ⟨_, _, hu, h1, _⟩ := setRotationMod_spec tmin tmax teps hsqrt ⟨1, ⟨0, 0, 0⟩⟩ vfrom vto hfrom hto
  have hc := setRotationMod_carries tmin tmax teps hsqrt ⟨1, ⟨0, 0, 0⟩⟩ vfrom vto hfrom hto
  obtain ⟨_, _, a3, a4⟩ := Quat_rotate_all_agree _ f0 hu
  have hp : p = Gen.C10.Quat.rotateVector (Gen.C10.Quat.setRotationMod tmin tmax teps sqrt ⟨1, ⟨0, 0, 0⟩⟩ vfrom vto) f0 := by
    simp only [p, hM]; exact a3.symm
  refine ⟨?_, ⟨_, hu, hM⟩, ?_, ?_⟩
  · rw [hp, hM]; exact a4.symm
  · rw [hp]; exact hc
  · intro h; rw [hp]; exact h1 h

end setRotation

/-- non-vacuity (ℝ): from = (1,1,0), to = (-3,-3,0) — the pair on which the unpatched code returned the zero quaternion -/
example : (⟨1, 1, 0⟩ : V3 ℝ) ≠ ⟨0, 0, 0⟩ ∧ (⟨-3, -3, 0⟩ : V3 ℝ) ≠ ⟨0, 0, 0⟩ := by
  constructor <;> (intro h; have := congrArg V3.x h; norm_num at this)

/-! ## aliasing: the same object on both sides

`q *= q`, `q = q * q`, `q /= q`, `q *= q.inverse ()`, `q *= ~q`, `q.setAxisAngle (q.v, a)`, `q.v = q.rotateVector (q.v)`,
`q.setRotation (q.v, to)`, `slerp (q, q, t)` are extracted with ONE symbolic object standing on both sides, so a member
function that reads an operand after having overwritten it (e.g. `r = r*q.r - …; v = r*q.v + …` in `operator*=`) yields
a different definition here although it is identical for distinct operands. -/

theorem Quat_mulAssign {α : Type} [CommRing α] (a b : Quat α) : Gen.C10.Quat.mulAssign a b = Gen.C10.Quat.mul a b := by
  refine Quat.ext' ?_ ?_ ?_ ?_ <;> simp only [Gen.C10.Quat.mulAssign, Gen.C10.Quat.mul] <;> ring
theorem Quat_mulAssignSelf {α : Type} [CommRing α] (a : Quat α) : Gen.C10.Quat.mulAssignSelf a = Gen.C10.Quat.mul a a := by
  refine Quat.ext' ?_ ?_ ?_ ?_ <;> simp only [Gen.C10.Quat.mulAssignSelf, Gen.C10.Quat.mul] <;> ring
theorem Quat_mulSelf {α : Type} [CommRing α] (a : Quat α) : Gen.C10.Quat.mulSelf a = Gen.C10.Quat.mul a a := by
  refine Quat.ext' ?_ ?_ ?_ ?_ <;> simp only [Gen.C10.Quat.mulSelf, Gen.C10.Quat.mul] <;> ring
theorem Quat_mulAssignInverseSelf {α : Type} [Field α] (a : Quat α) :
    Gen.C10.Quat.mulAssignInverseSelf a = Gen.C10.Quat.mul a (Gen.C10.Quat.inverse a) := by
  refine Quat.ext' ?_ ?_ ?_ ?_ <;> simp only [Gen.C10.Quat.mulAssignInverseSelf, Gen.C10.Quat.mul, Gen.C10.Quat.inverse] <;> ring
theorem Quat_mulAssignConjSelf {α : Type} [CommRing α] (a : Quat α) :
    Gen.C10.Quat.mulAssignConjSelf a = Gen.C10.Quat.mul a (Gen.C10.Quat.conj a) := by
  refine Quat.ext' ?_ ?_ ?_ ?_ <;> simp only [Gen.C10.Quat.mulAssignConjSelf, Gen.C10.Quat.mul, Gen.C10.Quat.conj] <;> ring
theorem Quat_divAssignSelf {α : Type} [Field α] (a : Quat α) : Gen.C10.Quat.divAssignSelf a = Gen.C10.Quat.div a a := by
  refine Quat.ext' ?_ ?_ ?_ ?_ <;> simp only [Gen.C10.Quat.divAssignSelf, Gen.C10.Quat.div] <;> ring
theorem Quat_divSelf {α : Type} [Field α] (a : Quat α) : Gen.C10.Quat.divSelf a = Gen.C10.Quat.div a a := by
  refine Quat.ext' ?_ ?_ ?_ ?_ <;> simp only [Gen.C10.Quat.divSelf, Gen.C10.Quat.div] <;> ring
theorem Quat_setAxisAngleAliasV {α : Type} [Field α] [LinearOrder α] [IsStrictOrderedRing α] (tmin tmax : α) (sqrt sin cos : α → α)
    (q : Quat α) (a : α) :
    Gen.C10.Quat.setAxisAngleAliasV tmin tmax sqrt sin cos q a = Gen.C10.Quat.setAxisAngle tmin tmax sqrt sin cos q q.v a := by
  simp only [Gen.C10.Quat.setAxisAngleAliasV, Gen.C10.Quat.setAxisAngle]
theorem Quat_rotateVectorAliasV {α : Type} [CommRing α] (q : Quat α) :
    Gen.C10.Quat.rotateVectorAliasV q = ⟨q.r, Gen.C10.Quat.rotateVector q q.v⟩ := by
  refine Quat.ext' ?_ ?_ ?_ ?_ <;> simp only [Gen.C10.Quat.rotateVectorAliasV, Gen.C10.Quat.rotateVector] <;> ring
theorem Quat_slerpSame {α : Type} [Field α] [LinearOrder α] [IsStrictOrderedRing α] (teps : α) (sqrt sin : α → α) (atan2 : α → α → α)
    (q : Quat α) (t : α) :
    Gen.C10.Quat.slerpSame teps sqrt sin atan2 q t = Gen.C10.Quat.slerp teps sqrt sin atan2 q q t := by
  simp only [Gen.C10.Quat.slerpSame, Gen.C10.Quat.slerp]
theorem Quat_setRotationModAliasV {α : Type} [Field α] [LinearOrder α] [IsStrictOrderedRing α] (tmin tmax teps : α) (sqrt : α → α)
    (q : Quat α) (vto : V3 α) :
    Gen.C10.Quat.setRotationModAliasV tmin tmax teps sqrt q vto = Gen.C10.Quat.setRotationMod tmin tmax teps sqrt q q.v vto := by
  simp only [Gen.C10.Quat.setRotationModAliasV, Gen.C10.Quat.setRotationMod]

/-- `q / q = 1` for `q ≠ 0` — hence also for the aliased spellings `q /= q`, `q = q / q`, `q *= q.inverse ()` -/
theorem Quat_div_self {α : Type} [Field α] (a : Quat α) (h : normSq a ≠ 0) :
    Gen.C10.Quat.div a a = ⟨1, ⟨0, 0, 0⟩⟩ ∧ Gen.C10.Quat.divAssignSelf a = ⟨1, ⟨0, 0, 0⟩⟩ ∧
    Gen.C10.Quat.divSelf a = ⟨1, ⟨0, 0, 0⟩⟩ ∧ Gen.C10.Quat.mulAssignInverseSelf a = ⟨1, ⟨0, 0, 0⟩⟩ := by
  have e := (Quat_mul_inverse a h).1
  refine ⟨?_, ?_, ?_, ?_⟩
  · rw [Quat_div]; exact e
  · rw [Quat_divAssignSelf, Quat_div]; exact e
  · rw [Quat_divSelf, Quat_div]; exact e
  · rw [Quat_mulAssignInverseSelf]; exact e

/-- `slerp (q, q, t) = q` for a unit quaternion (both arguments the same object; θ = 0 takes the tiny-angle branch) -/
theorem slerp_same {α : Type} [Field α] [LinearOrder α] [IsStrictOrderedRing α] (teps : α) (hteps : 0 < teps) (sqrt sin : α → α)
    (atan2 : α → α → α) (hsqrt : SqrtSpec sqrt) (hat : ∀ x, 0 ≤ x → atan2 0 x = 0) (q : Quat α) (t : α) (hq : UnitQ q) :
    Gen.C10.Quat.slerpSame teps sqrt sin atan2 q t = q ∧ Gen.C10.Quat.slerp teps sqrt sin atan2 q q t = q := by
  have h0 : sqrt 0 = 0 := C08.sqrt_zero hsqrt
  have hθ : Gen.C10.Quat.angle4D sqrt atan2 q q = 0 := by
    simp only [Gen.C10.Quat.angle4D, sub_self, mul_zero, add_zero, h0]
    have hnn : (0 : α) ≤ (q.r + q.r) * (q.r + q.r) + ((q.v.x + q.v.x) * (q.v.x + q.v.x) + (q.v.y + q.v.y) * (q.v.y + q.v.y) + (q.v.z + q.v.z) * (q.v.z + q.v.z)) := by
      have := mul_self_nonneg (q.r + q.r); have := mul_self_nonneg (q.v.x + q.v.x)
      have := mul_self_nonneg (q.v.y + q.v.y); have := mul_self_nonneg (q.v.z + q.v.z); linarith
    rw [hat _ (hsqrt _ hnn).2, mul_zero]
  have hs : Gen.C10.sinx_over_x teps sin 0 = 1 := by
    simp only [Gen.C10.sinx_over_x, mul_zero, hteps, ↓reduceIte]
  have e : Gen.C10.Quat.slerp teps sqrt sin atan2 q q t = q := by
    rw [slerp_eq, hθ]
    simp only [mul_zero, hs, div_one, one_mul]
    have : lincomb (1 - t) q t q = q := by
      simp only [lincomb]; apply Quat.ext' <;> simp only [] <;> ring
    rw [this]; exact Quat_normalize_of_unit_simp sqrt hsqrt q hq
  exact ⟨by rw [Quat_slerpSame]; exact e, e⟩
/-- the real `atan2` satisfies the hypothesis of `slerp_same` -/
example : ∀ x : ℝ, 0 ≤ x → ratan2 0 x = 0 := by
  intro x hx
  have : (⟨x, 0⟩ : ℂ) = (x : ℂ) := by apply Complex.ext <;> simp
  simp only [ratan2, this]; exact Complex.arg_ofReal_of_nonneg hx

end ImathVerif.C10
