import ImathVerif.Props.C12
/-!
# C12 — the 2-D `sansScaling` / `removeScaling (Matrix33)` do NOT return shear*rotation*translation

Consulted by tools/props/c12.py only when `Props/C12Recompose.lean` fails to elaborate: it shows that the failure is a
property violation of the code (not a broken proof) by proving, for the functions regenerated from the current
header, (a) what they compute — shear * TRANSLATION * ROTATION — and (b) the negation of the full-strength statement
on a concrete witness with exact rational rotation (3-4-5 triangle: cos = 4/5, sin = 3/5; translation (3, 4)):
the result has translation (0, 5) instead of (3, 4).  Not part of the library root; it stops elaborating once the
defect is repaired (then `Props/C12Recompose.lean` elaborates).
-/
namespace ImathVerif.C12
open ImathVerif ImathVerif.SHRT Matrix
set_option linter.unusedSectionVars false
variable {α : Type} [Field α] [LinearOrder α] [IsStrictOrderedRing α]

/-- what `sansScaling (Matrix33)` computes: shear * translation * rotation (`Matrix33::rotate` post-multiplies) -/
theorem M33_sansScaling_actual {tmin tmax : α} {sqrt sin cos : α → α} {atan2 : α → α → α}
    (hs : SqrtSpec sqrt) (ht : TrigSpec sin cos atan2) {m : M33 α} {r : Res2 α}
    (he : ear33 tmax (Gen.V2.length tmin sqrt) m = some r) :
    (Gen.M33.sansScaling tmin tmax sqrt sin cos atan2 m).toMat =
      shearH2 r.shr * transH2 ⟨m.x20, m.x21⟩ * linH2 r.m := by
  obtain ⟨e, ho, hd, _⟩ := ear33_spec (V2_length_spec hs) he
  obtain ⟨h0, e11, e01, hc⟩ := rot2_shape ho hd
  obtain ⟨e1, e2, e3, e4⟩ := ear33_adapters_some he
  obtain ⟨m00, m01, m02, m10, m11, m12, m20, m21, m22⟩ := m
  obtain ⟨⟨R00, R01, R02, R10, R11, R12, R20, R21, R22⟩, scl, shr⟩ := r
  simp only at h0 e11 e01 hc e2 e4
  subst e11 e01
  have l0 := len_eq_one (V2_length_spec (tmin := tmin) hs) R11 (-R10) h0
  have l1 : Gen.V2.length tmin sqrt ⟨R10, R11⟩ = 1 := by
    apply len_eq_one (V2_length_spec hs); rw [← hc]; ring
  obtain ⟨tc, ts⟩ := ht R11 R10 hc
  simp only [Gen.M33.sansScaling, e1, e2, e4, l0, l1, one_ne_zero, if_false, div_one, tc, ts]
  ext i j
  fin_cases i <;> fin_cases j <;>
    simp [M33.toMat, shearH2, transH2, linH2, Matrix.mul_apply, Fin.sum_univ_three] <;> ring

/-- the full-strength statement of Props/C12Recompose.lean, as a proposition -/
def M33_sansScaling_recompose_statement (tmin tmax : α) (sqrt sin cos : α → α) (atan2 : α → α → α) : Prop :=
  ∀ (m : M33 α) (r : Res2 α), Affine2 m → ear33 tmax (Gen.V2.length tmin sqrt) m = some r →
    (Gen.M33.sansScaling tmin tmax sqrt sin cos atan2 m).toMat = shearH2 r.shr * linH2 r.m * transH2 ⟨m.x20, m.x21⟩

/-- on the witness `W345` (pure rotation + translation (3,4): sansScaling should return it unchanged)
the translation row of the result is (0, 5) -/
theorem M33_sansScaling_witness {tmin tmax : α} {sqrt sin cos : α → α} {atan2 : α → α → α}
    (hs : SqrtSpec sqrt) (ht : TrigSpec sin cos atan2) (htm : 1 < tmax) :
    (Gen.M33.sansScaling tmin tmax sqrt sin cos atan2 W345).x20 = 0 ∧
    (Gen.M33.sansScaling tmin tmax sqrt sin cos atan2 W345).x21 = 5 := by
  have he := ear33_W345 htm (V2_length_spec (tmin := tmin) hs)
  have h := M33_sansScaling_actual (sin := sin) (cos := cos) (atan2 := atan2) hs ht he
  have h20 := congrFun (congrFun h 2) 0
  have h21 := congrFun (congrFun h 2) 1
  simp [M33.toMat, shearH2, transH2, linH2, W345, Matrix.mul_apply, Fin.sum_univ_three] at h20 h21
  simp only [W345]
  constructor
  · rw [h20]; norm_num
  · rw [h21]; norm_num

/-- NEGATION of the full-strength statement, for every square root / sin / cos / atan2 meeting their specifications -/
theorem M33_sansScaling_recompose_false {tmin tmax : α} {sqrt sin cos : α → α} {atan2 : α → α → α}
    (hs : SqrtSpec sqrt) (ht : TrigSpec sin cos atan2) (htm : 1 < tmax) :
    ¬ M33_sansScaling_recompose_statement tmin tmax sqrt sin cos atan2 := by
  intro hst
  have he := ear33_W345 htm (V2_length_spec (tmin := tmin) hs)
  have h := hst W345 _ ⟨rfl, rfl, rfl⟩ he
  have w := (M33_sansScaling_witness (tmin := tmin) (sin := sin) (cos := cos) (atan2 := atan2) hs ht htm).1
  have h20 := congrFun (congrFun h 2) 0
  simp [M33.toMat, shearH2, transH2, linH2, W345, Matrix.mul_apply, Fin.sum_univ_three] at h20
  simp only [W345] at w
  rw [w] at h20
  norm_num at h20

/-- in particular over ℝ with the real functions -/
theorem M33_sansScaling_recompose_false_real :
    ¬ M33_sansScaling_recompose_statement (1 / 1024 : ℝ) 2 Real.sqrt Real.sin Real.cos (fun y x => Complex.arg ⟨x, y⟩) :=
  M33_sansScaling_recompose_false (fun x hx => ⟨Real.sqrt_nonneg x, Real.mul_self_sqrt hx⟩) trigSpec_real (by norm_num)

/-- `removeScaling (Matrix33)` inherits the defect -/
theorem M33_removeScaling_witness {tmin tmax : α} {sqrt sin cos : α → α} {atan2 : α → α → α}
    (hs : SqrtSpec sqrt) (ht : TrigSpec sin cos atan2) (htm : 1 < tmax) :
    (Gen.M33.removeScaling tmin tmax sqrt sin cos atan2 W345).1 = true ∧
    (Gen.M33.removeScaling tmin tmax sqrt sin cos atan2 W345).2.x20 = 0 ∧
    (Gen.M33.removeScaling tmin tmax sqrt sin cos atan2 W345).2.x21 = 5 := by
  rw [M33_removeScaling, ear33_W345 htm (V2_length_spec (tmin := tmin) hs)]
  exact ⟨rfl, M33_sansScaling_witness hs ht htm⟩

end ImathVerif.C12
