import ImathVerif.Spec.MatSpec
import ImathVerif.Spec.TransformSpec
import ImathVerif.Gen.C09Next
import ImathVerif.Lemmas.C09Lemmas
import ImathVerif.Lemmas.C09FrameLemmas
import ImathVerif.Lemmas.C09NextFrame
import ImathVerif.Lemmas.C09UpDir
import Mathlib.Tactic.Ring
import Mathlib.Tactic.FinCases
import Mathlib.Analysis.SpecialFunctions.Trigonometric.Basic
import Mathlib.Analysis.SpecialFunctions.Trigonometric.Inverse
/-!
# C09 (part 3) — nextFrame

See `Props/C09.lean` for the conventions.  `Gen.Frame.nextFrame` is regenerated from ImathFrame.h (`Gen/C09Next.lean`); it returns the new
frame and the two tangents (non-const reference arguments, normalised in place).  `acos` is a parameter of the extracted definition
(`std::acos (dot)` at the element type since fix 13e5c51; the translator validation of this entry runs bitwise at float AND double).
-/
set_option linter.unreachableTactic false
set_option linter.unusedTactic false
set_option linter.unusedSectionVars false
set_option linter.unusedSimpArgs false
set_option linter.unusedVariables false
namespace ImathVerif.C09
open ImathVerif Matrix

section Frames
variable {α : Type} [Field α] [LinearOrder α] [IsStrictOrderedRing α]

set_option maxHeartbeats 4000000 in
/-- `nextFrame`: the extracted 13-path tree as Mathlib matrices — `Mi · T(−pi) · R · T(pj)` with `R = axisAngleM44 (ti^ × tj^) (acos (ti^·tj^))`, the matrix `setAxisAngle` writes (`M44_setAxisAngle_eq`), when both tangents
are non-zero, not parallel and the angle is non-zero, else `Mi · T(pj − pi)` (`nextFrameStep`; `acos` is a parameter, what is assumed
of it is stated where it is needed: `AcosSpec` in `nextFrame_tangent`) -/
theorem nextFrame_eq (tmin tmax : α) (sqrt sin cos acos : α → α) (Mi : M44 α) (pi pj ti tj : V3 α) :
    (Gen.Frame.nextFrame tmin tmax sqrt sin cos acos Mi pi pj ti tj).1.toMat
      = Mi.toMat * nextFrameStep (Gen.V3.length tmin tmax sqrt) sin cos acos pi pj ti tj := by
  obtain ⟨ix, iy, iz⟩ := pi
  obtain ⟨jx, jy, jz⟩ := pj
  obtain ⟨ax, ay, az⟩ := ti
  obtain ⟨bx, by', bz⟩ := tj
  simp only [Gen.Frame.nextFrame, nextFrameStep, dot, cross]
  split_ifs
  all_goals first
    | (exfalso; simp_all; done)
    | (ext i j; fin_cases i <;> fin_cases j <;>
        simp [axisAngleM44, frameM44, aaRow0, aaRow1, aaRow2, nrm, transMat, M44.toMat, Matrix.mul_apply, Fin.sum_univ_four, vneg, vsub, *] <;> ring1)
/-- EVERY path (zero / parallel tangents included): an orthonormal right-handed previous frame with origin `pi` becomes an orthonormal
right-handed frame with origin `pj`, its axes turned by the rotation `nextFrameRot` -/
theorem nextFrame_frame (tmin tmax : α) (sqrt sin cos acos : α → α) (hlen : LenSpec (Gen.V3.length tmin tmax sqrt))
    (hsc : ∀ x, sin x ^ 2 + cos x ^ 2 = 1) (Mi : M44 α) (pi pj ti tj : V3 α) (hMi : IsFrame Mi) (hpi : row3 Mi = pi) :
    IsFrame (Gen.Frame.nextFrame tmin tmax sqrt sin cos acos Mi pi pj ti tj).1 ∧
      row3 (Gen.Frame.nextFrame tmin tmax sqrt sin cos acos Mi pi pj ti tj).1 = pj ∧
      rot3 (Gen.Frame.nextFrame tmin tmax sqrt sin cos acos Mi pi pj ti tj).1 = rot3 Mi * nextFrameRot (Gen.V3.length tmin tmax sqrt) sin cos acos ti tj ∧
      IsRot (nextFrameRot (Gen.V3.length tmin tmax sqrt) sin cos acos ti tj) :=
  nextFrameStep_isFrame sin cos acos hlen hsc Mi _ pi pj ti tj hMi hpi (nextFrame_eq tmin tmax sqrt sin cos acos Mi pi pj ti tj)
/-- for non-zero, non-parallel tangents that rotation takes the direction of `ti` to the direction of `tj` (so a frame whose x-row is the
old tangent gets the new tangent as x-row). Assumed of `acos`: `cos (acos x) = x ∧ 0 ≤ sin (acos x)` on `[−1, 1]`, and `cos 0 = 1` -/
theorem nextFrame_tangent (tmin tmax : α) (sqrt sin cos acos : α → α) (hlen : LenSpec (Gen.V3.length tmin tmax sqrt))
    (hac : AcosSpec sin cos acos) (ti tj : V3 α) (hi : ti ≠ ⟨0, 0, 0⟩) (hj : tj ≠ ⟨0, 0, 0⟩) (hij : cross ti tj ≠ ⟨0, 0, 0⟩) :
    (nrm (Gen.V3.length tmin tmax sqrt) ti).toVec ᵥ* nextFrameRot (Gen.V3.length tmin tmax sqrt) sin cos acos ti tj
      = (nrm (Gen.V3.length tmin tmax sqrt) tj).toVec :=
  nextFrameRot_align sin cos acos hlen hac ti tj hi hj hij
example : (⟨1, 0, 0⟩ : V3 ℝ) ≠ ⟨0, 0, 0⟩ ∧ (⟨1, 2, 0⟩ : V3 ℝ) ≠ ⟨0, 0, 0⟩ ∧ cross (⟨1, 0, 0⟩ : V3 ℝ) ⟨1, 2, 0⟩ ≠ ⟨0, 0, 0⟩ := by
  refine ⟨by simp, by simp, by simp [cross]⟩
/-- THE DOCUMENTED PURPOSE, as one statement about the extracted function: a frame at `pi` whose x-row is the direction of the previous
tangent `ti` is taken by `nextFrame` to a frame at `pj` whose x-row is the direction of the new tangent `tj` (non-zero, non-parallel
tangents).  Composition of `nextFrame_frame` (axes = old axes · `nextFrameRot`) and `nextFrame_tangent` -/
theorem nextFrame_xrow (tmin tmax : α) (sqrt sin cos acos : α → α) (hlen : LenSpec (Gen.V3.length tmin tmax sqrt))
    (hac : AcosSpec sin cos acos) (Mi : M44 α) (pi pj ti tj : V3 α) (hMi : IsFrame Mi) (hpi : row3 Mi = pi)
    (hx : row0 Mi = nrm (Gen.V3.length tmin tmax sqrt) ti)
    (hi : ti ≠ ⟨0, 0, 0⟩) (hj : tj ≠ ⟨0, 0, 0⟩) (hij : cross ti tj ≠ ⟨0, 0, 0⟩) :
    IsFrame (Gen.Frame.nextFrame tmin tmax sqrt sin cos acos Mi pi pj ti tj).1 ∧
      row3 (Gen.Frame.nextFrame tmin tmax sqrt sin cos acos Mi pi pj ti tj).1 = pj ∧
      row0 (Gen.Frame.nextFrame tmin tmax sqrt sin cos acos Mi pi pj ti tj).1 = nrm (Gen.V3.length tmin tmax sqrt) tj := by
  obtain ⟨hF, h3, hr, _⟩ := nextFrame_frame tmin tmax sqrt sin cos acos hlen hac.1 Mi pi pj ti tj hMi hpi
  refine ⟨hF, h3, ?_⟩
  have hv : (row0 (Gen.Frame.nextFrame tmin tmax sqrt sin cos acos Mi pi pj ti tj).1).toVec
      = (nrm (Gen.V3.length tmin tmax sqrt) tj).toVec := by
    rw [row0_toVec, hr, ← row_vecMul, ← row0_toVec, hx]
    exact nextFrame_tangent tmin tmax sqrt sin cos acos hlen hac ti tj hi hj hij
  have h0 := congrFun hv 0; have h1 := congrFun hv 1; have h2 := congrFun hv 2
  simp [V3.toVec] at h0 h1 h2
  exact V3.ext' h0 h1 h2
/-- non-vacuity of the frame hypotheses: the frame `firstFrame` builds has the tangent as its x-row (`firstFrame_frame`); a concrete
instance: the identity frame at the origin with `ti = (2,0,0)` — `row0 = (1,0,0) = ti^` for every `len` with `LenSpec` -/
example (len : V3 α → α) (hlen : LenSpec len) : row0 (M44.identity : M44 α) = nrm len ⟨2, 0, 0⟩ := by
  have h : (⟨2, 0, 0⟩ : V3 α) = smul 2 ⟨1, 0, 0⟩ := by simp [smul]
  rw [h, nrm_smul_pos hlen (by norm_num) (by simp), nrm_of_unit hlen (by simp [dot])]
  rfl

/-- real `arccos`, `sin`, `cos` satisfy the assumption -/
example : AcosSpec Real.sin Real.cos Real.arccos :=
  ⟨Real.sin_sq_add_cos_sq, Real.cos_zero, fun x h1 h2 => ⟨Real.cos_arccos h1 h2, Real.sin_arccos x ▸ Real.sqrt_nonneg _⟩⟩
/-- the tangents are normalised in place (non-const reference arguments) when both are non-zero, else left alone -/
theorem nextFrame_tangents_out (tmin tmax : α) (sqrt sin cos acos : α → α) (Mi : M44 α) (pi pj ti tj : V3 α) :
    (Gen.Frame.nextFrame tmin tmax sqrt sin cos acos Mi pi pj ti tj).2 =
      if ¬ Gen.V3.length tmin tmax sqrt ti = 0 ∧ ¬ Gen.V3.length tmin tmax sqrt tj = 0 then
        (⟨ti.x / Gen.V3.length tmin tmax sqrt ti, ti.y / Gen.V3.length tmin tmax sqrt ti, ti.z / Gen.V3.length tmin tmax sqrt ti⟩,
         ⟨tj.x / Gen.V3.length tmin tmax sqrt tj, tj.y / Gen.V3.length tmin tmax sqrt tj, tj.z / Gen.V3.length tmin tmax sqrt tj⟩)
      else (ti, tj) := by
  obtain ⟨ax, ay, az⟩ := ti
  obtain ⟨bx, by', bz⟩ := tj
  simp only [Gen.Frame.nextFrame]
  split_ifs <;> first | rfl | (exfalso; simp_all; done)

example : IsFrame (M44.identity : M44 ℝ) ∧ row3 (M44.identity : M44 ℝ) = ⟨0, 0, 0⟩ := by
  refine ⟨⟨?_, rfl, rfl, rfl, rfl⟩, rfl⟩
  have : rot3 (M44.identity : M44 ℝ) = 1 := by
    ext i j; fin_cases i <;> fin_cases j <;> simp [rot3, M44.identity]
  rw [this]; exact IsRot.one

end Frames

end ImathVerif.C09
