import ImathVerif.Lemmas.FunLemmas
import ImathVerif.Lemmas.RootsLemmas
import ImathVerif.Lemmas.ColorLemmas
import ImathVerif.Gen.C17Fun
import ImathVerif.Gen.C17Roots
import ImathVerif.Gen.C17Color
import Mathlib.Analysis.Real.Sqrt
/-!
# C17 — scalar, root-finding and colour utilities equal their mathematical definitions

Property theorems only (proofs are in `Lemmas/FunLemmas`, `Lemmas/RootsLemmas`,
`Lemmas/ColorLemmas`).  The hand models `Model/Fun`, `Model/Roots`,
`Model/ColorAlgo` are tied to /repo/src/Imath/{ImathFun.h, ImathFun.cpp,
ImathMath.h, ImathRoots.h, ImathColorAlgo.h, ImathColorAlgo.cpp} on every run
by the correspondence harness `harness/corr/fun_corr.cpp` / `Driver/Fun.lean`.

Modelling assumptions, all stated as explicit hypotheses:
* `IsTruncCast toInt` — the C++ cast `int (y)` is exact truncation toward zero for |y| < 2^31;
* `IsFloor fl` — `int (std::floor (y))` is the exact floor;
* the hypotheses on `sqrt`, `pow (·, 1/3)`, `copysign (1, ·)`, complex `sqrt`/`pow` are
  required only *at the arguments the code passes* and say that the library
  function returns the exact value (a square root squares back, a cube root cubes back).

History: three statements of the property were FALSE on the source as first verified (divp/modp
when `y - 1 - x` overflowed; solveNormalizedCubic at p = 0, q > 0; the Color4 integer wrappers
scaling by `float (max)`).  They were repaired in /repo (commits 7d4bca4, 7563d4d, 9e7d4a2), the
models below mirror the repaired code, the formerly `_partial` theorems are now full, and the
former failing inputs are theorems (`divp_former_defect_fixed`, `cubic_former_defect_fixed`,
`color4_int_alpha_fixed`).  The correspondence obligations that found the defects are unchanged.
Two further defects were found when the correspondence harness was also built with UBSan and the model was
given machine-int intermediates: `floor (double)` on (-2^31, -(2^31 - 1)) and `modp` for x near INT_MIN reached
their (representable) results through a signed overflow.  Repaired in /repo commits 04462ef and f9bac53;
`floor_former_defect_fixed`, `modp_former_defect_fixed`.
-/
set_option linter.unusedSectionVars false
set_option linter.unusedVariables false
set_option linter.unusedSimpArgs false
set_option linter.unusedTactic false
set_option linter.unreachableTactic false
namespace ImathVerif.C17
open ImathVerif ImathVerif.Fun ImathVerif.Roots ImathVerif.ColorAlgo

/-! ## ImathFun.h: floor / ceil / trunc -/
section FloorCeilTrunc
variable {α : Type} [Field α] [LinearOrder α] [IsStrictOrderedRing α] [FloorRing α]

/-- `floor (x) = ⌊x⌋` for |x| < 2^31 -/
theorem floor_eq_floor (toInt : α → Int) (h : IsTruncCast toInt) (x : α) (hx : |x| < 2147483648) :
    Fun.floor toInt x = ⌊x⌋ := Fun.floor_eq toInt h x hx

/-- `ceil (x) = ⌈x⌉` for |x| < 2^31 -/
theorem ceil_eq_ceil (toInt : α → Int) (h : IsTruncCast toInt) (x : α) (hx : |x| < 2147483648) :
    Fun.ceil toInt x = ⌈x⌉ := Fun.ceil_eq toInt h x hx

/-- `trunc (x)` = truncation toward zero for |x| < 2^31 -/
theorem trunc_eq_trunc (toInt : α → Int) (h : IsTruncCast toInt) (x : α) (hx : |x| < 2147483648) :
    Fun.trunc toInt x = truncZ x := Fun.trunc_eq toInt h x hx

/-- `floor` with MACHINE-`int` intermediates (not unbounded `Int`): on the whole domain of the property, |x| < 2^31,
every `int` intermediate of `-int (-x) - (-x > int (-x))` is representable and the 32-bit evaluation returns ⌊x⌋ -/
theorem floor_no_overflow (toInt : α → Int) (h : IsTruncCast toInt) (x : α)
    (hlo : -2147483648 < x) (hhi : x < 2147483648) :
    noOverflow (floorSteps toInt x) = true ∧ floor32 toInt x = ⌊x⌋ :=
  ⟨Fun.floorSteps_inRange toInt h x hlo hhi,
   Fun.floor32_eq toInt h x (by rw [abs_lt]; constructor <;> linarith)⟩

/-- FORMER GENUINE DEFECT (found by the UBSan build of the correspondence harness, key
`fun_corr:floor(double):result-representable,intermediate-overflows`; repaired in /repo commit 04462ef): with the old
expression `-(int (-x) + (-x > int (-x)))`, for a double x in (-2^31, -(2^31 - 1)) the result ⌊x⌋ = -2^31 IS an `int`
but the intermediate `int (-x) + 1 = INT_MAX + 1` overflowed (undefined behaviour; right answer only by wrap-around).
The current expression has no overflowing intermediate there.  No such float exists (24-bit significand). -/
theorem floor_former_defect_fixed (toInt : α → Int) (h : IsTruncCast toInt) (x : α)
    (hlo : -2147483648 < x) (hhi : x < -2147483647) :
    noOverflow (floorStepsOld toInt x) = false ∧ ⌊x⌋ = -2147483648 ∧ inInt32 ⌊x⌋ = true ∧
    noOverflow (floorSteps toInt x) = true ∧ floor32 toInt x = ⌊x⌋ :=
  ⟨(Fun.floorStepsOld_overflow toInt h x hlo hhi).1, (Fun.floorStepsOld_overflow toInt h x hlo hhi).2.1,
   (Fun.floorStepsOld_overflow toInt h x hlo hhi).2.2,
   Fun.floorSteps_inRange toInt h x hlo (by linarith),
   Fun.floor32_eq toInt h x (by rw [abs_lt]; constructor <;> linarith)⟩

/-- `ceil` with machine-`int` intermediates: for -2^31 < x ≤ 2^31 - 1 (exactly the inputs of magnitude below 2^31
whose ceiling is an `int`) nothing overflows and the 32-bit evaluation returns ⌈x⌉ -/
theorem ceil_no_overflow (toInt : α → Int) (h : IsTruncCast toInt) (x : α)
    (hlo : -2147483648 < x) (hhi : x ≤ 2147483647) :
    noOverflow (ceilSteps toInt x) = true ∧ ceil32 toInt x = ⌈x⌉ :=
  ⟨Fun.ceilSteps_inRange toInt h x hlo hhi, Fun.ceil32_eq toInt h x hlo hhi⟩

/-- … and on (2^31 - 1, 2^31) (doubles only) ⌈x⌉ = 2^31 is not an `int` at all: the clause "ceil equals the
mathematical function" cannot be demanded there (`ceil_eq_ceil` speaks about the unbounded model); the final
negation overflows and a wrapping compiler returns INT_MIN -/
theorem ceil_result_not_representable (toInt : α → Int) (h : IsTruncCast toInt) (x : α)
    (hlo : 2147483647 < x) (hhi : x < 2147483648) :
    ⌈x⌉ = 2147483648 ∧ inInt32 ⌈x⌉ = false ∧ noOverflow (ceilSteps toInt x) = false ∧
    ceil32 toInt x = -2147483648 := Fun.ceil_overflow toInt h x hlo hhi

/-- `trunc` never overflows on |x| < 2^31 -/
theorem trunc_no_overflow (toInt : α → Int) (h : IsTruncCast toInt) (x : α) (hx : |x| < 2147483648) :
    noOverflow (truncSteps toInt x) = true ∧ trunc32 toInt x = truncZ x := Fun.truncSteps_inRange toInt h x hx

example : IsTruncCast (α := ℚ) (fun y => if 0 ≤ y then ⌊y⌋ else ⌈y⌉) := fun _ _ => rfl
example : Fun.floor (α := ℚ) (fun y => if 0 ≤ y then ⌊y⌋ else ⌈y⌉) (-5 / 2) = -3 := by
  have h := floor_eq_floor (α := ℚ) (fun y => if 0 ≤ y then ⌊y⌋ else ⌈y⌉) (fun _ _ => rfl) (-5 / 2)
    (by rw [abs_lt]; constructor <;> norm_num)
  rw [h, Int.floor_eq_iff]; norm_num
/-- non-vacuity of the overflow theorems: x = -2147483647.5 and x = 2147483647.5 -/
example : noOverflow (floorStepsOld (α := ℚ) (fun y => if 0 ≤ y then ⌊y⌋ else ⌈y⌉) (-4294967295 / 2)) = false ∧
    noOverflow (floorSteps (α := ℚ) (fun y => if 0 ≤ y then ⌊y⌋ else ⌈y⌉) (-4294967295 / 2)) = true :=
  ⟨(floor_former_defect_fixed (α := ℚ) _ (fun _ _ => rfl) (-4294967295 / 2) (by norm_num) (by norm_num)).1,
   (floor_former_defect_fixed (α := ℚ) _ (fun _ _ => rfl) (-4294967295 / 2) (by norm_num) (by norm_num)).2.2.2.1⟩
example : ceil32 (α := ℚ) (fun y => if 0 ≤ y then ⌊y⌋ else ⌈y⌉) (4294967295 / 2) = -2147483648 :=
  (ceil_result_not_representable (α := ℚ) _ (fun _ _ => rfl) (4294967295 / 2) (by norm_num) (by norm_num)).2.2.2
example : ceil32 (α := ℚ) (fun y => if 0 ≤ y then ⌊y⌋ else ⌈y⌉) (-5 / 2) = ⌈(-5 / 2 : ℚ)⌉ :=
  (ceil_no_overflow (α := ℚ) _ (fun _ _ => rfl) (-5 / 2) (by norm_num) (by norm_num)).2
end FloorCeilTrunc

/-! ## ImathFun.h: integer division and remainder -/

/-- `divs/mods` are truncating division and its remainder, for ALL integers (model over
unbounded `Int`; a zero divisor gives 0 / x in the model, a trap in C++). -/
theorem divs_mods_truncating (x y : Int) :
    divs x y = x.tdiv y ∧ mods x y = x.tmod y ∧ x = y * divs x y + mods x y ∧
    (y ≠ 0 → (mods x y).natAbs < y.natAbs ∧ (0 ≤ x → 0 ≤ mods x y) ∧ (x ≤ 0 → mods x y ≤ 0)) :=
  ⟨divs_eq_tdiv x y, mods_eq_tmod x y, Fun.divs_mods x y, Fun.mods_bound x y⟩

/-- `divp/modp` are Euclidean division: x = y·divp + modp, 0 ≤ modp < |y| (y ≠ 0) -/
theorem divp_modp_euclidean (x y : Int) (hy : y ≠ 0) :
    divp x y = x / y ∧ modp x y = x % y ∧
    x = y * divp x y + modp x y ∧ 0 ≤ modp x y ∧ modp x y < |y| :=
  ⟨divp_eq_ediv x y hy, modp_eq_emod x y hy, Fun.divp_modp x y hy⟩

example : divp (-7) 2 = -4 ∧ modp (-7) 2 = 1 ∧ divs (-7) 2 = -3 ∧ mods (-7) 2 = -1 := by decide

/-- 32-bit `divs/mods`: no intermediate overflows exactly when neither operand is INT_MIN (the only
intermediates that can overflow are the negations `-x`, `-y`), and then the machine result is the
truncating quotient / remainder. Excluded inputs: x = INT_MIN or y = INT_MIN (and y = 0). -/
theorem divs_mods_int32 (x y : Int) (hx : inInt32 x = true) (hy : inInt32 y = true) (hy0 : y ≠ 0) :
    (noOverflow (divsSteps x y) = true ↔ x ≠ -2147483648 ∧ y ≠ -2147483648) ∧
    (noOverflow (modsSteps x y) = true ↔ x ≠ -2147483648 ∧ y ≠ -2147483648) ∧
    (x ≠ -2147483648 → y ≠ -2147483648 →
      divs32 x y = some (x.tdiv y) ∧ mods32 x y = some (x.tmod y)) := by
  refine ⟨divs_noOverflow_iff x y hx hy, mods_noOverflow_iff x y hx hy, fun h1 h2 => ⟨?_, ?_⟩⟩
  · rw [divs32_eq x y hy0 hx hy ((divs_noOverflow_iff x y hx hy).mpr ⟨h1, h2⟩), divs_eq_tdiv]
  · rw [mods32_eq x y hy0 hx hy ((mods_noOverflow_iff x y hx hy).mpr ⟨h1, h2⟩), mods_eq_tmod]

example : inInt32 (-2147483647) = true ∧ inInt32 2147483647 = true ∧
    divs32 (-2147483647) 2147483647 = some (-1) := by decide

/-- 32-bit `divp/modp` (repaired code), at full strength.  For every int pair with y ≠ 0:
* an intermediate overflows exactly for y = INT_MIN (the negation `-y`) and for
  (x, y) = (INT_MIN, -1) (the final `1 + q`; the quotient 2^31 is not an int);
* the *negations* overflow exactly for y = INT_MIN;
* whenever no negation overflows and the Euclidean quotient is representable, the machine
  evaluation returns divp = x / y and modp = x % y (Euclidean: 0 ≤ modp < |y|).  For modp the product
  `y * divp` is formed in unsigned arithmetic since /repo commit f9bac53 (e.g. x = INT_MIN + 1, y = 3, where
  the mathematical product -2147483649 is not an int; see `modp_former_defect_fixed`).
Excluded inputs, complete list: y = 0; y = INT_MIN; (INT_MIN, -1). -/
theorem divp_modp_int32 (x y : Int) (hx : inInt32 x = true) (hy : inInt32 y = true) (hy0 : y ≠ 0) :
    (noOverflow (divpSteps x y) = true ↔ y ≠ -2147483648 ∧ ¬ (x = -2147483648 ∧ y = -1)) ∧
    (noOverflow (divpNegations x y) = true ↔ y ≠ -2147483648) ∧
    (noOverflow (divpNegations x y) = true → inInt32 (x / y) = true →
      divp32 x y = some (x / y) ∧ modp32 x y = some (x % y) ∧ 0 ≤ x % y ∧ x % y < |y|) := by
  refine ⟨divp_noOverflow_iff x y hx hy, divpNegations_iff x y hx hy, fun hn hq => ?_⟩
  have hy1 : y ≠ -2147483648 := (divpNegations_iff x y hx hy).mp hn
  have hno : noOverflow (divpSteps x y) = true := by
    rw [divp_noOverflow_iff x y hx hy]
    refine ⟨hy1, ?_⟩
    rintro ⟨h1, h2⟩
    subst h1; subst h2
    exact absurd hq (by decide)
  refine ⟨?_, modp32_eq_wrap x y hy0 hx hy hno, Int.emod_nonneg x hy0, Int.emod_lt_abs x hy0⟩
  rw [divp32_eq x y hy0 hx hy hno, divp_eq_ediv x y hy0]

example : noOverflow (divpNegations (-2147483647) 3) = true ∧ inInt32 ((-2147483647 : Int) / 3) = true ∧
    divp32 (-2147483647) 3 = some (-715827883) ∧ modp32 (-2147483647) 3 = some 2 := by decide

/-- FORMER GENUINE DEFECT of `modp` (found by the UBSan build, key `fun_corr:modp:result-representable,intermediate-overflows`;
repaired in /repo commit f9bac53): when `x - y * divp (x, y)` was computed in int arithmetic, inside the property's guard (no
negation overflows, the Euclidean quotient is an int) the only further int intermediate that could overflow was the PRODUCT
`y * divp (x, y)`, and it did exactly when x - x % y < INT_MIN — e.g. x = INT_MIN + 1, y = 3: 3 · (-715827883) =
-2147483649, although modp = 2 is an int.  The repaired code computes the difference in unsigned arithmetic: `modp` has no
int intermediate beyond those of `divp`, and the machine evaluation returns x % y. -/
theorem modp_former_defect_fixed (x y : Int) (hx : inInt32 x = true) (hy : inInt32 y = true) (hy0 : y ≠ 0)
    (hno : noOverflow (divpSteps x y) = true) :
    (noOverflow (modpStepsOld x y) = true ↔ -2147483648 ≤ x - x % y) ∧
    noOverflow (modpSteps x y) = true ∧ modp32 x y = some (x % y) ∧
    noOverflow (divpSteps (-2147483647) 3) = true ∧ noOverflow (divpNegations (-2147483647) 3) = true ∧
    noOverflow (modpStepsOld (-2147483647) 3) = false ∧ (3 : Int) * divp (-2147483647) 3 = -2147483649 ∧
    noOverflow (modpSteps (-2147483647) 3) = true ∧ modp32 (-2147483647) 3 = some 2 ∧ (-2147483647 : Int) % 3 = 2 :=
  ⟨modpOld_noOverflow_iff x y hy0 hx hy hno, hno, modp32_eq_wrap x y hy0 hx hy hno, by decide, by decide, by decide, by decide,
   by decide, by decide, by decide⟩

/-- the former defect input x = -5, y = INT_MAX (the old code returned divp = 0, modp = -5 because
`y - 1 - x` overflowed): no intermediate overflows any more and the Euclidean answer comes back.
(Replayed on the real code by the check: pair (-5, 2147483647) is always in the grid.) -/
theorem divp_former_defect_fixed :
    noOverflow (divpSteps (-5) 2147483647) = true ∧ noOverflow (modpSteps (-5) 2147483647) = true ∧
    divp32 (-5) 2147483647 = some (-1) ∧ modp32 (-5) 2147483647 = some 2147483642 ∧
    (-5 : Int) / 2147483647 = -1 ∧ (-5 : Int) % 2147483647 = 2147483642 ∧
    divp32 (-2147483647) 3 = some (-715827883) ∧ divp32 (-1073741824) 1073741825 = some (-1) := by decide

/-! ## ImathFun.h / ImathMath.h: definitional laws -/
section Laws
variable {α : Type} [Field α] [LinearOrder α] [IsStrictOrderedRing α]

theorem abs_is_abs (a : α) : Fun.abs a = |a| := Fun.abs_eq a

theorem sign_is_sign (a : α) :
    (Fun.sign a = 1 ↔ 0 < a) ∧ (Fun.sign a = -1 ↔ a < 0) ∧ (Fun.sign a = 0 ↔ a = 0) := Fun.sign_spec a

theorem cmp_is_three_way (a b : α) :
    (Fun.cmp a b = 1 ↔ b < a) ∧ (Fun.cmp a b = -1 ↔ a < b) ∧ (Fun.cmp a b = 0 ↔ a = b) := Fun.cmp_spec a b

theorem cmpt_is_tolerant_cmp (a b t : α) : cmpt a b t = if |a - b| ≤ t then 0 else Fun.cmp a b :=
  Fun.cmpt_spec a b t

theorem iszero_iff (a t : α) : iszero a t = true ↔ |a| ≤ t := Fun.iszero_spec a t

theorem equal_iff (a b t : α) : Fun.equal a b t = true ↔ |a - b| ≤ t := Fun.equal_spec a b t

theorem clamp_is_clamp (a l h : α) (hlh : l ≤ h) : clamp a l h = max l (min a h) := Fun.clamp_spec a l h hlh
example : clamp (5 : ℚ) 0 1 = 1 := by rw [clamp_is_clamp _ _ _ (by norm_num)]; norm_num

theorem lerp_is_affine (a b t : α) :
    lerp a b t = a + (b - a) * t ∧ lerp a b 0 = a ∧ lerp a b 1 = b :=
  ⟨Fun.lerp_spec a b t, Fun.lerp_zero a b, Fun.lerp_one a b⟩

theorem ulerp_is_lerp (a b t : α) : ulerp a b t = lerp a b t := Fun.ulerp_eq_lerp a b t

/-- what `ulerp` exists for: at `T = unsigned int` (differences wrap modulo 2^32) it still interpolates, because the arm
taken subtracts the smaller from the larger.  (Over a field both arms equal `lerp`, so `ulerp_is_lerp` cannot see a swap
of the arms; this statement is false for the swapped function.) -/
theorem ulerp_unsigned (cast : Nat → α) (hcast : ∀ n : Nat, cast n = (n : α)) (a b : Nat)
    (ha : a < 4294967296) (hb : b < 4294967296) (t : α) :
    ulerpU cast a b t = (a : α) + ((b : α) - (a : α)) * t := Fun.ulerpU_spec cast hcast a b ha hb t
example : ulerpU (α := ℚ) (fun n => (n : ℚ)) 10 3 (1 / 2) = 13 / 2 := by
  rw [ulerp_unsigned _ (fun _ => rfl) 10 3 (by norm_num) (by norm_num)]; norm_num

theorem equalWithAbsError_iff (x1 x2 e : α) : equalWithAbsError x1 x2 e = true ↔ |x1 - x2| ≤ e :=
  Fun.equalWithAbsError_spec x1 x2 e

theorem equalWithRelError_iff (x1 x2 e : α) : equalWithRelError x1 x2 e = true ↔ |x1 - x2| ≤ e * |x1| :=
  Fun.equalWithRelError_spec x1 x2 e

/-- the guard of `lerpfactor` in mathematical notation -/
theorem lerpfactor_guard (tmax m a b : α) :
    lerpfactorGuard tmax m a b ↔ (|b - a| > 1 ∨ |m - a| < tmax * |b - a|) := Fun.lerpfactorGuard_iff tmax m a b

/-- `lerpfactor` inverts `lerp` (a ≠ b, guard passes) -/
theorem lerpfactor_inverts_lerp (tmax a b t : α) (hab : a ≠ b)
    (hg : lerpfactorGuard tmax (lerp a b t) a b) : lerpfactor tmax (lerp a b t) a b = t :=
  Fun.lerpfactor_inverts_lerp tmax a b t hab hg

example : lerpfactorGuard (1000 : ℚ) (lerp 1 3 (1 / 4)) 1 3 ∧ lerpfactor (1000 : ℚ) (lerp 1 3 (1 / 4)) 1 3 = 1 / 4 := by
  have hg : lerpfactorGuard (1000 : ℚ) (lerp 1 3 (1 / 4)) 1 3 := by
    rw [lerpfactor_guard]; left; norm_num
  exact ⟨hg, lerpfactor_inverts_lerp _ _ _ _ (by norm_num) hg⟩

/-- … and `lerp` inverts `lerpfactor` -/
theorem lerp_of_lerpfactor (tmax m a b : α) (hab : a ≠ b) (hg : lerpfactorGuard tmax m a b) :
    lerp a b (lerpfactor tmax m a b) = m := Fun.lerp_lerpfactor tmax m a b hab hg

/-- `lerpfactor` returns 0 exactly when the guard fires (or m = a), in particular for a = b,
and what it returns never exceeds `tmax` unless |m - a| already does -/
theorem lerpfactor_zero_instead_of_overflow (tmax m a b : α) (htmax : 0 < tmax) :
    (lerpfactor tmax m a b = 0 ↔ ¬ lerpfactorGuard tmax m a b ∨ m = a) ∧
    lerpfactor tmax m a a = 0 ∧
    (|lerpfactor tmax m a b| < tmax ∨ |lerpfactor tmax m a b| ≤ |m - a|) :=
  ⟨Fun.lerpfactor_eq_zero_iff tmax m a b, Fun.lerpfactor_eq_endpoints tmax m a,
   Fun.lerpfactor_bounded tmax m a b htmax⟩

example : ¬ lerpfactorGuard (1000 : ℚ) 5000 0 1 ∧ lerpfactor (1000 : ℚ) 5000 0 1 = 0 := by
  have hg : ¬ lerpfactorGuard (1000 : ℚ) 5000 0 1 := by rw [lerpfactor_guard]; norm_num
  exact ⟨hg, ((lerpfactor_zero_instead_of_overflow (1000 : ℚ) 5000 0 1 (by norm_num)).1).mpr (Or.inl hg)⟩
end Laws

/-! ## bit-level: finitef / finited, succ / pred -/

/-- `finitef f` ↔ the 8-bit exponent field is not all ones (every bit pattern) -/
theorem finitef_iff_exponent (u : Nat) : finitef u = true ↔ (u / 8388608) % 256 ≠ 255 := Fun.finitef_iff u

/-- `finited d` ↔ the 11-bit exponent field is not all ones -/
theorem finited_iff_exponent (u : Nat) : finited u = true ↔ (u / 4503599627370496) % 2048 ≠ 2047 :=
  Fun.finited_iff u

/-- `ord32`/`ord64` order bit patterns exactly as the real values they denote (±0 identified;
the infinity pattern is the next binade, so it sits right after MAX) -/
theorem ord_is_order_embedding :
    (∀ u v, u < 4294967296 → v < 4294967296 → (ord32 u < ord32 v ↔ val32 u < val32 v)) ∧
    (∀ u v, u < 18446744073709551616 → v < 18446744073709551616 → (ord64 u < ord64 v ↔ val64 u < val64 v)) :=
  ⟨fun u v hu hv => ordP_lt_iff 23 2147483648 u v (by omega) (by omega),
   fun u v hu hv => ordP_lt_iff 52 9223372036854775808 u v (by omega) (by omega)⟩

/-- `succf`: the adjacent representable value above (one step in the order), ∞ / NaN unchanged -/
theorem succf_adjacent (u : Nat) (hu : u < 4294967296) :
    (isfinite32 u = true → ord32 (succf u) = ord32 u + 1 ∧ succf u < 4294967296) ∧
    (isfinite32 u = false → succf u = u) := Fun.succf_spec u hu

theorem predf_adjacent (u : Nat) (hu : u < 4294967296) :
    (isfinite32 u = true → ord32 (predf u) = ord32 u - 1 ∧ predf u < 4294967296) ∧
    (isfinite32 u = false → predf u = u) := Fun.predf_spec u hu

theorem succd_adjacent (u : Nat) (hu : u < 18446744073709551616) :
    (isfinite64 u = true → ord64 (succd u) = ord64 u + 1 ∧ succd u < 18446744073709551616) ∧
    (isfinite64 u = false → succd u = u) := Fun.succd_spec u hu

theorem predd_adjacent (u : Nat) (hu : u < 18446744073709551616) :
    (isfinite64 u = true → ord64 (predd u) = ord64 u - 1 ∧ predd u < 18446744073709551616) ∧
    (isfinite64 u = false → predd u = u) := Fun.predd_spec u hu

/-- the boundary behaviour spelled out: ±0 ↦ ±min subnormal, -min subnormal ↦ -0,
FLT_MAX ↦ +inf, -FLT_MAX ↦ -inf, inf and a NaN fixed -/
theorem succ_pred_boundaries :
    succf 0 = 1 ∧ succf 0x80000000 = 1 ∧ predf 0 = 0x80000001 ∧ predf 0x80000000 = 0x80000001 ∧
    succf 0x80000001 = 0x80000000 ∧ predf 1 = 0 ∧
    succf 0x7f7fffff = 0x7f800000 ∧ predf 0xff7fffff = 0xff800000 ∧
    succf 0x7f800000 = 0x7f800000 ∧ predf 0x7f800000 = 0x7f800000 ∧
    succf 0x7fc00001 = 0x7fc00001 ∧ predf 0xff800000 = 0xff800000 ∧
    succd 0x7fefffffffffffff = 0x7ff0000000000000 ∧ succd 0x8000000000000000 = 1 ∧
    predd 0 = 0x8000000000000001 ∧ predd 0x7ff0000000000000 = 0x7ff0000000000000 := by decide

example : isfinite32 0x3f800000 = true ∧ succf 0x3f800000 = 0x3f800001 := by decide

/-- "adjacent representable value", spelled out: no bit pattern denotes a value strictly between x and succ (x), nor
between pred (x) and x (float and double) -/
theorem succ_pred_no_value_between :
    (∀ u w, u < 4294967296 → w < 4294967296 → isfinite32 u = true →
      ¬ (val32 u < val32 w ∧ val32 w < val32 (succf u)) ∧ ¬ (val32 (predf u) < val32 w ∧ val32 w < val32 u)) ∧
    (∀ u w, u < 18446744073709551616 → w < 18446744073709551616 → isfinite64 u = true →
      ¬ (val64 u < val64 w ∧ val64 w < val64 (succd u)) ∧ ¬ (val64 (predd u) < val64 w ∧ val64 w < val64 u)) := by
  refine ⟨fun u w hu hw hf => ⟨?_, ?_⟩, fun u w hu hw hf => ⟨?_, ?_⟩⟩
  · obtain ⟨h1, h2⟩ := (succf_adjacent u hu).1 hf
    rw [← ord_is_order_embedding.1 u w hu hw, ← ord_is_order_embedding.1 w (succf u) hw h2, h1]; omega
  · obtain ⟨h1, h2⟩ := (predf_adjacent u hu).1 hf
    rw [← ord_is_order_embedding.1 (predf u) w h2 hw, ← ord_is_order_embedding.1 w u hw hu, h1]; omega
  · obtain ⟨h1, h2⟩ := (succd_adjacent u hu).1 hf
    rw [← ord_is_order_embedding.2 u w hu hw, ← ord_is_order_embedding.2 w (succd u) hw h2, h1]; omega
  · obtain ⟨h1, h2⟩ := (predd_adjacent u hu).1 hf
    rw [← ord_is_order_embedding.2 (predd u) w h2 hw, ← ord_is_order_embedding.2 w u hw hu, h1]; omega

/-! ## ImathRoots.h -/
section RootsSec
variable {α : Type} [Field α] [LinearOrder α] [IsStrictOrderedRing α]

/-- `solveLinear`: the root, no root, or every number -/
theorem solveLinear_correct (a b : α) :
    (a ≠ 0 → solveLinear a b = (1, [-b / a]) ∧ a * (-b / a) + b = 0 ∧ ∀ x, a * x + b = 0 → x = -b / a) ∧
    (a = 0 → b ≠ 0 → solveLinear a b = (0, []) ∧ ∀ x, a * x + b ≠ 0) ∧
    (a = 0 → b = 0 → solveLinear a b = (-1, []) ∧ ∀ x, a * x + b = 0) := Roots.solveLinear_spec a b

/-- `solveQuadratic`, D > 0: exactly the two distinct real roots; the stable `q` is never 0 -/
theorem solveQuadratic_two_roots (sqrt : α → α) (a b c : α) (ha : a ≠ 0)
    (hD : 0 < b * b - 4 * a * c)
    (hs : sqrt (b * b - 4 * a * c) * sqrt (b * b - 4 * a * c) = b * b - 4 * a * c ∧
      0 ≤ sqrt (b * b - 4 * a * c)) :
    ∃ x0 x1, solveQuadratic sqrt a b c = (2, [x0, x1]) ∧
      stableQ sqrt a b c ≠ 0 ∧ x0 = stableQ sqrt a b c / a ∧ x1 = c / stableQ sqrt a b c ∧
      a * x0 * x0 + b * x0 + c = 0 ∧ a * x1 * x1 + b * x1 + c = 0 ∧ x0 ≠ x1 ∧
      ∀ x, a * x * x + b * x + c = 0 → x = x0 ∨ x = x1 := Roots.solveQuadratic_two sqrt a b c ha hD hs

/-- non-vacuity: x² - 3x + 2 over ℚ with `sqrt 1 = 1` -/
example : ∃ x0 x1, solveQuadratic (fun _ => (1 : ℚ)) 1 (-3) 2 = (2, [x0, x1]) ∧ x0 ≠ x1 := by
  obtain ⟨x0, x1, h, _, _, _, _, _, hne, _⟩ :=
    solveQuadratic_two_roots (fun _ => (1 : ℚ)) 1 (-3) 2 (by norm_num) (by norm_num) (by norm_num)
  exact ⟨x0, x1, h, hne⟩

/-- `solveQuadratic`, D = 0: the single (double) root -/
theorem solveQuadratic_one_root (sqrt : α → α) (a b c : α) (ha : a ≠ 0) (hD : b * b - 4 * a * c = 0) :
    solveQuadratic sqrt a b c = (1, [-b / (2 * a)]) ∧
      a * (-b / (2 * a)) * (-b / (2 * a)) + b * (-b / (2 * a)) + c = 0 ∧
      ∀ x, a * x * x + b * x + c = 0 → x = -b / (2 * a) := Roots.solveQuadratic_one sqrt a b c ha hD
example : solveQuadratic (fun _ => (0 : ℚ)) 1 (-2) 1 = (1, [-(-2) / (2 * 1)]) :=
  (solveQuadratic_one_root _ 1 (-2) 1 (by norm_num) (by norm_num)).1

/-- `solveQuadratic`, D < 0: no real root -/
theorem solveQuadratic_no_root (sqrt : α → α) (a b c : α) (ha : a ≠ 0) (hD : b * b - 4 * a * c < 0) :
    solveQuadratic sqrt a b c = (0, []) ∧ ∀ x, a * x * x + b * x + c ≠ 0 :=
  Roots.solveQuadratic_none sqrt a b c ha hD
example : solveQuadratic (fun _ => (0 : ℚ)) 1 0 1 = (0, []) :=
  (solveQuadratic_no_root _ 1 0 1 (by norm_num) (by norm_num)).1

/-- delegation when leading coefficients vanish; a root of the normalised cubic is a root of the cubic -/
theorem solvers_delegate (F : CubicFns α) (a b c d : α) :
    solveQuadratic F.sqrt 0 b c = solveLinear b c ∧
    (a = 0 → solveCubic F a b c d = solveQuadratic F.sqrt b c d) ∧
    (a ≠ 0 → solveCubic F a b c d = solveNormalizedCubic F (b / a) (c / a) (d / a)) ∧
    (a ≠ 0 → ∀ x, x * x * x + (b / a) * (x * x) + (c / a) * x + d / a = 0 →
      a * (x * x * x) + b * (x * x) + c * x + d = 0) :=
  ⟨Roots.solveQuadratic_delegates F.sqrt b c, (Roots.solveCubic_delegates F a b c d).1,
   (Roots.solveCubic_delegates F a b c d).2, fun ha x h => Roots.normalized_root a b c d x ha h⟩

/-- `solveNormalizedCubic`, D = 0 ∧ p = 0: the triple root -r/3, and it is the only root -/
theorem solveNormalizedCubic_triple_root (F : CubicFns α) (r s t : α)
    (hD : cubicD r s t = 0) (hp : cubicP r s / 3 = 0) :
    solveNormalizedCubic F r s t = (1, [-r / 3, -r / 3, -r / 3]) ∧
    (-r / 3) * (-r / 3) * (-r / 3) + r * ((-r / 3) * (-r / 3)) + s * (-r / 3) + t = 0 ∧
    ∀ x, x * x * x + r * (x * x) + s * x + t = 0 → x = -r / 3 :=
  Roots.solveNormalizedCubic_triple F r s t hD hp
example (F : CubicFns ℚ) : solveNormalizedCubic F 3 3 1 = (1, [-3 / 3, -3 / 3, -3 / 3]) :=
  (solveNormalizedCubic_triple_root F 3 3 1 (by unfold cubicD cubicP cubicQ; norm_num)
    (by unfold cubicP; norm_num)).1

/-- `solveNormalizedCubic`, D > 0 (one real root), at full strength: the value returned is a root
of x³ + r x² + s x + t whenever `sqrt` is exact at D and the cube root is exact at its argument.
(Before /repo commit 7563d4d this needed the side condition ¬ (p = 0 ∧ q > 0).) -/
theorem solveNormalizedCubic_real (F : CubicFns α) (r s t : α) (hD : 0 < cubicD r s t)
    (hs : F.sqrt (cubicD r s t) * F.sqrt (cubicD r s t) = cubicD r s t ∧ 0 ≤ F.sqrt (cubicD r s t))
    (hcs : (F.copysign1 (cardanoA F r s t) = 1 ∨ F.copysign1 (cardanoA F r s t) = -1) ∧
      0 ≤ F.copysign1 (cardanoA F r s t) * cardanoA F r s t)
    (hpow : F.pow (F.copysign1 (cardanoA F r s t) * cardanoA F r s t) (1 / 3) *
        F.pow (F.copysign1 (cardanoA F r s t) * cardanoA F r s t) (1 / 3) *
        F.pow (F.copysign1 (cardanoA F r s t) * cardanoA F r s t) (1 / 3) =
      F.copysign1 (cardanoA F r s t) * cardanoA F r s t) :
    ∃ x, solveNormalizedCubic F r s t = (1, [x]) ∧ x * x * x + r * (x * x) + s * x + t = 0 :=
  Roots.solveNormalizedCubic_real F r s t hD hs hcs hpow

/-- the cube-root argument of the D > 0 branch is never 0, so `v = -p / (3 u)` never divides by 0 -/
theorem cardanoA_never_zero (F : CubicFns α) (r s t : α) (hD : 0 < cubicD r s t)
    (hs : F.sqrt (cubicD r s t) * F.sqrt (cubicD r s t) = cubicD r s t ∧ 0 ≤ F.sqrt (cubicD r s t)) :
    cardanoA F r s t ≠ 0 := Roots.cardanoA_ne_zero F r s t hD hs

/-- the former defect input x³ + 1 = 0 (r = s = 0, t = 1; the old code returned NaN): the root -1
is returned.  (Replayed on the real code by the check: the (x - h)³ + k family is always generated.) -/
theorem cubic_former_defect_fixed (F : CubicFns α)
    (hs : F.sqrt (1 / 4) = 1 / 2) (hcs : F.copysign1 (-1) = -1) (hpow : F.pow 1 (1 / 3) = 1) :
    cardanoA F 0 0 1 = -1 ∧ solveNormalizedCubic F 0 0 1 = (1, [-1]) ∧
    (-1 : α) * (-1) * (-1) + 0 * ((-1) * (-1)) + 0 * (-1) + 1 = 0 :=
  Roots.cubic_former_defect_fixed F hs hcs hpow

/-- `solveNormalizedCubic`, D ≤ 0 (complex intermediates), for the algorithm with an IDEAL √3 (`h3`; the source's rational
literal does not satisfy it - for the code see `solveNormalizedCubic_complex_any_sqrt3` and
`gen_solveNormalizedCubic_three_literal`): two (D = 0) or three (D < 0) values are written and each of them is a root -/
theorem solveNormalizedCubic_complex_roots (F : CubicFns α) (r s t : α) (w : α)
    (hD : cubicD r s t ≤ 0) (hnt : ¬ (cubicD r s t = 0 ∧ cubicP r s / 3 = 0))
    (hcsqrt : F.csqrt (cubicD r s t, 0) = (0, w) ∧ w * w = -cubicD r s t)
    (hcube : cmul (cmul (cubicU F r s t) (cubicU F r s t)) (cubicU F r s t) = (-(cubicQ r s t) / 2, w))
    (h3 : F.sqrt3 * F.sqrt3 = 3) :
    solveNormalizedCubic F r s t = cubicComplex F r s t ∧
    ∃ x0 x1 x2, (cubicComplex F r s t = (2, [x0, x1]) ∨ cubicComplex F r s t = (3, [x0, x1, x2])) ∧
      (cubicComplex F r s t = (2, [x0, x1]) ↔ cubicD r s t = 0) ∧
      x0 * x0 * x0 + r * (x0 * x0) + s * x0 + t = 0 ∧
      x1 * x1 * x1 + r * (x1 * x1) + s * x1 + t = 0 ∧
      x2 * x2 * x2 + r * (x2 * x2) + s * x2 + t = 0 := by
  refine ⟨?_, Roots.cubicComplex_roots F r s t w hD hnt hcsqrt hcube h3⟩
  rw [solveNormalizedCubic_cases, if_neg, if_neg (not_lt.mpr hD)]
  simpa using hnt

/-! ### "report the number of distinct real roots": the count returned IS the number of distinct real roots -/

/-- D > 0: a cubic has at most one real root (any two real roots coincide) -/
theorem cubic_one_real_root (r s t x y : α) (hD : 0 < cubicD r s t)
    (hx : x * x * x + r * (x * x) + s * x + t = 0) (hy : y * y * y + r * (y * y) + s * y + t = 0) : y = x :=
  Roots.cubic_unique_root r s t x y hD hx hy

/-- `solveNormalizedCubic`, D > 0: count 1, the value returned is a root, and it is the ONLY real root -/
theorem solveNormalizedCubic_real_unique (F : CubicFns α) (r s t : α) (hD : 0 < cubicD r s t)
    (hs : F.sqrt (cubicD r s t) * F.sqrt (cubicD r s t) = cubicD r s t ∧ 0 ≤ F.sqrt (cubicD r s t))
    (hcs : (F.copysign1 (cardanoA F r s t) = 1 ∨ F.copysign1 (cardanoA F r s t) = -1) ∧
      0 ≤ F.copysign1 (cardanoA F r s t) * cardanoA F r s t)
    (hpow : F.pow (F.copysign1 (cardanoA F r s t) * cardanoA F r s t) (1 / 3) *
        F.pow (F.copysign1 (cardanoA F r s t) * cardanoA F r s t) (1 / 3) *
        F.pow (F.copysign1 (cardanoA F r s t) * cardanoA F r s t) (1 / 3) =
      F.copysign1 (cardanoA F r s t) * cardanoA F r s t) :
    ∃ x, solveNormalizedCubic F r s t = (1, [x]) ∧
      ∀ y, y * y * y + r * (y * y) + s * y + t = 0 ↔ y = x := by
  obtain ⟨x, hx, hroot⟩ := Roots.solveNormalizedCubic_real F r s t hD hs hcs hpow
  exact ⟨x, hx, fun y => ⟨fun hy => Roots.cubic_unique_root r s t x y hD hroot hy, fun h => by rw [h]; exact hroot⟩⟩

/-- `solveNormalizedCubic`, D < 0, IDEAL √3 (`h3` — not satisfiable by the source's literal; about the algorithm, see
`gen_solveNormalizedCubic_three_literal` for the code): count 3, the three values written are pairwise DISTINCT, the cubic
factors as (y - x0)(y - x1)(y - x2), so they are exactly the real roots.  (Any cube root the library returns will do.) -/
theorem solveNormalizedCubic_three_distinct (F : CubicFns α) (r s t : α) (w : α)
    (hD : cubicD r s t < 0)
    (hcsqrt : F.csqrt (cubicD r s t, 0) = (0, w) ∧ w * w = -cubicD r s t)
    (hcube : cmul (cmul (cubicU F r s t) (cubicU F r s t)) (cubicU F r s t) = (-(cubicQ r s t) / 2, w))
    (h3 : F.sqrt3 * F.sqrt3 = 3) :
    ∃ x0 x1 x2, solveNormalizedCubic F r s t = (3, [x0, x1, x2]) ∧ x0 ≠ x1 ∧ x1 ≠ x2 ∧ x0 ≠ x2 ∧
      (∀ y, y * y * y + r * (y * y) + s * y + t = (y - x0) * (y - x1) * (y - x2)) ∧
      (∀ y, y * y * y + r * (y * y) + s * y + t = 0 ↔ y = x0 ∨ y = x1 ∨ y = x2) :=
  Roots.solveNormalizedCubic_three F r s t w hD hcsqrt hcube h3

/-- `solveNormalizedCubic`, D = 0, p ≠ 0 (a double and a simple root), IDEAL √3 (`h3`, `h3pos`; about the algorithm):
count 2, the two values written are DISTINCT and exactly the real roots — provided `pow` returns the PRINCIPAL complex cube root (closed first quadrant) and the literal
`sqrt3` is positive.  (With another cube root the code would write the double root twice; the principal-value
convention is part of what the clause rests on, and it is checked on the real code by the count obligation.) -/
theorem solveNormalizedCubic_double_root (F : CubicFns α) (r s t : α) (w : α)
    (hD : cubicD r s t = 0) (hp0 : cubicP r s / 3 ≠ 0)
    (hcsqrt : F.csqrt (cubicD r s t, 0) = (0, w) ∧ w * w = -cubicD r s t)
    (hcube : cmul (cmul (cubicU F r s t) (cubicU F r s t)) (cubicU F r s t) = (-(cubicQ r s t) / 2, w))
    (h3 : F.sqrt3 * F.sqrt3 = 3) (h3pos : 0 < F.sqrt3)
    (hprinc : 0 ≤ (cubicU F r s t).1 ∧ 0 ≤ (cubicU F r s t).2) :
    ∃ x0 x1, solveNormalizedCubic F r s t = (2, [x0, x1]) ∧ x0 ≠ x1 ∧
      (∀ y, y * y * y + r * (y * y) + s * y + t = 0 ↔ y = x0 ∨ y = x1) :=
  Roots.solveNormalizedCubic_two F r s t w hD hp0 hcsqrt hcube h3 h3pos hprinc
end RootsSec

/-! ## T-route tie: the definitions EXTRACTED from ImathFun.h / ImathMath.h / ImathRoots.h are the hand models

`Gen/C17Fun.lean`, `Gen/C17Roots.lean` are regenerated from /repo on every run (harness/sym/sym_c17.cpp: the real
templates instantiated at a symbolic scalar, all paths enumerated).  Each theorem below says that the regenerated
definition equals the hand model the other theorems of this file are about (over every ordered field), so an edit of
the source that changes a function breaks `gen_<function>` — with a concrete failing input from the check's search —
instead of merely a sample.  `abs`, `clamp`, `equalWithAbsError/RelError` are also shown equal to the node
definitions `sabs`, `sclamp`, `sabsdiff` that harness/sym/sym.h substitutes for them in every other property's
extraction.  Proofs try `rfl` first and fall back to ring normalisation, so harmless rewrites of the source do not
break them. -/
section Link
variable {α : Type} [Field α] [LinearOrder α] [IsStrictOrderedRing α]

theorem abs_is_sabs (a : α) : Fun.abs a = sabs a := rfl

theorem gen_abs (a : α) : Gen.Fun.abs a = Fun.abs a ∧ Gen.Fun.abs a = sabs a := by
  constructor <;> first | rfl | (simp only [Gen.Fun.abs, Fun.abs, sabs, gt_iff_lt]; split_ifs <;> first | rfl | ring)

theorem gen_sign (a : α) : Gen.Fun.sign a = Fun.sign a := by
  first | rfl | (simp only [Gen.Fun.sign, Fun.sign, gt_iff_lt]; split_ifs <;> first | rfl | (exfalso; linarith))

theorem gen_lerp (a b t : α) : Gen.Fun.lerp a b t = Fun.lerp a b t := by
  first | rfl | (simp only [Gen.Fun.lerp, Fun.lerp]; ring)

theorem gen_ulerp (a b t : α) : Gen.Fun.ulerp a b t = Fun.ulerp a b t := by
  first | rfl | (simp only [Gen.Fun.ulerp, Fun.ulerp, gt_iff_lt]; split_ifs <;> first | rfl | ring | (exfalso; linarith))

theorem gen_lerpfactor (tmax m a b : α) : Gen.Fun.lerpfactor tmax m a b = Fun.lerpfactor tmax m a b := by
  simp only [Gen.Fun.lerpfactor, Fun.lerpfactor, abs_is_sabs, gt_iff_lt]
  by_cases h1 : 1 < sabs (b - a) <;> by_cases h2 : sabs (m - a) < tmax * sabs (b - a) <;> simp [h1, h2]

theorem gen_clamp (a l h : α) : Gen.Fun.clamp a l h = Fun.clamp a l h ∧ Gen.Fun.clamp a l h = sclamp a l h := by
  constructor <;> first | rfl | (simp only [Gen.Fun.clamp, Fun.clamp, sclamp, gt_iff_lt]; split_ifs <;> first | rfl | (exfalso; linarith))

theorem gen_cmp (a b : α) : Gen.Fun.cmp a b = Fun.cmp a b := by
  first | rfl | (simp only [Gen.Fun.cmp, Fun.cmp, Fun.sign, gt_iff_lt]; split_ifs <;> first | rfl | (exfalso; linarith))

theorem gen_cmpt (a b t : α) : Gen.Fun.cmpt a b t = Fun.cmpt a b t := by
  first | rfl | (simp only [Gen.Fun.cmpt, Fun.cmpt, Fun.cmp, Fun.sign, abs_is_sabs, gt_iff_lt]; split_ifs <;> first | rfl | (exfalso; linarith))

theorem gen_iszero (a t : α) : Gen.Fun.iszero a t = Fun.iszero a t := by
  first | rfl | (simp only [Gen.Fun.iszero, Fun.iszero, abs_is_sabs]; split_ifs <;> first | rfl | simp_all)

theorem gen_equal (a b t : α) : Gen.Fun.equal a b t = Fun.equal a b t := by
  simp only [Gen.Fun.equal, Fun.equal, abs_is_sabs]
  by_cases h : sabs (a - b) ≤ t <;> simp [h]

theorem gen_equalWithAbsError (x1 x2 e : α) :
    Gen.Fun.equalWithAbsError x1 x2 e = Fun.equalWithAbsError x1 x2 e ∧
    Gen.Fun.equalWithAbsError x1 x2 e = decide (sabsdiff x1 x2 ≤ e) := by
  simp only [Gen.Fun.equalWithAbsError, Fun.equalWithAbsError, sabsdiff, gt_iff_lt]
  constructor <;> split_ifs <;> simp_all

theorem gen_equalWithRelError (x1 x2 e : α) :
    Gen.Fun.equalWithRelError x1 x2 e = Fun.equalWithRelError x1 x2 e ∧
    Gen.Fun.equalWithRelError x1 x2 e = decide (sabsdiff x1 x2 ≤ e * sabs x1) := by
  simp only [Gen.Fun.equalWithRelError, Fun.equalWithRelError, sabsdiff, sabs, gt_iff_lt]
  constructor <;> split_ifs <;> simp_all

/-- `sinx_over_x` (ImathMath.h): 1 where x² < epsilon, else sin x / x — in particular never a division by 0 when
epsilon > 0, and `x * sinx_over_x x = sin x` off the guard -/
theorem gen_sinx_over_x (teps : α) (sin : α → α) (x : α) :
    Gen.Fun.sinx_over_x teps sin x = Fun.sinx_over_x teps sin x ∧
    (x * x < teps → Gen.Fun.sinx_over_x teps sin x = 1) ∧
    (0 < teps → ¬ x * x < teps → x ≠ 0 ∧ x * Gen.Fun.sinx_over_x teps sin x = sin x) := by
  have e : Gen.Fun.sinx_over_x teps sin x = Fun.sinx_over_x teps sin x := by
    first | rfl | (simp only [Gen.Fun.sinx_over_x, Fun.sinx_over_x]; split_ifs <;> first | rfl | ring)
  refine ⟨e, fun h => by rw [e, Fun.sinx_over_x, if_pos h], fun he h => ?_⟩
  have hx : x ≠ 0 := by rintro rfl; apply h; simpa using he
  refine ⟨hx, ?_⟩
  rw [e, Fun.sinx_over_x, if_neg h]; field_simp

/-- the literal is √3 to 2^-52: |literal² - 3| < 10^-15 (a typo in its digits breaks this) -/
theorem sqrt3_literal (sqrt : α → α) (pow copysign : α → α → α) (cpow : α → α → α → α × α) (csqrt : α → α → α × α) :
    |(genF sqrt pow copysign cpow csqrt).sqrt3 * (genF sqrt pow copysign cpow csqrt).sqrt3 - 3| < 1 / 1000000000000000 := by
  simp only [genF]; rw [abs_lt]; constructor <;> norm_num

/-- closes `(n, a, b, c) = (n', a', b', c')` when the components agree syntactically or up to ring identities (also
inside the arguments of the library functions) -/
macro "slots_eq" : tactic =>
  `(tactic| (simp only [List.getD_cons_zero, List.getD_cons_succ, List.getD_nil, Prod.mk.injEq, true_and] <;>
             first | rfl | (repeat' constructor) <;> first | rfl | ring_nf))

theorem gen_solveLinear (a b : α) : Gen.Roots.solveLinear a b = slots1 (solveLinear a b) := by
  simp only [Gen.Roots.solveLinear, solveLinear, slots1, bne_iff_ne, ne_eq, ite_not]
  split_ifs <;> first | slots_eq | simp_all

theorem gen_solveQuadratic (sqrt : α → α) (a b c : α) :
    Gen.Roots.solveQuadratic sqrt a b c = slots2 (solveQuadratic sqrt a b c) := by
  simp only [Gen.Roots.solveQuadratic, solveQuadratic, solveLinear, slots2, bne_iff_ne, beq_iff_eq, ne_eq, ite_not, gt_iff_lt]
  split_ifs <;> first | slots_eq | simp_all

set_option maxHeartbeats 2000000 in
theorem gen_solveNormalizedCubic (sqrt : α → α) (pow copysign : α → α → α) (cpow : α → α → α → α × α)
    (csqrt : α → α → α × α) (r s t : α) :
    Gen.Roots.solveNormalizedCubic sqrt pow copysign cpow csqrt r s t =
      slots3 (solveNormalizedCubic (genF sqrt pow copysign cpow csqrt) r s t) := by
  rw [solveNormalizedCubic_cases]
  simp only [Gen.Roots.solveNormalizedCubic, cubicReal, cubicComplex, cubicU, cardanoA, slots3, genF, realRoot, sadd, sdivc, smul, cadd,
    csub, cneg, cdivs, cmul, beq_iff_eq, Bool.and_eq_true, gt_iff_lt]
  rcases lt_trichotomy (cubicD r s t) 0 with hD | hD | hD
  · -- D < 0: three values through the complex arm
    have h1 : ¬ cubicD r s t = 0 := hD.ne
    have h2 : ¬ 0 < cubicD r s t := not_lt.mpr hD.le
    simp only [cubicD, cubicP, cubicQ] at h1 h2 ⊢
    simp only [eq_false h1, eq_false h2, false_and, if_false]
    slots_eq
  · by_cases hp : cubicP r s / 3 = 0
    · -- D = 0, p = 0: the triple root
      simp only [cubicD, cubicP, cubicQ] at hD hp ⊢
      simp only [eq_true hD, eq_true hp, and_self, if_true]
      slots_eq
    · -- D = 0, p ≠ 0: two values through the complex arm
      have h2 : ¬ 0 < cubicD r s t := by rw [hD]; exact lt_irrefl 0
      simp only [cubicD, cubicP, cubicQ] at hD hp h2 ⊢
      simp only [eq_true hD, eq_false hp, eq_false h2, and_false, if_true, if_false]
      slots_eq
  · -- D > 0: one value, cube root of the larger-magnitude -q/2 ± sqrt D
    have h1 : ¬ cubicD r s t = 0 := hD.ne'
    by_cases hq : 0 < cubicQ r s t
    · simp only [cubicD, cubicP, cubicQ] at hD h1 hq ⊢
      simp only [eq_false h1, eq_true hD, eq_true hq, false_and, if_true, if_false]
      slots_eq
    · simp only [cubicD, cubicP, cubicQ] at hD h1 hq ⊢
      simp only [eq_false h1, eq_true hD, eq_false hq, false_and, if_true, if_false]
      slots_eq

set_option maxHeartbeats 2000000 in
theorem gen_solveCubic (sqrt : α → α) (pow copysign : α → α → α) (cpow : α → α → α → α × α)
    (csqrt : α → α → α × α) (a b c d : α) :
    Gen.Roots.solveCubic sqrt pow copysign cpow csqrt a b c d =
      slots3 (solveCubic (genF sqrt pow copysign cpow csqrt) a b c d) := by
  by_cases ha : a = 0
  · -- a = 0: the quadratic solver, inlined
    simp only [Gen.Roots.solveCubic, solveCubic, solveQuadratic, solveLinear, slots3, genF, beq_iff_eq, bne_iff_ne, ne_eq, ite_not,
      gt_iff_lt, eq_true ha, if_true]
    split_ifs <;> first | slots_eq | simp_all
  · -- a ≠ 0: the normalised cubic at (b/a, c/a, d/a), inlined
    rw [show solveCubic (genF sqrt pow copysign cpow csqrt) a b c d =
        solveNormalizedCubic (genF sqrt pow copysign cpow csqrt) (b / a) (c / a) (d / a) by simp [solveCubic, ha],
      ← gen_solveNormalizedCubic]
    simp only [Gen.Roots.solveCubic, Gen.Roots.solveNormalizedCubic, eq_false ha, if_false] <;>
      first | rfl | (split_ifs <;> slots_eq)
/-! ### headline statements directly about the regenerated definitions (corollaries of the tie) -/

/-- `lerpfactor` inverts `lerp`, for the definitions extracted from the current ImathFun.h -/
theorem gen_lerpfactor_inverts_lerp (tmax a b t : α) (hab : a ≠ b)
    (hg : lerpfactorGuard tmax (Gen.Fun.lerp a b t) a b) :
    Gen.Fun.lerpfactor tmax (Gen.Fun.lerp a b t) a b = t := by
  rw [gen_lerpfactor]; rw [gen_lerp] at hg ⊢
  exact Fun.lerpfactor_inverts_lerp tmax a b t hab hg

/-- the extracted `solveQuadratic`, D > 0: count 2, the two slots are exactly the two distinct real roots -/
theorem gen_solveQuadratic_two_roots (sqrt : α → α) (a b c : α) (ha : a ≠ 0)
    (hD : 0 < b * b - 4 * a * c)
    (hs : sqrt (b * b - 4 * a * c) * sqrt (b * b - 4 * a * c) = b * b - 4 * a * c ∧
      0 ≤ sqrt (b * b - 4 * a * c)) :
    ∃ x0 x1, Gen.Roots.solveQuadratic sqrt a b c = (2, x0, x1) ∧ x0 ≠ x1 ∧
      ∀ x, a * x * x + b * x + c = 0 ↔ x = x0 ∨ x = x1 := by
  obtain ⟨x0, x1, h, _, _, _, r0, r1, hne, hall⟩ := Roots.solveQuadratic_two sqrt a b c ha hD hs
  refine ⟨x0, x1, ?_, hne, fun x => ⟨hall x, ?_⟩⟩
  · rw [gen_solveQuadratic, h]; rfl
  · rintro (rfl | rfl) <;> assumption

example : ∃ x0 x1 : ℚ, Gen.Roots.solveQuadratic (fun _ => (1 : ℚ)) 1 (-3) 2 = (2, x0, x1) ∧ x0 ≠ x1 := by
  obtain ⟨x0, x1, h, hne, _⟩ := gen_solveQuadratic_two_roots (fun _ => (1 : ℚ)) 1 (-3) 2 (by norm_num) (by norm_num) (by norm_num)
  exact ⟨x0, x1, h, hne⟩

/-- the extracted `solveNormalizedCubic`, D > 0: count 1 and slot 0 is THE real root (hypotheses on the raw library
functions the extracted definition takes as parameters) -/
theorem gen_solveNormalizedCubic_one_root (sqrt : α → α) (pow copysign : α → α → α) (cpow : α → α → α → α × α)
    (csqrt : α → α → α × α) (r s t : α) (hD : 0 < cubicD r s t)
    (hs : sqrt (cubicD r s t) * sqrt (cubicD r s t) = cubicD r s t ∧ 0 ≤ sqrt (cubicD r s t))
    (hcs : (copysign 1 (cardanoA (genF sqrt pow copysign cpow csqrt) r s t) = 1 ∨
        copysign 1 (cardanoA (genF sqrt pow copysign cpow csqrt) r s t) = -1) ∧
      0 ≤ copysign 1 (cardanoA (genF sqrt pow copysign cpow csqrt) r s t) * cardanoA (genF sqrt pow copysign cpow csqrt) r s t)
    (hpow : pow (copysign 1 (cardanoA (genF sqrt pow copysign cpow csqrt) r s t) * cardanoA (genF sqrt pow copysign cpow csqrt) r s t) (1 / 3) *
        pow (copysign 1 (cardanoA (genF sqrt pow copysign cpow csqrt) r s t) * cardanoA (genF sqrt pow copysign cpow csqrt) r s t) (1 / 3) *
        pow (copysign 1 (cardanoA (genF sqrt pow copysign cpow csqrt) r s t) * cardanoA (genF sqrt pow copysign cpow csqrt) r s t) (1 / 3) =
      copysign 1 (cardanoA (genF sqrt pow copysign cpow csqrt) r s t) * cardanoA (genF sqrt pow copysign cpow csqrt) r s t) :
    ∃ x, Gen.Roots.solveNormalizedCubic sqrt pow copysign cpow csqrt r s t = (1, x, 0, 0) ∧
      ∀ y, y * y * y + r * (y * y) + s * y + t = 0 ↔ y = x := by
  obtain ⟨x, hx, hall⟩ := solveNormalizedCubic_real_unique (genF sqrt pow copysign cpow csqrt) r s t hD hs hcs hpow
  exact ⟨x, by rw [gen_solveNormalizedCubic, hx]; rfl, hall⟩
/-! ### the D ≤ 0 arm of the EXTRACTED solver, with the literal the source really uses

`solveNormalizedCubic_complex_roots`, `_three_distinct`, `_double_root` assume `F.sqrt3 * F.sqrt3 = 3`; the extracted code
uses the rational literal `genF.sqrt3`, for which that hypothesis is false, so those three theorems describe the
algorithm with an ideal √3 and cannot be instantiated at the code.  What holds for the code, for ANY value of the
literal: the first value written is an exact root, the three values sum to -r, and the other two have the exact
residuals below, proportional to `literal² - 3`; with `sqrt3_literal` that is at most 10^-16 · |x0 - xi| · (x1 - x2)². -/

/-- model form, any `F.sqrt3` (no hypothesis on it): exact residuals of the values the D ≤ 0 arm writes -/
theorem solveNormalizedCubic_complex_any_sqrt3 (F : CubicFns α) (r s t : α) (w : α)
    (hD : cubicD r s t ≤ 0) (hnt : ¬ (cubicD r s t = 0 ∧ cubicP r s / 3 = 0))
    (hcsqrt : F.csqrt (cubicD r s t, 0) = (0, w) ∧ w * w = -cubicD r s t)
    (hcube : cmul (cmul (cubicU F r s t) (cubicU F r s t)) (cubicU F r s t) = (-(cubicQ r s t) / 2, w)) :
    ∃ a b x0 x1 x2, cubicU F r s t = (a, b) ∧
      solveNormalizedCubic F r s t = (if cubicD r s t == 0 then (2, [x0, x1]) else (3, [x0, x1, x2])) ∧
      x0 * x0 * x0 + r * (x0 * x0) + s * x0 + t = 0 ∧
      x1 * x1 * x1 + r * (x1 * x1) + s * x1 + t = -((x0 - x1) * (b * b) * (F.sqrt3 * F.sqrt3 - 3)) ∧
      x2 * x2 * x2 + r * (x2 * x2) + s * x2 + t = -((x0 - x2) * (b * b) * (F.sqrt3 * F.sqrt3 - 3)) ∧
      x0 + x1 + x2 = -r ∧ (x1 - x2) * (x1 - x2) = 4 * (b * b) * (F.sqrt3 * F.sqrt3) ∧
      cubicD r s t = -(b * b * ((3 * a * a - b * b) * (3 * a * a - b * b))) := by
  obtain ⟨a, b, x0, x1, x2, hu, e0, e1, e2, hform, f0, f1, f2, hsum, d01, d02, d12, hDab⟩ :=
    Roots.cubicComplex_residuals F r s t w hD hnt hcsqrt hcube
  refine ⟨a, b, x0, x1, x2, hu, ?_, f0, by rw [f1, d01], by rw [f2, d02], hsum, by rw [d12]; ring, hDab⟩
  rw [solveNormalizedCubic_cases, if_neg (by simpa using hnt), if_neg (not_lt.mpr hD)]
  exact hform

/-- the EXTRACTED `solveNormalizedCubic`, D < 0, with the source's literal: count 3; slot 0 is an exact root; the three
slots sum to -r; slots 1 and 2 are distinct and are roots up to the stated residual (the literal is √3 to 2^-52) -/
theorem gen_solveNormalizedCubic_three_literal (sqrt : α → α) (pow copysign : α → α → α) (cpow : α → α → α → α × α)
    (csqrt : α → α → α × α) (r s t w : α) (hD : cubicD r s t < 0)
    (hcsqrt : csqrt (cubicD r s t) 0 = (0, w) ∧ w * w = -cubicD r s t)
    (hcube : cmul (cmul (cubicU (genF sqrt pow copysign cpow csqrt) r s t) (cubicU (genF sqrt pow copysign cpow csqrt) r s t))
        (cubicU (genF sqrt pow copysign cpow csqrt) r s t) = (-(cubicQ r s t) / 2, w)) :
    ∃ x0 x1 x2, Gen.Roots.solveNormalizedCubic sqrt pow copysign cpow csqrt r s t = (3, x0, x1, x2) ∧
      x0 * x0 * x0 + r * (x0 * x0) + s * x0 + t = 0 ∧ x0 + x1 + x2 = -r ∧ x1 ≠ x2 ∧
      |x1 * x1 * x1 + r * (x1 * x1) + s * x1 + t| ≤ |x0 - x1| * ((x1 - x2) * (x1 - x2)) / 10000000000000000 ∧
      |x2 * x2 * x2 + r * (x2 * x2) + s * x2 + t| ≤ |x0 - x2| * ((x1 - x2) * (x1 - x2)) / 10000000000000000 := by
  have hnt : ¬ (cubicD r s t = 0 ∧ cubicP r s / 3 = 0) := fun h => hD.ne h.1
  obtain ⟨a, b, x0, x1, x2, hu, hres, f0, f1, f2, hsum, hsq, hDab⟩ :=
    solveNormalizedCubic_complex_any_sqrt3 (genF sqrt pow copysign cpow csqrt) r s t w hD.le hnt hcsqrt hcube
  have hS : (genF sqrt pow copysign cpow csqrt).sqrt3 = (3900231685776981 : α) / 2251799813685248 := rfl
  rw [hS] at f1 f2 hsq
  have hlo : (299 : α) / 100 < 3900231685776981 / 2251799813685248 * (3900231685776981 / 2251799813685248) := by norm_num
  have hε : |(3900231685776981 : α) / 2251799813685248 * (3900231685776981 / 2251799813685248) - 3| ≤ 1 / 1000000000000000 := by
    rw [abs_le]; constructor <;> norm_num
  generalize (3900231685776981 : α) / 2251799813685248 * (3900231685776981 / 2251799813685248) = S2 at f1 f2 hsq hlo hε
  have hb : b ≠ 0 := by
    intro hb; rw [hb] at hDab; rw [hDab] at hD; simp at hD
  have hbb : 0 < b * b := mul_self_pos.mpr hb
  -- |residual_i| = |x0 - xi| · b² · |S2 - 3|  and  (x1 - x2)² = 4 b² S2  with  |S2 - 3| ≤ 10^-15 ≤ 4 S2 / 10^16
  have key : ∀ d : α, |-(d * (b * b) * (S2 - 3))| ≤ |d| * ((x1 - x2) * (x1 - x2)) / 10000000000000000 := by
    intro d
    rw [abs_neg, abs_mul, abs_mul, abs_of_pos hbb, hsq]
    have hd : 0 ≤ |d| := abs_nonneg d
    have h1 : |S2 - 3| ≤ 4 * S2 / 10000000000000000 := by linarith
    have h2 : 0 ≤ |d| * (b * b) := mul_nonneg hd hbb.le
    calc |d| * (b * b) * |S2 - 3| ≤ |d| * (b * b) * (4 * S2 / 10000000000000000) := mul_le_mul_of_nonneg_left h1 h2
      _ = |d| * (4 * (b * b) * S2) / 10000000000000000 := by ring
  refine ⟨x0, x1, x2, ?_, f0, hsum, ?_, ?_, ?_⟩
  · rw [gen_solveNormalizedCubic, hres]; simp [hD.ne, slots3]
  · intro h
    have h0 : (x1 - x2) * (x1 - x2) = 0 := by rw [h]; ring
    rw [hsq] at h0
    have : 0 < 4 * (b * b) * S2 := by
      have : (0 : α) < S2 := by linarith
      positivity
    linarith
  · rw [f1]; exact key _
  · rw [f2]; exact key _
end Link

/-- concrete library functions over ℚ for the non-vacuity examples -/
def exF (sq cs pw : ℚ) (csq cpw : ℚ × ℚ) (s3 : ℚ) : CubicFns ℚ :=
  ⟨fun _ => sq, fun _ => cs, fun _ _ => pw, fun _ => csq, fun _ _ => cpw, s3⟩

/-- non-vacuity of `solveNormalizedCubic_real`: y³ + 6y - 7 (root 1; q = -7 ≤ 0, D = 81/4,
A = 7/2 + 9/2 = 8, u = 2, v = -1) -/
example : ∃ x, solveNormalizedCubic (exF (9 / 2) 1 2 (0, 0) (0, 0) 0) 0 6 (-7) = (1, [x]) ∧
    x * x * x + 0 * (x * x) + 6 * x + -7 = 0 := by
  have hD : cubicD (0 : ℚ) 6 (-7) = 81 / 4 := by unfold cubicD cubicP cubicQ; norm_num
  have hA : cardanoA (exF (9 / 2) 1 2 (0, 0) (0, 0) 0) 0 6 (-7) = 8 := by
    unfold cardanoA cubicQ; rw [hD]; simp only [exF]; norm_num
  apply solveNormalizedCubic_real
  · rw [hD]; norm_num
  · rw [hD]; simp only [exF]; norm_num
  · rw [hA]; simp only [exF]; norm_num
  · rw [hA]; simp only [exF]; norm_num

/-- … and on the q > 0 side, at the former defect x³ + 1: A = -1/2 - 1/2 = -1, u = -1, v = 0, x = -1 -/
example : solveNormalizedCubic (exF (1 / 2) (-1) 1 (0, 0) (0, 0) 0) 0 0 1 = (1, [-1]) :=
  (cubic_former_defect_fixed (exF (1 / 2) (-1) 1 (0, 0) (0, 0) 0) rfl rfl rfl).2.1

/-- non-vacuity of `solveNormalizedCubic_complex_roots` over ℝ (three real roots, D < 0):
x³ - 7x + 6 = (x - 1)(x - 2)(x + 3); p = -7, q = 6, D = -100/27, sqrt (D) = (0, 10√3/9),
z = (-3, 10√3/9), principal cube root u = (1, 2√3/3). -/
example : ∃ x0 x1 x2 : ℝ,
    solveNormalizedCubic (⟨Real.sqrt, fun _ => 1, fun _ _ => 0, fun _ => (0, 10 * Real.sqrt 3 / 9),
      fun _ _ => (1, 2 * Real.sqrt 3 / 3), Real.sqrt 3⟩ : CubicFns ℝ) 0 (-7) 6 = (3, [x0, x1, x2]) ∧
    x0 * x0 * x0 + 0 * (x0 * x0) + -7 * x0 + 6 = 0 ∧ x1 * x1 * x1 + 0 * (x1 * x1) + -7 * x1 + 6 = 0 ∧
    x2 * x2 * x2 + 0 * (x2 * x2) + -7 * x2 + 6 = 0 := by
  have h3 : Real.sqrt 3 * Real.sqrt 3 = 3 := Real.mul_self_sqrt (by norm_num)
  have hD : cubicD (0 : ℝ) (-7) 6 = -100 / 27 := by unfold cubicD cubicP cubicQ; norm_num
  have hq : cubicQ (0 : ℝ) (-7) 6 = 6 := by unfold cubicQ; norm_num
  have hp : cubicP (0 : ℝ) (-7) = -7 := by unfold cubicP; norm_num
  obtain ⟨he, x0, x1, x2, h1, h2, r0, r1, r2⟩ :=
    solveNormalizedCubic_complex_roots (⟨Real.sqrt, fun _ => 1, fun _ _ => 0, fun _ => (0, 10 * Real.sqrt 3 / 9),
      fun _ _ => (1, 2 * Real.sqrt 3 / 3), Real.sqrt 3⟩ : CubicFns ℝ) 0 (-7) 6 (10 * Real.sqrt 3 / 9)
      (by rw [hD]; norm_num) (by rw [hD]; norm_num)
      ⟨rfl, by rw [hD]; linear_combination (100 / 81 : ℝ) * h3⟩
      (by
        rw [hq]; simp only [cubicU, cmul, Prod.mk.injEq]
        constructor
        · linear_combination (-4 / 3 : ℝ) * h3
        · linear_combination (-8 / 27 * Real.sqrt 3 : ℝ) * h3)
      h3
  refine ⟨x0, x1, x2, ?_, r0, r1, r2⟩
  rw [he]
  rcases h1 with h1 | h1
  · exact absurd (h2.mp h1) (by rw [hD]; norm_num)
  · exact h1

/-- non-vacuity of `solveNormalizedCubic_real_unique`: y³ + 6y - 7 has the single real root 1 -/
theorem nonvacuity_cubic_real_unique : ∃ x, solveNormalizedCubic (exF (9 / 2) 1 2 (0, 0) (0, 0) 0) 0 6 (-7) = (1, [x]) ∧
    ∀ y : ℚ, y * y * y + 0 * (y * y) + 6 * y + -7 = 0 ↔ y = x := by
  have hD : cubicD (0 : ℚ) 6 (-7) = 81 / 4 := by unfold cubicD cubicP cubicQ; norm_num
  have hA : cardanoA (exF (9 / 2) 1 2 (0, 0) (0, 0) 0) 0 6 (-7) = 8 := by
    unfold cardanoA cubicQ; rw [hD]; simp only [exF]; norm_num
  apply solveNormalizedCubic_real_unique
  · rw [hD]; norm_num
  · rw [hD]; simp only [exF]; norm_num
  · rw [hA]; simp only [exF]; norm_num
  · rw [hA]; simp only [exF]; norm_num

/-- non-vacuity of `solveNormalizedCubic_three_distinct` over ℝ: x³ - 7x + 6 = (x - 1)(x - 2)(x + 3) -/
theorem nonvacuity_cubic_three_distinct : ∃ x0 x1 x2 : ℝ,
    solveNormalizedCubic (⟨Real.sqrt, fun _ => 1, fun _ _ => 0, fun _ => (0, 10 * Real.sqrt 3 / 9),
      fun _ _ => (1, 2 * Real.sqrt 3 / 3), Real.sqrt 3⟩ : CubicFns ℝ) 0 (-7) 6 = (3, [x0, x1, x2]) ∧
    x0 ≠ x1 ∧ x1 ≠ x2 ∧ x0 ≠ x2 := by
  have h3 : Real.sqrt 3 * Real.sqrt 3 = 3 := Real.mul_self_sqrt (by norm_num)
  have hD : cubicD (0 : ℝ) (-7) 6 = -100 / 27 := by unfold cubicD cubicP cubicQ; norm_num
  have hq : cubicQ (0 : ℝ) (-7) 6 = 6 := by unfold cubicQ; norm_num
  obtain ⟨x0, x1, x2, he, h01, h12, h02, _, _⟩ :=
    solveNormalizedCubic_three_distinct (⟨Real.sqrt, fun _ => 1, fun _ _ => 0, fun _ => (0, 10 * Real.sqrt 3 / 9),
      fun _ _ => (1, 2 * Real.sqrt 3 / 3), Real.sqrt 3⟩ : CubicFns ℝ) 0 (-7) 6 (10 * Real.sqrt 3 / 9)
      (by rw [hD]; norm_num)
      ⟨rfl, by rw [hD]; linear_combination (100 / 81 : ℝ) * h3⟩
      (by
        rw [hq]; simp only [cubicU, cmul, Prod.mk.injEq]
        constructor
        · linear_combination (-4 / 3 : ℝ) * h3
        · linear_combination (-8 / 27 * Real.sqrt 3 : ℝ) * h3)
      h3
  exact ⟨x0, x1, x2, he, h01, h12, h02⟩

/-- non-vacuity of `gen_solveNormalizedCubic_three_literal` over ℝ: the EXTRACTED solver on x³ - 7x + 6 with the exact complex
square / cube roots as library functions and its own rational literal for √3: slot 0 is the root 2 exactly, slots 1 and 2
are the roots -3 and 1 up to the literal's error -/
theorem nonvacuity_gen_three_literal : ∃ x0 x1 x2 : ℝ,
    Gen.Roots.solveNormalizedCubic Real.sqrt (fun _ _ => 0) (fun _ _ => 1) (fun _ _ _ => (1, 2 * Real.sqrt 3 / 3))
      (fun _ _ => (0, 10 * Real.sqrt 3 / 9)) 0 (-7) 6 = (3, x0, x1, x2) ∧
    x0 * x0 * x0 + 0 * (x0 * x0) + -7 * x0 + 6 = 0 ∧ x0 + x1 + x2 = -0 ∧ x1 ≠ x2 := by
  have h3 : Real.sqrt 3 * Real.sqrt 3 = 3 := Real.mul_self_sqrt (by norm_num)
  have hD : cubicD (0 : ℝ) (-7) 6 = -100 / 27 := by unfold cubicD cubicP cubicQ; norm_num
  have hq : cubicQ (0 : ℝ) (-7) 6 = 6 := by unfold cubicQ; norm_num
  obtain ⟨x0, x1, x2, he, f0, hs, hne, _, _⟩ :=
    gen_solveNormalizedCubic_three_literal Real.sqrt (fun _ _ => 0) (fun _ _ => 1) (fun _ _ _ => (1, 2 * Real.sqrt 3 / 3))
      (fun _ _ => (0, 10 * Real.sqrt 3 / 9)) 0 (-7) 6 (10 * Real.sqrt 3 / 9)
      (by rw [hD]; norm_num)
      ⟨rfl, by rw [hD]; linear_combination (100 / 81 : ℝ) * h3⟩
      (by
        rw [hq]; simp only [cubicU, genF, cmul, Prod.mk.injEq]
        constructor
        · linear_combination (-4 / 3 : ℝ) * h3
        · linear_combination (-8 / 27 * Real.sqrt 3 : ℝ) * h3)
  exact ⟨x0, x1, x2, he, f0, hs, hne⟩

/-- non-vacuity of `solveNormalizedCubic_double_root` over ℝ (the (2, [x0, x1]) case): x³ - 3x + 2 = (x - 1)²(x + 2);
p = -3, q = 2, D = 0, sqrt (D) = (0, 0), z = -1, principal cube root u = (1/2, √3/2); the code writes 1 and -2 -/
theorem nonvacuity_cubic_double_root : ∃ x0 x1 : ℝ,
    solveNormalizedCubic (⟨Real.sqrt, fun _ => 1, fun _ _ => 0, fun _ => (0, 0),
      fun _ _ => (1 / 2, Real.sqrt 3 / 2), Real.sqrt 3⟩ : CubicFns ℝ) 0 (-3) 2 = (2, [x0, x1]) ∧ x0 ≠ x1 ∧
    (∀ y : ℝ, y * y * y + 0 * (y * y) + -3 * y + 2 = 0 ↔ y = x0 ∨ y = x1) := by
  have h3 : Real.sqrt 3 * Real.sqrt 3 = 3 := Real.mul_self_sqrt (by norm_num)
  have h3pos : 0 < Real.sqrt 3 := Real.sqrt_pos.mpr (by norm_num)
  have hD : cubicD (0 : ℝ) (-3) 2 = 0 := by unfold cubicD cubicP cubicQ; norm_num
  have hq : cubicQ (0 : ℝ) (-3) 2 = 2 := by unfold cubicQ; norm_num
  have hp : cubicP (0 : ℝ) (-3) = -3 := by unfold cubicP; norm_num
  exact solveNormalizedCubic_double_root (⟨Real.sqrt, fun _ => 1, fun _ _ => 0, fun _ => (0, 0),
      fun _ _ => (1 / 2, Real.sqrt 3 / 2), Real.sqrt 3⟩ : CubicFns ℝ) 0 (-3) 2 0 hD (by rw [hp]; norm_num)
      ⟨rfl, by rw [hD]; norm_num⟩
      (by
        rw [hq]; simp only [cubicU, cmul, Prod.mk.injEq]
        constructor
        · linear_combination (-3 / 8 : ℝ) * h3
        · linear_combination (-(Real.sqrt 3) / 8 : ℝ) * h3)
      h3 h3pos ⟨by simp only [cubicU]; norm_num, by simp only [cubicU]; positivity⟩

/-! ## ImathColorAlgo -/
section Colour
variable {α : Type} [Field α] [LinearOrder α] [IsStrictOrderedRing α]

/-- the Color4 copies of `hsv2rgb_d` / `rgb2hsv_d` compute what the Vec3 copies compute on
(r, g, b) and pass alpha through unchanged -/
theorem color4_agrees_with_vec3 (fl : α → Int) (c : ColorAlgo.C4 α) :
    hsv2rgbC4 fl c = ⟨(hsv2rgbV3 fl ⟨c.r, c.g, c.b⟩).x, (hsv2rgbV3 fl ⟨c.r, c.g, c.b⟩).y,
      (hsv2rgbV3 fl ⟨c.r, c.g, c.b⟩).z, c.a⟩ ∧
    rgb2hsvC4 c = ⟨(rgb2hsvV3 ⟨c.r, c.g, c.b⟩).x, (rgb2hsvV3 ⟨c.r, c.g, c.b⟩).y,
      (rgb2hsvV3 ⟨c.r, c.g, c.b⟩).z, c.a⟩ := ⟨hsv2rgbC4_eq_V3 fl c, rgb2hsvC4_eq_V3 c⟩

/-- hsv2rgb ∘ rgb2hsv = id for every colour with non-negative components (⊇ the unit cube) -/
theorem hsv2rgb_rgb2hsv {fl : α → Int} (hfl : IsFloor fl) :
    (∀ x y z : α, 0 ≤ x → 0 ≤ y → 0 ≤ z → hsv2rgbV3 fl (rgb2hsvV3 ⟨x, y, z⟩) = ⟨x, y, z⟩) ∧
    (∀ c : ColorAlgo.C4 α, 0 ≤ c.r → 0 ≤ c.g → 0 ≤ c.b → hsv2rgbC4 fl (rgb2hsvC4 c) = c) :=
  ⟨fun x y z => hsv2rgb_rgb2hsv_V3 hfl x y z, fun c => hsv2rgb_rgb2hsv_C4 hfl c⟩

/-- rgb2hsv ∘ hsv2rgb = id for 0 ≤ hue < 1, saturation > 0, value > 0.  Conventions on the rest of
the unit cube: hue 1 ≡ hue 0; saturation 0 (grey axis) or value 0 (black) ↦ hue 0, saturation 0. -/
theorem rgb2hsv_hsv2rgb {fl : α → Int} (hfl : IsFloor fl) :
    (∀ h s v : α, 0 ≤ h → h < 1 → 0 < s → 0 < v → rgb2hsvV3 (hsv2rgbV3 fl ⟨h, s, v⟩) = ⟨h, s, v⟩) ∧
    (∀ c : ColorAlgo.C4 α, 0 ≤ c.r → c.r < 1 → 0 < c.g → 0 < c.b → rgb2hsvC4 (hsv2rgbC4 fl c) = c) ∧
    (∀ s v : α, hsv2rgbV3 fl ⟨1, s, v⟩ = hsv2rgbV3 fl ⟨0, s, v⟩) ∧
    (∀ h v : α, 0 ≤ h → h ≤ 1 → hsv2rgbV3 fl ⟨h, 0, v⟩ = ⟨v, v, v⟩) ∧
    (∀ v : α, rgb2hsvV3 ⟨v, v, v⟩ = ⟨0, 0, v⟩) :=
  ⟨fun h s v => rgb2hsv_hsv2rgb_V3 hfl h s v, fun c => rgb2hsv_hsv2rgb_C4 hfl c,
   fun s v => hsv2rgbV3_hue_one fl s v, fun h v => hsv2rgbV3_grey hfl h v, rgb2hsvV3_grey⟩

/-- "with hsv in [0,1]": `rgb2hsv` maps the unit cube into hue ∈ [0,1), saturation, value ∈ [0,1], and `hsv2rgb` maps
[0,1]³ back into the unit cube (Vec3 copies; the Color4 copies compute the same three numbers, `color4_agrees_with_vec3`).
In exact arithmetic the hue is strictly below 1; the real code can round `-tiny/6 + 1` to exactly 1.0 (measured by the
check: hue ≤ 1 on the real code, hue 1 ≡ hue 0 by `rgb2hsv_hsv2rgb`). -/
theorem hsv_rgb_ranges {fl : α → Int} (hfl : IsFloor fl) :
    (∀ x y z : α, 0 ≤ x → x ≤ 1 → 0 ≤ y → y ≤ 1 → 0 ≤ z → z ≤ 1 →
      0 ≤ (rgb2hsvV3 ⟨x, y, z⟩).x ∧ (rgb2hsvV3 ⟨x, y, z⟩).x < 1 ∧
      0 ≤ (rgb2hsvV3 ⟨x, y, z⟩).y ∧ (rgb2hsvV3 ⟨x, y, z⟩).y ≤ 1 ∧
      0 ≤ (rgb2hsvV3 ⟨x, y, z⟩).z ∧ (rgb2hsvV3 ⟨x, y, z⟩).z ≤ 1) ∧
    (∀ h s v : α, 0 ≤ h → h ≤ 1 → 0 ≤ s → s ≤ 1 → 0 ≤ v → v ≤ 1 →
      0 ≤ (hsv2rgbV3 fl ⟨h, s, v⟩).x ∧ (hsv2rgbV3 fl ⟨h, s, v⟩).x ≤ 1 ∧
      0 ≤ (hsv2rgbV3 fl ⟨h, s, v⟩).y ∧ (hsv2rgbV3 fl ⟨h, s, v⟩).y ≤ 1 ∧
      0 ≤ (hsv2rgbV3 fl ⟨h, s, v⟩).z ∧ (hsv2rgbV3 fl ⟨h, s, v⟩).z ≤ 1) :=
  ⟨fun x y z a b c d e f => rgb2hsvV3_range x y z a b c d e f,
   fun h s v a b c d e f => hsv2rgbV3_range hfl h s v a b c d e f⟩

/-- the integer wrappers of the two overloads agree on (r, g, b) when they scale alike, and alpha
comes back unchanged when the divisor `float (max)` / `double (max)` equals the multiplier `max` -/
theorem integer_wrappers_scale_by_max (fl : α → Int) (toT : α → Int) (hT : ∀ n : Int, toT (n : α) = n)
    (M : α) (hM : M ≠ 0) (c : ColorAlgo.C4 Int) :
    rgb2hsvC4I (fun n => (n : α) / M) (fun x => toT (x * M)) c =
      ⟨(rgb2hsvV3I (fun n => (n : α) / M) (fun x => toT (x * M)) ⟨c.r, c.g, c.b⟩).x,
       (rgb2hsvV3I (fun n => (n : α) / M) (fun x => toT (x * M)) ⟨c.r, c.g, c.b⟩).y,
       (rgb2hsvV3I (fun n => (n : α) / M) (fun x => toT (x * M)) ⟨c.r, c.g, c.b⟩).z, c.a⟩ ∧
    hsv2rgbC4I fl (fun n => (n : α) / M) (fun x => toT (x * M)) c =
      ⟨(hsv2rgbV3I fl (fun n => (n : α) / M) (fun x => toT (x * M)) ⟨c.r, c.g, c.b⟩).x,
       (hsv2rgbV3I fl (fun n => (n : α) / M) (fun x => toT (x * M)) ⟨c.r, c.g, c.b⟩).y,
       (hsv2rgbV3I fl (fun n => (n : α) / M) (fun x => toT (x * M)) ⟨c.r, c.g, c.b⟩).z, c.a⟩ := by
  constructor
  · rw [rgb2hsvC4I_eq_V3I]; simp only [scale_roundtrip toT hT M hM c.a]
  · rw [hsv2rgbC4I_eq_V3I]; simp only [scale_roundtrip toT hT M hM c.a]

/-- exact-arithmetic packed round trip: every 8-bit channel is preserved -/
theorem rgb2packed_packed2rgb_exact (toU : α → Nat) (hU : ∀ n : Nat, toU (n : α) = n) (p : Nat)
    (hp : p < 4294967296) :
    rgb2packedC4 toU (packed2rgbC4 (α := α) p) = p ∧
    (p / 16777216 = 255 → rgb2packedV3 toU (packed2rgbV3 (α := α) p) = p) :=
  ⟨by rw [rgb2packed_packed2rgb_exact_C4 toU hU, bytes_reassemble p hp],
   fun h => by rw [rgb2packed_packed2rgb_exact_V3 toU hU]; exact bytes_reassemble_V3 p hp h⟩
end Colour

/-! ## ImathColorAlgo.cpp: the regenerated bodies are the hand model (T-route tie)

`Gen/C17Color.lean` is produced on every run by compiling /repo's `ImathColorAlgo.cpp` with the token `double`
defined as the symbolic scalar (harness/sym/sym_c17c.cpp) and enumerating every path.  `int (std::floor (hue))` appears
there as the if-chain `floorR hue = 0`, `= 1`, ... on an uninterpreted `floorR : α → α`; instantiating it with the cast of
an integer-valued `fl` gives exactly the `match` of the hand model, so every theorem about `ColorAlgo.hsv2rgbV3` etc.
(round trips, ranges, Color4 = Vec3 copies) is a theorem about what the source says now. -/
section ColourLink
variable {α : Type} [Field α] [LinearOrder α] [IsStrictOrderedRing α]

def toV3 (v : ImathVerif.V3 α) : ColorAlgo.V3 α := ⟨v.x, v.y, v.z⟩
def toC4 (c : ImathVerif.C4 α) : ColorAlgo.C4 α := ⟨c.r, c.g, c.b, c.a⟩

theorem cast_eq_lits (i : Int) : ((((i : Int) : α) = 0) ↔ i = 0) ∧ ((((i : Int) : α) = 1) ↔ i = 1) ∧ ((((i : Int) : α) = 2) ↔ i = 2) ∧
    ((((i : Int) : α) = 3) ↔ i = 3) ∧ ((((i : Int) : α) = 4) ↔ i = 4) ∧ ((((i : Int) : α) = 5) ↔ i = 5) := by
  have c : ∀ k : Int, (((i : Int) : α) = ((k : Int) : α)) ↔ i = k := fun k => Int.cast_inj
  have e0 := c 0; have e1 := c 1; have e2 := c 2; have e3 := c 3; have e4 := c 4; have e5 := c 5
  simp only [Int.cast_zero, Int.cast_one, Int.cast_ofNat] at e0 e1 e2 e3 e4 e5
  exact ⟨e0, e1, e2, e3, e4, e5⟩

theorem int_sextant (i : Int) : i = 0 ∨ i = 1 ∨ i = 2 ∨ i = 3 ∨ i = 4 ∨ i = 5 ∨
    (i ≠ 0 ∧ i ≠ 1 ∧ i ≠ 2 ∧ i ≠ 3 ∧ i ≠ 4 ∧ i ≠ 5) := by omega

/-- `Vec3<double> hsv2rgb_d`: the tree extracted from the current source, with `floorR x := ↑(fl x)`, is the hand model -/
theorem gen_hsv2rgbV3 (fl : α → Int) (c : ImathVerif.V3 α) :
    toV3 (Gen.Color.hsv2rgbV3 (fun x => ((fl x : Int) : α)) c) = ColorAlgo.hsv2rgbV3 fl (toV3 c) := by
  obtain ⟨h, s, v⟩ := c
  simp only [Gen.Color.hsv2rgbV3, toV3]
  unfold ColorAlgo.hsv2rgbV3
  simp only [beq_iff_eq]
  by_cases h1 : h = 1
  · simp only [h1, if_true]
    generalize fl 0 = i
    rcases int_sextant i with rfl | rfl | rfl | rfl | rfl | rfl | ⟨n0, n1, n2, n3, n4, n5⟩
    all_goals first | (simp; done) | (norm_num; done) | (obtain ⟨e0, e1, e2, e3, e4, e5⟩ := cast_eq_lits (α := α) i; simp only [e0, e1, e2, e3, e4, e5, n0, n1, n2, n3, n4, n5, if_false]; try (split <;> simp_all))
  · simp only [h1, if_false]
    generalize fl (h * 6) = i
    rcases int_sextant i with rfl | rfl | rfl | rfl | rfl | rfl | ⟨n0, n1, n2, n3, n4, n5⟩
    all_goals first | (simp; done) | (norm_num; done) | (obtain ⟨e0, e1, e2, e3, e4, e5⟩ := cast_eq_lits (α := α) i; simp only [e0, e1, e2, e3, e4, e5, n0, n1, n2, n3, n4, n5, if_false]; try (split <;> simp_all))

/-- `Color4<double> hsv2rgb_d` (the second textual copy in the .cpp) -/
theorem gen_hsv2rgbC4 (fl : α → Int) (c : ImathVerif.C4 α) :
    toC4 (Gen.Color.hsv2rgbC4 (fun x => ((fl x : Int) : α)) c) = ColorAlgo.hsv2rgbC4 fl (toC4 c) := by
  obtain ⟨h, s, v, a⟩ := c
  simp only [Gen.Color.hsv2rgbC4, toC4]
  unfold ColorAlgo.hsv2rgbC4
  simp only [beq_iff_eq]
  by_cases h1 : h = 1
  · simp only [h1, if_true]
    generalize fl 0 = i
    rcases int_sextant i with rfl | rfl | rfl | rfl | rfl | rfl | ⟨n0, n1, n2, n3, n4, n5⟩
    all_goals first | (simp; done) | (norm_num; done) | (obtain ⟨e0, e1, e2, e3, e4, e5⟩ := cast_eq_lits (α := α) i; simp only [e0, e1, e2, e3, e4, e5, n0, n1, n2, n3, n4, n5, if_false]; try (split <;> simp_all))
  · simp only [h1, if_false]
    generalize fl (h * 6) = i
    rcases int_sextant i with rfl | rfl | rfl | rfl | rfl | rfl | ⟨n0, n1, n2, n3, n4, n5⟩
    all_goals first | (simp; done) | (norm_num; done) | (obtain ⟨e0, e1, e2, e3, e4, e5⟩ := cast_eq_lits (α := α) i; simp only [e0, e1, e2, e3, e4, e5, n0, n1, n2, n3, n4, n5, if_false]; try (split <;> simp_all))

set_option maxHeartbeats 1600000 in
/-- `Vec3<double> rgb2hsv_d`: 64 extracted paths (the order of the three components, max = 0, sat = 0, hue < 0) = the hand model -/
theorem gen_rgb2hsvV3 (c : ImathVerif.V3 α) : toV3 (Gen.Color.rgb2hsvV3 c) = ColorAlgo.rgb2hsvV3 (toV3 c) := by
  obtain ⟨x, y, z⟩ := c
  simp only [Gen.Color.rgb2hsvV3, ColorAlgo.rgb2hsvV3, toV3, gt_iff_lt, bne_iff_ne, ne_eq, beq_iff_eq]
  by_cases h1 : y < x <;> by_cases h2 : z < x <;> by_cases h3 : y < z <;> by_cases h4 : x < y <;> by_cases h5 : x < z <;>
    by_cases h6 : z < y <;>
    first
    | (exfalso; order)
    | (simp only [h1, h2, h3, h4, h5, h6, if_true, if_false]; split_ifs <;> first | rfl | (exfalso; simp_all; done) | simp_all)

set_option maxHeartbeats 1600000 in
/-- `Color4<double> rgb2hsv_d` (the second textual copy) -/
theorem gen_rgb2hsvC4 (c : ImathVerif.C4 α) : toC4 (Gen.Color.rgb2hsvC4 c) = ColorAlgo.rgb2hsvC4 (toC4 c) := by
  obtain ⟨x, y, z, a⟩ := c
  simp only [Gen.Color.rgb2hsvC4, ColorAlgo.rgb2hsvC4, toC4, gt_iff_lt, bne_iff_ne, ne_eq, beq_iff_eq]
  by_cases h1 : y < x <;> by_cases h2 : z < x <;> by_cases h3 : y < z <;> by_cases h4 : x < y <;> by_cases h5 : x < z <;>
    by_cases h6 : z < y <;>
    first
    | (exfalso; order)
    | (simp only [h1, h2, h3, h4, h5, h6, if_true, if_false]; split_ifs <;> first | rfl | (exfalso; simp_all; done) | simp_all)

/-- the round trip of the property, stated on the REGENERATED definitions (corollary of the tie and of `hsv2rgb_rgb2hsv`):
for every colour with non-negative components, hsv2rgb (rgb2hsv c) = c as extracted from the current source -/
theorem gen_hsv2rgb_rgb2hsv {fl : α → Int} (hfl : IsFloor fl) (x y z : α) (hx : 0 ≤ x) (hy : 0 ≤ y) (hz : 0 ≤ z) :
    Gen.Color.hsv2rgbV3 (fun t => ((fl t : Int) : α)) (Gen.Color.rgb2hsvV3 ⟨x, y, z⟩) = ⟨x, y, z⟩ := by
  have h1 := gen_hsv2rgbV3 fl (Gen.Color.rgb2hsvV3 ⟨x, y, z⟩)
  have h2 := gen_rgb2hsvV3 (α := α) ⟨x, y, z⟩
  rw [h2] at h1
  have h3 := (hsv2rgb_rgb2hsv hfl).1 x y z hx hy hz
  simp only [toV3] at h1 h3
  rw [h3] at h1
  have e := congrArg (fun v : ColorAlgo.V3 α => (⟨v.x, v.y, v.z⟩ : ImathVerif.V3 α)) h1
  simp only [toV3] at e
  generalize Gen.Color.hsv2rgbV3 (fun t => ((fl t : Int) : α)) (Gen.Color.rgb2hsvV3 ⟨x, y, z⟩) = w at e ⊢
  cases w; exact e

/-- the other direction on the REGENERATED definitions: for 0 ≤ h < 1, s > 0, v > 0, rgb2hsv (hsv2rgb ⟨h, s, v⟩) = ⟨h, s, v⟩ -/
theorem gen_rgb2hsv_hsv2rgb {fl : α → Int} (hfl : IsFloor fl) (h s v : α) (h0 : 0 ≤ h) (h1 : h < 1) (hs : 0 < s) (hv : 0 < v) :
    Gen.Color.rgb2hsvV3 (Gen.Color.hsv2rgbV3 (fun t => ((fl t : Int) : α)) ⟨h, s, v⟩) = ⟨h, s, v⟩ := by
  have a1 := gen_rgb2hsvV3 (α := α) (Gen.Color.hsv2rgbV3 (fun t => ((fl t : Int) : α)) ⟨h, s, v⟩)
  have a2 := gen_hsv2rgbV3 fl (⟨h, s, v⟩ : ImathVerif.V3 α)
  rw [a2] at a1
  have a3 := (rgb2hsv_hsv2rgb hfl).1 h s v h0 h1 hs hv
  simp only [toV3] at a1 a3
  rw [a3] at a1
  have e := congrArg (fun w : ColorAlgo.V3 α => (⟨w.x, w.y, w.z⟩ : ImathVerif.V3 α)) a1
  simp only at e
  generalize Gen.Color.rgb2hsvV3 (Gen.Color.hsv2rgbV3 (fun t => ((fl t : Int) : α)) ⟨h, s, v⟩) = w at e ⊢
  cases w; exact e

/-- the Color4 copies of the REGENERATED definitions agree with the Vec3 copies on (r, g, b) and pass alpha through -/
theorem gen_color4_agrees_with_vec3 (fl : α → Int) (c : ImathVerif.C4 α) :
    Gen.Color.hsv2rgbC4 (fun t => ((fl t : Int) : α)) c =
      ⟨(Gen.Color.hsv2rgbV3 (fun t => ((fl t : Int) : α)) ⟨c.r, c.g, c.b⟩).x, (Gen.Color.hsv2rgbV3 (fun t => ((fl t : Int) : α)) ⟨c.r, c.g, c.b⟩).y,
       (Gen.Color.hsv2rgbV3 (fun t => ((fl t : Int) : α)) ⟨c.r, c.g, c.b⟩).z, c.a⟩ ∧
    Gen.Color.rgb2hsvC4 c =
      ⟨(Gen.Color.rgb2hsvV3 ⟨c.r, c.g, c.b⟩).x, (Gen.Color.rgb2hsvV3 ⟨c.r, c.g, c.b⟩).y, (Gen.Color.rgb2hsvV3 ⟨c.r, c.g, c.b⟩).z, c.a⟩ := by
  have b1 := gen_hsv2rgbC4 fl c
  have b2 := gen_hsv2rgbV3 fl (⟨c.r, c.g, c.b⟩ : ImathVerif.V3 α)
  have b3 := gen_rgb2hsvC4 (α := α) c
  have b4 := gen_rgb2hsvV3 (α := α) (⟨c.r, c.g, c.b⟩ : ImathVerif.V3 α)
  have m := color4_agrees_with_vec3 fl (toC4 c)
  simp only [toC4, toV3] at b1 b2 b3 b4 m
  rw [m.1] at b1; rw [m.2] at b3
  rw [← b2] at b1; rw [← b4] at b3
  constructor
  · generalize Gen.Color.hsv2rgbC4 (fun t => ((fl t : Int) : α)) c = w at b1 ⊢
    cases w; simp only [ColorAlgo.C4.mk.injEq] at b1; simp only [ImathVerif.C4.mk.injEq]; exact b1
  · generalize Gen.Color.rgb2hsvC4 c = w at b3 ⊢
    cases w; simp only [ColorAlgo.C4.mk.injEq] at b3; simp only [ImathVerif.C4.mk.injEq]; exact b3

/-- non-vacuity: the regenerated round trip on a concrete colour of ℚ with the true floor -/
example : Gen.Color.hsv2rgbV3 (α := ℚ) (fun t => ((Int.floor t : Int) : ℚ)) (Gen.Color.rgb2hsvV3 ⟨1 / 4, 1 / 2, 3 / 4⟩) = ⟨1 / 4, 1 / 2, 3 / 4⟩ :=
  gen_hsv2rgb_rgb2hsv (fun y => ⟨Int.floor_le y, Int.lt_floor_add_one y⟩) _ _ _ (by norm_num) (by norm_num) (by norm_num)

end ColourLink

example : IsFloor (α := ℚ) Int.floor := fun y => ⟨Int.floor_le y, Int.lt_floor_add_one y⟩
example : hsv2rgbV3 (α := ℚ) Int.floor (rgb2hsvV3 ⟨1 / 4, 1 / 2, 3 / 4⟩) = ⟨1 / 4, 1 / 2, 3 / 4⟩ :=
  (hsv2rgb_rgb2hsv (fun y => ⟨Int.floor_le y, Int.lt_floor_add_one y⟩)).1 _ _ _
    (by norm_num) (by norm_num) (by norm_num)
example : (rgb2hsvV3 (α := ℚ) ⟨1, 0, 1 / 100⟩).x < 1 :=
  ((hsv_rgb_ranges (α := ℚ) (fun y => ⟨Int.floor_le y, Int.lt_floor_add_one y⟩)).1 1 0 (1 / 100)
    (by norm_num) (by norm_num) (by norm_num) (by norm_num) (by norm_num) (by norm_num)).2.1
example : rgb2hsvV3 (hsv2rgbV3 (α := ℚ) Int.floor ⟨5 / 6, 1 / 2, 3 / 4⟩) = ⟨5 / 6, 1 / 2, 3 / 4⟩ :=
  (rgb2hsv_hsv2rgb (fun y => ⟨Int.floor_le y, Int.lt_floor_add_one y⟩)).1 _ _ _
    (by norm_num) (by norm_num) (by norm_num) (by norm_num)
example : (rgb2hsvC4I (α := ℚ) (fun n => (n : ℚ) / 255) (fun x => ⌊x * 255⌋) ⟨10, 20, 30, 77⟩).a = 77 := by
  rw [(integer_wrappers_scale_by_max (α := ℚ) Int.floor Int.floor Int.floor_intCast 255 (by norm_num) _).1]
example : rgb2packedC4 (α := ℚ) (fun x => ⌊x⌋.toNat) (packed2rgbC4 0x80FF0A01) = 0x80FF0A01 :=
  (rgb2packed_packed2rgb_exact (α := ℚ) _ (fun n => by simp) _ (by norm_num)).1

/-- the former defect `Color4<int>` (the wrappers divided by `float (INT_MAX) = 2^31` but multiplied
by `INT_MAX`, so that — `scale_mismatch_loses_one` — alpha 5 came back as 4): with
`double (INT_MAX) = INT_MAX` every alpha is preserved.  For `short` / `unsigned short` the loss was a
float-rounding effect of the same cast, visible only on the real code; the check sweeps every alpha
value of every integer element type on each run. -/
theorem color4_int_alpha_fixed (r g b a : Int) :
    (rgb2hsvC4I (α := ℚ) (fun n => (n : ℚ) / 2147483647) (fun x => ⌊x * 2147483647⌋) ⟨r, g, b, a⟩).a = a ∧
    ⌊((5 : Int) : ℚ) / 2147483648 * 2147483647⌋ = 4 :=
  ⟨rgb2hsvC4I_int_alpha_fixed r g b a, scale_mismatch_loses_one⟩

end ImathVerif.C17
