import ImathVerif.Spec.MatSpec
import ImathVerif.Lemmas.C05
import ImathVerif.Gen.C05
import Mathlib.Tactic.Ring
import Mathlib.Tactic.FinCases
import Mathlib.Tactic.SplitIfs
import Mathlib.Tactic.FieldSimp
import Mathlib.LinearAlgebra.Matrix.Trace
/-!
# C05 — products, transposes, minors and determinants equal their algebraic definitions

`Gen.*` is regenerated from the current headers on every run (T = Sym path
extraction).  Specifications are Mathlib's `Matrix.mul`, `Matrix.det`,
`Matrix.transpose`, `Matrix.trace`, `vecMul`, `dotProduct`, `crossProduct` and the
multiplication of Mathlib's `Quaternion`.  All statements are over an arbitrary commutative ring (field where
the code divides), for all operand values.  Rounding is not covered by these
theorems (DESIGN.md §3): it is measured by the check against exact evaluation.
-/
namespace ImathVerif.C05
open ImathVerif Matrix

/-- unfold an extracted minor and the Mathlib determinant of the corresponding submatrix -/
macro "minortac " f:ident g:ident : tactic =>
  `(tactic| (simp [$f:ident, $g:ident, Matrix.det_fin_two, Matrix.det_fin_three, Matrix.submatrix_apply, Fin.succAbove,
      Fin.lt_def, Fin.castSucc, Fin.succ] <;> try ring))

/-! ## dot and cross products, all spellings -/

theorem V2_dot {α : Type} [CommRing α] (a b : V2 α) : Gen.V2.dot a b = a.toVec ⬝ᵥ b.toVec := by
  simp [Gen.V2.dot, V2.toVec, dotProduct, Fin.sum_univ_two]
theorem V3_dot {α : Type} [CommRing α] (a b : V3 α) : Gen.V3.dot a b = a.toVec ⬝ᵥ b.toVec := by
  simp [Gen.V3.dot, V3.toVec, dotProduct, Fin.sum_univ_three]
theorem V4_dot {α : Type} [CommRing α] (a b : V4 α) : Gen.V4.dot a b = a.toVec ⬝ᵥ b.toVec := by
  simp [Gen.V4.dot, V4.toVec, dotProduct, Fin.sum_univ_four] <;> try ring
theorem V2_dotOp {α : Type} [CommRing α] (a b : V2 α) : Gen.V2.dotOp a b = Gen.V2.dot a b := rfl
theorem V3_dotOp {α : Type} [CommRing α] (a b : V3 α) : Gen.V3.dotOp a b = Gen.V3.dot a b := rfl
theorem V4_dotOp {α : Type} [CommRing α] (a b : V4 α) : Gen.V4.dotOp a b = Gen.V4.dot a b := rfl
theorem V2_length2 {α : Type} [CommRing α] (a : V2 α) : Gen.V2.length2 a = Gen.V2.dot a a := rfl
theorem V3_length2 {α : Type} [CommRing α] (a : V3 α) : Gen.V3.length2 a = Gen.V3.dot a a := rfl
theorem V4_length2 {α : Type} [CommRing α] (a : V4 α) : Gen.V4.length2 a = Gen.V4.dot a a := rfl

/-- 2-D cross product: the scalar `a.x b.y − a.y b.x` -/
theorem V2_cross {α : Type} [CommRing α] (a b : V2 α) : Gen.V2.cross a b = a.x * b.y - a.y * b.x := rfl
theorem V2_crossOp {α : Type} [CommRing α] (a b : V2 α) : Gen.V2.crossOp a b = Gen.V2.cross a b := rfl
/-- 3-D right-handed cross product -/
theorem V3_cross {α : Type} [CommRing α] (a b : V3 α) :
    Gen.V3.cross a b = ⟨a.y * b.z - a.z * b.y, a.z * b.x - a.x * b.z, a.x * b.y - a.y * b.x⟩ := rfl
theorem V3_crossOp {α : Type} [CommRing α] (a b : V3 α) : Gen.V3.crossOp a b = Gen.V3.cross a b := rfl
theorem V3_crossAssign {α : Type} [CommRing α] (a b : V3 α) : Gen.V3.crossAssign a b = Gen.V3.cross a b := rfl
/-- the components of `cross` as a Mathlib vector literal (same literal as `V3_cross`; the tie to Mathlib's
`crossProduct` is `V3_cross_crossProduct` below) -/
theorem V3_cross_mathlib {α : Type} [CommRing α] (a b : V3 α) :
    (Gen.V3.cross a b).toVec = ![a.y * b.z - a.z * b.y, a.z * b.x - a.x * b.z, a.x * b.y - a.y * b.x] := rfl
/-- `cross` is Mathlib's `crossProduct` (`Mathlib.LinearAlgebra.CrossProduct`), for all operands -/
theorem V3_cross_crossProduct {α : Type} [CommRing α] (a b : V3 α) :
    (Gen.V3.cross a b).toVec = crossProduct a.toVec b.toVec := by
  simp [Gen.V3.cross, V3.toVec, cross_apply]
theorem V3_crossOp_crossProduct {α : Type} [CommRing α] (a b : V3 α) :
    (Gen.V3.crossOp a b).toVec = crossProduct a.toVec b.toVec := by
  simp [Gen.V3.crossOp, V3.toVec, cross_apply]
theorem V3_crossAssign_crossProduct {α : Type} [CommRing α] (a b : V3 α) :
    (Gen.V3.crossAssign a b).toVec = crossProduct a.toVec b.toVec := by
  simp [Gen.V3.crossAssign, V3.toVec, cross_apply]
/-- the 2-D cross product is the determinant of the matrix with rows `a`, `b` -/
theorem V2_cross_det {α : Type} [CommRing α] (a b : V2 α) :
    Gen.V2.cross a b = (Matrix.of ![a.toVec, b.toVec]).det := by
  simp [Gen.V2.cross, V2.toVec, Matrix.det_fin_two]
/-- right-handedness on the basis vectors: x × y = z, y × z = x, z × x = y; 2-D: x × y = +1 -/
example : Gen.V3.cross (⟨1, 0, 0⟩ : V3 ℤ) ⟨0, 1, 0⟩ = ⟨0, 0, 1⟩ := by decide
example : Gen.V3.cross (⟨0, 1, 0⟩ : V3 ℤ) ⟨0, 0, 1⟩ = ⟨1, 0, 0⟩ := by decide
example : Gen.V3.cross (⟨0, 0, 1⟩ : V3 ℤ) ⟨1, 0, 0⟩ = ⟨0, 1, 0⟩ := by decide
example : Gen.V2.cross (⟨1, 0⟩ : V2 ℤ) ⟨0, 1⟩ = 1 := by decide

/-! ## quaternion (Hamilton) product -/

/-- `Quat *` is the multiplication of Mathlib's `Quaternion α` (`Mathlib.Algebra.Quaternion`) under
`toH (r, (x, y, z)) = r + x i + y j + z k`, for all operands -/
theorem Quat_mul_hamilton {α : Type} [CommRing α] (a b : Quat α) :
    (Gen.Quat.mul a b).toH = a.toH * b.toH := by
  ext
  · rw [Quaternion.re_mul]; simp only [Gen.Quat.mul, Quat.toH]; ring
  · rw [Quaternion.imI_mul]; simp only [Gen.Quat.mul, Quat.toH]; ring
  · rw [Quaternion.imJ_mul]; simp only [Gen.Quat.mul, Quat.toH]; ring
  · rw [Quaternion.imK_mul]; simp only [Gen.Quat.mul, Quat.toH]; ring
theorem Quat_mulAssign_hamilton {α : Type} [CommRing α] (a b : Quat α) :
    (Gen.Quat.mulAssign a b).toH = a.toH * b.toH := by
  ext
  · rw [Quaternion.re_mul]; simp only [Gen.Quat.mulAssign, Quat.toH]; ring
  · rw [Quaternion.imI_mul]; simp only [Gen.Quat.mulAssign, Quat.toH]; ring
  · rw [Quaternion.imJ_mul]; simp only [Gen.Quat.mulAssign, Quat.toH]; ring
  · rw [Quaternion.imK_mul]; simp only [Gen.Quat.mulAssign, Quat.toH]; ring
/-- `q1 ^ q2` is the 4-D dot product of (r, x, y, z) -/
theorem Quat_euclideanInnerProduct {α : Type} [CommRing α] (a b : Quat α) :
    Gen.Quat.euclideanInnerProduct a b = a.toVec ⬝ᵥ b.toVec := by
  simp [Gen.Quat.euclideanInnerProduct, Quat.toVec, dotProduct, Fin.sum_univ_four] <;> try ring
/-- i·j = k, j·i = −k -/
example : Gen.Quat.mul (⟨0, ⟨1, 0, 0⟩⟩ : Quat ℤ) ⟨0, ⟨0, 1, 0⟩⟩ = ⟨0, ⟨0, 0, 1⟩⟩ := by decide
example : Gen.Quat.mul (⟨0, ⟨0, 1, 0⟩⟩ : Quat ℤ) ⟨0, ⟨1, 0, 0⟩⟩ = ⟨0, ⟨0, 0, -1⟩⟩ := by decide

theorem Quat_mul {α : Type} [CommRing α] (a b : Quat α) :
    Gen.Quat.mul a b =
      ⟨a.r * b.r - (a.v.x * b.v.x + a.v.y * b.v.y + a.v.z * b.v.z),
       ⟨a.r * b.v.x + b.r * a.v.x + (a.v.y * b.v.z - a.v.z * b.v.y),
        a.r * b.v.y + b.r * a.v.y + (a.v.z * b.v.x - a.v.x * b.v.z),
        a.r * b.v.z + b.r * a.v.z + (a.v.x * b.v.y - a.v.y * b.v.x)⟩⟩ := by
  unfold Gen.Quat.mul
  first | rfl | (congr 1 <;> first | rfl | ring | (congr 1 <;> first | rfl | ring))
theorem Quat_mulAssign {α : Type} [CommRing α] (a b : Quat α) : Gen.Quat.mulAssign a b = Gen.Quat.mul a b := by
  rfl

/-! ## matrix × matrix, all spellings -/

theorem M22_mul {α : Type} [CommRing α] (a b : M22 α) : (Gen.M22.mul a b).toMat = a.toMat * b.toMat := by
  ext i j; fin_cases i <;> fin_cases j <;> simp [Gen.M22.mul, M22.toMat, Matrix.mul_apply, Fin.sum_univ_two]
theorem M33_mul {α : Type} [CommRing α] (a b : M33 α) : (Gen.M33.mul a b).toMat = a.toMat * b.toMat := by
  ext i j; fin_cases i <;> fin_cases j <;> simp [Gen.M33.mul, M33.toMat, Matrix.mul_apply, Fin.sum_univ_three]
theorem M44_mul {α : Type} [CommRing α] (a b : M44 α) : (Gen.M44.mul a b).toMat = a.toMat * b.toMat := by
  ext i j; fin_cases i <;> fin_cases j <;> simp [Gen.M44.mul, M44.toMat, Matrix.mul_apply, Fin.sum_univ_four] <;> try ring
theorem M22_mulAssign {α : Type} [CommRing α] (a b : M22 α) : Gen.M22.mulAssign a b = Gen.M22.mul a b := by
  rfl
theorem M33_mulAssign {α : Type} [CommRing α] (a b : M33 α) : Gen.M33.mulAssign a b = Gen.M33.mul a b := by
  rfl
theorem M44_mulAssign {α : Type} [CommRing α] (a b : M44 α) : Gen.M44.mulAssign a b = Gen.M44.mul a b := by
  rfl
theorem M44_multiplyStatic {α : Type} [CommRing α] (a b : M44 α) : Gen.M44.multiplyStatic a b = Gen.M44.mul a b := by
  rfl
theorem M44_multiplyStatic3 {α : Type} [CommRing α] (a b : M44 α) : Gen.M44.multiplyStatic3 a b = Gen.M44.mul a b := by
  rfl

/-! ## aliasing: `x *= x`, `v %= v`, `multiply (a, b, a)` still compute the product of the ORIGINAL operands -/

theorem Quat_mulAssignSelf {α : Type} [CommRing α] (a : Quat α) : Gen.Quat.mulAssignSelf a = Gen.Quat.mul a a := by
  unfold Gen.Quat.mulAssignSelf Gen.Quat.mul
  first | rfl | (congr 1 <;> first | rfl | ring | (congr 1 <;> first | rfl | ring))
theorem M22_mulAssignSelf {α : Type} [CommRing α] (a : M22 α) : Gen.M22.mulAssignSelf a = Gen.M22.mul a a := by
  simp only [Gen.M22.mulAssignSelf, Gen.M22.mul]
theorem M33_mulAssignSelf {α : Type} [CommRing α] (a : M33 α) : Gen.M33.mulAssignSelf a = Gen.M33.mul a a := by
  simp only [Gen.M33.mulAssignSelf, Gen.M33.mul]
theorem M44_mulAssignSelf {α : Type} [CommRing α] (a : M44 α) : Gen.M44.mulAssignSelf a = Gen.M44.mul a a := by
  simp only [Gen.M44.mulAssignSelf, Gen.M44.mul]
theorem V3_crossAssignSelf {α : Type} [CommRing α] (a : V3 α) : Gen.V3.crossAssignSelf a = Gen.V3.cross a a := by
  simp only [Gen.V3.crossAssignSelf, Gen.V3.cross]
theorem M44_multiplyStatic3AliasA {α : Type} [CommRing α] (a b : M44 α) : Gen.M44.multiplyStatic3AliasA a b = Gen.M44.mul a b := by
  simp only [Gen.M44.multiplyStatic3AliasA, Gen.M44.mul]
theorem M44_multiplyStatic3AliasB {α : Type} [CommRing α] (a b : M44 α) : Gen.M44.multiplyStatic3AliasB a b = Gen.M44.mul a b := by
  simp only [Gen.M44.multiplyStatic3AliasB, Gen.M44.mul]

/-! ## transpose, trace -/

theorem M22_transposed {α : Type} (a : M22 α) : (Gen.M22.transposed a).toMat = a.toMatᵀ := by
  ext i j; fin_cases i <;> fin_cases j <;> rfl
theorem M33_transposed {α : Type} (a : M33 α) : (Gen.M33.transposed a).toMat = a.toMatᵀ := by
  ext i j; fin_cases i <;> fin_cases j <;> rfl
theorem M44_transposed {α : Type} (a : M44 α) : (Gen.M44.transposed a).toMat = a.toMatᵀ := by
  ext i j; fin_cases i <;> fin_cases j <;> rfl
theorem M22_transpose {α : Type} (a : M22 α) : Gen.M22.transpose a = Gen.M22.transposed a := rfl
theorem M33_transpose {α : Type} (a : M33 α) : Gen.M33.transpose a = Gen.M33.transposed a := rfl
theorem M44_transpose {α : Type} (a : M44 α) : Gen.M44.transpose a = Gen.M44.transposed a := rfl
theorem M22_trace {α : Type} [CommRing α] (a : M22 α) : Gen.M22.trace a = a.toMat.trace := by
  simp [Gen.M22.trace, M22.toMat, Matrix.trace, Fin.sum_univ_two]
theorem M33_trace {α : Type} [CommRing α] (a : M33 α) : Gen.M33.trace a = a.toMat.trace := by
  simp [Gen.M33.trace, M33.toMat, Matrix.trace, Fin.sum_univ_three]
theorem M44_trace {α : Type} [CommRing α] (a : M44 α) : Gen.M44.trace a = a.toMat.trace := by
  simp [Gen.M44.trace, M44.toMat, Matrix.trace, Fin.sum_univ_four] <;> try ring

/-! ## determinants (Matrix44::determinant has four zero-skipping branches: 16 paths) -/

theorem M22_determinant {α : Type} [CommRing α] (a : M22 α) : Gen.M22.determinant a = a.toMat.det := by
  simp [Gen.M22.determinant, M22.toMat, Matrix.det_fin_two]; ring
theorem M33_determinant {α : Type} [CommRing α] (a : M33 α) : Gen.M33.determinant a = a.toMat.det := by
  simp [Gen.M33.determinant, M33.toMat, Matrix.det_fin_three] <;> try ring
theorem M44_determinant {α : Type} [CommRing α] [DecidableEq α] (a : M44 α) : Gen.M44.determinant a = a.toMat.det := by
  rw [det_fin_four]
  simp only [Gen.M44.determinant, M44.toMat]
  split_ifs <;> simp [*] <;> ring

/-- det (A·B) = det A · det B, through the extracted product and determinant -/
theorem M44_det_mul {α : Type} [CommRing α] [DecidableEq α] (a b : M44 α) :
    Gen.M44.determinant (Gen.M44.mul a b) = Gen.M44.determinant a * Gen.M44.determinant b := by
  rw [M44_determinant, M44_determinant, M44_determinant, M44_mul, Matrix.det_mul]
theorem M33_det_mul {α : Type} [CommRing α] (a b : M33 α) :
    Gen.M33.determinant (Gen.M33.mul a b) = Gen.M33.determinant a * Gen.M33.determinant b := by
  rw [M33_determinant, M33_determinant, M33_determinant, M33_mul, Matrix.det_mul]
theorem M22_det_mul {α : Type} [CommRing α] (a b : M22 α) :
    Gen.M22.determinant (Gen.M22.mul a b) = Gen.M22.determinant a * Gen.M22.determinant b := by
  rw [M22_determinant, M22_determinant, M22_determinant, M22_mul, Matrix.det_mul]
/-- det Aᵀ = det A -/
theorem M44_det_transpose {α : Type} [CommRing α] [DecidableEq α] (a : M44 α) :
    Gen.M44.determinant (Gen.M44.transposed a) = Gen.M44.determinant a := by
  rw [M44_determinant, M44_determinant, M44_transposed, Matrix.det_transpose]
theorem M33_det_transpose {α : Type} [CommRing α] (a : M33 α) :
    Gen.M33.determinant (Gen.M33.transposed a) = Gen.M33.determinant a := by
  rw [M33_determinant, M33_determinant, M33_transposed, Matrix.det_transpose]
theorem M22_det_transpose {α : Type} [CommRing α] (a : M22 α) :
    Gen.M22.determinant (Gen.M22.transposed a) = Gen.M22.determinant a := by
  rw [M22_determinant, M22_determinant, M22_transposed, Matrix.det_transpose]

/-! ## vector × matrix (row vector on the left) -/

theorem V2_mulM22 {α : Type} [CommRing α] (v : V2 α) (m : M22 α) :
    (Gen.V2.mulM22 v m).toVec = v.toVec ᵥ* m.toMat := by
  ext i; fin_cases i <;> simp [Gen.V2.mulM22, V2.toVec, M22.toMat, Matrix.vecMul, dotProduct, Fin.sum_univ_two]
theorem V3_mulM33 {α : Type} [CommRing α] (v : V3 α) (m : M33 α) :
    (Gen.V3.mulM33 v m).toVec = v.toVec ᵥ* m.toMat := by
  ext i; fin_cases i <;> simp [Gen.V3.mulM33, V3.toVec, M33.toMat, Matrix.vecMul, dotProduct, Fin.sum_univ_three]
theorem V4_mulM44 {α : Type} [CommRing α] (v : V4 α) (m : M44 α) :
    (Gen.V4.mulM44 v m).toVec = v.toVec ᵥ* m.toMat := by
  ext i; fin_cases i <;> simp [Gen.V4.mulM44, V4.toVec, M44.toMat, Matrix.vecMul, dotProduct, Fin.sum_univ_four] <;> try ring
/-- Vec3 × Matrix44: append 1, multiply, divide by the homogeneous coordinate -/
theorem V3_mulM44 {α : Type} [Field α] (v : V3 α) (m : M44 α) :
    let h := v.homog ᵥ* m.toMat
    Gen.V3.mulM44 v m = ⟨h 0 / h 3, h 1 / h 3, h 2 / h 3⟩ := by
  simp [Gen.V3.mulM44, V3.homog, M44.toMat, Matrix.vecMul, dotProduct, Fin.sum_univ_four]
/-- Vec2 × Matrix33: append 1, multiply, divide by the homogeneous coordinate -/
theorem V2_mulM33 {α : Type} [Field α] (v : V2 α) (m : M33 α) :
    let h := v.homog ᵥ* m.toMat
    Gen.V2.mulM33 v m = ⟨h 0 / h 2, h 1 / h 2⟩ := by
  simp [Gen.V2.mulM33, V2.homog, M33.toMat, Matrix.vecMul, dotProduct, Fin.sum_univ_three]
/-- multDirMatrix ignores the translation row (append 0, no division) -/
theorem M44_multDirMatrix {α : Type} [CommRing α] (m : M44 α) (v : V3 α) :
    let h := v.homogDir ᵥ* m.toMat
    Gen.M44.multDirMatrix m v = ⟨h 0, h 1, h 2⟩ := by
  simp [Gen.M44.multDirMatrix, V3.homogDir, M44.toMat, Matrix.vecMul, dotProduct, Fin.sum_univ_four]
theorem M33_multDirMatrix {α : Type} [CommRing α] (m : M33 α) (v : V2 α) :
    let h := v.homogDir ᵥ* m.toMat
    Gen.M33.multDirMatrix m v = ⟨h 0, h 1⟩ := by
  simp [Gen.M33.multDirMatrix, V2.homogDir, M33.toMat, Matrix.vecMul, dotProduct, Fin.sum_univ_three]
theorem M22_multDirMatrix {α : Type} [CommRing α] (m : M22 α) (v : V2 α) :
    (Gen.M22.multDirMatrix m v).toVec = v.toVec ᵥ* m.toMat := by
  ext i; fin_cases i <;> simp [Gen.M22.multDirMatrix, V2.toVec, M22.toMat, Matrix.vecMul, dotProduct, Fin.sum_univ_two]
/-- member, operator and compound spellings agree -/
theorem M44_multVecMatrix {α : Type} [Field α] (m : M44 α) (v : V3 α) : Gen.M44.multVecMatrix m v = Gen.V3.mulM44 v m := rfl
theorem M33_multVecMatrix {α : Type} [Field α] (m : M33 α) (v : V2 α) : Gen.M33.multVecMatrix m v = Gen.V2.mulM33 v m := rfl
theorem V2_mulAssignM22 {α : Type} [CommRing α] (v : V2 α) (m : M22 α) : Gen.V2.mulAssignM22 v m = Gen.V2.mulM22 v m := rfl
theorem V2_mulAssignM33 {α : Type} [Field α] (v : V2 α) (m : M33 α) : Gen.V2.mulAssignM33 v m = Gen.V2.mulM33 v m := rfl
theorem V3_mulAssignM33 {α : Type} [CommRing α] (v : V3 α) (m : M33 α) : Gen.V3.mulAssignM33 v m = Gen.V3.mulM33 v m := rfl
theorem V3_mulAssignM44 {α : Type} [Field α] (v : V3 α) (m : M44 α) : Gen.V3.mulAssignM44 v m = Gen.V3.mulM44 v m := rfl
theorem V4_mulAssignM44 {α : Type} [CommRing α] (v : V4 α) (m : M44 α) : Gen.V4.mulAssignM44 v m = Gen.V4.mulM44 v m := rfl

/-! ## outer products: entry (i,j) is a_i * b_j -/

theorem M33_outerProduct {α : Type} [CommRing α] (a b : V3 α) :
    (Gen.M33.outerProduct a b).toMat = Matrix.of (fun i j => a.toVec i * b.toVec j) := by
  ext i j; fin_cases i <;> fin_cases j <;> rfl
theorem M44_outerProduct {α : Type} [CommRing α] (a b : V4 α) :
    (Gen.M44.outerProduct a b).toMat = Matrix.of (fun i j => a.toVec i * b.toVec j) := by
  ext i j; fin_cases i <;> fin_cases j <;> rfl

/-! ## minors: `minorOf r c` is the determinant of the matrix with row r and column c removed;
`fastMinor` the determinant of the selected rows/columns; cofactor expansion along ANY row or column -/

theorem M33_minorOf_0_0 {α : Type} [CommRing α] (a : M33 α) :
    Gen.M33.minorOf_0_0 a = (a.toMat.submatrix (Fin.succAbove 0) (Fin.succAbove 0)).det := by
  minortac Gen.M33.minorOf_0_0 M33.toMat

theorem M33_minorOf_0_1 {α : Type} [CommRing α] (a : M33 α) :
    Gen.M33.minorOf_0_1 a = (a.toMat.submatrix (Fin.succAbove 0) (Fin.succAbove 1)).det := by
  minortac Gen.M33.minorOf_0_1 M33.toMat

theorem M33_minorOf_0_2 {α : Type} [CommRing α] (a : M33 α) :
    Gen.M33.minorOf_0_2 a = (a.toMat.submatrix (Fin.succAbove 0) (Fin.succAbove 2)).det := by
  minortac Gen.M33.minorOf_0_2 M33.toMat

theorem M33_minorOf_1_0 {α : Type} [CommRing α] (a : M33 α) :
    Gen.M33.minorOf_1_0 a = (a.toMat.submatrix (Fin.succAbove 1) (Fin.succAbove 0)).det := by
  minortac Gen.M33.minorOf_1_0 M33.toMat

theorem M33_minorOf_1_1 {α : Type} [CommRing α] (a : M33 α) :
    Gen.M33.minorOf_1_1 a = (a.toMat.submatrix (Fin.succAbove 1) (Fin.succAbove 1)).det := by
  minortac Gen.M33.minorOf_1_1 M33.toMat

theorem M33_minorOf_1_2 {α : Type} [CommRing α] (a : M33 α) :
    Gen.M33.minorOf_1_2 a = (a.toMat.submatrix (Fin.succAbove 1) (Fin.succAbove 2)).det := by
  minortac Gen.M33.minorOf_1_2 M33.toMat

theorem M33_minorOf_2_0 {α : Type} [CommRing α] (a : M33 α) :
    Gen.M33.minorOf_2_0 a = (a.toMat.submatrix (Fin.succAbove 2) (Fin.succAbove 0)).det := by
  minortac Gen.M33.minorOf_2_0 M33.toMat

theorem M33_minorOf_2_1 {α : Type} [CommRing α] (a : M33 α) :
    Gen.M33.minorOf_2_1 a = (a.toMat.submatrix (Fin.succAbove 2) (Fin.succAbove 1)).det := by
  minortac Gen.M33.minorOf_2_1 M33.toMat

theorem M33_minorOf_2_2 {α : Type} [CommRing α] (a : M33 α) :
    Gen.M33.minorOf_2_2 a = (a.toMat.submatrix (Fin.succAbove 2) (Fin.succAbove 2)).det := by
  minortac Gen.M33.minorOf_2_2 M33.toMat

theorem M44_minorOf_0_0 {α : Type} [CommRing α] (a : M44 α) :
    Gen.M44.minorOf_0_0 a = (a.toMat.submatrix (Fin.succAbove 0) (Fin.succAbove 0)).det := by
  minortac Gen.M44.minorOf_0_0 M44.toMat

theorem M44_minorOf_0_1 {α : Type} [CommRing α] (a : M44 α) :
    Gen.M44.minorOf_0_1 a = (a.toMat.submatrix (Fin.succAbove 0) (Fin.succAbove 1)).det := by
  minortac Gen.M44.minorOf_0_1 M44.toMat

theorem M44_minorOf_0_2 {α : Type} [CommRing α] (a : M44 α) :
    Gen.M44.minorOf_0_2 a = (a.toMat.submatrix (Fin.succAbove 0) (Fin.succAbove 2)).det := by
  minortac Gen.M44.minorOf_0_2 M44.toMat

theorem M44_minorOf_0_3 {α : Type} [CommRing α] (a : M44 α) :
    Gen.M44.minorOf_0_3 a = (a.toMat.submatrix (Fin.succAbove 0) (Fin.succAbove 3)).det := by
  minortac Gen.M44.minorOf_0_3 M44.toMat

theorem M44_minorOf_1_0 {α : Type} [CommRing α] (a : M44 α) :
    Gen.M44.minorOf_1_0 a = (a.toMat.submatrix (Fin.succAbove 1) (Fin.succAbove 0)).det := by
  minortac Gen.M44.minorOf_1_0 M44.toMat

theorem M44_minorOf_1_1 {α : Type} [CommRing α] (a : M44 α) :
    Gen.M44.minorOf_1_1 a = (a.toMat.submatrix (Fin.succAbove 1) (Fin.succAbove 1)).det := by
  minortac Gen.M44.minorOf_1_1 M44.toMat

theorem M44_minorOf_1_2 {α : Type} [CommRing α] (a : M44 α) :
    Gen.M44.minorOf_1_2 a = (a.toMat.submatrix (Fin.succAbove 1) (Fin.succAbove 2)).det := by
  minortac Gen.M44.minorOf_1_2 M44.toMat

theorem M44_minorOf_1_3 {α : Type} [CommRing α] (a : M44 α) :
    Gen.M44.minorOf_1_3 a = (a.toMat.submatrix (Fin.succAbove 1) (Fin.succAbove 3)).det := by
  minortac Gen.M44.minorOf_1_3 M44.toMat

theorem M44_minorOf_2_0 {α : Type} [CommRing α] (a : M44 α) :
    Gen.M44.minorOf_2_0 a = (a.toMat.submatrix (Fin.succAbove 2) (Fin.succAbove 0)).det := by
  minortac Gen.M44.minorOf_2_0 M44.toMat

theorem M44_minorOf_2_1 {α : Type} [CommRing α] (a : M44 α) :
    Gen.M44.minorOf_2_1 a = (a.toMat.submatrix (Fin.succAbove 2) (Fin.succAbove 1)).det := by
  minortac Gen.M44.minorOf_2_1 M44.toMat

theorem M44_minorOf_2_2 {α : Type} [CommRing α] (a : M44 α) :
    Gen.M44.minorOf_2_2 a = (a.toMat.submatrix (Fin.succAbove 2) (Fin.succAbove 2)).det := by
  minortac Gen.M44.minorOf_2_2 M44.toMat

theorem M44_minorOf_2_3 {α : Type} [CommRing α] (a : M44 α) :
    Gen.M44.minorOf_2_3 a = (a.toMat.submatrix (Fin.succAbove 2) (Fin.succAbove 3)).det := by
  minortac Gen.M44.minorOf_2_3 M44.toMat

theorem M44_minorOf_3_0 {α : Type} [CommRing α] (a : M44 α) :
    Gen.M44.minorOf_3_0 a = (a.toMat.submatrix (Fin.succAbove 3) (Fin.succAbove 0)).det := by
  minortac Gen.M44.minorOf_3_0 M44.toMat

theorem M44_minorOf_3_1 {α : Type} [CommRing α] (a : M44 α) :
    Gen.M44.minorOf_3_1 a = (a.toMat.submatrix (Fin.succAbove 3) (Fin.succAbove 1)).det := by
  minortac Gen.M44.minorOf_3_1 M44.toMat

theorem M44_minorOf_3_2 {α : Type} [CommRing α] (a : M44 α) :
    Gen.M44.minorOf_3_2 a = (a.toMat.submatrix (Fin.succAbove 3) (Fin.succAbove 2)).det := by
  minortac Gen.M44.minorOf_3_2 M44.toMat

theorem M44_minorOf_3_3 {α : Type} [CommRing α] (a : M44 α) :
    Gen.M44.minorOf_3_3 a = (a.toMat.submatrix (Fin.succAbove 3) (Fin.succAbove 3)).det := by
  minortac Gen.M44.minorOf_3_3 M44.toMat

theorem M33_fastMinor_01_12 {α : Type} [CommRing α] (a : M33 α) :
    Gen.M33.fastMinor_01_12 a = (a.toMat.submatrix ![0, 1] ![1, 2]).det := by
  rw [Matrix.det_fin_two]; simp [Gen.M33.fastMinor_01_12, M33.toMat]
theorem M33_fastMinor_12_02 {α : Type} [CommRing α] (a : M33 α) :
    Gen.M33.fastMinor_12_02 a = (a.toMat.submatrix ![1, 2] ![0, 2]).det := by
  rw [Matrix.det_fin_two]; simp [Gen.M33.fastMinor_12_02, M33.toMat]
theorem M44_fastMinor_123_012 {α : Type} [CommRing α] (a : M44 α) :
    Gen.M44.fastMinor_123_012 a = (a.toMat.submatrix ![1, 2, 3] ![0, 1, 2]).det := by
  rw [Matrix.det_fin_three]; simp [Gen.M44.fastMinor_123_012, M44.toMat] <;> try ring
theorem M44_fastMinor_013_123 {α : Type} [CommRing α] (a : M44 α) :
    Gen.M44.fastMinor_013_123 a = (a.toMat.submatrix ![0, 1, 3] ![1, 2, 3]).det := by
  rw [Matrix.det_fin_three]; simp [Gen.M44.fastMinor_013_123, M44.toMat] <;> try ring

/-! ### fastMinor: the single index-generic body (hand model `fastMinor2` / `fastMinor3` in `Lemmas/C05.lean`)
is the determinant of the selected rows / columns for EVERY index tuple; the model is tied to the code at the
extracted tuples below (ascending, descending, repeated, `r0 = 2` / `c0 = 2`, and all four tuples
`Matrix44::determinant` calls) and on the real code at all 81 / 4096 tuples by `c05_residue`. -/

theorem fastMinor2_eq_det {α : Type} [CommRing α] (A : Matrix (Fin 3) (Fin 3) α) (r0 r1 c0 c1 : Fin 3) :
    fastMinor2 A r0 r1 c0 c1 = (A.submatrix ![r0, r1] ![c0, c1]).det := by
  rw [Matrix.det_fin_two]
  simp [fastMinor2, Matrix.submatrix_apply]
theorem fastMinor3_eq_det {α : Type} [CommRing α] (A : Matrix (Fin 4) (Fin 4) α) (r0 r1 r2 c0 c1 c2 : Fin 4) :
    fastMinor3 A r0 r1 r2 c0 c1 c2 = (A.submatrix ![r0, r1, r2] ![c0, c1, c2]).det := by
  rw [Matrix.det_fin_three]
  simp [fastMinor3, Matrix.submatrix_apply]
  ring

theorem M33_fastMinor_01_12_model {α : Type} [CommRing α] (a : M33 α) :
    Gen.M33.fastMinor_01_12 a = fastMinor2 a.toMat 0 1 1 2 := by
  simp [Gen.M33.fastMinor_01_12, fastMinor2, M33.toMat] <;> try ring
theorem M33_fastMinor_12_02_model {α : Type} [CommRing α] (a : M33 α) :
    Gen.M33.fastMinor_12_02 a = fastMinor2 a.toMat 1 2 0 2 := by
  simp [Gen.M33.fastMinor_12_02, fastMinor2, M33.toMat] <;> try ring
theorem M33_fastMinor_21_20_model {α : Type} [CommRing α] (a : M33 α) :
    Gen.M33.fastMinor_21_20 a = fastMinor2 a.toMat 2 1 2 0 := by
  simp [Gen.M33.fastMinor_21_20, fastMinor2, M33.toMat] <;> try ring
theorem M33_fastMinor_00_11_model {α : Type} [CommRing α] (a : M33 α) :
    Gen.M33.fastMinor_00_11 a = fastMinor2 a.toMat 0 0 1 1 := by
  simp [Gen.M33.fastMinor_00_11, fastMinor2, M33.toMat] <;> try ring
theorem M33_fastMinor_20_02_model {α : Type} [CommRing α] (a : M33 α) :
    Gen.M33.fastMinor_20_02 a = fastMinor2 a.toMat 2 0 0 2 := by
  simp [Gen.M33.fastMinor_20_02, fastMinor2, M33.toMat] <;> try ring
theorem M44_fastMinor_123_012_model {α : Type} [CommRing α] (a : M44 α) :
    Gen.M44.fastMinor_123_012 a = fastMinor3 a.toMat 1 2 3 0 1 2 := by
  simp [Gen.M44.fastMinor_123_012, fastMinor3, M44.toMat] <;> try ring
theorem M44_fastMinor_013_123_model {α : Type} [CommRing α] (a : M44 α) :
    Gen.M44.fastMinor_013_123 a = fastMinor3 a.toMat 0 1 3 1 2 3 := by
  simp [Gen.M44.fastMinor_013_123, fastMinor3, M44.toMat] <;> try ring
theorem M44_fastMinor_321_210_model {α : Type} [CommRing α] (a : M44 α) :
    Gen.M44.fastMinor_321_210 a = fastMinor3 a.toMat 3 2 1 2 1 0 := by
  simp [Gen.M44.fastMinor_321_210, fastMinor3, M44.toMat] <;> try ring
theorem M44_fastMinor_002_133_model {α : Type} [CommRing α] (a : M44 α) :
    Gen.M44.fastMinor_002_133 a = fastMinor3 a.toMat 0 0 2 1 3 3 := by
  simp [Gen.M44.fastMinor_002_133, fastMinor3, M44.toMat] <;> try ring
theorem M44_fastMinor_023_012_model {α : Type} [CommRing α] (a : M44 α) :
    Gen.M44.fastMinor_023_012 a = fastMinor3 a.toMat 0 2 3 0 1 2 := by
  simp [Gen.M44.fastMinor_023_012, fastMinor3, M44.toMat] <;> try ring
theorem M44_fastMinor_013_012_model {α : Type} [CommRing α] (a : M44 α) :
    Gen.M44.fastMinor_013_012 a = fastMinor3 a.toMat 0 1 3 0 1 2 := by
  simp [Gen.M44.fastMinor_013_012, fastMinor3, M44.toMat] <;> try ring
theorem M44_fastMinor_012_012_model {α : Type} [CommRing α] (a : M44 α) :
    Gen.M44.fastMinor_012_012 a = fastMinor3 a.toMat 0 1 2 0 1 2 := by
  simp [Gen.M44.fastMinor_012_012, fastMinor3, M44.toMat] <;> try ring

theorem M33_fastMinor_21_20 {α : Type} [CommRing α] (a : M33 α) :
    Gen.M33.fastMinor_21_20 a = (a.toMat.submatrix ![2, 1] ![2, 0]).det := by
  rw [M33_fastMinor_21_20_model, fastMinor2_eq_det]
theorem M33_fastMinor_00_11 {α : Type} [CommRing α] (a : M33 α) :
    Gen.M33.fastMinor_00_11 a = (a.toMat.submatrix ![0, 0] ![1, 1]).det := by
  rw [M33_fastMinor_00_11_model, fastMinor2_eq_det]
theorem M33_fastMinor_20_02 {α : Type} [CommRing α] (a : M33 α) :
    Gen.M33.fastMinor_20_02 a = (a.toMat.submatrix ![2, 0] ![0, 2]).det := by
  rw [M33_fastMinor_20_02_model, fastMinor2_eq_det]
theorem M44_fastMinor_321_210 {α : Type} [CommRing α] (a : M44 α) :
    Gen.M44.fastMinor_321_210 a = (a.toMat.submatrix ![3, 2, 1] ![2, 1, 0]).det := by
  rw [M44_fastMinor_321_210_model, fastMinor3_eq_det]
theorem M44_fastMinor_002_133 {α : Type} [CommRing α] (a : M44 α) :
    Gen.M44.fastMinor_002_133 a = (a.toMat.submatrix ![0, 0, 2] ![1, 3, 3]).det := by
  rw [M44_fastMinor_002_133_model, fastMinor3_eq_det]
theorem M44_fastMinor_023_012 {α : Type} [CommRing α] (a : M44 α) :
    Gen.M44.fastMinor_023_012 a = (a.toMat.submatrix ![0, 2, 3] ![0, 1, 2]).det := by
  rw [M44_fastMinor_023_012_model, fastMinor3_eq_det]
theorem M44_fastMinor_013_012 {α : Type} [CommRing α] (a : M44 α) :
    Gen.M44.fastMinor_013_012 a = (a.toMat.submatrix ![0, 1, 3] ![0, 1, 2]).det := by
  rw [M44_fastMinor_013_012_model, fastMinor3_eq_det]
theorem M44_fastMinor_012_012 {α : Type} [CommRing α] (a : M44 α) :
    Gen.M44.fastMinor_012_012 a = (a.toMat.submatrix ![0, 1, 2] ![0, 1, 2]).det := by
  rw [M44_fastMinor_012_012_model, fastMinor3_eq_det]

/-- `Matrix44::determinant` on the path where no last-column entry is zero is the alternating sum of
`x[i][3] * fastMinor (rows without i, columns 0 1 2)` — the four calls are exactly the four extracted tuples -/
theorem M44_determinant_via_fastMinor {α : Type} [CommRing α] [DecidableEq α] (a : M44 α) :
    Gen.M44.determinant a = - (a.x03 * Gen.M44.fastMinor_123_012 a) + a.x13 * Gen.M44.fastMinor_023_012 a
      - a.x23 * Gen.M44.fastMinor_013_012 a + a.x33 * Gen.M44.fastMinor_012_012 a := by
  rw [M44_determinant, det_fin_four]
  simp [M44.toMat, Gen.M44.fastMinor_123_012, Gen.M44.fastMinor_023_012, Gen.M44.fastMinor_013_012, Gen.M44.fastMinor_012_012]
  ring

theorem M33_cofactor_row0 {α : Type} [CommRing α] (a : M33 α) :
    Gen.M33.determinant a = (a.x00 * Gen.M33.minorOf_0_0 a) + (-a.x01 * Gen.M33.minorOf_0_1 a) + (a.x02 * Gen.M33.minorOf_0_2 a) := by
  simp only [Gen.M33.determinant, Gen.M33.minorOf_0_0, Gen.M33.minorOf_0_1, Gen.M33.minorOf_0_2]; ring

theorem M33_cofactor_row1 {α : Type} [CommRing α] (a : M33 α) :
    Gen.M33.determinant a = (-a.x10 * Gen.M33.minorOf_1_0 a) + (a.x11 * Gen.M33.minorOf_1_1 a) + (-a.x12 * Gen.M33.minorOf_1_2 a) := by
  simp only [Gen.M33.determinant, Gen.M33.minorOf_1_0, Gen.M33.minorOf_1_1, Gen.M33.minorOf_1_2]; ring

theorem M33_cofactor_row2 {α : Type} [CommRing α] (a : M33 α) :
    Gen.M33.determinant a = (a.x20 * Gen.M33.minorOf_2_0 a) + (-a.x21 * Gen.M33.minorOf_2_1 a) + (a.x22 * Gen.M33.minorOf_2_2 a) := by
  simp only [Gen.M33.determinant, Gen.M33.minorOf_2_0, Gen.M33.minorOf_2_1, Gen.M33.minorOf_2_2]; ring

theorem M33_cofactor_col0 {α : Type} [CommRing α] (a : M33 α) :
    Gen.M33.determinant a = (a.x00 * Gen.M33.minorOf_0_0 a) + (-a.x10 * Gen.M33.minorOf_1_0 a) + (a.x20 * Gen.M33.minorOf_2_0 a) := by
  simp only [Gen.M33.determinant, Gen.M33.minorOf_0_0, Gen.M33.minorOf_1_0, Gen.M33.minorOf_2_0]; ring

theorem M33_cofactor_col1 {α : Type} [CommRing α] (a : M33 α) :
    Gen.M33.determinant a = (-a.x01 * Gen.M33.minorOf_0_1 a) + (a.x11 * Gen.M33.minorOf_1_1 a) + (-a.x21 * Gen.M33.minorOf_2_1 a) := by
  simp only [Gen.M33.determinant, Gen.M33.minorOf_0_1, Gen.M33.minorOf_1_1, Gen.M33.minorOf_2_1]; ring

theorem M33_cofactor_col2 {α : Type} [CommRing α] (a : M33 α) :
    Gen.M33.determinant a = (a.x02 * Gen.M33.minorOf_0_2 a) + (-a.x12 * Gen.M33.minorOf_1_2 a) + (a.x22 * Gen.M33.minorOf_2_2 a) := by
  simp only [Gen.M33.determinant, Gen.M33.minorOf_0_2, Gen.M33.minorOf_1_2, Gen.M33.minorOf_2_2]; ring

theorem M44_cofactor_row0 {α : Type} [CommRing α] [DecidableEq α] (a : M44 α) :
    Gen.M44.determinant a = (a.x00 * Gen.M44.minorOf_0_0 a) + (-a.x01 * Gen.M44.minorOf_0_1 a) + (a.x02 * Gen.M44.minorOf_0_2 a) + (-a.x03 * Gen.M44.minorOf_0_3 a) := by
  rw [M44_determinant, det_fin_four]; simp [M44.toMat, Gen.M44.minorOf_0_0, Gen.M44.minorOf_0_1, Gen.M44.minorOf_0_2, Gen.M44.minorOf_0_3]; ring

theorem M44_cofactor_row1 {α : Type} [CommRing α] [DecidableEq α] (a : M44 α) :
    Gen.M44.determinant a = (-a.x10 * Gen.M44.minorOf_1_0 a) + (a.x11 * Gen.M44.minorOf_1_1 a) + (-a.x12 * Gen.M44.minorOf_1_2 a) + (a.x13 * Gen.M44.minorOf_1_3 a) := by
  rw [M44_determinant, det_fin_four]; simp [M44.toMat, Gen.M44.minorOf_1_0, Gen.M44.minorOf_1_1, Gen.M44.minorOf_1_2, Gen.M44.minorOf_1_3]; ring

theorem M44_cofactor_row2 {α : Type} [CommRing α] [DecidableEq α] (a : M44 α) :
    Gen.M44.determinant a = (a.x20 * Gen.M44.minorOf_2_0 a) + (-a.x21 * Gen.M44.minorOf_2_1 a) + (a.x22 * Gen.M44.minorOf_2_2 a) + (-a.x23 * Gen.M44.minorOf_2_3 a) := by
  rw [M44_determinant, det_fin_four]; simp [M44.toMat, Gen.M44.minorOf_2_0, Gen.M44.minorOf_2_1, Gen.M44.minorOf_2_2, Gen.M44.minorOf_2_3]; ring

theorem M44_cofactor_row3 {α : Type} [CommRing α] [DecidableEq α] (a : M44 α) :
    Gen.M44.determinant a = (-a.x30 * Gen.M44.minorOf_3_0 a) + (a.x31 * Gen.M44.minorOf_3_1 a) + (-a.x32 * Gen.M44.minorOf_3_2 a) + (a.x33 * Gen.M44.minorOf_3_3 a) := by
  rw [M44_determinant, det_fin_four]; simp [M44.toMat, Gen.M44.minorOf_3_0, Gen.M44.minorOf_3_1, Gen.M44.minorOf_3_2, Gen.M44.minorOf_3_3]; ring

theorem M44_cofactor_col0 {α : Type} [CommRing α] [DecidableEq α] (a : M44 α) :
    Gen.M44.determinant a = (a.x00 * Gen.M44.minorOf_0_0 a) + (-a.x10 * Gen.M44.minorOf_1_0 a) + (a.x20 * Gen.M44.minorOf_2_0 a) + (-a.x30 * Gen.M44.minorOf_3_0 a) := by
  rw [M44_determinant, det_fin_four]; simp [M44.toMat, Gen.M44.minorOf_0_0, Gen.M44.minorOf_1_0, Gen.M44.minorOf_2_0, Gen.M44.minorOf_3_0]; ring

theorem M44_cofactor_col1 {α : Type} [CommRing α] [DecidableEq α] (a : M44 α) :
    Gen.M44.determinant a = (-a.x01 * Gen.M44.minorOf_0_1 a) + (a.x11 * Gen.M44.minorOf_1_1 a) + (-a.x21 * Gen.M44.minorOf_2_1 a) + (a.x31 * Gen.M44.minorOf_3_1 a) := by
  rw [M44_determinant, det_fin_four]; simp [M44.toMat, Gen.M44.minorOf_0_1, Gen.M44.minorOf_1_1, Gen.M44.minorOf_2_1, Gen.M44.minorOf_3_1]; ring

theorem M44_cofactor_col2 {α : Type} [CommRing α] [DecidableEq α] (a : M44 α) :
    Gen.M44.determinant a = (a.x02 * Gen.M44.minorOf_0_2 a) + (-a.x12 * Gen.M44.minorOf_1_2 a) + (a.x22 * Gen.M44.minorOf_2_2 a) + (-a.x32 * Gen.M44.minorOf_3_2 a) := by
  rw [M44_determinant, det_fin_four]; simp [M44.toMat, Gen.M44.minorOf_0_2, Gen.M44.minorOf_1_2, Gen.M44.minorOf_2_2, Gen.M44.minorOf_3_2]; ring

theorem M44_cofactor_col3 {α : Type} [CommRing α] [DecidableEq α] (a : M44 α) :
    Gen.M44.determinant a = (-a.x03 * Gen.M44.minorOf_0_3 a) + (a.x13 * Gen.M44.minorOf_1_3 a) + (-a.x23 * Gen.M44.minorOf_2_3 a) + (a.x33 * Gen.M44.minorOf_3_3 a) := by
  rw [M44_determinant, det_fin_four]; simp [M44.toMat, Gen.M44.minorOf_0_3, Gen.M44.minorOf_1_3, Gen.M44.minorOf_2_3, Gen.M44.minorOf_3_3]; ring

end ImathVerif.C05
