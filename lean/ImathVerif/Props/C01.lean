import ImathVerif.Props.C01Preds
import ImathVerif.Enum.C01.All
/-!
# C01 — float<->half conversion is exact IEEE-754 binary16, round-to-nearest-even

Property theorems only.  The model (`Model/Half.lean`) is tied to
/repo/src/Imath/half.h by exhaustive correspondence over all 2^32 floats and
2^16 halves on every run; `Gen.tableEntry` is regenerated from toFloat.h.
-/
namespace ImathVerif.Half.C01
open ImathVerif ImathVerif.Half ImathVerif.Gen ImathVerif.Enum.C01

/-- half -> float is exact on every non-NaN pattern: the sign bit is kept,
finite patterns denote the same real number, infinities map to infinities. -/
theorem h2f_exact : ∀ h, h < 65536 → isNan h = false →
    h2f h < 4294967296 ∧ h2f h / 2147483648 = h / 32768 ∧
    (isInfinity h = true → h2f h % 2147483648 = 0x7f800000) ∧
    (isInfinity h = false → h2f h % 2147483648 < 0x7f800000 ∧
        fval (h2f h % 2147483648) = hval149 (h % 32768)) := by
  intro h hh hn
  have := p_h2f_exact_all h hh
  unfold p_h2f_exact at this
  simp only [hn, Bool.false_or, Bool.and_eq_true, decide_eq_true_eq, Bool.or_eq_true,
    Bool.not_eq_true'] at this
  obtain ⟨⟨⟨a, b⟩, c⟩, d⟩ := this
  refine ⟨a, b, ?_, ?_⟩
  · intro hi; rcases c with c | c
    · rw [hi] at c; cases c
    · exact c
  · intro hi; rcases d with d | d
    · rw [hi] at d; cases d
    · exact d

/-- NaN halves map to NaN floats with the same sign and payload `mantissa <<< 13`. -/
theorem h2f_nan : ∀ h, h < 65536 → isNan h = true →
    h2f h / 2147483648 = h / 32768 ∧ (h2f h / 8388608) % 256 = 255 ∧
    h2f h % 8388608 = (h % 1024) * 8192 ∧ h2f h % 8388608 ≠ 0 := by
  intro h hh hn
  have := p_h2f_nan_all h hh
  unfold p_h2f_nan at this
  simpa [hn, and_assoc] using this

/-- the checked-in lookup table (regenerated from toFloat.h on every run) has
65,536 entries and equals the shift/rebias path on every one of them -/
theorem table_eq_shift : toFloatCount = 65536 ∧ ∀ h, h < 65536 → tableEntry h = h2f h := by
  refine ⟨by decide +kernel, ?_⟩
  intro h hh
  simpa [p_table] using p_table_all h hh

/-- the table generator toFloat.cpp::halfToFloat computes the same function -/
theorem generator_eq_shift : ∀ h, h < 65536 → h2fGen h = h2f h := by
  intro h hh
  simpa [p_gen] using p_gen_all h hh

/-- half -> float -> half is the identity on every non-NaN pattern -/
theorem roundtrip : ∀ h, h < 65536 → isNan h = false → f2h (h2f h) = h := by
  intro h hh hn
  have := p_roundtrip_all h hh
  simpa [p_roundtrip, hn] using this

end ImathVerif.Half.C01
