import ImathVerif.Props.C01Preds
import ImathVerif.Enum.C01.All
import ImathVerif.Lemmas.HalfRNE
import ImathVerif.Lemmas.HalfUnique
import ImathVerif.Spec.HalfVal
import Mathlib.Tactic.SplitIfs
/-!
# C01 — float<->half conversion is exact IEEE-754 binary16, round-to-nearest-even

Property theorems only.  The model (`Model/Half.lean`) is tied to
/repo/src/Imath/half.h by exhaustive correspondence over all 2^32 floats and
2^16 halves on every run; `Gen.tableEntry` is regenerated from toFloat.h.

The `h2f_*`, `table_*`, `generator_*`, `roundtrip` theorems are kernel enumerations over
the 2^16 half patterns.  The `f2h_*` theorems quantify over all 2^32 float patterns and
are structural proofs (`Lemmas/HalfRNE.lean`): `f2h v = sign ||| f2hMag (v mod 2^31)`,
and the magnitude is bracketed between neighbouring binary16 values and resolved at the
midpoint with ties to even.

Scales: `fval u` is the float magnitude times 2^149, `hval149 m` the half magnitude on the
same scale (`hval149 0x7c00 = 2^16 * 2^149`), `IsRNE16 X r` says `r` is the nearest
magnitude pattern to `X` with ties to the even pattern (Spec/HalfSpec.lean).
`IsRNE16 X ·` has exactly one solution (`IsRNE16_unique`, hence `f2h_is_the_rne`).

The scaled naturals are tied to the textbook ℚ-valued IEEE-754 denotations `halfMagQ`,
`floatMagQ`, `halfQ`, `floatQ` by `Spec/HalfVal.lean` (`hval = halfMagQ · 2^24`,
`fval = floatMagQ · 2^149`, `IsRNE16 ↔ IsRNE16Q`); the `_Q` theorems at the end restate the
property over ℚ.

The `f2hExc_*` theorems are about the `IMATH_HALF_ENABLE_FP_EXCEPTIONS` variant of the same
function (model `f2hExc`, tied by the `fpexc` configuration of the check): same bits, and
FE_OVERFLOW / FE_UNDERFLOW exactly on the sets characterised by `f2h_overflow` / `f2h_flush`.
-/
namespace ImathVerif.Half.C01
open ImathVerif ImathVerif.Half ImathVerif.Gen ImathVerif.Enum.C01

/-- half -> float is exact on every non-NaN pattern: the sign bit is kept,
finite patterns denote the same real number, infinities map to infinities. -/
theorem h2f_exact : ∀ h, h < 65536 → isNan h = false →
    h2f h < 4294967296 ∧ h2f h / 2147483648 = h / 32768 ∧
    (isInfinity h = true → h2f h % 2147483648 = 0x7f800000) ∧
    (isInfinity h = false → h2f h % 2147483648 < 0x7f800000 ∧
        fval (h2f h % 2147483648) = hval149 (h % 32768)) := by
  intro h hh hn
  have := p_h2f_exact_all h hh
  unfold p_h2f_exact at this
  simp only [hn, Bool.false_or, Bool.and_eq_true, decide_eq_true_eq, Bool.or_eq_true,
    Bool.not_eq_true'] at this
  obtain ⟨⟨⟨a, b⟩, c⟩, d⟩ := this
  refine ⟨a, b, ?_, ?_⟩
  · intro hi; rcases c with c | c
    · rw [hi] at c; cases c
    · exact c
  · intro hi; rcases d with d | d
    · rw [hi] at d; cases d
    · exact d

/-- NaN halves map to NaN floats with the same sign and payload `mantissa <<< 13`. -/
theorem h2f_nan : ∀ h, h < 65536 → isNan h = true →
    h2f h / 2147483648 = h / 32768 ∧ (h2f h / 8388608) % 256 = 255 ∧
    h2f h % 8388608 = (h % 1024) * 8192 ∧ h2f h % 8388608 ≠ 0 := by
  intro h hh hn
  have := p_h2f_nan_all h hh
  unfold p_h2f_nan at this
  simpa [hn, and_assoc] using this

/-- the checked-in lookup table (regenerated from toFloat.h on every run) has
65,536 entries and equals the shift/rebias path on every one of them -/
theorem table_eq_shift : toFloatCount = 65536 ∧ ∀ h, h < 65536 → tableEntry h = h2f h := by
  refine ⟨by decide +kernel, ?_⟩
  intro h hh
  simpa [p_table] using p_table_all h hh

/-- the table generator toFloat.cpp::halfToFloat computes the same function -/
theorem generator_eq_shift : ∀ h, h < 65536 → h2fGen h = h2f h := by
  intro h hh
  simpa [p_gen] using p_gen_all h hh

/-- half -> float -> half is the identity on every non-NaN pattern -/
theorem roundtrip : ∀ h, h < 65536 → isNan h = false → f2h (h2f h) = h := by
  intro h hh hn
  have := p_roundtrip_all h hh
  simpa [p_roundtrip, hn] using this

/-! ### float -> half, all 2^32 patterns -/

/-- For every finite float (either sign), the magnitude bits of `f2h` are the
round-to-nearest-even binary16 magnitude of the float's absolute value
(0x7c00 = infinity standing for 2^16, the IEEE overflow convention). -/
theorem f2h_nearest : ∀ v, v < 4294967296 → v % 2147483648 < 0x7f800000 →
    IsRNE16 (fval (v % 2147483648)) (f2h v % 32768) := by
  intro v hv hfin
  rw [f2h_mod v hv]
  exact f2hMag_rne _ hfin

-- non-vacuity: a tie with even significand (rounds down), one with odd significand (rounds up),
-- and a negative subnormal-result input
example : (0x38801000 : Nat) < 4294967296 ∧ 0x38801000 % 2147483648 < 0x7f800000 ∧
    f2h 0x38801000 = 0x0400 := by decide
example : (0x38803000 : Nat) < 4294967296 ∧ 0x38803000 % 2147483648 < 0x7f800000 ∧
    f2h 0x38803000 = 0x0402 := by decide
example : (0xb3000001 : Nat) < 4294967296 ∧ 0xb3000001 % 2147483648 < 0x7f800000 ∧
    f2h 0xb3000001 = 0x8001 := by decide

/-- the result fits 16 bits and carries the float's sign bit (all inputs, NaN and inf included) -/
theorem f2h_sign : ∀ v, v < 4294967296 → f2h v < 65536 ∧ f2h v / 32768 = v / 2147483648 :=
  f2h_div

example : (0xffc01000 : Nat) < 4294967296 ∧ f2h 0xffc01000 = 0xfe00 ∧
    (0xffc01000 : Nat) / 2147483648 = 1 := by decide

/-- 0x477ff000 is the float 65520 (on the 2^149 scale) -/
theorem fval_65520 : fval 0x477ff000 = 65520 * 2 ^ 149 := by decide

/-- `fval` is strictly increasing in the magnitude bits, so comparisons of magnitude bit
patterns are comparisons of absolute values -/
theorem fval_strictMono : ∀ a b, a < b → fval a < fval b := fval_lt

theorem fval_le_iff_le : ∀ a b, fval a ≤ fval b ↔ a ≤ b := fval_le_iff

/-- finite or infinite input: the result is (signed) infinity exactly from bit pattern
0x477ff000 (= 65520) upwards.  The hypothesis admits the pattern of infinity itself
(`v % 2^31 = 0x7f800000`); the statement is about BIT PATTERNS there.  Note that `fval` is
totalised above the finite range (`fval 0x7f800000` is the number `2^23 * 2^254`, not
"infinity"), which is why the value-scale form `f2h_overflow_val` below excludes infinity and
why `f2h_flush` needs no finiteness hypothesis. -/
theorem f2h_overflow : ∀ v, v < 4294967296 → v % 2147483648 ≤ 0x7f800000 →
    (f2h v % 32768 = 0x7c00 ↔ 0x477ff000 ≤ v % 2147483648) := by
  intro v hv hle
  rw [f2h_mod v hv]
  exact f2hMag_inf_iff _ hle

/-- the same on the value scale: a finite float becomes infinity iff its magnitude is ≥ 65520 -/
theorem f2h_overflow_val : ∀ v, v < 4294967296 → v % 2147483648 < 0x7f800000 →
    (f2h v % 32768 = 0x7c00 ↔ 65520 * 2 ^ 149 ≤ fval (v % 2147483648)) := by
  intro v hv hfin
  rw [f2h_overflow v hv (by omega), ← fval_65520, fval_le_iff]

/-- infinite input gives infinity of the same sign -/
theorem f2h_inf : ∀ v, v < 4294967296 → v % 2147483648 = 0x7f800000 →
    f2h v = (v / 2147483648) * 32768 + 0x7c00 := by
  intro v hv hinf
  have h1 := (f2h_overflow v hv (by omega)).2 (by omega)
  have h2 := f2h_sign v hv
  omega

example : (0xc77ff000 : Nat) < 4294967296 ∧ 0xc77ff000 % 2147483648 ≤ 0x7f800000 ∧
    f2h 0xc77ff000 = 0xfc00 ∧ f2h 0x477fefff = 0x7bff := by decide
example : (0xff800000 : Nat) < 4294967296 ∧ 0xff800000 % 2147483648 = 0x7f800000 ∧
    f2h 0xff800000 = 0xfc00 := by decide

/-- the result is a zero (of the float's sign, by `f2h_sign`) iff the magnitude is ≤ 2^-25
(`2^124` on the 2^149 scale).  No finiteness hypothesis is needed: for inf/NaN patterns
both sides are false. -/
theorem f2h_flush : ∀ v, v < 4294967296 →
    (fval (v % 2147483648) ≤ 2 ^ 124 ↔ f2h v % 32768 = 0) := by
  intro v hv
  have e : fval 0x33000000 = 2 ^ 124 := by decide
  rw [f2h_mod v hv, f2hMag_zero_iff _ (Nat.mod_lt _ (by decide)), ← e, fval_le_iff]
  omega

example : (0xb3000000 : Nat) < 4294967296 ∧ f2h 0xb3000000 = 0x8000 ∧ f2h 0x33000001 = 1 := by
  decide

/-- NaN stays NaN and keeps the top ten payload bits, or gets payload 1 when those are all
zero (sign: `f2h_sign`) -/
theorem f2h_nan : ∀ v, v < 4294967296 → 0x7f800000 < v % 2147483648 →
    (f2h v / 1024) % 32 = 31 ∧ f2h v % 1024 ≠ 0 ∧
    f2h v % 1024 = (if (v % 8388608) / 8192 = 0 then 1 else (v % 8388608) / 8192) := by
  intro v hv hnan
  have h1 := f2h_mod v hv
  have h2 := f2hMag_nan _ hnan
  have e : v % 2147483648 % 8388608 = v % 8388608 := by omega
  rw [e] at h2
  rw [h2] at h1
  have hb : v % 8388608 / 8192 < 1024 := by omega
  split at h1 <;> split <;> omega

example : (0xff802000 : Nat) < 4294967296 ∧ 0x7f800000 < 0xff802000 % 2147483648 ∧
    f2h 0xff802000 = 0xfc01 ∧ f2h 0x7f800001 = 0x7c01 ∧ f2h 0x7fc00000 = 0x7e00 := by decide

/-- results in the subnormal/zero range (inputs below 2^-14) are correctly rounded too:
a corollary of `f2h_nearest` together with the bound on the result -/
theorem f2h_subnormal_correct : ∀ v, v < 4294967296 → v % 2147483648 < 0x38800000 →
    f2h v % 32768 ≤ 0x400 ∧ IsRNE16 (fval (v % 2147483648)) (f2h v % 32768) := by
  intro v hv hs
  refine ⟨?_, f2h_nearest v hv (by omega)⟩
  rw [f2h_mod v hv]
  by_cases h : v % 2147483648 < 0x33000001
  · have := (f2hMag_zero_iff _ (Nat.mod_lt _ (by decide))).2 h; omega
  · exact (f2hMag_sub_bounds _ (by omega) hs).2

example : (0x387fffff : Nat) < 4294967296 ∧ 0x387fffff % 2147483648 < 0x38800000 ∧
    f2h 0x387fffff = 0x0400 := by decide

/-! ### the specification determines the result -/

/-- `IsRNE16 X ·` has at most one solution: nearest-with-ties-to-even names *the* value -/
theorem IsRNE16_unique : ∀ X r r', IsRNE16 X r → IsRNE16 X r' → r = r' :=
  ImathVerif.Half.IsRNE16_unique

/-- hence `f2h` returns the one and only round-to-nearest-even magnitude of every finite float -/
theorem f2h_is_the_rne : ∀ v, v < 4294967296 → v % 2147483648 < 0x7f800000 →
    ∀ r, IsRNE16 (fval (v % 2147483648)) r → f2h v % 32768 = r := by
  intro v hv hfin r hr
  exact ImathVerif.Half.IsRNE16_unique _ _ _ (f2h_nearest v hv hfin) hr

-- non-vacuity: the spec has a solution at a tie (so the theorem above is not about an empty set)
example : (0x38803000 : Nat) < 4294967296 ∧ 0x38803000 % 2147483648 < 0x7f800000 ∧
    IsRNE16 (fval (0x38803000 % 2147483648)) 0x402 :=
  ⟨by decide, by decide, by
    have h := f2h_nearest 0x38803000 (by decide) (by decide)
    rwa [show f2h 0x38803000 % 32768 = 0x402 by decide] at h⟩

/-! ### the FP-exceptions build (`-DIMATH_HALF_ENABLE_FP_EXCEPTIONS`) -/

/-- which exception the variant raises, as a function of the magnitude bits -/
theorem f2hExc_snd (v : Nat) : (f2hExc v).2 =
    if 0x477ff000 ≤ v % 2147483648 ∧ v % 2147483648 < 0x7f800000 then 1
    else if 0 < v % 2147483648 ∧ v % 2147483648 < 0x33000001 then 2 else 0 := by
  unfold f2hExc
  simp only [and_0x7fffffff]
  split_ifs <;> first | rfl | omega

/-- the FP-exceptions variant returns the same bits as the plain function, on every input -/
theorem f2hExc_val : ∀ v, (f2hExc v).1 = f2h v := by
  intro v
  unfold f2hExc f2h
  simp only []
  split_ifs <;> rfl

/-- FE_OVERFLOW is raised exactly when a finite float becomes infinity (`f2h_overflow`) -/
theorem f2hExc_overflow : ∀ v, v < 4294967296 →
    ((f2hExc v).2 = 1 ↔ v % 2147483648 < 0x7f800000 ∧ f2h v % 32768 = 0x7c00) := by
  intro v hv
  rw [f2hExc_snd]
  constructor
  · intro h
    split_ifs at h with h1 h2
    · exact ⟨h1.2, (f2h_overflow v hv (by omega)).2 h1.1⟩
    · omega
  · rintro ⟨h1, h2⟩
    have := (f2h_overflow v hv (by omega)).1 h2
    rw [if_pos ⟨this, h1⟩]

/-- FE_UNDERFLOW is raised exactly when a non-zero float is flushed to zero (`f2h_flush`) -/
theorem f2hExc_underflow : ∀ v, v < 4294967296 →
    ((f2hExc v).2 = 2 ↔ v % 2147483648 ≠ 0 ∧ f2h v % 32768 = 0) := by
  intro v hv
  have hz := f2hMag_zero_iff (v % 2147483648) (Nat.mod_lt _ (by decide))
  rw [f2hExc_snd, f2h_mod v hv, hz]
  constructor
  · intro h
    split_ifs at h with h1 h2
    · omega
    · omega
  · rintro ⟨h1, h2⟩
    rw [if_neg (by omega), if_pos (by omega)]

/-- nothing else is ever raised -/
theorem f2hExc_flags : ∀ v, (f2hExc v).2 = 0 ∨ (f2hExc v).2 = 1 ∨ (f2hExc v).2 = 2 := by
  intro v
  rw [f2hExc_snd]
  split_ifs <;> simp

example : f2hExc 0xc77ff000 = (0xfc00, 1) ∧ f2hExc 0x477fefff = (0x7bff, 0) ∧
    f2hExc 0x7f800000 = (0x7c00, 0) ∧ f2hExc 0x80000000 = (0x8000, 0) ∧
    f2hExc 0x80000001 = (0x8000, 2) ∧ f2hExc 0x33000000 = (0, 2) ∧ f2hExc 0x33000001 = (1, 0) := by
  decide

/-! ### the same statements over ℚ (textbook IEEE-754 denotations, Spec/HalfVal.lean) -/

/-- half -> float is exact: every finite half pattern and its float denote the same rational -/
theorem h2f_exact_Q : ∀ h, h < 65536 → isNan h = false → isInfinity h = false →
    floatQ (h2f h) = halfQ h := by
  intro h hh hn hi
  obtain ⟨_, hs, _, hf⟩ := h2f_exact h hh hn
  obtain ⟨_, hv⟩ := hf hi
  unfold floatQ halfQ
  rw [hs]
  have e : (fval (h2f h % 2147483648) : ℚ) = (hval149 (h % 32768) : ℚ) := by rw [hv]
  rw [fval_eq_floatMagQ, hval149_eq_halfMagQ] at e
  have hp : (2 : ℚ) ^ 149 ≠ 0 := by positivity
  rw [mul_right_cancel₀ hp e]

example : (0x8001 : Nat) < 65536 ∧ isNan 0x8001 = false ∧ isInfinity 0x8001 = false ∧
    halfQ 0x8001 = -(1 / 2 ^ 24) := by
  refine ⟨by decide, by decide, by decide, ?_⟩
  unfold halfQ halfMagQ; norm_num

/-- float -> half is round-to-nearest-even over ℚ, and the result is the only such pattern -/
theorem f2h_nearest_Q : ∀ v, v < 4294967296 → v % 2147483648 < 0x7f800000 →
    IsRNE16Q (floatMagQ (v % 2147483648)) (f2h v % 32768) ∧
    ∀ r, IsRNE16Q (floatMagQ (v % 2147483648)) r → f2h v % 32768 = r := by
  intro v hv hfin
  refine ⟨(isRNE16_iff_Q _ _).1 (f2h_nearest v hv hfin), fun r hr => ?_⟩
  exact f2h_is_the_rne v hv hfin r ((isRNE16_iff_Q _ _).2 hr)

/-- a finite float becomes infinity iff its magnitude is at least 65520 -/
theorem f2h_overflow_Q : ∀ v, v < 4294967296 → v % 2147483648 < 0x7f800000 →
    (f2h v % 32768 = 0x7c00 ↔ (65520 : ℚ) ≤ floatMagQ (v % 2147483648)) := by
  intro v hv hfin
  rw [f2h_overflow_val v hv hfin, ← Nat.cast_le (α := ℚ), fval_eq_floatMagQ]
  rw [show ((65520 * 2 ^ 149 : Nat) : ℚ) = 65520 * 2 ^ 149 by norm_num]
  exact mul_le_mul_iff_of_pos_right (by positivity : (0 : ℚ) < 2 ^ 149)

/-- a finite float becomes (signed) zero iff its magnitude is at most 2^-25 -/
theorem f2h_flush_Q : ∀ v, v < 4294967296 → v % 2147483648 < 0x7f800000 →
    (floatMagQ (v % 2147483648) ≤ 1 / 2 ^ 25 ↔ f2h v % 32768 = 0) := by
  intro v hv _
  rw [← f2h_flush v hv, ← Nat.cast_le (α := ℚ), fval_eq_floatMagQ]
  have hp : (0 : ℚ) < 2 ^ 149 := by positivity
  rw [show ((2 ^ 124 : Nat) : ℚ) = 1 / 2 ^ 25 * 2 ^ 149 by norm_num]
  exact (mul_le_mul_iff_of_pos_right hp).symm

end ImathVerif.Half.C01
