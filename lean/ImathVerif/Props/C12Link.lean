import ImathVerif.Props.C12
import ImathVerif.Props.C11
import Mathlib.LinearAlgebra.Matrix.Adjugate
import Mathlib.Tactic.LinearCombination
/-!
# C12 ⟷ C11 — the 3-D `extractSHRT` / `sansScaling` / `removeScaling` recompose to their input, FULL strength

`Props/C12.lean` proves `scale · shear · rotation · translation = M` for the 3-D wrappers MODULO the hypothesis
  `hE : ∀ R, lin3 R * (lin3 R)ᵀ = 1 → (lin3 R).det = 1 → rotH3 sin cos (extractEulerXYZ R) = linH3 R`
("rebuilding the XYZ Euler angles read off a rotation matrix gives the matrix back": `M44_extractSHRT_recompose_partial`,
`M44_sansScaling_recompose_partial`).  This file discharges `hE` and closes both theorems.

What C11 provides and why it is not enough as it stands.  `C11.extractEulerXYZ_inverts_setEulerAngles` is the OTHER
composition, `extract (setEulerAngles a) = a`, on the OPEN principal range (`|a.y| < π/2`, `|a.x|, |a.z| < π`); it cannot hold
at gimbal lock (the angles of a gimbal-locked matrix are not unique) and C11 lists surjectivity as missing.  `hE` is the
composition `setEulerAngles (extract R) = R`, quantified over EVERY rotation matrix, and it needs NO non-degeneracy condition:
`extractEulerXYZ` first reads `x = atan2 (R12, R22)`, removes that rotation (`N = Rx(-x)·R`, so `N12 = 0`, `N22 ≥ 0` — also when
`R12 = R22 = 0`, whatever `atan2 (0, 0)` returns) and reads `y`, `z` off `N`, which is then a product `Ry·Rz` EXACTLY; this is the
purpose of the algorithm ("… so that gimbal lock cannot occur").  So `hE` is proved here directly
(`rotH3_extractEulerXYZ`), for every rotation matrix including `R02 = ±1`, over any ordered field with `sqrt`, `sin`, `cos`,
`atan2` satisfying `SqrtSpec` / `EulerTrigSpec` — and the real `Real.sqrt/sin/cos`, `atan2 y x = arg (x + iy)` (C11's `atan2R`) do.
Links to C11: the two extracted copies of `extractEulerXYZ` (Gen/C11Algo.lean, Gen/C12.lean) are the same function
(`extractEulerXYZ_copies_agree`), `rotH3` is `Matrix44::setEulerAngles` (`setEulerAngles_toMat`), C11's theorem gives the same
conclusion on its range (`eulerRoundTrip_principal_of_C11`), and `hE` supplies what C11 lists as missing for XYZ: every
rotation matrix is `setEulerAngles a` for `a` in the CLOSED principal range (`rotation_is_setEulerAngles`).

FULL (no `_partial` left for these two): `M44_extractSHRT_recompose`, `M44_sansScaling_recompose`, `M44_removeScaling_recompose`
(+ `…_real` instances).  They are stated for the inputs on which the function returns `true` (`ear44 … = some r`); a singular
linear part makes it return `false` (`C12.M44_extractAndRemoveScalingAndShear_degenerate`), and so does the overflow guard
`checkForZeroScaleInRow`.  Exact arithmetic; rounding is measured by harness/corr/c12_residue.cpp.
-/
namespace ImathVerif.C12Link
open ImathVerif ImathVerif.SHRT ImathVerif.C12 Matrix
set_option linter.unusedSectionVars false
set_option linter.unusedTactic false
set_option linter.unreachableTactic false
variable {α : Type} [Field α] [LinearOrder α] [IsStrictOrderedRing α]

/-! ## 1. The Euler round trip `setEulerAngles (extractEulerXYZ R) = R`, every rotation matrix -/

/-- what the Euler round trip needs from `sin`, `cos`, `atan2`: nothing is asked of `atan2 0 0` -/
structure EulerTrigSpec (sin cos : α → α) (atan2 : α → α → α) : Prop where
  sin_zero : sin 0 = 0
  cos_zero : cos 0 = 1
  sin_neg : ∀ t, sin (-t) = -sin t
  cos_neg : ∀ t, cos (-t) = cos t
  sq : ∀ t, sin t * sin t + cos t * cos t = 1
  atan2_spec : ∀ x y r, 0 < r → r * r = x * x + y * y → cos (atan2 y x) * r = x ∧ sin (atan2 y x) * r = y

theorem len3_eq_one {len : V3 α → α} (hl : LenSpec3 len) (x y z : α) (h : x * x + y * y + z * z = 1) : len ⟨x, y, z⟩ = 1 := by
  obtain ⟨l0, l1⟩ := hl ⟨x, y, z⟩
  simp only [dot3] at l1
  rw [h] at l1
  rcases mul_self_eq_one_iff.mp l1 with e | e
  · exact e
  · rw [e] at l0; linarith

set_option maxHeartbeats 2000000 in
theorem extractEulerXYZ_unit {tmin tmax : α} {sqrt sin cos : α → α} {atan2 : α → α → α}
    (ht : EulerTrigSpec sin cos atan2) (m : M44 α)
    (h0 : Gen.V3.length tmin tmax sqrt ⟨m.x00, m.x01, m.x02⟩ = 1) (h1 : Gen.V3.length tmin tmax sqrt ⟨m.x10, m.x11, m.x12⟩ = 1)
    (h2 : Gen.V3.length tmin tmax sqrt ⟨m.x20, m.x21, m.x22⟩ = 1) :
    Gen.M44.extractEulerXYZ tmin tmax sqrt sin cos atan2 m =
      ⟨atan2 m.x12 m.x22,
       atan2 (-m.x02) (sqrt (m.x00 * m.x00 + m.x01 * m.x01)),
       atan2 (-(cos (-(atan2 m.x12 m.x22)) * m.x10 + sin (-(atan2 m.x12 m.x22)) * m.x20))
             (cos (-(atan2 m.x12 m.x22)) * m.x11 + sin (-(atan2 m.x12 m.x22)) * m.x21)⟩ := by
  simp only [Gen.M44.extractEulerXYZ, h0, h1, h2, one_ne_zero, if_false, div_one, ht.sin_zero, ht.cos_zero,
    mul_zero, zero_mul, mul_one, one_mul, add_zero, zero_add, neg_zero]
  -- closes by `rfl` on the current tree; best effort if the C++ reorders sums / hoists temporaries
  <;> (congr 1 <;> congr 1 <;> first | ring | (congr 1; ring))

/-- C11's and C12's extracted copies of `extractEulerXYZ` are the same function -/
theorem extractEulerXYZ_copies_agree {tmin tmax : α} {sqrt sin cos : α → α} {atan2 : α → α → α} (m : M44 α) :
    Gen.M44.extractEulerXYZ tmin tmax sqrt sin cos atan2 m = Gen.Euler.extractEulerXYZ tmin tmax sqrt sin cos atan2 m := rfl

/-- `rotH3` (C12's "rotation" factor) is `Matrix44::setEulerAngles` -/
theorem setEulerAngles_toMat (sin cos : α → α) (a : V3 α) :
    (Gen.Euler.M44_setEulerAngles sin cos a).toMat = rotH3 sin cos a := by
  ext i j
  fin_cases i <;> fin_cases j <;> simp [Gen.Euler.M44_setEulerAngles, M44.toMat, rotH3] <;> ring

/-- a 3×3 rotation matrix is its own cofactor matrix: `Rᵀ = adj R` -/
theorem transpose_eq_adjugate {A : Matrix (Fin 3) (Fin 3) α} (ho : A * Aᵀ = 1) (hd : A.det = 1) : Aᵀ = A.adjugate := by
  have h1 : Aᵀ * A = 1 := mul_eq_one_comm.mp ho
  calc Aᵀ = Aᵀ * (A * A.adjugate) := by rw [Matrix.mul_adjugate, hd, one_smul, Matrix.mul_one]
    _ = A.adjugate := by rw [← Matrix.mul_assoc, h1, Matrix.one_mul]

/-- the Euler round trip for `extractEulerXYZ`, every rotation matrix (gimbal lock included) -/
theorem rotH3_extractEulerXYZ {tmin tmax : α} {sqrt sin cos : α → α} {atan2 : α → α → α}
    (hs : SqrtSpec sqrt) (ht : EulerTrigSpec sin cos atan2) (R : M44 α)
    (ho : lin3 R * (lin3 R)ᵀ = 1) (hd : (lin3 R).det = 1) :
    rotH3 sin cos (Gen.M44.extractEulerXYZ tmin tmax sqrt sin cos atan2 R) = linH3 R := by
  have hadj := transpose_eq_adjugate ho hd
  have hk : (lin3 R)ᵀ * lin3 R = 1 := mul_eq_one_comm.mp ho
  obtain ⟨a, b, c, m03, d, e, f, m13, g, h, i, m23, m30, m31, m32, m33⟩ := R
  have r00 := congrFun (congrFun ho 0) 0
  have r11 := congrFun (congrFun ho 1) 1
  have r22 := congrFun (congrFun ho 2) 2
  have r12 := congrFun (congrFun ho 1) 2
  simp [lin3, Matrix.mul_apply, Fin.sum_univ_three] at r00 r11 r22 r12
  have ca := congrFun (congrFun hadj 0) 0
  have cb := congrFun (congrFun hadj 1) 0
  have cc := congrFun (congrFun hadj 2) 0
  have cd := congrFun (congrFun hadj 0) 1
  have ce := congrFun (congrFun hadj 1) 1
  have cf := congrFun (congrFun hadj 2) 1
  have cg := congrFun (congrFun hadj 0) 2
  have ch := congrFun (congrFun hadj 1) 2
  have ci := congrFun (congrFun hadj 2) 2
  simp [lin3, Matrix.adjugate_fin_three] at ca cb cc cd ce cf cg ch ci
  have k22 := congrFun (congrFun hk 2) 2
  simp [lin3, Matrix.mul_apply, Fin.sum_univ_three] at k22
  have l0 : Gen.V3.length tmin tmax sqrt ⟨a, b, c⟩ = 1 := len3_eq_one (V3_length_spec hs) _ _ _ r00
  have l1 : Gen.V3.length tmin tmax sqrt ⟨d, e, f⟩ = 1 := len3_eq_one (V3_length_spec hs) _ _ _ r11
  have l2 : Gen.V3.length tmin tmax sqrt ⟨g, h, i⟩ = 1 := len3_eq_one (V3_length_spec hs) _ _ _ r22
  rw [extractEulerXYZ_unit ht _ l0 l1 l2]
  simp only [ht.cos_neg, ht.sin_neg]
  generalize hX : atan2 f i = X
  have hT := ht.sq X
  generalize hcx : cos X = cx at hT ⊢
  generalize hsx : sin X = sx at hT ⊢
  -- first angle: `N = Rx(-X)·M` has `N12 = 0` and `N22 ≥ 0`
  have hAB : sx * i = cx * f ∧ 0 ≤ sx * f + cx * i := by
    by_cases hz : f * f + i * i = 0
    · obtain ⟨hf, hi⟩ := mul_self_add_mul_self_eq_zero.mp hz
      subst hf hi; simp
    · have hp : 0 ≤ f * f + i * i := add_nonneg (mul_self_nonneg _) (mul_self_nonneg _)
      obtain ⟨q0, q1⟩ := hs _ hp
      have qpos : 0 < sqrt (f * f + i * i) := by
        apply lt_of_le_of_ne q0
        intro hq; rw [← hq] at q1; exact hz (by rw [← q1]; ring)
      obtain ⟨u, v⟩ := ht.atan2_spec i f _ qpos (by rw [q1]; ring)
      rw [hX, hcx] at u
      rw [hX, hsx] at v
      constructor
      · linear_combination (-sx) * u + cx * v
      · have : sx * f + cx * i = sqrt (f * f + i * i) := by
          linear_combination (-sx) * v - cx * u + (sqrt (f * f + i * i)) * hT
        rw [this]; exact q0
  obtain ⟨hA, hB⟩ := hAB
  -- second angle
  have hp : 0 ≤ a * a + b * b := add_nonneg (mul_self_nonneg _) (mul_self_nonneg _)
  obtain ⟨y0, y1⟩ := hs _ hp
  have hcy : sqrt (a * a + b * b) = sx * f + cx * i := by
    have : sqrt (a * a + b * b) * sqrt (a * a + b * b) = (sx * f + cx * i) * (sx * f + cx * i) := by
      rw [y1]; linear_combination r00 - k22 - (f * f + i * i) * hT - (cx * f - sx * i) * hA
    rcases mul_self_eq_mul_self_iff.mp this with e1 | e1
    · exact e1
    · linarith
  obtain ⟨cY, sY⟩ := ht.atan2_spec (sqrt (a * a + b * b)) (-c) 1 one_pos (by rw [y1]; linear_combination -r00)
  rw [mul_one] at cY sY
  replace cY := cY.trans hcy
  -- third angle
  obtain ⟨cZ, sZ⟩ := ht.atan2_spec (cx * e + -sx * h) (-(cx * d + -sx * g)) 1 one_pos
    (by linear_combination -(cx * cx * r11 + sx * sx * r22 - 2 * cx * sx * r12 + hT + (cx * f - sx * i) * hA))
  rw [mul_one] at cZ sZ
  have g00 : cos (atan2 (-(cx * d + -sx * g)) (cx * e + -sx * h)) * cos (atan2 (-c) (sqrt (a * a + b * b))) = a := by
    rw [cZ, cY]; linear_combination -ca + (e * i - h * f) * hT - (sx * e + cx * h) * hA
  have g01 : sin (atan2 (-(cx * d + -sx * g)) (cx * e + -sx * h)) * cos (atan2 (-c) (sqrt (a * a + b * b))) = b := by
    rw [sZ, cY]; linear_combination -cb + (f * g - d * i) * hT + (sx * d + cx * g) * hA
  have g02 : -sin (atan2 (-c) (sqrt (a * a + b * b))) = c := by
    rw [sY]; ring
  have g10 : -sin (atan2 (-(cx * d + -sx * g)) (cx * e + -sx * h)) * cx
      + cos (atan2 (-(cx * d + -sx * g)) (cx * e + -sx * h)) * sin (atan2 (-c) (sqrt (a * a + b * b))) * sx = d := by
    rw [sZ, cZ, sY]; linear_combination d * hT + sx * b * hA - sx * sx * cd - sx * cx * cg
  have g11 : cos (atan2 (-(cx * d + -sx * g)) (cx * e + -sx * h)) * cx
      + sin (atan2 (-(cx * d + -sx * g)) (cx * e + -sx * h)) * sin (atan2 (-c) (sqrt (a * a + b * b))) * sx = e := by
    rw [sZ, cZ, sY]; linear_combination e * hT - sx * a * hA - sx * sx * ce - sx * cx * ch
  have g12 : cos (atan2 (-c) (sqrt (a * a + b * b))) * sx = f := by
    rw [cY]; linear_combination f * hT + cx * hA
  have g20 : sin (atan2 (-(cx * d + -sx * g)) (cx * e + -sx * h)) * sx
      + cos (atan2 (-(cx * d + -sx * g)) (cx * e + -sx * h)) * sin (atan2 (-c) (sqrt (a * a + b * b))) * cx = g := by
    rw [sZ, cZ, sY]; linear_combination g * hT + cx * b * hA - cx * sx * cd - cx * cx * cg
  have g21 : -cos (atan2 (-(cx * d + -sx * g)) (cx * e + -sx * h)) * sx
      + sin (atan2 (-(cx * d + -sx * g)) (cx * e + -sx * h)) * sin (atan2 (-c) (sqrt (a * a + b * b))) * cx = h := by
    rw [sZ, cZ, sY]; linear_combination h * hT - cx * a * hA - cx * sx * ce - cx * cx * ch
  have g22 : cos (atan2 (-c) (sqrt (a * a + b * b))) * cx = i := by
    rw [cY]; linear_combination i * hT - sx * hA
  simp only [rotH3, linH3, hcx, hsx]
  rw [g00, g01, g02, g10, g11, g12, g20, g21, g22]

/-! ## 2. The 3-D wrappers recompose: `scale · shear · rotation · translation = M` (FULL) -/

/-- `extractSHRT (Matrix44)`: when it returns true, `scale * shear * rotation * translation = M`, for every affine `M` -/
theorem M44_extractSHRT_recompose {tmin tmax : α} {sqrt sin cos : α → α} {atan2 : α → α → α}
    (hs : SqrtSpec sqrt) (ht : EulerTrigSpec sin cos atan2) {m : M44 α} (ha : Affine3 m) {s h rot t : V3 α}
    (hr : Gen.M44.extractSHRT tmin tmax sqrt sin cos atan2 m = (true, s, h, rot, t)) :
    scaleH3 s * shearH3 h * rotH3 sin cos rot * transH3 t = m.toMat :=
  M44_extractSHRT_recompose_partial hs ha hr (fun R ho hd => rotH3_extractEulerXYZ hs ht R ho hd)

/-- `sansScaling (Matrix44)` = shear * rotation * translation (`R` = the orthonormal factor of the inner function), and
`scale * sansScaling (m) = m` -/
theorem M44_sansScaling_recompose {tmin tmax : α} {sqrt sin cos : α → α} {atan2 : α → α → α}
    (hs : SqrtSpec sqrt) (ht : EulerTrigSpec sin cos atan2) {m : M44 α} (ha : Affine3 m) {r : Res3 α}
    (he : ear44 tmax (Gen.V3.length tmin tmax sqrt) m = some r) :
    (Gen.M44.sansScaling tmin tmax sqrt sin cos atan2 m).toMat = shearH3 r.shr * linH3 r.m * transH3 ⟨m.x30, m.x31, m.x32⟩ ∧
    scaleH3 r.scl * (Gen.M44.sansScaling tmin tmax sqrt sin cos atan2 m).toMat = m.toMat :=
  M44_sansScaling_recompose_partial hs ha he (fun R ho hd => rotH3_extractEulerXYZ hs ht R ho hd)

/-- `removeScaling (Matrix44)`: returns true and leaves shear * rotation * translation in `m` -/
theorem M44_removeScaling_recompose {tmin tmax : α} {sqrt sin cos : α → α} {atan2 : α → α → α}
    (hs : SqrtSpec sqrt) (ht : EulerTrigSpec sin cos atan2) {m : M44 α} (ha : Affine3 m) {r : Res3 α}
    (he : ear44 tmax (Gen.V3.length tmin tmax sqrt) m = some r) :
    (Gen.M44.removeScaling tmin tmax sqrt sin cos atan2 m).1 = true ∧
    (Gen.M44.removeScaling tmin tmax sqrt sin cos atan2 m).2.toMat = shearH3 r.shr * linH3 r.m * transH3 ⟨m.x30, m.x31, m.x32⟩ ∧
    scaleH3 r.scl * (Gen.M44.removeScaling tmin tmax sqrt sin cos atan2 m).2.toMat = m.toMat := by
  rw [M44_removeScaling, he]
  exact ⟨rfl, M44_sansScaling_recompose hs ht ha he⟩

/-- UNCONDITIONAL form: for every affine `M` with non-singular linear part (and `1 < numeric_limits<T>::max ()`) the 3-D
`extractSHRT` returns true and `scale * shear * rotation * translation = M`; for a singular linear part it returns false.
(`C12.M44_extractAndRemoveScalingAndShear_succeeds_iff`: in exact arithmetic the overflow guards only detect a zero scale.) -/
theorem M44_extractSHRT_total {tmin tmax : α} {sqrt sin cos : α → α} {atan2 : α → α → α}
    (hs : SqrtSpec sqrt) (ht : EulerTrigSpec sin cos atan2) (h1 : 1 < tmax) {m : M44 α} (ha : Affine3 m) :
    ((lin3 m).det ≠ 0 → ∃ s h rot t, Gen.M44.extractSHRT tmin tmax sqrt sin cos atan2 m = (true, s, h, rot, t) ∧
      scaleH3 s * shearH3 h * rotH3 sin cos rot * transH3 t = m.toMat) ∧
    ((lin3 m).det = 0 → (Gen.M44.extractSHRT tmin tmax sqrt sin cos atan2 m).1 = false) := by
  constructor
  · intro hd
    obtain ⟨r, he⟩ := Option.isSome_iff_exists.mp ((M44_extractAndRemoveScalingAndShear_succeeds_iff (tmin := tmin) hs h1 m).mpr hd)
    have e : Gen.M44.extractSHRT tmin tmax sqrt sin cos atan2 m =
        (true, r.scl, r.shr, Gen.M44.extractEulerXYZ tmin tmax sqrt sin cos atan2 r.m, ⟨m.x30, m.x31, m.x32⟩) := by
      rw [M44_extractSHRT, he]
    exact ⟨_, _, _, _, e, M44_extractSHRT_recompose hs ht ha e⟩
  · intro hd
    rw [M44_extractSHRT, M44_extractAndRemoveScalingAndShear_degenerate hs hd]

/-- … and likewise `sansScaling`: on every affine `M` with non-singular linear part, `scale * sansScaling (M) = M` for the scale
`extractScaling` reports -/
theorem M44_sansScaling_total {tmin tmax : α} {sqrt sin cos : α → α} {atan2 : α → α → α}
    (hs : SqrtSpec sqrt) (ht : EulerTrigSpec sin cos atan2) (h1 : 1 < tmax) {m : M44 α} (ha : Affine3 m) (hd : (lin3 m).det ≠ 0) :
    ∃ s, Gen.M44.extractScaling tmin tmax sqrt m = (true, s) ∧
      scaleH3 s * (Gen.M44.sansScaling tmin tmax sqrt sin cos atan2 m).toMat = m.toMat := by
  obtain ⟨r, he⟩ := Option.isSome_iff_exists.mp ((M44_extractAndRemoveScalingAndShear_succeeds_iff (tmin := tmin) hs h1 m).mpr hd)
  exact ⟨r.scl, by rw [M44_extractScaling, he], (M44_sansScaling_recompose hs ht ha he).2⟩

/-- `removeScaling (Matrix44)`: unconditional form -/
theorem M44_removeScaling_total {tmin tmax : α} {sqrt sin cos : α → α} {atan2 : α → α → α}
    (hs : SqrtSpec sqrt) (ht : EulerTrigSpec sin cos atan2) (h1 : 1 < tmax) {m : M44 α} (ha : Affine3 m) (hd : (lin3 m).det ≠ 0) :
    ∃ s, Gen.M44.extractScaling tmin tmax sqrt m = (true, s) ∧
      Gen.M44.removeScaling tmin tmax sqrt sin cos atan2 m = (true, Gen.M44.sansScaling tmin tmax sqrt sin cos atan2 m) ∧
      scaleH3 s * (Gen.M44.removeScaling tmin tmax sqrt sin cos atan2 m).2.toMat = m.toMat := by
  obtain ⟨r, he⟩ := Option.isSome_iff_exists.mp ((M44_extractAndRemoveScalingAndShear_succeeds_iff (tmin := tmin) hs h1 m).mpr hd)
  refine ⟨r.scl, by rw [M44_extractScaling, he], by rw [M44_removeScaling, he], ?_⟩
  exact (M44_removeScaling_recompose hs ht ha he).2.2

/-- `extractScalingAndShear`, `extractScaling`, `sansScalingAndShear` (both spellings), `removeScalingAndShear (Matrix44)`:
unconditional form — they succeed, the residual is a rotation (orthonormal, determinant +1) and `scale * shear * residual = M` -/
theorem M44_sansScalingAndShear_total {tmin tmax : α} {sqrt : α → α}
    (hs : SqrtSpec sqrt) (h1 : 1 < tmax) {m : M44 α} (ha : Affine3 m) (hd : (lin3 m).det ≠ 0) :
    ∃ s h, Gen.M44.extractScalingAndShear tmin tmax sqrt m = (true, s, h) ∧ Gen.M44.extractScaling tmin tmax sqrt m = (true, s) ∧
      Gen.M44.extractScalingExc tmin tmax sqrt m = .ok (true, s) ∧
      Gen.M44.removeScalingAndShear tmin tmax sqrt m = (true, Gen.M44.sansScalingAndShear tmin tmax sqrt m) ∧
      Gen.M44.sansScalingAndShearExc tmin tmax sqrt m = .ok (Gen.M44.sansScalingAndShear tmin tmax sqrt m) ∧
      lin3 (Gen.M44.sansScalingAndShear tmin tmax sqrt m) * (lin3 (Gen.M44.sansScalingAndShear tmin tmax sqrt m))ᵀ = 1 ∧
      (lin3 (Gen.M44.sansScalingAndShear tmin tmax sqrt m)).det = 1 ∧
      scaleH3 s * shearH3 h * (Gen.M44.sansScalingAndShear tmin tmax sqrt m).toMat = m.toMat := by
  obtain ⟨r, he⟩ := Option.isSome_iff_exists.mp ((M44_extractAndRemoveScalingAndShear_succeeds_iff (tmin := tmin) hs h1 m).mpr hd)
  obtain ⟨_, ho, hdet, _⟩ := ear44_spec (V3_length_spec hs) he
  have hS : Gen.M44.sansScalingAndShear tmin tmax sqrt m = r.m := by rw [M44_sansScalingAndShear, he]
  refine ⟨r.scl, r.shr, by rw [M44_extractScalingAndShear, he], by rw [M44_extractScaling, he], by rw [M44_extractScalingExc, he],
    by rw [M44_removeScalingAndShear, he, hS], by rw [M44_sansScalingAndShearExc, he, hS], by rw [hS]; exact ho, by rw [hS]; exact hdet, ?_⟩
  exact (M44_sansScalingAndShear_factors hs ha he).2

/-! ## 3. The real functions -/

theorem sqrtSpec_real : SqrtSpec Real.sqrt := fun x hx => ⟨Real.sqrt_nonneg x, Real.mul_self_sqrt hx⟩

/-- `Real.sin`, `Real.cos` and `atan2 y x = arg (x + iy)` (C11's `atan2R`) satisfy `EulerTrigSpec` -/
theorem eulerTrigSpec_real : EulerTrigSpec Real.sin Real.cos Euler.atan2R where
  sin_zero := Real.sin_zero
  cos_zero := Real.cos_zero
  sin_neg := Real.sin_neg
  cos_neg := Real.cos_neg
  sq t := by have := Real.sin_sq_add_cos_sq t; nlinarith
  atan2_spec x y r hr h := by
    have hn2 : ‖(⟨x, y⟩ : ℂ)‖ ^ 2 = r ^ 2 := by
      rw [Complex.sq_norm, Complex.normSq_apply]; linarith
    have hn : ‖(⟨x, y⟩ : ℂ)‖ = r := by
      have h0 := norm_nonneg (⟨x, y⟩ : ℂ)
      nlinarith [hn2, h0]
    have hz : (⟨x, y⟩ : ℂ) ≠ 0 := by
      intro hz; rw [hz] at hn; simp at hn; linarith
    have hr0 := hr.ne'
    constructor
    · simp only [Euler.atan2R]; rw [Complex.cos_arg hz, hn]; field_simp
    · simp only [Euler.atan2R]; rw [Complex.sin_arg, hn]; field_simp

/-- the round trip over ℝ, every rotation matrix (no gimbal-lock exclusion) -/
theorem rotH3_extractEulerXYZ_real (tmin tmax : ℝ) (R : M44 ℝ) (ho : lin3 R * (lin3 R)ᵀ = 1) (hd : (lin3 R).det = 1) :
    rotH3 Real.sin Real.cos (Gen.M44.extractEulerXYZ tmin tmax Real.sqrt Real.sin Real.cos Euler.atan2R R) = linH3 R :=
  rotH3_extractEulerXYZ sqrtSpec_real eulerTrigSpec_real R ho hd

theorem M44_extractSHRT_recompose_real {tmin tmax : ℝ} {m : M44 ℝ} (ha : Affine3 m) {s h rot t : V3 ℝ}
    (hr : Gen.M44.extractSHRT tmin tmax Real.sqrt Real.sin Real.cos Euler.atan2R m = (true, s, h, rot, t)) :
    scaleH3 s * shearH3 h * rotH3 Real.sin Real.cos rot * transH3 t = m.toMat :=
  M44_extractSHRT_recompose sqrtSpec_real eulerTrigSpec_real ha hr

theorem M44_sansScaling_recompose_real {tmin tmax : ℝ} {m : M44 ℝ} (ha : Affine3 m) {r : Res3 ℝ}
    (he : ear44 tmax (Gen.V3.length tmin tmax Real.sqrt) m = some r) :
    (Gen.M44.sansScaling tmin tmax Real.sqrt Real.sin Real.cos Euler.atan2R m).toMat =
      shearH3 r.shr * linH3 r.m * transH3 ⟨m.x30, m.x31, m.x32⟩ ∧
    scaleH3 r.scl * (Gen.M44.sansScaling tmin tmax Real.sqrt Real.sin Real.cos Euler.atan2R m).toMat = m.toMat :=
  M44_sansScaling_recompose sqrtSpec_real eulerTrigSpec_real ha he

/-! ## 4. Links to C11 -/

/-- on C11's open principal range, C11's theorem `extract (setEulerAngles a) = a` yields the same conclusion as
`rotH3_extractEulerXYZ_real` for `R = setEulerAngles a` -/
theorem eulerRoundTrip_principal_of_C11 (tmin tmax : ℝ) (a : V3 ℝ) (h : C11.principal .XYZ a) :
    rotH3 Real.sin Real.cos (Gen.M44.extractEulerXYZ tmin tmax Real.sqrt Real.sin Real.cos Euler.atan2R
        (Gen.Euler.M44_setEulerAngles Real.sin Real.cos a)) = linH3 (Gen.Euler.M44_setEulerAngles Real.sin Real.cos a) := by
  rw [extractEulerXYZ_copies_agree, C11.extractEulerXYZ_inverts_setEulerAngles tmin tmax a h, ← setEulerAngles_toMat]
  simp only [Gen.Euler.M44_setEulerAngles, M44.toMat, linH3]

/-- surjectivity for order XYZ (listed as missing in C11): EVERY rotation matrix is `setEulerAngles a`, with
`a = extractEulerXYZ R` in the closed principal range `a.x, a.z ∈ (-π, π]`, `a.y ∈ [-π/2, π/2]` -/
theorem rotation_is_setEulerAngles (tmin tmax : ℝ) (R : M44 ℝ) (ho : lin3 R * (lin3 R)ᵀ = 1) (hd : (lin3 R).det = 1) :
    ∃ a : V3 ℝ, a = Gen.Euler.extractEulerXYZ tmin tmax Real.sqrt Real.sin Real.cos Euler.atan2R R ∧
      linH3 (Gen.Euler.M44_setEulerAngles Real.sin Real.cos a) = linH3 R ∧
      a.x ∈ Set.Ioc (-Real.pi) Real.pi ∧ a.y ∈ Set.Icc (-(Real.pi / 2)) (Real.pi / 2) ∧ a.z ∈ Set.Ioc (-Real.pi) Real.pi := by
  refine ⟨_, rfl, ?_, ?_⟩
  · rw [← extractEulerXYZ_copies_agree, ← rotH3_extractEulerXYZ_real tmin tmax R ho hd, ← setEulerAngles_toMat]
    simp only [Gen.Euler.M44_setEulerAngles, M44.toMat, linH3]
  · have r00 := congrFun (congrFun ho 0) 0
    have r11 := congrFun (congrFun ho 1) 1
    have r22 := congrFun (congrFun ho 2) 2
    simp [lin3, Matrix.mul_apply, Fin.sum_univ_three] at r00 r11 r22
    rw [← extractEulerXYZ_copies_agree, extractEulerXYZ_unit eulerTrigSpec_real R
      (len3_eq_one (V3_length_spec sqrtSpec_real) _ _ _ r00) (len3_eq_one (V3_length_spec sqrtSpec_real) _ _ _ r11)
      (len3_eq_one (V3_length_spec sqrtSpec_real) _ _ _ r22)]
    refine ⟨Complex.arg_mem_Ioc _, ?_, Complex.arg_mem_Ioc _⟩
    simp only [Euler.atan2R, Set.mem_Icc, ← abs_le]
    exact Complex.abs_arg_le_pi_div_two_iff.mpr (Real.sqrt_nonneg _)

/-! ## 5. Non-vacuity -/

/-- scale (5, 10, 2) · shear xy = 1 · (3-4-5 rotation about Z) · translation (7, 8, 9) -/
def W : M44 α := ⟨4, 3, 0, 0, 2, 14, 0, 0, 0, 0, 2, 0, 7, 8, 9, 1⟩
/-- its rotation factor with the translation row -/
def WR : M44 α := ⟨4/5, 3/5, 0, 0, -3/5, 4/5, 0, 0, 0, 0, 1, 0, 7, 8, 9, 1⟩

theorem len3_of_sq {len : V3 α → α} (hl : LenSpec3 len) (v : V3 α) (L : α) (hL : 0 < L) (h : dot3 v v = L * L) : len v = L := by
  obtain ⟨l0, l1⟩ := hl v
  rw [h] at l1
  rcases mul_self_eq_mul_self_iff.mp l1 with e | e
  · exact e
  · linarith

theorem ear44_W {tmax : α} (ht : 1 < tmax) {len : V3 α → α} (hl : LenSpec3 len) :
    ear44 tmax len (W : M44 α) = some ⟨WR, ⟨5, 10, 2⟩, ⟨1, 0, 0⟩⟩ := by
  have hmax : maxAbs3 (⟨4, 3, 0⟩ : V3 α) ⟨2, 14, 0⟩ ⟨0, 0, 2⟩ = 14 := by
    simp only [maxAbs3, upd, sabs_eq_abs]
    norm_num [abs_of_pos]
  have hn : normRows3 tmax (14 : α) ⟨4, 3, 0⟩ ⟨2, 14, 0⟩ ⟨0, 0, 2⟩ = some (⟨2/7, 3/14, 0⟩, ⟨1/7, 1, 0⟩, ⟨0, 0, 1/7⟩) := by
    simp only [normRows3, checkRow3, tooSmall, sabs_eq_abs, V3.divS]
    norm_num [abs_of_pos]
  have l0 : len (⟨2/7, 3/14, 0⟩ : V3 α) = 5/14 := len3_of_sq hl _ _ (by norm_num) (by simp only [dot3]; norm_num)
  have l1 : len (⟨-(3/7), 4/7, 0⟩ : V3 α) = 5/7 := len3_of_sq hl _ _ (by norm_num) (by simp only [dot3]; norm_num)
  have l2 : len (⟨0, 0, 1/7⟩ : V3 α) = 1/7 := len3_of_sq hl _ _ (by norm_num) (by simp only [dot3]; norm_num)
  have hg : gs3 tmax len (⟨2/7, 3/14, 0⟩ : V3 α) ⟨1/7, 1, 0⟩ ⟨0, 0, 1/7⟩ =
      some ⟨⟨4/5, 3/5, 0⟩, ⟨-3/5, 4/5, 0⟩, ⟨0, 0, 1⟩, ⟨5/14, 5/7, 1/7⟩, ⟨1, 0, 0⟩⟩ := by
    simp only [gs3, V3.divS, V3.subSmul, dot3, checkRow3, tooSmall, sabs_eq_abs]
    have t0 : 0 < tmax := by linarith
    have t1 : ¬ tmax ≤ 1 := not_le.mpr ht
    have t2 : ¬ tmax * (1 / 7) ≤ 0 := by intro hh; linarith
    have a1 : 2 / 7 < tmax * (5 / 14) := by linarith
    have a2 : 3 / 14 < tmax * (5 / 14) := by linarith
    have b1 : ¬ tmax * (5 / 7) ≤ 3 / 7 := by intro hh; linarith
    have b2 : ¬ tmax * (5 / 7) ≤ 4 / 7 := by intro hh; linarith
    have b3 : ¬ tmax * (5 / 7) ≤ 0 := by intro hh; linarith
    norm_num [l0, l1, l2, abs_of_pos, t0, t1, t2, a1, a2, b1, b2, b3]
  have hf : flip3 (⟨⟨4/5, 3/5, 0⟩, ⟨-3/5, 4/5, 0⟩, ⟨0, 0, 1⟩, ⟨5/14, 5/7, 1/7⟩, ⟨1, 0, 0⟩⟩ : GS3 α) =
      ⟨⟨4/5, 3/5, 0⟩, ⟨-3/5, 4/5, 0⟩, ⟨0, 0, 1⟩, ⟨5/14, 5/7, 1/7⟩, ⟨1, 0, 0⟩⟩ := by
    simp only [flip3, dot3, cross3]; norm_num
  simp only [ear44, W, WR, hmax, hn, hg, hf, V3.mulS]
  norm_num

/-- over ℝ: `extractSHRT` succeeds on `W` with scale (5, 10, 2), shear (1, 0, 0), translation (7, 8, 9) … -/
theorem extractSHRT_W :
    Gen.M44.extractSHRT (1 / 1024 : ℝ) 2 Real.sqrt Real.sin Real.cos Euler.atan2R W =
      (true, ⟨5, 10, 2⟩, ⟨1, 0, 0⟩, Gen.M44.extractEulerXYZ (1 / 1024) 2 Real.sqrt Real.sin Real.cos Euler.atan2R WR, ⟨7, 8, 9⟩) := by
  rw [M44_extractSHRT, ear44_W (by norm_num) (V3_length_spec sqrtSpec_real)]
  rfl

/-- … and the four factors multiply back to `W` -/
example : scaleH3 (⟨5, 10, 2⟩ : V3 ℝ) * shearH3 ⟨1, 0, 0⟩ *
      rotH3 Real.sin Real.cos (Gen.M44.extractEulerXYZ (1 / 1024) 2 Real.sqrt Real.sin Real.cos Euler.atan2R WR) *
      transH3 ⟨7, 8, 9⟩ = (W : M44 ℝ).toMat :=
  M44_extractSHRT_recompose_real ⟨rfl, rfl, rfl, rfl⟩ extractSHRT_W

/-- the hypotheses of `M44_sansScaling_recompose` / `M44_removeScaling_recompose` hold for `W` -/
example : Affine3 (W : M44 ℝ) ∧
    ear44 (2 : ℝ) (Gen.V3.length (1 / 1024 : ℝ) 2 Real.sqrt) W = some ⟨WR, ⟨5, 10, 2⟩, ⟨1, 0, 0⟩⟩ :=
  ⟨⟨rfl, rfl, rfl, rfl⟩, ear44_W (by norm_num) (V3_length_spec sqrtSpec_real)⟩

/-- a rotation AT gimbal lock (90° about Y: `R02 = -1`, `R12 = R22 = 0`) -/
def G : M44 ℝ := ⟨0, 0, -1, 0, 0, 1, 0, 0, 1, 0, 0, 0, 0, 0, 0, 1⟩

/-- the round trip holds at gimbal lock too -/
example : rotH3 Real.sin Real.cos (Gen.M44.extractEulerXYZ (1 / 1024) 2 Real.sqrt Real.sin Real.cos Euler.atan2R G) = linH3 G :=
  rotH3_extractEulerXYZ_real _ _ G
    (by ext i j; fin_cases i <;> fin_cases j <;> simp [G, lin3, Matrix.mul_apply, Fin.sum_univ_three])
    (by simp [G, lin3, Matrix.det_fin_three])

end ImathVerif.C12Link
