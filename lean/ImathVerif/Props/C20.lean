import ImathVerif.Lemmas.DispatchLemmas
import Mathlib.Data.List.Nodup

/-!
# C20 — vectorised PyImath operations equal element-wise scalar operations under any task partition

Model: `ImathVerif/Model/Dispatch.lean` (hand model of PyImathTask.cpp,
the accessors of PyImathFixedArray.h, the execute loops of
PyImathAutovectorize.h and ExtendByTask of PyImathBox.cpp), tied to the real
module by `tools/props/c20.py` (scripted WorkerPool shim + `drv_dispatch`).

Scope of the theorems: every list of ranges (the pool's script is an arbitrary
function of the length), every order of the ranges, every interleaving of
single loop iterations.  Real concurrency (iterations overlapping in time on
different threads) is NOT modelled: data-race freedom of the real threads is
argued from `NoCrossAlias` (the footprints of distinct iterations are
disjoint), and observed by the threaded mode of the harness.

Sections added after audit/C20.md:
* W1 `partition_independent_of_compositional` — for an ARBITRARY task (any state, `tid` may be used):
  "empty range = identity", "2-way split = unsplit" and "swap of two disjoint sub-ranges" imply independence
  of every partition and order; `badIgnoreStart_refuted`, `badScratch_refuted` show that the slips the
  property names violate these laws (so the laws are what the harness's 2-way/swap scripts test).
* W5 `applyVectorized_ok`, `applyMaskable_ok`, `Access.reindex_loc`, `applyMaskable_ok_cell` — the success
  path of the functions `drv_dispatch` executes.
* W6 `loc_injective_direct/masked`, `noCrossAlias_fresh_ret`, `noCrossAlias_fresh_direct`,
  `noCrossAlias_inplace` — `NoCrossAlias` derived from what Python can build; `exCrossMasked` is outside.
* W7 (generated `Box::extendBy`) is in `Props/C20Box.lean`.
-/
namespace ImathVerif.Dispatch

variable {α σ β : Type}

/-! ## The loop composes -/

/-- `execute (s,e)` is `execute (m,e)` after `execute (s,m)` for `s ≤ m ≤ e`. -/
theorem exec_split (step : Nat → σ → σ) (s m e : Nat) (h1 : s ≤ m) (h2 : m ≤ e) :
    exec step s e = exec step m e ∘ exec step s m := by
  funext h; exact exec_split' step s m e h1 h2 h

example : (3 : Nat) ≤ 200 ∧ (200 : Nat) ≤ 1000 := by decide

/-- An empty range does nothing (cuts at `0` and at `len`). -/
theorem exec_nil (step : Nat → σ → σ) (s e : Nat) (he : e ≤ s) : exec step s e = id := by
  funext h; exact exec_empty step s e he h

/-! ## Partition independence of element-wise tasks -/

/-- General form, for any task whose iteration `i` writes only cell `w i` and reads
    only cells `r i` (covers the hand-written Task structs of PyImathQuat.cpp,
    PyImathMatrix44.cpp, ...): for EVERY list of ranges covering `[0,len)` exactly
    once, executed in EVERY order, the final heap is that of `execute (0,len)` and
    is the element-wise result. -/
theorem partition_independent_footprint (step : Nat → Heap α → Heap α) (w : Nat → Addr) (r : Nat → List Addr)
    (fp : Footprint step w r) (len : Nat) (hna : NoCrossAlias len w r)
    (rs : List Range) (hp : IsPartition len rs) (rs' : List Range) (hperm : rs'.Perm rs) (h : Heap α) :
    runRanges (Task.ofStep step) rs' h = Task.ofStep step 0 len 0 h ∧
    runRanges (Task.ofStep step) rs' h = elementwise step w len h := by
  have hp' := isPartition_perm len rs rs' hperm hp
  have hflat := flatten_perm_range len rs' hp'
  have hlt := mem_flatten_lt len rs' hp'.1
  have e1 : runRanges (Task.ofStep step) rs' h = runList step (List.range len) h := by
    rw [runRanges_ofStep]
    exact runList_perm fp len hna _ _ hflat hlt h
  have e2 : Task.ofStep step 0 len 0 h = runList step (List.range len) h := by
    simp [Task.ofStep, exec_eq_runList, List.range_eq_range']
  exact ⟨e1.trans e2.symm, e1.trans (runList_range_eq_elementwise fp len hna h)⟩

/-- The vectorised execute loops (`retAccess[i] = Op::apply (arg1[i], ...)` through
    direct or masked accessors): for every partition of `[0,len)` and every
    execution order the heap equals that of the unsplit `execute (0,len)` and
    equals the element-wise `map op`, provided no index writes a cell that another
    index reads or writes. -/
theorem partition_independent (t : ElemTask α) (len : Nat) (hna : NoCrossAlias len t.w t.r)
    (rs : List Range) (hp : IsPartition len rs) (rs' : List Range) (hperm : rs'.Perm rs) (h : Heap α) :
    runRanges t.task rs' h = t.task 0 len 0 h ∧
    runRanges t.task rs' h = elementwise t.step t.w len h :=
  partition_independent_footprint t.step t.w t.r t.footprint len hna rs hp rs' hperm h

/-- What `elementwise` is for an `ElemTask`: cell `ret[i]` holds `op (arg1[i], arg2[i], ...)`
    evaluated on the ORIGINAL heap; cells that are nobody's `ret[i]` are unchanged. -/
theorem elementwise_spec (t : ElemTask α) (len : Nat) (hna : NoCrossAlias len t.w t.r) (h : Heap α) :
    (∀ i, i < len → (elementwise t.step t.w len h).get (t.ret.loc i) = t.op (t.args.map fun a => a.read h i)) ∧
    (∀ x, (∀ i, i < len → t.ret.loc i ≠ x) → (elementwise t.step t.w len h).get x = h.get x) := by
  constructor
  · intro i hi
    rw [← runList_range_eq_elementwise t.footprint len hna h]
    have := runList_at t.footprint len hna _ List.nodup_range (fun j hj => List.mem_range.mp hj) h i
      (List.mem_range.mpr hi)
    rw [show t.ret.loc i = t.w i from rfl, this]
    simp [ElemTask.step, Heap.write, ElemTask.w]
  · intro x hx
    unfold elementwise
    have : (List.range len).find? (fun i => t.w i = x) = none := by
      rw [List.find?_eq_none]
      intro i hi
      simp [ElemTask.w, hx i (List.mem_range.mp hi)]
    simp only
    rw [this]

/-- Any interleaving at element granularity (any permutation of the index list
    `[0..len)`) gives the same heap as the loop. -/
theorem interleaving_independent (t : ElemTask α) (len : Nat) (hna : NoCrossAlias len t.w t.r)
    (l : List Nat) (hperm : l.Perm (List.range len)) (h : Heap α) :
    runList t.step l h = t.task 0 len 0 h := by
  have hlt : ∀ i ∈ l, i < len := fun i hi => List.mem_range.mp (hperm.subset hi)
  rw [runList_perm t.footprint len hna _ _ hperm hlt]
  simp [ElemTask.task, Task.ofStep, exec_eq_runList, List.range_eq_range']

/-- Two iterations with different indices commute (the disjoint-write argument
    behind running sub-ranges on different threads). -/
theorem iterations_commute (t : ElemTask α) (len : Nat) (hna : NoCrossAlias len t.w t.r)
    (i j : Nat) (hi : i < len) (hj : j < len) (h : Heap α) :
    t.step j (t.step i h) = t.step i (t.step j h) :=
  step_comm t.footprint len hna i j hi hj h

/-- A sufficient structural condition: `ret` is injective on `[0,len)` and every
    array operand is either the very same accessor as `ret` (in-place operations,
    `a += a`, `ret` aliasing an operand at the same index) or never touches a
    cell of `ret`. -/
theorem noCrossAlias_of (t : ElemTask α) (len : Nat)
    (hinj : ∀ i, i < len → ∀ j, j < len → i ≠ j → t.ret.loc i ≠ t.ret.loc j)
    (hargs : ∀ acc, Arg.arr acc ∈ t.args →
      acc = t.ret ∨ ∀ i, i < len → ∀ j, j < len → acc.loc j ≠ t.ret.loc i) :
    NoCrossAlias len t.w t.r := by
  intro i hi j hj hij
  refine ⟨hinj i hi j hj hij, ?_⟩
  simp only [ElemTask.r, ElemTask.w, List.mem_flatMap, not_exists, not_and]
  intro a ha
  cases a with
  | const v => simp [Arg.locs]
  | arr acc =>
    simp only [Arg.locs, List.mem_singleton]
    rcases hargs acc ha with rfl | hd
    · exact hinj i hi j hj hij
    · exact fun e => hd i hi j hj e.symm

/-! ### Examples: which aliasing patterns are inside the quantifier -/

/-- integer addition as the element operation -/
def addOp : List Int → Int := fun l => l.foldl (· + ·) 0

/-- distinct buffers: `r = a + b`, `r` at 0.., `a` at 100.., `b` at 200.. -/
def exDistinct : ElemTask Int := { ret := .direct 0 1, args := [.arr (.direct 100 1), .arr (.direct 200 1)], op := addOp }
example : NoCrossAlias 12 exDistinct.w exDistinct.r := by decide

/-- identical-index aliasing: `a += a` (`ret` and both operands are the same accessor) -/
def exInplace : ElemTask Int := { ret := .direct 0 1, args := [.arr (.direct 0 1), .arr (.direct 0 1)], op := addOp }
example : NoCrossAlias 12 exInplace.w exInplace.r := by decide

/-- masked in-place: `a[mask] += b` with `b` read at the raw index
    (VectorizedMaskedVoidOperation1), strided scalar broadcast `c` -/
def exMasked : ElemTask Int :=
  let self := Access.masked 0 1 [1, 3, 4, 7]
  { ret := self, args := [.arr self, .arr ((Access.direct 100 1).reindex self), .const 5], op := addOp }
example : NoCrossAlias 4 exMasked.w exMasked.r := by decide

/-- cross-aliased views of one buffer: `ret = a[1:]`, `arg = a[:-1]`
    (`a[1:] = a[1:] + a[:-1]` through shifted accessors).  This is OUTSIDE the
    property's quantifier: `NoCrossAlias` fails ... -/
def exCross : ElemTask Int := { ret := .direct 1 1, args := [.arr (.direct 1 1), .arr (.direct 0 1)], op := addOp }
example : ¬ NoCrossAlias 3 exCross.w exCross.r := by decide

/-- ... and the result really depends on the order of the ranges: cell 3 holds 4
    after `execute (0,3)` on `a = [1,1,1,1]` but 2 when the ranges run in reverse. -/
example :
    (exCross.task 0 3 0 ⟨fun _ => 1⟩).get 3 = 4 ∧
    (runRanges exCross.task [⟨2, 3, 0⟩, ⟨1, 2, 1⟩, ⟨0, 1, 2⟩] ⟨fun _ => 1⟩).get 3 = 2 ∧
    IsPartition 3 [⟨2, 3, 0⟩, ⟨1, 2, 1⟩, ⟨0, 1, 2⟩] := by
  refine ⟨?_, ?_, by decide⟩
  · simp only [ElemTask.task, Task.ofStep, exec_eq_runList]; decide
  · simp only [runRanges, List.foldl, ElemTask.task, Task.ofStep, exec_eq_runList]; decide

/-- non-vacuity of `partition_independent`: a concrete 3-way partition around the threshold -/
example : IsPartition 257 [⟨200, 257, 2⟩, ⟨0, 199, 0⟩, ⟨199, 200, 1⟩] := by
  refine ⟨by decide, ?_⟩
  intro i hi
  simp only [coverCount, List.filter, Range.covers]
  by_cases h1 : i < 199
  · have : ¬ 200 ≤ i := by omega
    have : ¬ 199 ≤ i := by omega
    simp [*]
  · by_cases h2 : i < 200
    · have : ¬ 200 ≤ i := by omega
      have : 199 ≤ i := by omega
      simp [*]
    · have : 200 ≤ i := by omega
      have : 199 ≤ i := by omega
      simp [*]

/-! ## Reductions: per-thread partial results merged at the end -/

/-- `dispatchTask` always amounts to running SOME list of ranges. -/
def effectiveScript (pool : Option Pool) (len : Nat) : List Range :=
  if usesPool pool len then
    match pool with
    | some p => p.script len
    | none => []
  else [⟨0, len, 0⟩]

theorem dispatch_eq_runRanges (pool : Option Pool) (t : Task σ) (len : Nat) (h : σ) :
    dispatchTask pool t len h = runRanges t (effectiveScript pool len) h := by
  unfold dispatchTask effectiveScript usesPool
  by_cases hl : len > minIterations
  · cases pool with
    | none => simp [hl, runRanges]
    | some p =>
      cases hw : p.inWorkerThread <;> simp [hl, hw, runRanges, Pool.dispatch]
  · simp [hl, runRanges]

/-- A pool is admissible for a length when it reports at least one worker, its
    script covers `[0,len)` (exactly once, or at least once) and every thread id is
    below `workers ()` — what PyImathBox.cpp's `boxes[tid]` requires. -/
def PoolOK (cover : Nat → List Range → Prop) (pool : Option Pool) (len : Nat) : Prop :=
  ∀ p, pool = some p → 1 ≤ p.workers ∧ cover len (p.script len) ∧ ∀ r ∈ p.script len, r.tid < p.workers

theorem effectiveScript_ok (cover : Nat → List Range → Prop) (hc : ∀ len, cover len [⟨0, len, 0⟩])
    (pool : Option Pool) (len : Nat) (hok : PoolOK cover pool len) :
    cover len (effectiveScript pool len) ∧ ∀ r ∈ effectiveScript pool len, r.tid < workers pool := by
  unfold effectiveScript
  by_cases hu : usesPool pool len = true
  · cases pool with
    | none => simp [usesPool] at hu
    | some p =>
      obtain ⟨_, h2, h3⟩ := hok p rfl
      have hw : p.inWorkerThread = false := by
        simp only [usesPool] at hu
        split at hu
        · simpa using hu
        · simp at hu
      simp [hu, workers, hw, h2]
      exact h3
  · simp only [hu]
    refine ⟨hc len, ?_⟩
    intro r hr
    simp only [Bool.false_eq_true, ↓reduceIte, List.mem_singleton] at hr
    subst hr
    cases pool with
    | none => simp [workers]
    | some p =>
      have := (hok p rfl).1
      simp only [workers]
      split <;> omega

theorem isPartition_single (len : Nat) : IsPartition len [⟨0, len, 0⟩] := by
  refine ⟨by simp, ?_⟩
  intro i hi
  simp [coverCount, Range.covers, hi]

theorem isCover_single (len : Nat) : IsCover len [⟨0, len, 0⟩] := by
  refine ⟨by simp, ?_⟩
  intro i hi
  simp [coverCount, Range.covers, hi]

theorem boxExtendBy_eq {join : β → β → β} {empty : β} (L : JoinLaws join empty)
    (pool : Option Pool) (pt : Nat → β) (len : Nat) (box : β)
    (htid : ∀ r ∈ effectiveScript pool len, r.tid < workers pool) :
    boxExtendBy join empty pool pt len box =
      join box (joinList join empty pt (flatten (effectiveScript pool len))) := by
  unfold boxExtendBy
  simp only
  rw [dispatch_eq_runRanges, foldl_join_init L (fun i => runRanges (reduceTask join pt) (effectiveScript pool len) (fun _ => empty) i)]
  congr 1
  have := total_runRanges L pt (workers pool) (effectiveScript pool len) htid (fun _ => empty)
  simp only [total_eq_joinList] at this
  rw [this]
  have hz : joinList join empty (fun _ => empty) (List.range (workers pool)) = empty := by
    generalize List.range (workers pool) = l
    induction l with
    | nil => rfl
    | cons a l ih => rw [joinList_cons L, ih, L.id_right]
  rw [hz, L.id_left]

/-- `Box.extendBy (array)`: for a general `join` (= `extendBy`) that is associative,
    commutative and idempotent with the empty box as identity, the merge of the
    per-thread partial results equals folding all points into the box — for EVERY
    pool script that partitions `[0,len)` (any ranges, any order, any assignment of
    thread ids below `workers ()`), and also when no pool is used. -/
theorem reduction_partition_independent {join : β → β → β} {empty : β} (L : JoinLaws join empty)
    (pool : Option Pool) (pt : Nat → β) (len : Nat) (box : β) (hok : PoolOK IsPartition pool len) :
    boxExtendBy join empty pool pt len box = foldPoints join pt len box := by
  obtain ⟨hp, htid⟩ := effectiveScript_ok IsPartition isPartition_single pool len hok
  rw [boxExtendBy_eq L pool pt len box htid, foldPoints, foldl_join_init L]
  congr 1
  exact joinList_perm L pt _ _ (flatten_perm_range len _ hp)

/-- Thanks to idempotence even overlapping ranges (every index visited at least
    once) give the same box. -/
theorem reduction_cover_independent {join : β → β → β} {empty : β} (L : JoinLaws join empty)
    (pool : Option Pool) (pt : Nat → β) (len : Nat) (box : β) (hok : PoolOK IsCover pool len) :
    boxExtendBy join empty pool pt len box = foldPoints join pt len box := by
  obtain ⟨hp, htid⟩ := effectiveScript_ok IsCover isCover_single pool len hok
  rw [boxExtendBy_eq L pool pt len box htid, foldPoints, foldl_join_init L]
  congr 1
  apply joinList_ext L
  · intro p hp'
    exact List.mem_range.mpr (mem_flatten_lt len _ hp.1 p hp')
  · intro p hp'
    have h1 := hp.2 p (List.mem_range.mp hp')
    rw [← count_flatten] at h1
    exact List.count_pos_iff.mp (by omega)

/-- `extendBy` on closed intervals (component-wise min / max, `none` the empty box)
    satisfies the three laws. -/
theorem hull_join_laws : JoinLaws hull none := hull_laws

/-- The instance used by `Box<T>::extendBy`: min/max over `Int`. -/
theorem box_extendBy_partition_independent (pool : Option Pool) (pt : Nat → IBox) (len : Nat) (box : IBox)
    (hok : PoolOK IsPartition pool len) :
    boxExtendBy hull none pool pt len box = foldPoints hull pt len box :=
  reduction_partition_independent hull_laws pool pt len box hok

/-- non-vacuity: a two-thread pool whose script reverses a cut at 200 -/
def exPool : Pool := { workers := 2, script := fun len => [⟨200, len, 1⟩, ⟨0, 200, 0⟩], inWorkerThread := false }
example : usesPool (some exPool) 201 = true ∧ 1 ≤ exPool.workers ∧ ∀ r ∈ exPool.script 201, r.tid < exPool.workers := by decide

/-- non-vacuity with REUSED worker ids (a real pool hands out more sub-ranges than it has workers):
    2 workers, 5 sub-ranges round-robin, executed in reverse order.  `PoolOK` only asks `tid < workers ()`,
    so the theorems above quantify over every assignment of worker ids to sub-ranges, repeated ids included:
    `boxes[tid]` must ACCUMULATE over all sub-ranges a worker receives (`reduceStep` joins into `P tid`). -/
def exPoolReuse : Pool :=
  { workers := 2, inWorkerThread := false,
    script := fun _ => [⟨230, 257, 0⟩, ⟨201, 230, 1⟩, ⟨86, 201, 0⟩, ⟨1, 86, 1⟩, ⟨0, 1, 0⟩] }

example : PoolOK IsPartition (some exPoolReuse) 257 := by
  intro p hp
  cases hp
  exact ⟨by decide, by decide +kernel, by decide⟩

example (pt : Nat → IBox) (box : IBox) :
    boxExtendBy hull none (some exPoolReuse) pt 257 box = foldPoints hull pt 257 box :=
  box_extendBy_partition_independent _ pt 257 box (by intro p hp; cases hp; exact ⟨by decide, by decide +kernel, by decide⟩)

/-! ## dispatchTask threshold -/

/-- The pool is used iff `length > 200`, a pool is installed and the caller is not a worker;
    either way, with an admissible script the result is that of `execute (0,len)`. -/
theorem dispatch_threshold (pool : Option Pool) (t : ElemTask α) (len : Nat) (hna : NoCrossAlias len t.w t.r)
    (hvalid : ∀ p, pool = some p → IsPartition len (p.script len)) (h : Heap α) :
    (usesPool pool len = true ↔ (len > 200 ∧ ∃ p, pool = some p ∧ p.inWorkerThread = false)) ∧
    (usesPool pool len = true → ∀ p, pool = some p → dispatchTask pool t.task len h = p.dispatch t.task len h) ∧
    (usesPool pool len = false → dispatchTask pool t.task len h = t.task 0 len 0 h) ∧
    dispatchTask pool t.task len h = t.task 0 len 0 h ∧
    dispatchTask pool t.task len h = elementwise t.step t.w len h := by
  have hiff : usesPool pool len = true ↔ (len > 200 ∧ ∃ p, pool = some p ∧ p.inWorkerThread = false) := by
    unfold usesPool minIterations
    by_cases hl : len > 200
    · cases pool with
      | none => simp [hl]
      | some p => simp [hl]
    · simp [hl]
  have huse : usesPool pool len = true → ∀ p, pool = some p → dispatchTask pool t.task len h = p.dispatch t.task len h := by
    intro hu p hp
    subst hp
    obtain ⟨hl, p', hp', hw⟩ := hiff.mp hu
    cases hp'
    simp [dispatchTask, minIterations, hl, hw]
  have hnot : usesPool pool len = false → dispatchTask pool t.task len h = t.task 0 len 0 h := by
    intro hu
    rw [dispatch_eq_runRanges]
    simp [effectiveScript, hu, runRanges]
  have hpart : IsPartition len (effectiveScript pool len) := by
    unfold effectiveScript
    by_cases hu : usesPool pool len = true
    · obtain ⟨_, p, hp, _⟩ := hiff.mp hu
      subst hp
      simpa [hu] using hvalid p rfl
    · simpa [hu] using isPartition_single len
  have hres := partition_independent t len hna _ hpart _ (List.Perm.refl _) h
  rw [← dispatch_eq_runRanges] at hres
  exact ⟨hiff, huse, hnot, hres.1, hres.2⟩

example : usesPool (some exPool) 200 = false ∧ usesPool (some exPool) 201 = true ∧
    usesPool none 1000 = false ∧ usesPool (some { exPool with inWorkerThread := true }) 1000 = false := by decide

/-! ## Length mismatch raises before any write -/

theorem foldl_matchLengths_none (l : List Measure) :
    l.foldl (fun acc x => acc.bind fun m => matchLengths m x) none = none := by
  induction l with
  | nil => rfl
  | cons x l ih => simpa using ih

theorem foldl_matchLengths_vec (n : Nat) (l : List Measure) (hex : ∃ x ∈ l, x.2 = true ∧ x.1 ≠ n) :
    l.foldl (fun acc x => acc.bind fun m => matchLengths m x) (some (n, true)) = none := by
  induction l with
  | nil => obtain ⟨x, hx, _⟩ := hex; cases hx
  | cons y l ih =>
    obtain ⟨x, hx, hx2, hx1⟩ := hex
    simp only [List.foldl_cons, Option.bind_some]
    rcases y with ⟨yl, yv⟩
    cases yv with
    | false =>
      have : matchLengths (n, true) (yl, false) = some (n, true) := by simp [matchLengths]
      rw [this]
      apply ih
      rcases List.mem_cons.mp hx with rfl | hm
      · simp at hx2
      · exact ⟨x, hm, hx2, hx1⟩
    | true =>
      by_cases hn : n = yl
      · subst hn
        have : matchLengths (n, true) (n, true) = some (n, true) := by simp [matchLengths]
        rw [this]
        apply ih
        rcases List.mem_cons.mp hx with rfl | hm
        · simp at hx1
        · exact ⟨x, hm, hx2, hx1⟩
      · have : matchLengths (n, true) (yl, true) = none := by simp [matchLengths, hn]
        rw [this]
        exact foldl_matchLengths_none l

theorem foldl_matchLengths_mismatch (m : Measure) (l : List Measure)
    (hex : ∃ x ∈ m :: l, ∃ y ∈ m :: l, x.2 = true ∧ y.2 = true ∧ x.1 ≠ y.1) :
    l.foldl (fun acc x => acc.bind fun m => matchLengths m x) (some m) = none := by
  induction l generalizing m with
  | nil =>
    obtain ⟨x, hx, y, hy, _, _, hne⟩ := hex
    simp only [List.mem_singleton] at hx hy
    subst hx; subst hy; exact absurd rfl hne
  | cons z l ih =>
    obtain ⟨x, hx, y, hy, hx2, hy2, hne⟩ := hex
    rcases m with ⟨ml, mv⟩
    cases mv with
    | true =>
      apply foldl_matchLengths_vec
      by_cases hxm : x.1 = ml
      · have hym : y.1 ≠ ml := fun e => hne (hxm.trans e.symm)
        rcases List.mem_cons.mp hy with rfl | hm
        · exact absurd rfl hym
        · exact ⟨y, hm, hy2, hym⟩
      · rcases List.mem_cons.mp hx with rfl | hm
        · exact absurd rfl hxm
        · exact ⟨x, hm, hx2, hxm⟩
    | false =>
      simp only [List.foldl_cons, Option.bind_some]
      have : matchLengths (ml, false) z = some z := by simp [matchLengths]
      rw [this]
      apply ih
      have hx' : x ∈ z :: l := by
        rcases List.mem_cons.mp hx with rfl | hm
        · simp at hx2
        · exact hm
      have hy' : y ∈ z :: l := by
        rcases List.mem_cons.mp hy with rfl | hm
        · simp at hy2
        · exact hm
      exact ⟨x, hx', y, hy', hx2, hy2, hne⟩

/-- `measure_arguments` throws as soon as two vectorised arguments differ in length. -/
theorem measureArguments_mismatch (ms : List Measure)
    (hex : ∃ x ∈ ms, ∃ y ∈ ms, x.2 = true ∧ y.2 = true ∧ x.1 ≠ y.1) : measureArguments ms = none := by
  cases ms with
  | nil => rfl
  | cons m l => simp [measureArguments, foldl_matchLengths_mismatch m l hex]

/-- Argument arrays of mismatched length raise, and the heap is exactly the
    caller's: nothing was written (the check precedes the accessors and the dispatch). -/
theorem length_mismatch_raises (pool : Option Pool) (ms : List Measure) (mk : Nat → ElemTask α) (h : Heap α)
    (hex : ∃ x ∈ ms, ∃ y ∈ ms, x.2 = true ∧ y.2 = true ∧ x.1 ≠ y.1) :
    applyVectorized pool ms mk h = (h, false) := by
  simp [applyVectorized, measureArguments_mismatch ms hex]

example : ∃ x ∈ [((201 : Nat), true), (7, false), (200, true)], ∃ y ∈ [((201 : Nat), true), (7, false), (200, true)],
    x.2 = true ∧ y.2 = true ∧ x.1 ≠ y.1 := by decide

/-- and equal lengths (scalars ignored) are accepted -/
example : measureArguments [(201, true), (1, false), (201, true)] = some 201 ∧
    measureArguments [(1, false), (1, false)] = some 1 := by decide

/-- In-place operators (`match_dimension (arg, false)`): the argument must have the
    length of self, or — when self is a masked reference — its unmasked length;
    anything else raises with the heap untouched. -/
theorem inplace_length_mismatch_raises (pool : Option Pool) (self : Access) (selfLen : Nat) (selfUnmasked : Option Nat)
    (arg : Access) (argLen : Nat) (op : List α → α) (h : Heap α)
    (h1 : selfLen ≠ argLen) (h2 : selfUnmasked ≠ some argLen) :
    applyMaskable pool self selfLen selfUnmasked arg argLen op h = (h, false) := by
  unfold applyMaskable matchDimension
  cases selfUnmasked with
  | none => simp [h1]
  | some u =>
    have : u ≠ argLen := fun e => h2 (by rw [e])
    simp [h1, this]

example : (5 : Nat) ≠ 7 ∧ (some 9 : Option Nat) ≠ some 7 := by decide


/-! ## W1 — partition independence of an ARBITRARY task from three observable laws -/

/-- For ANY task `t` (any state, `tid` may be used): if on `[0,len)`
    * an empty range does nothing (`hnil`),
    * a 2-way split equals the unsplit call, whatever thread ids the pieces get (`hsplit`),
    * two disjoint non-empty sub-ranges may be swapped (`hcomm`),
    then EVERY partition of `[0,len)` executed in EVERY order gives the result of `execute (0,len)`.
    The two families of scripts the harness runs on the real tasks (2-way split; swap of two
    sub-ranges) therefore suffice for all partitions. -/
theorem partition_independent_of_compositional (t : Task σ) (len : Nat)
    (hnil   : ∀ s tid h, t s s tid h = h)
    (hsplit : ∀ s m e tid tid' h, s ≤ m → m ≤ e → e ≤ len → t s e tid h = t m e tid' (t s m tid h))
    (hcomm  : ∀ a b c d tid tid' h, a < b → b ≤ c → c < d → d ≤ len →
                 t c d tid' (t a b tid h) = t a b tid (t c d tid' h))
    (rs : List Range) (hp : IsPartition len rs) (rs' : List Range) (hperm : rs'.Perm rs) (h : σ) :
    runRanges t rs' h = t 0 len 0 h :=
  runRanges_partitionOn t len hnil hsplit hcomm len (Nat.le_refl len) rs'.length rs' rfl 0 h (Nat.zero_le len)
    (isPartitionOn_of_isPartition len rs' (isPartition_perm len rs rs' hperm hp))

/-- The loop schema satisfies the three laws ... -/
theorem ofStep_compositional (step : Nat → Heap α → Heap α) (w : Nat → Addr) (r : Nat → List Addr)
    (fp : Footprint step w r) (len : Nat) (hna : NoCrossAlias len w r) :
    (∀ s tid h, Task.ofStep step s s tid h = h) ∧
    (∀ s m e tid tid' h, s ≤ m → m ≤ e → e ≤ len →
      Task.ofStep step s e tid h = Task.ofStep step m e tid' (Task.ofStep step s m tid h)) ∧
    (∀ a b c d tid tid' h, a < b → b ≤ c → c < d → d ≤ len →
      Task.ofStep step c d tid' (Task.ofStep step a b tid h) = Task.ofStep step a b tid (Task.ofStep step c d tid' h)) :=
  let C := compositional_ofStep fp len hna
  ⟨C.nil, C.split, C.comm⟩

/-- ... so the first conjunct of `partition_independent_footprint` is a corollary of the theorem for
    arbitrary tasks (the new theorem subsumes the schema). -/
theorem partition_independent_footprint_via_compositional (step : Nat → Heap α → Heap α) (w : Nat → Addr)
    (r : Nat → List Addr) (fp : Footprint step w r) (len : Nat) (hna : NoCrossAlias len w r)
    (rs : List Range) (hp : IsPartition len rs) (rs' : List Range) (hperm : rs'.Perm rs) (h : Heap α) :
    runRanges (Task.ofStep step) rs' h = Task.ofStep step 0 len 0 h :=
  let C := compositional_ofStep fp len hna
  partition_independent_of_compositional (Task.ofStep step) len C.nil C.split C.comm rs hp rs' hperm h

/-! ### The two slips the property names are refuted by the laws -/

/-- a task that IGNORES ITS START INDEX: `execute (start,end)` loops from 0 -/
def badIgnoreStart (step : Nat → σ → σ) : Task σ := fun _ e _ => exec step 0 e

/-- `a[i] += 1` in place (not idempotent) -/
def incTask : ElemTask Int := { ret := .direct 0 1, args := [.arr (.direct 0 1)], op := fun l => addOp l + 1 }

/-- the initial heap of the refutations: cell `x` holds `10 * x` -/
def h0 : Heap Int := ⟨fun x => 10 * (x : Int)⟩

/-- `badIgnoreStart` violates the 2-way-split law at `s=0, m=1, e=3` ... -/
theorem badIgnoreStart_refuted :
    ¬ (∀ s m e tid tid' h, s ≤ m → m ≤ e → e ≤ 3 →
        badIgnoreStart incTask.step s e tid h = badIgnoreStart incTask.step m e tid' (badIgnoreStart incTask.step s m tid h)) ∧
    IsPartition 3 [⟨0, 1, 0⟩, ⟨1, 3, 1⟩] ∧
    (runRanges (badIgnoreStart incTask.step) [⟨0, 1, 0⟩, ⟨1, 3, 1⟩] h0).get 0 = 2 ∧
    (badIgnoreStart incTask.step 0 3 0 h0).get 0 = 1 ∧
    runRanges (badIgnoreStart incTask.step) [⟨0, 1, 0⟩, ⟨1, 3, 1⟩] h0 ≠ badIgnoreStart incTask.step 0 3 0 h0 := by
  have e1 : (runRanges (badIgnoreStart incTask.step) [⟨0, 1, 0⟩, ⟨1, 3, 1⟩] h0).get 0 = 2 := by
    simp only [runRanges, List.foldl, badIgnoreStart, exec_eq_runList]; decide
  have e2 : (badIgnoreStart incTask.step 0 3 0 h0).get 0 = 1 := by
    simp only [badIgnoreStart, exec_eq_runList]; decide
  refine ⟨?_, by decide, e1, e2, ?_⟩
  · intro H
    have := congrArg (fun h => h.get 0) (H 0 1 3 0 1 h0 (by decide) (by decide) (by decide))
    have e1' : (badIgnoreStart incTask.step 1 3 1 (badIgnoreStart incTask.step 0 1 0 h0)).get 0 = 2 := e1
    simp only [e1', e2] at this
    exact absurd this (by decide)
  · intro H
    have := congrArg (fun h => h.get 0) H
    simp only [e1, e2] at this
    exact absurd this (by decide)


/-- a task that SHARES SCRATCH STATE between sub-ranges: a member `tmp` (cell 100) is set from the
    first element of the sub-range (`tmp = arg[start]`) and then used by every iteration
    (`ret[i] = arg[i] + tmp`, `ret` at 0.., `arg` at 50..). -/
def scratchStep (i : Nat) (h : Heap Int) : Heap Int := h.write i (h.get (50 + i) + h.get 100)
def badScratch : Task (Heap Int) := fun s e _ h => exec scratchStep s e (h.write 100 (h.get (50 + s)))

/-- `badScratch` violates the 2-way-split law at `s=0, m=1, e=3`, and the split run differs from the unsplit
    one in the OUTPUT cell `ret[2]` (`arg[2] + arg[1] = 1030` instead of `arg[2] + arg[0] = 1020`). -/
theorem badScratch_refuted :
    ¬ (∀ s m e tid tid' h, s ≤ m → m ≤ e → e ≤ 3 →
        badScratch s e tid h = badScratch m e tid' (badScratch s m tid h)) ∧
    IsPartition 3 [⟨0, 1, 0⟩, ⟨1, 3, 1⟩] ∧
    (runRanges badScratch [⟨0, 1, 0⟩, ⟨1, 3, 1⟩] h0).get 2 = 1030 ∧
    (badScratch 0 3 0 h0).get 2 = 1020 ∧
    runRanges badScratch [⟨0, 1, 0⟩, ⟨1, 3, 1⟩] h0 ≠ badScratch 0 3 0 h0 := by
  have e1 : (runRanges badScratch [⟨0, 1, 0⟩, ⟨1, 3, 1⟩] h0).get 2 = 1030 := by
    simp only [runRanges, List.foldl, badScratch, exec_eq_runList]; decide
  have e2 : (badScratch 0 3 0 h0).get 2 = 1020 := by
    simp only [badScratch, exec_eq_runList]; decide
  refine ⟨?_, by decide, e1, e2, ?_⟩
  · intro H
    have := congrArg (fun h => h.get 2) (H 0 1 3 0 1 h0 (by decide) (by decide) (by decide))
    have e1' : (badScratch 1 3 1 (badScratch 0 1 0 h0)).get 2 = 1030 := e1
    simp only [e1', e2] at this
    exact absurd this (by decide)
  · intro H
    have := congrArg (fun h => h.get 2) H
    simp only [e1, e2] at this
    exact absurd this (by decide)

/-- A CORRECT hand-written-style task: `tid` ignored, a per-iteration temporary only
    (`tmp = 2 * a[i]; ret[i] = tmp + b[i]`, `ret` at 0.., `a` at 100.., `b` at 200..). -/
def handStep (i : Nat) (h : Heap Int) : Heap Int :=
  let tmp := 2 * h.get (100 + i)
  h.write i (tmp + h.get (200 + i))
def handTask : Task (Heap Int) := fun s e _ h => exec handStep s e h

theorem handStep_footprint : Footprint handStep (fun i => i) (fun i => [100 + i, 200 + i]) where
  frame := by
    intro i h x hx
    simp [handStep, Heap.write, hx]
  dep := by
    intro i h h' hag
    simp only [handStep, Heap.write, if_true]
    rw [hag (100 + i) (by simp), hag (200 + i) (by simp)]

theorem handStep_noCrossAlias (len : Nat) (hl : len ≤ 100) :
    NoCrossAlias len (fun i => i) (fun i => [100 + i, 200 + i]) := by
  intro i hi j hj hij
  refine ⟨hij, ?_⟩
  simp only [List.mem_cons, List.not_mem_nil, or_false, not_or]
  show ¬ (i : Nat) = 100 + j ∧ ¬ (i : Nat) = 200 + j
  constructor <;> omega

/-- non-vacuity of `partition_independent_of_compositional`: the correct task satisfies all three laws
    (at every `len ≤ 100`), so every partition in every order gives `execute (0,len)` ... -/
theorem handTask_compositional (len : Nat) (hl : len ≤ 100) : Compositional handTask len :=
  compositional_ofStep handStep_footprint len (handStep_noCrossAlias len hl)

example (h : Heap Int) :
    runRanges handTask [⟨7, 12, 3⟩, ⟨0, 3, 1⟩, ⟨3, 3, 0⟩, ⟨3, 7, 1⟩] h = handTask 0 12 0 h :=
  let C := handTask_compositional 12 (by decide)
  partition_independent_of_compositional handTask 12 C.nil C.split C.comm _
    (by decide : IsPartition 12 [⟨0, 3, 1⟩, ⟨3, 3, 0⟩, ⟨3, 7, 1⟩, ⟨7, 12, 3⟩]) _
    (by decide) h

/-- ... and so does the vectorised loop on distinct buffers. -/
example : Compositional exDistinct.task 12 :=
  compositional_ofStep exDistinct.footprint 12 (by decide)


/-! ## W5 — the success path of what `drv_dispatch` executes -/

/-- `VectorizedFunctionN::apply` on arguments whose lengths match: the heap is the element-wise result,
    whether or not (and however) the pool splits `[0,len)`. -/
theorem applyVectorized_ok (pool : Option Pool) (ms : List Measure) (mk : Nat → ElemTask α) (h : Heap α) (len : Nat)
    (hm : measureArguments ms = some len) (hna : NoCrossAlias len (mk len).w (mk len).r)
    (hvalid : ∀ p, pool = some p → IsPartition len (p.script len)) :
    applyVectorized pool ms mk h = (elementwise (mk len).step (mk len).w len h, true) := by
  unfold applyVectorized
  rw [hm]
  simp only
  rw [(dispatch_threshold pool (mk len) len hna hvalid h).2.2.2.2]

/-- non-vacuity of `applyVectorized_ok` above the threshold: `r = a + b` on 201 elements (`r` at 0..,
    `a` at 1000.., `b` at 2000..), a scalar among the measured arguments, the two-thread pool `exPool`
    (which IS used: `usesPool (some exPool) 201 = true`). -/
def exFar : ElemTask Int := { ret := .direct 0 1, args := [.arr (.direct 1000 1), .arr (.direct 2000 1)], op := addOp }

theorem exFar_noCrossAlias : NoCrossAlias 201 exFar.w exFar.r := by
  intro i hi j hj hij
  refine ⟨?_, ?_⟩
  · show ¬ (0 + i * 1 : Nat) = 0 + j * 1
    omega
  · show ¬ (0 + i * 1 : Nat) ∈ [1000 + j * 1, 2000 + j * 1]
    simp only [List.mem_cons, List.not_mem_nil, or_false, not_or]
    constructor <;> omega

example (h : Heap Int) :
    applyVectorized (some exPool) [(201, true), (1, false), (201, true)] (fun _ => exFar) h =
      (elementwise exFar.step exFar.w 201 h, true) :=
  applyVectorized_ok (some exPool) _ (fun _ => exFar) h 201 (by decide) exFar_noCrossAlias
    (by intro p hp; cases hp; decide +kernel)

/-- `arg[i]` as the in-place task reads it -/
def maskableArg (self : Access) (selfUnmasked : Option Nat) (arg : Access) (argLen : Nat) : Access :=
  if selfUnmasked = some argLen then arg.reindex self else arg

/-- the task `VectorizedVoidMaskableMemberFunction1::apply` builds -/
def maskableTask (self : Access) (selfUnmasked : Option Nat) (arg : Access) (argLen : Nat) (op : List α → α) :
    ElemTask α :=
  { ret := self, args := [.arr self, .arr (maskableArg self selfUnmasked arg argLen)], op := op }

theorem applyMaskable_ok (pool : Option Pool) (self : Access) (selfLen : Nat) (selfUnmasked : Option Nat)
    (arg : Access) (argLen : Nat) (op : List α → α) (h : Heap α) (len : Nat)
    (hd : matchDimension selfLen selfUnmasked argLen false = some len)
    (hna : NoCrossAlias len (maskableTask self selfUnmasked arg argLen op).w (maskableTask self selfUnmasked arg argLen op).r)
    (hvalid : ∀ p, pool = some p → IsPartition len (p.script len)) :
    applyMaskable pool self selfLen selfUnmasked arg argLen op h =
      (elementwise (maskableTask self selfUnmasked arg argLen op).step (maskableTask self selfUnmasked arg argLen op).w len h,
        true) := by
  have harg : (if selfUnmasked.isSome && decide (selfUnmasked = some argLen) then arg.reindex self else arg) =
      maskableArg self selfUnmasked arg argLen := by
    unfold maskableArg
    cases selfUnmasked with
    | none => simp
    | some u => simp
  unfold applyMaskable
  rw [hd]
  simp only [harg]
  rw [← (dispatch_threshold pool (maskableTask self selfUnmasked arg argLen op) len hna hvalid h).2.2.2.2]
  rfl

/-- non-vacuity of `applyMaskable_ok`, `reindex` branch: `a[mask] += b` with `a` masked at [1,3,4,7] of
    unmasked length 10 and `b` a direct array of length 10 (so `b` is read at the raw indices) ... -/
def exHalves : Pool := { workers := 2, script := fun len => [⟨len / 2, len, 1⟩, ⟨0, len / 2, 0⟩], inWorkerThread := false }

example (h : Heap Int) :
    applyMaskable (some exHalves) (.masked 0 1 [1, 3, 4, 7]) 4 (some 10) (.direct 100 1) 10 addOp h =
      (elementwise (maskableTask (.masked 0 1 [1, 3, 4, 7]) (some 10) (.direct 100 1) 10 addOp).step
        (maskableTask (.masked 0 1 [1, 3, 4, 7]) (some 10) (.direct 100 1) 10 addOp (α := Int)).w 4 h, true) :=
  applyMaskable_ok (some exHalves) _ 4 (some 10) _ 10 addOp h 4 (by decide) (by decide)
    (by intro p hp; cases hp; decide)

/-- ... and the plain branch (argument of the masked length). -/
example (h : Heap Int) :
    (applyMaskable none (.masked 0 1 [1, 3, 4, 7]) 4 (some 10) (.direct 100 1) 4 addOp h).2 = true :=
  congrArg Prod.snd (applyMaskable_ok none (.masked 0 1 [1, 3, 4, 7]) 4 (some 10) (.direct 100 1) 4 addOp h 4
    (by decide) (by decide) (by intro p hp; cases hp))

/-- The accessor built for the masked branch reads `arg[self.raw_ptr_index (i)]`
    (the line seed mutation C20-2 broke). -/
theorem Access.reindex_loc (arg self : Access) (i : Nat)
    (hi : match self with | .masked _ _ idx => i < idx.length | .direct _ _ => True) :
    (arg.reindex self).loc i = arg.loc (self.rawIndex i) := by
  cases self with
  | direct b s => cases arg <;> rfl
  | masked b s idx =>
    cases arg with
    | direct b2 s2 => rfl
    | masked b2 s2 idx2 =>
      simp only at hi
      simp [Access.reindex, Access.loc, Access.rawIndex, List.getD_eq_getElem?_getD, hi]

example :
    ((Access.masked 300 2 [4, 0, 9, 7, 1, 5, 3, 8, 2, 6]).reindex (Access.masked 0 1 [1, 3, 4, 7])).loc 2 = 302 ∧
    (Access.masked 300 2 [4, 0, 9, 7, 1, 5, 3, 8, 2, 6]).loc ((Access.masked 0 1 [1, 3, 4, 7]).rawIndex 2) = 302 ∧
    (2 : Nat) < [1, 3, 4, 7].length := by decide

/-- without the bound the statement is false (masked self, masked arg, `i` past the mask) -/
example : ((Access.masked 300 2 [4, 0, 9]).reindex (Access.masked 0 1 [1])).loc 5 ≠
    (Access.masked 300 2 [4, 0, 9]).loc ((Access.masked 0 1 [1]).rawIndex 5) := by decide

/-- End to end for the in-place operators, including the `reindex` branch: after `self op= arg`
    cell `self[i]` holds `op (self[i], arg[k])` of the ORIGINAL heap where `k = self.raw_ptr_index (i)`
    when self is a masked reference and `arg` has its unmasked length, and `k = i` otherwise. -/
theorem applyMaskable_ok_cell (pool : Option Pool) (self : Access) (selfLen : Nat) (selfUnmasked : Option Nat)
    (arg : Access) (argLen : Nat) (op : List α → α) (h : Heap α) (len : Nat)
    (i : Nat) (hi : i < len) (hm : match self with | .masked _ _ idx => i < idx.length | .direct _ _ => True)
    (hd : matchDimension selfLen selfUnmasked argLen false = some len)
    (hna : NoCrossAlias len (maskableTask self selfUnmasked arg argLen op).w (maskableTask self selfUnmasked arg argLen op).r)
    (hvalid : ∀ p, pool = some p → IsPartition len (p.script len)) :
    (applyMaskable pool self selfLen selfUnmasked arg argLen op h).1.get (self.loc i) =
      op [h.get (self.loc i),
          h.get (arg.loc (if selfUnmasked = some argLen then self.rawIndex i else i))] := by
  rw [applyMaskable_ok pool self selfLen selfUnmasked arg argLen op h len hd hna hvalid]
  have := (elementwise_spec (maskableTask self selfUnmasked arg argLen op) len hna h).1 i hi
  simp only [maskableTask] at this ⊢
  rw [this]
  simp only [List.map, Arg.read, maskableArg]
  by_cases hc : selfUnmasked = some argLen
  · rw [if_pos hc, if_pos hc, Access.reindex_loc arg self i hm]
  · rw [if_neg hc, if_neg hc]

/-! ## W6 — `NoCrossAlias` from what Python can build -/

theorem loc_injective_direct (b s : Nat) (hs : 0 < s) (i j : Nat) (hij : i ≠ j) :
    (Access.direct b s).loc i ≠ (Access.direct b s).loc j := by
  intro e
  have e' : b + i * s = b + j * s := e
  exact hij (Nat.eq_of_mul_eq_mul_right hs (Nat.add_left_cancel e'))

theorem loc_injective_masked (b s : Nat) (idx : List Nat) (hs : 0 < s) (hnd : idx.Nodup) (i j : Nat)
    (hi : i < idx.length) (hj : j < idx.length) (hij : i ≠ j) :
    (Access.masked b s idx).loc i ≠ (Access.masked b s idx).loc j := by
  intro e
  have e' : b + idx.getD i 0 * s = b + idx.getD j 0 * s := e
  simp only [List.getD_eq_getElem?_getD, List.getElem?_eq_getElem hi, List.getElem?_eq_getElem hj,
    Option.getD_some] at e'
  have h2 : idx[i] = idx[j] := Nat.eq_of_mul_eq_mul_right hs (Nat.add_left_cancel e')
  exact hij ((List.Nodup.getElem_inj_iff hnd).mp h2)

/-- non-vacuity: a strided view and a mask with distinct indices; a mask with a repeated index is not injective -/
example : (0 : Nat) < 3 ∧ [1, 3, 4, 7].Nodup ∧ (2 : Nat) < [1, 3, 4, 7].length ∧
    (Access.masked 10 3 [1, 3, 4, 7]).loc 1 = 19 ∧ (Access.masked 10 3 [1, 3, 4, 7]).loc 2 = 22 ∧
    (Access.masked 10 3 [1, 3, 3, 7]).loc 1 = (Access.masked 10 3 [1, 3, 3, 7]).loc 2 := by decide

/-- What an accessor made from a FixedArray of length ≥ `len` looks like: positive stride; a mask holds
    distinct raw indices (`FixedArray (FixedArray&, mask)` collects the positions where the mask is set). -/
def Access.WellFormed (a : Access) (len : Nat) : Prop :=
  match a with
  | .direct _ s => 0 < s
  | .masked _ s idx => 0 < s ∧ idx.Nodup ∧ len ≤ idx.length

instance (a : Access) (len : Nat) : Decidable (a.WellFormed len) := by
  unfold Access.WellFormed; cases a <;> exact inferInstance

theorem loc_injective_of_wellFormed (a : Access) (len : Nat) (hwf : a.WellFormed len) (i : Nat) (hi : i < len) (j : Nat)
    (hj : j < len) (hij : i ≠ j) : a.loc i ≠ a.loc j := by
  cases a with
  | direct b s => exact loc_injective_direct b s hwf i j hij
  | masked b s idx =>
    obtain ⟨hs, hnd, hl⟩ := hwf
    exact loc_injective_masked b s idx hs hnd i j (by omega) (by omega) hij

/-- The result array is a fresh allocation (every non-in-place operator): `ret` is injective and no
    argument touches a cell of it. -/
theorem noCrossAlias_fresh_ret (t : ElemTask α) (len : Nat)
    (hinj : ∀ i, i < len → ∀ j, j < len → i ≠ j → t.ret.loc i ≠ t.ret.loc j)
    (hfresh : ∀ acc, Arg.arr acc ∈ t.args → ∀ i, i < len → ∀ j, j < len → acc.loc j ≠ t.ret.loc i) :
    NoCrossAlias len t.w t.r :=
  noCrossAlias_of t len hinj (fun acc ha => Or.inr (hfresh acc ha))

/-- ... as Python builds it: `ret = FixedArray (len)` is a direct stride-1 accessor on a new buffer
    `[b, b+len)` that no argument cell lies in. -/
theorem noCrossAlias_fresh_direct (t : ElemTask α) (len b : Nat) (hret : t.ret = .direct b 1)
    (hfresh : ∀ acc, Arg.arr acc ∈ t.args → ∀ j, j < len → acc.loc j < b ∨ b + len ≤ acc.loc j) :
    NoCrossAlias len t.w t.r := by
  apply noCrossAlias_fresh_ret t len
  · rw [hret]; intro i _ j _ hij; exact loc_injective_direct b 1 (by decide) i j hij
  · intro acc ha i hi j hj
    rw [hret]
    intro e
    have e' : @Eq Nat (acc.loc j) (b + i * 1) := e
    have hh : @LT.lt Nat _ (acc.loc j) b ∨ @LE.le Nat _ (b + len) (acc.loc j) := hfresh acc ha j hj
    omega

/-- In-place operators as Python builds them: `self` is a direct (strided) or masked view with distinct
    mask indices, every array argument is `self` itself or does not touch a cell of `self`. -/
theorem noCrossAlias_inplace (t : ElemTask α) (len : Nat) (hwf : t.ret.WellFormed len)
    (hargs : ∀ acc, Arg.arr acc ∈ t.args →
      acc = t.ret ∨ ∀ i, i < len → ∀ j, j < len → acc.loc j ≠ t.ret.loc i) :
    NoCrossAlias len t.w t.r :=
  noCrossAlias_of t len (loc_injective_of_wellFormed t.ret len hwf) hargs

/-- non-vacuity: `exDistinct` is the fresh-result case, `exMasked` the in-place case -/
example : NoCrossAlias 12 exDistinct.w exDistinct.r :=
  noCrossAlias_fresh_direct exDistinct 12 0 rfl (by
    intro acc ha j hj
    simp only [exDistinct, List.mem_cons, Arg.arr.injEq, List.not_mem_nil, or_false] at ha
    rcases ha with rfl | rfl <;> (right; show (0 : Nat) + 12 ≤ _ + j * 1; omega))

example : exMasked.ret.WellFormed 4 ∧
    ∀ acc, Arg.arr acc ∈ exMasked.args →
      acc = exMasked.ret ∨ ∀ i, i < 4 → ∀ j, j < 4 → acc.loc j ≠ exMasked.ret.loc i := by
  refine ⟨by decide, ?_⟩
  intro acc ha
  simp only [exMasked, List.mem_cons, Arg.arr.injEq, List.not_mem_nil, or_false, reduceCtorEq] at ha
  rcases ha with rfl | rfl
  · left; rfl
  · right; decide

/-- Cross-aliased MASKED views of one buffer (`a[m1] += a[m2]` with overlapping, shifted masks; the
    `probe_cross_aliased_masked_views` case of the harness) are OUTSIDE the property's quantifier ... -/
def exCrossMasked : ElemTask Int :=
  let self := Access.masked 0 1 [1, 2, 3]
  { ret := self, args := [.arr self, .arr (.masked 0 1 [0, 1, 2])], op := addOp }
example : ¬ NoCrossAlias 3 exCrossMasked.w exCrossMasked.r := by decide

/-- ... and genuinely order dependent: cell 3 holds 4 after `execute (0,3)` on `a = [1,1,1,1]`, 2 when the
    sub-ranges run in reverse order. -/
example :
    (exCrossMasked.task 0 3 0 ⟨fun _ => 1⟩).get 3 = 4 ∧
    (runRanges exCrossMasked.task [⟨2, 3, 0⟩, ⟨1, 2, 1⟩, ⟨0, 1, 2⟩] ⟨fun _ => 1⟩).get 3 = 2 ∧
    IsPartition 3 [⟨2, 3, 0⟩, ⟨1, 2, 1⟩, ⟨0, 1, 2⟩] := by
  refine ⟨?_, ?_, by decide⟩
  · simp only [ElemTask.task, Task.ofStep, exec_eq_runList]; decide
  · simp only [runRanges, List.foldl, ElemTask.task, Task.ofStep, exec_eq_runList]; decide

end ImathVerif.Dispatch
