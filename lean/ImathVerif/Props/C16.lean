import ImathVerif.Lemmas.C16Lemmas
import ImathVerif.Lemmas.C16LenReal
import ImathVerif.Spec.MatSpec
import ImathVerif.Gen.C05
import ImathVerif.Gen.C16Frustum
import ImathVerif.Gen.C16PlanesM
import ImathVerif.Gen.C16Test
import Mathlib.Analysis.SpecialFunctions.Trigonometric.Arctan
/-!
# C16 — Frustum projection, depth mapping, planes and culling are mutually consistent

`Gen.Frustum.*` / `Gen.FrustumTest.*` (Gen/C16Frustum.lean, Gen/C16Test.lean) are regenerated on every run from
ImathFrustum.h / ImathFrustumTest.h by instantiating the real templates at the symbolic scalar.  A frustum is its six
scalars `n f l r t b` (near, far, left, right, top, bottom); the perspective and orthographic bodies are separate
textual copies in the source and are extracted and proved separately (`…_persp`, `…_ortho`).  All statements are over an
arbitrary ordered field.  Imath's camera looks down −z.

Hand model (H-route, Gen/C16PlanesM.lean, emitted from the transcript in harness/sym/c16_hand.h and tied to the real
code by bitwise translation validation at double on every run): `planes (p, M)` (`double (_nearPlane)` cannot be
instantiated symbolically).  `depthToZp`, the real-valued core of `DepthToZ`, is also emitted from a transcript, but it is
PROVED (Props/C16Z.lean `depthToZp_*_real_body`) equal to the operand of the `long (…)` cast of the real body, which is
extracted as `Gen.Frustum.DepthToZ_*_3_10`.  The machine-integer parts of `ZToDepth`/`DepthToZ` are in Props/C16Z.lean;
the culling clauses stated about the frustum itself, unit normals of `planes (p, M)`, mirrored camera matrices and
evaluated witnesses are in Props/C16Cull.lean.  All rounding is measured by harness/corr/c16_corr.cpp, never proved.

`Vec3::length` is an opaque call of `Gen.V3.length`; theorems that depend on normalisation take the hypothesis
`LenSpec (Gen.V3.length tmin tmax sqrt)` (non-negative, squares to the sum of squares), shown satisfiable at the end.
-/
set_option linter.unusedSimpArgs false
set_option linter.unusedSectionVars false
set_option linter.unusedVariables false
set_option linter.unusedTactic false
set_option linter.unreachableTactic false
namespace ImathVerif.C16
open ImathVerif ImathVerif.FrustumSpec
variable {α : Type} [Field α] [LinearOrder α] [IsStrictOrderedRing α]

/-! ## constructor, set, accessors -/
theorem ctor_persp (n f l r t b : α) : Gen.Frustum.ctor_persp n f l r t b = (n, f, l, r, t, b, false) := rfl
theorem ctor_ortho (n f l r t b : α) : Gen.Frustum.ctor_ortho n f l r t b = (n, f, l, r, t, b, true) := rfl
theorem set_persp (n f l r t b n2 f2 l2 r2 t2 b2 : α) :
    Gen.Frustum.set_persp n f l r t b n2 f2 l2 r2 t2 b2 = (n2, f2, l2, r2, t2, b2, false) := rfl
theorem set_ortho (n f l r t b n2 f2 l2 r2 t2 b2 : α) :
    Gen.Frustum.set_ortho n f l r t b n2 f2 l2 r2 t2 b2 = (n2, f2, l2, r2, t2, b2, true) := rfl
theorem setOrthographic_persp (n f l r t b : α) : Gen.Frustum.setOrthographic_persp n f l r t b = (n, f, l, r, t, b, false) := rfl
theorem setOrthographic_ortho (n f l r t b : α) : Gen.Frustum.setOrthographic_ortho n f l r t b = (n, f, l, r, t, b, true) := rfl
theorem degenerate_persp (n f l r t b : α) : Gen.Frustum.degenerate_persp n f l r t b = true ↔ (n = f ∨ l = r ∨ t = b) := by
  simp only [Gen.Frustum.degenerate_persp]; split_ifs <;> simp_all
theorem degenerate_ortho (n f l r t b : α) : Gen.Frustum.degenerate_ortho n f l r t b = true ↔ (n = f ∨ l = r ∨ t = b) := by
  simp only [Gen.Frustum.degenerate_ortho]; split_ifs <;> simp_all

/-! ## projectionMatrix: the eight frustum corners go to the corners of [-1,1]³ -/
theorem projectionMatrix_persp_corners (n f l r t b : α) (hn : n ≠ 0) (hf : f ≠ 0) (hnf : n ≠ f) (hlr : l ≠ r) (hbt : b ≠ t)
    (cx cy cz : Bool) :
    Gen.V3.mulM44 ⟨sel cx l r * (sel cz n f / n), sel cy b t * (sel cz n f / n), -(sel cz n f)⟩
        (Gen.Frustum.projectionMatrix_persp n f l r t b)
      = ⟨sel cx (-1) 1, sel cy (-1) 1, sel cz (-1) 1⟩ := by
  have h1 : r - l ≠ 0 := sub_ne_zero.mpr (Ne.symm hlr)
  have h2 : t - b ≠ 0 := sub_ne_zero.mpr (Ne.symm hbt)
  have h3 : f - n ≠ 0 := sub_ne_zero.mpr (Ne.symm hnf)
  cases cx <;> cases cy <;> cases cz <;>
    simp only [Gen.V3.mulM44, Gen.Frustum.projectionMatrix_persp, sel, if_true, if_false, Bool.false_eq_true, div_self hn, mul_one] <;>
    (simp only [mul_zero, zero_mul, add_zero, zero_add, mul_neg, mul_one, neg_neg, neg_mul] ; congr 1 <;> field_simp <;> ring)
theorem projectionMatrix_ortho_corners (n f l r t b : α) (hnf : n ≠ f) (hlr : l ≠ r) (hbt : b ≠ t)
    (cx cy cz : Bool) :
    Gen.V3.mulM44 ⟨sel cx l r, sel cy b t, -(sel cz n f)⟩ (Gen.Frustum.projectionMatrix_ortho n f l r t b)
      = ⟨sel cx (-1) 1, sel cy (-1) 1, sel cz (-1) 1⟩ := by
  have h1 : r - l ≠ 0 := sub_ne_zero.mpr (Ne.symm hlr)
  have h2 : t - b ≠ 0 := sub_ne_zero.mpr (Ne.symm hbt)
  have h3 : f - n ≠ 0 := sub_ne_zero.mpr (Ne.symm hnf)
  cases cx <;> cases cy <;> cases cz <;>
    simp only [Gen.V3.mulM44, Gen.Frustum.projectionMatrix_ortho, sel, if_true, if_false, Bool.false_eq_true] <;>
    (simp only [mul_zero, zero_mul, add_zero, zero_add, mul_neg, mul_one, neg_neg, neg_mul] ; congr 1 <;> field_simp <;> ring)

/-- Mathlib reading of `Vec3 * Matrix44` (as in C05): append 1, multiply the row vector, divide by the homogeneous coordinate -/
theorem V3_mulM44_homog (v : V3 α) (m : M44 α) :
    Gen.V3.mulM44 v m = ⟨(Matrix.vecMul v.homog m.toMat) 0 / (Matrix.vecMul v.homog m.toMat) 3,
      (Matrix.vecMul v.homog m.toMat) 1 / (Matrix.vecMul v.homog m.toMat) 3,
      (Matrix.vecMul v.homog m.toMat) 2 / (Matrix.vecMul v.homog m.toMat) 3⟩ := by
  simp [Gen.V3.mulM44, V3.homog, M44.toMat, Matrix.vecMul, dotProduct, Fin.sum_univ_four]
/-- the corner theorems in Mathlib's terms -/
theorem projectionMatrix_persp_corners_homog (n f l r t b : α) (hn : n ≠ 0) (hf : f ≠ 0) (hnf : n ≠ f) (hlr : l ≠ r) (hbt : b ≠ t)
    (cx cy cz : Bool) :
    let h := Matrix.vecMul (V3.homog ⟨sel cx l r * (sel cz n f / n), sel cy b t * (sel cz n f / n), -(sel cz n f)⟩)
      (Gen.Frustum.projectionMatrix_persp n f l r t b).toMat
    (⟨h 0 / h 3, h 1 / h 3, h 2 / h 3⟩ : V3 α) = ⟨sel cx (-1) 1, sel cy (-1) 1, sel cz (-1) 1⟩ := by
  intro h
  rw [← projectionMatrix_persp_corners n f l r t b hn hf hnf hlr hbt cx cy cz, V3_mulM44_homog]
theorem projectionMatrix_ortho_corners_homog (n f l r t b : α) (hnf : n ≠ f) (hlr : l ≠ r) (hbt : b ≠ t) (cx cy cz : Bool) :
    let h := Matrix.vecMul (V3.homog ⟨sel cx l r, sel cy b t, -(sel cz n f)⟩) (Gen.Frustum.projectionMatrix_ortho n f l r t b).toMat
    (⟨h 0 / h 3, h 1 / h 3, h 2 / h 3⟩ : V3 α) = ⟨sel cx (-1) 1, sel cy (-1) 1, sel cz (-1) 1⟩ := by
  intro h
  rw [← projectionMatrix_ortho_corners n f l r t b hnf hlr hbt cx cy cz, V3_mulM44_homog]

/-! ## projectPointToScreen, projectScreenToRay, screenToLocal / localToScreen -/
theorem projectPointToScreen_persp (n f l r t b : α) (hlr : l ≠ r) (hbt : b ≠ t) (p : V3 α) (hz : p.z ≠ 0) :
    Gen.Frustum.projectPointToScreen_persp n f l r t b p =
      ⟨(Gen.V3.mulM44 p (Gen.Frustum.projectionMatrix_persp n f l r t b)).x,
       (Gen.V3.mulM44 p (Gen.Frustum.projectionMatrix_persp n f l r t b)).y⟩ := by
  have h1 : r - l ≠ 0 := sub_ne_zero.mpr (Ne.symm hlr)
  have h2 : t - b ≠ 0 := sub_ne_zero.mpr (Ne.symm hbt)
  have h1' : l - r ≠ 0 := sub_ne_zero.mpr hlr
  have h2' : b - t ≠ 0 := sub_ne_zero.mpr hbt
  simp only [Gen.Frustum.projectPointToScreen_persp, Gen.V3.mulM44, Gen.Frustum.projectionMatrix_persp, if_neg hz]
  simp only [mul_zero, zero_mul, add_zero, zero_add, mul_neg, mul_one, neg_neg, neg_mul]
  congr 1 <;> field_simp <;> ring
theorem projectPointToScreen_ortho (n f l r t b : α) (hlr : l ≠ r) (hbt : b ≠ t) (p : V3 α) :
    Gen.Frustum.projectPointToScreen_ortho n f l r t b p =
      ⟨(Gen.V3.mulM44 p (Gen.Frustum.projectionMatrix_ortho n f l r t b)).x,
       (Gen.V3.mulM44 p (Gen.Frustum.projectionMatrix_ortho n f l r t b)).y⟩ := by
  have h1 : r - l ≠ 0 := sub_ne_zero.mpr (Ne.symm hlr)
  have h2 : t - b ≠ 0 := sub_ne_zero.mpr (Ne.symm hbt)
  have h1' : l - r ≠ 0 := sub_ne_zero.mpr hlr
  have h2' : b - t ≠ 0 := sub_ne_zero.mpr hbt
  simp only [Gen.Frustum.projectPointToScreen_ortho, Gen.V3.mulM44, Gen.Frustum.projectionMatrix_ortho]
  simp only [mul_zero, zero_mul, add_zero, zero_add, mul_neg, mul_one, neg_neg, neg_mul, div_one]
  congr 1 <;> field_simp <;> ring
theorem localToScreen_screenToLocal (n f l r t b : α) (hlr : l ≠ r) (hbt : b ≠ t) (s : V2 α) :
    Gen.Frustum.localToScreen_persp n f l r t b (Gen.Frustum.screenToLocal_persp n f l r t b s) = s := by
  have h1' : l - r ≠ 0 := sub_ne_zero.mpr hlr
  have h2' : b - t ≠ 0 := sub_ne_zero.mpr hbt
  simp only [Gen.Frustum.localToScreen_persp, Gen.Frustum.screenToLocal_persp]
  rcases s with ⟨sx, sy⟩
  congr 1 <;> field_simp <;> ring
theorem screenToLocal_localToScreen (n f l r t b : α) (hlr : l ≠ r) (hbt : b ≠ t) (p : V2 α) :
    Gen.Frustum.screenToLocal_persp n f l r t b (Gen.Frustum.localToScreen_persp n f l r t b p) = p := by
  have h1' : l - r ≠ 0 := sub_ne_zero.mpr hlr
  have h2' : b - t ≠ 0 := sub_ne_zero.mpr hbt
  simp only [Gen.Frustum.localToScreen_persp, Gen.Frustum.screenToLocal_persp]
  rcases p with ⟨px, py⟩
  congr 1 <;> field_simp <;> ring
theorem screenToLocal_ortho_eq (n f l r t b : α) (s : V2 α) :
    Gen.Frustum.screenToLocal_ortho n f l r t b s = Gen.Frustum.screenToLocal_persp n f l r t b s := rfl
theorem localToScreen_ortho_eq (n f l r t b : α) (p : V2 α) :
    Gen.Frustum.localToScreen_ortho n f l r t b p = Gen.Frustum.localToScreen_persp n f l r t b p := rfl
/-- screen corners ↔ window corners -/
theorem screenToLocal_corners (n f l r t b : α) (cx cy : Bool) :
    Gen.Frustum.screenToLocal_persp n f l r t b ⟨sel cx (-1) 1, sel cy (-1) 1⟩ = ⟨sel cx l r, sel cy b t⟩ := by
  cases cx <;> cases cy <;> simp only [Gen.Frustum.screenToLocal_persp, sel, if_true, if_false, Bool.false_eq_true] <;>
    (congr 1 <;> ring)
/-- shape of the perspective ray: through the eye, along a non-zero multiple of (window point, −n) -/
theorem projectScreenToRay_persp_shape (tmin tmax : α) (sqrt : α → α) (n f l r t b : α) (s : V2 α) :
    ∃ k : α, k ≠ 0 ∧ Gen.Frustum.projectScreenToRay_persp tmin tmax sqrt n f l r t b s =
      ⟨⟨0, 0, 0⟩, ⟨(Gen.Frustum.screenToLocal_persp n f l r t b s).x * k,
                  (Gen.Frustum.screenToLocal_persp n f l r t b s).y * k, -n * k⟩⟩ := by
  simp only [Gen.Frustum.projectScreenToRay_persp, Gen.Frustum.screenToLocal_persp]
  split_ifs with h0
  · exact ⟨1, one_ne_zero, by simp only [sub_zero, mul_one]⟩
  · exact ⟨_, inv_ne_zero h0, by simp only [sub_zero, div_eq_mul_inv]⟩
theorem projectScreenToRay_ortho_shape (tmin tmax : α) (sqrt : α → α) (n f l r t b : α) (s : V2 α) :
    ∃ k : α, k ≠ 0 ∧ Gen.Frustum.projectScreenToRay_ortho tmin tmax sqrt n f l r t b s =
      ⟨⟨(Gen.Frustum.screenToLocal_persp n f l r t b s).x, (Gen.Frustum.screenToLocal_persp n f l r t b s).y, 0⟩,
       ⟨0, 0, -k⟩⟩ := by
  simp only [Gen.Frustum.projectScreenToRay_ortho, Gen.Frustum.screenToLocal_persp]
  split_ifs with h0
  · exact ⟨1, one_ne_zero, by simp only [sub_zero, sub_self]⟩
  · exact ⟨_, inv_ne_zero h0, by simp only [sub_zero, sub_self, zero_div, zero_mul, div_eq_mul_inv, neg_mul, one_mul]⟩
theorem projectScreenToRay_persp_projects (tmin tmax : α) (sqrt : α → α) (n f l r t b : α) (hn : n ≠ 0) (hlr : l ≠ r) (hbt : b ≠ t)
    (s : V2 α) (u : α)
    (hz : (linePoint (Gen.Frustum.projectScreenToRay_persp tmin tmax sqrt n f l r t b s) u).z ≠ 0) :
    Gen.Frustum.projectPointToScreen_persp n f l r t b
      (linePoint (Gen.Frustum.projectScreenToRay_persp tmin tmax sqrt n f l r t b s) u) = s := by
  have h1' : l - r ≠ 0 := sub_ne_zero.mpr hlr
  have h2' : b - t ≠ 0 := sub_ne_zero.mpr hbt
  obtain ⟨k, hk, hL⟩ := projectScreenToRay_persp_shape tmin tmax sqrt n f l r t b s
  rw [hL] at hz ⊢
  rcases s with ⟨sx, sy⟩
  simp only [linePoint, zero_add] at hz
  have hu : u ≠ 0 := by rintro rfl; exact hz (by ring)
  simp only [Gen.Frustum.projectPointToScreen_persp, linePoint, zero_add, if_neg hz, Gen.Frustum.screenToLocal_persp]
  congr 1 <;> field_simp <;> ring
theorem projectScreenToRay_persp_complete (tmin tmax : α) (sqrt : α → α) (n f l r t b : α) (hn : n ≠ 0) (hlr : l ≠ r) (hbt : b ≠ t)
    (s : V2 α) (q : V3 α) (hz : q.z ≠ 0) (hq : Gen.Frustum.projectPointToScreen_persp n f l r t b q = s) :
    ∃ u, linePoint (Gen.Frustum.projectScreenToRay_persp tmin tmax sqrt n f l r t b s) u = q := by
  have h1' : l - r ≠ 0 := sub_ne_zero.mpr hlr
  have h2' : b - t ≠ 0 := sub_ne_zero.mpr hbt
  obtain ⟨k, hk, hL⟩ := projectScreenToRay_persp_shape tmin tmax sqrt n f l r t b s
  rw [hL]
  subst hq
  rcases q with ⟨qx, qy, qz⟩
  simp only at hz
  refine ⟨-qz / (n * k), ?_⟩
  simp only [Gen.Frustum.projectPointToScreen_persp, linePoint, zero_add, if_neg hz, Gen.Frustum.screenToLocal_persp]
  congr 1 <;> field_simp <;> ring
theorem projectScreenToRay_ortho_projects (tmin tmax : α) (sqrt : α → α) (n f l r t b : α) (hlr : l ≠ r) (hbt : b ≠ t)
    (s : V2 α) (u : α) :
    Gen.Frustum.projectPointToScreen_ortho n f l r t b
      (linePoint (Gen.Frustum.projectScreenToRay_ortho tmin tmax sqrt n f l r t b s) u) = s := by
  have h1' : l - r ≠ 0 := sub_ne_zero.mpr hlr
  have h2' : b - t ≠ 0 := sub_ne_zero.mpr hbt
  obtain ⟨k, hk, hL⟩ := projectScreenToRay_ortho_shape tmin tmax sqrt n f l r t b s
  rw [hL]
  rcases s with ⟨sx, sy⟩
  simp only [Gen.Frustum.projectPointToScreen_ortho, linePoint, zero_mul, add_zero, Gen.Frustum.screenToLocal_persp]
  congr 1 <;> field_simp <;> ring
theorem projectScreenToRay_ortho_complete (tmin tmax : α) (sqrt : α → α) (n f l r t b : α) (hlr : l ≠ r) (hbt : b ≠ t)
    (s : V2 α) (q : V3 α) (hq : Gen.Frustum.projectPointToScreen_ortho n f l r t b q = s) :
    ∃ u, linePoint (Gen.Frustum.projectScreenToRay_ortho tmin tmax sqrt n f l r t b s) u = q := by
  have h1' : l - r ≠ 0 := sub_ne_zero.mpr hlr
  have h2' : b - t ≠ 0 := sub_ne_zero.mpr hbt
  obtain ⟨k, hk, hL⟩ := projectScreenToRay_ortho_shape tmin tmax sqrt n f l r t b s
  rw [hL]
  subst hq
  rcases q with ⟨qx, qy, qz⟩
  refine ⟨-qz / k, ?_⟩
  simp only [Gen.Frustum.projectPointToScreen_ortho, linePoint, zero_mul, add_zero, zero_add, Gen.Frustum.screenToLocal_persp]
  congr 1 <;> field_simp <;> ring

/-! ## depth: normalizedZToDepth, DepthToZ's Zp, the matrix's depth -/
theorem normalizedZToDepth_persp_depthToZp (n f l r t b d : α) (hn : n ≠ 0) (hf : f ≠ 0) (hnf : n ≠ f) (hd : d ≠ 0) :
    Gen.Frustum.normalizedZToDepth_persp n f l r t b ((Gen.Frustum.depthToZp_persp n f l r t b d + 1) / 2) = d := by
  have h3 : f - n ≠ 0 := sub_ne_zero.mpr (Ne.symm hnf)
  simp only [Gen.Frustum.normalizedZToDepth_persp, Gen.Frustum.depthToZp_persp]
  have : ((2 * f * n / d + f + n) / (f - n) + 1) / 2 * 2 - 1 = (2 * f * n / d + f + n) / (f - n) := by ring
  rw [this, div_mul_cancel₀ _ h3]
  have : 2 * f * n / d + f + n - f - n = 2 * f * n / d := by ring
  rw [this]
  field_simp
theorem depthToZp_persp_normalizedZToDepth (n f l r t b z : α) (hn : n ≠ 0) (hf : f ≠ 0) (hnf : n ≠ f)
    (hD : (z * 2 - 1) * (f - n) - f - n ≠ 0) :
    (Gen.Frustum.depthToZp_persp n f l r t b (Gen.Frustum.normalizedZToDepth_persp n f l r t b z) + 1) / 2 = z := by
  have h3 : f - n ≠ 0 := sub_ne_zero.mpr (Ne.symm hnf)
  simp only [Gen.Frustum.normalizedZToDepth_persp, Gen.Frustum.depthToZp_persp]
  have h2fn : 2 * f * n ≠ 0 := mul_ne_zero (mul_ne_zero two_ne_zero hf) hn
  rw [div_div_eq_mul_div, mul_div_cancel_left₀ _ h2fn]
  field_simp
  ring
/-- inside a proper frustum every normalised depth ≤ 1 (in particular every one in [0,1]) is finite -/
theorem normalizedZToDepth_persp_defined (n f z : α) (hn : 0 < n) (hnf : n < f) (hz1 : z ≤ 1) :
    (z * 2 - 1) * (f - n) - f - n ≠ 0 := by
  have : (z * 2 - 1) * (f - n) ≤ 1 * (f - n) := mul_le_mul_of_nonneg_right (by linarith) (by linarith)
  intro h; linarith
/-- the depth produced by the projection matrix is DepthToZ's `Zp` -/
theorem projectionMatrix_persp_depth (n f l r t b : α) (hnf : n ≠ f) (p : V3 α) (hz : p.z ≠ 0) :
    (Gen.V3.mulM44 p (Gen.Frustum.projectionMatrix_persp n f l r t b)).z = Gen.Frustum.depthToZp_persp n f l r t b p.z := by
  have h3 : f - n ≠ 0 := sub_ne_zero.mpr (Ne.symm hnf)
  simp only [Gen.V3.mulM44, Gen.Frustum.projectionMatrix_persp, Gen.Frustum.depthToZp_persp]
  simp only [mul_zero, zero_mul, add_zero, zero_add, mul_neg, mul_one, neg_neg, neg_mul]
  field_simp
  ring
/-- … and normalizedZToDepth inverts it: the point at depth `normalizedZToDepth z` has matrix depth `2z − 1` -/
theorem projectionMatrix_persp_normalizedZ (n f l r t b x y z : α) (hn : n ≠ 0) (hf : f ≠ 0) (hnf : n ≠ f)
    (hD : (z * 2 - 1) * (f - n) - f - n ≠ 0) :
    (Gen.V3.mulM44 ⟨x, y, Gen.Frustum.normalizedZToDepth_persp n f l r t b z⟩ (Gen.Frustum.projectionMatrix_persp n f l r t b)).z
      = 2 * z - 1 := by
  have hz : Gen.Frustum.normalizedZToDepth_persp n f l r t b z ≠ 0 := by
    simp only [Gen.Frustum.normalizedZToDepth_persp]
    exact div_ne_zero (mul_ne_zero (mul_ne_zero two_ne_zero hf) hn) hD
  rw [projectionMatrix_persp_depth n f l r t b hnf _ hz]
  have := depthToZp_persp_normalizedZToDepth n f l r t b z hn hf hnf hD
  simp only at this ⊢
  linarith
theorem normalizedZToDepth_ortho_depthToZp (n f l r t b d : α) (hnf : n ≠ f) :
    Gen.Frustum.normalizedZToDepth_ortho n f l r t b ((Gen.Frustum.depthToZp_ortho n f l r t b d + 1) / 2) = d := by
  have h3 : f - n ≠ 0 := sub_ne_zero.mpr (Ne.symm hnf)
  simp only [Gen.Frustum.normalizedZToDepth_ortho, Gen.Frustum.depthToZp_ortho]
  field_simp
  ring
theorem depthToZp_ortho_normalizedZToDepth (n f l r t b z : α) (hnf : n ≠ f) :
    (Gen.Frustum.depthToZp_ortho n f l r t b (Gen.Frustum.normalizedZToDepth_ortho n f l r t b z) + 1) / 2 = z := by
  have h3 : f - n ≠ 0 := sub_ne_zero.mpr (Ne.symm hnf)
  simp only [Gen.Frustum.normalizedZToDepth_ortho, Gen.Frustum.depthToZp_ortho]
  field_simp
  ring
theorem projectionMatrix_ortho_depth (n f l r t b : α) (hnf : n ≠ f) (p : V3 α) :
    (Gen.V3.mulM44 p (Gen.Frustum.projectionMatrix_ortho n f l r t b)).z = Gen.Frustum.depthToZp_ortho n f l r t b p.z := by
  have h3 : f - n ≠ 0 := sub_ne_zero.mpr (Ne.symm hnf)
  simp only [Gen.V3.mulM44, Gen.Frustum.projectionMatrix_ortho, Gen.Frustum.depthToZp_ortho]
  simp only [mul_zero, zero_mul, add_zero, zero_add, mul_neg, mul_one, neg_neg, neg_mul, div_one]
  field_simp
  ring
theorem projectionMatrix_ortho_normalizedZ (n f l r t b x y z : α) (hnf : n ≠ f) :
    (Gen.V3.mulM44 ⟨x, y, Gen.Frustum.normalizedZToDepth_ortho n f l r t b z⟩ (Gen.Frustum.projectionMatrix_ortho n f l r t b)).z
      = 2 * z - 1 := by
  rw [projectionMatrix_ortho_depth n f l r t b hnf]
  have := depthToZp_ortho_normalizedZToDepth n f l r t b z hnf
  simp only at this ⊢
  linarith
/-- end points: normalised depth 0 is the near plane `z = −n`, 1 is the far plane `z = −f` -/
theorem normalizedZToDepth_persp_ends (n f l r t b : α) (hn : n ≠ 0) (hf : f ≠ 0) :
    Gen.Frustum.normalizedZToDepth_persp n f l r t b 0 = -n ∧ Gen.Frustum.normalizedZToDepth_persp n f l r t b 1 = -f := by
  simp only [Gen.Frustum.normalizedZToDepth_persp]
  constructor
  · have : (0 * 2 - 1) * (f - n) - f - n = -(2 * f) := by ring
    rw [this]; field_simp
  · have : (1 * 2 - 1) * (f - n) - f - n = -(2 * n) := by ring
    rw [this]; field_simp
theorem normalizedZToDepth_ortho_ends (n f l r t b : α) :
    Gen.Frustum.normalizedZToDepth_ortho n f l r t b 0 = -n ∧ Gen.Frustum.normalizedZToDepth_ortho n f l r t b 1 = -f := by
  simp only [Gen.Frustum.normalizedZToDepth_ortho]
  constructor <;> ring

/-! ## screenRadius / worldRadius -/
theorem worldRadius_screenRadius (n f l r t b : α) (hn : n ≠ 0) (p : V3 α) (hz : p.z ≠ 0) (radius : α) :
    Gen.Frustum.worldRadius_persp n f l r t b p (Gen.Frustum.screenRadius_persp n f l r t b p radius) = radius := by
  simp only [Gen.Frustum.worldRadius_persp, Gen.Frustum.screenRadius_persp]
  field_simp
theorem screenRadius_worldRadius (n f l r t b : α) (hn : n ≠ 0) (p : V3 α) (hz : p.z ≠ 0) (radius : α) :
    Gen.Frustum.screenRadius_persp n f l r t b p (Gen.Frustum.worldRadius_persp n f l r t b p radius) = radius := by
  simp only [Gen.Frustum.worldRadius_persp, Gen.Frustum.screenRadius_persp]
  field_simp
theorem screenRadius_ortho_eq (n f l r t b : α) (p : V3 α) (radius : α) :
    Gen.Frustum.screenRadius_ortho n f l r t b p radius = Gen.Frustum.screenRadius_persp n f l r t b p radius := rfl
theorem worldRadius_ortho_eq (n f l r t b : α) (p : V3 α) (radius : α) :
    Gen.Frustum.worldRadius_ortho n f l r t b p radius = Gen.Frustum.worldRadius_persp n f l r t b p radius := rfl
/-- the documented derivation: the near-plane projection of `p + (radius,0,0)` is `screenRadius` away from that of `p` -/
theorem screenRadius_spec (n f l r t b : α) (p : V3 α) (hz : p.z ≠ 0) (radius : α) :
    (p.x + radius) * n / -p.z - p.x * n / -p.z = Gen.Frustum.screenRadius_persp n f l r t b p radius := by
  simp only [Gen.Frustum.screenRadius_persp]
  field_simp
  ring

/-! ## aspect, fov, set (fov, aspect) -/
theorem aspect_persp (n f l r t b : α) : Gen.Frustum.aspect_persp n f l r t b = (r - l) / (t - b) := rfl
theorem aspect_ortho (n f l r t b : α) : Gen.Frustum.aspect_ortho n f l r t b = (r - l) / (t - b) := rfl
theorem fovx_persp (atan2 : α → α → α) (n f l r t b : α) : Gen.Frustum.fovx_persp atan2 n f l r t b = atan2 r n - atan2 l n := rfl
theorem fovy_persp (atan2 : α → α → α) (n f l r t b : α) : Gen.Frustum.fovy_persp atan2 n f l r t b = atan2 t n - atan2 b n := rfl
theorem fovx_ortho (atan2 : α → α → α) (n f l r t b : α) : Gen.Frustum.fovx_ortho atan2 n f l r t b = atan2 r n - atan2 l n := rfl
theorem fovy_ortho (atan2 : α → α → α) (n f l r t b : α) : Gen.Frustum.fovy_ortho atan2 n f l r t b = atan2 t n - atan2 b n := rfl
/-- closed form of `set (nearPlane, farPlane, fovx, fovy, aspect)` when `fovx ≠ 0`: symmetric window of half-width `n·tan(fovx/2)` -/
theorem setFov_fovx_form (tan : α → α) (n f l r t b n' f' fovx fovy aspect : α) (hx : fovx ≠ 0) :
    Gen.Frustum.setFov_persp tan n f l r t b n' f' fovx fovy aspect =
      (n', f', -(n' * tan (fovx / 2)), n' * tan (fovx / 2), n' * tan (fovx / 2) / aspect, -(n' * tan (fovx / 2) / aspect), false) := by
  simp only [Gen.Frustum.setFov_persp, if_neg hx]
  refine Prod.ext rfl (Prod.ext rfl (Prod.ext rfl (Prod.ext rfl (Prod.ext ?_ (Prod.ext ?_ rfl))))) <;> simp only <;> ring
/-- … and when `fovx = 0`: half-height `n·tan(fovy/2)`, half-width `aspect` times that -/
theorem setFov_fovy_form (tan : α → α) (n f l r t b n' f' fovy aspect : α) :
    Gen.Frustum.setFov_persp tan n f l r t b n' f' 0 fovy aspect =
      (n', f', -(n' * tan (fovy / 2) * aspect), n' * tan (fovy / 2) * aspect, n' * tan (fovy / 2), -(n' * tan (fovy / 2)), false) := by
  simp only [Gen.Frustum.setFov_persp, if_true]
  refine Prod.ext rfl (Prod.ext rfl (Prod.ext ?_ (Prod.ext ?_ (Prod.ext rfl (Prod.ext rfl rfl))))) <;> simp only <;> ring
/-- the previous state (either flag) is irrelevant, and the constructor spelling agrees -/
theorem setFov_ortho_eq (tan : α → α) (n f l r t b n' f' fovx fovy aspect : α) :
    Gen.Frustum.setFov_ortho tan n f l r t b n' f' fovx fovy aspect = Gen.Frustum.setFov_persp tan n f l r t b n' f' fovx fovy aspect := rfl
theorem ctorFov_eq (tan : α → α) (n f l r t b n' f' fovx fovy aspect : α) :
    Gen.Frustum.ctorFov tan n' f' fovx fovy aspect = Gen.Frustum.setFov_persp tan n f l r t b n' f' fovx fovy aspect := rfl
/-- `aspect ()` of the frustum made by `set (…, fovx, ·, aspect)` is `aspect` -/
theorem setFov_fovx_aspect (tan : α → α) (n' fovx aspect : α) (ha : aspect ≠ 0) (hw : n' * tan (fovx / 2) ≠ 0) :
    let R := n' * tan (fovx / 2)
    Gen.Frustum.aspect_persp n' n' (-R) R (R / aspect) (-(R / aspect)) = aspect := by
  obtain ⟨hn', ht⟩ := mul_ne_zero_iff.mp hw
  simp only [Gen.Frustum.aspect_persp]
  field_simp <;> ring
theorem setFov_fovy_aspect (tan : α → α) (n' fovy aspect : α) (hw : n' * tan (fovy / 2) ≠ 0) :
    let T := n' * tan (fovy / 2)
    Gen.Frustum.aspect_persp n' n' (-(T * aspect)) (T * aspect) T (-T) = aspect := by
  obtain ⟨hn', ht⟩ := mul_ne_zero_iff.mp hw
  simp only [Gen.Frustum.aspect_persp]
  field_simp <;> ring
/-- `fovx ()` of the frustum made by `set (…, fovx, ·, ·)` is `fovx`, given that `atan2 (n·tan h) n = h` at `h = ± fovx/2` -/
theorem setFov_fovx_fovx (tan : α → α) (atan2 : α → α → α) (n' fovx tb : α)
    (h1 : atan2 (n' * tan (fovx / 2)) n' = fovx / 2) (h2 : atan2 (-(n' * tan (fovx / 2))) n' = -(fovx / 2)) :
    let R := n' * tan (fovx / 2)
    Gen.Frustum.fovx_persp atan2 n' n' (-R) R tb (-tb) = fovx := by
  simp only [Gen.Frustum.fovx_persp, h1, h2]; ring
theorem setFov_fovy_fovy (tan : α → α) (atan2 : α → α → α) (n' fovy lr : α)
    (h1 : atan2 (n' * tan (fovy / 2)) n' = fovy / 2) (h2 : atan2 (-(n' * tan (fovy / 2))) n' = -(fovy / 2)) :
    let T := n' * tan (fovy / 2)
    Gen.Frustum.fovy_persp atan2 n' n' (-lr) lr T (-T) = fovy := by
  simp only [Gen.Frustum.fovy_persp, h1, h2]; ring
/-- the `atan2`/`tan` hypotheses hold for the real functions: `atan2 y x = arctan (y/x)` for `x > 0`, `|fov/2| < π/2` -/
example (n' fov : ℝ) (hn : 0 < n') (h1 : -(Real.pi / 2) < fov / 2) (h2 : fov / 2 < Real.pi / 2) :
    (fun y x : ℝ => Real.arctan (y / x)) (n' * Real.tan (fov / 2)) n' = fov / 2 ∧
    (fun y x : ℝ => Real.arctan (y / x)) (-(n' * Real.tan (fov / 2))) n' = -(fov / 2) := by
  have hn' : n' ≠ 0 := ne_of_gt hn
  constructor
  · simp only; rw [mul_div_cancel_left₀ _ hn', Real.arctan_tan h1 h2]
  · simp only; rw [neg_div, mul_div_cancel_left₀ _ hn', Real.arctan_neg, Real.arctan_tan h1 h2]

/-! ## window -/
theorem window_persp (n f l r t b wl wr wt wb : α) :
    Gen.Frustum.window_persp n f l r t b wl wr wt wb =
      (n, f, (Gen.Frustum.screenToLocal_persp n f l r t b ⟨wl, wb⟩).x, (Gen.Frustum.screenToLocal_persp n f l r t b ⟨wr, wt⟩).x,
       (Gen.Frustum.screenToLocal_persp n f l r t b ⟨wr, wt⟩).y, (Gen.Frustum.screenToLocal_persp n f l r t b ⟨wl, wb⟩).y, false) := rfl
theorem window_ortho (n f l r t b wl wr wt wb : α) :
    Gen.Frustum.window_ortho n f l r t b wl wr wt wb =
      (n, f, (Gen.Frustum.screenToLocal_persp n f l r t b ⟨wl, wb⟩).x, (Gen.Frustum.screenToLocal_persp n f l r t b ⟨wr, wt⟩).x,
       (Gen.Frustum.screenToLocal_persp n f l r t b ⟨wr, wt⟩).y, (Gen.Frustum.screenToLocal_persp n f l r t b ⟨wl, wb⟩).y, true) := rfl
/-- the whole screen gives the same frustum back -/
theorem window_full (n f l r t b : α) :
    Gen.Frustum.window_persp n f l r t b (-1) 1 1 (-1) = (n, f, l, r, t, b, false) := by
  simp only [Gen.Frustum.window_persp]
  refine Prod.ext rfl (Prod.ext rfl (Prod.ext ?_ (Prod.ext ?_ (Prod.ext ?_ (Prod.ext ?_ rfl))))) <;> simp only <;> ring

/-! ## modifyNearAndFar -/
theorem modifyNearAndFar_ortho (n f l r t b n2 f2 : α) :
    Gen.Frustum.modifyNearAndFar_ortho n f l r t b n2 f2 = (n2, f2, l, r, t, b, true) := rfl
theorem modifyNearAndFar_persp (tmin tmax : α) (sqrt : α → α) (hlen : LenSpec (Gen.V3.length tmin tmax sqrt))
    (n f l r t b n2 f2 : α) (hn : n ≠ 0) :
    Gen.Frustum.modifyNearAndFar_persp tmin tmax sqrt n f l r t b n2 f2 =
      (n2, f2, l * (n2 / n), r * (n2 / n), t * (n2 / n), b * (n2 / n), false) := by
  have hnn : -n ≠ 0 := neg_ne_zero.mpr hn
  have hz : Gen.V3.length tmin tmax sqrt ⟨0, 0, -1⟩ = 1 := lenSpec_eq_one hlen _ (by simp [normSq])
  have ha := lenSpec_pos hlen ⟨l - 0, b - 0, -n - 0⟩ (by rw [sub_zero (-n)]; exact normSq_ne_zero_of_z _ _ _ hnn)
  have hb := lenSpec_pos hlen ⟨r - 0, t - 0, -n - 0⟩ (by rw [sub_zero (-n)]; exact normSq_ne_zero_of_z _ _ _ hnn)
  have ha' := ne_of_gt ha
  have hb' := ne_of_gt hb
  simp only [Gen.Frustum.modifyNearAndFar_persp, hz, if_neg ha', if_neg hb', one_ne_zero, if_false]
  simp only [sub_zero, zero_div, zero_mul, mul_zero, add_zero, zero_add, div_one, neg_mul, one_mul, neg_neg] at ha' hb' ⊢
  have hd1 : n / Gen.V3.length tmin tmax sqrt ⟨l, b, -n⟩ ≠ 0 := div_ne_zero hn ha'
  have hd2 : n / Gen.V3.length tmin tmax sqrt ⟨r, t, -n⟩ ≠ 0 := div_ne_zero hn hb'
  simp only [neg_div, neg_neg, neg_zero, zero_sub, if_neg hd1, if_neg hd2]
  refine Prod.ext rfl (Prod.ext rfl (Prod.ext ?_ (Prod.ext ?_ (Prod.ext ?_ (Prod.ext ?_ rfl))))) <;> simp only <;> field_simp

/-! ## planes (p) -/
/-- structure of the perspective `planes (p)` for a non-degenerate frustum -/
theorem planes_persp_struct (tmin tmax : α) (sqrt : α → α) (hlen : LenSpec (Gen.V3.length tmin tmax sqrt)) (n f l r t b : α)
    (hn : n ≠ 0) (hlr : l ≠ r) (hbt : b ≠ t) :
    Gen.Frustum.planes_persp tmin tmax sqrt n f l r t b =
      (planeThrough (Gen.V3.length tmin tmax sqrt) ⟨0, 0, 0⟩ ⟨r, t, -n⟩ ⟨l, t, -n⟩,
       planeThrough (Gen.V3.length tmin tmax sqrt) ⟨0, 0, 0⟩ ⟨r, b, -n⟩ ⟨r, t, -n⟩,
       planeThrough (Gen.V3.length tmin tmax sqrt) ⟨0, 0, 0⟩ ⟨l, b, -n⟩ ⟨r, b, -n⟩,
       planeThrough (Gen.V3.length tmin tmax sqrt) ⟨0, 0, 0⟩ ⟨l, t, -n⟩ ⟨l, b, -n⟩,
       planeND (Gen.V3.length tmin tmax sqrt) ⟨0, 0, 1⟩ (-n),
       planeND (Gen.V3.length tmin tmax sqrt) ⟨0, 0, -1⟩ f) := by
  have h1 : r - l ≠ 0 := sub_ne_zero.mpr (Ne.symm hlr)
  have h2 : t - b ≠ 0 := sub_ne_zero.mpr (Ne.symm hbt)
  have k0 := ne_of_gt (lenSpec_pos hlen (cross (vsub ⟨r, t, -n⟩ ⟨0, 0, 0⟩) (vsub ⟨l, t, -n⟩ ⟨0, 0, 0⟩)) (by rw [cross_top n l r t]; exact normSq_ne_zero_of_y _ _ _ (mul_ne_zero hn h1)))
  have k1 := ne_of_gt (lenSpec_pos hlen (cross (vsub ⟨r, b, -n⟩ ⟨0, 0, 0⟩) (vsub ⟨r, t, -n⟩ ⟨0, 0, 0⟩)) (by rw [cross_right n r t b]; exact normSq_ne_zero_of_x _ _ _ (mul_ne_zero hn h2)))
  have k2 := ne_of_gt (lenSpec_pos hlen (cross (vsub ⟨l, b, -n⟩ ⟨0, 0, 0⟩) (vsub ⟨r, b, -n⟩ ⟨0, 0, 0⟩)) (by rw [cross_bottom n l r b]; exact normSq_ne_zero_of_y _ _ _ (neg_ne_zero.mpr (mul_ne_zero hn h1))))
  have k3 := ne_of_gt (lenSpec_pos hlen (cross (vsub ⟨l, t, -n⟩ ⟨0, 0, 0⟩) (vsub ⟨l, b, -n⟩ ⟨0, 0, 0⟩)) (by rw [cross_left n l t b]; exact normSq_ne_zero_of_x _ _ _ (neg_ne_zero.mpr (mul_ne_zero hn h2))))
  have k4 : Gen.V3.length tmin tmax sqrt ⟨0, 0, 1⟩ ≠ 0 := by rw [lenSpec_eq_one hlen _ (by simp [normSq])]; exact one_ne_zero
  have k5 : Gen.V3.length tmin tmax sqrt ⟨0, 0, -1⟩ ≠ 0 := by rw [lenSpec_eq_one hlen _ (by simp [normSq])]; exact one_ne_zero
  simp only [cross, vsub] at k0 k1 k2 k3
  simp (config := { maxSteps := 4000000 }) only [Gen.Frustum.planes_persp, planeThrough, planeND, normalizeWith, cross, vsub, vdot,
    if_neg k0, if_neg k1, if_neg k2, if_neg k3, if_neg k4, if_neg k5]
theorem planes_ortho_struct (tmin tmax : α) (sqrt : α → α) (hlen : LenSpec (Gen.V3.length tmin tmax sqrt)) (n f l r t b : α) :
    Gen.Frustum.planes_ortho tmin tmax sqrt n f l r t b =
      (planeND (Gen.V3.length tmin tmax sqrt) ⟨0, 1, 0⟩ t,
       planeND (Gen.V3.length tmin tmax sqrt) ⟨1, 0, 0⟩ r,
       planeND (Gen.V3.length tmin tmax sqrt) ⟨0, -1, 0⟩ (-b),
       planeND (Gen.V3.length tmin tmax sqrt) ⟨-1, 0, 0⟩ (-l),
       planeND (Gen.V3.length tmin tmax sqrt) ⟨0, 0, 1⟩ (-n),
       planeND (Gen.V3.length tmin tmax sqrt) ⟨0, 0, -1⟩ f) := by
  have k0 : Gen.V3.length tmin tmax sqrt ⟨0, 1, 0⟩ ≠ 0 := by rw [lenSpec_eq_one hlen _ (by simp [normSq])]; exact one_ne_zero
  have k1 : Gen.V3.length tmin tmax sqrt ⟨1, 0, 0⟩ ≠ 0 := by rw [lenSpec_eq_one hlen _ (by simp [normSq])]; exact one_ne_zero
  have k2 : Gen.V3.length tmin tmax sqrt ⟨0, -1, 0⟩ ≠ 0 := by rw [lenSpec_eq_one hlen _ (by simp [normSq])]; exact one_ne_zero
  have k3 : Gen.V3.length tmin tmax sqrt ⟨-1, 0, 0⟩ ≠ 0 := by rw [lenSpec_eq_one hlen _ (by simp [normSq])]; exact one_ne_zero
  have k4 : Gen.V3.length tmin tmax sqrt ⟨0, 0, 1⟩ ≠ 0 := by rw [lenSpec_eq_one hlen _ (by simp [normSq])]; exact one_ne_zero
  have k5 : Gen.V3.length tmin tmax sqrt ⟨0, 0, -1⟩ ≠ 0 := by rw [lenSpec_eq_one hlen _ (by simp [normSq])]; exact one_ne_zero
  simp (config := { maxSteps := 4000000 }) only [Gen.Frustum.planes_ortho, planeND, normalizeWith,
    if_neg k0, if_neg k1, if_neg k2, if_neg k3, if_neg k4, if_neg k5]
/-- **planes (p), orthographic**: order top, right, bottom, left, near, far; each plane equation is exactly the defect of the
corresponding box inequality (so the normals are the outward axis unit vectors) -/
theorem planes_ortho_eval (tmin tmax : α) (sqrt : α → α) (hlen : LenSpec (Gen.V3.length tmin tmax sqrt)) (n f l r t b : α) (p : V3 α) :
    let P := Gen.Frustum.planes_ortho tmin tmax sqrt n f l r t b
    planeEval P.1 p = p.y - t ∧ planeEval P.2.1 p = p.x - r ∧ planeEval P.2.2.1 p = b - p.y ∧
    planeEval P.2.2.2.1 p = l - p.x ∧ planeEval P.2.2.2.2.1 p = n - (-p.z) ∧ planeEval P.2.2.2.2.2 p = (-p.z) - f := by
  simp only [planes_ortho_struct tmin tmax sqrt hlen]
  refine ⟨?_, ?_, ?_, ?_, ?_, ?_⟩ <;> rw [planeND_axis_eval hlen _ (by simp [normSq])] <;> simp only [vdot] <;> ring
theorem planes_ortho_region (tmin tmax : α) (sqrt : α → α) (hlen : LenSpec (Gen.V3.length tmin tmax sqrt)) (n f l r t b : α) (p : V3 α) :
    inAllPlanes (Gen.Frustum.planes_ortho tmin tmax sqrt n f l r t b) p ↔ regionOrtho n f l r t b p := by
  obtain ⟨e0, e1, e2, e3, e4, e5⟩ := planes_ortho_eval tmin tmax sqrt hlen n f l r t b p
  simp only [inAllPlanes, regionOrtho, e0, e1, e2, e3, e4, e5, sub_nonpos]
  tauto
theorem planes_ortho_interior (tmin tmax : α) (sqrt : α → α) (hlen : LenSpec (Gen.V3.length tmin tmax sqrt)) (n f l r t b : α) (p : V3 α) :
    strictlyInAllPlanes (Gen.Frustum.planes_ortho tmin tmax sqrt n f l r t b) p ↔ interiorOrtho n f l r t b p := by
  obtain ⟨e0, e1, e2, e3, e4, e5⟩ := planes_ortho_eval tmin tmax sqrt hlen n f l r t b p
  simp only [strictlyInAllPlanes, interiorOrtho, e0, e1, e2, e3, e4, e5, sub_neg]
  tauto
theorem planes_ortho_unit (tmin tmax : α) (sqrt : α → α) (hlen : LenSpec (Gen.V3.length tmin tmax sqrt)) (n f l r t b : α) :
    let P := Gen.Frustum.planes_ortho tmin tmax sqrt n f l r t b
    normSq P.1.normal = 1 ∧ normSq P.2.1.normal = 1 ∧ normSq P.2.2.1.normal = 1 ∧ normSq P.2.2.2.1.normal = 1 ∧
    normSq P.2.2.2.2.1.normal = 1 ∧ normSq P.2.2.2.2.2.normal = 1 := by
  simp only [planes_ortho_struct tmin tmax sqrt hlen, planeND]
  refine ⟨?_, ?_, ?_, ?_, ?_, ?_⟩ <;> exact normalizeWith_normSq hlen _ (by simp [normSq])
/-- **planes (p), perspective**: order top, right, bottom, left, near, far; each side-plane equation is a POSITIVE multiple
of the defect of the corresponding frustum inequality (normals point outwards), near/far are exact -/
theorem planes_persp_eval (tmin tmax : α) (sqrt : α → α) (hlen : LenSpec (Gen.V3.length tmin tmax sqrt)) (n f l r t b : α)
    (hn : 0 < n) (hlr : l < r) (hbt : b < t) :
    ∃ c0 c1 c2 c3 : α, 0 < c0 ∧ 0 < c1 ∧ 0 < c2 ∧ 0 < c3 ∧ ∀ p : V3 α,
      let P := Gen.Frustum.planes_persp tmin tmax sqrt n f l r t b
      planeEval P.1 p = c0 * (n * p.y - t * (-p.z)) ∧ planeEval P.2.1 p = c1 * (n * p.x - r * (-p.z)) ∧
      planeEval P.2.2.1 p = c2 * (b * (-p.z) - n * p.y) ∧ planeEval P.2.2.2.1 p = c3 * (l * (-p.z) - n * p.x) ∧
      planeEval P.2.2.2.2.1 p = n - (-p.z) ∧ planeEval P.2.2.2.2.2 p = (-p.z) - f := by
  have hn' := ne_of_gt hn
  have h1 : 0 < r - l := sub_pos.mpr hlr
  have h2 : 0 < t - b := sub_pos.mpr hbt
  have v0 : normSq (cross (vsub ⟨r, t, -n⟩ ⟨0, 0, 0⟩) (vsub ⟨l, t, -n⟩ ⟨0, 0, 0⟩)) ≠ 0 := by
    rw [cross_top n l r t]; exact normSq_ne_zero_of_y _ _ _ (mul_ne_zero hn' (ne_of_gt h1))
  have v1 : normSq (cross (vsub ⟨r, b, -n⟩ ⟨0, 0, 0⟩) (vsub ⟨r, t, -n⟩ ⟨0, 0, 0⟩)) ≠ 0 := by
    rw [cross_right n r t b]; exact normSq_ne_zero_of_x _ _ _ (mul_ne_zero hn' (ne_of_gt h2))
  have v2 : normSq (cross (vsub ⟨l, b, -n⟩ ⟨0, 0, 0⟩) (vsub ⟨r, b, -n⟩ ⟨0, 0, 0⟩)) ≠ 0 := by
    rw [cross_bottom n l r b]; exact normSq_ne_zero_of_y _ _ _ (neg_ne_zero.mpr (mul_ne_zero hn' (ne_of_gt h1)))
  have v3 : normSq (cross (vsub ⟨l, t, -n⟩ ⟨0, 0, 0⟩) (vsub ⟨l, b, -n⟩ ⟨0, 0, 0⟩)) ≠ 0 := by
    rw [cross_left n l t b]; exact normSq_ne_zero_of_x _ _ _ (neg_ne_zero.mpr (mul_ne_zero hn' (ne_of_gt h2)))
  have l0 := lenSpec_pos hlen _ v0
  have l1 := lenSpec_pos hlen _ v1
  have l2 := lenSpec_pos hlen _ v2
  have l3 := lenSpec_pos hlen _ v3
  refine ⟨(r - l) / _, (t - b) / _, (r - l) / _, (t - b) / _, div_pos h1 l0, div_pos h2 l1, div_pos h1 l2, div_pos h2 l3, ?_⟩
  intro p
  simp only [planes_persp_struct tmin tmax sqrt hlen n f l r t b hn' (ne_of_lt hlr) (ne_of_lt hbt)]
  refine ⟨?_, ?_, ?_, ?_, ?_, ?_⟩
  · rw [planeThrough_eval hlen _ _ _ v0, div_mul_eq_mul_div]; congr 1
    rw [cross_top]; simp only [vdot, vsub]; ring
  · rw [planeThrough_eval hlen _ _ _ v1, div_mul_eq_mul_div]; congr 1
    rw [cross_right]; simp only [vdot, vsub]; ring
  · rw [planeThrough_eval hlen _ _ _ v2, div_mul_eq_mul_div]; congr 1
    rw [cross_bottom]; simp only [vdot, vsub]; ring
  · rw [planeThrough_eval hlen _ _ _ v3, div_mul_eq_mul_div]; congr 1
    rw [cross_left]; simp only [vdot, vsub]; ring
  · rw [planeND_axis_eval hlen _ (by simp [normSq])]; simp only [vdot]; ring
  · rw [planeND_axis_eval hlen _ (by simp [normSq])]; simp only [vdot]; ring
theorem planes_persp_region (tmin tmax : α) (sqrt : α → α) (hlen : LenSpec (Gen.V3.length tmin tmax sqrt)) (n f l r t b : α)
    (hn : 0 < n) (hlr : l < r) (hbt : b < t) (p : V3 α) :
    inAllPlanes (Gen.Frustum.planes_persp tmin tmax sqrt n f l r t b) p ↔ regionPersp n f l r t b p := by
  obtain ⟨c0, c1, c2, c3, p0, p1, p2, p3, h⟩ := planes_persp_eval tmin tmax sqrt hlen n f l r t b hn hlr hbt
  obtain ⟨e0, e1, e2, e3, e4, e5⟩ := h p
  simp only [inAllPlanes, regionPersp, e0, e1, e2, e3, e4, e5, pos_mul_nonpos_iff p0, pos_mul_nonpos_iff p1,
    pos_mul_nonpos_iff p2, pos_mul_nonpos_iff p3, sub_nonpos]
  tauto
theorem planes_persp_interior (tmin tmax : α) (sqrt : α → α) (hlen : LenSpec (Gen.V3.length tmin tmax sqrt)) (n f l r t b : α)
    (hn : 0 < n) (hlr : l < r) (hbt : b < t) (p : V3 α) :
    strictlyInAllPlanes (Gen.Frustum.planes_persp tmin tmax sqrt n f l r t b) p ↔ interiorPersp n f l r t b p := by
  obtain ⟨c0, c1, c2, c3, p0, p1, p2, p3, h⟩ := planes_persp_eval tmin tmax sqrt hlen n f l r t b hn hlr hbt
  obtain ⟨e0, e1, e2, e3, e4, e5⟩ := h p
  simp only [strictlyInAllPlanes, interiorPersp, e0, e1, e2, e3, e4, e5, pos_mul_neg_iff p0, pos_mul_neg_iff p1,
    pos_mul_neg_iff p2, pos_mul_neg_iff p3, sub_neg]
  tauto
theorem planes_persp_unit (tmin tmax : α) (sqrt : α → α) (hlen : LenSpec (Gen.V3.length tmin tmax sqrt)) (n f l r t b : α)
    (hn : n ≠ 0) (hlr : l ≠ r) (hbt : b ≠ t) :
    let P := Gen.Frustum.planes_persp tmin tmax sqrt n f l r t b
    normSq P.1.normal = 1 ∧ normSq P.2.1.normal = 1 ∧ normSq P.2.2.1.normal = 1 ∧ normSq P.2.2.2.1.normal = 1 ∧
    normSq P.2.2.2.2.1.normal = 1 ∧ normSq P.2.2.2.2.2.normal = 1 := by
  have h1 : r - l ≠ 0 := sub_ne_zero.mpr (Ne.symm hlr)
  have h2 : t - b ≠ 0 := sub_ne_zero.mpr (Ne.symm hbt)
  simp only [planes_persp_struct tmin tmax sqrt hlen n f l r t b hn hlr hbt, planeND, planeThrough]
  refine ⟨?_, ?_, ?_, ?_, ?_, ?_⟩
  · exact normalizeWith_normSq hlen _ (by rw [cross_top n l r t]; exact normSq_ne_zero_of_y _ _ _ (mul_ne_zero hn h1))
  · exact normalizeWith_normSq hlen _ (by rw [cross_right n r t b]; exact normSq_ne_zero_of_x _ _ _ (mul_ne_zero hn h2))
  · exact normalizeWith_normSq hlen _ (by rw [cross_bottom n l r b]; exact normSq_ne_zero_of_y _ _ _ (neg_ne_zero.mpr (mul_ne_zero hn h1)))
  · exact normalizeWith_normSq hlen _ (by rw [cross_left n l t b]; exact normSq_ne_zero_of_x _ _ _ (neg_ne_zero.mpr (mul_ne_zero hn h2)))
  · exact normalizeWith_normSq hlen _ (by simp [normSq])
  · exact normalizeWith_normSq hlen _ (by simp [normSq])

/-! ## planes (p, M) (hand transcript) -/
/-- the six planes a FrustumTest is built from: `Frustum::planes (p, M)` (hand transcript, Gen/C16PlanesM.lean) -/
def planesM_persp (tmin tmax : α) (sqrt : α → α) (n f l r t b : α) (M : M44 α) :
    Plane3 α × Plane3 α × Plane3 α × Plane3 α × Plane3 α × Plane3 α :=
  (Gen.Frustum.planesM_persp_0 tmin tmax sqrt n f l r t b M, Gen.Frustum.planesM_persp_1 tmin tmax sqrt n f l r t b M,
   Gen.Frustum.planesM_persp_2 tmin tmax sqrt n f l r t b M, Gen.Frustum.planesM_persp_3 tmin tmax sqrt n f l r t b M,
   Gen.Frustum.planesM_persp_4 tmin tmax sqrt n f l r t b M, Gen.Frustum.planesM_persp_5 tmin tmax sqrt n f l r t b M)
def planesM_ortho (tmin tmax : α) (sqrt : α → α) (n f l r t b : α) (M : M44 α) :
    Plane3 α × Plane3 α × Plane3 α × Plane3 α × Plane3 α × Plane3 α :=
  (Gen.Frustum.planesM_ortho_0 tmin tmax sqrt n f l r t b M, Gen.Frustum.planesM_ortho_1 tmin tmax sqrt n f l r t b M,
   Gen.Frustum.planesM_ortho_2 tmin tmax sqrt n f l r t b M, Gen.Frustum.planesM_ortho_3 tmin tmax sqrt n f l r t b M,
   Gen.Frustum.planesM_ortho_4 tmin tmax sqrt n f l r t b M, Gen.Frustum.planesM_ortho_5 tmin tmax sqrt n f l r t b M)
/-- structure of `planes (p, M)`, perspective: every plane is `Plane3::set` of three TRANSFORMED corner points
(eye `o`, near corners `a b c d`, far corners `e f g` scaled by far/near), windings as in the source -/
theorem planesM_persp_struct (tmin tmax : α) (sqrt : α → α) (n f l r t b : α) (M : M44 α) :
    let len := Gen.V3.length tmin tmax sqrt
    let X := fun v : V3 α => Gen.V3.mulM44 v M
    let s := f / n
    Gen.Frustum.planesM_persp_0 tmin tmax sqrt n f l r t b M = planeThroughIf len (X ⟨0, 0, 0⟩) (X ⟨r, t, -n⟩) (X ⟨l, t, -n⟩) ∧
    Gen.Frustum.planesM_persp_1 tmin tmax sqrt n f l r t b M = planeThroughIf len (X ⟨0, 0, 0⟩) (X ⟨r, b, -n⟩) (X ⟨r, t, -n⟩) ∧
    Gen.Frustum.planesM_persp_2 tmin tmax sqrt n f l r t b M = planeThroughIf len (X ⟨0, 0, 0⟩) (X ⟨l, b, -n⟩) (X ⟨r, b, -n⟩) ∧
    Gen.Frustum.planesM_persp_3 tmin tmax sqrt n f l r t b M = planeThroughIf len (X ⟨0, 0, 0⟩) (X ⟨l, t, -n⟩) (X ⟨l, b, -n⟩) ∧
    Gen.Frustum.planesM_persp_4 tmin tmax sqrt n f l r t b M = planeThroughIf len (X ⟨l, b, -n⟩) (X ⟨r, b, -n⟩) (X ⟨r, t, -n⟩) ∧
    Gen.Frustum.planesM_persp_5 tmin tmax sqrt n f l r t b M =
      planeThroughIf len (X ⟨s * l, s * b, -f⟩) (X ⟨s * l, s * t, -f⟩) (X ⟨s * r, s * t, -f⟩) := by
  refine ⟨?_, ?_, ?_, ?_, ?_, ?_⟩
  · simp only [Gen.Frustum.planesM_persp_0, planeThroughIf, normalizeIf, cross, vsub, vdot, Gen.V3.mulM44]; split_ifs with h <;> simp only [h, ↓reduceIte]
  · simp only [Gen.Frustum.planesM_persp_1, planeThroughIf, normalizeIf, cross, vsub, vdot, Gen.V3.mulM44]; split_ifs with h <;> simp only [h, ↓reduceIte]
  · simp only [Gen.Frustum.planesM_persp_2, planeThroughIf, normalizeIf, cross, vsub, vdot, Gen.V3.mulM44]; split_ifs with h <;> simp only [h, ↓reduceIte]
  · simp only [Gen.Frustum.planesM_persp_3, planeThroughIf, normalizeIf, cross, vsub, vdot, Gen.V3.mulM44]; split_ifs with h <;> simp only [h, ↓reduceIte]
  · simp only [Gen.Frustum.planesM_persp_4, planeThroughIf, normalizeIf, cross, vsub, vdot, Gen.V3.mulM44]; split_ifs with h <;> simp only [h, ↓reduceIte]
  · simp only [Gen.Frustum.planesM_persp_5, planeThroughIf, normalizeIf, cross, vsub, vdot, Gen.V3.mulM44]; split_ifs with h <;> simp only [h, ↓reduceIte]
/-- structure of `planes (p, M)`, orthographic: near corners `a b c d` (z = −n) and far corners `e f g h` (z = −f) -/
theorem planesM_ortho_struct (tmin tmax : α) (sqrt : α → α) (n f l r t b : α) (M : M44 α) :
    let len := Gen.V3.length tmin tmax sqrt
    let X := fun v : V3 α => Gen.V3.mulM44 v M
    Gen.Frustum.planesM_ortho_0 tmin tmax sqrt n f l r t b M = planeThroughIf len (X ⟨r, t, -n⟩) (X ⟨r, t, -f⟩) (X ⟨l, t, -f⟩) ∧
    Gen.Frustum.planesM_ortho_1 tmin tmax sqrt n f l r t b M = planeThroughIf len (X ⟨r, b, -n⟩) (X ⟨r, b, -f⟩) (X ⟨r, t, -f⟩) ∧
    Gen.Frustum.planesM_ortho_2 tmin tmax sqrt n f l r t b M = planeThroughIf len (X ⟨l, b, -n⟩) (X ⟨l, b, -f⟩) (X ⟨r, b, -f⟩) ∧
    Gen.Frustum.planesM_ortho_3 tmin tmax sqrt n f l r t b M = planeThroughIf len (X ⟨l, t, -n⟩) (X ⟨l, t, -f⟩) (X ⟨l, b, -f⟩) ∧
    Gen.Frustum.planesM_ortho_4 tmin tmax sqrt n f l r t b M = planeThroughIf len (X ⟨l, b, -n⟩) (X ⟨r, b, -n⟩) (X ⟨r, t, -n⟩) ∧
    Gen.Frustum.planesM_ortho_5 tmin tmax sqrt n f l r t b M = planeThroughIf len (X ⟨l, b, -f⟩) (X ⟨l, t, -f⟩) (X ⟨r, t, -f⟩) := by
  refine ⟨?_, ?_, ?_, ?_, ?_, ?_⟩
  · simp only [Gen.Frustum.planesM_ortho_0, planeThroughIf, normalizeIf, cross, vsub, vdot, Gen.V3.mulM44]; split_ifs with h <;> simp only [h, ↓reduceIte]
  · simp only [Gen.Frustum.planesM_ortho_1, planeThroughIf, normalizeIf, cross, vsub, vdot, Gen.V3.mulM44]; split_ifs with h <;> simp only [h, ↓reduceIte]
  · simp only [Gen.Frustum.planesM_ortho_2, planeThroughIf, normalizeIf, cross, vsub, vdot, Gen.V3.mulM44]; split_ifs with h <;> simp only [h, ↓reduceIte]
  · simp only [Gen.Frustum.planesM_ortho_3, planeThroughIf, normalizeIf, cross, vsub, vdot, Gen.V3.mulM44]; split_ifs with h <;> simp only [h, ↓reduceIte]
  · simp only [Gen.Frustum.planesM_ortho_4, planeThroughIf, normalizeIf, cross, vsub, vdot, Gen.V3.mulM44]; split_ifs with h <;> simp only [h, ↓reduceIte]
  · simp only [Gen.Frustum.planesM_ortho_5, planeThroughIf, normalizeIf, cross, vsub, vdot, Gen.V3.mulM44]; split_ifs with h <;> simp only [h, ↓reduceIte]
/-- whatever the frustum and the matrix, the stored normals are unit vectors or (degenerate) zero: |n| ≤ 1 -/
theorem planesM_persp_normals_le_one (tmin tmax : α) (sqrt : α → α) (hlen : LenSpec (Gen.V3.length tmin tmax sqrt)) (n f l r t b : α) (M : M44 α) :
    normalsLeOne (planesM_persp tmin tmax sqrt n f l r t b M) := by
  obtain ⟨h0, h1, h2, h3, h4, h5⟩ := planesM_persp_struct tmin tmax sqrt n f l r t b M
  simp only [normalsLeOne, planesM_persp, h0, h1, h2, h3, h4, h5, planeThroughIf]
  exact ⟨normalizeIf_normSq_le_one hlen _, normalizeIf_normSq_le_one hlen _, normalizeIf_normSq_le_one hlen _,
         normalizeIf_normSq_le_one hlen _, normalizeIf_normSq_le_one hlen _, normalizeIf_normSq_le_one hlen _⟩
theorem planesM_ortho_normals_le_one (tmin tmax : α) (sqrt : α → α) (hlen : LenSpec (Gen.V3.length tmin tmax sqrt)) (n f l r t b : α) (M : M44 α) :
    normalsLeOne (planesM_ortho tmin tmax sqrt n f l r t b M) := by
  obtain ⟨h0, h1, h2, h3, h4, h5⟩ := planesM_ortho_struct tmin tmax sqrt n f l r t b M
  simp only [normalsLeOne, planesM_ortho, h0, h1, h2, h3, h4, h5, planeThroughIf]
  exact ⟨normalizeIf_normSq_le_one hlen _, normalizeIf_normSq_le_one hlen _, normalizeIf_normSq_le_one hlen _,
         normalizeIf_normSq_le_one hlen _, normalizeIf_normSq_le_one hlen _, normalizeIf_normSq_le_one hlen _⟩
def identity44 : M44 α := ⟨1, 0, 0, 0, 0, 1, 0, 0, 0, 0, 1, 0, 0, 0, 0, 1⟩
theorem mulM44_identity (v : V3 α) : Gen.V3.mulM44 v identity44 = v := by
  simp only [Gen.V3.mulM44, identity44, mul_one, mul_zero, add_zero, zero_add, div_one]
/-- with the identity camera matrix `planes (p, M)` returns exactly the planes of `planes (p)` (perspective) -/
theorem planesM_persp_identity (tmin tmax : α) (sqrt : α → α) (hlen : LenSpec (Gen.V3.length tmin tmax sqrt)) (n f l r t b : α)
    (hn : 0 < n) (hf : f ≠ 0) (hlr : l < r) (hbt : b < t) :
    planesM_persp tmin tmax sqrt n f l r t b identity44 = Gen.Frustum.planes_persp tmin tmax sqrt n f l r t b := by
  have hn' := ne_of_gt hn
  obtain ⟨h0, h1, h2, h3, h4, h5⟩ := planesM_persp_struct tmin tmax sqrt n f l r t b identity44
  have h1' : r - l ≠ 0 := ne_of_gt (sub_pos.mpr hlr)
  have h2' : t - b ≠ 0 := ne_of_gt (sub_pos.mpr hbt)
  have k0 := ne_of_gt (lenSpec_pos hlen (cross (vsub ⟨r, t, -n⟩ ⟨0, 0, 0⟩) (vsub ⟨l, t, -n⟩ ⟨0, 0, 0⟩)) (by rw [cross_top n l r t]; exact normSq_ne_zero_of_y _ _ _ (mul_ne_zero hn' h1')))
  have k1 := ne_of_gt (lenSpec_pos hlen (cross (vsub ⟨r, b, -n⟩ ⟨0, 0, 0⟩) (vsub ⟨r, t, -n⟩ ⟨0, 0, 0⟩)) (by rw [cross_right n r t b]; exact normSq_ne_zero_of_x _ _ _ (mul_ne_zero hn' h2')))
  have k2 := ne_of_gt (lenSpec_pos hlen (cross (vsub ⟨l, b, -n⟩ ⟨0, 0, 0⟩) (vsub ⟨r, b, -n⟩ ⟨0, 0, 0⟩)) (by rw [cross_bottom n l r b]; exact normSq_ne_zero_of_y _ _ _ (neg_ne_zero.mpr (mul_ne_zero hn' h1'))))
  have k3 := ne_of_gt (lenSpec_pos hlen (cross (vsub ⟨l, t, -n⟩ ⟨0, 0, 0⟩) (vsub ⟨l, b, -n⟩ ⟨0, 0, 0⟩)) (by rw [cross_left n l t b]; exact normSq_ne_zero_of_x _ _ _ (neg_ne_zero.mpr (mul_ne_zero hn' h2'))))
  have hfar : 0 < (f / n * r - f / n * l) * (f / n * t - f / n * b) := by
    have : (f / n * r - f / n * l) * (f / n * t - f / n * b) = (f / n) * (f / n) * ((r - l) * (t - b)) := by ring
    rw [this]; exact mul_pos (mul_self_pos.mpr (div_ne_zero hf hn')) (mul_pos (sub_pos.mpr hlr) (sub_pos.mpr hbt))
  simp only [planesM_persp, h0, h1, h2, h3, h4, h5, mulM44_identity,
    planes_persp_struct tmin tmax sqrt hlen n f l r t b hn' (ne_of_lt hlr) (ne_of_lt hbt),
    planeThroughIf_eq _ _ _ k0, planeThroughIf_eq _ _ _ k1, planeThroughIf_eq _ _ _ k2, planeThroughIf_eq _ _ _ k3,
    planeThrough_near hlen n l r t b (mul_pos (sub_pos.mpr hlr) (sub_pos.mpr hbt)), planeThrough_far hlen f (f / n * l) (f / n * r) (f / n * t) (f / n * b) hfar]
/-- with the identity camera matrix `planes (p, M)` returns exactly the planes of `planes (p)` (orthographic; note that
`planes (p, M)` needs `n < f` for the side normals to point outwards, `planes (p)` does not) -/
theorem planesM_ortho_identity (tmin tmax : α) (sqrt : α → α) (hlen : LenSpec (Gen.V3.length tmin tmax sqrt)) (n f l r t b : α)
    (hnf : n < f) (hlr : l < r) (hbt : b < t) :
    planesM_ortho tmin tmax sqrt n f l r t b identity44 = Gen.Frustum.planes_ortho tmin tmax sqrt n f l r t b := by
  obtain ⟨h0, h1, h2, h3, h4, h5⟩ := planesM_ortho_struct tmin tmax sqrt n f l r t b identity44
  have d1 : 0 < f - n := sub_pos.mpr hnf
  have d2 : 0 < r - l := sub_pos.mpr hlr
  have d3 : 0 < t - b := sub_pos.mpr hbt
  have e0 : planeThroughIf (Gen.V3.length tmin tmax sqrt) ⟨r, t, -n⟩ ⟨r, t, -f⟩ ⟨l, t, -f⟩ = planeND (Gen.V3.length tmin tmax sqrt) ⟨0, 1, 0⟩ t := by
    refine planeThroughIf_of_cross hlen _ _ _ ⟨0, 1, 0⟩ ((f - n) * (r - l)) _ (mul_pos d1 d2) (by simp [normSq]) ?_ (by simp [vdot])
    simp only [cross, vsub]; congr 1 <;> ring
  have e1 : planeThroughIf (Gen.V3.length tmin tmax sqrt) ⟨r, b, -n⟩ ⟨r, b, -f⟩ ⟨r, t, -f⟩ = planeND (Gen.V3.length tmin tmax sqrt) ⟨1, 0, 0⟩ r := by
    refine planeThroughIf_of_cross hlen _ _ _ ⟨1, 0, 0⟩ ((f - n) * (t - b)) _ (mul_pos d1 d3) (by simp [normSq]) ?_ (by simp [vdot])
    simp only [cross, vsub]; congr 1 <;> ring
  have e2 : planeThroughIf (Gen.V3.length tmin tmax sqrt) ⟨l, b, -n⟩ ⟨l, b, -f⟩ ⟨r, b, -f⟩ = planeND (Gen.V3.length tmin tmax sqrt) ⟨0, -1, 0⟩ (-b) := by
    refine planeThroughIf_of_cross hlen _ _ _ ⟨0, -1, 0⟩ ((f - n) * (r - l)) _ (mul_pos d1 d2) (by simp [normSq]) ?_ (by simp [vdot])
    simp only [cross, vsub]; congr 1 <;> ring
  have e3 : planeThroughIf (Gen.V3.length tmin tmax sqrt) ⟨l, t, -n⟩ ⟨l, t, -f⟩ ⟨l, b, -f⟩ = planeND (Gen.V3.length tmin tmax sqrt) ⟨-1, 0, 0⟩ (-l) := by
    refine planeThroughIf_of_cross hlen _ _ _ ⟨-1, 0, 0⟩ ((f - n) * (t - b)) _ (mul_pos d1 d3) (by simp [normSq]) ?_ (by simp [vdot])
    simp only [cross, vsub]; congr 1 <;> ring
  simp only [planesM_ortho, h0, h1, h2, h3, h4, h5, mulM44_identity, planes_ortho_struct tmin tmax sqrt hlen, e0, e1, e2, e3,
    planeThrough_near hlen n l r t b (mul_pos d2 d3), planeThrough_far hlen f l r t b (mul_pos d2 d3)]

/-! ## FrustumTest -/
/-- the transposed storage of `setFrustum`, given six planes -/
def transposed (P : Plane3 α × Plane3 α × Plane3 α × Plane3 α × Plane3 α × Plane3 α) :
    V3 α × V3 α × V3 α × V3 α × V3 α × V3 α × V3 α × V3 α × V3 α × V3 α × V3 α × V3 α × V3 α × V3 α :=
  (⟨P.1.normal.x, P.2.1.normal.x, P.2.2.1.normal.x⟩, ⟨P.2.2.2.1.normal.x, P.2.2.2.2.1.normal.x, P.2.2.2.2.2.normal.x⟩,
   ⟨P.1.normal.y, P.2.1.normal.y, P.2.2.1.normal.y⟩, ⟨P.2.2.2.1.normal.y, P.2.2.2.2.1.normal.y, P.2.2.2.2.2.normal.y⟩,
   ⟨P.1.normal.z, P.2.1.normal.z, P.2.2.1.normal.z⟩, ⟨P.2.2.2.1.normal.z, P.2.2.2.2.1.normal.z, P.2.2.2.2.2.normal.z⟩,
   ⟨P.1.distance, P.2.1.distance, P.2.2.1.distance⟩, ⟨P.2.2.2.1.distance, P.2.2.2.2.1.distance, P.2.2.2.2.2.distance⟩,
   ⟨|P.1.normal.x|, |P.2.1.normal.x|, |P.2.2.1.normal.x|⟩, ⟨|P.2.2.2.1.normal.x|, |P.2.2.2.2.1.normal.x|, |P.2.2.2.2.2.normal.x|⟩,
   ⟨|P.1.normal.y|, |P.2.1.normal.y|, |P.2.2.1.normal.y|⟩, ⟨|P.2.2.2.1.normal.y|, |P.2.2.2.2.1.normal.y|, |P.2.2.2.2.2.normal.y|⟩,
   ⟨|P.1.normal.z|, |P.2.1.normal.z|, |P.2.2.1.normal.z|⟩, ⟨|P.2.2.2.1.normal.z|, |P.2.2.2.2.1.normal.z|, |P.2.2.2.2.2.normal.z|⟩)
theorem setFrustum_persp (tmin tmax : α) (sqrt : α → α) (n f l r t b : α) (M : M44 α) :
    Gen.FrustumTest.setFrustum_persp tmin tmax sqrt n f l r t b M = transposed (planesM_persp tmin tmax sqrt n f l r t b M) := by
  simp only [Gen.FrustumTest.setFrustum_persp, transposed, planesM_persp, sabs_eq_abs, add_zero]
theorem setFrustum_ortho (tmin tmax : α) (sqrt : α → α) (n f l r t b : α) (M : M44 α) :
    Gen.FrustumTest.setFrustum_ortho tmin tmax sqrt n f l r t b M = transposed (planesM_ortho tmin tmax sqrt n f l r t b M) := by
  simp only [Gen.FrustumTest.setFrustum_ortho, transposed, planesM_ortho, sabs_eq_abs, add_zero]
theorem isVisiblePoint_persp (tmin tmax : α) (sqrt : α → α) (n f l r t b : α) (M : M44 α) (v : V3 α) :
    Gen.FrustumTest.isVisiblePoint_persp tmin tmax sqrt n f l r t b M v = true ↔
      strictlyInAllPlanes (planesM_persp tmin tmax sqrt n f l r t b M) v := by
  simp only [Gen.FrustumTest.isVisiblePoint_persp, strictlyInAllPlanes, planesM_persp, planeEval]
  exact six_chain_true _ _ _ _ _ _
theorem isVisiblePoint_ortho (tmin tmax : α) (sqrt : α → α) (n f l r t b : α) (M : M44 α) (v : V3 α) :
    Gen.FrustumTest.isVisiblePoint_ortho tmin tmax sqrt n f l r t b M v = true ↔
      strictlyInAllPlanes (planesM_ortho tmin tmax sqrt n f l r t b M) v := by
  simp only [Gen.FrustumTest.isVisiblePoint_ortho, strictlyInAllPlanes, planesM_ortho, planeEval]
  exact six_chain_true _ _ _ _ _ _
macro "ft_sphere " f:ident pm:ident : tactic =>
  `(tactic| (simp only [$f:ident]
             refine ftSphere_eq _ _ _ _ _ _ _ _ _ ?_ ?_ ?_ ?_ ?_ ?_ <;> simp only [sphereTerm, $pm:ident] <;> ring))
macro "ft_box " f:ident pm:ident : tactic =>
  `(tactic| (simp only [$f:ident]
             refine ftBox_eq _ _ _ _ _ _ _ _ _ ?_ ?_ ?_ ?_ ?_ ?_ <;> simp only [boxTerm, $pm:ident] <;> ring))
theorem isVisibleSphere_persp_eq (tmin tmax : α) (sqrt : α → α) (n f l r t b : α) (M : M44 α) (s : Sphere3 α) :
    Gen.FrustumTest.isVisibleSphere_persp tmin tmax sqrt n f l r t b M s = ftSphere (planesM_persp tmin tmax sqrt n f l r t b M) s (-1) := by
  simp only [Gen.FrustumTest.isVisibleSphere_persp]
  refine ftSphere_eq _ s (-1) _ _ _ _ _ _ ?_ ?_ ?_ ?_ ?_ ?_ <;> simp only [sphereTerm, planesM_persp] <;> ring
theorem isVisibleSphere_ortho_eq (tmin tmax : α) (sqrt : α → α) (n f l r t b : α) (M : M44 α) (s : Sphere3 α) :
    Gen.FrustumTest.isVisibleSphere_ortho tmin tmax sqrt n f l r t b M s = ftSphere (planesM_ortho tmin tmax sqrt n f l r t b M) s (-1) := by
  ft_sphere Gen.FrustumTest.isVisibleSphere_ortho planesM_ortho
theorem completelyContainsSphere_persp_eq (tmin tmax : α) (sqrt : α → α) (n f l r t b : α) (M : M44 α) (s : Sphere3 α) :
    Gen.FrustumTest.completelyContainsSphere_persp tmin tmax sqrt n f l r t b M s = ftSphere (planesM_persp tmin tmax sqrt n f l r t b M) s 1 := by
  ft_sphere Gen.FrustumTest.completelyContainsSphere_persp planesM_persp
theorem completelyContainsSphere_ortho_eq (tmin tmax : α) (sqrt : α → α) (n f l r t b : α) (M : M44 α) (s : Sphere3 α) :
    Gen.FrustumTest.completelyContainsSphere_ortho tmin tmax sqrt n f l r t b M s = ftSphere (planesM_ortho tmin tmax sqrt n f l r t b M) s 1 := by
  ft_sphere Gen.FrustumTest.completelyContainsSphere_ortho planesM_ortho
theorem isVisibleBox_persp_eq (tmin tmax : α) (sqrt : α → α) (n f l r t b : α) (M : M44 α) (bx : Box3 α) :
    Gen.FrustumTest.isVisibleBox_persp tmin tmax sqrt n f l r t b M bx = ftBox (planesM_persp tmin tmax sqrt n f l r t b M) bx (-1) := by
  ft_box Gen.FrustumTest.isVisibleBox_persp planesM_persp
theorem isVisibleBox_ortho_eq (tmin tmax : α) (sqrt : α → α) (n f l r t b : α) (M : M44 α) (bx : Box3 α) :
    Gen.FrustumTest.isVisibleBox_ortho tmin tmax sqrt n f l r t b M bx = ftBox (planesM_ortho tmin tmax sqrt n f l r t b M) bx (-1) := by
  ft_box Gen.FrustumTest.isVisibleBox_ortho planesM_ortho
theorem completelyContainsBox_persp_eq (tmin tmax : α) (sqrt : α → α) (n f l r t b : α) (M : M44 α) (bx : Box3 α) :
    Gen.FrustumTest.completelyContainsBox_persp tmin tmax sqrt n f l r t b M bx = ftBox (planesM_persp tmin tmax sqrt n f l r t b M) bx 1 := by
  ft_box Gen.FrustumTest.completelyContainsBox_persp planesM_persp
theorem completelyContainsBox_ortho_eq (tmin tmax : α) (sqrt : α → α) (n f l r t b : α) (M : M44 α) (bx : Box3 α) :
    Gen.FrustumTest.completelyContainsBox_ortho tmin tmax sqrt n f l r t b M bx = ftBox (planesM_ortho tmin tmax sqrt n f l r t b M) bx 1 := by
  ft_box Gen.FrustumTest.completelyContainsBox_ortho planesM_ortho

/-! ### culling, stated on the generated functions (any camera matrix `M`; the six planes are `planes (p, M)`) -/

/-- `isVisible (sphere) = false` ⇒ the ball has no point strictly inside all six planes (never false for an object
that reaches the interior) -/
theorem isVisibleSphere_persp_false (tmin tmax : α) (sqrt : α → α) (hlen : LenSpec (Gen.V3.length tmin tmax sqrt)) (n f l r t b : α)
    (M : M44 α) (s : Sphere3 α) (hr : 0 ≤ s.radius)
    (h : Gen.FrustumTest.isVisibleSphere_persp tmin tmax sqrt n f l r t b M s = false) (q : V3 α) (hq : sphereMem s q) :
    ¬ strictlyInAllPlanes (planesM_persp tmin tmax sqrt n f l r t b M) q :=
  ftSphere_visible_false _ s (planesM_persp_normals_le_one tmin tmax sqrt hlen n f l r t b M) hr
    (by rw [← isVisibleSphere_persp_eq]; exact h) q hq
theorem isVisibleSphere_ortho_false (tmin tmax : α) (sqrt : α → α) (hlen : LenSpec (Gen.V3.length tmin tmax sqrt)) (n f l r t b : α)
    (M : M44 α) (s : Sphere3 α) (hr : 0 ≤ s.radius)
    (h : Gen.FrustumTest.isVisibleSphere_ortho tmin tmax sqrt n f l r t b M s = false) (q : V3 α) (hq : sphereMem s q) :
    ¬ strictlyInAllPlanes (planesM_ortho tmin tmax sqrt n f l r t b M) q :=
  ftSphere_visible_false _ s (planesM_ortho_normals_le_one tmin tmax sqrt hlen n f l r t b M) hr
    (by rw [← isVisibleSphere_ortho_eq]; exact h) q hq
/-- `completelyContains (sphere) = true` ⇒ every point of the ball is strictly inside all six planes -/
theorem completelyContainsSphere_persp_true (tmin tmax : α) (sqrt : α → α) (hlen : LenSpec (Gen.V3.length tmin tmax sqrt)) (n f l r t b : α)
    (M : M44 α) (s : Sphere3 α) (hr : 0 ≤ s.radius)
    (h : Gen.FrustumTest.completelyContainsSphere_persp tmin tmax sqrt n f l r t b M s = true) (q : V3 α) (hq : sphereMem s q) :
    strictlyInAllPlanes (planesM_persp tmin tmax sqrt n f l r t b M) q :=
  ftSphere_contains_true _ s (planesM_persp_normals_le_one tmin tmax sqrt hlen n f l r t b M) hr
    (by rw [← completelyContainsSphere_persp_eq]; exact h) q hq
theorem completelyContainsSphere_ortho_true (tmin tmax : α) (sqrt : α → α) (hlen : LenSpec (Gen.V3.length tmin tmax sqrt)) (n f l r t b : α)
    (M : M44 α) (s : Sphere3 α) (hr : 0 ≤ s.radius)
    (h : Gen.FrustumTest.completelyContainsSphere_ortho tmin tmax sqrt n f l r t b M s = true) (q : V3 α) (hq : sphereMem s q) :
    strictlyInAllPlanes (planesM_ortho tmin tmax sqrt n f l r t b M) q :=
  ftSphere_contains_true _ s (planesM_ortho_normals_le_one tmin tmax sqrt hlen n f l r t b M) hr
    (by rw [← completelyContainsSphere_ortho_eq]; exact h) q hq
/-- `isVisible (box) = false` ⇒ the box has no point strictly inside all six planes (no hypothesis on the normals:
the support-function bound `|n|·extent` is exact) -/
theorem isVisibleBox_persp_false (tmin tmax : α) (sqrt : α → α) (n f l r t b : α) (M : M44 α) (bx : Box3 α)
    (h : Gen.FrustumTest.isVisibleBox_persp tmin tmax sqrt n f l r t b M bx = false) (q : V3 α) (hq : boxMem bx q) :
    ¬ strictlyInAllPlanes (planesM_persp tmin tmax sqrt n f l r t b M) q :=
  ftBox_visible_false _ bx (by rw [← isVisibleBox_persp_eq]; exact h) q hq
theorem isVisibleBox_ortho_false (tmin tmax : α) (sqrt : α → α) (n f l r t b : α) (M : M44 α) (bx : Box3 α)
    (h : Gen.FrustumTest.isVisibleBox_ortho tmin tmax sqrt n f l r t b M bx = false) (q : V3 α) (hq : boxMem bx q) :
    ¬ strictlyInAllPlanes (planesM_ortho tmin tmax sqrt n f l r t b M) q :=
  ftBox_visible_false _ bx (by rw [← isVisibleBox_ortho_eq]; exact h) q hq
/-- `completelyContains (box) = true` ⇒ every point of the box is strictly inside all six planes -/
theorem completelyContainsBox_persp_true (tmin tmax : α) (sqrt : α → α) (n f l r t b : α) (M : M44 α) (bx : Box3 α)
    (h : Gen.FrustumTest.completelyContainsBox_persp tmin tmax sqrt n f l r t b M bx = true) (q : V3 α) (hq : boxMem bx q) :
    strictlyInAllPlanes (planesM_persp tmin tmax sqrt n f l r t b M) q :=
  ftBox_contains_true _ bx (by rw [← completelyContainsBox_persp_eq]; exact h) q hq
theorem completelyContainsBox_ortho_true (tmin tmax : α) (sqrt : α → α) (n f l r t b : α) (M : M44 α) (bx : Box3 α)
    (h : Gen.FrustumTest.completelyContainsBox_ortho tmin tmax sqrt n f l r t b M bx = true) (q : V3 α) (hq : boxMem bx q) :
    strictlyInAllPlanes (planesM_ortho tmin tmax sqrt n f l r t b M) q :=
  ftBox_contains_true _ bx (by rw [← completelyContainsBox_ortho_eq]; exact h) q hq

/-! ### end to end, identity camera: the six stored planes are those of `planes (p)`, whose strict intersection is the
interior of the frustum.  (For a general camera matrix the link "planes (p, M) = planes (p) mapped by M" is
`planesM_*_affine` below for affine orientation-preserving `M`; mirrored or projective `M` are not covered: `_partial`.) -/
theorem isVisiblePoint_persp_identity (tmin tmax : α) (sqrt : α → α) (hlen : LenSpec (Gen.V3.length tmin tmax sqrt)) (n f l r t b : α)
    (hn : 0 < n) (hf : f ≠ 0) (hlr : l < r) (hbt : b < t) (v : V3 α) :
    Gen.FrustumTest.isVisiblePoint_persp tmin tmax sqrt n f l r t b identity44 v = true ↔ interiorPersp n f l r t b v := by
  rw [isVisiblePoint_persp, planesM_persp_identity tmin tmax sqrt hlen n f l r t b hn hf hlr hbt,
    planes_persp_interior tmin tmax sqrt hlen n f l r t b hn hlr hbt]
theorem isVisiblePoint_ortho_identity (tmin tmax : α) (sqrt : α → α) (hlen : LenSpec (Gen.V3.length tmin tmax sqrt)) (n f l r t b : α)
    (hnf : n < f) (hlr : l < r) (hbt : b < t) (v : V3 α) :
    Gen.FrustumTest.isVisiblePoint_ortho tmin tmax sqrt n f l r t b identity44 v = true ↔ interiorOrtho n f l r t b v := by
  rw [isVisiblePoint_ortho, planesM_ortho_identity tmin tmax sqrt hlen n f l r t b hnf hlr hbt,
    planes_ortho_interior tmin tmax sqrt hlen n f l r t b]


/-! FULL STATEMENT of the property's clause (not proved in this generality):
     for EVERY camera matrix M, planes (p, M) i = (planes (p) i) transformed by M            (all i < 6).
   What is proved below (`planesM_persp_affine`, `planesM_ortho_affine`) is this clause on half-spaces for every AFFINE M
   with POSITIVE determinant; the names carry `_affine` instead of `_partial`.  Missing: det < 0 (there the code's normals
   point inwards, as `Plane3 * M` would also give; FrustumTest then culls the inside — measured by c16_corr.cpp), projective M,
   and the identification with `Plane3::operator* (M)` (C15's extraction). -/
/-! ### `planes (p, M)` = the planes of `planes (p)` mapped by `M`, for affine orientation-preserving `M`
(rigid motions and uniform or non-uniform positive scalings included).  Stated on half-spaces: a point `q` is inside a
plane of `planes (p)` iff its image `q * M` is inside the corresponding plane of `planes (p, M)`.
NOT covered (`_partial` with respect to "all camera matrices"): mirrored `M` (`det < 0`: the code's normals then point
INWARDS — measured by c16_corr.cpp, reported as a limitation) and projective `M`. -/
theorem planesM_persp_affine (tmin tmax : α) (sqrt : α → α) (hlen : LenSpec (Gen.V3.length tmin tmax sqrt)) (n f l r t b : α)
    (hn : 0 < n) (hf : f ≠ 0) (hlr : l < r) (hbt : b < t) (M : M44 α) (hM : IsAffine M) (hdet : 0 < det3 M) (q : V3 α) :
    (strictlyInAllPlanes (planesM_persp tmin tmax sqrt n f l r t b M) (Gen.V3.mulM44 q M) ↔ interiorPersp n f l r t b q) ∧
    (inAllPlanes (planesM_persp tmin tmax sqrt n f l r t b M) (Gen.V3.mulM44 q M) ↔ regionPersp n f l r t b q) := by
  have hn' := ne_of_gt hn
  have h1' : r - l ≠ 0 := ne_of_gt (sub_pos.mpr hlr)
  have h2' : t - b ≠ 0 := ne_of_gt (sub_pos.mpr hbt)
  have hs : f / n ≠ 0 := div_ne_zero hf hn'
  obtain ⟨a0, a1, a2, a3, a4, a5⟩ := planesM_persp_struct tmin tmax sqrt n f l r t b M
  obtain ⟨i0, i1, i2, i3, i4, i5⟩ := planesM_persp_struct tmin tmax sqrt n f l r t b identity44
  simp only [mulM44_identity] at i0 i1 i2 i3 i4 i5
  have key := planes_pos_factors (planesM_persp tmin tmax sqrt n f l r t b M) (planesM_persp tmin tmax sqrt n f l r t b identity44)
    (Gen.V3.mulM44 q M) q
    (by obtain ⟨κ, hκ, e⟩ := planeThroughIf_affine hlen M hM hdet ⟨0, 0, 0⟩ ⟨r, t, -n⟩ ⟨l, t, -n⟩
          (by rw [cross_top n l r t]; exact normSq_ne_zero_of_y _ _ _ (mul_ne_zero hn' h1'))
        exact ⟨κ, hκ, by simp only [planesM_persp, a0, i0]; exact e q⟩)
    (by obtain ⟨κ, hκ, e⟩ := planeThroughIf_affine hlen M hM hdet ⟨0, 0, 0⟩ ⟨r, b, -n⟩ ⟨r, t, -n⟩
          (by rw [cross_right n r t b]; exact normSq_ne_zero_of_x _ _ _ (mul_ne_zero hn' h2'))
        exact ⟨κ, hκ, by simp only [planesM_persp, a1, i1]; exact e q⟩)
    (by obtain ⟨κ, hκ, e⟩ := planeThroughIf_affine hlen M hM hdet ⟨0, 0, 0⟩ ⟨l, b, -n⟩ ⟨r, b, -n⟩
          (by rw [cross_bottom n l r b]; exact normSq_ne_zero_of_y _ _ _ (neg_ne_zero.mpr (mul_ne_zero hn' h1')))
        exact ⟨κ, hκ, by simp only [planesM_persp, a2, i2]; exact e q⟩)
    (by obtain ⟨κ, hκ, e⟩ := planeThroughIf_affine hlen M hM hdet ⟨0, 0, 0⟩ ⟨l, t, -n⟩ ⟨l, b, -n⟩
          (by rw [cross_left n l t b]; exact normSq_ne_zero_of_x _ _ _ (neg_ne_zero.mpr (mul_ne_zero hn' h2')))
        exact ⟨κ, hκ, by simp only [planesM_persp, a3, i3]; exact e q⟩)
    (by obtain ⟨κ, hκ, e⟩ := planeThroughIf_affine hlen M hM hdet ⟨l, b, -n⟩ ⟨r, b, -n⟩ ⟨r, t, -n⟩
          (by rw [cross_near n l r t b]; exact normSq_ne_zero_of_z _ _ _ (mul_ne_zero h1' h2'))
        exact ⟨κ, hκ, by simp only [planesM_persp, a4, i4]; exact e q⟩)
    (by obtain ⟨κ, hκ, e⟩ := planeThroughIf_affine hlen M hM hdet ⟨f / n * l, f / n * b, -f⟩ ⟨f / n * l, f / n * t, -f⟩ ⟨f / n * r, f / n * t, -f⟩
          (by rw [cross_far f (f / n * l) (f / n * r) (f / n * t) (f / n * b)]
              refine normSq_ne_zero_of_z _ _ _ (neg_ne_zero.mpr ?_)
              have : (f / n * r - f / n * l) * (f / n * t - f / n * b) = (f / n) * (f / n) * ((r - l) * (t - b)) := by ring
              rw [this]; exact mul_ne_zero (mul_ne_zero hs hs) (mul_ne_zero h1' h2'))
        exact ⟨κ, hκ, by simp only [planesM_persp, a5, i5]; exact e q⟩)
  rw [key.1, key.2, planesM_persp_identity tmin tmax sqrt hlen n f l r t b hn hf hlr hbt,
    planes_persp_interior tmin tmax sqrt hlen n f l r t b hn hlr hbt, planes_persp_region tmin tmax sqrt hlen n f l r t b hn hlr hbt]
  exact ⟨Iff.rfl, Iff.rfl⟩

theorem planesM_ortho_affine (tmin tmax : α) (sqrt : α → α) (hlen : LenSpec (Gen.V3.length tmin tmax sqrt)) (n f l r t b : α)
    (hnf : n < f) (hlr : l < r) (hbt : b < t) (M : M44 α) (hM : IsAffine M) (hdet : 0 < det3 M) (q : V3 α) :
    (strictlyInAllPlanes (planesM_ortho tmin tmax sqrt n f l r t b M) (Gen.V3.mulM44 q M) ↔ interiorOrtho n f l r t b q) ∧
    (inAllPlanes (planesM_ortho tmin tmax sqrt n f l r t b M) (Gen.V3.mulM44 q M) ↔ regionOrtho n f l r t b q) := by
  have d1 : f - n ≠ 0 := ne_of_gt (sub_pos.mpr hnf)
  have h1' : r - l ≠ 0 := ne_of_gt (sub_pos.mpr hlr)
  have h2' : t - b ≠ 0 := ne_of_gt (sub_pos.mpr hbt)
  obtain ⟨a0, a1, a2, a3, a4, a5⟩ := planesM_ortho_struct tmin tmax sqrt n f l r t b M
  obtain ⟨i0, i1, i2, i3, i4, i5⟩ := planesM_ortho_struct tmin tmax sqrt n f l r t b identity44
  simp only [mulM44_identity] at i0 i1 i2 i3 i4 i5
  have c0 : cross (vsub ⟨r, t, -f⟩ ⟨r, t, -n⟩) (vsub ⟨l, t, -f⟩ ⟨r, t, -n⟩) = (⟨0, (f - n) * (r - l), 0⟩ : V3 α) := by
    simp only [cross, vsub]; congr 1 <;> ring
  have c1 : cross (vsub ⟨r, b, -f⟩ ⟨r, b, -n⟩) (vsub ⟨r, t, -f⟩ ⟨r, b, -n⟩) = (⟨(f - n) * (t - b), 0, 0⟩ : V3 α) := by
    simp only [cross, vsub]; congr 1 <;> ring
  have c2 : cross (vsub ⟨l, b, -f⟩ ⟨l, b, -n⟩) (vsub ⟨r, b, -f⟩ ⟨l, b, -n⟩) = (⟨0, -((f - n) * (r - l)), 0⟩ : V3 α) := by
    simp only [cross, vsub]; congr 1 <;> ring
  have c3 : cross (vsub ⟨l, t, -f⟩ ⟨l, t, -n⟩) (vsub ⟨l, b, -f⟩ ⟨l, t, -n⟩) = (⟨-((f - n) * (t - b)), 0, 0⟩ : V3 α) := by
    simp only [cross, vsub]; congr 1 <;> ring
  have key := planes_pos_factors (planesM_ortho tmin tmax sqrt n f l r t b M) (planesM_ortho tmin tmax sqrt n f l r t b identity44)
    (Gen.V3.mulM44 q M) q
    (by obtain ⟨κ, hκ, e⟩ := planeThroughIf_affine hlen M hM hdet ⟨r, t, -n⟩ ⟨r, t, -f⟩ ⟨l, t, -f⟩
          (by rw [c0]; exact normSq_ne_zero_of_y _ _ _ (mul_ne_zero d1 h1'))
        exact ⟨κ, hκ, by simp only [planesM_ortho, a0, i0]; exact e q⟩)
    (by obtain ⟨κ, hκ, e⟩ := planeThroughIf_affine hlen M hM hdet ⟨r, b, -n⟩ ⟨r, b, -f⟩ ⟨r, t, -f⟩
          (by rw [c1]; exact normSq_ne_zero_of_x _ _ _ (mul_ne_zero d1 h2'))
        exact ⟨κ, hκ, by simp only [planesM_ortho, a1, i1]; exact e q⟩)
    (by obtain ⟨κ, hκ, e⟩ := planeThroughIf_affine hlen M hM hdet ⟨l, b, -n⟩ ⟨l, b, -f⟩ ⟨r, b, -f⟩
          (by rw [c2]; exact normSq_ne_zero_of_y _ _ _ (neg_ne_zero.mpr (mul_ne_zero d1 h1')))
        exact ⟨κ, hκ, by simp only [planesM_ortho, a2, i2]; exact e q⟩)
    (by obtain ⟨κ, hκ, e⟩ := planeThroughIf_affine hlen M hM hdet ⟨l, t, -n⟩ ⟨l, t, -f⟩ ⟨l, b, -f⟩
          (by rw [c3]; exact normSq_ne_zero_of_x _ _ _ (neg_ne_zero.mpr (mul_ne_zero d1 h2')))
        exact ⟨κ, hκ, by simp only [planesM_ortho, a3, i3]; exact e q⟩)
    (by obtain ⟨κ, hκ, e⟩ := planeThroughIf_affine hlen M hM hdet ⟨l, b, -n⟩ ⟨r, b, -n⟩ ⟨r, t, -n⟩
          (by rw [cross_near n l r t b]; exact normSq_ne_zero_of_z _ _ _ (mul_ne_zero h1' h2'))
        exact ⟨κ, hκ, by simp only [planesM_ortho, a4, i4]; exact e q⟩)
    (by obtain ⟨κ, hκ, e⟩ := planeThroughIf_affine hlen M hM hdet ⟨l, b, -f⟩ ⟨l, t, -f⟩ ⟨r, t, -f⟩
          (by rw [cross_far f l r t b]; exact normSq_ne_zero_of_z _ _ _ (neg_ne_zero.mpr (mul_ne_zero h1' h2')))
        exact ⟨κ, hκ, by simp only [planesM_ortho, a5, i5]; exact e q⟩)
  rw [key.1, key.2, planesM_ortho_identity tmin tmax sqrt hlen n f l r t b hnf hlr hbt,
    planes_ortho_interior tmin tmax sqrt hlen n f l r t b, planes_ortho_region tmin tmax sqrt hlen n f l r t b]
  exact ⟨Iff.rfl, Iff.rfl⟩

/-- **isVisible (point)** is membership in the interior of the frustum moved by the camera matrix (affine, orientation
preserving): the world point `q * M` is visible iff the camera-space point `q` is in the open frustum -/
theorem isVisiblePoint_persp_affine (tmin tmax : α) (sqrt : α → α) (hlen : LenSpec (Gen.V3.length tmin tmax sqrt)) (n f l r t b : α)
    (hn : 0 < n) (hf : f ≠ 0) (hlr : l < r) (hbt : b < t) (M : M44 α) (hM : IsAffine M) (hdet : 0 < det3 M) (q : V3 α) :
    Gen.FrustumTest.isVisiblePoint_persp tmin tmax sqrt n f l r t b M (Gen.V3.mulM44 q M) = true ↔ interiorPersp n f l r t b q := by
  rw [isVisiblePoint_persp]; exact (planesM_persp_affine tmin tmax sqrt hlen n f l r t b hn hf hlr hbt M hM hdet q).1
theorem isVisiblePoint_ortho_affine (tmin tmax : α) (sqrt : α → α) (hlen : LenSpec (Gen.V3.length tmin tmax sqrt)) (n f l r t b : α)
    (hnf : n < f) (hlr : l < r) (hbt : b < t) (M : M44 α) (hM : IsAffine M) (hdet : 0 < det3 M) (q : V3 α) :
    Gen.FrustumTest.isVisiblePoint_ortho tmin tmax sqrt n f l r t b M (Gen.V3.mulM44 q M) = true ↔ interiorOrtho n f l r t b q := by
  rw [isVisiblePoint_ortho]; exact (planesM_ortho_affine tmin tmax sqrt hlen n f l r t b hnf hlr hbt M hM hdet q).1
/-- a rigid-plus-uniform-scale camera matrix satisfying the hypotheses: scale 2, rotate 90° about z, translate (5,6,7) -/
example : IsAffine (⟨0, 2, 0, 0, -2, 0, 0, 0, 0, 0, 2, 0, 5, 6, 7, 1⟩ : M44 ℚ) ∧ 0 < det3 (⟨0, 2, 0, 0, -2, 0, 0, 0, 0, 0, 2, 0, 5, 6, 7, 1⟩ : M44 ℚ) := by
  constructor
  · exact ⟨rfl, rfl, rfl, rfl⟩
  · norm_num [det3]

/-! ## members no clause names: operator=, copy constructor, default constructor, ==, !=, hither / yon, FrustumTest's stores -/
theorem assign_persp (n f l r t b : α) : Gen.Frustum.assign_persp n f l r t b = (n, f, l, r, t, b, false) := rfl
theorem assign_ortho (n f l r t b : α) : Gen.Frustum.assign_ortho n f l r t b = (n, f, l, r, t, b, true) := rfl
theorem copyCtor_persp (n f l r t b : α) : Gen.Frustum.copyCtor_persp n f l r t b = (n, f, l, r, t, b, false) := rfl
theorem copyCtor_ortho (n f l r t b : α) : Gen.Frustum.copyCtor_ortho n f l r t b = (n, f, l, r, t, b, true) := rfl
theorem hitherYon_persp (n f l r t b : α) : Gen.Frustum.hitherYon_persp n f l r t b = (n, f) := rfl
theorem hitherYon_ortho (n f l r t b : α) : Gen.Frustum.hitherYon_ortho n f l r t b = (n, f) := rfl
/-- `Frustum ()`: near `T (0.1)` (the literal is the double nearest to 1/10), far 1000, window [-1,1]², perspective -/
theorem defaultCtor : (Gen.Frustum.defaultCtor : α × α × α × α × α × α × Bool) =
    ((3602879701896397 : α) / 36028797018963968, 1000, -1, 1, 1, -1, false) := rfl
example : |(3602879701896397 : ℚ) / 36028797018963968 - 1 / 10| < 1 / 10 ^ 17 := by norm_num [abs_lt]
/-- `operator==` is equality of all seven fields, `operator!=` its negation -/
theorem eq_persp_persp (n f l r t b n2 f2 l2 r2 t2 b2 : α) :
    Gen.Frustum.eq_persp_persp n f l r t b n2 f2 l2 r2 t2 b2 =
      (decide (n = n2 ∧ f = f2 ∧ l = l2 ∧ r = r2 ∧ t = t2 ∧ b = b2), !decide (n = n2 ∧ f = f2 ∧ l = l2 ∧ r = r2 ∧ t = t2 ∧ b = b2)) := by
  simp only [Gen.Frustum.eq_persp_persp]; split_ifs <;> simp_all
theorem eq_ortho_ortho (n f l r t b n2 f2 l2 r2 t2 b2 : α) :
    Gen.Frustum.eq_ortho_ortho n f l r t b n2 f2 l2 r2 t2 b2 =
      (decide (n = n2 ∧ f = f2 ∧ l = l2 ∧ r = r2 ∧ t = t2 ∧ b = b2), !decide (n = n2 ∧ f = f2 ∧ l = l2 ∧ r = r2 ∧ t = t2 ∧ b = b2)) := by
  simp only [Gen.Frustum.eq_ortho_ortho]; split_ifs <;> simp_all
theorem eq_persp_ortho (n f l r t b n2 f2 l2 r2 t2 b2 : α) : Gen.Frustum.eq_persp_ortho n f l r t b n2 f2 l2 r2 t2 b2 = (false, true) := by
  simp only [Gen.Frustum.eq_persp_ortho]; split_ifs <;> rfl
theorem eq_ortho_persp (n f l r t b n2 f2 l2 r2 t2 b2 : α) : Gen.Frustum.eq_ortho_persp n f l r t b n2 f2 l2 r2 t2 b2 = (false, true) := by
  simp only [Gen.Frustum.eq_ortho_persp]; split_ifs <;> rfl
theorem stores_persp (n f l r t b : α) (M : M44 α) : Gen.FrustumTest.stores_persp n f l r t b M = (n, f, l, r, t, b, false, M) := rfl
theorem stores_ortho (n f l r t b : α) (M : M44 α) : Gen.FrustumTest.stores_ortho n f l r t b M = (n, f, l, r, t, b, true, M) := rfl
/-- `FrustumTest ()` = `setFrustum (Frustum (), identity)` -/
theorem frustumTest_defaultCtor (tmin tmax : α) (sqrt : α → α) :
    Gen.FrustumTest.defaultCtor tmin tmax sqrt =
      ((3602879701896397 : α) / 36028797018963968, 1000, -1, 1, 1, -1, false, identity44,
        Gen.FrustumTest.setFrustum_persp tmin tmax sqrt ((3602879701896397 : α) / 36028797018963968) 1000 (-1) 1 1 (-1) identity44) := rfl
/-- `Vec3 * Matrix44` re-extracted in this check is the `Gen.V3.mulM44` the projection theorems are stated with -/
theorem V3mulM44_eq (v : V3 α) (m : M44 α) : Gen.Frustum.V3mulM44 v m = Gen.V3.mulM44 v m := rfl

/-! the `point.z == 0` branch of the perspective `projectPointToScreen`: falls back to the orthographic formula -/
theorem projectPointToScreen_persp_z0 (n f l r t b : α) (p : V3 α) (hz : p.z = 0) :
    Gen.Frustum.projectPointToScreen_persp n f l r t b p = Gen.Frustum.localToScreen_persp n f l r t b ⟨p.x, p.y⟩ ∧
    Gen.Frustum.projectPointToScreen_persp n f l r t b p = Gen.Frustum.projectPointToScreen_ortho n f l r t b p := by
  constructor <;>
    simp only [Gen.Frustum.projectPointToScreen_persp, if_pos hz, Gen.Frustum.localToScreen_persp, Gen.Frustum.projectPointToScreen_ortho]

/-! the ray is a RAY: origin at the eye (perspective) / on the plane z = 0 (orthographic), unit direction, pointing forward (−z) -/
theorem projectScreenToRay_persp_forward (tmin tmax : α) (sqrt : α → α) (hlen : LenSpec (Gen.V3.length tmin tmax sqrt)) (n f l r t b : α)
    (hn : 0 < n) (s : V2 α) :
    let L := Gen.Frustum.projectScreenToRay_persp tmin tmax sqrt n f l r t b s
    L.pos = ⟨0, 0, 0⟩ ∧ normSq L.dir = 1 ∧ L.dir.z < 0 := by
  have hv : normSq (⟨l + (r - l) * (1 + s.x) / 2 - 0, b + (t - b) * (1 + s.y) / 2 - 0, -n - 0⟩ : V3 α) ≠ 0 :=
    normSq_ne_zero_of_z _ _ _ (by rw [sub_zero]; exact neg_ne_zero.mpr (ne_of_gt hn))
  have hp := lenSpec_pos hlen _ hv
  simp only [Gen.Frustum.projectScreenToRay_persp, if_neg (ne_of_gt hp)]
  refine ⟨by trivial, normalizeWith_normSq hlen _ hv, ?_⟩
  simp only [sub_zero]
  exact div_neg_of_neg_of_pos (neg_neg_of_pos hn) (by simpa only [sub_zero] using hp)
theorem projectScreenToRay_ortho_forward (tmin tmax : α) (sqrt : α → α) (hlen : LenSpec (Gen.V3.length tmin tmax sqrt)) (n f l r t b : α)
    (s : V2 α) :
    Gen.Frustum.projectScreenToRay_ortho tmin tmax sqrt n f l r t b s =
      ⟨⟨(Gen.Frustum.screenToLocal_persp n f l r t b s).x, (Gen.Frustum.screenToLocal_persp n f l r t b s).y, 0⟩, ⟨0, 0, -1⟩⟩ := by
  have h1 : Gen.V3.length tmin tmax sqrt ⟨0, 0, -1⟩ = 1 := lenSpec_eq_one hlen _ (by simp [normSq])
  simp only [Gen.Frustum.projectScreenToRay_ortho, Gen.Frustum.screenToLocal_persp, sub_self, sub_zero, h1, one_ne_zero, if_false,
    zero_div, div_one]

/-! ## `fovx / fovy / aspect` OF the frustum made by `set (near, far, fovx, fovy, aspect)`, stated on the generated `setFov` itself -/
/-- apply an accessor (a function of the six scalars) to a frustum state -/
def onFrustum {β : Type} (g : α → α → α → α → α → α → β) (F : α × α × α × α × α × α × Bool) : β :=
  g F.1 F.2.1 F.2.2.1 F.2.2.2.1 F.2.2.2.2.1 F.2.2.2.2.2.1
theorem fovx_setFov (tan : α → α) (atan2 : α → α → α) (n f l r t b n' f' fovx fovy aspect : α) (hx : fovx ≠ 0)
    (h1 : atan2 (n' * tan (fovx / 2)) n' = fovx / 2) (h2 : atan2 (-(n' * tan (fovx / 2))) n' = -(fovx / 2)) :
    onFrustum (Gen.Frustum.fovx_persp atan2) (Gen.Frustum.setFov_persp tan n f l r t b n' f' fovx fovy aspect) = fovx := by
  rw [setFov_fovx_form tan n f l r t b n' f' fovx fovy aspect hx]
  simp only [onFrustum, Gen.Frustum.fovx_persp, h1, h2]; ring
theorem fovy_setFov (tan : α → α) (atan2 : α → α → α) (n f l r t b n' f' fovy aspect : α)
    (h1 : atan2 (n' * tan (fovy / 2)) n' = fovy / 2) (h2 : atan2 (-(n' * tan (fovy / 2))) n' = -(fovy / 2)) :
    onFrustum (Gen.Frustum.fovy_persp atan2) (Gen.Frustum.setFov_persp tan n f l r t b n' f' 0 fovy aspect) = fovy := by
  rw [setFov_fovy_form tan n f l r t b n' f' fovy aspect]
  simp only [onFrustum, Gen.Frustum.fovy_persp, h1, h2]; ring
theorem aspect_setFov_fovx (tan : α → α) (n f l r t b n' f' fovx fovy aspect : α) (hx : fovx ≠ 0) (ha : aspect ≠ 0)
    (hw : n' * tan (fovx / 2) ≠ 0) :
    onFrustum Gen.Frustum.aspect_persp (Gen.Frustum.setFov_persp tan n f l r t b n' f' fovx fovy aspect) = aspect := by
  obtain ⟨hn', ht⟩ := mul_ne_zero_iff.mp hw
  rw [setFov_fovx_form tan n f l r t b n' f' fovx fovy aspect hx]
  simp only [onFrustum, Gen.Frustum.aspect_persp]
  field_simp <;> ring
theorem aspect_setFov_fovy (tan : α → α) (n f l r t b n' f' fovy aspect : α) (hw : n' * tan (fovy / 2) ≠ 0) :
    onFrustum Gen.Frustum.aspect_persp (Gen.Frustum.setFov_persp tan n f l r t b n' f' 0 fovy aspect) = aspect := by
  obtain ⟨hn', ht⟩ := mul_ne_zero_iff.mp hw
  rw [setFov_fovy_form tan n f l r t b n' f' fovy aspect]
  simp only [onFrustum, Gen.Frustum.aspect_persp]
  field_simp <;> ring

/-! ## non-vacuity: a concrete asymmetric frustum over ℚ (near 1, far 10, window [-2,3] × [-1,2]) and the length hypothesis -/
example : (1 : ℚ) ≠ 0 ∧ (10 : ℚ) ≠ 0 ∧ (1 : ℚ) ≠ 10 ∧ (-2 : ℚ) ≠ 3 ∧ (-1 : ℚ) ≠ 2 ∧ (0 : ℚ) < 1 ∧ (1 : ℚ) < 10 ∧ (-2 : ℚ) < 3 ∧ (-1 : ℚ) < 2 := by
  norm_num
/-- far-top-right corner (scaled by far/near) ↦ (1,1,1); near-bottom-left ↦ (−1,−1,−1) -/
theorem witness_projectionMatrix_persp : Gen.V3.mulM44 ⟨30, 20, -10⟩ (Gen.Frustum.projectionMatrix_persp (1 : ℚ) 10 (-2) 3 2 (-1)) = ⟨1, 1, 1⟩ ∧
    Gen.V3.mulM44 ⟨-2, -1, -1⟩ (Gen.Frustum.projectionMatrix_persp (1 : ℚ) 10 (-2) 3 2 (-1)) = ⟨-1, -1, -1⟩ := by
  constructor <;> norm_num [Gen.V3.mulM44, Gen.Frustum.projectionMatrix_persp]
theorem witness_projectionMatrix_ortho : Gen.V3.mulM44 ⟨3, 2, -10⟩ (Gen.Frustum.projectionMatrix_ortho (1 : ℚ) 10 (-2) 3 2 (-1)) = ⟨1, 1, 1⟩ := by
  norm_num [Gen.V3.mulM44, Gen.Frustum.projectionMatrix_ortho]
/-- a point that projects inside the screen, and its depth -/
theorem witness_projectPointToScreen_depth : Gen.Frustum.projectPointToScreen_persp (1 : ℚ) 10 (-2) 3 2 (-1) ⟨1, 1, -2⟩ = ⟨0, 0⟩ ∧
    Gen.Frustum.normalizedZToDepth_persp (1 : ℚ) 10 (-2) 3 2 (-1) (1 / 2) = -20 / 11 := by
  constructor <;> norm_num [Gen.Frustum.projectPointToScreen_persp, Gen.Frustum.normalizedZToDepth_persp]
/-- the region and the interior are inhabited, and a point outside exists -/
example : interiorPersp (1 : ℚ) 10 (-2) 3 2 (-1) ⟨1, 1, -2⟩ ∧ regionPersp (1 : ℚ) 10 (-2) 3 2 (-1) ⟨3, 2, -1⟩ ∧
    ¬ regionPersp (1 : ℚ) 10 (-2) 3 2 (-1) ⟨0, 0, 0⟩ := by
  refine ⟨?_, ?_, ?_⟩ <;> norm_num [interiorPersp, regionPersp]
/-- the length hypothesis is satisfiable: the extracted `Vec3::length` over ℝ with the real square root (all 129 paths) -/
example (tmin tmax : ℝ) : LenSpec (Gen.V3.length tmin tmax Real.sqrt) := lenSpec_real tmin tmax
/-- … so e.g. the region theorem applies to the real frustum with these numbers -/
theorem witness_planes_persp_region_real (p : V3 ℝ) : inAllPlanes (Gen.Frustum.planes_persp (2⁻¹ ^ 1022) (2 ^ 1024) Real.sqrt 1 10 (-2) 3 2 (-1)) p ↔ regionPersp 1 10 (-2) 3 2 (-1) p :=
  planes_persp_region _ _ _ (lenSpec_real _ _) 1 10 (-2) 3 2 (-1) (by norm_num) (by norm_num) (by norm_num) p
/-- sphere / box hypotheses: the unit ball and the unit box -/
example : (0 : ℚ) ≤ (⟨⟨0, 0, -3⟩, 1⟩ : Sphere3 ℚ).radius ∧ sphereMem (⟨⟨0, 0, -3⟩, 1⟩ : Sphere3 ℚ) ⟨0, 1, -3⟩ ∧
    boxMem (⟨⟨-1, -1, -4⟩, ⟨1, 1, -2⟩⟩ : Box3 ℚ) ⟨0, 1, -3⟩ := by
  refine ⟨?_, ?_, ?_⟩ <;> norm_num [sphereMem, boxMem]

end ImathVerif.C16
