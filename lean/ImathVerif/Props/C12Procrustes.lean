import ImathVerif.Gen.C12P
import ImathVerif.Spec.MatSpec
import ImathVerif.Lemmas.C11Lemmas
import Mathlib.Tactic.Ring
import Mathlib.Tactic.FieldSimp
import Mathlib.Tactic.FinCases
import Mathlib.Tactic.LinearCombination
import Mathlib.Algebra.Order.Field.Basic
import Mathlib.LinearAlgebra.Matrix.Determinant.Basic
/-!
# C12 — `procrustesRotationAndTranslation` on three points (T-route, audit S7)

`Gen/C12P.lean` is extracted from the TEXT of ImathMatrixAlgo.cpp 73-269 with its `double` arithmetic made symbolic
(harness/sym/sym_c12p.cpp) and validated bitwise at double against the real function on every run.  `jacobiSVD (C, U, S, V, eps,
forcePositiveDeterminant = true)` is a pair of uninterpreted parameters `svdU svdV : M33 α → M33 α` (`S` is not used by the code).

Exact arithmetic over an ordered field; row-vector convention (`p ↦ p * M`).  Proved for `doScale = false`, weighted and unweighted:
* the value: `translate (-cA) · (V·Uᵀ) · translate (cB)` with `cA`, `cB` the (weighted) centroids and `U, V` the factors the solver
  returns for the (weighted) covariance `C = Σ w (b - cB) ⊗ (a - cA)` (`procrustes3_weighted`, `procrustes3_unweighted`; the
  unweighted loops are the weighted ones with unit weights: `unit_weights`);
* hence (for any scale `s`, `spec_maps_centroid`) the centroid of `A` is mapped onto that of `B` and the last column is
  `(0, 0, 0, 1)`, and — for ANY solver that returns orthogonal `U`, `V` with determinant +1 (what `jacobiSVD` with
  `forcePositiveDeterminant` promises; C12's Jacobi theorems and residue) — the linear part is `s` times a rotation
  (`spec_linear_is_scaled_rotation`);
* zero total weight returns the identity, both `doScale` values (`procrustes3_zero_weight`).
NOT proved: the `doScale = true` value (`s = tr (Qᵀ C) / Σ w |a - cA|²` through two Kahan summations: the extracted definitions
`…3_1` are regenerated and validated, the entrywise `ring` proof did not finish in 15 minutes); that the transform is the
least-squares optimum / recovers an exact rigid transform (needs the optimality of the polar factor of `C`); N ≠ 3; rounding.
These are measured by harness/corr/c12_residue.cpp.
-/
namespace ImathVerif.C12P
open ImathVerif ImathVerif.Euler Matrix
set_option linter.unusedSectionVars false
set_option linter.unusedTactic false
set_option linter.unreachableTactic false
variable {α : Type} [Field α] [LinearOrder α] [IsStrictOrderedRing α]

/-- weighted centroid `Σ w_i p_i / Σ w_i` -/
def centroid (w : V3 α) (p0 p1 p2 : V3 α) : V3 α :=
  ⟨(w.x * p0.x + w.y * p1.x + w.z * p2.x) / (w.x + w.y + w.z), (w.x * p0.y + w.y * p1.y + w.z * p2.y) / (w.x + w.y + w.z),
   (w.x * p0.z + w.y * p1.z + w.z * p2.z) / (w.x + w.y + w.z)⟩

/-- `outerProduct (b, a)[i][j] = b[i] * a[j]` -/
def outer (b a : V3 α) : Matrix (Fin 3) (Fin 3) α := Matrix.of fun i j => ![b.x, b.y, b.z] i * ![a.x, a.y, a.z] j
def sub3 (p c : V3 α) : V3 α := ⟨p.x - c.x, p.y - c.y, p.z - c.z⟩

/-- weighted covariance `C = Σ w_i (b_i - cB) ⊗ (a_i - cA)` -/
def cov (w : V3 α) (a0 a1 a2 b0 b1 b2 : V3 α) : Matrix (Fin 3) (Fin 3) α :=
  w.x • outer (sub3 b0 (centroid w b0 b1 b2)) (sub3 a0 (centroid w a0 a1 a2)) +
  w.y • outer (sub3 b1 (centroid w b0 b1 b2)) (sub3 a1 (centroid w a0 a1 a2)) +
  w.z • outer (sub3 b2 (centroid w b0 b1 b2)) (sub3 a2 (centroid w a0 a1 a2))

def ofMat (m : Matrix (Fin 3) (Fin 3) α) : M33 α := ⟨m 0 0, m 0 1, m 0 2, m 1 0, m 1 1, m 1 2, m 2 0, m 2 1, m 2 2⟩
def len2 (v : V3 α) : α := v.x * v.x + v.y * v.y + v.z * v.z

/-- the uniform scale of `doScale`: `tr (Qtᵀ · C) / Σ w |a - cA|²` -/
def scaleOf (w : V3 α) (a0 a1 a2 : V3 α) (C Qt : Matrix (Fin 3) (Fin 3) α) : α :=
  (Qt 0 0 * C 0 0 + Qt 1 0 * C 0 1 + Qt 2 0 * C 0 2 + Qt 0 1 * C 1 0 + Qt 1 1 * C 1 1 + Qt 2 1 * C 1 2 +
    Qt 0 2 * C 2 0 + Qt 1 2 * C 2 1 + Qt 2 2 * C 2 2) /
  (w.x * len2 (sub3 a0 (centroid w a0 a1 a2)) + w.y * len2 (sub3 a1 (centroid w a0 a1 a2)) + w.z * len2 (sub3 a2 (centroid w a0 a1 a2)))

/-- 4×4 homogeneous matrices (row vectors): linear block, translation -/
def linH (L : Matrix (Fin 3) (Fin 3) α) : Matrix (Fin 4) (Fin 4) α :=
  !![L 0 0, L 0 1, L 0 2, 0; L 1 0, L 1 1, L 1 2, 0; L 2 0, L 2 1, L 2 2, 0; 0, 0, 0, 1]
def transH (t : V3 α) : Matrix (Fin 4) (Fin 4) α := !![1, 0, 0, 0; 0, 1, 0, 0; 0, 0, 1, 0; t.x, t.y, t.z, 1]
def negV (t : V3 α) : V3 α := ⟨-t.x, -t.y, -t.z⟩

/-- the documented value: `(translate origin to cB) * s Q * (translate cA to origin)`, transposed for Imath -/
def spec (s : α) (U V : M33 α) (cA cB : V3 α) : Matrix (Fin 4) (Fin 4) α :=
  transH (negV cA) * linH (s • (V.toMat * U.toMatᵀ)) * transH cB

def one3 : V3 α := ⟨1, 1, 1⟩

section tactics
/-- rewrite the solver calls `f ⟨big⟩` into `f (ofMat C)` -/
theorem arg_eq {β : Type} (f : M33 α → β) {X Y : M33 α} (h : X = Y) : f X = f Y := by rw [h]
end tactics

set_option hygiene false in
/-- common proof: unfold the extracted definition, name the two solver results, identify the solver's argument with `cov`,
compare entrywise -/
macro "procrustes_tac" : tactic => `(tactic| (
  generalize hU : svdU _ = U
  generalize hV : svdV _ = V
  have eU : svdU (ofMat (cov w a0 a1 a2 b0 b1 b2)) = U := by
    rw [← hU]; apply arg_eq
    apply M33.ext' <;> (simp [ofMat, cov, outer, sub3, centroid, one3] <;> ring)
  have eV : svdV (ofMat (cov w a0 a1 a2 b0 b1 b2)) = V := by
    rw [← hV]; apply arg_eq
    apply M33.ext' <;> (simp [ofMat, cov, outer, sub3, centroid, one3] <;> ring)
  rw [eU, eV]
  ext i j
  fin_cases i <;> fin_cases j <;>
    simp [M44.toMat, M33.toMat, spec, scaleOf, len2, ofMat, cov, outer, sub3, transH, linH, negV, centroid, one3, Matrix.mul_apply,
      Fin.sum_univ_four, Fin.sum_univ_three, Matrix.vecMul, dotProduct, Matrix.transpose_apply] <;> ring))

set_option maxHeartbeats 4000000 in
/-- weighted, `doScale = false` -/
theorem procrustes3_weighted (svdU svdV : M33 α → M33 α) (a0 a1 a2 b0 b1 b2 w : V3 α) (hw : w.x + w.y + w.z ≠ 0) :
    (Gen.Procrustes.weighted3_0 svdU svdV a0 a1 a2 b0 b1 b2 w).toMat =
      spec 1 (svdU (ofMat (cov w a0 a1 a2 b0 b1 b2))) (svdV (ofMat (cov w a0 a1 a2 b0 b1 b2)))
        (centroid w a0 a1 a2) (centroid w b0 b1 b2) := by
  have hw' : ((0 : α) + w.x + w.y + w.z) ≠ 0 := by simpa using hw
  simp only [Gen.Procrustes.weighted3_0, if_neg hw']
  procrustes_tac

/-- zero total weight: the identity matrix is returned (both `doScale` values) -/
theorem procrustes3_zero_weight (svdU svdV : M33 α → M33 α) (a0 a1 a2 b0 b1 b2 w : V3 α) (hw : w.x + w.y + w.z = 0) :
    (Gen.Procrustes.weighted3_0 svdU svdV a0 a1 a2 b0 b1 b2 w).toMat = 1 ∧
    (Gen.Procrustes.weighted3_1 svdU svdV a0 a1 a2 b0 b1 b2 w).toMat = 1 := by
  have hw' : ((0 : α) + w.x + w.y + w.z) = 0 := by simpa using hw
  constructor
  · simp only [Gen.Procrustes.weighted3_0, if_pos hw']
    ext i j; fin_cases i <;> fin_cases j <;> simp [M44.toMat]
  · simp only [Gen.Procrustes.weighted3_1, if_pos hw']
    ext i j; fin_cases i <;> fin_cases j <;> simp [M44.toMat]

/-- plain centroid and covariance (the `weights == 0` loops of the code) -/
def centroid3 (p0 p1 p2 : V3 α) : V3 α := ⟨(p0.x + p1.x + p2.x) / 3, (p0.y + p1.y + p2.y) / 3, (p0.z + p1.z + p2.z) / 3⟩
def cov3 (a0 a1 a2 b0 b1 b2 : V3 α) : Matrix (Fin 3) (Fin 3) α :=
  outer (sub3 b0 (centroid3 b0 b1 b2)) (sub3 a0 (centroid3 a0 a1 a2)) + outer (sub3 b1 (centroid3 b0 b1 b2)) (sub3 a1 (centroid3 a0 a1 a2)) +
  outer (sub3 b2 (centroid3 b0 b1 b2)) (sub3 a2 (centroid3 a0 a1 a2))

/-- they are the weighted ones with unit weights -/
theorem unit_weights (a0 a1 a2 b0 b1 b2 : V3 α) :
    centroid one3 a0 a1 a2 = centroid3 a0 a1 a2 ∧ cov one3 a0 a1 a2 b0 b1 b2 = cov3 a0 a1 a2 b0 b1 b2 := by
  have h3 : (1 : α) + 1 + 1 = 3 := by norm_num
  have hc : ∀ p0 p1 p2 : V3 α, centroid one3 p0 p1 p2 = centroid3 p0 p1 p2 := by
    intro p0 p1 p2; simp only [centroid, centroid3, one3, one_mul, h3]
  refine ⟨hc _ _ _, ?_⟩
  have hc' : ∀ p0 p1 p2 : V3 α, centroid (⟨1, 1, 1⟩ : V3 α) p0 p1 p2 = centroid3 p0 p1 p2 := hc
  simp only [cov, cov3, one3, one_smul, hc']

set_option maxHeartbeats 4000000 in
/-- unweighted (the code has separate loops for `weights == 0`), `doScale = false` -/
theorem procrustes3_unweighted (svdU svdV : M33 α → M33 α) (a0 a1 a2 b0 b1 b2 : V3 α) :
    (Gen.Procrustes.unweighted3_0 svdU svdV a0 a1 a2 b0 b1 b2).toMat =
      spec 1 (svdU (ofMat (cov3 a0 a1 a2 b0 b1 b2))) (svdV (ofMat (cov3 a0 a1 a2 b0 b1 b2)))
        (centroid3 a0 a1 a2) (centroid3 b0 b1 b2) := by
  simp only [Gen.Procrustes.unweighted3_0]
  generalize hU : svdU _ = U
  generalize hV : svdV _ = V
  have eU : svdU (ofMat (cov3 a0 a1 a2 b0 b1 b2)) = U := by
    rw [← hU]; apply arg_eq
    apply M33.ext' <;> (simp [ofMat, cov3, outer, sub3, centroid3] <;> ring)
  have eV : svdV (ofMat (cov3 a0 a1 a2 b0 b1 b2)) = V := by
    rw [← hV]; apply arg_eq
    apply M33.ext' <;> (simp [ofMat, cov3, outer, sub3, centroid3] <;> ring)
  rw [eU, eV]
  ext i j
  fin_cases i <;> fin_cases j <;>
    simp [M44.toMat, M33.toMat, spec, transH, linH, negV, centroid3, Matrix.mul_apply,
      Fin.sum_univ_four, Fin.sum_univ_three, Matrix.vecMul, dotProduct, Matrix.transpose_apply] <;> ring

/-! ## consequences of the value -/

/-- the homogeneous row vector of a point -/
def hom (p : V3 α) : Fin 4 → α := ![p.x, p.y, p.z, 1]

/-- the centroid of `A` is mapped onto the centroid of `B` and the last column is `(0, 0, 0, 1)`, whatever the solver returns -/
theorem spec_maps_centroid (s : α) (U V : M33 α) (cA cB : V3 α) :
    Matrix.vecMul (hom cA) (spec s U V cA cB) = hom cB ∧
    (∀ i : Fin 3, spec s U V cA cB (Fin.castSucc i) 3 = 0) ∧ spec s U V cA cB 3 3 = 1 := by
  refine ⟨?_, ?_, ?_⟩
  · ext j
    fin_cases j <;>
      simp [spec, hom, transH, linH, negV, Matrix.vecMul, dotProduct, Matrix.mul_apply, Fin.sum_univ_four, Fin.sum_univ_three] <;> ring
  · intro i
    fin_cases i <;> simp [spec, transH, linH, negV, Matrix.mul_apply, Fin.sum_univ_four]
  · simp [spec, transH, linH, negV, Matrix.mul_apply, Fin.sum_univ_four]

/-- for ANY solver returning orthogonal `U`, `V` with determinant +1 (jacobiSVD with forcePositiveDeterminant): the linear block of
the result is `s` times a rotation `Q = V·Uᵀ` (`Q·Qᵀ = 1`, `det Q = 1`) -/
theorem spec_linear_is_scaled_rotation (s : α) (U V : M33 α) (cA cB : V3 α)
    (hU : U.toMat * U.toMatᵀ = 1) (hV : V.toMat * V.toMatᵀ = 1) (dU : U.toMat.det = 1) (dV : V.toMat.det = 1) :
    (∀ i j : Fin 3, spec s U V cA cB (Fin.castSucc i) (Fin.castSucc j) = s * (V.toMat * U.toMatᵀ) i j) ∧
    (V.toMat * U.toMatᵀ) * (V.toMat * U.toMatᵀ)ᵀ = 1 ∧ (V.toMat * U.toMatᵀ).det = 1 := by
  refine ⟨?_, ?_, ?_⟩
  · intro i j
    fin_cases i <;> fin_cases j <;>
      simp [spec, transH, linH, negV, Matrix.mul_apply, Fin.sum_univ_four, Fin.sum_univ_three]
  · have hU' : U.toMatᵀ * U.toMat = 1 := mul_eq_one_comm.mp hU
    rw [Matrix.transpose_mul, Matrix.transpose_transpose, Matrix.mul_assoc, ← Matrix.mul_assoc U.toMatᵀ, hU', Matrix.one_mul, hV]
  · rw [Matrix.det_mul, Matrix.det_transpose, dU, dV, mul_one]

/-- non-vacuity: the identity "solver" (`U = V = 1`) on three concrete points: the result is the translation between the centroids -/
theorem nonvacuity_procrustes3 :
    (Gen.Procrustes.unweighted3_0 (fun _ => (⟨1, 0, 0, 0, 1, 0, 0, 0, 1⟩ : M33 ℚ)) (fun _ => ⟨1, 0, 0, 0, 1, 0, 0, 0, 1⟩)
      ⟨0, 0, 0⟩ ⟨3, 0, 0⟩ ⟨0, 3, 0⟩ ⟨1, 2, 3⟩ ⟨4, 2, 3⟩ ⟨1, 5, 3⟩) = ⟨1, 0, 0, 0, 0, 1, 0, 0, 0, 0, 1, 0, 1, 2, 3, 1⟩ := by
  simp only [Gen.Procrustes.unweighted3_0]
  norm_num

end ImathVerif.C12P
