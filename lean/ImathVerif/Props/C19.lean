import ImathVerif.Lemmas.FixedArrayLemmas
import ImathVerif.Model.FixedArrayWitness
/-!
# C19 — PyImath arrays index like Python sequences and honour read-only protection

Theorems about the hand model `Model/FixedArray.lean` (+ `FixedArray2D`, `StringTable`,
`BufferProtocol`), which is tied to `/repo` by the correspondence run of `tools/props/c19.py`.

The model is parametrised by `Cfg`.  `Cfg.asWritten` mirrors the code as it is; `Cfg.repaired`
is the evidently intended behaviour.  Theorems that hold only for the repaired variant are stated
for it at full strength, and the NEGATION is proved for the as-written variant on a concrete
witness program (`Model/FixedArrayWitness.lean`), which the check replays against the real module.
Which variant the current tree is, is decided by the correspondence run.
-/
namespace ImathVerif.C19
open ImathVerif.FixedArray

deriving instance DecidableEq for Except

/-! ## Read-only protection -/

/-- buffer `b` is protected: every Python object viewing it is read-only -/
def Protected (s : State) (b : Nat) : Prop := ∀ v ∈ s.env, v.buf = b → v.writable = false

instance (s : State) (b : Nat) : Decidable (Protected s b) := by unfold Protected; infer_instance

/-- the array a statement writes through -/
def Op.target : Op → Option Nat
  | .setScalar v _ _ | .setScalarMask v _ _ | .setVector v _ _ | .setVectorMask v _ _
  | .iaddScalar v _ | .iaddVector v _ => some v
  | _ => none

theorem getElem?_append_lt {α : Type} {l : List α} {x : α} {b : Nat} (hb : b < l.length) :
    (l ++ [x])[b]? = l[b]? := by
  simp [List.getElem?_append_left hb]

private theorem push_protected {s : State} {b : Nat} {h' : Heap} {f : View}
    (hp : Protected s b) (hf : f.buf = b → f.writable = false) :
    Protected (s.push h' f).1 b := by
  intro v hv hvb
  simp only [State.push, List.mem_append, List.mem_singleton] at hv
  cases hv with
  | inl h => exact hp v h hvb
  | inr h => subst h; exact hf hvb

private theorem withNew_protected {s : State} {b : Nat} (hb : b < s.heap.length) (hp : Protected s b)
    {r : Except Err (Heap × View)} (hfresh : ∀ x, r = .ok x → Fresh s.heap x) :
    (s.withNew r).1.heap[b]? = s.heap[b]? ∧ Protected (s.withNew r).1 b ∧
      s.heap.length ≤ (s.withNew r).1.heap.length := by
  cases r with
  | error e => exact ⟨rfl, hp, Nat.le_refl _⟩
  | ok x =>
    obtain ⟨h', f⟩ := x
    obtain ⟨vals, h1, h2⟩ := hfresh _ rfl
    simp only at h1 h2
    subst h1
    refine ⟨?_, ?_, ?_⟩
    · simp [State.withNew, State.push, getElem?_append_lt hb]
    · exact push_protected hp (fun hfb => by omega)
    · simp [State.withNew, State.push]

private theorem withHeap_protected {s : State} {b : Nat} (hp : Protected s b) {a : View} (ha : a ∈ s.env)
    {r : Except Err Heap}
    (hm : ∀ h', r = .ok h' → a.writable = true ∧ Frame a.buf s.heap h') :
    (s.withHeap r).1.heap[b]? = s.heap[b]? ∧ Protected (s.withHeap r).1 b ∧
      s.heap.length ≤ (s.withHeap r).1.heap.length := by
  cases r with
  | error e => exact ⟨rfl, hp, Nat.le_refl _⟩
  | ok h' =>
    obtain ⟨hw, hf⟩ := hm h' rfl
    have hne : b ≠ a.buf := by
      intro hEq
      have := hp a ha hEq.symm
      simp [hw] at this
    exact ⟨hf.2 b hne, hp, by simp [State.withHeap, hf.1]⟩

theorem view_mem {s : State} {v : Nat} {a : View} (h : s.view v = .ok a) : a ∈ s.env := by
  unfold State.view at h
  split at h
  · rename_i x hx
    simp at h; subst h
    exact List.mem_of_getElem? hx
  · simp at h

/-- One statement, any statement: a protected buffer keeps its contents and stays protected
    (model variant in which `WritableMaskedAccess` throws). -/
theorem step_protected (cfg : Cfg) (hc : cfg.maskedAccessThrows = true) (s : State) (b : Nat)
    (hb : b < s.heap.length) (hp : Protected s b) (op : Op) :
    (step cfg s op).1.heap[b]? = s.heap[b]? ∧ Protected (step cfg s op).1 b ∧
      s.heap.length ≤ (step cfg s op).1.heap.length := by
  cases op with
  | alloc vals =>
    simp only [step]
    exact withNew_protected hb hp (r := .ok (alloc s.heap vals)) (fun x hx => by
      simp at hx; subst hx; exact alloc_fresh _ _)
  | len v =>
    simp only [step]; split <;> exact ⟨rfl, hp, Nat.le_refl _⟩
  | getitem v i =>
    simp only [step]
    split
    · split <;> exact ⟨rfl, hp, Nat.le_refl _⟩
    · exact ⟨rfl, hp, Nat.le_refl _⟩
  | getslice v idx =>
    simp only [step]
    split
    · exact withNew_protected hb hp (fun x hx => getslice_fresh hx)
    · exact ⟨rfl, hp, Nat.le_refl _⟩
  | getmask v m =>
    simp only [step]
    split
    · rename_i a mk ha hm
      split
      · rename_i f hf
        have hi := getsliceMask_inherits hf
        refine ⟨rfl, push_protected hp (fun hfb => ?_), Nat.le_refl _⟩
        rw [hi.2.1]; exact hp a (view_mem ha) (hi.1 ▸ hfb)
      · exact ⟨rfl, hp, Nat.le_refl _⟩
    · exact ⟨rfl, hp, Nat.le_refl _⟩
    · exact ⟨rfl, hp, Nat.le_refl _⟩
  | copy v =>
    simp only [step]
    split
    · rename_i a ha
      exact ⟨rfl, push_protected hp (fun hfb => hp a (view_mem ha) hfb), Nat.le_refl _⟩
    · exact ⟨rfl, hp, Nat.le_refl _⟩
  | convert v =>
    simp only [step]
    split
    · exact withNew_protected hb hp (fun x hx => convert_fresh hx)
    · exact ⟨rfl, hp, Nat.le_refl _⟩
  | setScalar v idx x =>
    simp only [step]
    split
    · rename_i a ha
      exact withHeap_protected hp (view_mem ha) (fun h' hr =>
        let m := setitemScalar_mutates hr; ⟨m.writable, m.frame⟩)
    · exact ⟨rfl, hp, Nat.le_refl _⟩
  | setScalarMask v m x =>
    simp only [step]
    split
    · rename_i a mk ha hm
      exact withHeap_protected hp (view_mem ha) (fun h' hr =>
        let m := setitemScalarMask_mutates hr; ⟨m.writable, m.frame⟩)
    · exact ⟨rfl, hp, Nat.le_refl _⟩
    · exact ⟨rfl, hp, Nat.le_refl _⟩
  | setVector v idx d =>
    simp only [step]
    split
    · rename_i a da ha hd
      exact withHeap_protected hp (view_mem ha) (fun h' hr =>
        let m := setitemVector_mutates hr; ⟨m.writable, m.frame⟩)
    · exact ⟨rfl, hp, Nat.le_refl _⟩
    · exact ⟨rfl, hp, Nat.le_refl _⟩
  | setVectorMask v m d =>
    simp only [step]
    split
    · rename_i a mk da ha hm hd
      exact withHeap_protected hp (view_mem ha) (fun h' hr =>
        let m := setitemVectorMask_mutates hr; ⟨m.writable, m.frame⟩)
    · exact ⟨rfl, hp, Nat.le_refl _⟩
    · exact ⟨rfl, hp, Nat.le_refl _⟩
    · exact ⟨rfl, hp, Nat.le_refl _⟩
  | ifelseScalar v c x =>
    simp only [step]
    split
    · exact withNew_protected hb hp (fun x hx => ifelseScalar_fresh hx)
    · exact ⟨rfl, hp, Nat.le_refl _⟩
    · exact ⟨rfl, hp, Nat.le_refl _⟩
  | ifelseVector v c o =>
    simp only [step]
    split
    · exact withNew_protected hb hp (fun x hx => ifelseVector_fresh hx)
    · exact ⟨rfl, hp, Nat.le_refl _⟩
    · exact ⟨rfl, hp, Nat.le_refl _⟩
    · exact ⟨rfl, hp, Nat.le_refl _⟩
  | makeReadOnly v =>
    simp only [step]
    split
    · rename_i a ha
      refine ⟨rfl, ?_, Nat.le_refl _⟩
      intro w hw hwb
      simp only at hw
      rcases List.mem_or_eq_of_mem_set hw with h | h
      · exact hp w h hwb
      · subst h; rfl
    · exact ⟨rfl, hp, Nat.le_refl _⟩
  | iaddScalar v x =>
    simp only [step]
    split
    · rename_i a ha
      exact withHeap_protected hp (view_mem ha) (fun h' hr =>
        let m := iaddScalar_mutates hr; ⟨m.1 hc, m.2.1⟩)
    · exact ⟨rfl, hp, Nat.le_refl _⟩
  | iaddVector v d =>
    simp only [step]
    split
    · rename_i a da ha hd
      exact withHeap_protected hp (view_mem ha) (fun h' hr =>
        let m := iaddVector_mutates hr; ⟨m.1 hc, m.2.1⟩)
    · exact ⟨rfl, hp, Nat.le_refl _⟩
    · exact ⟨rfl, hp, Nat.le_refl _⟩

/-- **Read-only invariant over arbitrary programs** (repaired accessor).  If every Python object
    viewing buffer `b` is read-only, then after ANY sequence of statements of ANY length the buffer
    holds exactly the same data and is still protected: views derived later (masked references, handle
    copies) are read-only too, slices are copies in fresh buffers, and no operation writes through a
    read-only view. -/
theorem readonly_invariant (cfg : Cfg) (hc : cfg.maskedAccessThrows = true) :
    ∀ (ops : List Op) (s : State) (b : Nat), b < s.heap.length → Protected s b →
      (exec cfg s ops).heap[b]? = s.heap[b]? ∧ Protected (exec cfg s ops) b := by
  intro ops
  induction ops with
  | nil => intro s b _ hp; exact ⟨rfl, hp⟩
  | cons op ops ih =>
    intro s b hb hp
    obtain ⟨h1, h2, h3⟩ := step_protected cfg hc s b hb hp op
    obtain ⟨h4, h5⟩ := ih (step cfg s op).1 b (by omega) h2
    exact ⟨by simp only [exec]; rw [h4, h1], by simpa only [exec] using h5⟩

/-- non-vacuity: the witness set-up state has buffer 0 protected -/
example : Protected (exec Cfg.repaired State.empty witnessSetup) 0 ∧
    0 < (exec Cfg.repaired State.empty witnessSetup).heap.length := by decide

/-- **The invariant is FALSE for the code as written**: in the state reached by
    `a = IntArray([10,11,12]); a.makeReadOnly(); m = IntArray([1,0,1]); v = a[m]`
    buffer 0 is protected, and `v += 5` changes it. -/
theorem readonly_invariant_asWritten_false :
    ¬ (∀ (ops : List Op) (s : State) (b : Nat), b < s.heap.length → Protected s b →
        (exec Cfg.asWritten s ops).heap[b]? = s.heap[b]?) := by
  intro h
  have := h witnessMaskedInplaceScalar (exec Cfg.asWritten State.empty witnessSetup) 0 (by decide) (by decide)
  revert this
  decide

/-- same through the array right-hand side path (`VectorizedVoidMaskableMemberFunction1`) -/
theorem readonly_invariant_asWritten_false_vector :
    (exec Cfg.asWritten State.empty (witnessSetup ++ witnessMaskedInplaceVector)).heap[0]? = some [17, 11, 20] ∧
    (exec Cfg.repaired State.empty (witnessSetup ++ witnessMaskedInplaceVector)).heap[0]? = some [10, 11, 12] := by
  decide

/-- what the as-written model does on the witness, line by line (replayed against the real module) -/
theorem witness_masked_inplace_trace :
    (run Cfg.asWritten State.empty (witnessSetup ++ witnessMaskedInplaceScalar)).2
      = [.ok (.newView 0), .ok .none, .ok (.newView 1), .ok (.newView 2), .ok .none] ∧
    (exec Cfg.asWritten State.empty (witnessSetup ++ witnessMaskedInplaceScalar)).heap[0]? = some [15, 11, 17] ∧
    (run Cfg.repaired State.empty (witnessSetup ++ witnessMaskedInplaceScalar)).2
      = [.ok (.newView 0), .ok .none, .ok (.newView 1), .ok (.newView 2), .error .readOnly] := by
  decide

/-- Statement level: a mutating statement whose target is read-only raises and changes nothing
    (neither the heap nor any object), in the repaired variant. -/
theorem readonly_step_raises (cfg : Cfg) (hc : cfg.maskedAccessThrows = true) (s : State) (op : Op) (v : Nat)
    (a : View) (ht : Op.target op = some v) (ha : s.env[v]? = some a) (hw : a.writable = false) :
    (step cfg s op).1 = s ∧ ∃ e, (step cfg s op).2 = .error e := by
  have hview : s.view v = .ok a := by simp [State.view, ha]
  have key : ∀ r : Except Err Heap, (∀ h', r = .ok h' → a.writable = true) →
      (s.withHeap r).1 = s ∧ ∃ e, (s.withHeap r).2 = .error e := by
    intro r hr
    cases r with
    | error e => exact ⟨rfl, e, rfl⟩
    | ok h' => have := hr h' rfl; simp [hw] at this
  cases op with
  | setScalar v' idx x =>
    simp only [Op.target, Option.some.injEq] at ht; subst ht
    simp only [step, hview]
    exact key _ (fun h' hr => (setitemScalar_mutates hr).writable)
  | setScalarMask v' m x =>
    simp only [Op.target, Option.some.injEq] at ht; subst ht
    simp only [step, hview]
    split
    · rename_i a' mk ha' _
      simp at ha'; subst ha'
      exact key _ (fun h' hr => (setitemScalarMask_mutates hr).writable)
    · exact ⟨rfl, _, rfl⟩
    · exact ⟨rfl, _, rfl⟩
  | setVector v' idx d =>
    simp only [Op.target, Option.some.injEq] at ht; subst ht
    simp only [step, hview]
    split
    · rename_i a' da ha' _
      simp at ha'; subst ha'
      exact key _ (fun h' hr => (setitemVector_mutates hr).writable)
    · exact ⟨rfl, _, rfl⟩
    · exact ⟨rfl, _, rfl⟩
  | setVectorMask v' m d =>
    simp only [Op.target, Option.some.injEq] at ht; subst ht
    simp only [step, hview]
    split
    · rename_i a' mk da ha' _ _
      simp at ha'; subst ha'
      exact key _ (fun h' hr => (setitemVectorMask_mutates hr).writable)
    · exact ⟨rfl, _, rfl⟩
    · exact ⟨rfl, _, rfl⟩
    · exact ⟨rfl, _, rfl⟩
  | iaddScalar v' x =>
    simp only [Op.target, Option.some.injEq] at ht; subst ht
    simp only [step, hview]
    exact key _ (fun h' hr => (iaddScalar_mutates hr).1 hc)
  | iaddVector v' d =>
    simp only [Op.target, Option.some.injEq] at ht; subst ht
    simp only [step, hview]
    split
    · rename_i a' da ha' _
      simp at ha'; subst ha'
      exact key _ (fun h' hr => (iaddVector_mutates hr).1 hc)
    · exact ⟨rfl, _, rfl⟩
    · exact ⟨rfl, _, rfl⟩
  | _ => simp [Op.target] at ht

/-- the error raised by the element / slice / mask assignments is the read-only one -/
theorem setitem_readonly_error (h : Heap) (v m d : View) (idx : PyIdx) (x : Int) (hw : v.writable = false) :
    setitemScalar h v idx x = .error .readOnly ∧ setitemScalarMask h v m x = .error .readOnly ∧
    setitemVector h v idx d = .error .readOnly ∧ setitemVectorMask h v m d = .error .readOnly := by
  simp [setitemScalar, setitemScalarMask, setitemVector, setitemVectorMask, hw]

/-- `a += x` on a read-only array raises the read-only error through either accessor class (repaired) -/
theorem iaddScalar_readonly_error (cfg : Cfg) (hc : cfg.maskedAccessThrows = true) (h : Heap) (a : View) (x : Int)
    (hw : a.writable = false) : iaddScalar cfg h a x = .error .readOnly := by
  unfold iaddScalar selfAccess WritableMaskedAccess.mk' WritableDirectAccess.mk' ReadOnlyMaskedAccess.mk'
    ReadOnlyDirectAccess.mk'
  cases hi : a.indices with
  | none => simp [View.isMasked, hi, hw]
  | some idx => simp [View.isMasked, hi, hw, hc]

/-- a view never becomes writable again, and never moves to another buffer -/
theorem writable_monotone (cfg : Cfg) (s : State) (op : Op) (i : Nat) (a : View) (ha : s.env[i]? = some a) :
    ∃ a', (step cfg s op).1.env[i]? = some a' ∧ a'.buf = a.buf ∧ (a.writable = false → a'.writable = false) := by
  have hi : i < s.env.length := (List.getElem?_eq_some_iff.1 ha).1
  have keep : ∀ (h : Heap) (f : View), ∃ a', (s.push h f).1.env[i]? = some a' ∧ a'.buf = a.buf ∧
      (a.writable = false → a'.writable = false) :=
    fun h f => ⟨a, by simp [State.push, List.getElem?_append_left hi, ha], rfl, id⟩
  have same : ∃ a', s.env[i]? = some a' ∧ a'.buf = a.buf ∧ (a.writable = false → a'.writable = false) :=
    ⟨a, ha, rfl, id⟩
  have wh : ∀ r : Except Err Heap, ∃ a', (s.withHeap r).1.env[i]? = some a' ∧ a'.buf = a.buf ∧
      (a.writable = false → a'.writable = false) := by
    intro r; cases r <;> exact same
  have wn : ∀ r : Except Err (Heap × View), ∃ a', (s.withNew r).1.env[i]? = some a' ∧ a'.buf = a.buf ∧
      (a.writable = false → a'.writable = false) := by
    intro r
    cases r with
    | error e => exact same
    | ok x => exact keep x.1 x.2
  cases op <;> simp only [step]
  case alloc vals => exact keep _ _
  case len v => split <;> exact same
  case getitem v j => split <;> first | exact same | (split <;> exact same)
  case getslice v idx => split <;> first | exact same | exact wn _
  case getmask v m => split <;> first | exact same | (split <;> first | exact same | exact keep _ _)
  case copy v => split <;> first | exact same | exact keep _ _
  case convert v => split <;> first | exact same | exact wn _
  case setScalar v idx x => split <;> first | exact same | exact wh _
  case setScalarMask v m x => split <;> first | exact same | exact wh _
  case setVector v idx d => split <;> first | exact same | exact wh _
  case setVectorMask v m d => split <;> first | exact same | exact wh _
  case ifelseScalar v c x => split <;> first | exact same | exact wn _
  case ifelseVector v c o => split <;> first | exact same | exact wn _
  case makeReadOnly v =>
    split
    · rename_i b hb
      by_cases hvi : v = i
      · subst hvi
        have : b = a := by
          simp [State.view, ha] at hb; exact hb.symm
        subst this
        exact ⟨{ b with writable := false }, by simp [List.getElem?_set, hi], rfl, fun _ => rfl⟩
      · exact ⟨a, by simp [List.getElem?_set, hvi, ha], rfl, id⟩
    · exact same
  case iaddScalar v x => split <;> first | exact same | exact wh _
  case iaddVector v d => split <;> first | exact same | exact wh _

end ImathVerif.C19
